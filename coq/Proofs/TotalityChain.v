(* Proofs/TotalityChain.v — property C20, part 1: the straight-line fragment and what it lowers to.

   Fragment ([straight]): operator trees of any depth and width (EOp with plain immediates, NaryExpr),
   sequences of them nested to any depth (ESeq), Approve/Reject/ExitProgram (EExit) and the main
   routine's Return(e) — no branching, no loops, no scratch slots, no subroutine calls.  Every
   operator must pass PyTeal's own availability check ([op_version_ok]) and a caller-supplied
   predicate [okop] (used later for: present in the target version and mode, not store/load).

   Result ([lower_straight]): such an expression lowers to a DESCENDING CHAIN of simple blocks:
   the fragment occupies the ids [g_next g, g_next g'), the block with the lowest id is the
   fragment's end and continues with the continuation k, every other block i continues with i-1,
   and the fragment's start is the highest id.  One block per operator node, plus one (empty) per
   Seq: the chain is as long as the program. *)
From Coq Require Import List Arith NArith String Bool Lia.
From PV Require Import Base.Bytes AVM.Syntax Src.Expr Comp.Blocks Comp.WideRatio Comp.Lower Proofs.LowerFrame.
Import ListNotations.

Definition plain_arg (a : arg) : bool := match a with AInt _ | AStr _ => true | _ => false end.

Lemma add_block_inc g b i g' : add_block g b = (i, g') -> g_inc g' = g_inc g.
Proof. unfold add_block. intros E. inversion E; subst. reflexivity. Qed.

(* number of blocks an expression of the fragment lowers to: one per operator node, one per Seq *)
Fixpoint blocks (e : expr) : nat :=
  match e with
  | EOp _ _ _ args => S (list_sum (map blocks args))
  | ENary _ _ args => (List.length args - 1) + list_sum (map blocks args)
  | ESeq es => S (list_sum (map blocks es))
  | EExit v => S (blocks v)
  | EReturn (Some v) => S (blocks v)
  | _ => 0
  end.

Section Fragment.
  Variable o : copts.
  Variable okop : opc -> bool.

  Fixpoint straight (e : expr) : bool :=
    match e with
    | EOp op imms _ args =>
        okop op && op_version_ok o op imms && forallb plain_arg imms && forallb straight args
    | ENary op _ args =>
        okop op && match args with [] => false | _ => true end && forallb straight args
    | ESeq es => forallb straight es
    | EExit v => okop O_return_ && straight v
    | EReturn (Some v) => okop O_return_ && types_match (type_of v) TUint && straight v
    | _ => false
    end.

  Definition good (i : instr) : Prop := okop (i_op i) = true /\ forallb plain_arg (i_args i) = true.

  (* successor of block i in a descending chain whose lowest block is lo and continues with k *)
  Definition nxt (lo i : nat) (k : option id) : option id := if Nat.eqb i lo then k else Some (i - 1).
  (* entry of the (possibly empty) chain [lo, hi) *)
  Definition top (lo hi : nat) (k : option id) : option id := if Nat.eqb lo hi then k else Some (hi - 1).

  Definition seg (g : graph) (lo hi : nat) (k : option id) : Prop :=
    forall i, lo <= i -> i < hi ->
      exists ops, g_blk g i = Some (BSimple ops (nxt lo i k)) /\ Forall good ops.

  Lemma seg_one g lo ops k : g_blk g lo = Some (BSimple ops k) -> Forall good ops -> seg g lo (S lo) k.
  Proof.
    intros B G i L1 L2. assert (i = lo) by lia. subst. exists ops. unfold nxt. rewrite Nat.eqb_refl. auto.
  Qed.

  Lemma seg_frame g g' lo hi k : frame g g' -> hi <= g_next g -> seg g lo hi k -> seg g' lo hi k.
  Proof.
    intros (_ & F & _) H S i L1 L2. destruct (S i L1 L2) as (ops & B & G). exists ops. split; [|exact G].
    rewrite F by lia. exact B.
  Qed.

  Lemma seg_app g lo mid hi k : lo <= mid -> seg g lo mid k -> seg g mid hi (top lo mid k) -> seg g lo hi k.
  Proof.
    intros L S1 S2 i L1 L2. destruct (Nat.lt_ge_cases i mid) as [C|C].
    - apply S1; assumption.
    - destruct (S2 i C L2) as (ops & B & G). exists ops. split; [|exact G]. rewrite B. f_equal. f_equal.
      unfold nxt, top. destruct (Nat.eqb_spec i mid) as [->|N1].
      + destruct (Nat.eqb_spec lo mid) as [->|N2]; [rewrite Nat.eqb_refl; reflexivity|].
        destruct (Nat.eqb_spec mid lo); [lia|reflexivity].
      + destruct (Nat.eqb_spec i lo); [lia|reflexivity].
  Qed.

  Lemma top_succ lo k : top lo (S lo) k = Some lo.
  Proof. unfold top. destruct (Nat.eqb_spec lo (S lo)); [lia|]. f_equal. lia. Qed.

  Lemma top_lt lo hi k : lo < hi -> top lo hi k = Some (hi - 1).
  Proof. intros L. unfold top. destruct (Nat.eqb_spec lo hi); [lia|reflexivity]. Qed.

  Lemma top_eq lo k : top lo lo k = k.
  Proof. unfold top. rewrite Nat.eqb_refl. reflexivity. Qed.

  (* what lowering one expression of the fragment yields *)
  Definition lw_chain (lw : expr -> option id -> graph -> (id * id) * graph) (e : expr) : Prop :=
    forall k g s en g', wf g -> lw e k g = ((s, en), g') ->
      frame g g' /\ g_inc g' = g_inc g /\ g_next g < g_next g' /\ s = g_next g' - 1 /\ en = g_next g /\
      seg g' (g_next g) (g_next g') k /\ g_next g' = g_next g + blocks e.

  (* ... and a list of them in sequence (possibly empty) *)
  Definition list_res (k : option id) (g : graph) (ks en : option id) (g' : graph) (n : nat) : Prop :=
    frame g g' /\ g_inc g' = g_inc g /\ g_next g <= g_next g' /\
    ks = top (g_next g) (g_next g') k /\
    en = (if Nat.eqb (g_next g) (g_next g') then None else Some (g_next g)) /\
    seg g' (g_next g) (g_next g') k /\ g_next g' = g_next g + n.

  Lemma list_res_nil k g : wf g -> list_res k g k None g 0.
  Proof.
    intros W. unfold list_res. rewrite top_eq, Nat.eqb_refl.
    split; [apply frame_refl; exact W|]. split; [reflexivity|]. split; [lia|].
    split; [reflexivity|]. split; [reflexivity|]. split; [intros i L1 L2; lia|lia].
  Qed.

  Section Helpers.
    Variable lw : expr -> option id -> graph -> (id * id) * graph.

    Lemma lower_chain_chain es : Forall (lw_chain lw) es ->
      forall k g ks en g', wf g -> lower_chain lw es k g = ((ks, en), g') -> list_res k g ks en g' (list_sum (map blocks es)).
    Proof.
      induction 1 as [|e t He Ht IH]; intros k g ks en g' W E; cbn [lower_chain] in E.
      - inversion E; subst. apply list_res_nil; exact W.
      - destruct (lower_chain lw t k g) as [[kt endt] g1] eqn:E1.
        destruct (lw e kt g1) as [[s en0] g2] eqn:E2. inversion E; subst; clear E.
        destruct (IH _ _ _ _ _ W E1) as (F1 & I1 & L1 & K1 & N1 & S1 & C1).
        destruct (He _ _ _ _ _ (frame_wf _ _ F1) E2) as (F2 & I2 & L2 & K2 & N2 & S2 & C2).
        unfold list_res. split; [eapply frame_trans; eauto|]. split; [congruence|]. split; [lia|].
        split; [rewrite top_lt by lia; subst; reflexivity|]. split.
        + destruct (Nat.eqb_spec (g_next g) (g_next g')); [lia|].
          subst endt. destruct (Nat.eqb_spec (g_next g) (g_next g1)) as [Q|Q]; cbn [or_some]; [|reflexivity].
          f_equal. lia.
        + split; [|unfold list_sum in *; cbn [blocks List.length map fold_right]; unfold list_sum; cbn [fold_right]; lia].
          apply (seg_app _ _ (g_next g1)); [exact L1| |].
          * eapply seg_frame; [exact F2|lia|exact S1].
          * subst kt. exact S2.
    Qed.

    Lemma lower_nary_rest_chain op l : okop op = true -> Forall (lw_chain lw) l ->
      forall k g ks en g', wf g -> lower_nary_rest lw op l k g = ((ks, en), g') ->
        list_res k g ks en g' (List.length l + list_sum (map blocks l)).
    Proof.
      intros OK. induction 1 as [|e t He Ht IH]; intros k g ks en g' W E; cbn [lower_nary_rest] in E.
      - inversion E; subst. apply list_res_nil; exact W.
      - destruct (lower_nary_rest lw op t k g) as [[kt endt] g1] eqn:E1.
        destruct (add_block g1 (BSimple [I op []] kt)) as [opb g2] eqn:E2.
        destruct (lw e (Some opb) g2) as [[s en0] g3] eqn:E3. inversion E; subst; clear E.
        destruct (IH _ _ _ _ _ W E1) as (F1 & I1 & L1 & K1 & N1 & S1 & C1).
        pose proof (add_block_inc _ _ _ _ E2) as I2.
        destruct (add_block_spec _ _ _ _ (frame_wf _ _ F1) E2) as (F2 & B2 & P2 & Q2).
        destruct (He _ _ _ _ _ (frame_wf _ _ F2) E3) as (F3 & I3 & L3 & K3 & N3 & S3 & C3).
        assert (SA : seg g2 (g_next g) (g_next g2) k).
        { apply (seg_app _ _ (g_next g1)); [exact L1| |].
          - eapply seg_frame; [exact F2|lia|exact S1].
          - rewrite Q2, <- P2. eapply seg_one; [rewrite B2; subst kt; rewrite <- P2; reflexivity|].
            constructor; [|constructor]. split; [exact OK|reflexivity]. }
        unfold list_res. split; [eapply frame_trans; [exact F1|eapply frame_trans; eauto]|].
        split; [congruence|]. split; [lia|].
        split; [rewrite top_lt by lia; subst; reflexivity|]. split.
        + destruct (Nat.eqb_spec (g_next g) (g_next g')); [lia|].
          subst endt. destruct (Nat.eqb_spec (g_next g) (g_next g1)) as [Q|Q]; cbn [or_some]; [|reflexivity].
          f_equal. lia.
        + split; [|unfold list_sum in *; cbn [blocks List.length map fold_right]; unfold list_sum; cbn [fold_right]; lia].
          apply (seg_app _ _ (g_next g2)); [lia| |].
          * eapply seg_frame; [exact F3|lia|exact SA].
          * rewrite top_lt by lia. rewrite Q2 in S3 |- *. replace (S opb - 1) with opb by lia. exact S3.
    Qed.
  End Helpers.

  Lemma forallb_Forall_chain (P : expr -> Prop) (Q : expr -> Prop) (l : list expr) :
    Forall (fun e => straight e = true -> Q e) l -> forallb straight l = true -> Forall Q l.
  Proof.
    induction 1 as [|e t He Ht IH]; cbn [forallb]; intros H; [constructor|].
    apply andb_true_iff in H. destruct H as [H1 H2]. constructor; auto.
  Qed.

  (* ---- the lowering of the fragment, in the main routine ---- *)
  Theorem lower_straight e :
    straight e = true -> forall c, l_sub_ret c = None -> lw_chain (lower o c) e.
  Proof.
    induction e using expr_ind'; intros ST c MC k g s_ en_ g' W E; cbn [straight] in ST; try discriminate;
      cbn [lower] in E.
    - (* EOp *)
      apply andb_true_iff in ST. destruct ST as [ST A4].
      apply andb_true_iff in ST. destruct ST as [ST A3].
      apply andb_true_iff in ST. destruct ST as [A1 A2].
      assert (HA : Forall (lw_chain (lower o c)) args).
      { apply (forallb_Forall_chain (fun _ => True)); [|exact A4].
        eapply Forall_impl; [|exact H]. intros a Ha Sa. apply Ha; assumption. }
      destruct (add_block g (BSimple [I o0 imms] k)) as [opb g1] eqn:E1.
      destruct (lower_chain (lower o c) args (Some opb) g1) as [[ks x] g2] eqn:E2. injection E as Es Een Eg; subst s_ en_; subst g2.
      pose proof (add_block_inc _ _ _ _ E1) as I1.
      destruct (add_block_spec _ _ _ _ W E1) as (F1 & B1 & P1 & Q1).
      destruct (lower_chain_chain _ _ HA _ _ _ _ _ (frame_wf _ _ F1) E2) as (F2 & I2 & L2 & K2 & N2 & S2 & C2).
      split; [eapply frame_trans; eauto|]. split; [congruence|]. split; [lia|]. split; [|split].
      + subst ks. unfold top. rewrite Q1. destruct (Nat.eqb_spec (S opb) (g_next g')) as [Q|Q]; cbn [or_else]; lia.
      + exact P1.
      + split; [|unfold list_sum in *; cbn [blocks List.length map fold_right]; unfold list_sum; cbn [fold_right]; lia].
        apply (seg_app _ _ (g_next g1)); [lia| |].
        * eapply seg_frame; [exact F2|lia|].
          rewrite Q1, <- P1. eapply seg_one; [exact B1|].
          constructor; [|constructor]. split; [exact A1|exact A3].
        * rewrite top_lt by lia. rewrite Q1 in S2 |- *. replace (S opb - 1) with opb by lia. exact S2.
    - (* ENary *)
      apply andb_true_iff in ST. destruct ST as [ST A3].
      apply andb_true_iff in ST. destruct ST as [A1 A2].
      destruct args as [|a1 rest]; [discriminate|].
      inversion H as [|? ? H1 HR]; subst.
      cbn [forallb] in A3. apply andb_true_iff in A3. destruct A3 as [B1 B2].
      assert (HA : Forall (lw_chain (lower o c)) rest).
      { apply (forallb_Forall_chain (fun _ => True)); [|exact B2].
        eapply Forall_impl; [|exact HR]. intros a Ha Sa. apply Ha; assumption. }
      destruct (lower_nary_rest (lower o c) o0 rest k g) as [[krest endrest] g1] eqn:E1.
      destruct (lower o c a1 krest g1) as [[s1 e1] g2] eqn:E2. injection E as Es Een Eg; subst s_ en_; subst g2.
      destruct (lower_nary_rest_chain _ _ _ A1 HA _ _ _ _ _ W E1) as (F1 & I1 & L1 & K1 & N1 & S1 & C1).
      destruct (H1 B1 c MC _ _ _ _ _ (frame_wf _ _ F1) E2) as (F2 & I2 & L2 & K2 & N2 & S2 & C2).
      split; [eapply frame_trans; eauto|]. split; [congruence|]. split; [lia|]. split; [exact K2|]. split.
      + subst endrest. destruct (Nat.eqb_spec (g_next g) (g_next g1)) as [Q|Q]; cbn [or_else]; lia.
      + split; [|unfold list_sum in *; cbn [blocks List.length map fold_right]; unfold list_sum; cbn [fold_right]; lia].
        apply (seg_app _ _ (g_next g1)); [exact L1| |].
        * eapply seg_frame; [exact F2|lia|exact S1].
        * subst krest. exact S2.
    - (* ESeq *)
      assert (HA : Forall (lw_chain (lower o c)) es).
      { apply (forallb_Forall_chain (fun _ => True)); [|exact ST].
        eapply Forall_impl; [|exact H]. intros a Ha Sa. apply Ha; assumption. }
      destruct (lower_chain (lower o c) es k g) as [[ks en0] g1] eqn:E1.
      destruct (add_block g1 (BSimple [] ks)) as [st g2] eqn:E2. injection E as Es Een Eg; subst s_ en_; subst g2.
      destruct (lower_chain_chain _ _ HA _ _ _ _ _ W E1) as (F1 & I1 & L1 & K1 & N1 & S1 & C1).
      pose proof (add_block_inc _ _ _ _ E2) as I2.
      destruct (add_block_spec _ _ _ _ (frame_wf _ _ F1) E2) as (F2 & B2 & P2 & Q2).
      split; [eapply frame_trans; eauto|]. split; [congruence|]. split; [lia|]. split; [lia|]. split.
      + subst en0. destruct (Nat.eqb_spec (g_next g) (g_next g1)) as [Q|Q]; cbn [or_else]; lia.
      + split; [|unfold list_sum in *; cbn [blocks List.length map fold_right]; unfold list_sum; cbn [fold_right]; lia].
        apply (seg_app _ _ (g_next g1)); [exact L1| |].
        * eapply seg_frame; [exact F2|lia|exact S1].
        * rewrite Q2, <- P2. eapply seg_one; [rewrite B2; subst ks; rewrite <- P2; reflexivity|constructor].
    - (* EReturn *)
      destruct v as [x|]; [|discriminate].
      apply andb_true_iff in ST. destruct ST as [ST A3].
      apply andb_true_iff in ST. destruct ST as [A1 A2].
      inversion H as [|? Hx]; subst. rewrite MC in E.
      destruct (add_block g (BSimple [I O_return_ []] k)) as [opb g1] eqn:E1.
      destruct (lower o c x (Some opb) g1) as [[s0 xe] g2] eqn:E2. injection E as Es Een Eg; subst s_ en_; subst g2.
      pose proof (add_block_inc _ _ _ _ E1) as I1.
      destruct (add_block_spec _ _ _ _ W E1) as (F1 & B1 & P1 & Q1).
      destruct (Hx A3 c MC _ _ _ _ _ (frame_wf _ _ F1) E2) as (F2 & I2 & L2 & K2 & N2 & S2 & C2).
      split; [eapply frame_trans; eauto|]. split; [congruence|]. split; [lia|]. split; [exact K2|]. split; [exact P1|].
      split; [|unfold list_sum in *; cbn [blocks List.length map fold_right]; unfold list_sum; cbn [fold_right]; lia].
      apply (seg_app _ _ (g_next g1)); [lia| |].
      + eapply seg_frame; [exact F2|lia|].
        rewrite Q1, <- P1. eapply seg_one; [exact B1|].
        constructor; [|constructor]. split; [exact A1|reflexivity].
      + rewrite top_lt by lia. rewrite Q1 in S2 |- *. replace (S opb - 1) with opb by lia. exact S2.
    - (* EExit *)
      apply andb_true_iff in ST. destruct ST as [A1 A3].
      destruct (add_block g (BSimple [I O_return_ []] k)) as [opb g1] eqn:E1.
      destruct (lower o c e (Some opb) g1) as [[s0 xe] g2] eqn:E2. injection E as Es Een Eg; subst s_ en_; subst g2.
      pose proof (add_block_inc _ _ _ _ E1) as I1.
      destruct (add_block_spec _ _ _ _ W E1) as (F1 & B1 & P1 & Q1).
      destruct (IHe A3 c MC _ _ _ _ _ (frame_wf _ _ F1) E2) as (F2 & I2 & L2 & K2 & N2 & S2 & C2).
      split; [eapply frame_trans; eauto|]. split; [congruence|]. split; [lia|]. split; [exact K2|]. split; [exact P1|].
      split; [|unfold list_sum in *; cbn [blocks List.length map fold_right]; unfold list_sum; cbn [fold_right]; lia].
      apply (seg_app _ _ (g_next g1)); [lia| |].
      + eapply seg_frame; [exact F2|lia|].
        rewrite Q1, <- P1. eapply seg_one; [exact B1|].
        constructor; [|constructor]. split; [exact A1|reflexivity].
      + rewrite top_lt by lia. rewrite Q1 in S2 |- *. replace (S opb - 1) with opb by lia. exact S2.
  Qed.

  (* PyTeal's own checks accept the fragment (main routine, outside any loop) *)
  Lemma first_err_none l : Forall (fun x => x = None) l -> first_err l = None.
  Proof.
    unfold first_err. intros H. assert (G : forall acc, acc = None -> fold_left (fun acc x => match acc with Some _ => acc | None => x end) l acc = None).
    { induction H as [|x t Hx Ht IH]; intros acc A; cbn [fold_left]; [exact A|]. apply IH. subst. reflexivity. }
    apply G. reflexivity.
  Qed.

  Lemma straight_check e : straight e = true -> check_expr o None false e = None.
  Proof.
    induction e using expr_ind'; intros ST; cbn [straight] in ST; try discriminate; cbn [check_expr].
    - apply andb_true_iff in ST. destruct ST as [ST A4].
      apply andb_true_iff in ST. destruct ST as [ST A3].
      apply andb_true_iff in ST. destruct ST as [A1 A2]. rewrite A2.
      apply first_err_none. apply Forall_map.
      apply (forallb_Forall_chain (fun _ => True)); [|exact A4]. exact H.
    - apply andb_true_iff in ST. destruct ST as [ST A3].
      apply first_err_none. apply Forall_map.
      apply (forallb_Forall_chain (fun _ => True)); [|exact A3]. exact H.
    - apply first_err_none. apply Forall_map.
      apply (forallb_Forall_chain (fun _ => True)); [|exact ST]. exact H.
    - destruct v as [x|]; [|discriminate].
      apply andb_true_iff in ST. destruct ST as [ST A3].
      apply andb_true_iff in ST. destruct ST as [A1 A2]. rewrite A2.
      inversion H as [|? Hx]; subst. apply Hx. exact A3.
    - apply andb_true_iff in ST. destruct ST as [A1 A3]. apply IHe. exact A3.
  Qed.

  Lemma straight_no_continue b e : straight e = true -> has_bad_continue b e = false.
  Proof.
    induction e using expr_ind'; intros ST; cbn [straight] in ST; try discriminate; cbn [has_bad_continue].
    - apply andb_true_iff in ST. destruct ST as [_ A4].
      induction H as [|a tl Ha Ht IH]; cbn [existsb forallb] in *; [reflexivity|].
      apply andb_true_iff in A4. destruct A4 as [X Y]. rewrite (Ha X), (IH Y). reflexivity.
    - apply andb_true_iff in ST. destruct ST as [_ A4].
      induction H as [|a tl Ha Ht IH]; cbn [existsb forallb] in *; [reflexivity|].
      apply andb_true_iff in A4. destruct A4 as [X Y]. rewrite (Ha X), (IH Y). reflexivity.
    - induction H as [|a tl Ha Ht IH]; cbn [existsb forallb] in *; [reflexivity|].
      apply andb_true_iff in ST. destruct ST as [X Y]. rewrite (Ha X), (IH Y). reflexivity.
    - destruct v as [x|]; [|discriminate].
      apply andb_true_iff in ST. destruct ST as [_ A3]. inversion H as [|? Hx]; subst. apply Hx. exact A3.
    - apply andb_true_iff in ST. destruct ST as [_ A3]. apply IHe. exact A3.
  Qed.
End Fragment.
