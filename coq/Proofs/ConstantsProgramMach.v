(* Proofs/ConstantsProgramMach.v — C12, whole-program part 1: facts about AVM/Machine.v only.
   (1) FRAME LEMMA: the constant registers [m_intc]/[m_bytec] are read and written by the twelve
       constant-block opcodes only ([is_block_op]); on any other instruction [step] neither looks at
       them nor changes them.
   (2) RELOCATION: a program whose instruction list is the same one moved up by n positions, with every
       label target moved by n, steps in lock step with the original (pc, return addresses shifted by n).
   Both are instances of one lemma, [step_same_instr].
   (3) a constant load (ConstantsSpec.load_value) against a pseudo-op push: [step_const_site].
   (4) [lock_step] / [run_lock]: two programs whose codes are position-wise related by [irel]
       (same non-block instruction, or two loads of the same value) run in lock step.
   (5) [run_blocks]: executing the emitted intcblock/bytecblock lines from the initial machine. *)
From Coq Require Import List Arith NArith Ascii String Bool Lia.
From PV Require Import Base.Bytes Base.U64 Base.Sexp AVM.Syntax AVM.Ops AVM.Machine AVM.Parse
  Comp.Constants Comp.ConstantsSpec Proofs.ConstantsSim.
Import ListNotations.

(* the opcodes that read or write the constant registers *)
Definition is_block_op (o : opc) : bool :=
  match o with
  | O_intcblock | O_intc | O_intc_0 | O_intc_1 | O_intc_2 | O_intc_3
  | O_bytecblock | O_bytec | O_bytec_0 | O_bytec_1 | O_bytec_2 | O_bytec_3 => true
  | _ => false
  end.

Definition shift_frame (n : nat) (f : frame) : frame := mkFrame (f_ret f + n) (f_proto f).

(* same machine up to: pc and return addresses moved by n; constant registers not compared *)
Record mrel (n : nat) (m m' : mach) : Prop := mkMrel {
  r_pc : m_pc m' = m_pc m + n;
  r_stack : m_stack m' = m_stack m;
  r_calls : m_calls m' = map (shift_frame n) (m_calls m);
  r_fc : m_from_callsub m' = m_from_callsub m;
  r_st : m_st m' = m_st m
}.

Definition regs_eq (a b : mach) : Prop := m_intc a = m_intc b /\ m_bytec a = m_bytec b.

(* outcomes of one step from (m, m'): same kind, same verdict, related machines, registers untouched *)
Definition orel (n : nat) (m m' : mach) (o o' : outcome) : Prop :=
  match o, o' with
  | Running a, Running a' => mrel n a a' /\ regs_eq a m /\ regs_eq a' m'
  | Done v a, Done v' a' => v' = v /\ mrel n a a' /\ regs_eq a m /\ regs_eq a' m'
  | _, _ => False
  end.

Definition labels_shift (n : nat) (P P' : program) : Prop :=
  forall l, label_pc P' l = option_map (fun t => t + n) (label_pc P l).

Ltac fin :=
  cbn [orel]; repeat split; cbn [m_pc m_stack m_calls m_from_callsub m_intc m_bytec m_st map shift_frame f_ret f_proto with_pc_stack];
  try reflexivity; try lia; try congruence.

(* the one case analysis over [step]: same instruction (not a block opcode) at related machines *)
Lemma step_same_instr cx P P' n m m' oi :
  labels_shift n P P' -> mrel n m m' ->
  nth_error (pr_code P) (m_pc m) = oi -> nth_error (pr_code P') (m_pc m') = oi ->
  (forall p, oi = Some p -> is_block_op (p_op p) = false) ->
  orel n m m' (step cx P m) (step cx P' m').
Proof.
  intros HL [Rpc Rstk Rcalls Rfc Rst] H0 H1 Hnb.
  destruct m as [pc stk calls fc ic bc st], m' as [pc' stk' calls' fc' ic' bc' st'].
  cbn [m_pc m_stack m_calls m_from_callsub m_st] in *. subst pc' stk' calls' fc' st'.
  unfold step. cbn [m_pc m_stack m_calls m_from_callsub m_intc m_bytec m_st]. rewrite H0, H1.
  destruct oi as [[o imms]|].
  2:{ destruct stk as [|[x|x] [|y r]]; fin. }
  specialize (Hnb _ eq_refl). cbn [p_op p_imms] in *.
  unfold height. cbn [m_stack].
  destruct (STACK_MAX <? List.length stk)%nat; [fin|].
  destruct (exec_op cx o imms stk st) as [s1 st1| | |] eqn:Ex; try fin.
  (* ONot: the machine's own opcodes *)
  destruct o; try discriminate Hnb; cbn [m_stack m_calls m_from_callsub m_intc m_bytec m_st]; try fin.
  - (* bnz *)
    destruct imms as [|[?|?|l] [|? ?]]; try fin; destruct stk as [|[c|c] r]; try fin.
    rewrite HL. destruct (label_pc P l) as [t|]; cbn [option_map]; [|fin]. destruct (c =? 0)%N; fin.
  - (* bz *)
    destruct imms as [|[?|?|l] [|? ?]]; try fin; destruct stk as [|[c|c] r]; try fin.
    rewrite HL. destruct (label_pc P l) as [t|]; cbn [option_map]; [|fin]. destruct (c =? 0)%N; fin.
  - (* b *)
    destruct imms as [|[?|?|l] [|? ?]]; try fin.
    rewrite HL. destruct (label_pc P l) as [t|]; cbn [option_map]; fin.
  - (* return *)
    destruct stk as [|[c|c] r]; fin.
  - (* callsub *)
    destruct imms as [|[?|?|l] [|? ?]]; try fin.
    rewrite HL. destruct (label_pc P l) as [t|]; cbn [option_map]; fin.
  - (* retsub *)
    destruct calls as [|f fs]; cbn [map]; [fin|]. cbn [shift_frame f_proto f_ret].
    destruct (f_proto f) as [[[h a] r]|]; [|fin].
    destruct (h + r <=? List.length stk)%nat; fin.
  - (* frame_dig *)
    destruct imms as [|[k|?|?] [|? ?]]; try fin.
    destruct calls as [|f fs]; cbn [map]; [fin|]. cbn [shift_frame f_proto].
    destruct (f_proto f) as [[[h a] r]|]; [|fin].
    destruct (frame_index h a k) as [idx|]; [|fin].
    destruct (from_bottom stk idx) as [pos|]; [|fin].
    destruct (nth_error stk pos) as [v|]; fin.
  - (* frame_bury *)
    destruct imms as [|[k|?|?] [|? ?]]; try fin; destruct stk as [|v r0]; try fin.
    destruct calls as [|f fs]; cbn [map]; [fin|]. cbn [shift_frame f_proto].
    destruct (f_proto f) as [[[h a] r]|]; [|fin].
    destruct (frame_index h a k) as [idx|]; [|fin].
    destruct (from_bottom r0 idx) as [pos|]; fin.
  - (* proto *)
    destruct imms as [|[a|?|?] [|[r|?|?] [|? ?]]]; try fin.
    destruct fc; [|fin]. destruct calls as [|f fs]; cbn [map]; [fin|].
    destruct (N.to_nat a <=? List.length stk)%nat; fin.
Qed.

(* ---------------------------------------------------------------- (1) the frame lemma *)
Definition set_consts (m : mach) (ib : list N) (bb : list bytes) : mach :=
  mkM (m_pc m) (m_stack m) (m_calls m) (m_from_callsub m) ib bb (m_st m).

Definition map_outcome (f : mach -> mach) (o : outcome) : outcome :=
  match o with Running a => Running (f a) | Done v a => Done v (f a) end.

Lemma shift_frame_0 f : shift_frame 0 f = f.
Proof. destruct f as [r p]. unfold shift_frame. cbn [f_ret f_proto]. now rewrite Nat.add_0_r. Qed.

Lemma map_shift_0 l : map (shift_frame 0) l = l.
Proof. induction l as [|f t IH]; [reflexivity|]. cbn [map]. now rewrite shift_frame_0, IH. Qed.

Lemma mrel_0_eq m m' : mrel 0 m m' -> m' = set_consts m (m_intc m') (m_bytec m').
Proof.
  intros [Rpc Rstk Rcalls Rfc Rst]. destruct m, m'. unfold set_consts. cbn in *.
  rewrite Nat.add_0_r in Rpc. rewrite map_shift_0 in Rcalls. congruence.
Qed.

Lemma labels_shift_0 P : labels_shift 0 P P.
Proof. intros l. destruct (label_pc P l) as [t|]; cbn [option_map]; [now rewrite Nat.add_0_r|reflexivity]. Qed.

(* [step] on an instruction that is not a constant-block opcode (or past the end of the program):
   replacing the constant registers by ANY others changes nothing but those registers in the result,
   and the result carries the registers of the start machine. *)
Theorem step_frame cx P m ib bb :
  (forall p, nth_error (pr_code P) (m_pc m) = Some p -> is_block_op (p_op p) = false) ->
  step cx P (set_consts m ib bb) = map_outcome (fun a => set_consts a ib bb) (step cx P m) /\
  match step cx P m with Running a | Done _ a => m_intc a = m_intc m /\ m_bytec a = m_bytec m end.
Proof.
  intros Hnb.
  assert (R : mrel 0 m (set_consts m ib bb)).
  { destruct m. unfold set_consts. constructor; cbn; try reflexivity; [lia|now rewrite map_shift_0]. }
  pose proof (step_same_instr cx P P 0 m (set_consts m ib bb) _ (labels_shift_0 P) R eq_refl eq_refl Hnb) as H.
  destruct (step cx P m) as [a|v a], (step cx P (set_consts m ib bb)) as [a'|v' a']; cbn [orel] in H; try contradiction.
  - destruct H as (Ra & Ea & Ea'). split; [|exact Ea]. cbn [map_outcome]. f_equal.
    rewrite (mrel_0_eq _ _ Ra). destruct Ea' as [-> ->]. reflexivity.
  - destruct H as (-> & Ra & Ea & Ea'). split; [|exact Ea]. cbn [map_outcome]. f_equal.
    rewrite (mrel_0_eq _ _ Ra). destruct Ea' as [-> ->]. reflexivity.
Qed.

(* ---------------------------------------------------------------- (3) a constant site *)
Lemma step_overflow cx P m p :
  nth_error (pr_code P) (m_pc m) = Some p -> (STACK_MAX < height m)%nat -> step cx P m = Done VFail m.
Proof.
  intros Hn Hh. unfold step. rewrite Hn.
  destruct (Nat.ltb_spec STACK_MAX (height m)) as [_|Hle]; [reflexivity|lia].
Qed.

Lemma step_const_site cx P P' n m m' p p' v :
  mrel n m m' ->
  nth_error (pr_code P) (m_pc m) = Some p -> nth_error (pr_code P') (m_pc m') = Some p' ->
  load_value (m_intc m) (m_bytec m) p = Some v -> imm_fits p ->
  load_value (m_intc m') (m_bytec m') p' = Some v -> imm_fits p' ->
  orel n m m' (step cx P m) (step cx P' m').
Proof.
  intros R H0 H1 L0 F0 L1 F1.
  assert (Hh : height m' = height m) by (unfold height; now rewrite (r_stack _ _ _ R)).
  destruct (Nat.lt_ge_cases STACK_MAX (height m)) as [Hgt|Hle].
  - rewrite (step_overflow cx P m p H0 Hgt), (step_overflow cx P' m' p' H1) by (rewrite Hh; exact Hgt).
    cbn [orel]. repeat split; apply R.
  - rewrite (load_value_step _ _ p v L0 F0 cx P m H0 eq_refl eq_refl Hle).
    rewrite (load_value_step _ _ p' v L1 F1 cx P' m' H1 eq_refl eq_refl) by (rewrite Hh; exact Hle).
    destruct R as [Rpc Rstk Rcalls Rfc Rst].
    cbn [orel]. repeat split; cbn [with_pc_stack m_pc m_stack m_calls m_from_callsub m_st m_intc m_bytec];
      try reflexivity; try assumption; try lia. now rewrite Rstk.
Qed.

(* ---------------------------------------------------------------- (4) lock step *)
(* two instructions at corresponding positions: the same one (not a block opcode), or two loads of one value
   — the first a push that ignores the registers, the second resolved against the blocks (ib, bb) *)
Definition irel (ib : list N) (bb : list bytes) (p p' : pinstr) : Prop :=
  (p' = p /\ is_block_op (p_op p) = false) \/
  (exists v, (forall ib0 bb0, load_value ib0 bb0 p = Some v) /\ imm_fits p /\
             load_value ib bb p' = Some v /\ imm_fits p').

(* the lock-step invariant: related machines, the second holding the emitted blocks *)
Definition lockrel (n : nat) (ib : list N) (bb : list bytes) (m m' : mach) : Prop :=
  mrel n m m' /\ m_intc m' = ib /\ m_bytec m' = bb.

Lemma forall2_length {A B} (R : A -> B -> Prop) l1 l2 : Forall2 R l1 l2 -> List.length l1 = List.length l2.
Proof. induction 1 as [|x y l1 l2 _ _ IH]; [reflexivity|]. cbn [List.length]. now rewrite IH. Qed.

Lemma forall2_nth_none {A B} (R : A -> B -> Prop) l1 l2 : Forall2 R l1 l2 ->
  forall idx, nth_error l1 idx = None -> nth_error l2 idx = None.
Proof.
  intros H idx Hn. apply nth_error_None. rewrite <- (forall2_length _ _ _ H). now apply nth_error_None.
Qed.

Section Lock.
  Variables (cx : ctx) (P P' : program) (pro c c' : list pinstr) (ib : list N) (bb : list bytes).
  Hypothesis HC : pr_code P = c.
  Hypothesis HC' : pr_code P' = (pro ++ c')%list.
  Hypothesis HR : Forall2 (irel ib bb) c c'.
  Hypothesis HL : labels_shift (List.length pro) P P'.

  Let n := List.length pro.

  Lemma lock_step m m' : lockrel n ib bb m m' -> orel n m m' (step cx P m) (step cx P' m').
  Proof.
    intros (R & Hi & Hb).
    assert (E' : nth_error (pr_code P') (m_pc m') = nth_error c' (m_pc m)).
    { rewrite HC', (r_pc _ _ _ R). rewrite nth_error_app2 by (unfold n; lia). f_equal. unfold n. lia. }
    destruct (nth_error c (m_pc m)) as [p|] eqn:E.
    - destruct (ConstantsProof.forall2_nth _ _ _ HR _ _ E) as (p' & Ep' & [[-> Hnb]|(v & L0 & F0 & L1 & F1)]).
      + apply (step_same_instr cx P P' n m m' (Some p) HL R); [now rewrite HC|now rewrite E'|].
        intros q Hq. injection Hq as <-. exact Hnb.
      + apply (step_const_site cx P P' n m m' p p' v R); [now rewrite HC|now rewrite E'|apply L0|exact F0| |exact F1].
        rewrite Hi, Hb. exact L1.
    - apply (step_same_instr cx P P' n m m' None HL R); [now rewrite HC| |discriminate].
      rewrite E'. exact (forall2_nth_none _ _ _ HR _ E).
  Qed.

  Lemma lock_step_inv m m' : lockrel n ib bb m m' ->
    match step cx P m, step cx P' m' with
    | Running a, Running a' => lockrel n ib bb a a'
    | Done v a, Done v' a' => v' = v /\ lockrel n ib bb a a'
    | _, _ => False
    end.
  Proof.
    intros L. pose proof (lock_step m m' L) as H. destruct L as (_ & Hi & Hb).
    destruct (step cx P m) as [a|v a], (step cx P' m') as [a'|v' a']; cbn [orel] in H; try contradiction.
    - destruct H as (Ra & _ & [E1 E2]). split; [exact Ra|]. split; congruence.
    - destruct H as (-> & Ra & _ & [E1 E2]). split; [reflexivity|]. split; [exact Ra|]. split; congruence.
  Qed.

  (* runs from related machines: same verdict, related final machines, for every fuel *)
  Lemma run_lock : forall k m m', lockrel n ib bb m m' ->
    fst (run k cx P' m') = fst (run k cx P m) /\ lockrel n ib bb (snd (run k cx P m)) (snd (run k cx P' m')).
  Proof.
    induction k as [|k IH]; intros m m' L; [split; [reflexivity|exact L]|].
    cbn [run]. pose proof (lock_step_inv m m' L) as H.
    destruct (step cx P m) as [a|v a], (step cx P' m') as [a'|v' a']; try contradiction.
    - exact (IH a a' H).
    - destruct H as [-> La]. split; [reflexivity|exact La].
  Qed.
End Lock.

(* ---------------------------------------------------------------- (5) the block lines *)
(* registers after executing a list of intcblock/bytecblock instructions (None: something else) *)
Fixpoint blocks_of (l : list pinstr) (ib : list N) (bb : list bytes) : option (list N * list bytes) :=
  match l with
  | [] => Some (ib, bb)
  | p :: t =>
      match p_op p with
      | O_intcblock => match imm_ints (p_imms p) with Some ns => blocks_of t ns bb | None => None end
      | O_bytecblock => match imm_bytes (p_imms p) with Some bs => blocks_of t ib bs | None => None end
      | _ => None
      end
  end.

Lemma run_blocks cx P' : forall pro pre post ib0 bb0 ib bb,
  blocks_of pro ib0 bb0 = Some (ib, bb) -> pr_code P' = (pre ++ pro ++ post)%list ->
  forall k st,
    run (List.length pro + k) cx P' (mkM (List.length pre) [] [] false ib0 bb0 st) =
    run k cx P' (mkM (List.length pre + List.length pro) [] [] false ib bb st).
Proof.
  induction pro as [|p t IH]; intros pre post ib0 bb0 ib bb Hb Hc k st.
  - cbn [blocks_of] in Hb. injection Hb as <- <-. cbn [List.length Nat.add]. now rewrite Nat.add_0_r.
  - cbn [blocks_of] in Hb. cbn [List.length Nat.add run].
    assert (Hn : nth_error (pr_code P') (List.length pre) = Some p).
    { rewrite Hc, nth_error_app2 by lia. now rewrite Nat.sub_diag. }
    assert (Hc2 : pr_code P' = ((pre ++ [p]) ++ t ++ post)%list) by (rewrite Hc, <- app_assoc; reflexivity).
    assert (Hlen : List.length (pre ++ [p]) = S (List.length pre)) by (rewrite app_length; cbn; lia).
    destruct p as [o imms]. cbn [p_op p_imms] in Hb.
    destruct o; try discriminate Hb.
    + destruct (imm_ints imms) as [ns|] eqn:Ei; [|discriminate Hb].
      assert (St : step cx P' (mkM (List.length pre) [] [] false ib0 bb0 st) =
                   Running (mkM (S (List.length pre)) [] [] false ns bb0 st)).
      { unfold step. cbn [m_pc]. rewrite Hn. unfold height. cbn [p_op p_imms m_stack List.length].
        change (STACK_MAX <? 0)%nat with false. cbv iota.
        unfold exec_op. cbn [exec_pure]. cbn [m_stack m_st m_calls m_intc m_bytec m_pc]. rewrite Ei. reflexivity. }
      rewrite St, <- Hlen. rewrite (IH (pre ++ [mkP O_intcblock imms])%list post ns bb0 ib bb Hb Hc2 k st).
      f_equal. f_equal. rewrite Hlen. lia.
    + destruct (imm_bytes imms) as [bs|] eqn:Ei; [|discriminate Hb].
      assert (St : step cx P' (mkM (List.length pre) [] [] false ib0 bb0 st) =
                   Running (mkM (S (List.length pre)) [] [] false ib0 bs st)).
      { unfold step. cbn [m_pc]. rewrite Hn. unfold height. cbn [p_op p_imms m_stack List.length].
        change (STACK_MAX <? 0)%nat with false. cbv iota.
        unfold exec_op. cbn [exec_pure]. cbn [m_stack m_st m_calls m_intc m_bytec m_pc]. rewrite Ei. reflexivity. }
      rewrite St, <- Hlen. rewrite (IH (pre ++ [mkP O_bytecblock imms])%list post ib0 bs ib bb Hb Hc2 k st).
      f_equal. f_equal. rewrite Hlen. lia.
Qed.
