(* Proofs/ValidateSlotsProof.v — the memoised path exploration of validateSlots reports exactly the loads
   that have an unstored scan path; it terminates; its answer does not depend on the fuel. *)
From Coq Require Import List NArith Arith Bool Lia.
From PV Require Import Comp.ValidateSlots.
Import ListNotations.

(* ------------------------------------------------------------------------------------------- *)
(* 1. the slot set                                                                              *)
(* ------------------------------------------------------------------------------------------- *)

Lemma mem_In : forall x l, mem x l = true <-> In x l.
Proof.
  intros x l. unfold mem. rewrite existsb_exists. split.
  - intros [y [Hy He]]. apply N.eqb_eq in He. subst. exact Hy.
  - intros H. exists x. split; [exact H | apply N.eqb_refl].
Qed.

Lemma mem_false : forall x l, mem x l = false <-> ~ In x l.
Proof.
  intros x l. rewrite <- mem_In. destruct (mem x l); intuition congruence.
Qed.

Lemma ins_In : forall x y l, In y (ins x l) <-> y = x \/ In y l.
Proof.
  intros x y l. induction l as [|z r IH]; simpl.
  - intuition.
  - destruct (N.ltb x z) eqn:Hlt.
    + simpl. intuition.
    + destruct (N.eqb x z) eqn:Heq.
      * apply N.eqb_eq in Heq. subst z. simpl. intuition.
      * simpl. rewrite IH. intuition.
Qed.

Lemma canon_In : forall x l, In x (canon l) <-> In x l.
Proof.
  intros x l. induction l as [|y r IH]; simpl.
  - tauto.
  - rewrite ins_In, IH. intuition.
Qed.

Fixpoint ssorted (l : list N) : Prop :=
  match l with
  | [] => True
  | x :: r => Forall (N.lt x) r /\ ssorted r
  end.

Lemma ins_ssorted : forall x l, ssorted l -> ssorted (ins x l).
Proof.
  intros x l. induction l as [|y r IH]; simpl; intros Hs.
  - split; [constructor | exact I].
  - destruct Hs as [Hy Hr].
    destruct (N.ltb_spec x y) as [Hlt | Hge].
    + simpl. split; [| split; assumption].
      constructor; [exact Hlt |].
      rewrite Forall_forall in *. intros z Hz. specialize (Hy z Hz). lia.
    + destruct (N.eqb_spec x y) as [Heq | Hne].
      * simpl. split; assumption.
      * simpl. split; [| apply IH; exact Hr].
        rewrite Forall_forall in *. intros z Hz. apply ins_In in Hz.
        destruct Hz as [Hz | Hz]; [subst z; lia | apply Hy; exact Hz].
Qed.

Lemma canon_ssorted : forall l, ssorted (canon l).
Proof.
  induction l as [|x r IH]; simpl; [exact I | apply ins_ssorted; exact IH].
Qed.

(* ------------------------------------------------------------------------------------------- *)
(* 2. the scan of one block                                                                     *)
(* ------------------------------------------------------------------------------------------- *)

Lemma scan_cur_In : forall ops x W, In x (scan_cur ops W) <-> In x W \/ In (Store x) ops.
Proof.
  induction ops as [|o r IH]; intros x W; simpl.
  - tauto.
  - destruct o as [s | s t | |]; rewrite IH; try rewrite ins_In.
    + split.
      * intros [[H | H] | H]; [subst; right; left; reflexivity | left; exact H | right; right; exact H].
      * intros [H | [H | H]]; [left; right; exact H | inversion H; left; left; reflexivity | right; exact H].
    + split; [intros [H | H]; [left | right; right]; exact H | intros [H | [H | H]]; [left; exact H | discriminate | right; exact H]].
    + split; [intros [H | H]; [left | right; right]; exact H | intros [H | [H | H]]; [left; exact H | discriminate | right; exact H]].
    + split; [intros [H | H]; [left | right; right]; exact H | intros [H | [H | H]]; [left; exact H | discriminate | right; exact H]].
Qed.

Lemma scan_cur_app : forall a b W, scan_cur (a ++ b) W = scan_cur b (scan_cur a W).
Proof.
  induction a as [|o r IH]; intros b W; simpl; [reflexivity |].
  destruct o; apply IH.
Qed.

Lemma scan_cur_ssorted : forall ops W, ssorted W -> ssorted (scan_cur ops W).
Proof.
  induction ops as [|o r IH]; intros W HS; simpl; [exact HS |].
  destruct o; try (apply IH; exact HS). apply IH. apply ins_ssorted. exact HS.
Qed.

Lemma scan_errs_In : forall ops t W,
  In t (scan_errs ops W) <->
  exists i s, nth_error ops i = Some (Load s t) /\ ~ In s (scan_cur (firstn i ops) W).
Proof.
  induction ops as [|o r IH]; intros t W; simpl.
  - split; [tauto | intros [i [s [H _]]]; destruct i; discriminate].
  - destruct o as [s0 | s0 t0 | |].
    + rewrite IH. split.
      * intros [i [s [Hn Hs]]]. exists (S i), s. simpl. split; assumption.
      * intros [i [s [Hn Hs]]]. destruct i as [|i]; simpl in *; [discriminate |]. exists i, s. split; assumption.
    + rewrite in_app_iff, IH. split.
      * intros [H | [i [s [Hn Hs]]]].
        -- destruct (mem s0 W) eqn:Hm; simpl in H; [tauto |].
           destruct H as [H | []]. subst t0. exists 0, s0. simpl. split; [reflexivity |].
           apply mem_false. exact Hm.
        -- exists (S i), s. simpl. split; assumption.
      * intros [i [s [Hn Hs]]]. destruct i as [|i]; simpl in *.
        -- inversion Hn. subst s0 t0. left. apply mem_false in Hs. rewrite Hs. left. reflexivity.
        -- right. exists i, s. split; assumption.
    + rewrite IH. split.
      * intros [i [s [Hn Hs]]]. exists (S i), s. simpl. split; assumption.
      * intros [i [s [Hn Hs]]]. destruct i as [|i]; simpl in *; [discriminate |]. exists i, s. split; assumption.
    + rewrite IH. split.
      * intros [i [s [Hn Hs]]]. exists (S i), s. simpl. split; assumption.
      * intros [i [s [Hn Hs]]]. destruct i as [|i]; simpl in *; [discriminate |]. exists i, s. split; assumption.
Qed.

Lemma merge_In : forall es errs e, In e (merge errs es) <-> In e errs \/ In e es.
Proof.
  unfold merge. induction es as [|x r IH]; intros errs e; simpl.
  - tauto.
  - rewrite IH. destruct (mem x errs) eqn:Hm.
    + apply mem_In in Hm. split.
      * intros [H | H]; [left; exact H | right; right; exact H].
      * intros [H | [H | H]]; [left; exact H | subst; left; exact Hm | right; exact H].
    + rewrite in_app_iff. simpl. tauto.
Qed.

(* ------------------------------------------------------------------------------------------- *)
(* 3. the state space explored: (block, slot set on entry)                                      *)
(* ------------------------------------------------------------------------------------------- *)

Section Explore.
Variable g : graph.

Definition succ_state (k k' : key) : Prop :=
  is_terminal (getb g (fst k)) = false /\
  In (fst k') (outgoing (getb g (fst k))) /\
  snd k' = scan_cur (ops_of (getb g (fst k))) (snd k).

Definition local_errs (k : key) : list N := scan_errs (ops_of (getb g (fst k))) (snd k).

Inductive reach (k0 : key) : key -> Prop :=
| reach_refl : reach k0 k0
| reach_step : forall k k', reach k0 k -> succ_state k k' -> reach k0 k'.

Lemma reach_head : forall k0 k1 k, succ_state k0 k1 -> reach k1 k -> reach k0 k.
Proof.
  intros k0 k1 k Hs Hr. induction Hr as [| k k' Hr IH Hs'].
  - eapply reach_step; [apply reach_refl | exact Hs].
  - eapply reach_step; [exact IH | exact Hs'].
Qed.

Lemma seen_true : forall k vis, seen k vis = true <-> In k vis.
Proof. intros k vis. unfold seen. destruct (in_dec key_dec k vis); split; intros; try assumption; try reflexivity; try discriminate; contradiction. Qed.

Lemma seen_false : forall k vis, seen k vis = false <-> ~ In k vis.
Proof. intros k vis. unfold seen. destruct (in_dec key_dec k vis); split; intros; try assumption; try reflexivity; try discriminate; contradiction. Qed.

(* what one call validateSlots(b, W, visited) guarantees about its result *)
Definition post (b : nat) (W : list N) (vis : list key) (r : list N * list key) : Prop :=
  incl vis (snd r) /\
  (forall e, In e (local_errs (b, W)) -> In e (fst r)) /\
  (forall k', succ_state (b, W) k' -> In k' (snd r)) /\
  (forall k, In k (snd r) -> ~ In k vis ->
     (forall e, In e (local_errs k) -> In e (fst r)) /\
     (forall k', succ_state k k' -> In k' (snd r)) /\
     reach (b, W) k) /\
  (forall e, In e (fst r) ->
     In e (local_errs (b, W)) \/ exists k, In k (snd r) /\ ~ In k vis /\ In e (local_errs k)).

Section Loop.
Variable rec : nat -> list N -> list key -> option (list N * list key).
Variable cur : list N.
Hypothesis Hrec : forall c W vis r, rec c W vis = Some r -> post c W vis r.

Lemma go_spec : forall outs errs vis errs' vis',
  visit_succs rec cur outs errs vis = Some (errs', vis') ->
  incl vis vis' /\
  (forall e, In e errs -> In e errs') /\
  (forall c, In c outs -> In (c, cur) vis') /\
  (forall k, In k vis' -> ~ In k vis ->
     (forall e, In e (local_errs k) -> In e errs') /\
     (forall k', succ_state k k' -> In k' vis') /\
     exists c, In c outs /\ reach (c, cur) k) /\
  (forall e, In e errs' ->
     In e errs \/ exists k, In k vis' /\ ~ In k vis /\ In e (local_errs k)).
Proof.
  induction outs as [|c rest IH]; intros errs vis errs' vis' H; simpl in H.
  - inversion H. subst errs' vis'. clear H.
    split; [apply incl_refl |]. split; [tauto |]. split; [intros c []|]. split; [intros k Hk Hn; contradiction |].
    intros e He. left. exact He.
  - destruct (seen (c, cur) vis) eqn:Hseen.
    + apply seen_true in Hseen.
      destruct (IH _ _ _ _ H) as [I1 [I2 [I3 [I4 I5]]]].
      split; [exact I1 |]. split; [exact I2 |].
      split; [intros c' [Hc | Hc]; [subst c'; apply I1; exact Hseen | apply I3; exact Hc] |].
      split; [| exact I5].
      intros k Hk Hn. destruct (I4 k Hk Hn) as [A [B [c' [Hc' Hr]]]].
      split; [exact A |]. split; [exact B |]. exists c'. split; [right; exact Hc' | exact Hr].
    + apply seen_false in Hseen.
      destruct (rec c cur ((c, cur) :: vis)) as [[es vis1] |] eqn:Hr; [| discriminate].
      pose proof (Hrec _ _ _ _ Hr) as [P1 [P2 [P3 [P4 P5]]]]. simpl in P1, P2, P3, P4, P5.
      destruct (IH _ _ _ _ H) as [I1 [I2 [I3 [I4 I5]]]].
      assert (Hvis1 : incl vis vis1) by (intros x Hx; apply P1; right; exact Hx).
      assert (Hc1 : In (c, cur) vis1) by (apply P1; left; reflexivity).
      split; [intros x Hx; apply I1; apply Hvis1; exact Hx |].
      split; [intros e He; apply I2; apply merge_In; left; exact He |].
      split; [intros c' [Hc | Hc]; [subst c'; apply I1; exact Hc1 | apply I3; exact Hc] |].
      split.
      * intros k Hk Hn.
        destruct (in_dec key_dec k vis1) as [Hin1 | Hnin1].
        -- destruct (key_dec k (c, cur)) as [Heq | Hne].
           ++ subst k. split; [intros e He; apply I2; apply merge_In; right; apply P2; exact He |].
              split; [intros k' Hk'; apply I1; apply P3; exact Hk' |].
              exists c. split; [left; reflexivity | apply reach_refl].
           ++ assert (Hn' : ~ In k ((c, cur) :: vis)) by (intros [Hx | Hx]; [apply Hne; symmetry; exact Hx | apply Hn; exact Hx]).
              destruct (P4 k Hin1 Hn') as [A [B C]].
              split; [intros e He; apply I2; apply merge_In; right; apply A; exact He |].
              split; [intros k' Hk'; apply I1; apply B; exact Hk' |].
              exists c. split; [left; reflexivity | exact C].
        -- destruct (I4 k Hk Hnin1) as [A [B [c' [Hc' Hr']]]].
           split; [exact A |]. split; [exact B |]. exists c'. split; [right; exact Hc' | exact Hr'].
      * intros e He. destruct (I5 e He) as [Hm | [k [Hk [Hnk Hek]]]].
        -- apply merge_In in Hm. destruct Hm as [Hm | Hm]; [left; exact Hm |].
           right. destruct (P5 e Hm) as [Hl | [k [Hk [Hnk Hek]]]].
           ++ exists (c, cur). split; [apply I1; exact Hc1 |]. split; [exact Hseen | exact Hl].
           ++ exists k. split; [apply I1; exact Hk |]. split; [| exact Hek].
              intros Hx. apply Hnk. right. exact Hx.
        -- right. exists k. split; [exact Hk |]. split; [| exact Hek].
           intros Hx. apply Hnk. apply Hvis1. exact Hx.
Qed.
End Loop.

Lemma validate_post : forall fuel b W vis r, validate fuel g b W vis = Some r -> post b W vis r.
Proof.
  induction fuel as [|f IH]; intros b W vis r H; simpl in H; [discriminate |].
  destruct (is_terminal (getb g b)) eqn:Hterm.
  - inversion H. subst r. clear H. unfold post. simpl.
    split; [apply incl_refl |]. split; [intros e He; exact He |].
    split; [intros k' [Ht _]; simpl in Ht; congruence |].
    split; [intros k Hk Hn; contradiction |].
    intros e He. left. exact He.
  - destruct r as [errs' vis'].
    destruct (go_spec (validate f g) _ (IH) _ _ _ _ _ H) as [I1 [I2 [I3 [I4 I5]]]].
    unfold post. simpl.
    split; [exact I1 |]. split; [exact I2 |].
    split.
    + intros [c T] [_ [Hc HT]]. simpl in Hc, HT. subst T. apply I3. exact Hc.
    + split; [| exact I5].
      intros k Hk Hn. destruct (I4 k Hk Hn) as [A [B [c [Hc Hr]]]].
      split; [exact A |]. split; [exact B |].
      eapply reach_head; [| exact Hr]. unfold succ_state. simpl. auto.
Qed.

(* the top-level call explores exactly the reachable states *)
Theorem validate_reach_exact : forall fuel b W errs vis',
  validate fuel g b W [] = Some (errs, vis') ->
  forall e, In e errs <-> exists k, reach (b, W) k /\ In e (local_errs k).
Proof.
  intros fuel b W errs vis' H e.
  destruct (validate_post _ _ _ _ _ H) as [P1 [P2 [P3 [P4 P5]]]]. simpl in *.
  split.
  - intros He. destruct (P5 e He) as [Hl | [k [Hk [Hn Hek]]]].
    + exists (b, W). split; [apply reach_refl | exact Hl].
    + exists k. split; [apply (P4 k Hk Hn) | exact Hek].
  - intros [k [Hr Hek]].
    assert (Hclosed : k = (b, W) \/ In k vis').
    { clear Hek. induction Hr as [| k k' Hr IHr Hs]; [left; reflexivity |].
      right. destruct IHr as [Heq | Hin].
      - subst k. apply P3. exact Hs.
      - apply (P4 k Hin (fun x => x)). exact Hs. }
    destruct Hclosed as [Heq | Hin].
    + subst k. apply P2. exact Hek.
    + apply (P4 k Hin (fun x => x)). exact Hek.
Qed.

(* ------------------------------------------------------------------------------------------- *)
(* 4. states <-> block paths                                                                    *)
(* ------------------------------------------------------------------------------------------- *)

Lemma path_ops_snoc : forall p b, path_ops g (p ++ [b]) = path_ops g p ++ ops_of (getb g b).
Proof.
  intros p b. unfold path_ops. rewrite flat_map_app. simpl. rewrite app_nil_r. reflexivity.
Qed.

Lemma reach_bpath : forall a S0 k, reach (a, S0) k ->
  exists p, bpath g a p (fst k) /\ snd k = scan_cur (path_ops g p) S0.
Proof.
  intros a S0 k Hr. induction Hr as [| k k' Hr IH Hs].
  - exists []. split; [apply bp_nil | reflexivity].
  - destruct IH as [p [Hp HS]]. destruct Hs as [Ht [Hc HT]].
    exists (p ++ [fst k]). split; [eapply bp_step; eassumption |].
    rewrite path_ops_snoc, scan_cur_app, <- HS. exact HT.
Qed.

Lemma bpath_reach : forall a S0 p b, bpath g a p b -> reach (a, S0) (b, scan_cur (path_ops g p) S0).
Proof.
  intros a S0 p b Hp. induction Hp as [| p b c Hp IH Ht Hc].
  - apply reach_refl.
  - eapply reach_step; [exact IH |]. unfold succ_state. simpl.
    split; [exact Ht |]. split; [exact Hc |].
    rewrite path_ops_snoc, scan_cur_app. reflexivity.
Qed.

Theorem validate_fuel_exact : forall fuel start init errs vis',
  validate_slots_fuel fuel g start init = Some (errs, vis') ->
  forall t, In t errs <-> exists s b i, scan_path g start init s b i t.
Proof.
  intros fuel start init errs vis' H t. unfold validate_slots_fuel in H.
  rewrite (validate_reach_exact _ _ _ _ _ H). split.
  - intros [[b W] [Hr He]]. unfold local_errs in He. simpl in He.
    apply scan_errs_In in He. destruct He as [i [s [Hn Hs]]].
    destruct (reach_bpath _ _ _ Hr) as [p [Hp HS]]. simpl in Hp, HS. subst W.
    exists s, b, i, p. split; [exact Hp |]. split; [exact Hn |].
    rewrite scan_cur_In, scan_cur_In, canon_In in Hs.
    split; [tauto |]. rewrite in_app_iff. tauto.
  - intros [s [b [i [p [Hp [Hn [Hi Hst]]]]]]].
    exists (b, scan_cur (path_ops g p) (canon init)). split; [apply bpath_reach; exact Hp |].
    unfold local_errs. simpl. apply scan_errs_In. exists i, s. split; [exact Hn |].
    rewrite scan_cur_In, scan_cur_In, canon_In. rewrite in_app_iff in Hst. tauto.
Qed.

(* ------------------------------------------------------------------------------------------- *)
(* 5. fuel: more fuel never changes an answer                                                   *)
(* ------------------------------------------------------------------------------------------- *)

Lemma go_mono : forall (rec1 rec2 : nat -> list N -> list key -> option (list N * list key)) cur,
  (forall c W vis r, rec1 c W vis = Some r -> rec2 c W vis = Some r) ->
  forall outs errs vis r,
    visit_succs rec1 cur outs errs vis = Some r -> visit_succs rec2 cur outs errs vis = Some r.
Proof.
  intros rec1 rec2 cur Hm. induction outs as [|c rest IH]; intros errs vis r H; simpl in *; [exact H |].
  destruct (seen (c, cur) vis); [apply IH; exact H |].
  destruct (rec1 c cur ((c, cur) :: vis)) as [[es vis1] |] eqn:Hr; [| discriminate].
  rewrite (Hm _ _ _ _ Hr). apply IH. exact H.
Qed.

Lemma validate_mono_S : forall fuel b W vis r,
  validate fuel g b W vis = Some r -> validate (Datatypes.S fuel) g b W vis = Some r.
Proof.
  induction fuel as [|f IH]; intros b W vis r H; [discriminate |].
  simpl in H. change (validate (Datatypes.S (Datatypes.S f)) g b W vis) with
    (let blk := getb g b in
     let cur := scan_cur (ops_of blk) W in
     let errs := scan_errs (ops_of blk) W in
     if is_terminal blk then Some (errs, vis)
     else visit_succs (validate (Datatypes.S f) g) cur (outgoing blk) errs vis).
  simpl. destruct (is_terminal (getb g b)); [exact H |].
  eapply go_mono; [| exact H]. exact IH.
Qed.

Lemma validate_mono : forall f1 f2 b W vis r,
  f1 <= f2 -> validate f1 g b W vis = Some r -> validate f2 g b W vis = Some r.
Proof.
  intros f1 f2 b W vis r Hle H. induction Hle as [| m Hle IH]; [exact H |].
  apply validate_mono_S. exact IH.
Qed.

Theorem validate_fuel_irrelevant : forall f1 f2 b W vis r1 r2,
  validate f1 g b W vis = Some r1 -> validate f2 g b W vis = Some r2 -> r1 = r2.
Proof.
  intros f1 f2 b W vis r1 r2 H1 H2.
  destruct (Nat.le_ge_cases f1 f2) as [Hle | Hle].
  - rewrite (validate_mono _ _ _ _ _ _ Hle H1) in H2. congruence.
  - rewrite (validate_mono _ _ _ _ _ _ Hle H2) in H1. congruence.
Qed.

End Explore.

(* ------------------------------------------------------------------------------------------- *)
(* 6. fuel: fuel_bound always suffices                                                          *)
(* ------------------------------------------------------------------------------------------- *)

Fixpoint subs (u : list N) : list (list N) :=
  match u with
  | [] => [[]]
  | x :: r => subs r ++ map (cons x) (subs r)
  end.

Lemma subs_length : forall u, length (subs u) = 2 ^ length u.
Proof.
  induction u as [|x r IH]; simpl; [reflexivity |].
  rewrite app_length, map_length, IH. lia.
Qed.

Lemma subs_complete : forall u, ssorted u -> forall T, ssorted T -> incl T u -> In T (subs u).
Proof.
  induction u as [|x r IH]; intros Hu T HT Hincl.
  - destruct T as [|y T']; [left; reflexivity |]. exfalso. apply (Hincl y). left. reflexivity.
  - simpl. apply in_app_iff. destruct Hu as [Hx Hr]. rewrite Forall_forall in Hx.
    destruct T as [|y T'].
    + left. apply IH; [exact Hr | exact I | intros z []].
    + destruct HT as [Hy HT']. rewrite Forall_forall in Hy.
      destruct (N.eq_dec y x) as [Heq | Hne].
      * subst y. right. apply in_map. apply IH; [exact Hr | exact HT' |].
        intros z Hz. specialize (Hy z Hz). destruct (Hincl z (or_intror Hz)) as [Hzx | Hzr]; [lia | exact Hzr].
      * left. apply IH; [exact Hr | split; [rewrite Forall_forall; exact Hy | exact HT'] |].
        assert (Hyr : In y r) by (destruct (Hincl y (or_introl eq_refl)) as [Hyx | Hyr]; [congruence | exact Hyr]).
        pose proof (Hx y Hyr) as Hxy.
        intros z [Hz | Hz].
        -- subst z. exact Hyr.
        -- specialize (Hy z Hz). destruct (Hincl z (or_intror Hz)) as [Hzx | Hzr]; [lia | exact Hzr].
Qed.

Fixpoint remaining (U : list key) (vis : list key) : nat :=
  match U with
  | [] => 0
  | u :: r => (if seen u vis then 0 else 1) + remaining r vis
  end.

Lemma remaining_le_length : forall U vis, remaining U vis <= length U.
Proof.
  induction U as [|u r IH]; intros vis; simpl; [lia |].
  specialize (IH vis). destruct (seen u vis); lia.
Qed.

Lemma remaining_mono : forall U vis vis', incl vis vis' -> remaining U vis' <= remaining U vis.
Proof.
  induction U as [|u r IH]; intros vis vis' Hi; simpl; [lia |].
  specialize (IH _ _ Hi).
  destruct (seen u vis) eqn:H1; destruct (seen u vis') eqn:H2; try lia.
  apply seen_true in H1. apply seen_false in H2. exfalso. apply H2. apply Hi. exact H1.
Qed.

Lemma remaining_dec : forall U k vis, In k U -> ~ In k vis -> remaining U (k :: vis) < remaining U vis.
Proof.
  induction U as [|u r IH]; intros k vis Hin Hn; [destruct Hin |].
  simpl. assert (Hm : remaining r (k :: vis) <= remaining r vis) by (apply remaining_mono; intros x Hx; right; exact Hx).
  destruct (key_dec u k) as [Heq | Hne].
  - subst u. destruct (seen k (k :: vis)) eqn:H1.
    + destruct (seen k vis) eqn:H2; [apply seen_true in H2; contradiction | lia].
    + apply seen_false in H1. exfalso. apply H1. left. reflexivity.
  - destruct Hin as [Hin | Hin]; [contradiction |].
    specialize (IH k vis Hin Hn).
    destruct (seen u vis) eqn:H2; destruct (seen u (k :: vis)) eqn:H1; try lia.
    apply seen_true in H2. apply seen_false in H1. exfalso. apply H1. right. exact H2.
Qed.

Section Fuel.
Variable g : graph.
Variable init : list N.

Let univ := slots_univ g init.
Let U := list_prod (all_succs g) (subs univ).

Lemma getb_cases : forall b, In (getb g b) g \/ getb g b = Simple [] None.
Proof.
  intros b. unfold getb. destruct (Nat.lt_ge_cases b (length g)) as [Hlt | Hge].
  - left. apply nth_In. exact Hlt.
  - right. apply nth_overflow. exact Hge.
Qed.

Lemma outgoing_all_succs : forall b c, In c (outgoing (getb g b)) -> In c (all_succs g).
Proof.
  intros b c Hc. destruct (getb_cases b) as [Hin | Hd].
  - unfold all_succs. apply in_flat_map. exists (getb g b). split; assumption.
  - rewrite Hd in Hc. destruct Hc.
Qed.

Lemma scan_cur_univ : forall b W, incl W univ -> incl (scan_cur (ops_of (getb g b)) W) univ.
Proof.
  intros b W HS x Hx. apply scan_cur_In in Hx. destruct Hx as [Hx | Hx]; [apply HS; exact Hx |].
  destruct (getb_cases b) as [Hin | Hd].
  - unfold univ, slots_univ. apply canon_In. apply in_app_iff. right.
    apply in_flat_map. exists (getb g b). split; [exact Hin |].
    unfold stores_of. apply in_flat_map. exists (Store x). split; [exact Hx | left; reflexivity].
  - rewrite Hd in Hx. destruct Hx.
Qed.

Lemma go_total : forall f cur,
  (forall c vis, remaining U vis < f -> validate f g c cur vis <> None) ->
  forall outs errs vis,
    (forall c, In c outs -> In (c, cur) U) ->
    remaining U vis < S f ->
    visit_succs (validate f g) cur outs errs vis <> None.
Proof.
  intros f cur Hrec. induction outs as [|c rest IH]; intros errs vis HU Hrem; simpl; [discriminate |].
  destruct (seen (c, cur) vis) eqn:Hseen.
  - apply IH; [intros c' Hc'; apply HU; right; exact Hc' | exact Hrem].
  - apply seen_false in Hseen.
    assert (HinU : In (c, cur) U) by (apply HU; left; reflexivity).
    pose proof (remaining_dec U _ _ HinU Hseen) as Hdec.
    destruct (validate f g c cur ((c, cur) :: vis)) as [[es vis1] |] eqn:Hr.
    + apply IH; [intros c' Hc'; apply HU; right; exact Hc' |].
      destruct (validate_post g _ _ _ _ _ Hr) as [P1 _]. simpl in P1.
      pose proof (remaining_mono U _ _ P1) as Hm.
      eapply Nat.le_lt_trans; [exact Hm |]. eapply Nat.lt_trans; [exact Hdec | exact Hrem].
    + exfalso. apply (Hrec c ((c, cur) :: vis)); [| exact Hr].
      apply (proj1 (Nat.lt_succ_r _ _)) in Hrem. eapply Nat.lt_le_trans; [exact Hdec | exact Hrem].
Qed.

Lemma validate_total_aux : forall fuel b W vis,
  ssorted W -> incl W univ -> remaining U vis < fuel -> validate fuel g b W vis <> None.
Proof.
  induction fuel as [|f IH]; intros b W vis HS Hincl Hrem; [lia |].
  simpl. destruct (is_terminal (getb g b)); [discriminate |].
  apply go_total.
  - intros c vis0 Hr0. apply IH; [apply scan_cur_ssorted; exact HS | apply scan_cur_univ; exact Hincl | exact Hr0].
  - intros c Hc. unfold U. apply in_prod.
    + eapply outgoing_all_succs. exact Hc.
    + apply subs_complete; [apply canon_ssorted | apply scan_cur_ssorted; exact HS | apply scan_cur_univ; exact Hincl].
  - exact Hrem.
Qed.

Theorem validate_slots_total : forall start, validate_slots g start init <> None.
Proof.
  intros start. unfold validate_slots, validate_slots_fuel.
  destruct (validate (fuel_bound g init) g start (canon init) []) eqn:H; [discriminate |].
  exfalso. revert H. apply validate_total_aux.
  - apply canon_ssorted.
  - intros x Hx. unfold univ, slots_univ. apply canon_In. apply in_app_iff. left. apply (proj1 (canon_In _ _)) in Hx. exact Hx.
  - unfold fuel_bound. eapply Nat.le_lt_trans; [apply remaining_le_length |].
    unfold U, univ, key. rewrite prod_length, subs_length. apply Nat.lt_succ_diag_r.
Qed.

End Fuel.

(* whatever fuel the extracted binary is run with: an answer is THE answer *)
Theorem validate_slots_fuel_agrees : forall fuel g start init errs vis',
  validate_slots_fuel fuel g start init = Some (errs, vis') ->
  validate_slots g start init = Some errs.
Proof.
  intros fuel g start init errs vis' H.
  pose proof (validate_slots_total g init start) as Ht.
  unfold validate_slots in *.
  destruct (validate_slots_fuel (fuel_bound g init) g start init) as [[e2 v2] |] eqn:H2; [| contradiction].
  unfold validate_slots_fuel in *.
  pose proof (validate_fuel_irrelevant g _ _ _ _ _ _ _ H H2) as Heq. inversion Heq. reflexivity.
Qed.

(* ------------------------------------------------------------------------------------------- *)
(* 7. the property                                                                              *)
(* ------------------------------------------------------------------------------------------- *)

Theorem validate_exact : forall g start init errs,
  validate_slots g start init = Some errs ->
  forall t, In t errs <-> exists s b i, scan_path g start init s b i t.
Proof.
  intros g start init errs H t. unfold validate_slots in H.
  destruct (validate_slots_fuel (fuel_bound g init) g start init) as [[e v] |] eqn:H2; [| discriminate].
  simpl in H. inversion H. subst e. eapply validate_fuel_exact. exact H2.
Qed.

Theorem validate_complete_lemma : forall g start init s b i t,
  unstored_path g start init s b i t ->
  exists errs, validate_slots g start init = Some errs /\ In t errs.
Proof.
  intros g start init s b i t [Hsp _].
  destruct (validate_slots g start init) as [errs |] eqn:H.
  - exists errs. split; [reflexivity |]. apply (validate_exact _ _ _ _ H). exists s, b, i. exact Hsp.
  - exfalso. exact (validate_slots_total g init start H).
Qed.

Theorem validate_reports_lemma : forall g start init errs t,
  validate_slots g start init = Some errs -> In t errs ->
  exists s b i, scan_path g start init s b i t.
Proof.
  intros g start init errs t H Ht. apply (validate_exact _ _ _ _ H). exact Ht.
Qed.

(* ---- abstract executions ---- *)

Lemma op_dec : forall a b : op, {a = b} + {a <> b}.
Proof. decide equality; apply N.eq_dec. Defined.

Lemma firstn_S_nth : forall (A : Type) (l : list A) k o,
  nth_error l k = Some o -> firstn (S k) l = firstn k l ++ [o].
Proof.
  intros A. induction l as [|x r IH]; intros k o H; destruct k as [|k]; simpl in *; try discriminate.
  - inversion H. reflexivity.
  - f_equal. apply IH. exact H.
Qed.

Lemma not_term_existsb : forall ops, ~ In Term ops -> existsb is_term ops = false.
Proof.
  induction ops as [|o r IH]; intros H; simpl; [reflexivity |].
  rewrite IH; [| intros Hx; apply H; right; exact Hx].
  destruct o; simpl; try reflexivity. exfalso. apply H. left. reflexivity.
Qed.

Lemma runs_to_inv : forall g start b k tr, runs_to g start b k tr ->
  exists p, bpath g start p b /\
            tr = path_ops g p ++ firstn k (ops_of (getb g b)) /\
            ~ In Term (firstn k (ops_of (getb g b))) /\
            k <= length (ops_of (getb g b)).
Proof.
  intros g start b k tr H. induction H as [| b k tr o H IH Hn Ho | b tr c H IH Hc].
  - exists []. simpl. split; [apply bp_nil |]. split; [reflexivity |]. split; [tauto | lia].
  - destruct IH as [p [Hp [Htr [Hnt Hle]]]]. exists p.
    split; [exact Hp |]. rewrite (firstn_S_nth _ _ _ _ Hn).
    split; [rewrite Htr, app_assoc; reflexivity |].
    split.
    + rewrite in_app_iff. intros [Hx | [Hx | []]]; [apply Hnt; exact Hx | apply Ho; exact Hx].
    + assert (k < length (ops_of (getb g b))) by (apply nth_error_Some; congruence). lia.
  - destruct IH as [p [Hp [Htr [Hnt _]]]]. rewrite firstn_all in Htr, Hnt.
    exists (p ++ [b]). split.
    + apply bp_step; [exact Hp | | exact Hc].
      unfold is_terminal. rewrite (not_term_existsb _ Hnt). simpl.
      destruct (outgoing (getb g b)); [destruct Hc | reflexivity].
    + simpl. rewrite path_ops_snoc, app_nil_r. split; [exact Htr |]. split; [tauto | lia].
Qed.

Theorem accepted_never_reads_unwritten_lemma : forall g start init,
  validate_slots g start init = Some [] ->
  forall b k tr s t,
    runs_to g start b k tr ->
    nth_error (ops_of (getb g b)) k = Some (Load s t) ->
    ~ In s init ->
    In (Store s) tr.
Proof.
  intros g start init Hacc b k tr s t Hrun Hn Hi.
  destruct (in_dec op_dec (Store s) tr) as [Hin | Hnin]; [exact Hin | exfalso].
  destruct (runs_to_inv _ _ _ _ _ Hrun) as [p [Hp [Htr [Hnt _]]]].
  assert (Hu : unstored_path g start init s b k t).
  { split; [| exact Hnt]. exists p. split; [exact Hp |]. split; [exact Hn |]. split; [exact Hi |].
    rewrite <- Htr. exact Hnin. }
  destruct (validate_complete_lemma _ _ _ _ _ _ _ Hu) as [errs [He Hin]].
  rewrite Hacc in He. inversion He. subst errs. destruct Hin.
Qed.
