(* Proofs/CallMachineSim.v — property C02: the WHOLE-RUN machine bridge for LINKED code.
   Proofs/StageELink.v bridges the call-free list semantics (Comp/LinearSem.v [lstep]) to the reference machine
   [AVM/Machine.v step] on the program the assembler builds ([link] = [build_prog] of the statements).  This file
   does the same for the linked-program semantics with a CALL STACK (Comp/LinkedSem.v [pstep]): every step of
   [pstep] — ordinary operation, b/bz/bnz, [callsub <label>] pushing a return position, [retsub] popping it, and
   every halting outcome — is matched by [Machine.step] on [link msel code], the call stack of return POSITIONS
   (indices into the component list) being related to the machine's frames of return PCs (indices into the list of
   real instructions) by [mpc].  Hence a run [pstar] to a halting configuration gives the verdict of [Machine.run].

   Coverage: the scratch-slot convention.  [proto], [frame_dig], [frame_bury], constant blocks, [switch]/[match]
   and the opcodes [exec_op] does not model are [PUnsup] in Comp/LinkedSem.v: no claim is made for a run that
   reaches one of them.  All frames on the call stack are frames WITHOUT [proto].

   The proof script of [psim_step] follows [StageELink.sim_step]; the two call rules are new. *)
From Coq Require Import List Arith NArith Ascii String Bool Lia.
From PV Require Import Base.Bytes Base.Sexp AVM.Syntax AVM.Ops AVM.Machine AVM.Parse Src.Expr Src.Denote
  Comp.Blocks Comp.GraphSem Comp.LinearSem Comp.LinkedSem Proofs.StageELink Proofs.CallComposeMachine.
Import ListNotations.

(* ---------------------------------------------------------------------------------------------- *)
(* 1. the relation                                                                                  *)
(* ---------------------------------------------------------------------------------------------- *)

(* the machine frames a call stack of list positions stands for: return pc = number of real instructions
   before the return position, no [proto] *)
Definition mframes (code : list comp) (fr : list nat) : list frame := frames_of (map (mpc code) fr).

Definition prel (code : list comp) (fr : list nat) (pc : nat) (stk : list value) (st : mstate) (m : mach) : Prop :=
  m_pc m = mpc code pc /\ m_stack m = stk /\ m_st m = st /\ m_calls m = mframes code fr.

(* the verdict the machine gives when the linked program halts; [PUnsup] (the semantics is inconclusive) has none *)
Definition pverdict_of (h : pconf) : option verdict :=
  match h with
  | PExit v _ => Some (exit_verdict v)
  | PEnd stk _ => Some (end_verdict stk)
  | PFail => Some VFail
  | PUnsup _ => None
  | PAt _ _ _ _ => None
  end.

(* the machine at the moment of the verdict *)
Definition pfinal_ok (h : pconf) (m : mach) : Prop :=
  match h with
  | PExit v st => m_st m = st /\ hd_error (m_stack m) = Some v
  | PEnd stk st => m_st m = st /\ m_stack m = stk
  | _ => True
  end.

Lemma exec_op_callsub cx im stk st : exec_op cx O_callsub im stk st = ONot.
Proof.
  unfold exec_op.
  assert (E : forall a, exec_pure O_callsub a stk = PNot)
    by (intros a; destruct stk as [|[x|x] [|[y|y] [|[z|z] [|[w|w] r]]]]; reflexivity).
  rewrite E. reflexivity.
Qed.

Lemma call_label_inv i l : call_label i = Some l -> i_op i = O_callsub /\ i_args i = [AStr l].
Proof.
  unfold call_label. destruct i as [o a]. cbn [i_op i_args].
  destruct o; try discriminate; destruct a as [|[n|s|l'|u|sb] [|? ?]]; try discriminate.
  intros H. injection H as <-. split; reflexivity.
Qed.

Lemma call_label_comment i : is_comment (i_op i) = true -> call_label i = None.
Proof. intros H. apply is_comment_eq in H. unfold call_label. rewrite H. reflexivity. Qed.

(* ---------------------------------------------------------------------------------------------- *)
(* 2. one step                                                                                      *)
(* ---------------------------------------------------------------------------------------------- *)
Section PSim.
  Variable env : denv.
  Variable code : list comp.
  Variable P : program.
  Hypothesis LK : link (e_msel env) code = Some P.
  Hypothesis TG : targets_ok code = true.

  Let cx := e_ctx env.

  Lemma psim_step fr pc stk st m c' :
    prel code fr pc stk st m -> List.length stk <= STACK_MAX ->
    pstep env code (PAt fr pc stk st) = Some c' ->
    match c' with
    | PAt fr' pc' stk' st' =>
        (exists m', step cx P m = Running m' /\ prel code fr' pc' stk' st' m') \/
        (prel code fr' pc' stk' st' m /\ fr' = fr /\ exists c, nth_error code pc = Some c /\ real c = false)
    | PUnsup _ => True
    | h => exists v, pverdict_of h = Some v /\ step cx P m = Done v m /\ pfinal_ok h m
    end.
  Proof.
    intros (Rpc & Rstk & Rst & Rcalls) Hh Hstep.
    destruct (stmts_ok env code P LK) as [ss HS]. destruct (link_spec _ _ _ LK) as [PC PL].
    pose proof (pinstrs_nth (e_msel env) code ss pc HS) as Hn.
    cbn [pstep] in Hstep.
    assert (Hheight : (STACK_MAX <? height m)%nat = false).
    { unfold height. rewrite Rstk. apply Nat.ltb_ge. exact Hh. }
    destruct (nth_error code pc) as [[i|lb cm|v]|] eqn:En.
    - (* an op *)
      injection Hstep as <-.
      destruct (is_comment (i_op i)) eqn:Ec.
      + (* comment: no machine step *)
        pose proof (call_label_comment i Ec) as Ecl.
        apply is_comment_eq in Ec. unfold pstep_op. rewrite Ecl, Ec. cbn [is_return is_retsub].
        assert (Ej : jump_of i = None) by (unfold jump_of; rewrite Ec; reflexivity).
        rewrite Ej. unfold do_op. rewrite slot_access_comment.
        destruct (args_to_imms env O_comment (i_args i)) as [im|]; [|exact I].
        rewrite exec_op_comment. right. split.
        { repeat split; try assumption. rewrite Hn. exact Rpc. }
        split; [reflexivity|].
        exists (COp i). split; [reflexivity|]. cbn [real]. rewrite Ec. reflexivity.
      + destruct Hn as (im & Ei & Enth & Empc).
        assert (Hm : nth_error (pr_code P) (m_pc m) = Some (mkP (i_op i) im)) by (rewrite PC, Rpc; exact Enth).
        unfold pstep_op.
        destruct (is_return (i_op i)) eqn:Er.
        { apply is_return_eq in Er.
          assert (St : step cx P m =
                       match stk with
                       | VI n :: _ => Done (if (n =? 0)%N then VReject else VApprove) m
                       | _ => Done VFail m
                       end).
          { unfold step. rewrite Hm, Hheight. cbn [p_op p_imms]. rewrite Er, exec_op_return, Rstk. reflexivity. }
          destruct stk as [|[n|b] r].
          - exists VFail. repeat split. exact St.
          - exists (if (n =? 0)%N then VReject else VApprove). split; [reflexivity|]. split; [exact St|].
            split; [exact Rst|]. rewrite Rstk. reflexivity.
          - exists VFail. split; [reflexivity|]. split; [exact St|]. split; [exact Rst|]. rewrite Rstk. reflexivity. }
        destruct (is_retsub (i_op i)) eqn:Es.
        { (* retsub: pop the innermost frame *)
          apply is_retsub_eq in Es.
          destruct fr as [|ret fr'].
          - exists VFail. split; [reflexivity|]. split; [|exact I].
            unfold step. rewrite Hm, Hheight. cbn [p_op p_imms]. rewrite Es, exec_op_retsub, Rcalls. reflexivity.
          - left. eexists. split.
            + unfold step. rewrite Hm, Hheight. cbn [p_op p_imms]. rewrite Es, exec_op_retsub, Rcalls.
              unfold mframes. cbn [map frames_of f_proto f_ret]. reflexivity.
            + repeat split; cbn; assumption. }
        destruct (call_label i) as [l|] eqn:Ecl.
        { (* callsub: push the return position *)
          destruct (call_label_inv i l Ecl) as [Eo Ea].
          rewrite Ea, Eo in Ei. cbn in Ei. injection Ei as <-.
          destruct (find_label l code) as [p|] eqn:Ep.
          - assert (Lp : label_pc P l = Some (mpc code p)) by (rewrite PL, Ep; reflexivity).
            left. eexists. split.
            + unfold step. rewrite Hm, Hheight. cbn [p_op p_imms]. rewrite Eo, exec_op_callsub, Lp. reflexivity.
            + repeat split; cbn; try assumption.
              rewrite Rcalls. unfold mframes. cbn [map frames_of]. rewrite Empc, Rpc. reflexivity.
          - assert (Lp : label_pc P l = None) by (rewrite PL, Ep; reflexivity).
            exists VFail. split; [reflexivity|]. split; [|exact I].
            unfold step. rewrite Hm, Hheight. cbn [p_op p_imms]. rewrite Eo, exec_op_callsub, Lp. reflexivity. }
        destruct (jump_of i) as [[k l]|] eqn:Ej.
        { destruct (jump_of_inv i k l Ej) as [Eo Ea].
          destruct (target_defined code TG pc i k l En Ej) as [p Ep].
          assert (Lp : label_pc P l = Some (mpc code p)) by (rewrite PL, Ep; reflexivity).
          rewrite Ea in Ei. cbn in Ei. injection Ei as <-.
          unfold pgoto. rewrite Ep.
          destruct k; cbn [jop] in Eo.
          - (* b *)
            left. eexists. split.
            + unfold step. rewrite Hm, Hheight. cbn [p_op p_imms]. rewrite Eo, exec_op_b, Lp. reflexivity.
            + repeat split; cbn; assumption.
          - (* bz *)
            destruct stk as [|[n|b] r]; cbn [truthy].
            + exists VFail. repeat split.
              unfold step. rewrite Hm, Hheight. cbn [p_op p_imms]. rewrite Eo, exec_op_bz, Rstk. reflexivity.
            + assert (St : step cx P m = Running (with_pc_stack m (if (n =? 0)%N then mpc code p else S (m_pc m)) r)).
              { unfold step. rewrite Hm, Hheight. cbn [p_op p_imms]. rewrite Eo, exec_op_bz, Rstk, Lp. reflexivity. }
              destruct (n =? 0)%N; cbn [negb]; left; eexists; (split; [exact St|]); repeat split; cbn; try assumption.
              rewrite Empc, Rpc. reflexivity.
            + exists VFail. repeat split.
              unfold step. rewrite Hm, Hheight. cbn [p_op p_imms]. rewrite Eo, exec_op_bz, Rstk. reflexivity.
          - (* bnz *)
            destruct stk as [|[n|b] r]; cbn [truthy].
            + exists VFail. repeat split.
              unfold step. rewrite Hm, Hheight. cbn [p_op p_imms]. rewrite Eo, exec_op_bnz, Rstk. reflexivity.
            + assert (St : step cx P m = Running (with_pc_stack m (if (n =? 0)%N then S (m_pc m) else mpc code p) r)).
              { unfold step. rewrite Hm, Hheight. cbn [p_op p_imms]. rewrite Eo, exec_op_bnz, Rstk, Lp. reflexivity. }
              destruct (n =? 0)%N; cbn [negb]; left; eexists; (split; [exact St|]); repeat split; cbn; try assumption.
              rewrite Empc, Rpc. reflexivity.
            + exists VFail. repeat split.
              unfold step. rewrite Hm, Hheight. cbn [p_op p_imms]. rewrite Eo, exec_op_bnz, Rstk. reflexivity. }
        (* a plain operation: the same [exec_op] on both sides *)
        unfold do_op. rewrite (slot_access_none _ _ _ _ Ei), (imms_of_args_env env _ _ _ Ei).
        fold cx.
        destruct (exec_op cx (i_op i) im stk st) as [s' st'| | |] eqn:Ex.
        * left. eexists. split.
          { unfold step. rewrite Hm, Hheight. cbn [p_op p_imms]. rewrite Rstk, Rst, Ex. reflexivity. }
          repeat split; cbn; try assumption. rewrite Empc, Rpc. reflexivity.
        * exists VFail. repeat split.
          unfold step. rewrite Hm, Hheight. cbn [p_op p_imms]. rewrite Rstk, Rst, Ex. reflexivity.
        * destruct (is_err (i_op i)) eqn:Ee; [|exact I].
          apply is_err_eq in Ee. exists VFail. repeat split.
          unfold step. rewrite Hm, Hheight. cbn [p_op p_imms]. rewrite Rstk, Rst, Ex, Ee. reflexivity.
        * exact I.
    - injection Hstep as <-. right. split.
      { repeat split; try assumption. rewrite Hn. exact Rpc. }
      split; [reflexivity|]. eexists. split; reflexivity.
    - injection Hstep as <-. right. split.
      { repeat split; try assumption. rewrite Hn. exact Rpc. }
      split; [reflexivity|]. eexists. split; reflexivity.
    - (* off the end *)
      injection Hstep as <-. exists (end_verdict stk). split; [reflexivity|]. split; [|split; assumption].
      unfold step. rewrite PC, Rpc, Hn, Rstk. unfold end_verdict.
      destruct stk as [|[n|b] [|? ?]]; reflexivity.
  Qed.
End PSim.

(* ---------------------------------------------------------------------------------------------- *)
(* 3. runs                                                                                          *)
(* ---------------------------------------------------------------------------------------------- *)
Lemma pstar_from_final env code c c' : pfinal c = true -> pstar env code c c' -> c' = c.
Proof.
  intros F H. destruct H as [|c c1 c2 S1 _]; [reflexivity|].
  rewrite (pfinal_stuck env code c F) in S1. discriminate S1.
Qed.

(* the operand stack stays within the AVM's limit along the run from c0 *)
Definition pstack_bounded (env : denv) (code : list comp) (c0 : pconf) : Prop :=
  forall fr pc stk st, pstar env code c0 (PAt fr pc stk st) -> List.length stk <= STACK_MAX.

Lemma pstack_bounded_step env code c c' :
  pstep env code c = Some c' -> pstack_bounded env code c -> pstack_bounded env code c'.
Proof. intros S1 B fr pc stk st H. apply (B fr pc stk st). eapply pstar_step; [exact S1|exact H]. Qed.

Theorem pmachine_bridge env code P :
  link (e_msel env) code = Some P -> targets_ok code = true ->
  forall c0 h, pstar env code c0 h ->
  forall fr pc stk st m v, c0 = PAt fr pc stk st -> prel code fr pc stk st m ->
    pverdict_of h = Some v -> pstack_bounded env code c0 ->
    exists n m', (forall k, n <= k -> run k (e_ctx env) P m = (v, m')) /\ pfinal_ok h m'.
Proof.
  intros LK TG c0 h H.
  induction H as [c|c c' c'' S1 H' IH]; intros fr pc stk st m v E R V B.
  - subst c. discriminate V.
  - subst c.
    assert (Hh : List.length stk <= STACK_MAX) by (apply (B fr pc stk st); apply pstar_refl).
    pose proof (psim_step env code P LK TG fr pc stk st m c' R Hh S1) as Sim.
    pose proof (pstack_bounded_step env code _ _ S1 B) as B'.
    destruct c' as [fr' pc' stk' st'|stk' st'|v' st'| |o].
    + destruct Sim as [(m1 & St & R1)|(R1 & _)].
      * destruct (IH fr' pc' stk' st' m1 v eq_refl R1 V B') as (n & m' & Hrun & Hfin).
        exists (S n), m'. split; [|exact Hfin].
        intros k Hk. destruct k as [|k]; [lia|]. cbn [run]. rewrite St. apply Hrun. lia.
      * exact (IH fr' pc' stk' st' m v eq_refl R1 V B').
    + assert (Ec : c'' = PEnd stk' st') by (eapply pstar_from_final; [|exact H']; reflexivity). subst c''.
      destruct Sim as (v1 & V1 & St & Hfin). rewrite V1 in V. injection V as <-.
      exists 1, m. split; [|exact Hfin]. intros k Hk. destruct k as [|k]; [lia|]. cbn [run]. rewrite St. reflexivity.
    + assert (Ec : c'' = PExit v' st') by (eapply pstar_from_final; [|exact H']; reflexivity). subst c''.
      destruct Sim as (v1 & V1 & St & Hfin). rewrite V1 in V. injection V as <-.
      exists 1, m. split; [|exact Hfin]. intros k Hk. destruct k as [|k]; [lia|]. cbn [run]. rewrite St. reflexivity.
    + assert (Ec : c'' = PFail) by (eapply pstar_from_final; [|exact H']; reflexivity). subst c''.
      destruct Sim as (v1 & V1 & St & Hfin). rewrite V1 in V. injection V as <-.
      exists 1, m. split; [|exact Hfin]. intros k Hk. destruct k as [|k]; [lia|]. cbn [run]. rewrite St. reflexivity.
    + assert (Ec : c'' = PUnsup o) by (eapply pstar_from_final; [|exact H']; reflexivity). subst c''. discriminate V.
Qed.

(* from the initial machine *)
Lemma prel_init code st : prel code [] 0 [] st (init_mach st).
Proof. repeat split. cbn. now rewrite mpc_0. Qed.

Corollary pmachine_bridge_init env code P :
  link (e_msel env) code = Some P -> targets_ok code = true ->
  forall st h v, pstar env code (PAt [] 0 [] st) h -> pverdict_of h = Some v ->
    pstack_bounded env code (PAt [] 0 [] st) ->
    exists n m', (forall k, n <= k -> run k (e_ctx env) P (init_mach st) = (v, m')) /\ pfinal_ok h m'.
Proof.
  intros LK TG st h v H V B.
  exact (pmachine_bridge env code P LK TG _ h H [] 0 [] st (init_mach st) v eq_refl (prel_init code st) V B).
Qed.

(* the step-for-step statement in one piece, for the property file *)
Theorem machine_simulates_linked env code P :
  link (e_msel env) code = Some P -> targets_ok code = true ->
  forall fr pc stk st m c', prel code fr pc stk st m -> List.length stk <= STACK_MAX ->
    pstep env code (PAt fr pc stk st) = Some c' ->
    match c' with
    | PAt fr' pc' stk' st' =>
        (exists m', step (e_ctx env) P m = Running m' /\ prel code fr' pc' stk' st' m') \/
        (prel code fr' pc' stk' st' m /\ fr' = fr /\ exists c, nth_error code pc = Some c /\ real c = false)
    | PUnsup _ => True
    | h => exists v, pverdict_of h = Some v /\ step (e_ctx env) P m = Done v m /\ pfinal_ok h m
    end.
Proof. intros LK TG fr pc stk st m c'. exact (psim_step env code P LK TG fr pc stk st m c'). Qed.

(* the two call rules, spelled out: what the machine does at a callsub / retsub of the linked list *)
Corollary machine_linked_callsub env code P :
  link (e_msel env) code = Some P -> targets_ok code = true ->
  forall fr pc stk st m i l p,
    prel code fr pc stk st m -> List.length stk <= STACK_MAX ->
    nth_error code pc = Some (COp i) -> call_label i = Some l -> find_label l code = Some p ->
    exists m', step (e_ctx env) P m = Running m' /\ prel code (S pc :: fr) p stk st m'.
Proof.
  intros LK TG fr pc stk st m i l p R Hh En Ecl Ep.
  assert (Hs : pstep env code (PAt fr pc stk st) = Some (PAt (S pc :: fr) p stk st)).
  { cbn [pstep]. rewrite En. f_equal. unfold pstep_op.
    destruct (call_label_inv i l Ecl) as [Eo _]. rewrite Eo. cbn [is_return is_retsub].
    rewrite Ecl, Ep. reflexivity. }
  pose proof (psim_step env code P LK TG fr pc stk st m _ R Hh Hs) as Sim. cbn iota in Sim.
  destruct Sim as [Sim|(_ & _ & c & Ec & Rc)]; [exact Sim|].
  rewrite En in Ec. injection Ec as <-. cbn [real] in Rc.
  destruct (call_label_inv i l Ecl) as [Eo _]. rewrite Eo in Rc. discriminate Rc.
Qed.

Corollary machine_linked_retsub env code P :
  link (e_msel env) code = Some P -> targets_ok code = true ->
  forall fr ret pc stk st m i,
    prel code (ret :: fr) pc stk st m -> List.length stk <= STACK_MAX ->
    nth_error code pc = Some (COp i) -> i_op i = O_retsub ->
    exists m', step (e_ctx env) P m = Running m' /\ prel code fr ret stk st m'.
Proof.
  intros LK TG fr ret pc stk st m i R Hh En Eo.
  assert (Hs : pstep env code (PAt (ret :: fr) pc stk st) = Some (PAt fr ret stk st)).
  { cbn [pstep]. rewrite En. f_equal. unfold pstep_op. rewrite Eo. reflexivity. }
  pose proof (psim_step env code P LK TG (ret :: fr) pc stk st m _ R Hh Hs) as Sim. cbn iota in Sim.
  destruct Sim as [Sim|(_ & _ & c & Ec & Rc)]; [exact Sim|].
  rewrite En in Ec. injection Ec as <-. cbn [real] in Rc. rewrite Eo in Rc. discriminate Rc.
Qed.

(* a checker for [pstack_bounded] on terminating runs (for examples) *)
Fixpoint pbounded_run (fuel : nat) (env : denv) (code : list comp) (c : pconf) : bool :=
  match c with
  | PAt _ _ stk _ =>
      (List.length stk <=? STACK_MAX)%nat &&
      match fuel with
      | O => false
      | S f => match pstep env code c with Some c' => pbounded_run f env code c' | None => true end
      end
  | _ => true
  end.

Lemma pbounded_run_sound env code : forall fuel c, pbounded_run fuel env code c = true -> pstack_bounded env code c.
Proof.
  induction fuel as [|f IH]; intros c H fr pc stk st R.
  - destruct c as [fr0 pc0 stk0 st0| | | |]; cbn [pbounded_run] in H;
      try (apply pstar_from_final in R; [discriminate R|reflexivity]).
    rewrite andb_false_r in H. discriminate H.
  - destruct c as [fr0 pc0 stk0 st0| | | |];
      try (apply pstar_from_final in R; [discriminate R|reflexivity]).
    cbn [pbounded_run] in H. apply andb_true_iff in H as [Hh Hn]. apply Nat.leb_le in Hh.
    remember (PAt fr0 pc0 stk0 st0) as c0 eqn:E0. remember (PAt fr pc stk st) as c1 eqn:E1.
    destruct R as [c|c c' c'' S1 R'].
    + subst c. injection E1 as <- <- <- <-. exact Hh.
    + subst c c''. rewrite S1 in Hn. exact (IH c' Hn fr pc stk st R').
Qed.
