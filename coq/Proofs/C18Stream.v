(* Proofs/C18Stream.v — C18, instruction stream: where annotations DO change the compiled stream on
   the faithful model (refutations with witnesses, by computation on compile_components), what Nonce
   adds to the block graph, and the part of the pipeline for which comment ops are provably inert. *)
From Coq Require Import List Arith NArith Ascii String Bool Lia.
From PV Require Import Base.Bytes Base.Sexp AVM.Syntax AVM.Machine AVM.Parse Src.Expr Comp.Blocks Comp.Lower Comp.Passes
  Comp.Assemble Comp.Compile Comp.Annotate Extract.WireExpr Proofs.C18Sem Proofs.C18Commute.
Import ListNotations.
Local Open Scope string_scope.

(* options as the harness resolves them: PyTeal's own op table for version checks *)
Definition opts (version : N) (opt_slots : bool) : copts :=
  mkOpts version true opt_slots false gen_minv gen_field_minv.

Definition EInt (n : N) : expr := EOp O_int [AInt n] TUint [].
Definition fee_lt_3 : expr := EOp O_lt [] TUint [EOp O_txn [AStr "Fee"] TUint []; EInt 3].
Definition approve : expr := EExit (EInt 1).
Definition mkp (main : expr) (subs : list routine) : prog := mkProgram main subs [].

Definition stream_eq (o : copts) (p p' : prog) : option bool :=
  match compile_components o gen_modes p, compile_components o gen_modes p' with
  | COk a, COk b => Some (alpha_eqb a b)
  | _, _ => None
  end.

(* (A) a Comment wrapping an expression whose lowering is empty: the block is no longer elided *)
Definition wA_plain : prog := mkp (ESeq [EIf fee_lt_3 (ESeq []) None; approve]) [].
Definition wA_annot : prog := mkp (ESeq [EIf fee_lt_3 (annot_comment "hi" (ESeq [])) None; approve]) [].

Lemma wA_related : arel_prog wA_plain wA_annot.
Proof.
  split; [|split; [constructor|reflexivity]]. cbn [p_main wA_plain wA_annot mkp].
  apply ar_seq. apply ars_cons.
  - apply ar_if; [apply arel_refl|apply arel_comment].
  - apply arel_seq_refl. repeat constructor; apply arel_refl.
Qed.

Lemma wA_streams_differ : stream_eq (opts 6 false) wA_plain wA_annot = Some false.
Proof. vm_compute. reflexivity. Qed.

(* the two outputs, for the record *)
Lemma wA_outputs :
  compile_model (opts 6 false) gen_modes wA_plain =
    COk ["#pragma version 6"; "txn Fee"; "int 3"; "<"; "bnz main_l1"; "main_l1:"; "int 1"; "return"] /\
  compile_model (opts 6 false) gen_modes wA_annot =
    COk ["#pragma version 6"; "txn Fee"; "int 3"; "<"; "bz main_l2"; "// hi"; "main_l2:"; "int 1"; "return"].
Proof. split; vm_compute; reflexivity. Qed.

(* (B) a comment between a store and the load of the same variable disables the slot optimiser *)
Definition slotx : N := 300.
Definition wB_plain : prog :=
  mkp (ESeq [EOp O_store [ASlot slotx] TNone [EOp O_txn [AStr "Fee"] TUint []];
             EReturn (Some (EOp O_load [ASlot slotx] TUint []))]) [].
Definition wB_annot : prog :=
  mkp (ESeq [EOp O_store [ASlot slotx] TNone [EOp O_txn [AStr "Fee"] TUint []];
             EReturn (Some (annot_comment "c" (EOp O_load [ASlot slotx] TUint [])))]) [].

Lemma wB_related : arel_prog wB_plain wB_annot.
Proof.
  split; [|split; [constructor|reflexivity]]. cbn [p_main wB_plain wB_annot mkp].
  apply ar_seq. apply ars_cons; [apply arel_refl|]. apply ars_cons; [|apply ars_nil].
  apply ar_return. apply arel_comment.
Qed.

Lemma wB_streams_differ : stream_eq (opts 9 true) wB_plain wB_annot = Some false.
Proof. vm_compute. reflexivity. Qed.

Lemma wB_streams_equal_unoptimised : stream_eq (opts 9 false) wB_plain wB_annot = Some true.
Proof. vm_compute. reflexivity. Qed.

Lemma wB_outputs :
  compile_model (opts 9 true) gen_modes wB_plain = COk ["#pragma version 9"; "txn Fee"; "return"] /\
  compile_model (opts 9 true) gen_modes wB_annot =
    COk ["#pragma version 9"; "txn Fee"; "store 0"; "// c"; "load 0"; "return"].
Proof. split; vm_compute; reflexivity. Qed.

(* (C) a stand-alone Comment after a final Return hides has_return: the subroutine gets a second,
   dead retsub; in the main routine the program no longer compiles *)
Definition pop1 : expr := EOp O_pop [] TNone [EInt 1].
Definition subC (body : expr) : routine := mkRoutine 0 "f" TNone [] body None.
Definition mainC : expr := ESeq [ECall 0 TNone []; approve].
Definition wC_plain : prog := mkp mainC [subC (ESeq [pop1; EReturn None])].
Definition wC_annot : prog := mkp mainC [subC (ESeq [pop1; EReturn None; annot_comment0 "done"])].

Lemma wC_related : arel_prog wC_plain wC_annot.
Proof.
  split; [apply arel_refl|]. split; [|reflexivity].
  constructor; try reflexivity; [|constructor]. cbn [r_body subC].
  exact (arel_seq_insert "done" [pop1; EReturn None] []).
Qed.

Lemma wC_streams_differ : stream_eq (opts 6 false) wC_plain wC_annot = Some false.
Proof. vm_compute. reflexivity. Qed.

Lemma wC_outputs :
  compile_model (opts 6 false) gen_modes wC_plain =
    COk ["#pragma version 6"; "callsub f_0"; "int 1"; "return"; nl ++ "// f" ++ nl ++ "f_0:"; "int 1"; "pop"; "retsub"] /\
  compile_model (opts 6 false) gen_modes wC_annot =
    COk ["#pragma version 6"; "callsub f_0"; "int 1"; "return"; nl ++ "// f" ++ nl ++ "f_0:"; "int 1"; "pop"; "retsub"; "// done"; "retsub"].
Proof. split; vm_compute; reflexivity. Qed.

Definition wC_main_plain : prog := mkp (ESeq [pop1; approve]) [].
Definition wC_main_annot : prog := mkp (ESeq [pop1; approve; annot_comment0 "end"]) [].

Lemma wC_main_related : arel_prog wC_main_plain wC_main_annot.
Proof.
  split; [|split; [constructor|reflexivity]].
  exact (arel_seq_insert "end" [pop1; approve] []).
Qed.

Lemma wC_main_outputs :
  compile_model (opts 6 false) gen_modes wC_main_plain = COk ["#pragma version 6"; "int 1"; "pop"; "int 1"; "return"] /\
  compile_model (opts 6 false) gen_modes wC_main_annot = CErr ErrCompile.
Proof. split; vm_compute; reflexivity. Qed.

(* the statement "annotations leave the stream unchanged" is false of the faithful model *)
Theorem annotation_stream_refuted_witnesses :
  exists o p p', arel_prog p p' /\ stream_eq o p p' = Some false.
Proof. exists (opts 6 false), wA_plain, wA_annot. split; [exact wA_related|exact wA_streams_differ]. Qed.

(* ---- Nonce adds exactly: an empty Seq start block, a block [byte lit], a block [pop], chained in
   front of the child's unchanged fragment ---- *)
Theorem nonce_lowering : forall o c lit e k g,
  lower o c (annot_nonce lit e) k g =
  let '((s, en), g1) := lower o c e k g in
  let '(popb, g2) := add_block g1 (BSimple [mkI O_pop []] (Some s)) in
  let '(byteb, g3) := add_block g2 (BSimple [mkI O_byte [AStr lit]] (Some popb)) in
  let '(st, g4) := add_block g3 (BSimple [] (Some byteb)) in
  ((st, en), g4).
Proof.
  intros o c lit e k g. unfold annot_nonce. cbn [lower lower_chain].
  destruct (lower o c e k g) as [[s en] g1]. cbn [or_some or_else].
  unfold I. reflexivity.
Qed.

(* ---- the partial invariance theorem of Proofs/C18Commute.v is not vacuous, and its side condition is
   exactly what witness (A) violates ---- *)
Definition lowered (e : expr) : graph * id * id :=
  let '((s, en), g) := lower (opts 6 false) (mkL None None None main_param) e None empty_graph in
  let '(g1, _) := add_incoming g s in (g1, s, en).

Definition ex_clean_prog : expr :=
  ESeq [annot_comment "note" pop1; EIf fee_lt_3 (annot_comment "why" pop1) None;
        EWhile fee_lt_3 (ESeq [annot_comment0 "body"; pop1]); approve].

Lemma ex_clean :
  let '(g, s, en) := lowered ex_clean_prog in
  normalize_clean g s = true /\
  routine_code (strip_graph g) s en = option_map strip_comps (routine_code g s en) /\
  option_map (fun l => Nat.leb 12 (List.length l)) (routine_code g s en) = Some true.
Proof. vm_compute. repeat split; reflexivity. Qed.

Lemma wA_side_condition_fails :
  let '(g, s, _) := lowered (p_main wA_annot) in normalize_clean g s = false.
Proof. vm_compute. reflexivity. Qed.
