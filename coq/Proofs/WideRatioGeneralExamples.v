(* Proofs/WideRatioGeneralExamples.v — the hypotheses of the general C16 theorems are satisfiable:
   WideRatio with a COMPOUND third factor (Int 3 + Int 4), with a RUN-TIME third factor (Txn.fee),
   with a factor that fails (1 / 0) and one that exits; source semantics and lowered graph. *)
From Coq Require Import List NArith String Bool.
From PV Require Import Base.Bytes Base.U64 AVM.Syntax AVM.Ops AVM.Machine Src.Expr Src.Denote
  Comp.Blocks Comp.WideRatio Comp.Lower Comp.GraphSem
  Proofs.LowerFrame Proofs.LowerLemmas Proofs.LowerCorrect
  Proofs.WideRatioProof Proofs.WideRatioGeneralOps Proofs.WideRatioGeneral Proofs.WideRatioGeneralGraph.
Import ListNotations.
Local Open Scope N_scope.
Local Open Scope string_scope.

Lemma cons_ne {A} (x : A) l : x :: l <> [].
Proof. discriminate. Qed.

Definition wx_txn : txn := mkTxn [("Fee", VI 1000)] [] [] 0.
Definition wx_ctx : ctx := mkCtx true [wx_txn] 0 [] [] 0.
Definition wx_env : denv := mkEnv wx_ctx (fun n => n) [] [] false (fun _ => mkI O_err []).
Definition wx_st : mstate := init_state [] [] [].
Definition wx_opts : copts := mkOpts 6 true false false (fun _ => 0) (fun _ _ => 0).
Definition wx_lctx : lctx := mkL None None None (fun _ => mkI O_err []).

Definition x_sum34 : expr := ENary O_add TUint [x_int 3; x_int 4].
Definition x_fee : expr := EOp O_txn [AStr "Fee"] TUint [].
Definition x_div0 : expr := EOp O_div [] TUint [x_int 1; x_int 0].
Definition x_exit : expr := EExit (x_int 1).

(* WideRatio([Int 10, Int 20, Int 3 + Int 4], [Int 7]) *)
Definition wx_compound : expr := EWide [x_int 10; x_int 20; x_sum34] [x_int 7].
(* WideRatio([Int 2^63, Int 4, Txn.fee], [Int 2^40, Int 1000]) : running product 2^65 * 1000 needs the high word *)
Definition wx_runtime : expr :=
  EWide [x_int 9223372036854775808; x_int 4; x_fee] [x_int 1099511627776; x_int 1000].

Lemma wx_eval_sum34 f st : forall s, denote wx_env (S (S f)) x_sum34 s st = DNorm (VI 7 :: s) st.
Proof. intros s. reflexivity. Qed.
Lemma wx_eval_fee f st : forall s, denote wx_env (S f) x_fee s st = DNorm (VI 1000 :: s) st.
Proof. intros s. reflexivity. Qed.

Lemma wx_evalF_compound_num :
  eval_factors wx_env 2 [x_int 10; x_int 20; x_sum34] wx_st [10; 20; 7] wx_st.
Proof.
  apply (evalF_cons _ _ _ _ 10 wx_st); [reflexivity|intros s; reflexivity|].
  apply (evalF_cons _ _ _ _ 20 wx_st); [reflexivity|intros s; reflexivity|].
  apply (evalF_cons _ _ _ _ 7 wx_st); [reflexivity|apply wx_eval_sum34|constructor].
Qed.
Lemma wx_evalF_compound_den : eval_factors wx_env 2 [x_int 7] wx_st [7] wx_st.
Proof. apply (eval_factors_consts wx_env 1 [7]). repeat constructor. Qed.

(* the general theorem applies, and gives 10 * 20 * (3 + 4) / 7 = 200 *)
Example wide_ratio_general_compound :
  denote wx_env 3 wx_compound [] wx_st = DNorm [VI 200] wx_st.
Proof.
  unfold wx_compound.
  rewrite (wide_ratio_general wx_env 2 _ _ [10; 20; 7] [7] [] wx_st wx_st wx_st
             (cons_ne _ _) (cons_ne _ _) wx_evalF_compound_num wx_evalF_compound_den).
  vm_compute. reflexivity.
Qed.

(* ... and is what the evaluator computes *)
Example wide_ratio_general_compound_computed :
  denote wx_env 3 wx_compound [] wx_st = DNorm [VI 200] wx_st.
Proof. vm_compute. reflexivity. Qed.

Lemma wx_evalF_runtime_num :
  eval_factors wx_env 1 [x_int 9223372036854775808; x_int 4; x_fee] wx_st [9223372036854775808; 4; 1000] wx_st.
Proof.
  apply (evalF_cons _ _ _ _ 9223372036854775808 wx_st); [reflexivity|intros s; reflexivity|].
  apply (evalF_cons _ _ _ _ 4 wx_st); [reflexivity|intros s; reflexivity|].
  apply (evalF_cons _ _ _ _ 1000 wx_st); [reflexivity|apply wx_eval_fee|constructor].
Qed.
Lemma wx_evalF_runtime_den :
  eval_factors wx_env 1 [x_int 1099511627776; x_int 1000] wx_st [1099511627776; 1000] wx_st.
Proof. apply (eval_factors_consts wx_env 0 [1099511627776; 1000]). repeat constructor. Qed.

(* 2^63 * 4 * fee / (2^40 * 1000) = 2^25 with fee = 1000; the numerator 2^65 * 1000 does not fit 64 bits *)
Example wide_ratio_general_runtime :
  denote wx_env 2 wx_runtime [VI 5] wx_st = DNorm [VI 33554432; VI 5] wx_st.
Proof.
  unfold wx_runtime.
  rewrite (wide_ratio_general wx_env 1 _ _ _ _ [VI 5] wx_st wx_st wx_st
             (cons_ne _ _) (cons_ne _ _) wx_evalF_runtime_num wx_evalF_runtime_den).
  vm_compute. reflexivity.
Qed.

(* never-wraps applies to the compound example: its factors are uint64-valued in every environment *)
Lemma wx_uint_valued_compound env :
  Forall (uint_valued env) [x_int 10; x_int 20; x_sum34] /\ Forall (uint_valued env) [x_int 7].
Proof.
  split; repeat constructor; try apply uint_valued_int.
  apply uint_valued_nary; [reflexivity|apply uint_valued_int|repeat constructor; apply uint_valued_int].
Qed.

Example wide_ratio_never_wraps_compound :
  exists nvals dvals,
    denote wx_env 3 wx_compound [] wx_st = DNorm [VI (prod nvals / prod dvals)] wx_st /\
    running_ok 1 nvals = true /\ running_ok 1 dvals = true /\ prod dvals <> 0%N.
Proof.
  destruct (wx_uint_valued_compound wx_env) as [Un Ud].
  destruct (wide_ratio_never_wraps wx_env 3 _ _ [] wx_st _ _ (cons_ne _ _) (cons_ne _ _) Un Ud
              wide_ratio_general_compound_computed)
    as (f & nvals & dvals & stm & _ & _ & _ & R1 & R2 & Nz & _ & E).
  exists nvals, dvals. rewrite <- E.
  split; [exact wide_ratio_general_compound_computed|]. repeat split; assumption.
Qed.

(* a factor that fails: WideRatio([Int 10, Int 20, Int 1 / Int 0], [Int 7]) fails *)
Example wide_ratio_factor_fails :
  denote wx_env 3 (EWide [x_int 10; x_int 20; x_div0] [x_int 7]) [] wx_st = DFail.
Proof.
  assert (Hpre : eval_factors wx_env 2 [x_int 10; x_int 20] wx_st [10; 20] wx_st)
    by (apply (eval_factors_consts wx_env 1 [10; 20]); repeat constructor).
  destruct (wide_ratio_abrupt_num wx_env 2 [x_int 10; x_int 20] x_div0 [] [x_int 7] [] wx_st [10; 20] wx_st
              (fun _ => DFail) Hpre (fun s => eq_refl) (fun _ => Logic.I)) as (acc & E).
  exact E.
Qed.

(* a factor that exits the program: the WideRatio has that outcome, no number is produced *)
Example wide_ratio_factor_exits :
  denote wx_env 4 (EWide [x_int 10; x_int 20] [x_int 3; x_exit]) [] wx_st = DExit (VI 1) wx_st.
Proof.
  assert (Hn : eval_factors wx_env 3 [x_int 10; x_int 20] wx_st [10; 20] wx_st)
    by (apply (eval_factors_consts wx_env 2 [10; 20]); repeat constructor).
  assert (Hpre : eval_factors wx_env 3 [x_int 3] wx_st [3] wx_st)
    by (apply (eval_factors_consts wx_env 2 [3]); repeat constructor).
  destruct (wide_ratio_abrupt_den wx_env 3 [x_int 10; x_int 20] [x_int 3] x_exit [] [] wx_st [10; 20] wx_st [3] wx_st
              (fun _ => DExit (VI 1) wx_st) (cons_ne _ _) Hn Hpre (fun s => eq_refl) (fun _ => Logic.I))
    as (acc & E).
  exact E.
Qed.

(* an overflowing running product fails even though every factor evaluates: 2^64-1 squared times (3+4) *)
Example wide_ratio_general_overflow :
  denote wx_env 3 (EWide [x_int MAXU64; x_int MAXU64; x_sum34] [x_int 1]) [] wx_st = DFail.
Proof. vm_compute. reflexivity. Qed.

(* ---------------- the lowered graph of the compound example ---------------- *)
Definition wx_lowered := lower wx_opts wx_lctx wx_compound None empty_graph.

Lemma wx_consistent : consistent wx_env wx_lctx.
Proof. split; [reflexivity|intros i; reflexivity]. Qed.

Example wide_ratio_general_graph_compound :
  star wx_env (g_blk (snd wx_lowered)) (GAt (fst (fst wx_lowered)) [] wx_st) (GEnd [VI 200] wx_st).
Proof.
  pose proof (wide_ratio_general_graph wx_env wx_opts wx_lctx wx_consistent
                [x_int 10; x_int 20; x_sum34] [x_int 7] None empty_graph
                (fst (fst wx_lowered)) (snd (fst wx_lowered)) (snd wx_lowered) wf_empty
                ltac:(unfold wx_lowered, wx_compound; destruct (lower _ _ _ _ _) as [[? ?] ?]; reflexivity)
                (g_blk (snd wx_lowered)) (fun i b H => H)
                2 [10; 20; 7] [7] [] wx_st wx_st wx_st
                (cons_ne _ _) (cons_ne _ _) wx_evalF_compound_num wx_evalF_compound_den) as T.
  exact T.
Qed.

(* the compound factor's code is IN the graph: running the graph executes 12 blocks *)
Example wide_ratio_graph_compound_run :
  grun 40 wx_env (g_blk (snd wx_lowered)) (GAt (fst (fst wx_lowered)) [] wx_st) = GEnd [VI 200] wx_st.
Proof. vm_compute. reflexivity. Qed.
