(* Proofs/EndToEndExits.v — the "single exit" fact about the graph that lowering produces, needed to
   compose the stages of C01 (Props/C01_end_to_end.v):

     a block that can be LEFT WITHOUT A SUCCESSOR (no outgoing edge and no return/retsub/err among its
     operations — a "fall-off" block) is created by [lower e k] only as the END block of the fragment
     and only when the continuation [k] is None; the end block is always a simple block whose
     successor is exactly [k].

   This is what makes the flattened code correct at the place where the linear machine runs off a
   block: sortBlocks puts the end block last, so falling off it is falling off the code.  The fact is
   NOT unconditional: a Break/Continue outside a loop and a Continue in a loop header are lowered to
   blocks without a successor.  PyTeal rejects the former while lowering ([check_expr]) and the model
   excludes the latter ([has_bad_continue]); both checks are part of [compile_one], and they are the
   hypotheses here.  One induction over the recipe, same skeleton as Proofs/LowerShape.v. *)
From Coq Require Import List Arith NArith String Bool Lia.
From PV Require Import Base.Bytes AVM.Syntax Src.Expr Comp.Blocks Comp.WideRatio Comp.Lower
  Proofs.LowerFrame.
Import ListNotations.

(* a block control can fall off: no successor and no halting operation *)
Definition falloff (bb : block) : Prop :=
  existsb is_term_op (b_ops bb) = false /\ outgoing bb = [].

(* every fall-off block of g' is an unchanged block of g, or is the block [ex] *)
Definition ex_post (g g' : graph) (ex : option id) : Prop :=
  forall i bb, g_blk g' i = Some bb -> falloff bb -> g_blk g i = Some bb \/ ex = Some i.

Definition kex (k : option id) (en : id) : option id :=
  match k with None => Some en | Some _ => None end.

(* the end block is a simple block whose successor is the continuation — or, for a fragment that ends
   in Break/Continue, the loop exit / continue target (the alternatives [A]) *)
Definition endblk (A : option id -> Prop) (g : graph) (en : id) (k : option id) : Prop :=
  exists ops n, g_blk g en = Some (BSimple ops n) /\ (n = k \/ A n).

Definition xpost (A : option id -> Prop) (g : graph) (k : option id) (en : id) (g' : graph) : Prop :=
  ex_post g g' (kex k en) /\ endblk A g' en k.

Lemma ex_refl g x : ex_post g g x.
Proof. intros i bb E _. left. exact E. Qed.

Lemma ex_trans_l a b c x : ex_post a b x -> ex_post b c None -> ex_post a c x.
Proof.
  intros H1 H2 i bb E F. destruct (H2 i bb E F) as [E'|E']; [|discriminate E'].
  exact (H1 i bb E' F).
Qed.

Lemma ex_trans_r a b c y : ex_post a b None -> ex_post b c y -> ex_post a c y.
Proof.
  intros H1 H2 i bb E F. destruct (H2 i bb E F) as [E'|E']; [|right; exact E'].
  destruct (H1 i bb E' F) as [E''|E'']; [left; exact E''|discriminate E''].
Qed.

Lemma kex_some k0 en : kex (Some k0) en = None.
Proof. reflexivity. Qed.

Lemma falloff_simple ops k : falloff (BSimple ops k) -> k = None.
Proof. intros [_ O]. destruct k; [discriminate O|reflexivity]. Qed.

Lemma falloff_cond ops t f : ~ falloff (BCond ops (Some t) (Some f)).
Proof. intros [_ O]. discriminate O. Qed.

Lemma falloff_err k : ~ falloff (BSimple [I O_err []] k).
Proof. intros [T _]. discriminate T. Qed.

(* ---- the graph operations ---- *)
Lemma add_block_ex g b i g1 x :
  wf g -> add_block g b = (i, g1) -> (falloff b -> x = Some i) -> ex_post g g1 x.
Proof.
  intros W E Hx j bb Ej Fj.
  destruct (add_block_spec _ _ _ _ W E) as ((_ & K & W1) & Bi & Ii & Ni).
  destruct (Nat.lt_ge_cases j (g_next g)) as [L|L].
  - left. rewrite <- (K j L). exact Ej.
  - destruct (Nat.eq_dec j i) as [Q|Q].
    + subst j. rewrite Bi in Ej. injection Ej as Ej. subst bb. right. exact (Hx Fj).
    + rewrite (W1 j) in Ej by lia. discriminate Ej.
Qed.

Lemma add_simple_x A g ops k i g1 :
  wf g -> add_block g (BSimple ops k) = (i, g1) ->
  ex_post g g1 (kex k i) /\ endblk A g1 i k /\ frame g g1 /\ i = g_next g /\ g_next g1 = S i.
Proof.
  intros W E. destruct (add_block_spec _ _ _ _ W E) as (F & Bi & Ii & Ni).
  split; [|split; [exists ops, k; split; [exact Bi|left; reflexivity]|auto]].
  eapply add_block_ex; eauto. intros Fa. rewrite (falloff_simple _ _ Fa). reflexivity.
Qed.

Lemma add_cond_x g ops t f i g1 :
  wf g -> add_block g (BCond ops (Some t) (Some f)) = (i, g1) ->
  ex_post g g1 None /\ frame g g1 /\ i = g_next g /\ g_next g1 = S i.
Proof.
  intros W E. destruct (add_block_spec _ _ _ _ W E) as (F & Bi & Ii & Ni).
  split; [|auto]. eapply add_block_ex; eauto. intros Fa. destruct (falloff_cond _ _ _ Fa).
Qed.

Lemma add_err_x g i g1 :
  wf g -> add_block g (BSimple [I O_err []] None) = (i, g1) ->
  ex_post g g1 None /\ frame g g1 /\ i = g_next g /\ g_next g1 = S i.
Proof.
  intros W E. destruct (add_block_spec _ _ _ _ W E) as (F & Bi & Ii & Ni).
  split; [|auto]. eapply add_block_ex; eauto. intros Fa. destruct (falloff_err _ Fa).
Qed.

Lemma reserve_x g i g1 :
  wf g -> reserve g = (i, g1) -> ex_post g g1 None /\ frame g g1 /\ i = g_next g /\ g_next g1 = S i.
Proof.
  intros W E. destruct (reserve_spec _ _ _ W E) as (F & Bi & Ii & Ni).
  split; [|auto]. intros j bb Ej _. left.
  unfold reserve in E. injection E as E1 E2. subst g1. exact Ej.
Qed.

Lemma define_cond_x g i ops t f :
  wf g -> i < g_next g -> ex_post g (define g i (BCond ops (Some t) (Some f))) None.
Proof.
  intros W L j bb Ej Fj. destruct (define_spec g i (BCond ops (Some t) (Some f)) W L) as (_ & _ & Bi & Bo).
  destruct (Nat.eq_dec j i) as [Q|Q].
  - subst j. rewrite Bi in Ej. injection Ej as Ej. subst bb. destruct (falloff_cond _ _ _ Fj).
  - left. rewrite <- (Bo j Q). exact Ej.
Qed.

Lemma endblk_frame A g1 g2 en k : frame g1 g2 -> wf g1 -> endblk A g1 en k -> endblk A g2 en k.
Proof. intros F W (ops & n & E & H). exists ops, n. split; [exact (frame_keeps _ _ _ _ F W E)|exact H]. Qed.

Lemma or_some_or_some a b c : or_some (or_some a b) c = or_some a b.
Proof. destruct a; reflexivity. Qed.

(* ---- errors: what a passed check says about the parts ---- *)
Lemma first_err_acc (l : list (option cerr)) : forall e : cerr,
  fold_left (fun (acc x : option cerr) => match acc with Some _ => acc | None => x end) l (Some e) = Some e.
Proof. induction l as [|a t IH]; intros e; cbn [fold_left]; [reflexivity|apply IH]. Qed.

Lemma first_err_cons x l : first_err (x :: l) = None -> x = None /\ first_err l = None.
Proof.
  unfold first_err. cbn [fold_left]. destruct x as [e|]; [rewrite first_err_acc; discriminate|].
  intros H. split; [reflexivity|exact H].
Qed.

Lemma first_err_app l1 l2 : first_err (l1 ++ l2) = None -> first_err l1 = None /\ first_err l2 = None.
Proof.
  induction l1 as [|x t IH]; cbn [app]; intros H; [split; [reflexivity|exact H]|].
  destruct (first_err_cons _ _ H) as [Hx Ht]. subst x. destruct (IH Ht) as [A B]. split; [exact A|exact B].
Qed.

Lemma first_err_map {A} (f : A -> option cerr) l :
  first_err (map f l) = None -> Forall (fun a => f a = None) l.
Proof.
  induction l as [|a t IH]; cbn [map]; intros H; [constructor|].
  destruct (first_err_cons _ _ H) as [Ha Ht]. constructor; [exact Ha|exact (IH Ht)].
Qed.

Lemma existsb_false {A} (h : A -> bool) l : existsb h l = false -> Forall (fun a => h a = false) l.
Proof.
  induction l as [|a t IH]; cbn [existsb]; intros H; [constructor|].
  apply orb_false_iff in H. destruct H as [Ha Ht]. constructor; [exact Ha|exact (IH Ht)].
Qed.

Lemma Forall_and {A} (P Q : A -> Prop) l : Forall P l -> Forall Q l -> Forall (fun a => P a /\ Q a) l.
Proof. induction 1 as [|a t Ha Ht IH]; intros HQ; [constructor|]. inversion HQ; subst. constructor; auto. Qed.

(* =========================================================================================== *)
Section XHelpers.
  Variable lw : expr -> option id -> graph -> (id * id) * graph.
  Hypothesis lw_fr : forall e, lw_frame lw e.
  Variable A : option id -> Prop.
  Variable ok : expr -> Prop.

  Definition lw_x (e : expr) : Prop :=
    ok e -> forall k g s en g', wf g -> lw e k g = ((s, en), g') -> xpost A g k en g'.

  Lemma frs (l : list expr) : Forall (lw_frame lw) l.
  Proof. apply Forall_forall. intros x _. apply lw_fr. Qed.

  (* the post-condition of the right-to-left chains: [endo] is the block that received [k] *)
  Definition chain_x (g : graph) (k ks endo : option id) (g' : graph) : Prop :=
    ex_post g g' (match k with None => endo | Some _ => None end) /\
    match endo with
    | None => ks = k /\ g' = g
    | Some en => (exists s, ks = Some s) /\ endblk A g' en k
    end.

  Lemma lower_chain_x es : Forall lw_x es -> Forall ok es ->
    forall k g ks endo g', wf g -> lower_chain lw es k g = ((ks, endo), g') -> chain_x g k ks endo g'.
  Proof.
    induction 1 as [|e t He Ht IH]; intros Ok k g ks endo g' W E; cbn [lower_chain] in E.
    - injection E as E1 E2 E3. subst ks endo g'. split; [destruct k; apply ex_refl|split; reflexivity].
    - inversion Ok as [|? ? Oe Ot]; subst.
      destruct (lower_chain lw t k g) as [[kt endt] g1] eqn:E1.
      destruct (lw e kt g1) as [[s en] g2] eqn:E2. injection E as Q1 Q2 Q3. subst ks endo g'.
      pose proof (lower_chain_frame lw t (frs t) _ _ _ _ W E1) as F1.
      pose proof (frame_wf _ _ F1) as W1.
      pose proof (lw_fr e _ _ _ _ W1 E2) as F2.
      destruct (IH Ot _ _ _ _ _ W E1) as [X1 T1].
      destruct (He Oe _ _ _ _ _ W1 E2) as [X2 B2].
      destruct endt as [en'|]; cbn [or_some].
      + destruct T1 as [(s' & Ks) B1]. subst kt. cbn [kex] in X2.
        split; [eapply ex_trans_l; eauto|]. split; [eauto|]. eapply endblk_frame; eauto.
      + destruct T1 as [Kt Gt]. subst kt g1. split; [|split; [eauto|exact B2]].
        destruct k; exact X2.
  Qed.

  Lemma lower_nary_rest_x op l : Forall lw_x l -> Forall ok l ->
    forall k g ks endo g', wf g -> lower_nary_rest lw op l k g = ((ks, endo), g') -> chain_x g k ks endo g'.
  Proof.
    induction 1 as [|e t He Ht IH]; intros Ok k g ks endo g' W E; cbn [lower_nary_rest] in E.
    - injection E as E1 E2 E3. subst ks endo g'. split; [destruct k; apply ex_refl|split; reflexivity].
    - inversion Ok as [|? ? Oe Ot]; subst.
      destruct (lower_nary_rest lw op t k g) as [[kt endt] g1] eqn:E1.
      destruct (add_block g1 (BSimple [I op []] kt)) as [opb g2] eqn:E2.
      destruct (lw e (Some opb) g2) as [[s en] g3] eqn:E3. injection E as Q1 Q2 Q3. subst ks endo g'.
      pose proof (lower_nary_rest_frame lw op t (frs t) _ _ _ _ W E1) as F1.
      pose proof (frame_wf _ _ F1) as W1.
      destruct (add_simple_x A _ _ _ _ _ W1 E2) as (X2 & B2 & F2 & _).
      pose proof (frame_wf _ _ F2) as W2.
      pose proof (lw_fr e _ _ _ _ W2 E3) as F3.
      destruct (IH Ot _ _ _ _ _ W E1) as [X1 T1].
      destruct (He Oe _ _ _ _ _ W2 E3) as [X3 _]. cbn [kex] in X3.
      destruct endt as [en'|]; cbn [or_some].
      + destruct T1 as [(s' & Ks) B1]. subst kt. cbn [kex] in X2.
        split; [eapply ex_trans_l; [eapply ex_trans_l; eauto|exact X3]|]. split; [eauto|].
        eapply endblk_frame; [exact F3|exact W2|]. eapply endblk_frame; eauto.
      + destruct T1 as [Kt Gt]. subst kt g1.
        split; [|split; [eauto|eapply endblk_frame; eauto]].
        destruct k; (eapply ex_trans_l; [exact X2|exact X3]).
  Qed.

  Lemma lower_wide_rest_x l : Forall lw_x l -> Forall ok l ->
    forall k g ks endo g', wf g -> lower_wide_rest lw l k g = ((ks, endo), g') -> chain_x g k ks endo g'.
  Proof.
    induction 1 as [|e t He Ht IH]; intros Ok k g ks endo g' W E; cbn [lower_wide_rest] in E.
    - injection E as E1 E2 E3. subst ks endo g'. split; [destruct k; apply ex_refl|split; reflexivity].
    - inversion Ok as [|? ? Oe Ot]; subst.
      destruct (lower_wide_rest lw t k g) as [[kt endt] g1] eqn:E1.
      destruct (add_block g1 (BSimple mul_step_ops kt)) as [opb g2] eqn:E2.
      destruct (lw e (Some opb) g2) as [[s en] g3] eqn:E3. injection E as Q1 Q2 Q3. subst ks endo g'.
      pose proof (lower_wide_rest_frame lw t (frs t) _ _ _ _ W E1) as F1.
      pose proof (frame_wf _ _ F1) as W1.
      destruct (add_simple_x A _ _ _ _ _ W1 E2) as (X2 & B2 & F2 & _).
      pose proof (frame_wf _ _ F2) as W2.
      pose proof (lw_fr e _ _ _ _ W2 E3) as F3.
      destruct (IH Ot _ _ _ _ _ W E1) as [X1 T1].
      destruct (He Oe _ _ _ _ _ W2 E3) as [X3 _]. cbn [kex] in X3.
      destruct endt as [en'|]; cbn [or_some].
      + destruct T1 as [(s' & Ks) B1]. subst kt. cbn [kex] in X2.
        split; [eapply ex_trans_l; [eapply ex_trans_l; eauto|exact X3]|]. split; [eauto|].
        eapply endblk_frame; [exact F3|exact W2|]. eapply endblk_frame; eauto.
      + destruct T1 as [Kt Gt]. subst kt g1.
        split; [|split; [eauto|eapply endblk_frame; eauto]].
        destruct k; (eapply ex_trans_l; [exact X2|exact X3]).
  Qed.

  Lemma lower_cond_arms_x l :
    Forall (fun a => lw_x (fst a) /\ lw_x (snd a)) l -> Forall (fun a => ok (fst a) /\ ok (snd a)) l ->
    forall en errb g st g', wf g -> lower_cond_arms lw l en errb g = (st, g') -> ex_post g g' None.
  Proof.
    induction 1 as [|[cnd pred] t [Hc Hp] Ht IH]; intros Ok en errb g st g' W E; cbn [lower_cond_arms] in E.
    - injection E as E1 E2. subst. apply ex_refl.
    - inversion Ok as [|? ? [Oc Op] Ot]; subst. cbn [fst snd] in *.
      destruct (lower_cond_arms lw t en errb g) as [fls g1] eqn:E1.
      destruct (lw pred (Some en) g1) as [[ps pe] g2] eqn:E2.
      destruct (add_block g2 (BCond [] (Some ps) (Some fls))) as [br g3] eqn:E3.
      destruct (lw cnd (Some br) g3) as [[cs ce] g4] eqn:E4. injection E as Q1 Q2. subst st g'.
      assert (F1 : frame g g1).
      { eapply lower_cond_arms_frame; [|exact W|exact E1].
        apply Forall_forall. intros x _. split; apply lw_fr. }
      pose proof (frame_wf _ _ F1) as W1.
      pose proof (lw_fr pred _ _ _ _ W1 E2) as F2. pose proof (frame_wf _ _ F2) as W2.
      destruct (add_cond_x _ _ _ _ _ _ W2 E3) as (X3 & F3 & _). pose proof (frame_wf _ _ F3) as W3.
      pose proof (IH Ot _ _ _ _ _ W E1) as X1.
      destruct (Hp Op _ _ _ _ _ W1 E2) as [X2 _]. cbn [kex] in X2.
      destruct (Hc Oc _ _ _ _ _ W3 E4) as [X4 _]. cbn [kex] in X4.
      eapply ex_trans_l; [|exact X4]. eapply ex_trans_l; [|exact X3]. eapply ex_trans_l; eauto.
  Qed.

  Lemma lower_factors_x fs : Forall lw_x fs -> Forall ok fs ->
    forall k g st en g', wf g -> lower_factors lw fs k g = ((st, en), g') -> xpost A g k en g'.
  Proof.
    intros HF Ok k g st en g' W E. unfold lower_factors in E.
    destruct fs as [|f0 [|f1 rest]].
    - destruct (add_block g (BSimple [] k)) as [b g1] eqn:E1. injection E as Q1 Q2 Q3. subst.
      destruct (add_simple_x A _ _ _ _ _ W E1) as (X1 & B1 & _). split; assumption.
    - inversion HF as [|? ? H0 _]; subst. inversion Ok as [|? ? O0 _]; subst.
      destruct (lw f0 k g) as [[s0 e0] g1] eqn:E1.
      destruct (add_block g1 (BSimple [I1 O_int 0] (Some s0))) as [hw g2] eqn:E2.
      destruct (add_block g2 (BSimple [] (Some hw))) as [st0 g3] eqn:E3. injection E as Q1 Q2 Q3. subst.
      pose proof (lw_fr f0 _ _ _ _ W E1) as F1. pose proof (frame_wf _ _ F1) as W1.
      destruct (add_simple_x A _ _ _ _ _ W1 E2) as (X2 & _ & F2 & _). pose proof (frame_wf _ _ F2) as W2.
      destruct (add_simple_x A _ _ _ _ _ W2 E3) as (X3 & _ & F3 & _).
      destruct (H0 O0 _ _ _ _ _ W E1) as [X1 B1]. cbn [kex] in X2, X3.
      split; [eapply ex_trans_l; [eapply ex_trans_l; eauto|exact X3]|].
      eapply endblk_frame; [exact F3|exact W2|]. eapply endblk_frame; eauto.
    - inversion HF as [|? ? H0 HF1]; subst. inversion HF1 as [|? ? H1 HR]; subst.
      inversion Ok as [|? ? O0 Ok1]; subst. inversion Ok1 as [|? ? O1 OR]; subst.
      destruct (lower_wide_rest lw rest k g) as [[krest endrest] g1] eqn:E1.
      destruct (add_block g1 (BSimple [I0 O_mulw] krest)) as [m2 g2] eqn:E2.
      destruct (lw f1 (Some m2) g2) as [[s1 e1] g3] eqn:E3.
      destruct (lw f0 (Some s1) g3) as [[s0 e0] g4] eqn:E4.
      destruct (add_block g4 (BSimple [] (Some s0))) as [st0 g5] eqn:E5. injection E as Q1 Q2 Q3. subst st en g'.
      pose proof (lower_wide_rest_frame lw rest (frs rest) _ _ _ _ W E1) as F1.
      pose proof (frame_wf _ _ F1) as W1.
      destruct (add_simple_x A _ _ _ _ _ W1 E2) as (X2 & B2 & F2 & _). pose proof (frame_wf _ _ F2) as W2.
      pose proof (lw_fr f1 _ _ _ _ W2 E3) as F3. pose proof (frame_wf _ _ F3) as W3.
      pose proof (lw_fr f0 _ _ _ _ W3 E4) as F4. pose proof (frame_wf _ _ F4) as W4.
      destruct (add_simple_x A _ _ _ _ _ W4 E5) as (X5 & _ & F5 & _).
      destruct (lower_wide_rest_x rest HR OR _ _ _ _ _ W E1) as [X1 T1].
      destruct (H1 O1 _ _ _ _ _ W2 E3) as [X3 _].
      destruct (H0 O0 _ _ _ _ _ W3 E4) as [X4 _]. cbn [kex] in X3, X4, X5.
      assert (X25 : ex_post g2 g5 None).
      { eapply ex_trans_l; [|exact X5]. eapply ex_trans_l; eauto. }
      assert (F25 : frame g2 g5).
      { eapply frame_trans; [exact F3|]. eapply frame_trans; eauto. }
      destruct endrest as [en'|]; cbn [or_else].
      + destruct T1 as [(s' & Ks) B1]. subst krest. cbn [kex] in X2.
        split; [eapply ex_trans_l; [eapply ex_trans_l; eauto|exact X25]|].
        eapply endblk_frame; [exact F25|exact W2|]. eapply endblk_frame; eauto.
      + destruct T1 as [Kt Gt]. subst krest g1.
        split; [|eapply endblk_frame; eauto].
        destruct k; (eapply ex_trans_l; [exact X2|exact X25]).
  Qed.
End XHelpers.

Lemma lower_comment_lines_x lines : forall k0 g ks g', wf g ->
  lower_comment_lines lines (Some k0) g = (ks, g') ->
  ex_post g g' None /\ (exists s, ks = Some s) /\ frame g g'.
Proof.
  induction lines as [|l t IH]; intros k0 g ks g' W E; cbn [lower_comment_lines] in E.
  - injection E as E1 E2. subst. split; [apply ex_refl|]. split; [eauto|apply frame_refl; exact W].
  - destruct (lower_comment_lines t (Some k0) g) as [kt g1] eqn:E1.
    destruct (add_block g1 (BSimple [mkI O_comment [AStr l]] kt)) as [b g2] eqn:E2. injection E as Q1 Q2. subst.
    destruct (IH _ _ _ _ W E1) as (X1 & (s & Ks) & F1). subst kt.
    destruct (add_simple_x (fun _ => True) _ _ _ _ _ (frame_wf _ _ F1) E2) as (X2 & _ & F2 & _). cbn [kex] in X2.
    split; [eapply ex_trans_l; eauto|]. split; [eauto|eapply frame_trans; eauto].
Qed.

Lemma lower_stores_x A outs : forall kk first g kst lastst g', wf g ->
  lower_stores outs kk first g = (kst, lastst, g') ->
  frame g g' /\
  match outs with
  | [] => kst = kk /\ lastst = first /\ g' = g
  | _ :: _ => ex_post g g' (kex kk (g_next g)) /\ endblk A g' (g_next g) kk /\ (exists s, kst = Some s) /\
              lastst = or_some first (g_next g)
  end.
Proof.
  induction outs as [|s t IH]; intros kk first g kst lastst g' W E; cbn [lower_stores] in E.
  - injection E as E1 E2 E3. subst. split; [apply frame_refl; exact W|auto].
  - destruct (add_block g (BSimple [I O_store [ASlot s]] kk)) as [b g1] eqn:E1.
    destruct (add_simple_x A _ _ _ _ _ W E1) as (X1 & B1 & F1 & I1 & N1). subst b.
    pose proof (frame_wf _ _ F1) as W1.
    destruct (IH _ _ _ _ _ _ W1 E) as [F2 T2].
    split; [eapply frame_trans; eauto|].
    destruct t as [|s2 t2].
    + destruct T2 as (Q1 & Q2 & Q3). subst. split; [exact X1|]. split; [exact B1|]. split; [eauto|reflexivity].
    + destruct T2 as (X2 & _ & Ks & Ls). cbn [kex] in X2.
      split; [eapply ex_trans_l; eauto|]. split; [eapply endblk_frame; eauto|]. split; [exact Ks|].
      rewrite Ls. apply or_some_or_some.
Qed.

Section XAssert.
  Variable lw : expr -> option id -> graph -> (id * id) * graph.
  Hypothesis lw_fr : forall e, lw_frame lw e.
  Variable A : option id -> Prop.
  Variable ok : expr -> Prop.
  Variable version : N.
  Variable comment : option (list string).

  Lemma lower_assert1_x cnd : lw_x lw A ok cnd -> ok cnd ->
    forall k g s en g', wf g -> lower_assert1 lw version comment cnd k g = ((s, en), g') -> xpost A g k en g'.
  Proof.
    intros Hc Oc k g s en g' W E. unfold lower_assert1 in E.
    destruct (N.leb 3 version).
    - destruct (add_block g (BSimple [I O_assert_ []] k)) as [opb g1] eqn:E1.
      destruct (add_simple_x A _ _ _ _ _ W E1) as (X1 & B1 & F1 & _). pose proof (frame_wf _ _ F1) as W1.
      destruct comment as [lines|].
      + destruct (lower_comment_lines lines (Some opb) g1) as [ks ga] eqn:E2.
        destruct (add_block ga (BSimple [] ks)) as [st gb] eqn:E3.
        destruct (lw cnd (Some st) gb) as [[cs ce] g3] eqn:E4. injection E as Q1 Q2 Q3. subst.
        destruct (lower_comment_lines_x _ _ _ _ _ W1 E2) as (Xa & (s0 & Ks) & Fa). subst ks.
        pose proof (frame_wf _ _ Fa) as Wa.
        destruct (add_simple_x A _ _ _ _ _ Wa E3) as (Xb & _ & Fb & _). pose proof (frame_wf _ _ Fb) as Wb.
        pose proof (lw_fr cnd _ _ _ _ Wb E4) as F4.
        destruct (Hc Oc _ _ _ _ _ Wb E4) as [X4 _]. cbn [kex] in Xb, X4.
        split.
        * eapply ex_trans_l; [|exact X4]. eapply ex_trans_l; [|exact Xb]. eapply ex_trans_l; eauto.
        * eapply endblk_frame; [exact F4|exact Wb|]. eapply endblk_frame; [exact Fb|exact Wa|].
          eapply endblk_frame; eauto.
      + destruct (lw cnd (Some opb) g1) as [[cs ce] g3] eqn:E4. injection E as Q1 Q2 Q3. subst.
        pose proof (lw_fr cnd _ _ _ _ W1 E4) as F4.
        destruct (Hc Oc _ _ _ _ _ W1 E4) as [X4 _]. cbn [kex] in X4.
        split; [eapply ex_trans_l; eauto|eapply endblk_frame; eauto].
    - destruct (add_block g (BSimple [] k)) as [en0 g1] eqn:E1.
      destruct (add_block g1 (BSimple [I O_err []] None)) as [errb g2] eqn:E2.
      destruct (add_block g2 (BCond [] (Some en0) (Some errb))) as [br g3] eqn:E3.
      destruct (lw cnd (Some br) g3) as [[cs ce] g4] eqn:E4. injection E as Q1 Q2 Q3. subst.
      destruct (add_simple_x A _ _ _ _ _ W E1) as (X1 & B1 & F1 & _). pose proof (frame_wf _ _ F1) as W1.
      destruct (add_err_x _ _ _ W1 E2) as (X2 & F2 & _). pose proof (frame_wf _ _ F2) as W2.
      destruct (add_cond_x _ _ _ _ _ _ W2 E3) as (X3 & F3 & _). pose proof (frame_wf _ _ F3) as W3.
      pose proof (lw_fr cnd _ _ _ _ W3 E4) as F4.
      destruct (Hc Oc _ _ _ _ _ W3 E4) as [X4 _]. cbn [kex] in X4.
      split.
      + eapply ex_trans_l; [|exact X4]. eapply ex_trans_l; [|exact X3]. eapply ex_trans_l; eauto.
      + eapply endblk_frame; [exact F4|exact W3|]. eapply endblk_frame; [exact F3|exact W2|].
        eapply endblk_frame; eauto.
  Qed.

  Lemma lower_asserts_x l : Forall (lw_x lw A ok) l -> Forall ok l ->
    forall k g ks endo g', wf g -> lower_asserts lw version comment l k g = ((ks, endo), g') ->
      chain_x A g k ks endo g'.
  Proof.
    induction 1 as [|e t He Ht IH]; intros Ok k g ks endo g' W E; cbn [lower_asserts] in E.
    - injection E as E1 E2 E3. subst ks endo g'. split; [destruct k; apply ex_refl|split; reflexivity].
    - inversion Ok as [|? ? Oe Ot]; subst.
      destruct (lower_asserts lw version comment t k g) as [[kt endt] g1] eqn:E1.
      destruct (lower_assert1 lw version comment e kt g1) as [[s en] g2] eqn:E2.
      injection E as Q1 Q2 Q3. subst ks endo g'.
      assert (F1 : frame g g1).
      { eapply lower_asserts_frame; [|exact W|exact E1]. apply Forall_forall. intros x _. apply lw_fr. }
      pose proof (frame_wf _ _ F1) as W1.
      pose proof (lower_assert1_frame lw version comment e (lw_fr e) _ _ _ _ W1 E2) as F2.
      destruct (IH Ot _ _ _ _ _ W E1) as [X1 T1].
      destruct (lower_assert1_x e He Oe _ _ _ _ _ W1 E2) as [X2 B2].
      destruct endt as [en'|]; cbn [or_some].
      + destruct T1 as [(s' & Ks) B1]. subst kt. cbn [kex] in X2.
        split; [eapply ex_trans_l; eauto|]. split; [eauto|]. eapply endblk_frame; eauto.
      + destruct T1 as [Kt Gt]. subst kt g1. split; [|split; [eauto|exact B2]].
        destruct k; exact X2.
  Qed.
End XAssert.

(* ---- the lowering itself ---- *)

(* the loop context provides what the two checks rely on: inside a loop ([il]) there is a break
   target, and unless we are in a loop header ([pb]) there is a continue target *)
Definition ctl (c : lctx) (il pb : bool) : Prop :=
  (il = true -> l_brk c <> None) /\ (il = true -> pb = false -> l_cont c <> None).

Definition okp (o : copts) (c : lctx) (il pb : bool) (e : expr) : Prop :=
  check_expr o (l_sub_ret c) il e = None /\ has_bad_continue pb e = false.

Definition actx (c : lctx) : option id -> Prop := fun n => n = l_brk c \/ n = l_cont c.

Lemma okp_list o c il pb (l : list expr) :
  first_err (map (check_expr o (l_sub_ret c) il) l) = None ->
  existsb (has_bad_continue pb) l = false ->
  Forall (okp o c il pb) l.
Proof.
  intros H1 H2. apply Forall_and; [exact (first_err_map _ _ H1)|exact (existsb_false _ _ H2)].
Qed.

Lemma okp_arms o c il pb (arms : list (expr * expr)) :
  first_err (flat_map (fun a => [check_expr o (l_sub_ret c) il (fst a); check_expr o (l_sub_ret c) il (snd a)]) arms) = None ->
  existsb (fun a => has_bad_continue pb (fst a) || has_bad_continue pb (snd a)) arms = false ->
  Forall (fun a => okp o c il pb (fst a) /\ okp o c il pb (snd a)) arms.
Proof.
  induction arms as [|a t IH]; cbn [flat_map existsb app]; intros H1 H2; [constructor|].
  destruct (first_err_cons _ _ H1) as [A1 H1']. destruct (first_err_cons _ _ H1') as [A2 H1''].
  apply orb_false_iff in H2. destruct H2 as [B12 H2']. apply orb_false_iff in B12. destruct B12 as [B1 B2].
  constructor; [split; split; assumption|exact (IH H1'' H2')].
Qed.

Lemma check_return_some o sub il x :
  check_expr o sub il (EReturn (Some x)) = None -> check_expr o sub il x = None.
Proof.
  cbn [check_expr]. destruct sub as [rt|].
  - destruct (N.ltb (o_version o) 4); [discriminate|].
    destruct rt; try discriminate; destruct (types_match (type_of x) _); try discriminate; auto.
  - destruct (types_match (type_of x) TUint); [auto|discriminate].
Qed.

Lemma Forall_inst3 {T} (P : lctx -> bool -> bool -> T -> Prop) l c il pb :
  Forall (fun a => forall c il pb, ctl c il pb -> P c il pb a) l -> ctl c il pb -> Forall (P c il pb) l.
Proof. intros H C. eapply Forall_impl; [|exact H]. intros a Ha. apply Ha. exact C. Qed.

Lemma opt_all_some' (P : expr -> Prop) x : opt_all P (Some x) -> P x.
Proof. intros H. inversion H; subst. assumption. Qed.

Theorem lower_exits o e : forall c il pb, ctl c il pb -> lw_x (lower o c) (actx c) (okp o c il pb) e.
Proof.
  induction e using expr_ind'; intros c il pb Ct [Ck Hb] k g s0 en g' W E; cbn [lower] in E;
    cbn [check_expr has_bad_continue] in Ck, Hb; pose (A := actx c);
    pose proof (fun x => lower_frame o x c) as LF.
  - (* EOp *)
    destruct (op_version_ok o o0 imms); [|discriminate Ck].
    pose proof (okp_list o c il pb args Ck Hb) as Oa.
    destruct (add_block g (BSimple [I o0 imms] k)) as [opb g1] eqn:E1.
    destruct (lower_chain (lower o c) args (Some opb) g1) as [[ks x] g2] eqn:E2. injection E as Q1 Q2 Q3. subst s0 en g'.
    destruct (add_simple_x A _ _ _ _ _ W E1) as (X1 & B1 & F1 & _). pose proof (frame_wf _ _ F1) as W1.
    pose proof (lower_chain_frame _ _ (frs _ LF args) _ _ _ _ W1 E2) as F2.
    destruct (lower_chain_x _ LF A _ args (Forall_inst3 _ _ c il pb H Ct) Oa _ _ _ _ _ W1 E2) as [X2 _].
    split; [eapply ex_trans_l; eauto|eapply endblk_frame; eauto].
  - (* ENary *)
    pose proof (okp_list o c il pb args Ck Hb) as Oa.
    destruct args as [|a1 rest].
    + destruct (add_block g (BSimple [] k)) as [b g1] eqn:E1. injection E as Q1 Q2 Q3. subst s0 en g'.
      destruct (add_simple_x A _ _ _ _ _ W E1) as (X1 & B1 & _). split; assumption.
    + inversion H as [|? ? H1 HR]; subst. inversion Oa as [|? ? O1 OR]; subst.
      destruct (lower_nary_rest (lower o c) o0 rest k g) as [[krest endrest] g1] eqn:E1.
      destruct (lower o c a1 krest g1) as [[s1 e1] g2] eqn:E2. injection E as Q1 Q2 Q3. subst s0 en g'.
      pose proof (lower_nary_rest_frame _ o0 rest (frs _ LF rest) _ _ _ _ W E1) as F1.
      pose proof (frame_wf _ _ F1) as W1.
      pose proof (LF a1 _ _ _ _ W1 E2) as F2.
      destruct (lower_nary_rest_x _ LF A _ o0 rest (Forall_inst3 _ _ c il pb HR Ct) OR _ _ _ _ _ W E1) as [X1 T1].
      destruct (H1 c il pb Ct O1 _ _ _ _ _ W1 E2) as [X2 B2].
      destruct endrest as [en'|]; cbn [or_else].
      * destruct T1 as [(s' & Ks) B1]. subst krest. cbn [kex] in X2.
        split; [eapply ex_trans_l; eauto|eapply endblk_frame; eauto].
      * destruct T1 as [Kt Gt]. subst krest g1. split; [|exact B2]. destruct k; exact X2.
  - (* ESeq *)
    pose proof (okp_list o c il pb es Ck Hb) as Oa.
    destruct (lower_chain (lower o c) es k g) as [[ks en0] g1] eqn:E1.
    destruct (add_block g1 (BSimple [] ks)) as [st g2] eqn:E2. injection E as Q1 Q2 Q3. subst s0 en g'.
    pose proof (lower_chain_frame _ _ (frs _ LF es) _ _ _ _ W E1) as F1.
    pose proof (frame_wf _ _ F1) as W1.
    destruct (add_simple_x A _ _ _ _ _ W1 E2) as (X2 & B2 & F2 & _).
    destruct (lower_chain_x _ LF A _ es (Forall_inst3 _ _ c il pb H Ct) Oa _ _ _ _ _ W E1) as [X1 T1].
    destruct en0 as [en'|]; cbn [or_else].
    + destruct T1 as [(s' & Ks) B1]. subst ks. cbn [kex] in X2.
      split; [eapply ex_trans_l; [exact X1|exact X2]|eapply endblk_frame; eauto].
    + destruct T1 as [Kt Gt]. subst ks g1. split; [exact X2|exact B2].
  - (* EIf *)
    destruct (first_err_cons _ _ Ck) as [C1 Ck2]. destruct (first_err_cons _ _ Ck2) as [C2 Ck3].
    destruct (first_err_cons _ _ Ck3) as [C3 _].
    apply orb_false_iff in Hb. destruct Hb as [Hb12 Hb3]. apply orb_false_iff in Hb12. destruct Hb12 as [Hb1 Hb2].
    destruct (add_block g (BSimple [] k)) as [en0 g1] eqn:E1.
    destruct (lower o c e2 (Some en0) g1) as [[ths the] g2] eqn:E2.
    destruct (add_simple_x A _ _ _ _ _ W E1) as (X1 & B1 & F1 & _). pose proof (frame_wf _ _ F1) as W1.
    pose proof (LF e2 _ _ _ _ W1 E2) as F2. pose proof (frame_wf _ _ F2) as W2.
    destruct (IHe2 c il pb Ct (conj C2 Hb2) _ _ _ _ _ W1 E2) as [X2 _]. cbn [kex] in X2.
    assert (R : exists els g3, (match el with
                                | Some x => let '((s, _), g'0) := lower o c x (Some en0) g2 in (s, g'0)
                                | None => (en0, g2)
                                end) = (els, g3) /\ ex_post g2 g3 None /\ frame g2 g3).
    { destruct el as [x|].
      - pose proof (opt_all_some' _ _ H) as Hx.
        destruct (lower o c x (Some en0) g2) as [[sx ex] g3] eqn:E3.
        exists sx, g3. split; [reflexivity|].
        destruct (Hx c il pb Ct (conj C3 Hb3) _ _ _ _ _ W2 E3) as [X3 _].
        split; [exact X3|exact (LF x _ _ _ _ W2 E3)].
      - exists en0, g2. split; [reflexivity|]. split; [apply ex_refl|apply frame_refl; exact W2]. }
    destruct R as (els & g3 & E3 & X3 & F3). rewrite E3 in E. pose proof (frame_wf _ _ F3) as W3.
    destruct (add_block g3 (BCond [] (Some ths) (Some els))) as [br g4] eqn:E4.
    destruct (lower o c e1 (Some br) g4) as [[cs ce] g5] eqn:E5. injection E as Q1 Q2 Q3. subst s0 en g'.
    destruct (add_cond_x _ _ _ _ _ _ W3 E4) as (X4 & F4 & _). pose proof (frame_wf _ _ F4) as W4.
    pose proof (LF e1 _ _ _ _ W4 E5) as F5.
    destruct (IHe1 c il pb Ct (conj C1 Hb1) _ _ _ _ _ W4 E5) as [X5 _]. cbn [kex] in X5.
    split.
    + eapply ex_trans_l; [|exact X5]. eapply ex_trans_l; [|exact X4]. eapply ex_trans_l; [|exact X3].
      eapply ex_trans_l; eauto.
    + eapply endblk_frame; [exact F5|exact W4|]. eapply endblk_frame; [exact F4|exact W3|].
      eapply endblk_frame; [exact F3|exact W2|]. eapply endblk_frame; eauto.
  - (* ECond *)
    pose proof (okp_arms o c il pb arms Ck Hb) as Oa.
    destruct (add_block g (BSimple [] k)) as [en0 g1] eqn:E1.
    destruct (add_block g1 (BSimple [I O_err []] None)) as [errb g2] eqn:E2.
    destruct (lower_cond_arms (lower o c) arms en0 errb g2) as [st g3] eqn:E3. injection E as Q1 Q2 Q3. subst s0 en g'.
    destruct (add_simple_x A _ _ _ _ _ W E1) as (X1 & B1 & F1 & _). pose proof (frame_wf _ _ F1) as W1.
    destruct (add_err_x _ _ _ W1 E2) as (X2 & F2 & _). pose proof (frame_wf _ _ F2) as W2.
    assert (HA : Forall (fun a => lw_x (lower o c) A (okp o c il pb) (fst a) /\
                                 lw_x (lower o c) A (okp o c il pb) (snd a)) arms).
    { eapply Forall_impl; [|exact H]. intros a [Ha Hb']. split; [apply Ha|apply Hb']; exact Ct. }
    assert (F3 : frame g2 g3).
    { eapply lower_cond_arms_frame; [|exact W2|exact E3]. apply Forall_forall. intros x _. split; apply LF. }
    pose proof (lower_cond_arms_x _ LF A _ arms HA Oa _ _ _ _ _ W2 E3) as X3.
    split; [eapply ex_trans_l; [eapply ex_trans_l; eauto|exact X3]|].
    eapply endblk_frame; [exact F3|exact W2|]. eapply endblk_frame; eauto.
  - (* EWhile *)
    destruct (first_err_cons _ _ Ck) as [C1 Ck2]. destruct (first_err_cons _ _ Ck2) as [C2 _].
    apply orb_false_iff in Hb. destruct Hb as [Hb1 Hb2].
    destruct (add_block g (BSimple [] k)) as [en0 g1] eqn:E1.
    destruct (reserve g1) as [br g2] eqn:E2.
    destruct (lower o (mkL (l_sub_ret c) (Some en0) None (l_param c)) e1 (Some br) g2) as [[cs ce] g3] eqn:E3.
    destruct (lower o (mkL (l_sub_ret c) (Some en0) (Some cs) (l_param c)) e2 (Some cs) g3) as [[ds de] g4] eqn:E4.
    injection E as Q1 Q2 Q3. subst s0 en g'.
    destruct (add_simple_x A _ _ _ _ _ W E1) as (X1 & B1 & F1 & I1 & N1). pose proof (frame_wf _ _ F1) as W1.
    destruct (reserve_x _ _ _ W1 E2) as (X2 & F2 & I2 & N2). pose proof (frame_wf _ _ F2) as W2.
    pose proof (lower_frame o e1 _ _ _ _ _ W2 E3) as F3. pose proof (frame_wf _ _ F3) as W3.
    pose proof (lower_frame o e2 _ _ _ _ _ W3 E4) as F4. pose proof (frame_wf _ _ F4) as W4.
    assert (Ct1 : ctl (mkL (l_sub_ret c) (Some en0) None (l_param c)) true true).
    { split; cbn [l_brk l_cont]; [intros _; discriminate|intros _ Q; discriminate Q]. }
    assert (Ct2 : ctl (mkL (l_sub_ret c) (Some en0) (Some cs) (l_param c)) true false).
    { split; cbn [l_brk l_cont]; [intros _; discriminate|intros _ _; discriminate]. }
    destruct (IHe1 _ true true Ct1 (conj C1 Hb1) _ _ _ _ _ W2 E3) as [X3 _].
    destruct (IHe2 _ true false Ct2 (conj C2 Hb2) _ _ _ _ _ W3 E4) as [X4 _]. cbn [kex] in X3, X4.
    assert (Lbr : br < g_next g4).
    { destruct F3 as (L3 & _). destruct F4 as (L4 & _). lia. }
    pose proof (define_cond_x g4 br [] ds en0 W4 Lbr) as X5.
    split.
    + eapply ex_trans_l; [|exact X5]. eapply ex_trans_l; [|exact X4]. eapply ex_trans_l; [|exact X3].
      eapply ex_trans_l; eauto.
    + destruct (define_spec g4 br (BCond [] (Some ds) (Some en0)) W4 Lbr) as (_ & _ & _ & Bo).
      destruct B1 as (ops & n & B1 & Hn). exists ops, n. split; [|exact Hn]. rewrite Bo by lia.
      eapply frame_keeps; [exact F4|exact W3|]. eapply frame_keeps; [exact F3|exact W2|].
      eapply frame_keeps; eauto.
  - (* EFor *)
    destruct (first_err_cons _ _ Ck) as [C1 Ck2]. destruct (first_err_cons _ _ Ck2) as [C2 Ck3].
    destruct (first_err_cons _ _ Ck3) as [C4 Ck4]. destruct (first_err_cons _ _ Ck4) as [C3 _].
    apply orb_false_iff in Hb. destruct Hb as [Hb123 Hb4]. apply orb_false_iff in Hb123. destruct Hb123 as [Hb12 Hb3].
    apply orb_false_iff in Hb12. destruct Hb12 as [Hb1 Hb2].
    destruct (add_block g (BSimple [] k)) as [en0 g1] eqn:E1.
    destruct (reserve g1) as [br g2] eqn:E2.
    destruct (lower o (mkL (l_sub_ret c) (Some en0) None (l_param c)) e2 (Some br) g2) as [[cs ce] g3] eqn:E3.
    destruct (lower o (mkL (l_sub_ret c) (Some en0) None (l_param c)) e3 (Some cs) g3) as [[ss se] g4] eqn:E4.
    destruct (lower o (mkL (l_sub_ret c) (Some en0) (Some ss) (l_param c)) e4 (Some ss) g4) as [[ds de] g5] eqn:E5.
    destruct (lower o (mkL (l_sub_ret c) (Some en0) None (l_param c)) e1 (Some cs) g5) as [[is_ ie] g6] eqn:E6.
    injection E as Q1 Q2 Q3. subst s0 en g'.
    destruct (add_simple_x A _ _ _ _ _ W E1) as (X1 & B1 & F1 & I1 & N1). pose proof (frame_wf _ _ F1) as W1.
    destruct (reserve_x _ _ _ W1 E2) as (X2 & F2 & I2 & N2). pose proof (frame_wf _ _ F2) as W2.
    pose proof (lower_frame o e2 _ _ _ _ _ W2 E3) as F3. pose proof (frame_wf _ _ F3) as W3.
    pose proof (lower_frame o e3 _ _ _ _ _ W3 E4) as F4. pose proof (frame_wf _ _ F4) as W4.
    pose proof (lower_frame o e4 _ _ _ _ _ W4 E5) as F5. pose proof (frame_wf _ _ F5) as W5.
    pose proof (lower_frame o e1 _ _ _ _ _ W5 E6) as F6. pose proof (frame_wf _ _ F6) as W6.
    assert (Ct1 : ctl (mkL (l_sub_ret c) (Some en0) None (l_param c)) true true).
    { split; cbn [l_brk l_cont]; [intros _; discriminate|intros _ Q; discriminate Q]. }
    assert (Ct2 : ctl (mkL (l_sub_ret c) (Some en0) (Some ss) (l_param c)) true false).
    { split; cbn [l_brk l_cont]; [intros _; discriminate|intros _ _; discriminate]. }
    destruct (IHe2 _ true true Ct1 (conj C2 Hb2) _ _ _ _ _ W2 E3) as [X3 _].
    destruct (IHe3 _ true true Ct1 (conj C3 Hb3) _ _ _ _ _ W3 E4) as [X4 _].
    destruct (IHe4 _ true false Ct2 (conj C4 Hb4) _ _ _ _ _ W4 E5) as [X5 _].
    destruct (IHe1 _ true true Ct1 (conj C1 Hb1) _ _ _ _ _ W5 E6) as [X6 _]. cbn [kex] in X3, X4, X5, X6.
    assert (Lbr : br < g_next g6).
    { destruct F3 as (L3 & _). destruct F4 as (L4 & _). destruct F5 as (L5 & _). destruct F6 as (L6 & _). lia. }
    pose proof (define_cond_x g6 br [] ds en0 W6 Lbr) as X7.
    split.
    + eapply ex_trans_l; [|exact X7]. eapply ex_trans_l; [|exact X6]. eapply ex_trans_l; [|exact X5].
      eapply ex_trans_l; [|exact X4]. eapply ex_trans_l; [|exact X3]. eapply ex_trans_l; eauto.
    + destruct (define_spec g6 br (BCond [] (Some ds) (Some en0)) W6 Lbr) as (_ & _ & _ & Bo).
      destruct B1 as (ops & n & B1 & Hn). exists ops, n. split; [|exact Hn]. rewrite Bo by lia.
      eapply frame_keeps; [exact F6|exact W5|]. eapply frame_keeps; [exact F5|exact W4|].
      eapply frame_keeps; [exact F4|exact W3|]. eapply frame_keeps; [exact F3|exact W2|].
      eapply frame_keeps; eauto.
  - (* EBreak *)
    destruct il; [|discriminate Ck]. destruct Ct as [Cb _]. specialize (Cb eq_refl).
    destruct (add_block g (BSimple [] (l_brk c))) as [b g1] eqn:E1. injection E as Q1 Q2 Q3. subst s0 en g'.
    destruct (add_block_spec _ _ _ _ W E1) as (F1 & Bi & _).
    split.
    + eapply add_block_ex; eauto. intros Fa. destruct (Cb (falloff_simple _ _ Fa)).
    + exists [], (l_brk c). split; [exact Bi|right; left; reflexivity].
  - (* EContinue *)
    destruct il; [|discriminate Ck]. destruct Ct as [_ Cc]. specialize (Cc eq_refl Hb).
    destruct (add_block g (BSimple [] (l_cont c))) as [b g1] eqn:E1. injection E as Q1 Q2 Q3. subst s0 en g'.
    destruct (add_block_spec _ _ _ _ W E1) as (F1 & Bi & _).
    split.
    + eapply add_block_ex; eauto. intros Fa. destruct (Cc (falloff_simple _ _ Fa)).
    + exists [], (l_cont c). split; [exact Bi|right; right; reflexivity].
  - (* EAssert *)
    pose proof (okp_list o c il pb conds Ck Hb) as Oa.
    pose proof (Forall_inst3 _ _ c il pb H Ct) as Ha.
    destruct conds as [|c1 [|c2 rest]].
    + cbn [lower_asserts] in E.
      destruct (add_block g (BSimple [] k)) as [st g2] eqn:E2. injection E as Q1 Q2 Q3. subst s0 en g'.
      cbn [or_else]. destruct (add_simple_x A _ _ _ _ _ W E2) as (X1 & B1 & _). split; assumption.
    + inversion Ha as [|? ? H1 _]; subst. inversion Oa as [|? ? O1 _]; subst.
      exact (lower_assert1_x _ LF A _ _ _ c1 H1 O1 _ _ _ _ _ W E).
    + destruct (lower_asserts (lower o c) (o_version o) cm (c1 :: c2 :: rest) k g) as [[ks en0] g1] eqn:E1.
      destruct (add_block g1 (BSimple [] ks)) as [st g2] eqn:E2. injection E as Q1 Q2 Q3. subst s0 en g'.
      assert (F1 : frame g g1).
      { eapply lower_asserts_frame; [|exact W|exact E1]. apply Forall_forall. intros x _. apply LF. }
      pose proof (frame_wf _ _ F1) as W1.
      destruct (add_simple_x A _ _ _ _ _ W1 E2) as (X2 & B2 & F2 & _).
      destruct (lower_asserts_x _ LF A _ _ _ _ Ha Oa _ _ _ _ _ W E1) as [X1 T1].
      destruct en0 as [en'|]; cbn [or_else].
      * destruct T1 as [(s' & Ks) B1]. subst ks. cbn [kex] in X2.
        split; [eapply ex_trans_l; [exact X1|exact X2]|eapply endblk_frame; eauto].
      * destruct T1 as [Kt Gt]. subst ks g1. split; [exact X2|exact B2].
  - (* EReturn *)
    destruct (add_block g (BSimple [I match l_sub_ret c with Some _ => O_retsub | None => O_return_ end []] k))
      as [opb g1] eqn:E1.
    destruct (add_simple_x A _ _ _ _ _ W E1) as (X1 & B1 & F1 & _). pose proof (frame_wf _ _ F1) as W1.
    destruct v as [x|].
    + pose proof (opt_all_some' _ _ H) as Hx.
      pose proof (check_return_some _ _ _ _ Ck) as Cx.
      destruct (lower o c x (Some opb) g1) as [[sx ex] g2] eqn:E2. injection E as Q1 Q2 Q3. subst s0 en g'.
      destruct (Hx c il pb Ct (conj Cx Hb) _ _ _ _ _ W1 E2) as [X2 _]. cbn [kex] in X2.
      split; [eapply ex_trans_l; eauto|eapply endblk_frame; [exact (LF x _ _ _ _ W1 E2)|exact W1|exact B1]].
    + injection E as Q1 Q2 Q3. subst s0 en g'. split; assumption.
  - (* EExit *)
    destruct (add_block g (BSimple [I O_return_ []] k)) as [opb g1] eqn:E1.
    destruct (lower o c e (Some opb) g1) as [[sx ex] g2] eqn:E2. injection E as Q1 Q2 Q3. subst s0 en g'.
    destruct (add_simple_x A _ _ _ _ _ W E1) as (X1 & B1 & F1 & _). pose proof (frame_wf _ _ F1) as W1.
    destruct (IHe c il pb Ct (conj Ck Hb) _ _ _ _ _ W1 E2) as [X2 _]. cbn [kex] in X2.
    split; [eapply ex_trans_l; eauto|eapply endblk_frame; [exact (LF e _ _ _ _ W1 E2)|exact W1|exact B1]].
  - (* EMulti *)
    destruct (op_version_ok o o0 imms); [|discriminate Ck].
    pose proof (okp_list o c il pb args Ck Hb) as Oa.
    destruct (lower_stores outs k None g) as [[kst lastst] g1] eqn:E1.
    destruct (add_block g1 (BSimple [I o0 imms] kst)) as [opb g2] eqn:E2.
    destruct (lower_chain (lower o c) args (Some opb) g2) as [[ks x] g3] eqn:E3. injection E as Q1 Q2 Q3. subst s0 en g'.
    destruct (lower_stores_x A outs _ _ _ _ _ _ W E1) as [F1 T1]. pose proof (frame_wf _ _ F1) as W1.
    destruct (add_simple_x A _ _ _ _ _ W1 E2) as (X2 & B2 & F2 & _). pose proof (frame_wf _ _ F2) as W2.
    pose proof (lower_chain_frame _ _ (frs _ LF args) _ _ _ _ W2 E3) as F3.
    destruct (lower_chain_x _ LF A _ args (Forall_inst3 _ _ c il pb H Ct) Oa _ _ _ _ _ W2 E3) as [X3 _].
    destruct outs as [|s1 t1].
    + destruct T1 as (Q1 & Q2 & Q3). subst kst lastst g1. cbn [or_else].
      split; [eapply ex_trans_l; eauto|eapply endblk_frame; eauto].
    + destruct T1 as (X1 & B1 & (s' & Ks) & Ls). subst kst lastst. cbn [or_some or_else]. cbn [kex] in X2.
      split; [eapply ex_trans_l; [eapply ex_trans_l; eauto|exact X3]|].
      eapply endblk_frame; [exact F3|exact W2|]. eapply endblk_frame; eauto.
  - (* ECall *)
    destruct (N.ltb (o_version o) 4); [discriminate Ck|].
    pose proof (okp_list o c il pb args Ck Hb) as Oa.
    destruct (add_block g (BSimple [I O_callsub [ASub s]] k)) as [opb g1] eqn:E1.
    destruct (lower_chain (lower o c) args (Some opb) g1) as [[ks x] g2] eqn:E2. injection E as Q1 Q2 Q3. subst s0 en g'.
    destruct (add_simple_x A _ _ _ _ _ W E1) as (X1 & B1 & F1 & _). pose proof (frame_wf _ _ F1) as W1.
    pose proof (lower_chain_frame _ _ (frs _ LF args) _ _ _ _ W1 E2) as F2.
    destruct (lower_chain_x _ LF A _ args (Forall_inst3 _ _ c il pb H Ct) Oa _ _ _ _ _ W1 E2) as [X2 _].
    split; [eapply ex_trans_l; eauto|eapply endblk_frame; eauto].
  - (* EWide *)
    destruct (N.ltb (o_version o) 5); [discriminate Ck|].
    destruct (first_err_app _ _ Ck) as [Ckn Ckd].
    apply orb_false_iff in Hb. destruct Hb as [Hbn Hbd].
    pose proof (okp_list o c il pb ns Ckn Hbn) as On. pose proof (okp_list o c il pb ds Ckd Hbd) as Od.
    destruct (add_block g (BSimple combine_ops k)) as [cb g1] eqn:E1.
    destruct (lower_factors (lower o c) ds (Some cb) g1) as [[dstart dend] g2] eqn:E2.
    destruct (lower_factors (lower o c) ns (Some dstart) g2) as [[nstart nend] g3] eqn:E3.
    injection E as Q1 Q2 Q3. subst s0 en g'.
    destruct (add_simple_x A _ _ _ _ _ W E1) as (X1 & B1 & F1 & _). pose proof (frame_wf _ _ F1) as W1.
    pose proof (lower_factors_frame _ ds (frs _ LF ds) _ _ _ _ W1 E2) as F2. pose proof (frame_wf _ _ F2) as W2.
    pose proof (lower_factors_frame _ ns (frs _ LF ns) _ _ _ _ W2 E3) as F3.
    destruct (lower_factors_x _ LF A _ ds (Forall_inst3 _ _ c il pb H0 Ct) Od _ _ _ _ _ W1 E2) as [X2 _].
    destruct (lower_factors_x _ LF A _ ns (Forall_inst3 _ _ c il pb H Ct) On _ _ _ _ _ W2 E3) as [X3 _].
    cbn [kex] in X2, X3.
    split; [eapply ex_trans_l; [eapply ex_trans_l; eauto|exact X3]|].
    eapply endblk_frame; [exact F3|exact W2|]. eapply endblk_frame; eauto.
  - (* EParam *)
    destruct (add_block g (BSimple [l_param c i] k)) as [b g1] eqn:E1. injection E as Q1 Q2 Q3. subst s0 en g'.
    destruct (add_simple_x A _ _ _ _ _ W E1) as (X1 & B1 & _). split; assumption.
Qed.
