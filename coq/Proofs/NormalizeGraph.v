(* Proofs/NormalizeGraph.v — bookkeeping for the NormalizeBlocks proofs: edge substitution [esub]
   (what replaceOutgoing may do to a block), its instances, and what the two [fold_left]s of the pass
   bodies do to blocks and incoming lists. *)
From Coq Require Import List Arith NArith String Bool Lia.
From PV Require Import Base.Bytes AVM.Syntax AVM.Machine Src.Expr Src.Denote
  Comp.Blocks Comp.Lower Comp.Passes Comp.GraphSem Comp.SimCheck Proofs.LowerFrame Proofs.NormalizeSem.
Import ListNotations.

(* ---- small facts ---- *)
Lemma opt_id_is_true o x : opt_id_is o x = true <-> o = Some x.
Proof.
  destruct o as [y|]; cbn; [|split; discriminate].
  destruct (Nat.eqb_spec x y); split; intros H; congruence.
Qed.

Lemma opt_id_is_false o x : opt_id_is o x = false <-> o <> Some x.
Proof.
  destruct (opt_id_is o x) eqn:E.
  - apply opt_id_is_true in E. split; [discriminate|congruence].
  - split; [|reflexivity]. intros _ H. apply opt_id_is_true in H. congruence.
Qed.

Lemma mem_id_In x l : mem_id x l = true <-> In x l.
Proof.
  induction l as [|y t IH]; cbn; [split; [discriminate|tauto]|].
  rewrite orb_true_iff, IH. destruct (Nat.eqb_spec x y); split; intros [H|H]; auto; try discriminate.
Qed.

Lemma mem_id_false x l : mem_id x l = false <-> ~ In x l.
Proof.
  rewrite <- mem_id_In. destruct (mem_id x l); split; congruence.
Qed.

Lemma rd_old old new : rd old new old = new.
Proof. unfold rd. rewrite Nat.eqb_refl. reflexivity. Qed.
Lemma rd_other old new x : x <> old -> rd old new x = x.
Proof. unfold rd. intros H. destruct (Nat.eqb_spec x old); [contradiction|reflexivity]. Qed.
Lemma rd_same old x : rd old old x = x.
Proof. unfold rd. destruct (Nat.eqb_spec x old); congruence. Qed.

(* ---- edge substitution ---- *)
Definition osub (old new : id) (o o' : option id) : Prop :=
  o' = o \/ (o = Some old /\ o' = Some new).

Definition esub (old new : id) (b b' : block) : Prop :=
  match b, b' with
  | BSimple o n, BSimple o' n' => o' = o /\ osub old new n n'
  | BCond o t f, BCond o' t' f' => o' = o /\ osub old new t t' /\ osub old new f f'
  | _, _ => False
  end.

Lemma osub_refl old new o : osub old new o o.
Proof. left. reflexivity. Qed.

Lemma osub_trans old new a b c : osub old new a b -> osub old new b c -> osub old new a c.
Proof.
  intros [H1|[H1 H1']] [H2|[H2 H2']]; subst.
  - left; reflexivity.
  - right; split; reflexivity.
  - right; split; reflexivity.
  - right; split; congruence.
Qed.

Lemma esub_refl old new b : esub old new b b.
Proof. destruct b; cbn; repeat split; apply osub_refl. Qed.

Lemma esub_trans old new a b c : esub old new a b -> esub old new b c -> esub old new a c.
Proof.
  destruct a, b, c; cbn; try tauto.
  - intros [E1 H1] [E2 H2]. split; [congruence|eapply osub_trans; eauto].
  - intros (E1 & H1 & K1) (E2 & H2 & K2). repeat split; [congruence| |]; eapply osub_trans; eauto.
Qed.

Lemma esub_set_ops old new b b' o : esub old new b b' -> esub old new (set_ops b o) (set_ops b' o).
Proof. destruct b, b'; cbn; try tauto; intros H; repeat split; tauto. Qed.

Lemma osub_some old new o o' : osub old new o o' -> (o = None <-> o' = None).
Proof. intros [H|[H H']]; subst; [tauto|split; discriminate]. Qed.

Lemma esub_full old new b b' : esub old new b b' -> full_b b -> full_b b'.
Proof.
  destruct b as [o n|o t f], b' as [o' n'|o' t' f']; cbn; try tauto.
  intros (_ & H1 & H2) [F1 F2]. apply osub_some in H1, H2. tauto.
Qed.

Lemma full_set_ops b o : full_b b -> full_b (set_ops b o).
Proof. destruct b; cbn; tauto. Qed.

Definition oin (x : id) (o : option id) : Prop := o = Some x.

Lemma in_outgoing x b :
  In x (outgoing b) <->
  match b with BSimple _ n => oin x n | BCond _ t f => oin x t \/ oin x f end.
Proof.
  unfold oin. destruct b as [o [n|]|o [t|] [f|]]; cbn; split; intros H;
    repeat match goal with
           | H : _ \/ _ |- _ => destruct H
           | H : False |- _ => destruct H
           | H : Some _ = Some _ |- _ => injection H as H
           | H : None = Some _ |- _ => discriminate H
           end; subst; auto.
Qed.

Lemma osub_in old new o o' x : osub old new o o' -> oin x o' -> oin x o \/ (oin old o /\ x = new).
Proof.
  unfold oin. intros [H|[H H']] E; subst; [left; reflexivity|].
  right. split; [reflexivity|congruence].
Qed.

Lemma esub_out old new b b' x :
  esub old new b b' -> In x (outgoing b') ->
  In x (outgoing b) \/ (In old (outgoing b) /\ x = new).
Proof.
  intros H. rewrite !in_outgoing.
  destruct b as [o n|o t f], b' as [o' n'|o' t' f']; cbn in H; try tauto.
  - destruct H as [_ H]. apply osub_in. exact H.
  - destruct H as (_ & H1 & H2). intros [E|E].
    + destruct (osub_in _ _ _ _ _ H1 E) as [K|[K K']]; tauto.
    + destruct (osub_in _ _ _ _ _ H2 E) as [K|[K K']]; tauto.
Qed.

Lemma esub_no_old old new b b' :
  esub old new b b' -> old <> new -> ~ In old (outgoing b) -> ~ In old (outgoing b').
Proof.
  intros H N K I. destruct (esub_out _ _ _ _ _ H I) as [E|[_ E]]; [contradiction|congruence].
Qed.

Lemma osub_complete old new o o' :
  osub old new o o' -> o' <> Some old -> o' = option_map (rd old new) o.
Proof.
  intros [H|[H H']] N; subst.
  - destruct o as [x|]; [|reflexivity]. cbn. rewrite rd_other; [reflexivity|congruence].
  - cbn. rewrite rd_old. reflexivity.
Qed.

Lemma esub_complete_map old new b b' :
  esub old new b b' -> ~ In old (outgoing b') -> b' = map_out (rd old new) b.
Proof.
  intros H. rewrite in_outgoing. unfold oin.
  destruct b as [o n|o t f], b' as [o' n'|o' t' f']; cbn in H; try tauto; cbn [map_out].
  - destruct H as [E H]. intros N. subst o'. f_equal. apply osub_complete; assumption.
  - destruct H as (E & H1 & H2). intros N. subst o'. f_equal; apply osub_complete; tauto.
Qed.

Lemma osub_same x o o' : osub x x o o' -> o' = o.
Proof. intros [H|[H H']]; congruence. Qed.

Lemma esub_same x b b' : esub x x b b' -> b' = b.
Proof.
  destruct b as [o n|o t f], b' as [o' n'|o' t' f']; cbn; try tauto.
  - intros [E H]. apply osub_same in H. congruence.
  - intros (E & H1 & H2). apply osub_same in H1, H2. congruence.
Qed.

Lemma esub_bskip (G : bgraph) old new b b' :
  G old = Some (BSimple [] (Some new)) -> esub old new b b' -> bskip G b b'.
Proof.
  intros HG.
  assert (K : forall o o', osub old new o o' -> oskip G o o').
  { intros o o' [H|[H H']]; subst.
    - destruct o; cbn; [left; reflexivity|exact Logic.I].
    - cbn. right. exact HG. }
  destruct b as [o n|o t f], b' as [o' n'|o' t' f']; cbn; try tauto.
  - intros [E H]. split; [congruence|auto].
  - intros (E & H1 & H2). repeat split; [congruence|auto|auto].
Qed.

(* ---- the two replacement functions ---- *)
Lemma replace_outgoing_elif_esub b old new : esub old new b (replace_outgoing_elif b old new).
Proof.
  destruct b as [o n|o t f]; cbn [replace_outgoing_elif].
  - destruct (opt_id_is n old) eqn:E; cbn; split; auto; [|apply osub_refl].
    apply opt_id_is_true in E. right. split; [exact E|reflexivity].
  - destruct (opt_id_is t old) eqn:E.
    + apply opt_id_is_true in E. cbn. repeat split; [right; split; [exact E|reflexivity]|apply osub_refl].
    + destruct (opt_id_is f old) eqn:E'.
      * apply opt_id_is_true in E'. cbn. repeat split; [apply osub_refl|right; split; [exact E'|reflexivity]].
      * apply esub_refl.
Qed.

Lemma replace_outgoing_esub b old new : esub old new b (replace_outgoing b old new).
Proof.
  destruct b as [o n|o t f]; cbn [replace_outgoing].
  - destruct (opt_id_is n old) eqn:E; cbn; split; auto; [|apply osub_refl].
    apply opt_id_is_true in E. right. split; [exact E|reflexivity].
  - cbn. repeat split.
    + destruct (opt_id_is t old) eqn:E; [|apply osub_refl].
      apply opt_id_is_true in E. right. split; [exact E|reflexivity].
    + destruct (opt_id_is f old) eqn:E; [|apply osub_refl].
      apply opt_id_is_true in E. right. split; [exact E|reflexivity].
Qed.

Lemma replace_outgoing_elif_complete b old new :
  dist_b b -> old <> new -> ~ In old (outgoing (replace_outgoing_elif b old new)).
Proof.
  intros D N. rewrite in_outgoing. unfold oin.
  destruct b as [o n|o t f]; cbn [replace_outgoing_elif].
  - destruct (opt_id_is n old) eqn:E; [intros H; congruence|].
    apply opt_id_is_false in E. exact E.
  - destruct (opt_id_is t old) eqn:E.
    + apply opt_id_is_true in E. subst t. intros [H|H]; [congruence|].
      subst f. cbn in D. congruence.
    + apply opt_id_is_false in E. destruct (opt_id_is f old) eqn:E'.
      * intros [H|H]; congruence.
      * apply opt_id_is_false in E'. tauto.
Qed.

Lemma replace_outgoing_complete b old new :
  old <> new -> ~ In old (outgoing (replace_outgoing b old new)).
Proof.
  intros N. rewrite in_outgoing. unfold oin.
  destruct b as [o n|o t f]; cbn [replace_outgoing].
  - destruct (opt_id_is n old) eqn:E; [intros H; congruence|].
    apply opt_id_is_false in E. exact E.
  - destruct (opt_id_is t old) eqn:E, (opt_id_is f old) eqn:E';
      try apply opt_id_is_false in E; try apply opt_id_is_false in E'; intros [H|H]; congruence.
Qed.

Lemma dist_esub b b' old new :
  dist_b b -> esub old new b b' -> (old = new \/ ~ In new (outgoing b)) -> dist_b b'.
Proof.
  intros D H [E|K].
  - subst. apply esub_same in H. subst. exact D.
  - rewrite in_outgoing in K. unfold oin in K.
    destruct b as [o n|o t f], b' as [o' n'|o' t' f']; cbn in H; try tauto.
    destruct H as (_ & [H1|[H1 H1']] & [H2|[H2 H2']]); subst; cbn in *.
    + exact D.
    + destruct t as [t|]; [|exact Logic.I]. intros Q. subst. tauto.
    + destruct f as [f|]; [|exact Logic.I]. intros Q. subst. tauto.
    + congruence.
Qed.

Lemma dist_set_ops b o : dist_b b -> dist_b (set_ops b o).
Proof. destruct b; cbn; tauto. Qed.

(* ---- graphs ---- *)
Lemma out_of_blk g i b : g_blk g i = Some b -> out_of g i = outgoing b.
Proof. intros E. unfold out_of. rewrite E. reflexivity. Qed.

Lemma out_of_in g i x : In x (out_of g i) -> exists b, g_blk g i = Some b /\ In x (outgoing b).
Proof. unfold out_of. destruct (g_blk g i) as [b|]; [eauto|intros []]. Qed.

Lemma out_single g p x : cond_full g -> out_of g p = [x] ->
  exists o, g_blk g p = Some (BSimple o (Some x)).
Proof.
  intros F. unfold out_of. destruct (g_blk g p) as [b|] eqn:E; [|discriminate].
  specialize (F p b E). destruct b as [o [n|]|o [t|] [f|]]; cbn in *; try discriminate; try tauto.
  intros H. injection H as H. subst. eauto.
Qed.

Lemma count_id_nodup x l : NoDup l -> In x l -> count_id x l = 1.
Proof.
  induction 1 as [|y t N ND IH]; [intros []|]. cbn. intros [E|I].
  - subst. rewrite Nat.eqb_refl. f_equal.
    clear IH ND. induction t as [|z t IH]; [reflexivity|]. cbn.
    destruct (Nat.eqb_spec x z); [subst; exfalso; apply N; left; reflexivity|].
    apply IH. intros H. apply N. right. exact H.
  - destruct (Nat.eqb_spec x y); [subst; contradiction|]. apply IH. exact I.
Qed.

Lemma count_id_in x l : count_id x l <> 0 -> In x l.
Proof.
  induction l as [|y t IH]; cbn; [congruence|].
  destruct (Nat.eqb_spec x y); [left; congruence|]. intros H. right. apply IH. exact H.
Qed.

Lemma remove_first_in x y l : In y l -> y <> x -> In y (remove_first x l).
Proof.
  induction l as [|z t IH]; [intros []|]. cbn. intros [E|I] N.
  - subst. destruct (Nat.eqb_spec x y); [congruence|left; reflexivity].
  - destruct (Nat.eqb_spec x z); [exact I|right; apply IH; assumption].
Qed.

Lemma remove_first_incl x l : incl (remove_first x l) l.
Proof.
  induction l as [|z t IH]; [intros y []|]. cbn.
  destruct (Nat.eqb_spec x z); intros y H; [right; exact H|].
  destruct H as [H|H]; [left; exact H|right; apply IH; exact H].
Qed.

Lemma remove_first_nodup x l : NoDup l -> NoDup (remove_first x l).
Proof.
  induction 1 as [|z t N ND IH]; [constructor|]. cbn.
  destruct (Nat.eqb_spec x z); [exact ND|].
  constructor; [|exact IH]. intros H. apply N. eapply remove_first_incl. exact H.
Qed.

Lemma nodup_snoc (x : id) l : NoDup l -> ~ In x l -> NoDup (l ++ [x]).
Proof.
  induction 1 as [|z t N ND IH]; intros K; cbn; [constructor; [intros []|constructor]|].
  constructor.
  - intros H. apply in_app_or in H. destruct H as [H|[H|[]]]; [contradiction|].
    apply K. left. symmetry. exact H.
  - apply IH. intros H. apply K. right. exact H.
Qed.

(* =========================================================================================== *)
Section Folds.
  Variable ro : block -> id -> id -> block.
  Hypothesis ro_sub : forall b old new, esub old new b (ro b old new).

  (* ---- pass 1: re-point the members of prev.incoming ---- *)
  Definition f1 (old new : id) (g : graph) (i : id) : graph :=
    match g_blk g i with Some ib => set_blk g i (ro ib old new) | None => g end.

  Lemma f1_inc old new g i : g_inc (f1 old new g i) = g_inc g /\ g_next (f1 old new g i) = g_next g.
  Proof. unfold f1. destruct (g_blk g i); split; reflexivity. Qed.

  Lemma f1_blk old new g i j :
    g_blk (f1 old new g i) j =
    if Nat.eqb j i then option_map (fun b => ro b old new) (g_blk g i) else g_blk g j.
  Proof.
    unfold f1. destruct (Nat.eqb_spec j i) as [E|E].
    - subst. destruct (g_blk g i) eqn:Eb; cbn; [apply upd_same|exact Eb].
    - destruct (g_blk g i); cbn; [apply upd_other; exact E|reflexivity].
  Qed.

  Lemma fold1_inc old new l : forall g,
    g_inc (fold_left (f1 old new) l g) = g_inc g /\ g_next (fold_left (f1 old new) l g) = g_next g.
  Proof.
    induction l as [|a t IH]; intros g; cbn [fold_left]; [split; reflexivity|].
    destruct (IH (f1 old new g a)) as [H1 H2]. destruct (f1_inc old new g a) as [K1 K2].
    split; congruence.
  Qed.

  Lemma fold1_blk old new l : forall g i,
    match g_blk g i with
    | None => g_blk (fold_left (f1 old new) l g) i = None
    | Some b => exists b', g_blk (fold_left (f1 old new) l g) i = Some b' /\ esub old new b b'
    end.
  Proof.
    induction l as [|a t IH]; intros g i; cbn [fold_left].
    - destruct (g_blk g i) as [b|]; [|reflexivity]. exists b. split; [reflexivity|apply esub_refl].
    - specialize (IH (f1 old new g a) i). rewrite f1_blk in IH.
      destruct (Nat.eqb_spec i a) as [E|E].
      + subst a. destruct (g_blk g i) as [b|]; cbn [option_map] in IH; [|exact IH].
        destruct IH as (b' & H1 & H2). exists b'. split; [exact H1|].
        eapply esub_trans; [apply ro_sub|exact H2].
      + exact IH.
  Qed.

  Lemma fold1_notin old new l : forall g i, ~ In i l -> g_blk (fold_left (f1 old new) l g) i = g_blk g i.
  Proof.
    induction l as [|a t IH]; intros g i N; cbn [fold_left]; [reflexivity|].
    rewrite IH by (intros H; apply N; right; exact H).
    rewrite f1_blk. destruct (Nat.eqb_spec i a); [|reflexivity].
    subst. exfalso. apply N. left. reflexivity.
  Qed.

  Lemma fold1_complete old new l : forall g i b,
    In i l -> g_blk g i = Some b -> old <> new -> ~ In old (outgoing (ro b old new)) ->
    exists b', g_blk (fold_left (f1 old new) l g) i = Some b' /\ ~ In old (outgoing b').
  Proof.
    induction l as [|a t IH]; intros g i b I E N C; [destruct I|]. cbn [fold_left].
    destruct (Nat.eq_dec a i) as [Q|Q].
    - subst a. pose proof (fold1_blk old new t (f1 old new g i) i) as H.
      rewrite f1_blk, Nat.eqb_refl, E in H. cbn [option_map] in H.
      destruct H as (b' & H1 & H2). exists b'. split; [exact H1|].
      eapply esub_no_old; eauto.
    - destruct I as [I|I]; [contradiction|].
      apply (IH (f1 old new g a) i b I); auto.
      rewrite f1_blk. destruct (Nat.eqb_spec i a); [congruence|exact E].
  Qed.

  (* ---- pass 2: re-point the members of block.incoming and register them with the successor ---- *)
  Definition f2 (old new : id) (g : graph) (p : id) : graph :=
    let g' := match g_blk g p with Some pb => set_blk g p (ro pb old new) | None => g end in
    if mem_id p (g_inc g' new) then g' else set_inc g' new (g_inc g' new ++ [p]).

  Lemma f2_f1 old new g p :
    g_blk (f2 old new g p) = g_blk (f1 old new g p) /\ g_next (f2 old new g p) = g_next g.
  Proof.
    unfold f2, f1. destruct (g_blk g p); cbn; destruct (mem_id p _); split; reflexivity.
  Qed.

  Lemma f2_inc old new g p x :
    g_inc (f2 old new g p) x =
    if Nat.eqb x new then (if mem_id p (g_inc g new) then g_inc g new else g_inc g new ++ [p])
    else g_inc g x.
  Proof.
    unfold f2.
    assert (K : g_inc (match g_blk g p with Some pb => set_blk g p (ro pb old new) | None => g end) = g_inc g)
      by (destruct (g_blk g p); reflexivity).
    rewrite K. destruct (mem_id p (g_inc g new)) eqn:M.
    - rewrite K. destruct (Nat.eqb_spec x new); congruence.
    - cbn [set_inc g_inc]. rewrite K. unfold upd. destruct (Nat.eqb_spec x new); reflexivity.
  Qed.

  Lemma fold2_blk old new l : forall g i,
    match g_blk g i with
    | None => g_blk (fold_left (f2 old new) l g) i = None
    | Some b => exists b', g_blk (fold_left (f2 old new) l g) i = Some b' /\ esub old new b b'
    end.
  Proof.
    induction l as [|a t IH]; intros g i; cbn [fold_left].
    - destruct (g_blk g i) as [b|]; [|reflexivity]. exists b. split; [reflexivity|apply esub_refl].
    - specialize (IH (f2 old new g a) i). destruct (f2_f1 old new g a) as [K _]. rewrite K, f1_blk in IH.
      destruct (Nat.eqb_spec i a) as [E|E].
      + subst a. destruct (g_blk g i) as [b|]; cbn [option_map] in IH; [|exact IH].
        destruct IH as (b' & H1 & H2). exists b'. split; [exact H1|].
        eapply esub_trans; [apply ro_sub|exact H2].
      + exact IH.
  Qed.

  Lemma fold2_next old new l : forall g, g_next (fold_left (f2 old new) l g) = g_next g.
  Proof.
    induction l as [|a t IH]; intros g; cbn [fold_left]; [reflexivity|].
    rewrite IH. apply f2_f1.
  Qed.

  Lemma fold2_notin old new l : forall g i, ~ In i l -> g_blk (fold_left (f2 old new) l g) i = g_blk g i.
  Proof.
    induction l as [|a t IH]; intros g i N; cbn [fold_left]; [reflexivity|].
    rewrite IH by (intros H; apply N; right; exact H).
    destruct (f2_f1 old new g a) as [K _]. rewrite K, f1_blk.
    destruct (Nat.eqb_spec i a); [|reflexivity].
    subst. exfalso. apply N. left. reflexivity.
  Qed.

  Lemma fold2_complete old new l : forall g i b,
    In i l -> g_blk g i = Some b -> old <> new -> ~ In old (outgoing (ro b old new)) ->
    exists b', g_blk (fold_left (f2 old new) l g) i = Some b' /\ ~ In old (outgoing b').
  Proof.
    induction l as [|a t IH]; intros g i b I E N C; [destruct I|]. cbn [fold_left].
    destruct (f2_f1 old new g a) as [K _].
    destruct (Nat.eq_dec a i) as [Q|Q].
    - subst a. pose proof (fold2_blk old new t (f2 old new g i) i) as H.
      rewrite K, f1_blk, Nat.eqb_refl, E in H. cbn [option_map] in H.
      destruct H as (b' & H1 & H2). exists b'. split; [exact H1|].
      eapply esub_no_old; eauto.
    - destruct I as [I|I]; [contradiction|].
      apply (IH (f2 old new g a) i b I); auto.
      rewrite K, f1_blk. destruct (Nat.eqb_spec i a); [congruence|exact E].
  Qed.

  Lemma fold2_inc_other old new l : forall g x, x <> new ->
    g_inc (fold_left (f2 old new) l g) x = g_inc g x.
  Proof.
    induction l as [|a t IH]; intros g x N; cbn [fold_left]; [reflexivity|].
    rewrite IH by exact N. rewrite f2_inc. destruct (Nat.eqb_spec x new); [contradiction|reflexivity].
  Qed.

  Lemma fold2_inc_new old new l : forall g,
    incl (g_inc g new) (g_inc (fold_left (f2 old new) l g) new) /\
    incl l (g_inc (fold_left (f2 old new) l g) new) /\
    (NoDup (g_inc g new) -> NoDup (g_inc (fold_left (f2 old new) l g) new)).
  Proof.
    induction l as [|a t IH]; intros g; cbn [fold_left].
    - repeat split; [apply incl_refl|intros x []|auto].
    - destruct (IH (f2 old new g a)) as (H1 & H2 & H3).
      assert (K : g_inc (f2 old new g a) new =
                  if mem_id a (g_inc g new) then g_inc g new else g_inc g new ++ [a])
        by (rewrite f2_inc, Nat.eqb_refl; reflexivity).
      assert (Ka : In a (g_inc (f2 old new g a) new)).
      { rewrite K. destruct (mem_id a (g_inc g new)) eqn:M; [apply mem_id_In; exact M|].
        apply in_or_app. right. left. reflexivity. }
      assert (Ki : incl (g_inc g new) (g_inc (f2 old new g a) new)).
      { rewrite K. destruct (mem_id a (g_inc g new)); [apply incl_refl|apply incl_appl, incl_refl]. }
      repeat split.
      + eapply incl_tran; eauto.
      + intros x [E|I]; [subst; apply H1; exact Ka|apply H2; exact I].
      + intros ND. apply H3. rewrite K. destruct (mem_id a (g_inc g new)) eqn:M; [exact ND|].
        apply nodup_snoc; [exact ND|]. apply mem_id_false. exact M.
  Qed.
End Folds.

(* ---- validateTree's assertion vs. the covering property ---- *)
Lemma tree_valid_of_cov g s : inc_covers g s -> (forall x, NoDup (g_inc g x)) -> tree_valid g s.
Proof. intros C N p b R I. apply count_id_nodup; [apply N|apply (C p b R I)]. Qed.

Lemma cov_of_tree_valid g s : tree_valid g s -> inc_covers g s.
Proof. intros T p b R I. apply count_id_in. rewrite (T p b R I). discriminate. Qed.
