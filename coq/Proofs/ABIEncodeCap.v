(* Proofs/ABIEncodeCap.v — the AVM caps byte strings at 4096 bytes (concat fails beyond).  Whatever the model
   computes WITH a cap it also computes without one: a capped run never produces bytes the uncapped run would
   not produce.  (Construction-time acceptance does not depend on the cap at all.)
   Also: Array.set and String.set stated on their own. *)
From Coq Require Import List Arith NArith ZArith Ascii String Bool Lia.
From PV Require Import Base.Bytes Base.U64 AVM.Ops ABI.Types ABI.Spec ABI.Encode
  Proofs.ABISpecProof Proofs.ABIEncodeOps Proofs.ABIEncodeDescr Proofs.ABIEncodeBool Proofs.ABIEncodeTuple
  Proofs.ABIEncodeLen Proofs.ABIEncodeSet.
Import ListNotations.
Local Open Scope N_scope.

Lemma concat_all_mono : forall l parts c, concat_all (Some l) parts = Some c -> concat_all None parts = Some c.
Proof.
  intros l [|p r] c H; [exact H|]. cbn [concat_all] in *.
  assert (G : forall (acc : option bytes) c,
             fold_left (fun acc x => obind acc (fun a => x_concat (Some l) a x)) r acc = Some c ->
             fold_left (fun acc x => obind acc (fun a => x_concat None a x)) r acc = Some c).
  { clear. induction r as [|x r IH]; intros acc c H; [exact H|]. cbn [fold_left] in *.
    destruct acc as [a|].
    - cbn [obind] in *. destruct (x_concat (Some l) a x) as [b|] eqn:Hc.
      + rewrite (x_concat_mono l a x b Hc). apply IH. exact H.
      + exfalso. clear -H. induction r as [|y r IH]; [discriminate|]. apply IH. exact H.
    - exfalso. clear -H. cbn [obind] in H. induction r as [|y r IH]; [discriminate|]. apply IH. exact H. }
  apply G. exact H.
Qed.

Lemma run_head_mono : forall l hls h st r, run_head (Some l) hls h st = Some r -> run_head None hls h st = Some r.
Proof.
  intros l hls h st r H. destruct h as [vs|v notlast|t v]; cbn [run_head] in *; try exact H.
  apply obind_some in H as [e [He H]]. rewrite He. cbn [obind].
  apply obind_some in H as [holder' [Hh H]].
  assert (Hh' : (if ts_first st then Some e else x_concat None (ts_holder st) e) = Some holder').
  { destruct (ts_first st); [exact Hh | exact (x_concat_mono l _ _ _ Hh)]. }
  rewrite Hh'. exact H.
Qed.

Lemma run_heads_mono : forall l hls hs st r, run_heads (Some l) hls hs st = Some r -> run_heads None hls hs st = Some r.
Proof.
  intros l hls hs. induction hs as [|h r IH]; intros st res H; [exact H|]. cbn [run_heads] in *.
  apply obind_some in H as [bs [Hb H]]. rewrite (run_head_mono l hls h st bs Hb). cbn [obind].
  apply obind_some in H as [rs [Hr H]]. rewrite (IH _ _ Hr). exact H.
Qed.

Lemma encode_tuple_run_mono : forall l vals c, encode_tuple_run (Some l) vals = Some c -> encode_tuple_run None vals = Some c.
Proof.
  intros l vals c H. unfold encode_tuple_run in *.
  apply obind_some in H as [r [Hr H]]. rewrite (run_heads_mono l _ _ _ _ Hr). cbn [obind].
  exact (concat_all_mono l _ _ H).
Qed.

Lemma array_set_run_mono : forall l d vals c, array_set_run (Some l) d vals = Some c -> array_set_run None d vals = Some c.
Proof.
  intros l d vals c H. unfold array_set_run in *. destruct d; [|exact (encode_tuple_run_mono l vals c H)].
  apply obind_some in H as [p [Hp H]]. rewrite Hp. cbn [obind].
  apply obind_some in H as [body [Hb H]]. rewrite (encode_tuple_run_mono l vals body Hb). cbn [obind].
  exact (x_concat_mono l _ _ _ H).
Qed.

Lemma map_all_mono : forall {A C} (f g : A -> option C) l cs,
    Forall (fun a => forall c, f a = Some c -> g a = Some c) l -> map_all f l = Some cs -> map_all g l = Some cs.
Proof.
  intros A C f g l. induction l as [|a r IH]; intros cs HF H; [exact H|]. cbn [map_all] in *.
  inversion HF as [|x y Ha Hr]; subst.
  apply obind_some in H as [c [Hc H]]. rewrite (Ha c Hc). cbn [obind].
  apply option_map_some in H as [cs' [H ->]]. rewrite (IH cs' Hr H). reflexivity.
Qed.

Lemma seq_run_mono : forall l d e (f g : src -> option sval) ms c,
    Forall (fun a => forall c, f a = Some c -> g a = Some c) ms ->
    seq_run (Some l) d e f ms = Some c -> seq_run None d e g ms = Some c.
Proof.
  intros l d e f g ms c HF H. unfold seq_run in *.
  apply obind_some in H as [vs [Hvs H]]. rewrite (map_all_mono f g ms vs HF Hvs). cbn [obind].
  apply option_map_some in H as [b [H ->]]. rewrite (array_set_run_mono l d _ b H). reflexivity.
Qed.

Lemma zip_all_mono : forall {A C} (fs gs : list (A -> option C)) l cs,
    Forall2 (fun f g => forall a c, f a = Some c -> g a = Some c) fs gs ->
    zip_all fs l = Some cs -> zip_all gs l = Some cs.
Proof.
  intros A C fs gs l cs HF. revert l cs. induction HF as [|f g fr gr Hfg _ IH]; intros [|a r] cs H;
    cbn [zip_all] in *; try discriminate; [exact H|].
  apply obind_some in H as [c [Hc H]]. rewrite (Hfg a c Hc). cbn [obind].
  apply option_map_some in H as [cs' [H ->]]. rewrite (IH r cs' H). reflexivity.
Qed.

Theorem run_set_mono : forall l t s c, run_set (Some l) t s = Some c -> run_set None t s = Some c.
Proof.
  intros l. induction t as [| | n | | | e n IH | e IH | nm ts IH | n | | k | k] using ty_ind'; intros s c H;
    cbn [run_set] in *; try exact H; try discriminate.
  - destruct (uncopy s); try exact H.
    eapply seq_run_mono; [|exact H]. apply Forall_forall. intros a _ c0 Hc. exact Hc.
  - destruct (uncopy s); try exact H.
    + apply option_map_some in H as [b [H ->]]. unfold store_encoded_expr_byte_string in *.
      apply obind_some in H as [p [Hp H]]. rewrite Hp. cbn [obind]. rewrite (x_concat_mono l _ _ _ H). reflexivity.
    + eapply seq_run_mono; [|exact H]. apply Forall_forall. intros a _ c0 Hc. exact Hc.
  - destruct (uncopy s); try exact H.
    eapply seq_run_mono; [|exact H]. apply Forall_forall. intros a _ c0 Hc. apply IH. exact Hc.
  - destruct (uncopy s); try exact H.
    eapply seq_run_mono; [|exact H]. apply Forall_forall. intros a _ c0 Hc. apply IH. exact Hc.
  - destruct (uncopy s) as [z|b|k|bs0|bs0|s'|ms]; try exact H.
    apply obind_some in H as [vs [Hvs H]].
    assert (Hz : zip_all (map (fun x => run_set None x) ts) ms = Some vs).
    { eapply zip_all_mono; [|exact Hvs]. clear -IH.
      induction IH as [|x r Hx _ IHr]; cbn [map]; constructor; [|exact IHr]. intros a c0 Hc. apply Hx. exact Hc. }
    rewrite Hz. cbn [obind]. apply option_map_some in H as [b [H ->]].
    rewrite (encode_tuple_run_mono l _ b H). reflexivity.
  - destruct (uncopy s); try exact H.
    eapply seq_run_mono; [|exact H]. apply Forall_forall. intros a _ c0 Hc. exact Hc.
  - destruct (uncopy s); try exact H.
    + apply option_map_some in H as [b [H ->]]. unfold store_encoded_expr_byte_string in *.
      apply obind_some in H as [p [Hp H]]. rewrite Hp. cbn [obind]. rewrite (x_concat_mono l _ _ _ H). reflexivity.
    + eapply seq_run_mono; [|exact H]. apply Forall_forall. intros a _ c0 Hc. exact Hc.
Qed.

(* on the capped machine: bytes that come out are the bytes of the uncapped machine; rejection is the same *)
Theorem capped_outcome_sound : forall l t s,
    (forall bs, set_outcome (Some l) t s = OBytes bs -> set_outcome None t s = OBytes bs) /\
    (set_outcome (Some l) t s = OReject <-> set_outcome None t s = OReject).
Proof.
  intros l t s. unfold set_outcome. destruct (set_ok t s).
  - split.
    + intros bs H. destruct (run_set (Some l) t s) as [c|] eqn:Hr; cbn [obind] in H; [|discriminate].
      rewrite (run_set_mono l t s c Hr). cbn [obind]. exact H.
    + split; intro H.
      * destruct (obind (run_set (Some l) t s) (elem_encode t)); discriminate.
      * destruct (obind (run_set None t s) (elem_encode t)); discriminate.
  - split; [discriminate|]. split; reflexivity.
Qed.

(* hence, on the capped machine, bytes that come out are the ARC-4 encoding of the denoted value *)
Corollary capped_bytes_are_arc4 : forall l t s v bs,
    pyteal_ty t = true -> src_wf s = true -> denote t s = Some v ->
    set_outcome (Some l) t s = OBytes bs -> arc4_encode t v = Some bs.
Proof.
  intros l t s v bs Hty Hwf Hv H.
  apply (proj1 (capped_outcome_sound l t s)) in H.
  exact (proj1 (set_bytes_iff_spec t s v bs Hty Hwf Hv) H).
Qed.

(* ---- Array.set on its own: _encode_tuple of the members (+ uint16 element count) ---- *)
Theorem array_set_correct : forall (dynamic : bool) vals es, Forall2 rep vals es ->
    let spec := if dynamic
                then obind (u16 (N.of_nat (List.length vals))) (fun p => obind (assemble es) (fun b => Some (p ++ b)))
                else assemble es in
    (array_set_ok dynamic vals = true -> array_set_run None dynamic vals = spec) /\
    (array_set_ok dynamic vals = false -> spec = None).
Proof.
  intros dynamic vals es H spec. subst spec. destruct (encode_tuple_correct vals es H) as [Tok Tbad].
  unfold array_set_ok, array_set_run, u16. destruct dynamic.
  - rewrite uint_encode_16. cbn [obind]. destruct (encode_tuple_ok vals) eqn:Hok; cbn [andb].
    + rewrite (Tok eq_refl). split.
      * intro Hn. rewrite Hn. cbn [obind]. destruct (assemble es); reflexivity.
      * intro Hn. rewrite Hn. reflexivity.
    + split; [discriminate|]. intros _. rewrite (Tbad eq_refl).
      destruct (N.of_nat (List.length vals) <? 65536); reflexivity.
  - rewrite andb_true_r. split; intro Hok; [exact (Tok Hok) | exact (Tbad Hok)].
Qed.

(* ---- String.set / DynamicBytes.set on their own ---- *)
Theorem string_set_correct : forall bs,
    (* from Python bytes / str: accepted iff the length fits a uint16; the constant is the encoding *)
    (encoded_byte_string bs = arc4_encode TString (VBytes bs)) /\
    (* from an expression, on a machine whose byte strings are capped below 2^16 (the AVM: 4096) *)
    (blen bs <= MAX_BYTES -> store_encoded_expr_byte_string None bs = arc4_encode TString (VBytes bs)) /\
    (forall l b, store_encoded_expr_byte_string (Some l) bs = Some b -> store_encoded_expr_byte_string None bs = Some b).
Proof.
  intro bs. cbn [arc4_encode]. rewrite dyn_bytes_enc_spec. split; [reflexivity|]. split.
  - intro H. unfold MAX_BYTES in H. rewrite store_expr_bytes_none.
    assert (Hlt : (blen bs <? 65536) = true) by (apply N.ltb_lt; lia). rewrite Hlt. reflexivity.
  - intros l b H. unfold store_encoded_expr_byte_string in *.
    apply obind_some in H as [p [Hp H]]. rewrite Hp. cbn [obind]. exact (x_concat_mono l _ _ _ H).
Qed.

(* the length prefix written by String.set(Expr) is NOT range-checked: without the AVM's cap a 65536-byte
   argument would be stored with the prefix 0x0000 (the hypothesis [blen bs <= MAX_BYTES] above is needed) *)
Lemma string_set_expr_wraps_without_cap :
  let bs := repeat zero (N.to_nat 65536) in
  store_encoded_expr_byte_string None bs = Some (be_encode 2 0 ++ bs) /\ arc4_encode TString (VBytes bs) = None.
Proof.
  cbn zeta. split.
  - rewrite store_expr_bytes_none. unfold blen. rewrite repeat_length, N2Nat.id. reflexivity.
  - cbn [arc4_encode]. rewrite dyn_bytes_enc_spec. unfold blen. rewrite repeat_length, N2Nat.id. reflexivity.
Qed.
