(* Proofs/LitGoTokProof.v — C13, side theorems for the previous-character variant of the
   tokeniser (Lit/GoTok.v): the escaped literal is still one token when it ends its line — for
   EVERY byte string — and when followed by a comment provided its last byte is not a
   backslash; with a trailing backslash and a comment the variant keeps reading. *)
From Coq Require Import List NArith Ascii String Bool Lia.
From PV Require Import Base.Bytes AVM.Parse Lit.Escape Lit.GoTok Proofs.LitEscapeProof.
Import ListNotations.
Local Open Scope string_scope.
Local Open Scope list_scope.

Lemma go_unit c : forall t cur ib acc,
  go_tok_line (esc_byte c ++ t) cur true ib acc = go_tok_line t (rev (esc_byte c) ++ cur) true ib acc.
Proof.
  destruct c as [[|] [|] [|] [|] [|] [|] [|] [|]]; intros; reflexivity.
Qed.

Lemma go_body b : forall rest cur ib acc,
  go_tok_line (escape_body b ++ rest) cur true ib acc =
  go_tok_line rest (rev (escape_body b) ++ cur) true ib acc.
Proof.
  induction b as [|c b IH]; intros rest cur ib acc; [reflexivity|].
  unfold escape_body in *. cbn [flat_map].
  rewrite <- app_assoc, go_unit, IH, rev_app_distr, <- app_assoc. reflexivity.
Qed.

Lemma go_byte_prefix rest acc :
  go_tok_line (list_ascii_of_string "byte " ++ rest) [] false false acc =
  go_tok_line rest [] false false ("byte" :: acc).
Proof. reflexivity. Qed.

(* after `byte ` and the opening quote and the body: at the closing quote *)
Lemma go_to_closing b rest acc :
  go_tok_line (list_ascii_of_string (byte_line b) ++ rest) [] false false acc =
  go_tok_line (dquote :: rest) (rev (escape_body b) ++ [dquote]) true false ("byte" :: acc).
Proof.
  unfold byte_line. rewrite list_of_append, <- app_assoc, go_byte_prefix, list_of_escape_str.
  unfold escape_list. cbn [app go_tok_line].
  change (is_space dquote) with false. change (Ascii.eqb dquote """") with true. cbn iota.
  rewrite <- app_assoc, go_body. reflexivity.
Qed.

(* (1) alone on its line: whatever the variant decides at the closing quote, the line ends there *)
Lemma go_escape_tokens b : go_tokens_of_line (byte_line b) = ["byte"; escape_str b].
Proof.
  unfold go_tokens_of_line.
  rewrite <- (app_nil_r (list_ascii_of_string (byte_line b))), go_to_closing.
  cbn [go_tok_line].
  assert (E : str_of (dquote :: rev (escape_body b) ++ [dquote]) = escape_str b).
  { unfold str_of, escape_str, escape_list. cbn [rev]. rewrite rev_app_distr, rev_involutive. reflexivity. }
  destruct (Ascii.eqb dquote """" && negb (prev_is_backslash (rev (escape_body b) ++ [dquote])));
    cbn [go_tok_line rev app]; rewrite E; reflexivity.
Qed.

(* the last character of the escaped body is a backslash only if the last byte is one *)
Lemma unit_last_not_backslash c :
  Ascii.eqb c "\" = false -> forall cur, prev_is_backslash (rev (esc_byte c) ++ cur) = false.
Proof.
  destruct c as [[|] [|] [|] [|] [|] [|] [|] [|]]; intros H cur; try reflexivity; discriminate H.
Qed.

Definition ends_with_backslash (b : bytes) : bool :=
  match rev b with c :: _ => Ascii.eqb c "\" | [] => false end.

Lemma body_last b : ends_with_backslash b = false ->
  prev_is_backslash (rev (escape_body b) ++ [dquote]) = false.
Proof.
  unfold ends_with_backslash.
  destruct (rev b) as [|c r] eqn:E.
  - apply (f_equal (@rev ascii)) in E. rewrite rev_involutive in E. subst b. reflexivity.
  - apply (f_equal (@rev ascii)) in E. rewrite rev_involutive in E. subst b. cbn [rev].
    intros H. unfold escape_body. rewrite flat_map_app. cbn [flat_map]. rewrite app_nil_r, rev_app_distr, <- app_assoc.
    now apply unit_last_not_backslash.
Qed.

(* (2) followed by a comment: fine unless the string ends with a backslash *)
Lemma go_escape_tokens_comment b (cmt : string) :
  ends_with_backslash b = false ->
  go_tokens_of_line (byte_line b ++ " //" ++ cmt)%string = ["byte"; escape_str b].
Proof.
  intros H. unfold go_tokens_of_line. rewrite list_of_append, go_to_closing.
  cbn [go_tok_line]. rewrite (body_last b H). change (Ascii.eqb dquote """") with true. cbn [andb negb].
  cbn [append list_ascii_of_string go_tok_line]. change (is_space " ") with true. cbn iota.
  assert (E : str_of (dquote :: rev (escape_body b) ++ [dquote]) = escape_str b).
  { unfold str_of, escape_str, escape_list. cbn [rev]. rewrite rev_app_distr, rev_involutive. reflexivity. }
  rewrite E. destruct (escape_str_not_kw b) as (E1 & E2 & _). rewrite E1, E2. cbn [orb].
  cbn [go_tok_line]. change (is_space "/") with false. reflexivity.
Qed.

(* (3) the difference: a string ending in a backslash, then a comment *)
Lemma go_comment_after_backslash_differs :
  exists b cmt,
    tokens_of_line (byte_line b ++ " //" ++ cmt)%string = ["byte"; escape_str b] /\
    go_tokens_of_line (byte_line b ++ " //" ++ cmt)%string <> ["byte"; escape_str b].
Proof.
  exists ["\"%char], "x". split; [reflexivity | vm_compute; discriminate].
Qed.
