(* Proofs/RouterArgsCells.v — C09: the storage view of the glue.  Executing the decoding steps of either
   flavour (scratch slots / frame cells of the caster subroutine) and then reading the argument cells in
   declaration order yields exactly what the binding plan evaluates to: the cells of distinct instances
   never alias (argument i, the tuple instance, output_temp), and the tuple is decoded before it is
   de-tupled. *)
From Coq Require Import List Arith NArith Ascii Bool Lia.
From PV Require Import Base.Bytes ABI.Types ABI.Spec Gen.Tables Router.Args
  Proofs.RouterArgsLists Proofs.RouterArgsProof Proofs.RouterArgsGlue.
Import ListNotations.

(* ---- indexed lists ---- *)
Lemma in_combine_seq : forall {A} (l : list A) k i x,
  In (i, x) (combine (seq k (length l)) l) <-> (k <= i /\ nth_error l (i - k) = Some x).
Proof.
  intros A l. induction l as [| y r IH]; intros k i x; cbn [length seq combine].
  - split; [intros [] | intros [_ H]; destruct (i - k); discriminate].
  - cbn [In]. rewrite IH. split.
    + intros [E | [Hk Hn]].
      * inversion E; subst. split; [lia |]. now rewrite Nat.sub_diag.
      * split; [lia |]. replace (i - k) with (S (i - S k)) by lia. exact Hn.
    + intros [Hk Hn]. destruct (Nat.eq_dec i k) as [-> | Hne].
      * left. rewrite Nat.sub_diag in Hn. cbn in Hn. now inversion Hn.
      * right. split; [lia |]. replace (i - k) with (S (i - S k)) in Hn by lia. exact Hn.
Qed.

Lemma in_indexed : forall {A} (l : list A) i x, In (i, x) (indexed l) <-> nth_error l i = Some x.
Proof.
  intros A l i x. unfold indexed. rewrite in_combine_seq. rewrite Nat.sub_0_r. split; [tauto | intro; split; [lia | assumption]].
Qed.

(* ---- splice keeps properties and elements of its sub-lists ---- *)
Lemma splice_Forall : forall {A} (P : A -> Prop) tys (LA LT : list A),
  Forall P LA -> Forall P LT -> Forall P (splice tys LA LT).
Proof.
  intros A P tys. induction tys as [| t r IH]; intros LA LT HA HT; cbn [splice]; [constructor |].
  destruct (is_txn_ty t).
  - destruct LT as [| b LT']; [constructor |]; inversion HT; subst. constructor; [assumption | now apply IH].
  - destruct LA as [| b LA']; [constructor |]; inversion HA; subst. constructor; [assumption | now apply IH].
Qed.

Lemma splice_In_A : forall {A} tys (LA LT : list A) b,
  length LA = length (filter not_txn_ty tys) -> length LT = length (filter is_txn_ty tys) ->
  In b LA -> In b (splice tys LA LT).
Proof.
  intros A tys. induction tys as [| t r IH]; intros LA LT b HA HT Hin.
  - destruct LA; [contradiction | discriminate].
  - cbn [filter] in HA, HT. unfold not_txn_ty in HA at 1. cbn [splice].
    destruct (is_txn_ty t); cbn [negb] in HA.
    + destruct LT as [| x LT']; [discriminate |]. right. apply IH; auto.
    + destruct LA as [| x LA']; [discriminate |]. destruct Hin as [-> | Hin]; [now left | right; apply IH; auto].
Qed.

Lemma binding_plan_length : forall tys, length (binding_plan tys) = length tys.
Proof. intro tys. symmetry. eapply Forall2_len. apply binding_plan_shape. Qed.

(* ---- well-formedness of the bindings in a plan ---- *)
Definition tuple_slot (tys : list ty) : nat := length (firstn (CUTOFF - 1) (filter not_txn_ty tys)) + 1.

Definition binding_wf (tslot : nat) (tt : list ty) (b : binding) : Prop :=
  match b with
  | BVal (SArg _) (TRef _) => False
  | BVal (SMember s ts _) t => s = tslot /\ ts = tt /\ tt <> [] /\ match t with TRef _ => False | _ => True end
  | BRef (SMember s ts _) _ => s = tslot /\ ts = tt /\ tt <> []
  | _ => True
  end.

Lemma app_bindings_wf : forall apps,
  Forall (fun t => is_txn_ty t = false) apps ->
  Forall (binding_wf (length (firstn (CUTOFF - 1) apps) + 1)
                     (if CUTOFF <? length apps then skipn (CUTOFF - 1) apps else []))
         (app_bindings apps).
Proof.
  intros apps Hnt. apply Forall_forall. intros b Hin. apply In_nth_error in Hin. destruct Hin as [j Hj].
  assert (Hjl : j < length apps) by (rewrite <- app_bindings_length; apply nth_error_Some; congruence).
  destruct (nth_error apps j) as [t |] eqn:Et; [| apply nth_error_None in Et; lia].
  rewrite (app_bindings_nth _ _ _ Et) in Hj. inversion Hj; subst b. clear Hj.
  unfold app_source. change CUTOFF with 15. change (15 - 1) with 14.
  destruct (length apps <=? 15) eqn:C; cbn [orb].
  - destruct t; cbn; exact I.
  - apply Nat.leb_gt in C. destruct (j <? 14); [destruct t; cbn; exact I |].
    replace (15 <? length apps) with true by (symmetry; apply Nat.ltb_lt; lia).
    rewrite firstn_length_le by lia.
    assert (Hne : skipn 14 apps <> []).
    { intro E. pose proof (skipn_length 14 apps) as L. rewrite E in L. cbn in L. lia. }
    destruct t; cbn; repeat split; auto.
Qed.

Lemma txn_bindings_wf : forall tslot tt txns, Forall (binding_wf tslot tt) (txn_bindings txns).
Proof.
  intros tslot tt txns. apply Forall_forall. intros b Hin. apply In_nth_error in Hin. destruct Hin as [j Hj].
  unfold txn_bindings in Hj. rewrite nth_error_mapi_from in Hj.
  destruct (nth_error txns j); [| discriminate]. cbn in Hj. inversion Hj. exact I.
Qed.

Lemma filter_not_txn_all : forall tys, Forall (fun t => is_txn_ty t = false) (filter not_txn_ty tys).
Proof.
  intro tys. apply Forall_forall. intros t Hin. apply filter_In in Hin. destruct Hin as [_ H].
  unfold not_txn_ty in H. now destruct (is_txn_ty t).
Qed.

Lemma binding_plan_wf : forall tys, Forall (binding_wf (tuple_slot tys) (tupled_types tys)) (binding_plan tys).
Proof.
  intro tys. unfold binding_plan, tuple_slot, tupled_types.
  apply splice_Forall; [apply app_bindings_wf, filter_not_txn_all | apply txn_bindings_wf].
Qed.

(* when something is tupled, the plan does contain a member binding *)
Lemma binding_plan_has_member : forall tys,
  tupled_types tys <> [] -> exists b, In b (binding_plan tys) /\ is_member b = true.
Proof.
  intros tys H. unfold tupled_types in H. set (apps := filter not_txn_ty tys) in *.
  destruct (CUTOFF <? length apps) eqn:C; [| now contradiction H].
  change CUTOFF with 15 in *. change (15 - 1) with 14 in *. apply Nat.ltb_lt in C.
  destruct (nth_error apps 14) as [t |] eqn:Et; [| apply nth_error_None in Et; lia].
  pose proof (app_bindings_nth _ _ _ Et) as Hb.
  exists (mk_binding (app_source apps 14) t). split.
  - unfold binding_plan. apply splice_In_A.
    + apply app_bindings_length.
    + unfold txn_bindings. apply mapi_from_length.
    + fold apps. eapply nth_error_In; eauto.
  - unfold app_source. replace (length apps <=? 15) with false by (symmetry; apply Nat.leb_gt; lia).
    cbn. destruct t; reflexivity.
Qed.

(* ---- cells ---- *)
Lemma arg_cell_inj : forall fl ho i j, arg_cell fl ho i = arg_cell fl ho j -> i = j.
Proof. intros fl ho i j. unfold arg_cell. destruct fl; [auto | destruct ho; lia]. Qed.

Lemma arg_cell_not_tuple : forall fl ho n i, i < n -> arg_cell fl ho i <> tuple_cell fl ho n.
Proof. intros fl ho n i H. unfold arg_cell, tuple_cell. destruct fl; [lia | destruct ho; lia]. Qed.

Lemma out_cell_fresh : forall fl n i, i < n -> arg_cell fl true i <> out_cell fl n /\ tuple_cell fl true n <> out_cell fl n.
Proof. intros fl n i H. unfold arg_cell, tuple_cell, out_cell. destruct fl; lia. Qed.

Lemma cell_get_set_other : forall cs c v c', c' <> c -> cell_get (cell_set cs c v) c' = cell_get cs c'.
Proof.
  intros cs c v c' H. unfold cell_set. cbn [cell_get]. destruct (Nat.eqb_spec c' c); [contradiction | reflexivity].
Qed.

Lemma cell_get_uniform : forall (cs : cells) k v,
  (exists v', In (k, v') cs) -> (forall v', In (k, v') cs -> v' = v) -> cell_get cs k = Some v.
Proof.
  intro cs. induction cs as [| [k' v'] r IH]; intros k v [w Hin] Hall; [contradiction |].
  cbn [cell_get]. destruct (Nat.eqb_spec k k') as [-> | Hne].
  - f_equal. apply Hall. now left.
  - apply IH.
    + destruct Hin as [E | Hin]; [inversion E; congruence | eauto].
    + intros w' Hw. apply Hall. now right.
Qed.

Section Cells.
  Variable member : list ty -> nat -> bytes -> option bytes.
  Variables (args : list bytes) (group : list gtx) (gi : nat).
  Variables (cell : nat -> nat) (tc tslot : nat) (tt : list ty).
  Variable rv : nat -> bound.            (* what parameter number i is bound to *)

  Let ev := eval_binding member args group gi.
  Let write (ib : nat * binding) : nat * cellv := (cell (fst ib), CBound (rv (fst ib))).

  Lemma exec_gsteps_app : forall cs l1 l2,
    exec_gsteps member args group gi cs (l1 ++ l2) =
    match exec_gsteps member args group gi cs l1 with
    | Some cs' => exec_gsteps member args group gi cs' l2
    | None => None
    end.
  Proof.
    intros cs l1. revert cs. induction l1 as [| g r IH]; intros cs l2; [reflexivity |].
    cbn [app exec_gsteps]. destruct (exec_gstep member args group gi cs g); [apply IH | reflexivity].
  Qed.

  (* one phase: every step writes its own parameter's cell with the plan's value *)
  Lemma exec_phase : forall (L : list (nat * binding)) cs,
    (forall ib, In ib L -> ev (snd ib) = Some (rv (fst ib))) ->
    (forall ib, In ib L -> binding_wf tslot tt (snd ib)) ->
    (forall ib, In ib L -> cell (fst ib) <> tc) ->
    ((exists ib, In ib L /\ is_member (snd ib) = true) ->
       exists tb, cell_get cs tc = Some (CTuple tb) /\ nth_error args tslot = Some tb) ->
    exec_gsteps member args group gi cs (map (step_of cell tc) L) = Some (rev (map write L) ++ cs).
  Proof.
    intro L. induction L as [| [i b] r IH]; intros cs Hev Hwf Hne Htup; [reflexivity |].
    cbn [map exec_gsteps].
    assert (E1 : exec_gstep member args group gi cs (step_of cell tc (i, b)) = Some (cell_set cs (cell i) (CBound (rv i)))).
    { specialize (Hev (i, b) (or_introl eq_refl)). specialize (Hwf (i, b) (or_introl eq_refl)). cbn [fst snd] in Hev, Hwf.
      unfold step_of. cbn [fst snd]. unfold ev in Hev.
      destruct b as [[slot | s ts j] t | [slot | s ts j] k | back k]; cbn [exec_gstep eval_binding read_source] in *.
      - destruct (nth_error args slot) as [bs |]; [| discriminate Hev]. cbn [option_map] in Hev. inversion Hev as [Hr].
        destruct t; cbn [as_bound option_map binding_wf] in *; try reflexivity; contradiction.
      - destruct Hwf as [-> [-> [_ Ht]]].
        destruct Htup as [tb [Hc Hn]]; [exists (i, BVal (SMember tslot tt j) t); split; [now left | reflexivity] |].
        rewrite Hc. rewrite Hn in Hev. destruct (member (map wire_ty tt) j tb) as [mb |]; [| discriminate Hev].
        cbn [option_map] in Hev. inversion Hev as [Hr]. destruct t; cbn [as_bound option_map] in *; try reflexivity; contradiction.
      - destruct (nth_error args slot) as [bs |]; [| discriminate Hev]. cbn [as_bound].
        destruct bs as [| c [| c' bs']]; try discriminate Hev. inversion Hev as [Hr]. reflexivity.
      - destruct Hwf as [-> [-> _]].
        destruct Htup as [tb [Hc Hn]]; [exists (i, BRef (SMember tslot tt j) k); split; [now left | reflexivity] |].
        rewrite Hc. rewrite Hn in Hev. destruct (member (map wire_ty tt) j tb) as [mb |]; [| discriminate Hev].
        cbn [as_bound]. destruct mb as [| c [| c' bs']]; try discriminate Hev. inversion Hev as [Hr]. reflexivity.
      - unfold ev in *. cbn [eval_binding]. rewrite Hev. reflexivity. }
    rewrite E1. rewrite IH.
    - cbn [map rev]. unfold write at 2. cbn [fst]. unfold cell_set. rewrite <- app_assoc. reflexivity.
    - intros ib Hin. apply Hev. now right.
    - intros ib Hin. apply Hwf. now right.
    - intros ib Hin. apply Hne. now right.
    - intros [ib [Hin Hm]]. destruct Htup as [tb [Hc Hn]]; [exists ib; split; [now right | exact Hm] |].
      exists tb. split; [| exact Hn]. rewrite cell_get_set_other; [exact Hc |].
      intro E. apply (Hne (i, b) (or_introl eq_refl)). cbn [fst]. congruence.
  Qed.
End Cells.

Lemma cell_get_app_skip : forall (pre cs : cells) k,
  (forall kv, In kv pre -> fst kv <> k) -> cell_get (pre ++ cs) k = cell_get cs k.
Proof.
  intro pre. induction pre as [| [k' v'] r IH]; intros cs k H; [reflexivity |].
  cbn [app cell_get]. destruct (Nat.eqb_spec k k') as [-> | _].
  - exfalso. apply (H (k', v')); [now left | reflexivity].
  - apply IH. intros kv Hin. apply H. now right.
Qed.

Lemma eval_all_length : forall member args group gi bl rs,
  eval_all member args group gi bl = Some rs -> length rs = length bl.
Proof.
  intros member args group gi bl. induction bl as [| b r IH]; intros rs H; cbn [eval_all] in H.
  - inversion H. reflexivity.
  - destruct (eval_binding member args group gi b); [| discriminate H].
    destruct (eval_all member args group gi r) as [rs' |]; [| discriminate H]. inversion H; subst. cbn. f_equal. now apply IH.
Qed.

Lemma map_nth_seq : forall {A} (l : list A) d, map (fun i => nth i l d) (seq 0 (length l)) = l.
Proof.
  intros A l d. induction l as [| x r IH]; [reflexivity |]. cbn [length seq map nth]. f_equal.
  rewrite <- seq_shift, map_map. exact IH.
Qed.

Lemma read_args_all : forall (cs : cells) (cell : nat -> nat) (rv : nat -> bound) idxs,
  (forall i, In i idxs -> cell_get cs (cell i) = Some (CBound (rv i))) ->
  read_args cs (map cell idxs) = Some (map rv idxs).
Proof.
  intros cs cell rv idxs. induction idxs as [| i r IH]; intro H; [reflexivity |].
  cbn [map read_args]. rewrite (H i (or_introl eq_refl)). rewrite IH; [reflexivity |]. intros j Hj. apply H. now right.
Qed.

Lemma kind_partition : forall b, (is_alone b = true /\ is_txnb b = false /\ is_member b = false) \/
                                 (is_alone b = false /\ is_txnb b = true /\ is_member b = false) \/
                                 (is_alone b = false /\ is_txnb b = false /\ is_member b = true).
Proof. intros [[?|? ? ?] ?|[?|? ? ?] ?|? ?]; cbn; tauto. Qed.

(* THE STORAGE VIEW AGREES WITH THE PLAN, for both flavours and with or without an output cell *)
Theorem glue_equiv_main : forall member fl ho tys args group gi bounds,
  eval_all member args group gi (binding_plan tys) = Some bounds ->
  exists cs, exec_gsteps member args group gi [] (decode_steps fl ho tys) = Some cs /\
             read_args cs (map (arg_cell fl ho) (seq 0 (length tys))) = Some bounds.
Proof.
  intros member fl ho tys args group gi bounds He.
  set (plan := binding_plan tys) in *. set (n := length tys).
  assert (Hpl : length plan = n) by apply binding_plan_length.
  assert (Hbl : length bounds = n) by (rewrite (eval_all_length _ _ _ _ _ _ He); exact Hpl).
  set (rv := fun i => nth i bounds (RBytes [])).
  set (cell := arg_cell fl ho). set (tc := tuple_cell fl ho n).
  set (tslot := tuple_slot tys). set (tt := tupled_types tys).
  set (IP := indexed plan).
  assert (Hev : forall ib, In ib IP -> eval_binding member args group gi (snd ib) = Some (rv (fst ib))).
  { intros [i b] Hin. apply in_indexed in Hin. destruct (eval_all_nth _ _ _ _ _ _ _ _ He Hin) as [r [Hr Er]].
    cbn [fst snd]. rewrite Er. f_equal. unfold rv. symmetry. now apply nth_error_nth. }
  assert (Hwf : forall ib, In ib IP -> binding_wf tslot tt (snd ib)).
  { intros [i b] Hin. apply in_indexed in Hin. pose proof (binding_plan_wf tys) as F. rewrite Forall_forall in F.
    apply F. eapply nth_error_In; eauto. }
  assert (Hlt : forall ib, In ib IP -> fst ib < n).
  { intros [i b] Hin. apply in_indexed in Hin. cbn [fst]. rewrite <- Hpl. apply nth_error_Some. congruence. }
  assert (Hne : forall ib, In ib IP -> cell (fst ib) <> tc).
  { intros ib Hin. apply arg_cell_not_tuple. now apply Hlt. }
  set (P1 := filter (fun ib : nat * binding => is_alone (snd ib)) IP).
  set (P2 := filter (fun ib : nat * binding => is_txnb (snd ib)) IP).
  set (P3 := filter (fun ib : nat * binding => is_member (snd ib)) IP).
  set (write := fun ib : nat * binding => (cell (fst ib), CBound (rv (fst ib)))).
  (* the tuple step *)
  assert (Htb : tt <> [] -> exists tb, nth_error args tslot = Some tb).
  { intro Hne'. destruct (binding_plan_has_member tys Hne') as [b [Hin Hm]]. apply In_nth_error in Hin. destruct Hin as [i Hi].
    assert (HinIP : In (i, b) IP) by (apply in_indexed; exact Hi).
    pose proof (Hev _ HinIP) as E. pose proof (Hwf _ HinIP) as W. cbn [fst snd] in E, W.
    destruct b as [[slot | s ts j] t | [slot | s ts j] k | back k]; cbn in Hm; try discriminate Hm;
      cbn [eval_binding read_source binding_wf] in E, W.
    - destruct W as [-> _]. destruct (nth_error args tslot) as [tb |]; [eauto | discriminate E].
    - destruct W as [-> _]. destruct (nth_error args tslot) as [tb |]; [eauto | discriminate E]. }
  assert (Hmem_tt : forall ib, In ib IP -> is_member (snd ib) = true -> tt <> []).
  { intros [i b] Hin Hm. pose proof (Hwf _ Hin) as W. cbn [snd] in *.
    destruct b as [[slot | s ts j] t | [slot | s ts j] k | back k]; cbn in Hm; try discriminate Hm; cbn [binding_wf] in W; tauto. }
  unfold decode_steps. fold plan n cell tc tt IP P1 P2 P3.
  rewrite exec_gsteps_app.
  (* phase 1 *)
  rewrite (exec_phase member args group gi cell tc tslot tt rv P1 []).
  2: { intros ib Hin. apply Hev. now apply filter_In in Hin. }
  2: { intros ib Hin. apply Hwf. now apply filter_In in Hin. }
  2: { intros ib Hin. apply Hne. now apply filter_In in Hin. }
  2: { intros [ib [Hin Hm]]. apply filter_In in Hin. destruct Hin as [_ Ha].
       destruct (kind_partition (snd ib)) as [[? [? ?]] | [[? [? ?]] | [? [? ?]]]]; congruence. }
  cbv beta iota. rewrite app_nil_r. fold write. rewrite exec_gsteps_app.
  set (TUPW := match tt with [] => [] | _ => match nth_error args tslot with Some tb => [(tc, CTuple tb)] | None => [] end end).
  assert (E2 : exec_gsteps member args group gi (rev (map write P1))
                 match tt with [] => [] | _ :: _ => [GDecodeTuple tc (length (firstn (CUTOFF - 1) (filter not_txn_ty tys)) + 1) tt] end
               = Some (TUPW ++ rev (map write P1))).
  { unfold TUPW. destruct tt as [| t0 tr] eqn:Ett; [reflexivity |].
    destruct Htb as [tb Htb']; [discriminate |]. cbn [exec_gsteps exec_gstep]. fold (tuple_slot tys). fold tslot.
    rewrite Htb'. reflexivity. }
  rewrite E2. cbv beta iota. rewrite exec_gsteps_app.
  assert (Htup_ok : forall pre, (forall kv, In kv pre -> fst kv <> tc) ->
            tt <> [] -> exists tb, cell_get (pre ++ TUPW ++ rev (map write P1)) tc = Some (CTuple tb) /\ nth_error args tslot = Some tb).
  { intros pre Hpre Hne'. destruct (Htb Hne') as [tb Htb']. exists tb. split; [| exact Htb'].
    rewrite cell_get_app_skip by exact Hpre. unfold TUPW. destruct tt; [contradiction |]. rewrite Htb'.
    cbn [app cell_get]. now rewrite Nat.eqb_refl. }
  (* phase 2 *)
  rewrite (exec_phase member args group gi cell tc tslot tt rv P2).
  2: { intros ib Hin. apply Hev. now apply filter_In in Hin. }
  2: { intros ib Hin. apply Hwf. now apply filter_In in Hin. }
  2: { intros ib Hin. apply Hne. now apply filter_In in Hin. }
  2: { intros [ib [Hin Hm]]. apply filter_In in Hin. destruct Hin as [_ Ha].
       destruct (kind_partition (snd ib)) as [[? [? ?]] | [[? [? ?]] | [? [? ?]]]]; congruence. }
  cbv beta iota.
  (* phase 3 *)
  rewrite (exec_phase member args group gi cell tc tslot tt rv P3).
  2: { intros ib Hin. apply Hev. now apply filter_In in Hin. }
  2: { intros ib Hin. apply Hwf. now apply filter_In in Hin. }
  2: { intros ib Hin. apply Hne. now apply filter_In in Hin. }
  2: { intros [ib [Hin Hm]]. apply filter_In in Hin. destruct Hin as [HinIP _].
       apply (Htup_ok (rev (map (fun ib0 : nat * binding => (cell (fst ib0), CBound (rv (fst ib0)))) P2))).
       - intros kv Hkv. apply in_rev in Hkv. apply in_map_iff in Hkv. destruct Hkv as [ib' [<- Hin']].
         cbn [fst]. apply Hne. now apply filter_In in Hin'.
       - eapply Hmem_tt; eauto. }
  eexists. split; [reflexivity |].
  (* reading the argument cells *)
  fold write.
  set (cs3 := rev (map write P3) ++ rev (map write P2) ++ TUPW ++ rev (map write P1)).
  assert (Hentries : forall kv, In kv cs3 -> (exists ib, In ib IP /\ kv = write ib) \/ fst kv = tc).
  { intros kv Hkv. unfold cs3 in Hkv. repeat (apply in_app_or in Hkv; destruct Hkv as [Hkv | Hkv]).
    - left. apply in_rev in Hkv. apply in_map_iff in Hkv. destruct Hkv as [ib [<- Hin]]. exists ib. split; [now apply filter_In in Hin | reflexivity].
    - left. apply in_rev in Hkv. apply in_map_iff in Hkv. destruct Hkv as [ib [<- Hin]]. exists ib. split; [now apply filter_In in Hin | reflexivity].
    - right. unfold TUPW in Hkv. destruct tt; [contradiction |]. destruct (nth_error args tslot); [| contradiction].
      destruct Hkv as [<- | []]. reflexivity.
    - left. apply in_rev in Hkv. apply in_map_iff in Hkv. destruct Hkv as [ib [<- Hin]]. exists ib. split; [now apply filter_In in Hin | reflexivity]. }
  rewrite (read_args_all cs3 cell rv).
  - f_equal. unfold rv. rewrite <- Hbl. apply map_nth_seq.
  - intros i Hi. apply in_seq in Hi. apply cell_get_uniform.
    + destruct (nth_error plan i) as [b |] eqn:Eb; [| apply nth_error_None in Eb; lia].
      assert (HinIP : In (i, b) IP) by (apply in_indexed; exact Eb).
      exists (CBound (rv i)). change (cell i, CBound (rv i)) with (write (i, b)). unfold cs3.
      destruct (kind_partition b) as [[Ha _] | [[_ [Ht _]] | [_ [_ Hm]]]].
      * apply in_or_app. right. apply in_or_app. right. apply in_or_app. right.
        apply -> in_rev. apply in_map. apply filter_In. split; assumption.
      * apply in_or_app. right. apply in_or_app. left.
        apply -> in_rev. apply in_map. apply filter_In. split; assumption.
      * apply in_or_app. left. apply -> in_rev. apply in_map. apply filter_In. split; assumption.
    + intros v' Hv'. destruct (Hentries _ Hv') as [[ib [HinIP Ekv]] | Etc].
      * unfold write in Ekv. inversion Ekv as [[Ec Ev']]. apply arg_cell_inj in Ec. subst i. reflexivity.
      * cbn [fst] in Etc. exfalso. apply (arg_cell_not_tuple fl ho n i); [lia | exact Etc].
Qed.

(* the same, as a statement about the handler's arguments *)
Theorem glue_bounds_plan_main : forall member fl s args group gi bounds,
  eval_all member args group gi (binding_plan (s_params s)) = Some bounds ->
  glue_bounds member fl s args group gi = Some bounds.
Proof.
  intros member fl s args group gi bounds He. unfold glue_bounds.
  destruct (glue_equiv_main member fl (match s_ret s with Some _ => true | None => false end) (s_params s) args group gi bounds He)
    as [cs [E R]].
  rewrite E. exact R.
Qed.

(* END TO END on the model: a call made by the ARC-4 client, anywhere in a group, run through the glue of
   either flavour: the handler is invoked once, on arguments bound as the caller passed them; the call is
   approved iff the handler succeeds (and produces a value of the declared type); its log is the
   handler's log followed, for a non-void method, by exactly one entry: return prefix ++ encoding. *)
Theorem routed_call_main :
  forall (member : list ty -> nat -> bytes -> option bytes),
    (forall ts vs bs j t v,
        arc4_encode (TTuple None ts) (VList vs) = Some bs ->
        nth_error ts j = Some t -> nth_error vs j = Some v ->
        member ts j bs = arc4_encode t v) ->
  forall fl sel sender app_id s args c before me after (h : handler),
    client_encode sel sender app_id s args = Some c ->
    exists bounds,
      args_ok sender app_id c (group_of before c me after) (length before) 0 (combine (s_params s) args) bounds /\
      run_glue member fl s h (c_args c) (group_of before c me after) (group_index_of before c) =
        match h bounds with
        | None => Failed
        | Some (logs, res) =>
            match s_ret s with
            | None => Approved logs
            | Some t =>
                match res with
                | Some r => match arc4_encode t r with
                            | Some e => Approved (logs ++ [return_prefix ++ e])
                            | None => Failed
                            end
                | None => Failed
                end
            end
        end.
Proof.
  intros member Hm fl sel sender app_id s args c before me after h Hc.
  destruct (arg_binding_main member Hm sel sender app_id s args c before me after Hc) as [bounds [He [Hok _]]].
  exists bounds. split; [exact Hok |].
  pose proof (glue_bounds_plan_main member fl s _ _ _ _ He) as Hb. unfold glue_bounds in Hb. unfold run_glue.
  destruct (exec_gsteps member (c_args c) (group_of before c me after) (group_index_of before c) []
              (decode_steps fl (match s_ret s with Some _ => true | None => false end) (s_params s))) as [cs |]; [| discriminate Hb].
  rewrite Hb. destruct (h bounds) as [[logs res] |]; [| reflexivity].
  destruct (s_ret s) as [t |]; [| reflexivity]. destruct res as [r |]; [| reflexivity].
  unfold method_return. destruct (arc4_encode t r); reflexivity.
Qed.
