(* Proofs/ABIEncodeCapComplete.v — on a machine whose concat caps byte strings at l bytes (the AVM: 4096), the
   generated code succeeds whenever the uncapped run succeeds and the final encoding fits the cap: every
   intermediate string (heads so far, tail_holder, member encodings) is a piece of the final encoding. *)
From Coq Require Import List Arith NArith ZArith Ascii String Bool Lia.
From PV Require Import Base.Bytes Base.U64 AVM.Ops ABI.Types ABI.Spec ABI.Encode
  Proofs.ABISpecProof Proofs.ABIEncodeOps Proofs.ABIEncodeTuple Proofs.ABIEncodeCap.
Import ListNotations.
Local Open Scope N_scope.

Definition inv (st : tstate) : Prop := ts_first st = true -> ts_holder st = [].

Lemma Forall_map_inv : forall {A B} (f : A -> B) (P : B -> Prop) l, Forall P (map f l) -> Forall (fun x => P (f x)) l.
Proof.
  intros A B f P l. induction l as [|a r IH]; intro H; [constructor|].
  cbn [map] in H. inversion H as [|x y Hx Hy]; subst. constructor; [exact Hx | exact (IH Hy)].
Qed.

Lemma inv_init : inv (mkTS true [] 0).
Proof. intro H. reflexivity. Qed.

Definition cell_size (c : sval) : N := match c with SB b => blen b | SI _ => 0 end.

Lemma blen_concat_app : forall (ps qs : list bytes), blen (List.concat (ps ++ qs)) = blen (List.concat ps) + blen (List.concat qs).
Proof. intros. rewrite concat_app, blen_app. reflexivity. Qed.

(* ---- one head ---- *)
Lemma run_head_none_inv : forall hls h st b st',
    inv st -> run_head None hls h st = Some (b, st') ->
    inv st' /\ blen (ts_holder st) <= blen (ts_holder st') /\
    (forall l, blen (ts_holder st') <= l -> run_head (Some l) hls h st = Some (b, st')).
Proof.
  intros hls h st b st' Hinv H. destruct h as [vs|v notlast|t v]; cbn [run_head] in *.
  - apply obind_some in H as [ns [Hns H]]. apply option_map_some in H as [x [Hx Heq]]. injection Heq as <- <-.
    split; [exact Hinv|]. split; [lia|]. intros l _. rewrite Hns. cbn [obind]. rewrite Hx. reflexivity.
  - apply obind_some in H as [e [He H]]. apply obind_some in H as [holder' [Hh H]].
    apply obind_some in H as [acc' [Hacc H]]. apply option_map_some in H as [o [Ho Heq]]. injection Heq as -> ->.
    cbn [ts_first ts_holder]. split; [intro Hf; discriminate|].
    assert (Hholder : holder' = ts_holder st ++ e).
    { unfold inv in Hinv. destruct (ts_first st) eqn:Hf; [rewrite (Hinv eq_refl); cbn [app]; congruence | cbn in Hh; congruence]. }
    split; [subst holder'; rewrite blen_app; lia|].
    intros l Hl. rewrite He. cbn [obind].
    assert (Hh' : (if ts_first st then Some e else x_concat (Some l) (ts_holder st) e) = Some holder').
    { destruct (ts_first st) eqn:Hf; [exact Hh|]. rewrite x_concat_within; [rewrite Hholder; reflexivity|]. rewrite <- Hholder. exact Hl. }
    rewrite Hh'. cbn [obind]. rewrite Hacc. cbn [obind]. rewrite Ho. reflexivity.
  - apply option_map_some in H as [x [Hx Heq]]. injection Heq as <- <-.
    split; [exact Hinv|]. split; [lia|]. intros l _. rewrite Hx. reflexivity.
Qed.

Lemma run_heads_none_inv : forall hls hs st parts st',
    inv st -> run_heads None hls hs st = Some (parts, st') ->
    inv st' /\ blen (ts_holder st) <= blen (ts_holder st') /\
    (forall l, blen (ts_holder st') <= l -> run_heads (Some l) hls hs st = Some (parts, st')).
Proof.
  intros hls hs. induction hs as [|h r IH]; intros st parts st' Hinv H; cbn [run_heads] in *.
  - injection H as <- <-. split; [exact Hinv|]. split; [lia|]. intros; reflexivity.
  - apply obind_some in H as [[b st1] [Hb H]]. apply obind_some in H as [[ps st2] [Hr H]].
    cbn [fst snd] in *. injection H as <- <-.
    destruct (run_head_none_inv hls h st b st1 Hinv Hb) as [Hinv1 [Hg1 Hc1]].
    destruct (IH st1 ps st2 Hinv1 Hr) as [Hinv2 [Hg2 Hc2]].
    split; [exact Hinv2|]. split; [lia|].
    intros l Hl. rewrite (Hc1 l ltac:(lia)). cbn [obind snd fst]. rewrite (Hc2 l Hl). reflexivity.
Qed.

(* ---- Concat of the parts ---- *)
Lemma concat_all_within : forall l parts, blen (List.concat parts) <= l ->
    concat_all (Some l) parts = Some (List.concat parts).
Proof.
  intros l [|p r] H; [reflexivity|]. cbn [concat_all List.concat] in *.
  revert p H. induction r as [|x r IH]; intros p H; cbn [fold_left List.concat] in *.
  - rewrite app_nil_r. reflexivity.
  - cbn [obind]. rewrite x_concat_within.
    + rewrite IH; [rewrite app_assoc; reflexivity|]. rewrite <- app_assoc. exact H.
    + rewrite app_assoc, blen_app in H. lia.
Qed.

Lemma encode_tuple_run_within : forall l vals bs,
    encode_tuple_run None vals = Some bs -> blen bs <= l -> encode_tuple_run (Some l) vals = Some bs.
Proof.
  intros l vals bs H Hl. unfold encode_tuple_run in *.
  apply obind_some in H as [[parts st'] [Hr H]]. cbn [fst snd] in H.
  rewrite concat_all_none in H. injection H as <-.
  destruct (run_heads_none_inv _ _ _ _ _ inv_init Hr) as [Hinv [_ Hc]].
  assert (Hh : blen (ts_holder st') <= l).
  { destruct (ts_first st') eqn:Hf; [rewrite (Hinv Hf); cbn; lia|].
    rewrite blen_concat_app in Hl. cbn [List.concat] in Hl. rewrite app_nil_r in Hl. lia. }
  rewrite (Hc l Hh). cbn [obind fst snd]. apply concat_all_within. exact Hl.
Qed.

Lemma array_set_run_within : forall l d vals bs,
    array_set_run None d vals = Some bs -> blen bs <= l -> array_set_run (Some l) d vals = Some bs.
Proof.
  intros l d vals bs H Hl. unfold array_set_run in *. destruct d; [|exact (encode_tuple_run_within l vals bs H Hl)].
  apply obind_some in H as [p [Hp H]]. rewrite Hp. cbn [obind].
  apply obind_some in H as [body [Hb H]]. cbn [x_concat] in H. injection H as <-.
  rewrite blen_app in Hl. rewrite (encode_tuple_run_within l vals body Hb ltac:(lia)). cbn [obind].
  apply x_concat_within. rewrite blen_app. exact Hl.
Qed.

(* ---- every member cell is a piece of the result ---- *)
Lemma elem_encode_bytes_cell : forall t b x, elem_encode t (SB b) = Some x -> x = b.
Proof. intros t b x H. destruct t; cbn [elem_encode sv_int sv_bytes obind] in H; congruence. Qed.

Lemma sv_ints_no_bytes : forall vs ns, sv_ints vs = Some ns -> Forall (fun c => cell_size c = 0) vs.
Proof.
  induction vs as [|v r IH]; intros ns H; [constructor|]. cbn [sv_ints] in H.
  apply obind_some in H as [n [Hn H]]. apply option_map_some in H as [ns' [H _]].
  constructor; [destruct v; [reflexivity | discriminate] | exact (IH _ H)].
Qed.

Lemma run_heads_flush_cells : forall hls pend hs st parts st',
    run_heads None hls (flush pend ++ hs) st = Some (parts, st') -> Forall (fun c => cell_size c = 0) pend.
Proof.
  intros hls pend hs st parts st' H. destruct pend as [|p r]; [constructor|].
  change (flush (p :: r)) with [HBools (rev (p :: r))] in H. cbn [app run_heads run_head] in H.
  apply obind_some in H as [[b st1] [Hb _]]. apply obind_some in Hb as [ns [Hns _]].
  apply sv_ints_no_bytes in Hns. apply Forall_rev in Hns. rewrite rev_involutive in Hns. exact Hns.
Qed.

Lemma run_heads_app_split : forall hls h1 h2 st parts st',
    run_heads None hls (h1 ++ h2) st = Some (parts, st') ->
    exists p1 st1 p2, run_heads None hls h1 st = Some (p1, st1) /\ run_heads None hls h2 st1 = Some (p2, st') /\ parts = p1 ++ p2.
Proof.
  intros hls h1. induction h1 as [|h r IH]; intros h2 st parts st' H.
  - exists [], st, parts. repeat split; assumption.
  - cbn [app run_heads] in H. apply obind_some in H as [[b st0] [Hb H]]. apply obind_some in H as [[ps st2] [Hr H]].
    cbn [fst snd] in *. injection H as <- <-.
    destruct (IH h2 st0 ps st2 Hr) as [p1 [st1 [p2 [H1 [H2 ->]]]]].
    exists (b :: p1), st1, p2. cbn [run_heads]. rewrite Hb. cbn [obind fst snd]. rewrite H1. cbn [obind fst snd].
    repeat split; assumption.
Qed.

Lemma member_cells_bounded : forall hls vals pend st parts st',
    inv st -> run_heads None hls (fst (plan' vals pend)) st = Some (parts, st') ->
    Forall (fun c => cell_size c <= blen (List.concat parts) + blen (ts_holder st')) (pend ++ map snd vals).
Proof.
  intros hls vals. induction vals as [|m r IH]; intros pend st parts st' Hinv H.
  - cbn [plan' fst map] in *. rewrite app_nil_r.
    rewrite <- (app_nil_r (flush pend)) in H. apply run_heads_flush_cells in H.
    eapply Forall_impl; [|exact H]. intros c Hc. cbn beta in Hc. rewrite Hc. lia.
  - cbn [plan'] in H. destruct (mem_is_bool m) eqn:Hb.
    + specialize (IH (snd m :: pend) st parts st' Hinv H). cbn [map].
      apply Forall_app in IH as [IH1 IH2]. inversion IH1 as [|x y Hx Hy]; subst.
      apply Forall_app. split; [exact Hy|]. constructor; assumption.
    + cbn [fst] in H. pose proof (run_heads_flush_cells _ _ _ _ _ _ H) as Hpend.
      apply run_heads_app_split in H as [p1 [st1 [p2 [H1 [H2 ->]]]]].
      assert (Hst1 : st1 = st).
      { destruct pend as [|p q]; [cbn in H1; congruence|].
        change (flush (p :: q)) with [HBools (rev (p :: q))] in H1. cbn [run_heads run_head] in H1.
        apply obind_some in H1 as [[b0 s0] [Hb0 H1]]. apply obind_some in Hb0 as [ns [_ Hb0]].
        apply option_map_some in Hb0 as [x [_ Heq]]. injection Heq as _ <-. cbn [obind fst snd] in H1. congruence. }
      subst st1. cbn [run_heads] in H2.
      apply obind_some in H2 as [[b st2] [Hh H2]]. apply obind_some in H2 as [[ps st3] [Hr H2]].
      cbn [fst snd] in *. injection H2 as <- <-.
      destruct (run_head_none_inv hls _ st b st2 Hinv Hh) as [Hinv2 [Hg2 _]].
      destruct (run_heads_none_inv hls _ st2 ps st3 Hinv2 Hr) as [_ [Hg3 _]].
      specialize (IH [] st2 ps st3 Hinv2 Hr). cbn [app] in IH.
      rewrite blen_concat_app. cbn [List.concat]. rewrite blen_app.
      apply Forall_app. split.
      * eapply Forall_impl; [|exact Hpend]. intros c Hc. cbn beta in Hc. rewrite Hc. lia.
      * cbn [map]. constructor.
        -- (* this member's own cell *)
           unfold dyn_or_static in Hh. destruct (mem_is_dyn m); cbn [run_head] in Hh.
           ++ apply obind_some in Hh as [e [He Hh]]. apply obind_some in Hh as [holder' [Hho Hh]].
              apply obind_some in Hh as [acc' [_ Hh]]. apply option_map_some in Hh as [o [_ Heq]]. injection Heq as _ ->.
              cbn [ts_holder] in Hg3.
              assert (Hholder : holder' = ts_holder st ++ e).
              { unfold inv in Hinv. destruct (ts_first st) eqn:Hf; [rewrite (Hinv eq_refl); cbn [app]; congruence | cbn in Hho; congruence]. }
              destruct (snd m) as [n|b0]; [discriminate|]. cbn [sv_bytes] in He. injection He as ->.
              cbn [cell_size]. subst holder'. rewrite blen_app in Hg3. lia.
           ++ apply option_map_some in Hh as [x [Hx Heq]]. injection Heq as <- _.
              destruct (snd m) as [n|b0]; [cbn [cell_size]; lia|].
              apply elem_encode_bytes_cell in Hx. subst b. cbn [cell_size]. lia.
        -- eapply Forall_impl; [|exact IH]. intros c Hc. cbn beta in Hc. lia.
Qed.

Lemma encode_tuple_cells_bounded : forall vals bs, encode_tuple_run None vals = Some bs ->
    Forall (fun m => cell_size (snd m) <= blen bs) vals.
Proof.
  intros vals bs H. unfold encode_tuple_run in H. rewrite plan_eq in H.
  apply obind_some in H as [[parts st'] [Hr H]]. cbn [fst snd] in H. rewrite concat_all_none in H. injection H as <-.
  pose proof (member_cells_bounded _ vals [] _ parts st' inv_init Hr) as HB. cbn [app] in HB.
  destruct (run_heads_none_inv _ _ _ _ _ inv_init Hr) as [Hinv _].
  apply Forall_map_inv in HB. eapply Forall_impl; [|exact HB]. intros m Hm. cbn beta in Hm.
  destruct (ts_first st') eqn:Hf.
  - rewrite (Hinv Hf) in Hm. cbn in Hm. lia.
  - rewrite blen_concat_app. cbn [List.concat]. rewrite app_nil_r. exact Hm.
Qed.

Lemma array_cells_bounded : forall d vals bs, array_set_run None d vals = Some bs ->
    Forall (fun m => cell_size (snd m) <= blen bs) vals.
Proof.
  intros d vals bs H. unfold array_set_run in H. destruct d; [|exact (encode_tuple_cells_bounded vals bs H)].
  apply obind_some in H as [p [_ H]]. apply obind_some in H as [body [Hb H]]. cbn [x_concat] in H. injection H as <-.
  eapply Forall_impl; [|exact (encode_tuple_cells_bounded vals body Hb)]. intros m Hm. cbn beta in Hm.
  rewrite blen_app. lia.
Qed.

(* ---- run_set ---- *)
Lemma map_all_within : forall {A} (f g : A -> option sval) (e : ty) l ms cs,
    Forall (fun a => forall c, f a = Some c -> cell_size c <= l -> g a = Some c) ms ->
    map_all f ms = Some cs -> Forall (fun c => cell_size c <= l) cs -> map_all g ms = Some cs.
Proof.
  intros A f g e l ms. induction ms as [|a r IH]; intros cs HF H Hb; [exact H|]. cbn [map_all] in *.
  inversion HF as [|x y Ha Hr]; subst.
  apply obind_some in H as [c [Hc H]]. apply option_map_some in H as [cs' [H ->]].
  inversion Hb as [|x y Hc1 Hc2]; subst.
  rewrite (Ha c Hc Hc1). cbn [obind]. rewrite (IH cs' Hr H Hc2). reflexivity.
Qed.

Lemma seq_run_within : forall l d e (f g : src -> option sval) ms c,
    Forall (fun a => forall c, f a = Some c -> cell_size c <= l -> g a = Some c) ms ->
    seq_run None d e f ms = Some c -> cell_size c <= l -> seq_run (Some l) d e g ms = Some c.
Proof.
  intros l d e f g ms c HF H Hl. unfold seq_run in *.
  apply obind_some in H as [vs [Hvs H]]. apply option_map_some in H as [b [H ->]]. cbn [cell_size] in Hl.
  pose proof (array_cells_bounded d _ b H) as HB. apply Forall_map_inv in HB. cbn [snd] in HB.
  assert (HB' : Forall (fun c => cell_size c <= l) vs) by (eapply Forall_impl; [|exact HB]; intros x Hx; cbn beta in Hx; lia).
  rewrite (map_all_within f g e l ms vs HF Hvs HB'). cbn [obind].
  rewrite (array_set_run_within l d _ b H Hl). reflexivity.
Qed.

Lemma zip_all_within : forall l (fs gs : list (src -> option sval)) ms cs,
    Forall2 (fun f g => forall a c, f a = Some c -> cell_size c <= l -> g a = Some c) fs gs ->
    zip_all fs ms = Some cs -> Forall (fun c => cell_size c <= l) cs -> zip_all gs ms = Some cs.
Proof.
  intros l fs gs ms cs HF. revert ms cs. induction HF as [|f g fr gr Hfg _ IH]; intros [|a r] cs H Hb;
    cbn [zip_all] in *; try discriminate; [exact H|].
  apply obind_some in H as [c [Hc H]]. apply option_map_some in H as [cs' [H ->]].
  inversion Hb as [|x y Hc1 Hc2]; subst.
  rewrite (Hfg a c Hc Hc1). cbn [obind]. rewrite (IH r cs' H Hc2). reflexivity.
Qed.

Lemma combine_snd_forall : forall {A B} (P : B -> Prop) (l1 : list A) (l2 : list B),
    List.length l2 = List.length l1 -> Forall (fun m => P (snd m)) (combine l1 l2) -> Forall P l2.
Proof.
  intros A B P l1. induction l1 as [|a r IH]; intros [|b r2] Hlen H; try discriminate; [constructor|].
  cbn [combine] in H. inversion H as [|x y Hx Hy]; subst. constructor; [exact Hx|].
  apply IH; [injection Hlen as Hlen; exact Hlen | exact Hy].
Qed.

Lemma zip_all_len : forall {A C} (fs : list (A -> option C)) l cs, zip_all fs l = Some cs -> List.length cs = List.length fs.
Proof.
  intros A C fs. induction fs as [|f fr IH]; intros [|a r] cs H; cbn [zip_all] in H; try discriminate.
  - injection H as <-. reflexivity.
  - apply obind_some in H as [c [_ H]]. apply option_map_some in H as [cs' [H ->]]. cbn [List.length]. rewrite (IH _ _ H). reflexivity.
Qed.

Theorem run_set_within : forall l t s c,
    run_set None t s = Some c -> cell_size c <= l -> run_set (Some l) t s = Some c.
Proof.
  intros l. induction t as [| | n | | | e n IH | e IH | nm ts IH | n | | k | k] using ty_ind'; intros s c H Hl;
    cbn [run_set] in *; try exact H; try discriminate.
  - destruct (uncopy s); try exact H.
    eapply seq_run_within; [|exact H|exact Hl]. apply Forall_forall. intros a _ c0 Hc _. exact Hc.
  - destruct (uncopy s); try exact H.
    + apply option_map_some in H as [b [H ->]]. cbn [cell_size] in Hl. unfold store_encoded_expr_byte_string in *.
      apply obind_some in H as [p [Hp H]]. rewrite Hp. cbn [obind x_concat] in *. injection H as <-.
      apply N.leb_le in Hl. rewrite Hl. reflexivity.
    + eapply seq_run_within; [|exact H|exact Hl]. apply Forall_forall. intros a _ c0 Hc _. exact Hc.
  - destruct (uncopy s); try exact H.
    eapply seq_run_within; [|exact H|exact Hl]. apply Forall_forall. intros a _ c0 Hc Hs. apply IH; assumption.
  - destruct (uncopy s); try exact H.
    eapply seq_run_within; [|exact H|exact Hl]. apply Forall_forall. intros a _ c0 Hc Hs. apply IH; assumption.
  - destruct (uncopy s) as [z|b|k|bs0|bs0|s'|ms]; try exact H.
    apply obind_some in H as [vs [Hvs H]]. apply option_map_some in H as [b [H ->]]. cbn [cell_size] in Hl.
    pose proof (zip_all_len _ _ _ Hvs) as Hlen. rewrite map_length in Hlen.
    pose proof (encode_tuple_cells_bounded _ b H) as HB.
    apply (combine_snd_forall (fun c => cell_size c <= blen b) ts vs Hlen) in HB.
    assert (HB' : Forall (fun c => cell_size c <= l) vs) by (eapply Forall_impl; [|exact HB]; intros x Hx; cbn beta in Hx; lia).
    assert (Hz : zip_all (map (fun x => run_set (Some l) x) ts) ms = Some vs).
    { eapply zip_all_within; [|exact Hvs|exact HB']. clear -IH.
      induction IH as [|x r Hx _ IHr]; cbn [map]; constructor; [|exact IHr]. intros a c0 Hc Hs. apply Hx; assumption. }
    rewrite Hz. cbn [obind]. rewrite (encode_tuple_run_within l _ b H Hl). reflexivity.
  - destruct (uncopy s); try exact H.
    eapply seq_run_within; [|exact H|exact Hl]. apply Forall_forall. intros a _ c0 Hc _. exact Hc.
  - destruct (uncopy s); try exact H.
    + apply option_map_some in H as [b [H ->]]. cbn [cell_size] in Hl. unfold store_encoded_expr_byte_string in *.
      apply obind_some in H as [p [Hp H]]. rewrite Hp. cbn [obind x_concat] in *. injection H as <-.
      apply N.leb_le in Hl. rewrite Hl. reflexivity.
    + eapply seq_run_within; [|exact H|exact Hl]. apply Forall_forall. intros a _ c0 Hc _. exact Hc.
Qed.

Lemma elem_encode_size : forall t c bs, elem_encode t c = Some bs -> cell_size c <= blen bs.
Proof.
  intros t c bs H. destruct c as [n|b]; [cbn; lia|]. apply elem_encode_bytes_cell in H. subst. cbn. lia.
Qed.

(* the capped machine produces the same bytes whenever they fit the cap *)
Theorem capped_complete : forall l t s bs,
    set_outcome None t s = OBytes bs -> blen bs <= l -> set_outcome (Some l) t s = OBytes bs.
Proof.
  intros l t s bs H Hl. unfold set_outcome in *. destruct (set_ok t s); [|discriminate].
  destruct (run_set None t s) as [c|] eqn:Hr; cbn [obind] in H; [|discriminate].
  destruct (elem_encode t c) as [b|] eqn:He; [|discriminate]. injection H as ->.
  rewrite (run_set_within l t s c Hr); [cbn [obind]; rewrite He; reflexivity|].
  pose proof (elem_encode_size t c bs He). lia.
Qed.

(* and fails or is rejected otherwise: the outcome on the capped machine, completely *)
Theorem capped_outcome : forall l t s,
    set_outcome (Some l) t s =
    match set_outcome None t s with
    | OBytes bs => if blen bs <=? l then OBytes bs else set_outcome (Some l) t s
    | OReject => OReject
    | OFail => OFail
    end.
Proof.
  intros l t s. destruct (set_outcome None t s) as [bs| |] eqn:H.
  - destruct (N.leb_spec (blen bs) l) as [Hl|Hl]; [exact (capped_complete l t s bs H Hl) | reflexivity].
  - exact (proj2 (proj2 (capped_outcome_sound l t s)) H).
  - destruct (set_outcome (Some l) t s) as [bs| |] eqn:Hc; [| |reflexivity].
    + rewrite (proj1 (capped_outcome_sound l t s) bs Hc) in H. discriminate.
    + rewrite (proj1 (proj2 (capped_outcome_sound l t s)) Hc) in H. discriminate.
Qed.

(* ---- end to end on the capped machine (l = 4096: the AVM) ---- *)
From PV Require Import Proofs.ABIEncodeSet.

Theorem set_encodes_per_arc4_capped : forall l t s v,
    pyteal_ty t = true -> src_wf s = true -> denote t s = Some v ->
    match arc4_encode t v with
    | Some bs =>
        if blen bs <=? l then set_outcome (Some l) t s = OBytes bs
        else set_outcome (Some l) t s = OBytes bs \/ set_outcome (Some l) t s = OFail
    | None => set_outcome (Some l) t s = if set_ok t s then OFail else OReject
    end.
Proof.
  intros l t s v Hty Hwf Hv. pose proof (set_encodes_per_arc4 t s v Hty Hwf Hv) as Hu.
  pose proof (capped_outcome l t s) as Hc. destruct (capped_outcome_sound l t s) as [Hs1 Hs2].
  destruct (arc4_encode t v) as [bs|].
  - rewrite Hu in Hc. destruct (blen bs <=? l); [exact Hc|].
    destruct (set_outcome (Some l) t s) as [b| |] eqn:Ho.
    + left. pose proof (Hs1 b eq_refl) as Hb. rewrite Hu in Hb. symmetry. exact Hb.
    + exfalso. pose proof (proj1 Hs2 eq_refl) as Hb. rewrite Hu in Hb. discriminate.
    + right. reflexivity.
  - rewrite Hu in Hc. destruct (set_ok t s); exact Hc.
Qed.
