(* Proofs/ABITypesProof.v — decidable equality on ABI types. *)
From Coq Require Import List NArith String Bool Lia.
From PV Require Import ABI.Types.
Import ListNotations.

Lemma txn_kind_eqb_eq : forall a b, txn_kind_eqb a b = true <-> a = b.
Proof. intros a b; split; [destruct a, b; simpl; congruence | intros ->; destruct b; reflexivity]. Qed.

Lemma ref_kind_eqb_eq : forall a b, ref_kind_eqb a b = true <-> a = b.
Proof. intros a b; split; [destruct a, b; simpl; congruence | intros ->; destruct b; reflexivity]. Qed.

Lemma list_eqb_eq : forall {A} (f : A -> A -> bool),
    (forall x y, f x y = true <-> x = y) -> forall l1 l2, list_eqb f l1 l2 = true <-> l1 = l2.
Proof.
  intros A f Hf l1; induction l1 as [|x r IH]; intros [|y r2]; simpl; split; intro H;
    try reflexivity; try discriminate.
  - apply andb_true_iff in H as [H1 H2]. apply Hf in H1. apply IH in H2. congruence.
  - inversion H; subst. apply andb_true_iff; split; [apply Hf; reflexivity | apply IH; reflexivity].
Qed.

Lemma nt_info_eqb_eq : forall a b, nt_info_eqb a b = true <-> a = b.
Proof.
  intros [c1 n1] [c2 n2]; unfold nt_info_eqb; simpl; split; intro H.
  - apply andb_true_iff in H as [H1 H2]. apply N.eqb_eq in H1.
    apply (list_eqb_eq String.eqb String.eqb_eq) in H2. congruence.
  - inversion H; subst. apply andb_true_iff; split; [apply N.eqb_refl |].
    apply (list_eqb_eq String.eqb String.eqb_eq); reflexivity.
Qed.

Lemma option_eqb_eq : forall {A} (f : A -> A -> bool),
    (forall x y, f x y = true <-> x = y) -> forall a b, option_eqb f a b = true <-> a = b.
Proof.
  intros A f Hf [x|] [y|]; simpl; split; intro H; try reflexivity; try discriminate.
  - apply Hf in H; congruence.
  - inversion H; subst; apply Hf; reflexivity.
Qed.

Lemma ty_eqb_refl : forall t, ty_eqb t t = true.
Proof.
  induction t as [| | n | | | e n IH | e IH | nm ts IH | n | | k | k] using ty_ind'; simpl;
    try reflexivity; try apply N.eqb_refl.
  - rewrite IH, N.eqb_refl; reflexivity.
  - exact IH.
  - apply andb_true_iff; split.
    + apply (option_eqb_eq nt_info_eqb nt_info_eqb_eq); reflexivity.
    + induction IH as [|x r Hx _ IHr]; [reflexivity|]. rewrite Hx; exact IHr.
  - apply txn_kind_eqb_eq; reflexivity.
  - apply ref_kind_eqb_eq; reflexivity.
Qed.

Lemma ty_eqb_sound : forall a b, ty_eqb a b = true -> a = b.
Proof.
  induction a as [| | n | | | e n IH | e IH | nm ts IH | n | | k | k] using ty_ind';
    intros b H; destruct b; simpl in H; try discriminate; try reflexivity.
  - apply N.eqb_eq in H; congruence.
  - apply andb_true_iff in H as [H1 H2]. apply IH in H1. apply N.eqb_eq in H2. congruence.
  - apply IH in H; congruence.
  - apply andb_true_iff in H as [H1 H2].
    apply (option_eqb_eq nt_info_eqb nt_info_eqb_eq) in H1. subst.
    f_equal. revert elems H2. induction IH as [|x r Hx _ IHr]; intros [|y r2] H2; try discriminate; try reflexivity.
    apply andb_true_iff in H2 as [Ha Hb]. apply Hx in Ha. apply IHr in Hb. congruence.
  - apply N.eqb_eq in H; congruence.
  - apply txn_kind_eqb_eq in H; congruence.
  - apply ref_kind_eqb_eq in H; congruence.
Qed.

Theorem ty_eqb_eq : forall a b, ty_eqb a b = true <-> a = b.
Proof. intros a b; split; [apply ty_eqb_sound | intros ->; apply ty_eqb_refl]. Qed.

Lemma ty_eq_dec : forall a b : ty, {a = b} + {a <> b}.
Proof.
  intros a b. destruct (ty_eqb a b) eqn:E.
  - left; apply ty_eqb_eq; exact E.
  - right; intro H; apply ty_eqb_eq in H; congruence.
Defined.
