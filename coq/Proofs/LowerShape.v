(* Proofs/LowerShape.v — what the NormalizeBlocks theorems need to know about the graph that lowering
   produces (Comp/Lower.v), for ALL recipes:
     closed     every edge points to an allocated id,
     cond_full  every conditional block has both branches,
     no incoming lists are written,
     the start of a fragment is a fresh id, and NO block has an edge to it unless the fragment is
     "headed by a loop" ([head_loop]: following first operands / conditions / For-initialisers from
     the root one reaches a While) — the root of a routine never is (compile_one wraps a loop in Seq).
   One induction over the recipe with a four-part postcondition; no dependency on the frame lemmas. *)
From Coq Require Import List Arith NArith String Bool Lia.
From PV Require Import Base.Bytes AVM.Syntax Src.Expr Comp.Blocks Comp.WideRatio Comp.Lower
  Comp.Passes Comp.SimCheck Proofs.LowerFrame.
Import ListNotations.

(* where the start block of a fragment comes from *)
Fixpoint head_loop (e : expr) : bool :=
  match e with
  | EWhile _ _ => true
  | EFor ini _ _ _ => head_loop ini
  | EOp _ _ _ (a :: _) | ENary _ _ (a :: _) | EMulti _ _ (a :: _) _ | ECall _ _ (a :: _) => head_loop a
  | EIf c _ _ => head_loop c
  | ECond ((c, _) :: _) => head_loop c
  | EAssert [c] _ => head_loop c
  | EReturn (Some x) | EExit x => head_loop x
  | _ => false
  end.

Definition opt_lt (o : option id) (n : nat) : Prop := match o with Some x => x < n | None => True end.

Definition closed (g : graph) : Prop :=
  forall i b x, g_blk g i = Some b -> In x (outgoing b) -> x < g_next g.

Definition no_edge_to (g : graph) (s : id) : Prop :=
  forall i b, g_blk g i = Some b -> ~ In s (outgoing b).

Definition good (g : graph) : Prop := closed g /\ cond_full g /\ forall x, g_inc g x = [].

Definition fpost (g : graph) (s : id) (g' : graph) (hl : bool) : Prop :=
  good g' /\ g_next g <= s /\ s < g_next g' /\ (hl = false -> no_edge_to g' s).

Lemma opt_lt_mono o n m : opt_lt o n -> n <= m -> opt_lt o m.
Proof. destruct o; cbn; [lia|auto]. Qed.

Lemma simple_edges o k n : opt_lt k n -> forall x, In x (outgoing (BSimple o k)) -> x < n.
Proof. destruct k as [y|]; cbn; [intros H x [E|[]]; subst; exact H|intros _ x []]. Qed.

Lemma cond_edges o t f n : t < n -> f < n -> forall x, In x (outgoing (BCond o (Some t) (Some f))) -> x < n.
Proof. cbn. intros H1 H2 x [E|[E|[]]]; subst; assumption. Qed.

Lemma full_cond o t f : full_b (BCond o (Some t) (Some f)).
Proof. split; discriminate. Qed.

Lemma good_empty : good empty_graph.
Proof. repeat split; intros; cbn in *; try discriminate. Qed.

(* ---- the three graph operations ---- *)
Lemma add_block_good g b i g1 :
  good g -> full_b b -> (forall x, In x (outgoing b) -> x < g_next g) ->
  add_block g b = (i, g1) ->
  i = g_next g /\ g_next g1 = S i /\ good g1 /\ no_edge_to g1 i.
Proof.
  intros (C & F & Z) Fb Eb E. unfold add_block in E. inversion E; subst; clear E. cbn [g_next g_blk g_inc].
  split; [reflexivity|]. split; [reflexivity|]. split; [repeat split|].
  - intros j bj x Ej Ix. cbn [g_blk g_next] in *. unfold upd in Ej.
    destruct (Nat.eqb_spec j (g_next g)).
    + injection Ej as Ej. subst bj. specialize (Eb x Ix). lia.
    + specialize (C j bj x Ej Ix). lia.
  - intros j bj Ej. cbn [g_blk] in Ej. unfold upd in Ej.
    destruct (Nat.eqb_spec j (g_next g)); [injection Ej as Ej; subst; exact Fb|eapply F; eauto].
  - exact Z.
  - intros j bj Ej Ix. cbn [g_blk] in Ej. unfold upd in Ej.
    destruct (Nat.eqb_spec j (g_next g)).
    + injection Ej as Ej. subst bj. specialize (Eb _ Ix). lia.
    + specialize (C j bj _ Ej Ix). lia.
Qed.

Lemma reserve_good g i g1 :
  good g -> reserve g = (i, g1) -> i = g_next g /\ g_next g1 = S i /\ good g1.
Proof.
  intros (C & F & Z) E. unfold reserve in E. inversion E; subst; clear E. cbn [g_next].
  split; [reflexivity|]. split; [reflexivity|]. repeat split.
  - intros j bj x Ej Ix. cbn [g_blk g_next] in *. specialize (C j bj x Ej Ix). lia.
  - exact F.
  - exact Z.
Qed.

Lemma define_good g i b :
  good g -> full_b b -> (forall x, In x (outgoing b) -> x < g_next g) ->
  good (define g i b) /\ g_next (define g i b) = g_next g.
Proof.
  intros (C & F & Z) Fb Eb. unfold define. cbn [g_next]. split; [|reflexivity]. repeat split.
  - intros j bj x Ej Ix. cbn [g_blk g_next] in *. unfold upd in Ej.
    destruct (Nat.eqb_spec j i); [injection Ej as Ej; subst bj; auto|eapply C; eauto].
  - intros j bj Ej. cbn [g_blk] in Ej. unfold upd in Ej.
    destruct (Nat.eqb_spec j i); [injection Ej as Ej; subst; exact Fb|eapply F; eauto].
  - exact Z.
Qed.

Lemma define_no_edge g i b s :
  no_edge_to g s -> ~ In s (outgoing b) -> no_edge_to (define g i b) s.
Proof.
  intros N Nb j bj Ej. unfold define in Ej. cbn [g_blk] in Ej. unfold upd in Ej.
  destruct (Nat.eqb_spec j i); [injection Ej as Ej; subst; exact Nb|eapply N; eauto].
Qed.

Arguments add_block : simpl never.
Arguments reserve : simpl never.
Arguments define : simpl never.

(* one add_block step with a simple block, packaged for the proofs below *)
Lemma add_simple g o k i g1 :
  good g -> opt_lt k (g_next g) -> add_block g (BSimple o k) = (i, g1) ->
  i = g_next g /\ g_next g1 = S i /\ good g1 /\ no_edge_to g1 i.
Proof. intros G K E. eapply add_block_good; eauto; [exact Logic.I|apply simple_edges; exact K]. Qed.

Lemma add_cond g o t f i g1 :
  good g -> t < g_next g -> f < g_next g -> add_block g (BCond o (Some t) (Some f)) = (i, g1) ->
  i = g_next g /\ g_next g1 = S i /\ good g1 /\ no_edge_to g1 i.
Proof.
  intros G T F E. eapply add_block_good; eauto; [split; discriminate|apply cond_edges; assumption].
Qed.

Ltac fin :=
  try unfold fpost;
  repeat (match goal with
          | |- good _ => eassumption
          | |- _ /\ _ => split
          end); auto; try lia.

Tactic Notation "use" constr(H) "as" simple_intropattern(p) :=
  let X := fresh "X" in pose proof H as X; cbn [fst snd] in X; destruct X as p.

(* =========================================================================================== *)
Section Helpers.
  Variable lw : expr -> option id -> graph -> (id * id) * graph.
  Variable pre : graph -> Prop.
  Hypothesis pre_mono : forall g g', pre g -> g_next g <= g_next g' -> pre g'.

  Definition lw_ok (e : expr) : Prop :=
    forall k g r, good g -> pre g -> opt_lt k (g_next g) -> lw e k g = r ->
      fpost g (fst (fst r)) (snd r) (head_loop e).

  (* a right-to-left chain: the start is the start of the FIRST element *)
  Definition chain_post (g : graph) (k ks : option id) (g' : graph) (es : list expr) : Prop :=
    good g' /\ g_next g <= g_next g' /\ opt_lt ks (g_next g') /\
    match es with
    | [] => ks = k /\ g' = g
    | e :: _ => exists s, ks = Some s /\ g_next g <= s /\ (head_loop e = false -> no_edge_to g' s)
    end.

  Lemma lower_chain_ok es : Forall lw_ok es ->
    forall k g r, good g -> pre g -> opt_lt k (g_next g) ->
      lower_chain lw es k g = r -> chain_post g k (fst (fst r)) (snd r) es.
  Proof.
    induction 1 as [|e t He Ht IH]; intros k g r G P K E; cbn [lower_chain] in E; revert E.
    - intros E; subst r; cbn [fst snd]. hnf. fin.
    - destruct (lower_chain lw t k g) as [[kt endt'] g1] eqn:E1.
      destruct (lw e kt g1) as [[s en] g2] eqn:E2. intros E; subst r; cbn [fst snd].
      use (IH _ _ _ G P K E1) as (G1 & M1 & K1 & _).
      use (He _ _ _ G1 (pre_mono _ _ P M1) K1 E2) as (G2 & L2 & U2 & N2).
      hnf. split; [exact G2|]. split; [lia|]. split; [exact U2|]. eexists. split; [reflexivity|]. split; [lia|exact N2].
  Qed.

  Lemma lower_nary_rest_ok op l : Forall lw_ok l ->
    forall k g r, good g -> pre g -> opt_lt k (g_next g) ->
      lower_nary_rest lw op l k g = r -> chain_post g k (fst (fst r)) (snd r) l.
  Proof.
    induction 1 as [|e t He Ht IH]; intros k g r G P K E; cbn [lower_nary_rest] in E; revert E.
    - intros E; subst r; cbn [fst snd]. hnf. fin.
    - destruct (lower_nary_rest lw op t k g) as [[kt endt'] g1] eqn:E1.
      destruct (add_block g1 (BSimple [I op []] kt)) as [opb g2] eqn:E2.
      destruct (lw e (Some opb) g2) as [[s en] g3] eqn:E3. intros E; subst r; cbn [fst snd].
      use (IH _ _ _ G P K E1) as (G1 & M1 & K1 & _).
      destruct (add_simple _ _ _ _ _ G1 K1 E2) as (I2 & X2 & G2 & _).
      assert (P2 : pre g2) by (apply (pre_mono g); [exact P|lia]).
      assert (K2 : opt_lt (Some opb) (g_next g2)) by (cbn; lia).
      use (He _ _ _ G2 P2 K2 E3) as (G3 & L3 & U3 & N3).
      hnf. split; [exact G3|]. split; [lia|]. split; [exact U3|]. eexists. split; [reflexivity|]. split; [lia|exact N3].
  Qed.

  Lemma lower_wide_rest_ok l : Forall lw_ok l ->
    forall k g r, good g -> pre g -> opt_lt k (g_next g) ->
      lower_wide_rest lw l k g = r -> chain_post g k (fst (fst r)) (snd r) l.
  Proof.
    induction 1 as [|e t He Ht IH]; intros k g r G P K E; cbn [lower_wide_rest] in E; revert E.
    - intros E; subst r; cbn [fst snd]. hnf. fin.
    - destruct (lower_wide_rest lw t k g) as [[kt endt'] g1] eqn:E1.
      destruct (add_block g1 (BSimple mul_step_ops kt)) as [mb g2] eqn:E2.
      destruct (lw e (Some mb) g2) as [[s en] g3] eqn:E3. intros E; subst r; cbn [fst snd].
      use (IH _ _ _ G P K E1) as (G1 & M1 & K1 & _).
      destruct (add_simple _ _ _ _ _ G1 K1 E2) as (I2 & X2 & G2 & _).
      assert (P2 : pre g2) by (apply (pre_mono g); [exact P|lia]).
      assert (K2 : opt_lt (Some mb) (g_next g2)) by (cbn; lia).
      use (He _ _ _ G2 P2 K2 E3) as (G3 & L3 & U3 & N3).
      hnf. split; [exact G3|]. split; [lia|]. split; [exact U3|]. eexists. split; [reflexivity|]. split; [lia|exact N3].
  Qed.

  Definition arms_post (g : graph) (errb st : id) (g' : graph) (l : list (expr * expr)) : Prop :=
    good g' /\ g_next g <= g_next g' /\ st < g_next g' /\
    match l with
    | [] => st = errb /\ g' = g
    | (c, _) :: _ => g_next g <= st /\ (head_loop c = false -> no_edge_to g' st)
    end.

  Lemma lower_cond_arms_ok l : Forall (fun a => lw_ok (fst a) /\ lw_ok (snd a)) l ->
    forall (en errb : id) g r, good g -> pre g -> en < g_next g -> errb < g_next g ->
      lower_cond_arms lw l en errb g = r -> arms_post g errb (fst r) (snd r) l.
  Proof.
    induction 1 as [|[cnd pred] t [Hc Hp] Ht IH]; intros en errb g r G P Ken Kerr E;
      cbn [lower_cond_arms] in E; revert E.
    - intros E; subst r; cbn [fst snd]. hnf. fin.
    - cbn [fst snd] in *.
      destruct (lower_cond_arms lw t en errb g) as [fls g1] eqn:E1.
      destruct (lw pred (Some en) g1) as [[ps pe] g2] eqn:E2.
      destruct (add_block g2 (BCond [] (Some ps) (Some fls))) as [br g3] eqn:E3.
      destruct (lw cnd (Some br) g3) as [[cs ce] g4] eqn:E4. intros E; subst r; cbn [fst snd].
      use (IH _ _ _ _ G P Ken Kerr E1) as (G1 & M1 & K1 & _).
      assert (P1 : pre g1) by (apply (pre_mono g); [exact P|lia]).
      assert (Ken1 : opt_lt (Some en) (g_next g1)) by (cbn; lia).
      use (Hp _ _ _ G1 P1 Ken1 E2) as (G2 & L2 & U2 & _).
      assert (Kf : fls < g_next g2) by lia.
      destruct (add_cond _ _ _ _ _ _ G2 U2 Kf E3) as (I3 & X3 & G3 & _).
      assert (P3 : pre g3) by (apply (pre_mono g); [exact P|lia]).
      assert (K3 : opt_lt (Some br) (g_next g3)) by (cbn; lia).
      use (Hc _ _ _ G3 P3 K3 E4) as (G4 & L4 & U4 & N4).
      hnf. fin.
  Qed.

  (* multiplyFactors always ends with a fresh start block *)
  Lemma lower_factors_ok fs : Forall lw_ok fs ->
    forall k g r, good g -> pre g -> opt_lt k (g_next g) ->
      lower_factors lw fs k g = r -> fpost g (fst (fst r)) (snd r) false.
  Proof.
    intros HF k g r G P K E. unfold lower_factors in E; revert E.
    destruct fs as [|f0 [|f1 rest]].
    - destruct (add_block g (BSimple [] k)) as [b g1] eqn:E1. intros E; subst r; cbn [fst snd].
      destruct (add_simple _ _ _ _ _ G K E1) as (I1 & X1 & G1 & N1).
      fin.
    - inversion HF as [|? ? H0 _]; subst.
      destruct (lw f0 k g) as [[s0 e0] g1] eqn:E1.
      destruct (add_block g1 (BSimple [I1 O_int 0] (Some s0))) as [hw g2] eqn:E2.
      destruct (add_block g2 (BSimple [] (Some hw))) as [st g3] eqn:E3. intros E; subst r; cbn [fst snd].
      use (H0 _ _ _ G P K E1) as (G1 & L1 & U1 & _).
      destruct (add_simple _ _ _ _ _ G1 (U1 : opt_lt (Some s0) _) E2) as (I2 & X2 & G2 & _).
      assert (K2 : opt_lt (Some hw) (g_next g2)) by (cbn; lia).
      destruct (add_simple _ _ _ _ _ G2 K2 E3) as (I3 & X3 & G3 & N3).
      fin.
    - inversion HF as [|? ? H0 HF1]; subst. inversion HF1 as [|? ? H1 HR]; subst.
      destruct (lower_wide_rest lw rest k g) as [[krest endrest] g1] eqn:E1.
      destruct (add_block g1 (BSimple [I0 O_mulw] krest)) as [m2 g2] eqn:E2.
      destruct (lw f1 (Some m2) g2) as [[s1 e1] g3] eqn:E3.
      destruct (lw f0 (Some s1) g3) as [[s0 e0] g4] eqn:E4.
      destruct (add_block g4 (BSimple [] (Some s0))) as [st g5] eqn:E5. intros E; subst r; cbn [fst snd].
      use (lower_wide_rest_ok _ HR _ _ _ G P K E1) as (G1 & M1 & K1 & _).
      destruct (add_simple _ _ _ _ _ G1 K1 E2) as (I2 & X2 & G2 & _).
      assert (P2 : pre g2) by (apply (pre_mono g); [exact P|lia]).
      assert (K2 : opt_lt (Some m2) (g_next g2)) by (cbn; lia).
      use (H1 _ _ _ G2 P2 K2 E3) as (G3 & L3 & U3 & _).
      assert (P3 : pre g3) by (apply (pre_mono g); [exact P|lia]).
      use (H0 _ _ _ G3 P3 (U3 : opt_lt (Some s1) _) E4) as (G4 & L4 & U4 & _).
      destruct (add_simple _ _ _ _ _ G4 (U4 : opt_lt (Some s0) _) E5) as (I5 & X5 & G5 & N5).
      fin.
  Qed.
End Helpers.

Lemma lower_comment_lines_ok lines : forall k g r, good g -> opt_lt k (g_next g) ->
  lower_comment_lines lines k g = r ->
  good (snd r) /\ g_next g <= g_next (snd r) /\ opt_lt (fst r) (g_next (snd r)).
Proof.
  induction lines as [|l t IH]; intros k g r G K E; cbn [lower_comment_lines] in E; revert E.
  - intros E; subst r; cbn [fst snd]. auto.
  - destruct (lower_comment_lines t k g) as [kt g1] eqn:E1.
    destruct (add_block g1 (BSimple [mkI O_comment [AStr l]] kt)) as [b g2] eqn:E2. intros E; subst r; cbn [fst snd].
    use (IH _ _ _ G K E1) as (G1 & M1 & K1).
    destruct (add_simple _ _ _ _ _ G1 K1 E2) as (I2 & X2 & G2 & _).
    fin; cbn; lia.
Qed.

Lemma lower_stores_ok outs : forall kk first g r, good g -> opt_lt kk (g_next g) ->
  lower_stores outs kk first g = r ->
  good (snd r) /\ g_next g <= g_next (snd r) /\ opt_lt (fst (fst r)) (g_next (snd r)).
Proof.
  induction outs as [|s t IH]; intros kk first g r G K E; cbn [lower_stores] in E; revert E.
  - intros E; subst r; cbn [fst snd]. auto.
  - destruct (add_block g (BSimple [I O_store [ASlot s]] kk)) as [b g1] eqn:E1. intros E.
    destruct (add_simple _ _ _ _ _ G K E1) as (I1 & X1 & G1 & _).
    assert (K1 : opt_lt (Some b) (g_next g1)) by (cbn; lia).
    use (IH _ _ _ _ G1 K1 E) as (G2 & M2 & K2).
    fin.
Qed.

Section AssertHelpers.
  Variable lw : expr -> option id -> graph -> (id * id) * graph.
  Variable pre : graph -> Prop.
  Hypothesis pre_mono : forall g g', pre g -> g_next g <= g_next g' -> pre g'.
  Variable version : N.
  Variable comment : option (list string).

  Lemma lower_assert1_ok cnd : lw_ok lw pre cnd ->
    forall k g r, good g -> pre g -> opt_lt k (g_next g) ->
      lower_assert1 lw version comment cnd k g = r -> fpost g (fst (fst r)) (snd r) (head_loop cnd).
  Proof.
    intros Hc k g r G P K E. unfold lower_assert1 in E; revert E.
    destruct (N.leb 3 version).
    - destruct (add_block g (BSimple [I O_assert_ []] k)) as [opb g1] eqn:E1.
      destruct (add_simple _ _ _ _ _ G K E1) as (I1 & X1 & G1 & _).
      destruct comment as [lines|].
      + destruct (lower_comment_lines lines (Some opb) g1) as [ks ga] eqn:E2.
        destruct (add_block ga (BSimple [] ks)) as [st gb] eqn:E3.
        destruct (lw cnd (Some st) gb) as [[cs ce] g3] eqn:E4. intros E; subst r; cbn [fst snd].
        assert (K1 : opt_lt (Some opb) (g_next g1)) by (cbn; lia).
        use (lower_comment_lines_ok _ _ _ _ G1 K1 E2) as (Ga & Ma & Ka).
        destruct (add_simple _ _ _ _ _ Ga Ka E3) as (I3 & X3 & Gb & _).
        assert (Pb : pre gb) by (apply (pre_mono g); [exact P|lia]).
        assert (Kb : opt_lt (Some st) (g_next gb)) by (cbn; lia).
        use (Hc _ _ _ Gb Pb Kb E4) as (G3 & L3 & U3 & N3).
        fin.
      + destruct (lw cnd (Some opb) g1) as [[cs ce] g3] eqn:E4. intros E; subst r; cbn [fst snd].
        assert (P1 : pre g1) by (apply (pre_mono g); [exact P|lia]).
        assert (K1 : opt_lt (Some opb) (g_next g1)) by (cbn; lia).
        use (Hc _ _ _ G1 P1 K1 E4) as (G3 & L3 & U3 & N3).
        fin.
    - destruct (add_block g (BSimple [] k)) as [en0 g1] eqn:E1.
      destruct (add_block g1 (BSimple [I O_err []] None)) as [errb g2] eqn:E2.
      destruct (add_block g2 (BCond [] (Some en0) (Some errb))) as [br g3] eqn:E3.
      destruct (lw cnd (Some br) g3) as [[cs ce] g4] eqn:E4. intros E; subst r; cbn [fst snd].
      destruct (add_simple _ _ _ _ _ G K E1) as (I1 & X1 & G1 & _).
      destruct (add_simple _ _ _ _ _ G1 (Logic.I : opt_lt None _) E2) as (I2 & X2 & G2 & _).
      assert (T3 : en0 < g_next g2) by lia. assert (F3 : errb < g_next g2) by lia.
      destruct (add_cond _ _ _ _ _ _ G2 T3 F3 E3) as (I3 & X3 & G3 & _).
      assert (P3 : pre g3) by (apply (pre_mono g); [exact P|lia]).
      assert (K3 : opt_lt (Some br) (g_next g3)) by (cbn; lia).
      use (Hc _ _ _ G3 P3 K3 E4) as (G4 & L4 & U4 & N4).
      fin.
  Qed.

  Lemma lower_asserts_ok l : Forall (lw_ok lw pre) l ->
    forall k g r, good g -> pre g -> opt_lt k (g_next g) ->
      lower_asserts lw version comment l k g = r ->
      good (snd r) /\ g_next g <= g_next (snd r) /\ opt_lt (fst (fst r)) (g_next (snd r)).
  Proof.
    induction 1 as [|e t He Ht IH]; intros k g r G P K E; cbn [lower_asserts] in E; revert E.
    - intros E; subst r; cbn [fst snd]. auto.
    - destruct (lower_asserts lw version comment t k g) as [[kt endt'] g1] eqn:E1.
      destruct (lower_assert1 lw version comment e kt g1) as [[s en] g2] eqn:E2. intros E; subst r; cbn [fst snd].
      use (IH _ _ _ G P K E1) as (G1 & M1 & K1).
      assert (P1 : pre g1) by (apply (pre_mono g); [exact P|lia]).
      use (lower_assert1_ok _ He _ _ _ G1 P1 K1 E2) as (G2 & L2 & U2 & _).
      fin.
  Qed.
End AssertHelpers.

(* ---- the lowering itself ---- *)
Definition ctx_ok (c : lctx) (g : graph) : Prop :=
  opt_lt (l_brk c) (g_next g) /\ opt_lt (l_cont c) (g_next g).

Lemma ctx_ok_mono c g g' : ctx_ok c g -> g_next g <= g_next g' -> ctx_ok c g'.
Proof. intros [A B] L. split; eapply opt_lt_mono; eauto. Qed.

Lemma opt_all_some (P : expr -> Prop) x : opt_all P (Some x) -> P x.
Proof. intros H. inversion H; subst. assumption. Qed.

Lemma Forall_inst {A} (P : lctx -> A -> Prop) l c : Forall (fun a => forall c, P c a) l -> Forall (P c) l.
Proof. intros H. eapply Forall_impl; [|exact H]. intros a Ha. apply Ha. Qed.

Theorem lower_ok o e : forall c, lw_ok (lower o c) (ctx_ok c) e.
Proof.
  induction e using expr_ind'; intros c k g r G P K E; cbn [lower] in E; revert E.
  - (* EOp *)
    destruct (add_block g (BSimple [I o0 imms] k)) as [opb g1] eqn:E1.
    destruct (lower_chain (lower o c) args (Some opb) g1) as [[ks x] g2] eqn:E2. intros E; subst r; cbn [fst snd].
    destruct (add_simple _ _ _ _ _ G K E1) as (I1 & X1 & G1 & N1).
    assert (P1 : ctx_ok c g1) by (apply (ctx_ok_mono c g); [exact P|lia]).
    assert (K1 : opt_lt (Some opb) (g_next g1)) by (cbn; lia).
    use (lower_chain_ok _ _ (ctx_ok_mono c) args (Forall_inst _ _ c H) _ _ _ G1 P1 K1 E2)
      as (G2 & M2 & K2 & T2).
    destruct args as [|a rest].
    + destruct T2 as [Q1 Q2]. subst. cbn [or_else head_loop]. fin.
    + destruct T2 as (s1 & Q & L & N). subst ks. cbn [or_else head_loop]. cbn in K2.
      fin.
  - (* ENary *)
    destruct args as [|a1 rest].
    + destruct (add_block g (BSimple [] k)) as [b g1] eqn:E1. intros E; subst r; cbn [fst snd].
      destruct (add_simple _ _ _ _ _ G K E1) as (I1 & X1 & G1 & N1).
      fin.
    + inversion H as [|? ? H1 HR]; subst.
      destruct (lower_nary_rest (lower o c) o0 rest k g) as [[krest endrest] g1] eqn:E1.
      destruct (lower o c a1 krest g1) as [[s1 e1] g2] eqn:E2. intros E; subst r; cbn [fst snd].
      use (lower_nary_rest_ok _ _ (ctx_ok_mono c) o0 rest (Forall_inst _ _ c HR) _ _ _ G P K E1)
        as (G1 & M1 & K1 & _).
      assert (P1 : ctx_ok c g1) by (apply (ctx_ok_mono c g); [exact P|lia]).
      use (H1 c _ _ _ G1 P1 K1 E2) as (G2 & L2 & U2 & N2).
      cbn [head_loop]. fin.
  - (* ESeq *)
    destruct (lower_chain (lower o c) es k g) as [[ks en0] g1] eqn:E1.
    destruct (add_block g1 (BSimple [] ks)) as [st g2] eqn:E2. intros E; subst r; cbn [fst snd].
    use (lower_chain_ok _ _ (ctx_ok_mono c) es (Forall_inst _ _ c H) _ _ _ G P K E1)
      as (G1 & M1 & K1 & _).
    destruct (add_simple _ _ _ _ _ G1 K1 E2) as (I2 & X2 & G2 & N2).
    cbn [head_loop]. fin.
  - (* EIf *)
    destruct (add_block g (BSimple [] k)) as [en0 g1] eqn:E1.
    destruct (lower o c e2 (Some en0) g1) as [[ths the] g2] eqn:E2.
    destruct (add_simple _ _ _ _ _ G K E1) as (I1 & X1 & G1 & _).
    assert (P1 : ctx_ok c g1) by (apply (ctx_ok_mono c g); [exact P|lia]).
    assert (K1 : opt_lt (Some en0) (g_next g1)) by (cbn; lia).
    use (IHe2 c _ _ _ G1 P1 K1 E2) as (G2 & L2 & U2 & _).
    assert (R : exists els g3, (match el with
                                | Some x => let '((s0, _), g'0) := lower o c x (Some en0) g2 in (s0, g'0)
                                | None => (en0, g2)
                                end) = (els, g3) /\ good g3 /\ g_next g2 <= g_next g3 /\ els < g_next g3).
    { destruct el as [x|].
      - pose proof (opt_all_some _ _ H) as Hx.
        destruct (lower o c x (Some en0) g2) as [[s0 e0] g3] eqn:E3.
        assert (P2 : ctx_ok c g2) by (apply (ctx_ok_mono c g); [exact P|lia]).
        assert (K2 : opt_lt (Some en0) (g_next g2)) by (cbn; lia).
        use (Hx c _ _ _ G2 P2 K2 E3) as (G3 & L3 & U3 & _).
        exists s0, g3. fin.
      - exists en0, g2. fin. }
    destruct R as (els & g3 & E3 & G3 & M3 & U3). rewrite E3.
    destruct (add_block g3 (BCond [] (Some ths) (Some els))) as [br g4] eqn:E4.
    destruct (lower o c e1 (Some br) g4) as [[cs ce] g5] eqn:E5. intros E; subst r; cbn [fst snd].
    assert (T4 : ths < g_next g3) by lia.
    destruct (add_cond _ _ _ _ _ _ G3 T4 U3 E4) as (I4 & X4 & G4 & _).
    assert (P4 : ctx_ok c g4) by (apply (ctx_ok_mono c g); [exact P|lia]).
    assert (K4 : opt_lt (Some br) (g_next g4)) by (cbn; lia).
    use (IHe1 c _ _ _ G4 P4 K4 E5) as (G5 & L5 & U5 & N5).
    cbn [head_loop]. fin.
  - (* ECond *)
    destruct (add_block g (BSimple [] k)) as [en0 g1] eqn:E1.
    destruct (add_block g1 (BSimple [I O_err []] None)) as [errb g2] eqn:E2.
    destruct (lower_cond_arms (lower o c) arms en0 errb g2) as [st g3] eqn:E3. intros E; subst r; cbn [fst snd].
    destruct (add_simple _ _ _ _ _ G K E1) as (I1 & X1 & G1 & _).
    destruct (add_simple _ _ _ _ _ G1 (Logic.I : opt_lt None _) E2) as (I2 & X2 & G2 & N2).
    assert (P2 : ctx_ok c g2) by (apply (ctx_ok_mono c g); [exact P|lia]).
    assert (A : Forall (fun a => lw_ok (lower o c) (ctx_ok c) (fst a) /\ lw_ok (lower o c) (ctx_ok c) (snd a)) arms).
    { eapply Forall_impl; [|exact H]. intros a [Ha Hb]. split; [apply Ha|apply Hb]. }
    assert (Ken : en0 < g_next g2) by lia. assert (Kerr : errb < g_next g2) by lia.
    use (lower_cond_arms_ok _ _ (ctx_ok_mono c) arms A _ _ _ _ G2 P2 Ken Kerr E3) as (G3 & M3 & U3 & T3).
    destruct arms as [|[c0 p0] rest].
    + destruct T3 as [Q1 Q2]. subst. cbn [head_loop]. fin.
    + destruct T3 as [L N]. cbn [head_loop]. fin.
  - (* EWhile *)
    destruct (add_block g (BSimple [] k)) as [en0 g1] eqn:E1.
    destruct (reserve g1) as [br g2] eqn:E2.
    destruct (lower o (mkL (l_sub_ret c) (Some en0) None (l_param c)) e1 (Some br) g2) as [[cs ce] g3] eqn:E3.
    destruct (lower o (mkL (l_sub_ret c) (Some en0) (Some cs) (l_param c)) e2 (Some cs) g3) as [[ds de] g4] eqn:E4.
    intros E; subst r; cbn [fst snd].
    destruct (add_simple _ _ _ _ _ G K E1) as (I1 & X1 & G1 & _).
    destruct (reserve_good _ _ _ G1 E2) as (I2 & X2 & G2).
    assert (P2 : ctx_ok (mkL (l_sub_ret c) (Some en0) None (l_param c)) g2) by (split; cbn; [lia|exact Logic.I]).
    assert (K2 : opt_lt (Some br) (g_next g2)) by (cbn; lia).
    use (IHe1 _ _ _ _ G2 P2 K2 E3) as (G3 & L3 & U3 & _).
    assert (P3 : ctx_ok (mkL (l_sub_ret c) (Some en0) (Some cs) (l_param c)) g3) by (split; cbn; lia).
    use (IHe2 _ _ _ _ G3 P3 (U3 : opt_lt (Some cs) _) E4) as (G4 & L4 & U4 & _).
    assert (T : ds < g_next g4) by lia. assert (F : en0 < g_next g4) by lia.
    destruct (define_good g4 br (BCond [] (Some ds) (Some en0)) G4 (full_cond _ _ _)
                (cond_edges _ _ _ _ T F)) as [Gd Nd].
    cbn [head_loop]. fin.
  - (* EFor *)
    destruct (add_block g (BSimple [] k)) as [en0 g1] eqn:E1.
    destruct (reserve g1) as [br g2] eqn:E2.
    destruct (lower o (mkL (l_sub_ret c) (Some en0) None (l_param c)) e2 (Some br) g2) as [[cs ce] g3] eqn:E3.
    destruct (lower o (mkL (l_sub_ret c) (Some en0) None (l_param c)) e3 (Some cs) g3) as [[ss se] g4] eqn:E4.
    destruct (lower o (mkL (l_sub_ret c) (Some en0) (Some ss) (l_param c)) e4 (Some ss) g4) as [[ds de] g5] eqn:E5.
    destruct (lower o (mkL (l_sub_ret c) (Some en0) None (l_param c)) e1 (Some cs) g5) as [[is_ ie] g6] eqn:E6.
    intros E; subst r; cbn [fst snd].
    destruct (add_simple _ _ _ _ _ G K E1) as (I1 & X1 & G1 & _).
    destruct (reserve_good _ _ _ G1 E2) as (I2 & X2 & G2).
    assert (P2 : ctx_ok (mkL (l_sub_ret c) (Some en0) None (l_param c)) g2) by (split; cbn; [lia|exact Logic.I]).
    assert (K2 : opt_lt (Some br) (g_next g2)) by (cbn; lia).
    use (IHe2 _ _ _ _ G2 P2 K2 E3) as (G3 & L3 & U3 & _).
    assert (P3 : ctx_ok (mkL (l_sub_ret c) (Some en0) None (l_param c)) g3) by (split; cbn; [lia|exact Logic.I]).
    use (IHe3 _ _ _ _ G3 P3 (U3 : opt_lt (Some cs) _) E4) as (G4 & L4 & U4 & _).
    assert (P4 : ctx_ok (mkL (l_sub_ret c) (Some en0) (Some ss) (l_param c)) g4) by (split; cbn; lia).
    use (IHe4 _ _ _ _ G4 P4 (U4 : opt_lt (Some ss) _) E5) as (G5 & L5 & U5 & _).
    assert (P5 : ctx_ok (mkL (l_sub_ret c) (Some en0) None (l_param c)) g5) by (split; cbn; [lia|exact Logic.I]).
    assert (K5 : opt_lt (Some cs) (g_next g5)) by (cbn; lia).
    use (IHe1 _ _ _ _ G5 P5 K5 E6) as (G6 & L6 & U6 & N6).
    assert (T : ds < g_next g6) by lia. assert (F : en0 < g_next g6) by lia.
    destruct (define_good g6 br (BCond [] (Some ds) (Some en0)) G6 (full_cond _ _ _)
                (cond_edges _ _ _ _ T F)) as [Gd Nd].
    cbn [head_loop]. fin.
    intros HL. apply define_no_edge; [apply N6; exact HL|].
    cbn. intros [Q|[Q|[]]]; lia.
  - (* EBreak *)
    destruct (add_block g (BSimple [] (l_brk c))) as [b g1] eqn:E1. intros E; subst r; cbn [fst snd].
    destruct (add_simple _ _ _ _ _ G (proj1 P) E1) as (I1 & X1 & G1 & N1).
    fin.
  - (* EContinue *)
    destruct (add_block g (BSimple [] (l_cont c))) as [b g1] eqn:E1. intros E; subst r; cbn [fst snd].
    destruct (add_simple _ _ _ _ _ G (proj2 P) E1) as (I1 & X1 & G1 & N1).
    fin.
  - (* EAssert *)
    destruct conds as [|c1 [|c2 rest]].
    + cbn [lower_asserts].
      destruct (add_block g (BSimple [] k)) as [st g2] eqn:E2. intros E; subst r; cbn [fst snd].
      destruct (add_simple _ _ _ _ _ G K E2) as (I2 & X2 & G2 & N2).
      cbn [head_loop]. fin.
    + inversion H as [|? ? H1 _]; subst.
      cbn [head_loop].
      intros E. exact (lower_assert1_ok _ _ (ctx_ok_mono c) _ _ c1 (H1 c) _ _ _ G P K E).
    + destruct (lower_asserts (lower o c) (o_version o) cm (c1 :: c2 :: rest) k g) as [[ks en0] g1] eqn:E1.
      destruct (add_block g1 (BSimple [] ks)) as [st g2] eqn:E2. intros E; subst r; cbn [fst snd].
      use (lower_asserts_ok _ _ (ctx_ok_mono c) _ _ _ (Forall_inst _ _ c H) _ _ _ G P K E1) as (G1 & M1 & K1).
      destruct (add_simple _ _ _ _ _ G1 K1 E2) as (I2 & X2 & G2 & N2).
      cbn [head_loop]. fin.
  - (* EReturn *)
    destruct (add_block g (BSimple [I match l_sub_ret c with Some _ => O_retsub | None => O_return_ end []] k))
      as [opb g1] eqn:E1.
    destruct (add_simple _ _ _ _ _ G K E1) as (I1 & X1 & G1 & N1).
    destruct v as [x|].
    + pose proof (opt_all_some _ _ H) as Hx.
      destruct (lower o c x (Some opb) g1) as [[s0 e0] g2] eqn:E2. intros E; subst r; cbn [fst snd].
      assert (P1 : ctx_ok c g1) by (apply (ctx_ok_mono c g); [exact P|lia]).
      assert (K1 : opt_lt (Some opb) (g_next g1)) by (cbn; lia).
      use (Hx c _ _ _ G1 P1 K1 E2) as (G2 & L2 & U2 & N2).
      cbn [head_loop]. fin.
    + intros E; subst r; cbn [fst snd]. cbn [head_loop]. fin.
  - (* EExit *)
    destruct (add_block g (BSimple [I O_return_ []] k)) as [opb g1] eqn:E1.
    destruct (lower o c e (Some opb) g1) as [[s0 e0] g2] eqn:E2. intros E; subst r; cbn [fst snd].
    destruct (add_simple _ _ _ _ _ G K E1) as (I1 & X1 & G1 & N1).
    assert (P1 : ctx_ok c g1) by (apply (ctx_ok_mono c g); [exact P|lia]).
    assert (K1 : opt_lt (Some opb) (g_next g1)) by (cbn; lia).
    use (IHe c _ _ _ G1 P1 K1 E2) as (G2 & L2 & U2 & N2).
    cbn [head_loop]. fin.
  - (* EMulti *)
    destruct (lower_stores outs k None g) as [[kst lastst] g1] eqn:E1.
    destruct (add_block g1 (BSimple [I o0 imms] kst)) as [opb g2] eqn:E2.
    destruct (lower_chain (lower o c) args (Some opb) g2) as [[ks x] g3] eqn:E3. intros E; subst r; cbn [fst snd].
    use (lower_stores_ok _ _ _ _ _ G K E1) as (G1 & M1 & K1).
    destruct (add_simple _ _ _ _ _ G1 K1 E2) as (I2 & X2 & G2 & N2).
    assert (P2 : ctx_ok c g2) by (apply (ctx_ok_mono c g); [exact P|lia]).
    assert (K2 : opt_lt (Some opb) (g_next g2)) by (cbn; lia).
    use (lower_chain_ok _ _ (ctx_ok_mono c) args (Forall_inst _ _ c H) _ _ _ G2 P2 K2 E3)
      as (G3 & M3 & K3 & T3).
    destruct args as [|a rest].
    + destruct T3 as [Q1 Q2]. subst. cbn [or_else head_loop]. fin.
    + destruct T3 as (s1 & Q & L & N). subst ks. cbn [or_else head_loop]. cbn in K3.
      fin.
  - (* ECall *)
    destruct (add_block g (BSimple [I O_callsub [ASub s]] k)) as [opb g1] eqn:E1.
    destruct (lower_chain (lower o c) args (Some opb) g1) as [[ks x] g2] eqn:E2. intros E; subst r; cbn [fst snd].
    destruct (add_simple _ _ _ _ _ G K E1) as (I1 & X1 & G1 & N1).
    assert (P1 : ctx_ok c g1) by (apply (ctx_ok_mono c g); [exact P|lia]).
    assert (K1 : opt_lt (Some opb) (g_next g1)) by (cbn; lia).
    use (lower_chain_ok _ _ (ctx_ok_mono c) args (Forall_inst _ _ c H) _ _ _ G1 P1 K1 E2)
      as (G2 & M2 & K2 & T2).
    destruct args as [|a rest].
    + destruct T2 as [Q1 Q2]. subst. cbn [or_else head_loop]. fin.
    + destruct T2 as (s1 & Q & L & N). subst ks. cbn [or_else head_loop]. cbn in K2.
      fin.
  - (* EWide *)
    destruct (add_block g (BSimple combine_ops k)) as [cb g1] eqn:E1.
    destruct (lower_factors (lower o c) ds (Some cb) g1) as [[dstart dend] g2] eqn:E2.
    destruct (lower_factors (lower o c) ns (Some dstart) g2) as [[nstart nend] g3] eqn:E3.
    intros E; subst r; cbn [fst snd].
    destruct (add_simple _ _ _ _ _ G K E1) as (I1 & X1 & G1 & _).
    assert (P1 : ctx_ok c g1) by (apply (ctx_ok_mono c g); [exact P|lia]).
    assert (K1 : opt_lt (Some cb) (g_next g1)) by (cbn; lia).
    use (lower_factors_ok _ _ (ctx_ok_mono c) ds (Forall_inst _ _ c H0) _ _ _ G1 P1 K1 E2)
      as (G2 & L2 & U2 & _).
    assert (P2 : ctx_ok c g2) by (apply (ctx_ok_mono c g); [exact P|lia]).
    use (lower_factors_ok _ _ (ctx_ok_mono c) ns (Forall_inst _ _ c H) _ _ _ G2 P2
                (U2 : opt_lt (Some dstart) _) E3) as (G3 & L3 & U3 & N3).
    cbn [head_loop]. fin.
  - (* EParam *)
    destruct (add_block g (BSimple [l_param c i] k)) as [b g1] eqn:E1. intros E; subst r; cbn [fst snd].
    destruct (add_simple _ _ _ _ _ G K E1) as (I1 & X1 & G1 & N1).
    fin.
Qed.

(* ---- a whole routine: lowering starts from the empty graph, no continuation, no enclosing loop ---- *)
Theorem lower_root_shape o c e s en g :
  l_brk c = None -> l_cont c = None ->
  lower o c e None empty_graph = ((s, en), g) ->
  wf g /\ cond_full g /\ (forall x, g_inc g x = []) /\
  (head_loop e = false -> forall p, ~ In s (out_of g p)).
Proof.
  intros B C E.
  assert (P : ctx_ok c empty_graph) by (split; [rewrite B|rewrite C]; exact Logic.I).
  use (lower_ok o e c None empty_graph _ good_empty P Logic.I E) as ((Cl & F & Z) & _ & _ & N).
  split; [exact (frame_wf _ _ (lower_frame o e c None empty_graph (s, en) g wf_empty E))|].
  split; [exact F|]. split; [exact Z|].
  intros HL p I. unfold out_of in I. destruct (g_blk g p) as [b|] eqn:Eb; [|destruct I].
  exact (N HL p b Eb I).
Qed.
