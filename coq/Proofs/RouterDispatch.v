(* Proofs/RouterDispatch.v — lemmas for property C08 about Router/Dispatch.v. *)
From Coq Require Import List NArith Bool Ascii String Lia.
From PV Require Import Base.Bytes Router.Dispatch.
Import ListNotations.

(* ------------------------------------------------------------------------------------------- *)
(* equalities                                                                                  *)
(* ------------------------------------------------------------------------------------------- *)
Lemma rd_bytes_eqb_refl : forall a, bytes_eqb a a = true.
Proof.
  induction a as [|x a IH]; [reflexivity|].
  cbn. rewrite Ascii.eqb_refl. exact IH.
Qed.

Lemma rd_bytes_eqb_eq : forall a b, bytes_eqb a b = true <-> a = b.
Proof.
  induction a as [|x a IH]; intros [|y b]; cbn; split; intro H; try reflexivity; try discriminate.
  - apply andb_true_iff in H. destruct H as [H1 H2].
    apply Ascii.eqb_eq in H1. apply IH in H2. now subst.
  - injection H as -> ->. rewrite Ascii.eqb_refl. now apply IH.
Qed.

Lemma oc_eqb_eq : forall a b, oc_eqb a b = true <-> a = b.
Proof. intros [] []; cbn; split; intro H; try reflexivity; discriminate. Qed.

Lemma cc_eqb_eq : forall a b, cc_eqb a b = true <-> a = b.
Proof. intros [] []; cbn; split; intro H; try reflexivity; discriminate. Qed.

(* ------------------------------------------------------------------------------------------- *)
(* unfolding the nested fixpoints                                                              *)
(* ------------------------------------------------------------------------------------------- *)
Lemma eval_or_nil : forall c, eval_c (EOr []) c = Some false.
Proof. reflexivity. Qed.

Lemma eval_or_cons : forall x t c,
  eval_c (EOr (x :: t)) c =
  match eval_c x c, eval_c (EOr t) c with
  | Some a, Some b => Some (a || b)
  | _, _ => None
  end.
Proof. reflexivity. Qed.

Lemma run_cond_nil : forall c, run_prog (PCond []) c = Fails.
Proof. reflexivity. Qed.

Lemma run_cond_cons : forall a t c,
  run_prog (PCond (a :: t)) c =
  match eval_c (fst a) c with
  | None => Fails
  | Some true => run_prog (snd a) c
  | Some false => run_prog (PCond t) c
  end.
Proof. reflexivity. Qed.

(* ------------------------------------------------------------------------------------------- *)
(* MethodConfig.approval_cond means "the CallConfig of the call's OnCompletion allows its status" *)
(* ------------------------------------------------------------------------------------------- *)
Definition pair_allows (c : call) (p : call_config * on_complete) : bool :=
  oc_eqb (c_oc c) (snd p) && cc_allows (fst p) (c_create c).

Lemma eval_or_pairs : forall (ps : list (call_config * on_complete)) c,
  eval_c (EOr (flat_map cond_of_pair ps)) c = Some (existsb (pair_allows c) ps).
Proof.
  induction ps as [|[cc o] ps IH]; intro c; [reflexivity|].
  cbn [flat_map existsb]. unfold cond_of_pair at 1, pair_allows at 1. cbn [fst snd].
  destruct cc; cbn [cc_cond app cc_allows].
  - rewrite IH. now rewrite andb_false_r.
  - rewrite eval_or_cons, IH. reflexivity.
  - rewrite eval_or_cons, IH. reflexivity.
  - rewrite eval_or_cons, IH. cbn [eval_c]. now rewrite andb_true_r.
Qed.

Lemma forallb5 : forall {A} (f : A -> bool) a b c d e,
  forallb f [a; b; c; d; e] = true -> f a = true /\ f b = true /\ f c = true /\ f d = true /\ f e = true.
Proof.
  intros A f a b c d e H. cbn in H.
  repeat (apply andb_true_iff in H; destruct H as [? H]). tauto.
Qed.

Lemma approval_cond_sound : forall m c,
  c_oc c <> ClearState ->
  acond_holds (approval_cond m) c = Some (cc_allows (mc_get m (c_oc c)) (c_create c)).
Proof.
  intros m c Hoc. unfold approval_cond.
  destruct (forallb (fun p => cc_eqb (fst p) NEVER) (config_oc_pairs m)) eqn:Hn.
  - apply forallb5 in Hn. cbn [fst] in Hn. destruct Hn as (H1 & H2 & H3 & H4 & H5).
    apply cc_eqb_eq in H1, H2, H3, H4, H5.
    cbn [acond_holds]. destruct (c_oc c); try congruence; cbn [mc_get];
      rewrite ?H1, ?H2, ?H3, ?H4, ?H5; reflexivity.
  - destruct (forallb (fun p => cc_eqb (fst p) ALL) (config_oc_pairs m)) eqn:Ha.
    + apply forallb5 in Ha. cbn [fst] in Ha. destruct Ha as (H1 & H2 & H3 & H4 & H5).
      apply cc_eqb_eq in H1, H2, H3, H4, H5.
      cbn [acond_holds]. destruct (c_oc c); try congruence; cbn [mc_get];
        rewrite ?H1, ?H2, ?H3, ?H4, ?H5; reflexivity.
    + cbn [acond_holds]. rewrite eval_or_pairs. f_equal.
      unfold config_oc_pairs, pair_allows. cbn [existsb fst snd].
      destruct (c_oc c); try congruence; cbn [mc_get oc_eqb oc_code N.eqb Pos.eqb andb orb];
        rewrite ?orb_false_r; reflexivity.
Qed.

(* approval_cond is the int 0 exactly for the configurations add_method_handler refuses *)
Lemma approval_cond_zero : forall m,
  mc_post_init_ok m = true -> (approval_cond m = AC0 <-> mc_is_never m = true).
Proof.
  intros m Hp. unfold mc_post_init_ok in Hp. apply cc_eqb_eq in Hp.
  unfold approval_cond, mc_is_never, mc_astuple, config_oc_pairs. cbn [forallb fst]. rewrite Hp.
  destruct (mc_no_op m), (mc_opt_in m), (mc_close_out m), (mc_update_application m), (mc_delete_application m);
    cbn; split; intro H; try reflexivity; discriminate.
Qed.

(* ------------------------------------------------------------------------------------------- *)
(* the method arms                                                                             *)
(* ------------------------------------------------------------------------------------------- *)
Definition node_of (t : bytes * acond * handler) : cexpr * prog :=
  to_cond_node (fst (fst t)) (snd (fst t)) (snd t).

Definition method_outcome (ms : list method) (a0 : bytes) (o : on_complete) (cr : bool) : outcome :=
  match find (fun m => bytes_eqb a0 (m_sel m)) ms with
  | Some m => if cc_allows (mc_get (m_cfg m) o) cr then RunsHandler (m_handler m) else Fails
  | None => Fails
  end.

Lemma method_arms_run : forall ms a0 rest o cr,
  o <> ClearState ->
  forallb method_ok ms = true ->
  run_prog (PCond (map node_of (methods_with_conds ms))) (mkCall (a0 :: rest) o cr) = method_outcome ms a0 o cr.
Proof.
  induction ms as [|m ms IH]; intros a0 rest o cr Ho Hok; [reflexivity|].
  cbn [forallb] in Hok. apply andb_true_iff in Hok. destruct Hok as [Hm Hms].
  unfold method_ok in Hm. apply andb_true_iff in Hm. destruct Hm as [Hpi Hnn].
  apply negb_true_iff in Hnn.
  unfold methods_with_conds. cbn [flat_map]. fold (methods_with_conds ms).
  unfold method_outcome. cbn [find].
  pose proof (approval_cond_sound (m_cfg m) (mkCall (a0 :: rest) o cr) Ho) as Hs. cbn [c_oc c_create] in Hs.
  unfold add_method_to_ast.
  destruct (approval_cond (m_cfg m)) as [| |e] eqn:Hac.
  - apply (approval_cond_zero _ Hpi) in Hac. congruence.
  - cbn [app map].
    change (node_of (m_sel m, AC1, m_handler m)) with (EArg0Eq (m_sel m), PHandler (m_handler m)).
    rewrite run_cond_cons. cbn [fst snd eval_c c_args].
    destruct (bytes_eqb a0 (m_sel m)).
    + cbn [acond_holds] in Hs. injection Hs as Hs. rewrite <- Hs. reflexivity.
    + apply IH; assumption.
  - cbn [app map].
    change (node_of (m_sel m, ACE e, m_handler m)) with (EArg0Eq (m_sel m), PAssert e (PHandler (m_handler m))).
    rewrite run_cond_cons. cbn [fst snd eval_c c_args].
    destruct (bytes_eqb a0 (m_sel m)).
    + cbn [acond_holds] in Hs. cbn [run_prog]. rewrite Hs.
      destruct (cc_allows (mc_get (m_cfg m) o) cr); reflexivity.
    + apply IH; assumption.
Qed.

Lemma method_arms_nil : forall ms,
  forallb method_ok ms = true -> methods_with_conds ms = [] -> ms = [].
Proof.
  intros [|m ms] Hok H; [reflexivity|exfalso].
  cbn [forallb] in Hok. apply andb_true_iff in Hok. destruct Hok as [Hm _].
  unfold method_ok in Hm. apply andb_true_iff in Hm. destruct Hm as [Hpi Hnn].
  apply negb_true_iff in Hnn.
  unfold methods_with_conds in H. cbn [flat_map] in H. apply app_eq_nil in H. destruct H as [H _].
  unfold add_method_to_ast in H.
  destruct (approval_cond (m_cfg m)) eqn:Hac; try discriminate.
  apply (approval_cond_zero _ Hpi) in Hac. congruence.
Qed.

(* ------------------------------------------------------------------------------------------- *)
(* the bare-call arm                                                                           *)
(* ------------------------------------------------------------------------------------------- *)
Definition bare_outcome (a : oc_action) (cr : bool) : outcome :=
  match oca_action a with
  | Some h => if cc_allows (oca_cc a) cr then RunsHandler h else Fails
  | None => Fails
  end.

Lemma bare_body_run : forall a c,
  oca_post_init_ok a = true -> run_prog (bare_cond_body a) c = bare_outcome a (c_create c).
Proof.
  intros [act cc] c Hok. unfold oca_post_init_ok in Hok. cbn [oca_action oca_cc] in Hok.
  unfold bare_cond_body, bare_outcome. cbn [oca_action oca_cc].
  destruct act as [h|]; [|reflexivity].
  destruct cc; cbn in Hok; try discriminate; cbn; destruct (c_create c); reflexivity.
Qed.

Lemma empty_action_none : forall a, oca_is_empty a = true -> oca_action a = None.
Proof.
  intros [[h|] cc] H; [discriminate|reflexivity].
Qed.

Lemma bare_arms_run : forall b c,
  forallb oca_post_init_ok (ba_aslist b) = true ->
  c_oc c <> ClearState ->
  run_prog (PCond (flat_map bare_arm_of (oc_action_pair b))) c = bare_outcome (ba_get b (c_oc c)) (c_create c).
Proof.
  intros b c Hok Hoc.
  unfold ba_aslist in Hok. cbn [forallb] in Hok.
  repeat (apply andb_true_iff in Hok; destruct Hok as [? Hok]).
  unfold oc_action_pair. cbn [flat_map]. unfold bare_arm_of. cbn [fst snd].
  destruct (c_oc c) eqn:Eo; try congruence; cbn [ba_get];
    repeat match goal with
    | |- context [if oca_is_empty ?a then _ else _] =>
        let E := fresh "E" in destruct (oca_is_empty a) eqn:E; cbn [app]
    end;
    repeat (rewrite run_cond_cons; cbn [fst snd eval_c]; rewrite Eo; cbn [oc_eqb oc_code N.eqb Pos.eqb]);
    rewrite ?run_cond_nil;
    try (apply bare_body_run; assumption);
    match goal with
    | E : oca_is_empty ?a = true |- Fails = bare_outcome ?a _ =>
        unfold bare_outcome; now rewrite (empty_action_none _ E)
    end.
Qed.

Lemma bare_empty_iff : forall b,
  ba_init_ok b = true ->
  ba_is_empty b = forallb (fun p => oca_is_empty (snd p)) (oc_action_pair b).
Proof.
  intros b H. unfold ba_init_ok in H. apply andb_true_iff in H. destruct H as [_ H].
  unfold ba_is_empty, ba_aslist, oc_action_pair. cbn [forallb snd]. rewrite H.
  destruct (oca_is_empty (ba_no_op b)), (oca_is_empty (ba_opt_in b)), (oca_is_empty (ba_close_out b)),
    (oca_is_empty (ba_update_application b)), (oca_is_empty (ba_delete_application b)); reflexivity.
Qed.

Lemma bare_empty_actions : forall b o,
  ba_init_ok b = true -> ba_is_empty b = true -> oca_action (ba_get b o) = None.
Proof.
  intros b o Hi He. unfold ba_is_empty, ba_aslist in He. cbn [forallb] in He.
  repeat (apply andb_true_iff in He; destruct He as [? He]).
  destruct o; cbn [ba_get]; apply empty_action_none; assumption.
Qed.

(* ------------------------------------------------------------------------------------------- *)
(* the approval program, exactly                                                               *)
(* ------------------------------------------------------------------------------------------- *)
Definition nothing_registered (r : router_cfg) : bool :=
  ba_is_empty (r_bare r) && match r_methods r with [] => true | _ :: _ => false end.

Definition expected_outcome (r : router_cfg) (c : call) : outcome :=
  match allowed r c with
  | Some h => RunsHandler h
  | None => if nothing_registered r then Rejects else Fails
  end.

Lemma allowed_method_outcome : forall r a0 rest o cr,
  nothing_registered r = false ->
  method_outcome (r_methods r) a0 o cr = expected_outcome r (mkCall (a0 :: rest) o cr).
Proof.
  intros r a0 rest o cr Hn. unfold method_outcome, expected_outcome, allowed. cbn [c_args c_oc c_create].
  rewrite Hn.
  destruct (find (fun m => bytes_eqb a0 (m_sel m)) (r_methods r)) as [m|]; [|reflexivity].
  destruct (cc_allows (mc_get (m_cfg m) o) cr); reflexivity.
Qed.

Theorem dispatch_exact : forall r c,
  cfg_ok r = true -> c_oc c <> ClearState -> dispatch r c = expected_outcome r c.
Proof.
  intros [b cl ms] [args o cr] Hok Hoc. cbn [c_oc] in Hoc.
  unfold cfg_ok in Hok. cbn [r_bare r_methods] in Hok.
  apply andb_true_iff in Hok. destruct Hok as [Hok Hdis].
  apply andb_true_iff in Hok. destruct Hok as [Hb Hms].
  pose proof Hb as Hb'. unfold ba_init_ok in Hb'. apply andb_true_iff in Hb'. destruct Hb' as [Hoca Hcs].
  unfold dispatch, approval_program, program_construction. cbn [r_bare r_methods].
  fold node_of.
  unfold bare_calls_of, approval_construction. rewrite <- (bare_empty_iff b Hb).
  destruct (ba_is_empty b) eqn:He; cbn [negb app].
  - (* no bare action registered *)
    destruct (map node_of (methods_with_conds ms)) as [|n ns] eqn:Hm.
    + apply map_eq_nil in Hm. apply (method_arms_nil ms Hms) in Hm. subst ms.
      unfold expected_outcome, nothing_registered, allowed. cbn [r_bare r_methods c_args c_oc c_create find].
      rewrite He. cbn [andb run_prog].
      destruct args; [|reflexivity].
      now rewrite (bare_empty_actions b o Hb He).
    + destruct args as [|a0 rest].
      * (* a bare call reaches the first method arm: txna ApplicationArgs 0 fails *)
        rewrite run_cond_cons.
        assert (Hn : exists s p, n = (EArg0Eq s, p)).
        { destruct (methods_with_conds ms) as [|t ts]; [discriminate|].
          cbn [map] in Hm. injection Hm as Hn _. subst n. unfold node_of, to_cond_node. eauto. }
        destruct Hn as (s & p & ->). cbn [fst eval_c c_args].
        unfold expected_outcome, nothing_registered, allowed. cbn [r_bare r_methods c_args c_oc c_create].
        rewrite (bare_empty_actions b o Hb He).
        destruct ms; [discriminate Hm|]. now rewrite andb_false_r.
      * rewrite <- Hm. rewrite (method_arms_run ms a0 rest o cr Hoc Hms).
        apply (allowed_method_outcome (mkRouter b cl ms)).
        unfold nothing_registered. cbn [r_bare r_methods].
        destruct ms; [discriminate Hm|]. now rewrite andb_false_r.
  - (* bare arm first *)
    rewrite run_cond_cons. cbn [fst snd eval_c c_args].
    destruct args as [|a0 rest].
    + rewrite (bare_arms_run b (mkCall [] o cr) Hoca Hoc). cbn [c_oc c_create].
      unfold bare_outcome, expected_outcome, nothing_registered, allowed.
      cbn [r_bare r_methods c_args c_oc c_create]. rewrite He. cbn [andb].
      destruct (oca_action (ba_get b o)); [|reflexivity].
      destruct (cc_allows (oca_cc (ba_get b o)) cr); reflexivity.
    + rewrite (method_arms_run ms a0 rest o cr Hoc Hms).
      apply (allowed_method_outcome (mkRouter b cl ms)).
      unfold nothing_registered. cbn [r_bare]. now rewrite He.
Qed.

Theorem router_dispatch_correct_lemma : forall r c,
  cfg_ok r = true -> c_oc c <> ClearState ->
  (forall h, dispatch r c = RunsHandler h <-> allowed r c = Some h) /\
  (allowed r c = None -> dispatch r c = Rejects \/ dispatch r c = Fails).
Proof.
  intros r c Hok Hoc. rewrite (dispatch_exact r c Hok Hoc). unfold expected_outcome.
  destruct (allowed r c) as [h'|]; split.
  - intro h. split; intro H; [injection H as ->; reflexivity|injection H as ->; reflexivity].
  - discriminate.
  - intro h. destruct (nothing_registered r); split; discriminate.
  - intros _. destruct (nothing_registered r); auto.
Qed.

Theorem router_rejects_iff_empty_lemma : forall r c,
  cfg_ok r = true -> c_oc c <> ClearState ->
  (dispatch r c = Rejects <-> nothing_registered r = true).
Proof.
  intros r c Hok Hoc. rewrite (dispatch_exact r c Hok Hoc). unfold expected_outcome.
  destruct (allowed r c) as [h|] eqn:Ha.
  - split; [discriminate|]. intro Hn. exfalso.
    unfold nothing_registered in Hn. apply andb_true_iff in Hn. destruct Hn as [He Hm].
    unfold cfg_ok in Hok. apply andb_true_iff in Hok. destruct Hok as [Hok _].
    apply andb_true_iff in Hok. destruct Hok as [Hb _].
    unfold allowed in Ha. destruct (c_args c).
    + rewrite (bare_empty_actions _ (c_oc c) Hb He) in Ha. discriminate.
    + destruct (r_methods r); [discriminate Ha|discriminate Hm].
  - destruct (nothing_registered r); split; congruence.
Qed.

(* ------------------------------------------------------------------------------------------- *)
(* the functional specification agrees with the relational one                                 *)
(* ------------------------------------------------------------------------------------------- *)
Lemma existsb_bytes_In : forall s l, existsb (bytes_eqb s) l = true <-> In s l.
Proof.
  intros s l. rewrite existsb_exists. split.
  - intros (x & Hx & He). apply rd_bytes_eqb_eq in He. now subst.
  - intro H. exists s. split; [assumption|apply rd_bytes_eqb_refl].
Qed.

Lemma distinct_from_spec : forall ms seen,
  distinct_from seen ms = true <->
  (NoDup (map m_sel ms) /\ forall m, In m ms -> ~ In (m_sel m) seen).
Proof.
  induction ms as [|m ms IH]; intro seen; cbn [distinct_from map].
  - split; [intros _; split; [constructor|intros m []]|reflexivity].
  - rewrite andb_true_iff, negb_true_iff, IH, NoDup_cons_iff. split.
    + intros (Hn & Hnd & Hall). split; [split; [|assumption]|].
      * intro Hin. apply in_map_iff in Hin. destruct Hin as (m' & He & Hin').
        apply (Hall m' Hin'). left. now symmetry.
      * intros m' [<-|Hin'].
        -- intro Hin. apply existsb_bytes_In in Hin. congruence.
        -- intro Hin. apply (Hall m' Hin'). now right.
    + intros ((Hni & Hnd) & Hall). split; [|split; [assumption|]].
      * destruct (existsb (bytes_eqb (m_sel m)) seen) eqn:E; [|reflexivity].
        apply existsb_bytes_In in E. exfalso. apply (Hall m); [now left|assumption].
      * intros m' Hin' [He|Hin].
        -- apply Hni. rewrite He. now apply in_map.
        -- apply (Hall m'); [now right|assumption].
Qed.

Lemma sels_distinct_NoDup : forall ms, sels_distinct ms = true <-> NoDup (map m_sel ms).
Proof.
  intro ms. unfold sels_distinct. rewrite distinct_from_spec. split; [tauto|].
  intro H. split; [assumption|]. intros m _ [].
Qed.

Lemma NoDup_sel_inj : forall ms m m',
  NoDup (map m_sel ms) -> In m ms -> In m' ms -> m_sel m = m_sel m' -> m = m'.
Proof.
  induction ms as [|x ms IH]; intros m m' Hnd Hin Hin' He; [destruct Hin|].
  cbn [map] in Hnd. apply NoDup_cons_iff in Hnd. destruct Hnd as [Hni Hnd].
  destruct Hin as [<-|Hin], Hin' as [<-|Hin'].
  - reflexivity.
  - exfalso. apply Hni. rewrite He. now apply in_map.
  - exfalso. apply Hni. rewrite <- He. now apply in_map.
  - now apply IH.
Qed.

Theorem allowed_iff_rel_lemma : forall r c h,
  cfg_ok r = true -> (allowed r c = Some h <-> allowed_rel r c h).
Proof.
  intros r c h Hok.
  unfold cfg_ok in Hok. apply andb_true_iff in Hok. destruct Hok as [_ Hdis].
  apply sels_distinct_NoDup in Hdis.
  unfold allowed, allowed_rel. destruct (c_args c) as [|a0 rest].
  - split.
    + intro H. right. destruct (oca_action (ba_get (r_bare r) (c_oc c))) as [h'|]; [|discriminate].
      destruct (cc_allows (oca_cc (ba_get (r_bare r) (c_oc c))) (c_create c)); [|discriminate].
      injection H as ->. auto.
    + intros [(m & a & rest & _ & Habs & _)|(_ & Ha & Hc)]; [discriminate|].
      now rewrite Ha, Hc.
  - split.
    + intro H. left.
      destruct (find (fun m => bytes_eqb a0 (m_sel m)) (r_methods r)) as [m|] eqn:Hf; [|discriminate].
      apply find_some in Hf. destruct Hf as [Hin He]. apply rd_bytes_eqb_eq in He.
      destruct (cc_allows (mc_get (m_cfg m) (c_oc c)) (c_create c)) eqn:Hc; [|discriminate].
      injection H as <-. exists m, a0, rest. auto.
    + intros [(m & a & rest' & Hin & Hargs & Ha & Hc & ->)|(Habs & _)]; [|discriminate].
      injection Hargs as <- <-. subst a0.
      destruct (find (fun m0 => bytes_eqb (m_sel m) (m_sel m0)) (r_methods r)) as [m'|] eqn:Hf.
      * apply find_some in Hf. destruct Hf as [Hin' He]. apply rd_bytes_eqb_eq in He.
        assert (m = m') by (eapply NoDup_sel_inj; eauto). subst m'. now rewrite Hc.
      * exfalso. apply (find_none _ _ Hf) in Hin. now rewrite rd_bytes_eqb_refl in Hin.
Qed.

(* ------------------------------------------------------------------------------------------- *)
(* the clear-state program                                                                     *)
(* ------------------------------------------------------------------------------------------- *)
Theorem clear_program_correct_lemma : forall r c,
  dispatch_clear r c = match clear_allowed r with Some h => RunsHandler h | None => Rejects end.
Proof.
  intros r c. unfold dispatch_clear, clear_program, clear_allowed. destruct (r_clear r); reflexivity.
Qed.

(* ------------------------------------------------------------------------------------------- *)
(* registration                                                                                *)
(* ------------------------------------------------------------------------------------------- *)
Lemma selector_registered_In : forall s ms, selector_registered s ms = existsb (bytes_eqb s) (map m_sel ms).
Proof.
  intros s ms. unfold selector_registered. induction ms as [|m ms IH]; [reflexivity|].
  cbn [existsb map]. now rewrite IH.
Qed.

Lemma add_methods_spec : forall ms r r',
  add_methods r ms = RegOk r' <->
  (forallb method_ok ms = true /\ distinct_from (map m_sel (r_methods r)) ms = true /\
   r' = mkRouter (r_bare r) (r_clear r) (r_methods r ++ ms)).
Proof.
  induction ms as [|m ms IH]; intros r r'; cbn [add_methods forallb distinct_from].
  - rewrite app_nil_r. destruct r as [b cl l]. cbn. split.
    + intro H. injection H as <-. auto.
    + intros (_ & _ & ->). reflexivity.
  - unfold add_method_handler at 1. unfold method_ok at 1.
    destruct (mc_post_init_ok (m_cfg m)); cbn [negb andb].
    2: { split; [discriminate|]. intros (H & _). discriminate. }
    destruct (mc_is_never (m_cfg m)); cbn [negb andb].
    1: { split; [discriminate|]. intros (H & _). discriminate. }
    rewrite selector_registered_In.
    destruct (existsb (bytes_eqb (m_sel m)) (map m_sel (r_methods r))) eqn:Ereg; cbn [negb andb].
    1: { split; [discriminate|]. intros (_ & H & _). discriminate. }
    rewrite IH. cbn [r_bare r_clear r_methods]. rewrite <- app_assoc. cbn [app].
    assert (Hd : distinct_from (map m_sel (r_methods r ++ [m])) ms = distinct_from (m_sel m :: map m_sel (r_methods r)) ms).
    { apply eq_true_iff_eq. rewrite !distinct_from_spec.
      split; intros (Hnd & Hall); (split; [assumption|]); intros m' Hin' Hin; apply (Hall m' Hin').
      - rewrite map_app. apply in_or_app. destruct Hin as [<-|Hin]; [right; now left|now left].
      - rewrite map_app in Hin. apply in_app_or in Hin. destruct Hin as [Hin|[<-|[]]]; [now right|now left]. }
    rewrite Hd. tauto.
Qed.

Definition reg_method_ok (m : method) : Prop :=
  mc_clear_state (m_cfg m) = NEVER /\ mc_is_never (m_cfg m) = false.

Theorem registration_lemma : forall b cl ms r,
  register b cl ms = RegOk r <->
  (ba_init_ok b = true /\ Forall reg_method_ok ms /\ NoDup (map m_sel ms) /\ r = mkRouter b cl ms).
Proof.
  intros b cl ms r. unfold register, router_init, ba_init_ok.
  destruct (forallb oca_post_init_ok (ba_aslist b)); cbn [negb andb].
  2: { split; [discriminate|]. intros (H & _). discriminate. }
  destruct (oca_is_empty (ba_clear_state b)); cbn [negb].
  2: { split; [discriminate|]. intros (H & _). discriminate. }
  rewrite add_methods_spec. cbn [r_bare r_clear r_methods map app].
  fold (sels_distinct ms). rewrite sels_distinct_NoDup, forallb_forall, Forall_forall.
  assert (Hm : forall m, method_ok m = true <-> reg_method_ok m).
  { intro m. unfold method_ok, reg_method_ok, mc_post_init_ok.
    rewrite andb_true_iff, negb_true_iff, cc_eqb_eq. tauto. }
  split.
  - intros (H1 & H2 & H3). split; [reflexivity|]. split; [|split; assumption].
    intros m Hin. apply Hm. now apply H1.
  - intros (_ & H1 & H2 & H3). split; [|split; assumption].
    intros m Hin. apply Hm. now apply H1.
Qed.

Lemma register_ok_cfg_ok : forall b cl ms r, register b cl ms = RegOk r -> cfg_ok r = true.
Proof.
  intros b cl ms r H. apply registration_lemma in H. destruct H as (Hb & Hm & Hd & ->).
  unfold cfg_ok. cbn [r_bare r_methods]. rewrite Hb. cbn [andb].
  apply andb_true_iff. split.
  - apply forallb_forall. intros m Hin. rewrite Forall_forall in Hm. specialize (Hm m Hin).
    destruct Hm as [H1 H2]. unfold method_ok, mc_post_init_ok. rewrite H1, H2. reflexivity.
  - now apply sels_distinct_NoDup.
Qed.

(* which error: a never-executed method and a re-registered selector are refused with the matching error
   (for a router whose earlier registrations succeeded) *)
Lemma add_never_rejected : forall r m,
  mc_post_init_ok (m_cfg m) = true -> mc_is_never (m_cfg m) = true ->
  add_method_handler r m = RegErr ErrNeverExecuted.
Proof. intros r m H1 H2. unfold add_method_handler. now rewrite H1, H2. Qed.

Lemma add_duplicate_rejected : forall r m m',
  mc_post_init_ok (m_cfg m) = true -> mc_is_never (m_cfg m) = false ->
  In m' (r_methods r) -> m_sel m' = m_sel m ->
  add_method_handler r m = RegErr ErrReRegistering.
Proof.
  intros r m m' H1 H2 Hin He. unfold add_method_handler. rewrite H1, H2. cbn [negb].
  assert (selector_registered (m_sel m) (r_methods r) = true) as ->; [|reflexivity].
  unfold selector_registered. apply existsb_exists. exists m'. split; [assumption|].
  rewrite He. apply rd_bytes_eqb_refl.
Qed.
