(* Proofs/PrologueProof.v — C02: the two calling conventions.
   - scratch convention (AVM 4-7 or frame pointers off): the prologue [store slot_(n-1); ...; store slot_0]
     binds parameter i to argument i and removes the arguments from the stack; [load slot_i] reads it;
   - frame-pointer convention (AVM 8+): after [callsub; proto A R], [frame_dig (i - A)] pushes
     argument i whatever has been pushed above the frame pointer in between; [retsub] (preceded by
     [frame_bury 0] when locals live above the return cell) delivers exactly the result on top of the
     caller's operands, arguments removed.
   The frame-pointer lemmas are about the reference machine [AVM.Machine.step]. *)
From Coq Require Import String.
From Coq Require Import Arith NArith Bool Lia List.
From PV Require Import Base.Bytes AVM.Syntax AVM.Ops AVM.Machine Src.Expr Comp.Lower Comp.Passes Comp.Compile
  Comp.SpillSem Proofs.SpillProof.
Import ListNotations.
Notation length := List.length.

(* ------------------------------------------------------------------------------------------ *)
(* list lemmas                                                                                  *)
(* ------------------------------------------------------------------------------------------ *)
Lemma nth_error_rev {A} (l : list A) : forall i, (i < length l)%nat ->
  nth_error (rev l) (length l - 1 - i) = nth_error l i.
Proof.
  induction l as [|x l IH]; intros i Hi; cbn [length] in *; [lia|].
  cbn [rev]. destruct i as [|j].
  - replace (S (length l) - 1 - 0)%nat with (length (rev l)) by (rewrite rev_length; lia).
    rewrite nth_error_app_mid. reflexivity.
  - rewrite nth_error_app1 by (rewrite rev_length; lia).
    replace (S (length l) - 1 - S j)%nat with (length l - 1 - j)%nat by lia.
    cbn [nth_error]. apply IH. lia.
Qed.

Lemma list_update_app_mid {A} (P : list A) (x v : A) (R : list A) :
  list_update (P ++ x :: R) (length P) v = P ++ v :: R.
Proof. induction P as [|p P IH]; cbn [app length list_update]; [reflexivity|]. rewrite IH. reflexivity. Qed.

Lemma combine_app_eq {A B} (l1 l2 : list A) (k1 k2 : list B) : length l1 = length k1 ->
  combine (l1 ++ l2) (k1 ++ k2) = combine l1 k1 ++ combine l2 k2.
Proof.
  revert k1; induction l1 as [|a l1 IH]; intros [|b k1] H; try discriminate; cbn [app combine]; [reflexivity|].
  rewrite IH by (cbn [length] in H; lia). reflexivity.
Qed.

Lemma combine_rev {A B} (l : list A) : forall (k : list B), length l = length k ->
  combine (rev l) (rev k) = rev (combine l k).
Proof.
  induction l as [|a l IH]; intros [|b k] H; try discriminate; [reflexivity|].
  cbn [rev combine]. rewrite combine_app_eq by (rewrite !rev_length; cbn [length] in H; lia).
  rewrite IH by (cbn [length] in H; lia). reflexivity.
Qed.

Lemma nth_error_combine {A B} (l : list A) : forall (k : list B) i a b,
  nth_error l i = Some a -> nth_error k i = Some b -> In (a, b) (combine l k).
Proof.
  induction l as [|x l IH]; intros [|y k] [|i] a b Ha Hb; try discriminate; cbn [nth_error combine In] in *.
  - left. congruence.
  - right. eapply IH; eassumption.
Qed.

(* ------------------------------------------------------------------------------------------ *)
(* scratch convention                                                                           *)
(* ------------------------------------------------------------------------------------------ *)
(* binding: store, one after the other, value [v] into slot [s] for every pair of [combine rs vs] *)
Definition bind_slots (rs : list N) (vs : list value) (m1 : scratch) : scratch :=
  fold_left (fun acc sv => supd acc (fst sv) (snd sv)) (combine rs vs) m1.

Lemma bind_slots_other rs : forall vs m1 n, ~ In n rs -> bind_slots rs vs m1 n = m1 n.
Proof.
  induction rs as [|s rs IH]; intros [|v vs] m1 n Hn; try reflexivity.
  unfold bind_slots in *. cbn [combine fold_left fst snd].
  rewrite IH by (intro H; apply Hn; right; exact H).
  unfold supd. destruct (N.eqb_spec n s) as [->|_]; [|reflexivity]. exfalso. apply Hn. left. reflexivity.
Qed.

Lemma bind_slots_in rs : NoDup rs -> forall vs m1 s v, In (s, v) (combine rs vs) -> bind_slots rs vs m1 s = v.
Proof.
  induction 1 as [|s0 rs Hni _ IH]; intros [|v0 vs] m1 s v Hin; try contradiction.
  unfold bind_slots in *. cbn [combine fold_left fst snd]. cbn [combine In] in Hin.
  destruct Hin as [E|Hin].
  - injection E as Es Ev. subst s0 v0. fold (bind_slots rs vs (supd m1 s v)).
    rewrite bind_slots_other by exact Hni. unfold supd. rewrite N.eqb_refl. reflexivity.
  - apply IH. exact Hin.
Qed.

Section Scratch.
Variable callee : callee_t.
Variable na : nat.

Lemma run_bind rs : Forall slot_ok rs -> forall vs X m1, length vs = length rs ->
  srun callee na (map (OpI O_store) rs) (vs ++ X) m1 = Some (X, bind_slots rs vs m1).
Proof.
  induction 1 as [|s t Hs _ IH]; intros [|v vs] X m1 Hl; try discriminate; [reflexivity|].
  cbn [map app]. rewrite (srun_cons _ _ _ _ _ _ _ _ (sstep_store callee na s v _ m1 Hs)).
  rewrite IH by (cbn [length] in Hl; lia). reflexivity.
Qed.

(* the scratch prologue of a subroutine: one [store] per parameter, in REVERSED parameter order *)
Definition scratch_prologue (slots : list N) : list comp := map (OpI O_store) (rev slots).

Theorem prologue_scratch :
  forall (slots : list N) (args S : list value) (m : scratch),
    NoDup slots -> Forall slot_ok slots -> length args = length slots ->
    exists m',
      srun callee na (scratch_prologue slots) (rev args ++ S) m = Some (S, m')
      /\ (forall i s v, nth_error slots i = Some s -> nth_error args i = Some v ->
            m' s = v
            /\ forall stk, sstep callee na (OpI O_load s) stk m' = Some (v :: stk, m'))
      /\ (forall n, ~ In n slots -> m' n = m n).
Proof.
  intros slots args S m Hnd Hs Hl.
  exists (bind_slots (rev slots) (rev args) m). split; [|split].
  - unfold scratch_prologue. apply run_bind.
    + apply Forall_forall. intros x Hx. apply in_rev in Hx. revert x Hx. apply Forall_forall. exact Hs.
    + rewrite !rev_length. exact Hl.
  - intros i s v Hi Hv.
    assert (Hm : bind_slots (rev slots) (rev args) m s = v).
    { apply bind_slots_in; [apply NoDup_rev; exact Hnd|].
      rewrite combine_rev by (symmetry; exact Hl). apply -> in_rev.
      eapply nth_error_combine; eassumption. }
    split; [exact Hm|]. intros stk. rewrite sstep_load.
    + rewrite Hm. reflexivity.
    + apply nth_error_In in Hi. exact (proj1 (Forall_forall slot_ok slots) Hs s Hi).
  - intros n Hn. apply bind_slots_other. intro H. apply Hn. apply in_rev. exact H.
Qed.

End Scratch.

(* the model's declaration body under the scratch convention is exactly: reversed stores, then the body;
   and a parameter is read with [load] of its slot *)
Lemma decl_body_scratch_shape o r : o_use_fp o = false ->
  decl_body o r =
  ESeq (map (fun '(_, slot) => EOp O_store [ASlot slot] TNone []) (rev (r_params r)) ++ [r_body r]).
Proof. intros H. unfold decl_body. rewrite H. reflexivity. Qed.

Lemma param_instr_scratch o r i byref slot : o_use_fp o = false ->
  nth_error (r_params r) (N.to_nat i) = Some (byref, slot) ->
  param_instr o r i = mkI O_load [ASlot slot].
Proof. intros H Hn. unfold param_instr. rewrite Hn, H. reflexivity. Qed.

Lemma param_instr_fp o r i slot : o_use_fp o = true ->
  nth_error (r_params r) (N.to_nat i) = Some (false, slot) ->
  param_instr o r i = mkI O_frame_dig [AStr (neg_index (r_nargs r) i)].
Proof. intros H Hn. unfold param_instr. rewrite Hn, H. reflexivity. Qed.

(* ------------------------------------------------------------------------------------------ *)
(* frame-pointer convention, on the reference machine                                           *)
(* ------------------------------------------------------------------------------------------ *)
Section FP.
Variable cx : ctx.
Variable p : program.

Lemma stack_ok_false (m : mach) : (height m <= STACK_MAX)%nat -> (STACK_MAX <? height m)%nat = false.
Proof. intros H. apply Nat.ltb_ge. exact H. Qed.

(* [callsub l] then [proto A R]: the frame records the height with the arguments on top *)
Theorem callsub_proto_steps :
  forall (m : mach) (l : string) (t : nat) (A R : N),
    nth_error (pr_code p) (m_pc m) = Some (mkP O_callsub [IName l]) ->
    label_pc p l = Some t ->
    nth_error (pr_code p) t = Some (mkP O_proto [IInt A; IInt R]) ->
    (height m <= STACK_MAX)%nat -> (N.to_nat A <= height m)%nat ->
    let m1 := mkM t (m_stack m) (mkFrame (S (m_pc m)) None :: m_calls m) true (m_intc m) (m_bytec m) (m_st m) in
    step cx p m = Running m1 /\
    step cx p m1 =
    Running (mkM (S t) (m_stack m)
                 (mkFrame (S (m_pc m)) (Some (height m, N.to_nat A, N.to_nat R)) :: m_calls m)
                 false (m_intc m) (m_bytec m) (m_st m)).
Proof.
  intros m l t A R Hc Hl Hp Hh HA m1. split.
  - unfold step. rewrite Hc, (stack_ok_false m Hh). cbn [p_op p_imms].
    change (exec_op cx O_callsub [IName l] (m_stack m) (m_st m)) with ONot. cbn iota. rewrite Hl. reflexivity.
  - unfold step. unfold m1 at 1. cbn [m_pc]. rewrite Hp.
    replace (STACK_MAX <? height m1)%nat with false by (symmetry; apply Nat.ltb_ge; exact Hh).
    cbn [p_op p_imms].
    change (exec_op cx O_proto [IInt A; IInt R] (m_stack m1) (m_st m1)) with ONot. cbn iota.
    unfold m1. cbn [m_from_callsub m_calls m_stack m_intc m_bytec m_st f_ret height].
    replace (N.to_nat A <=? height {| m_pc := t; m_stack := m_stack m; m_calls := {| f_ret := S (m_pc m); f_proto := None |} :: m_calls m;
                                      m_from_callsub := true; m_intc := m_intc m; m_bytec := m_bytec m; m_st := m_st m |})%nat
      with true by (symmetry; apply Nat.leb_le; exact HA).
    reflexivity.
Qed.

(* arithmetic of [frame_index] / [from_bottom]: argument i of A sits at frame index i - A *)
Lemma frame_arg_lookup (A i : nat) (args locals C : list value) :
  length args = A -> (i < A)%nat -> (A <= 128)%nat ->
  exists idx pos,
    frame_index (length (rev args ++ C)) A (256 - N.of_nat (A - i)) = Some idx
    /\ from_bottom (locals ++ rev args ++ C) idx = Some pos
    /\ nth_error (locals ++ rev args ++ C) pos = nth_error args i.
Proof.
  intros Hl Hi HA.
  exists (length C + i)%nat, (length locals + (A - 1 - i))%nat. split; [|split].
  - unfold frame_index.
    replace (256 - N.of_nat (A - i) <? 128)%N with false by (symmetry; apply N.ltb_ge; lia).
    replace (N.to_nat (256 - (256 - N.of_nat (A - i)))) with (A - i)%nat by lia.
    replace (A - i <=? A)%nat with true by (symmetry; apply Nat.leb_le; lia).
    rewrite app_length, rev_length, Hl. f_equal. lia.
  - unfold from_bottom. rewrite !app_length, rev_length, Hl.
    replace (length C + i <? length locals + (A + length C))%nat with true
      by (symmetry; apply Nat.ltb_lt; lia).
    f_equal. lia.
  - rewrite nth_error_app2 by lia.
    replace (length locals + (A - 1 - i) - length locals)%nat with (A - 1 - i)%nat by lia.
    rewrite nth_error_app1 by (rewrite rev_length; lia).
    rewrite <- Hl. apply nth_error_rev. lia.
Qed.

(* [frame_dig (i - A)] pushes argument i, for every content [locals] above the frame pointer *)
Theorem prologue_fp :
  forall (m : mach) (ret : nat) (fs : list frame) (A R i : nat) (args locals C : list value) (v : value),
    m_calls m = mkFrame ret (Some (length (rev args ++ C), A, R)) :: fs ->
    m_stack m = locals ++ rev args ++ C ->
    length args = A -> (A <= 128)%nat -> nth_error args i = Some v ->
    (height m <= STACK_MAX)%nat ->
    nth_error (pr_code p) (m_pc m) = Some (mkP O_frame_dig [IInt (256 - N.of_nat (A - i))]) ->
    step cx p m = Running (with_pc_stack m (S (m_pc m)) (v :: m_stack m)).
Proof.
  intros m ret fs A R i args locals C v Hc Hst Hl HA Hv Hh Hcode.
  assert (Hi : (i < A)%nat) by (rewrite <- Hl; apply nth_error_Some; congruence).
  destruct (frame_arg_lookup A i args locals C Hl Hi HA) as [idx [pos [H1 [H2 H3]]]].
  unfold step. rewrite Hcode, (stack_ok_false m Hh). cbn [p_op p_imms].
  change (exec_op cx O_frame_dig [IInt (256 - N.of_nat (A - i))] (m_stack m) (m_st m)) with ONot.
  cbn iota. rewrite Hc. cbn [f_proto]. rewrite H1, Hst, H2, H3, Hv. reflexivity.
Qed.

(* [retsub] under [proto A R]: everything above the R cells at the frame pointer is dropped, the
   arguments are removed, the R cells land on the caller's operands *)
Lemma retsub_stack (A : nat) (above rs args C : list value) :
  length args = A ->
  let h := length (rev args ++ C) in
  let bf := rev (above ++ rs ++ rev args ++ C) in
  rev (firstn (h - A) bf ++ firstn (length rs) (skipn h bf)) = rs ++ C.
Proof.
  intros Hl h bf. unfold bf, h.
  rewrite !rev_app_distr, rev_involutive, <- !app_assoc.
  rewrite app_length, rev_length, Hl.
  replace (A + length C - A)%nat with (length (rev C)) by (rewrite rev_length; lia).
  rewrite firstn_app, Nat.sub_diag, firstn_all, firstn_O, app_nil_r.
  replace (A + length C)%nat with (length (rev C ++ args)) by (rewrite app_length, rev_length; lia).
  rewrite (app_assoc (rev C) args), skipn_app, Nat.sub_diag, skipn_all. cbn [skipn app].
  rewrite <- (rev_length rs), firstn_app, Nat.sub_diag, firstn_all, firstn_O, app_nil_r.
  rewrite !rev_involutive. reflexivity.
Qed.

Theorem retsub_fp_general :
  forall (m : mach) (ret : nat) (fs : list frame) (A R : nat) (imms : list imm)
         (above rs args C : list value),
    m_calls m = mkFrame ret (Some (length (rev args ++ C), A, R)) :: fs ->
    m_stack m = above ++ rs ++ rev args ++ C ->
    length args = A -> length rs = R ->
    (height m <= STACK_MAX)%nat ->
    nth_error (pr_code p) (m_pc m) = Some (mkP O_retsub imms) ->
    step cx p m = Running (mkM ret (rs ++ C) fs false (m_intc m) (m_bytec m) (m_st m)).
Proof.
  intros m ret fs A R imms above rs args C Hc Hst Hl HR Hh Hcode.
  unfold step. rewrite Hcode, (stack_ok_false m Hh). cbn [p_op p_imms].
  change (exec_op cx O_retsub imms (m_stack m) (m_st m)) with ONot.
  cbn iota. rewrite Hc. cbn [f_proto f_ret].
  replace (length (rev args ++ C) + R <=? height m)%nat with true.
  - rewrite Hst. rewrite <- HR. rewrite (retsub_stack A above rs args C Hl). reflexivity.
  - symmetry. apply Nat.leb_le. unfold height. rewrite Hst, !app_length. lia.
Qed.

(* R = 1, nothing but the result above the frame pointer: plain [retsub] *)
Theorem retsub_fp_no_locals :
  forall (m : mach) (ret : nat) (fs : list frame) (A : nat) (imms : list imm)
         (result : value) (args C : list value),
    m_calls m = mkFrame ret (Some (length (rev args ++ C), A, 1%nat)) :: fs ->
    m_stack m = result :: rev args ++ C ->
    length args = A -> (height m <= STACK_MAX)%nat ->
    nth_error (pr_code p) (m_pc m) = Some (mkP O_retsub imms) ->
    step cx p m = Running (mkM ret (result :: C) fs false (m_intc m) (m_bytec m) (m_st m)).
Proof.
  intros m ret fs A imms result args C Hc Hst Hl Hh Hcode.
  apply (retsub_fp_general m ret fs A 1 imms [] [result] args C); auto.
Qed.

(* R = 0: [retsub] drops every local and the arguments *)
Theorem retsub_fp_none :
  forall (m : mach) (ret : nat) (fs : list frame) (A : nat) (imms : list imm)
         (locals args C : list value),
    m_calls m = mkFrame ret (Some (length (rev args ++ C), A, 0%nat)) :: fs ->
    m_stack m = locals ++ rev args ++ C ->
    length args = A -> (height m <= STACK_MAX)%nat ->
    nth_error (pr_code p) (m_pc m) = Some (mkP O_retsub imms) ->
    step cx p m = Running (mkM ret C fs false (m_intc m) (m_bytec m) (m_st m)).
Proof.
  intros m ret fs A imms locals args C Hc Hst Hl Hh Hcode.
  apply (retsub_fp_general m ret fs A 0 imms locals [] args C); auto.
Qed.

(* R = 1 with locals: the result is on top of [above ++ [cell0]] (cell0 = frame index 0);
   [frame_bury 0] writes it into cell0, [retsub] delivers it *)
Theorem retsub_fp :
  forall (m : mach) (ret : nat) (fs : list frame) (A : nat) (imms : list imm)
         (result cell0 : value) (above args C : list value),
    m_calls m = mkFrame ret (Some (length (rev args ++ C), A, 1%nat)) :: fs ->
    m_stack m = result :: above ++ cell0 :: rev args ++ C ->
    length args = A -> (height m <= STACK_MAX)%nat ->
    nth_error (pr_code p) (m_pc m) = Some (mkP O_frame_bury [IInt 0]) ->
    nth_error (pr_code p) (S (m_pc m)) = Some (mkP O_retsub imms) ->
    let m1 := with_pc_stack m (S (m_pc m)) (above ++ result :: rev args ++ C) in
    step cx p m = Running m1 /\
    step cx p m1 = Running (mkM ret (result :: C) fs false (m_intc m) (m_bytec m) (m_st m)).
Proof.
  intros m ret fs A imms result cell0 above args C Hc Hst Hl Hh Hb Hr m1. split.
  - unfold step. rewrite Hb, (stack_ok_false m Hh). cbn [p_op p_imms].
    change (exec_op cx O_frame_bury [IInt 0] (m_stack m) (m_st m)) with ONot.
    cbn iota. rewrite Hst, Hc. cbn [f_proto].
    unfold frame_index. cbn [N.ltb N.compare Pos.compare N.to_nat]. change (0 <? 128)%N with true. cbn iota.
    rewrite Nat.add_0_r. unfold from_bottom.
    replace (length (rev args ++ C) <? length (above ++ cell0 :: rev args ++ C))%nat with true
      by (symmetry; apply Nat.ltb_lt; rewrite !app_length; cbn [length]; rewrite app_length; lia).
    replace (length (above ++ cell0 :: rev args ++ C) - 1 - length (rev args ++ C))%nat with (length above)
      by (rewrite !app_length; cbn [length]; rewrite app_length; lia).
    rewrite list_update_app_mid. reflexivity.
  - assert (H : step cx p m1 = Running (mkM ret ([result] ++ C) fs false (m_intc m1) (m_bytec m1) (m_st m1))).
    { apply (retsub_fp_general m1 ret fs A 1 imms above [result] args C); auto.
      unfold m1, height, with_pc_stack in *. cbn [m_stack]. rewrite Hst in Hh.
      cbn [length] in Hh. rewrite !app_length in *. cbn [length] in *. rewrite app_length in *. lia. }
    exact H.
Qed.

End FP.
