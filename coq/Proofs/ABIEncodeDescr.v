(* Proofs/ABIEncodeDescr.v — PyTeal's type descriptors (ABI/Encode.v: py_is_dynamic, py_byte_length_static,
   the _bool_aware_static_byte_length loop) agree with the ARC-4 spec (ABI/Spec.v: is_dynamic, static_len).
   (str(type_spec) = type_str is Proofs/ABIDescrProof.v py_str_type_str.) *)
From Coq Require Import List Arith NArith Ascii String Bool Lia.
From PV Require Import Base.Bytes ABI.Types ABI.Spec ABI.Encode.
Import ListNotations.
Local Open Scope N_scope.

Lemma existsb_ext_Forall : forall {A} (f g : A -> bool) l,
    Forall (fun x => f x = g x) l -> existsb f l = existsb g l.
Proof. intros A f g l H. induction H as [|x r Hx _ IH]; simpl; [reflexivity | rewrite Hx, IH; reflexivity]. Qed.

Lemma forallb_ext_Forall : forall {A} (f g : A -> bool) l,
    Forall (fun x => f x = g x) l -> forallb f l = forallb g l.
Proof. intros A f g l H. induction H as [|x r Hx _ IH]; simpl; [reflexivity | rewrite Hx, IH; reflexivity]. Qed.

Theorem py_is_dynamic_agrees : forall t, py_is_dynamic t = is_dynamic t.
Proof.
  (* the two fixpoints compile to the same case analysis; the induction is kept so that a divergence
     of the model shows up case by case *)
  induction t as [| | n | | | e n IH | e IH | nm ts IH | n | | k | k] using ty_ind'; simpl; try reflexivity;
    try exact IH; try (apply existsb_ext_Forall; exact IH).
Qed.

Lemma bool_sequence_length_spec : forall n, bool_sequence_length n = bool_seq_len n.
Proof. intro n. unfold bool_sequence_length, bool_seq_len. f_equal. lia. Qed.

(* ---- the ignoreNext loop computes the run-packed length ---- *)
Definition lift (l : list (bool * N)) : list (bool * option N) := map (fun x => (fst x, Some (snd x))) l.

Lemma consecutive_lift : forall l, consecutive_true (map fst (lift l)) = consecutive_true (map fst l).
Proof. intro l. unfold lift. rewrite map_map. reflexivity. Qed.

Lemma bool_aware_len_spec : forall l,
    bool_aware_len (lift l) 0 = Some (seq_static_len l 0) /\
    forall k, option_map (N.add (bool_seq_len (k + N.of_nat (consecutive_true (map fst l)))))
                         (bool_aware_len (lift l) (consecutive_true (map fst l)))
              = Some (seq_static_len l k).
Proof.
  induction l as [|[b n] r [IHA IHB]].
  - split; [reflexivity|]. intro k. simpl. rewrite N.add_0_r, N.add_0_r. reflexivity.
  - destruct b.
    + (* a bool *)
      assert (Hct : consecutive_true (map fst ((true, n) :: r)) = S (consecutive_true (map fst r))) by reflexivity.
      split.
      * cbn [lift map bool_aware_len fst snd consecutive_true]. fold (lift r). rewrite consecutive_lift.
        replace (S (consecutive_true (map fst r)) - 1)%nat with (consecutive_true (map fst r)) by lia.
        rewrite bool_sequence_length_spec. cbn [seq_static_len].
        specialize (IHB (0 + 1)). rewrite <- IHB. f_equal. f_equal. f_equal. lia.
      * intro k. rewrite Hct. cbn [lift map bool_aware_len fst snd]. fold (lift r).
        cbn [seq_static_len]. rewrite <- (IHB (k + 1)). f_equal. f_equal. f_equal. lia.
    + (* not a bool *)
      split.
      * cbn [lift map bool_aware_len fst snd obind]. fold (lift r). rewrite IHA. simpl. reflexivity.
      * intro k. cbn [map fst consecutive_true]. rewrite N.add_0_r.
        cbn [lift map bool_aware_len fst snd obind]. fold (lift r). rewrite IHA. simpl.
        f_equal. lia.
Qed.

Lemma static_len_opt_static : forall t, is_dynamic t = false -> has_txn t = false ->
    static_len_opt t = Some (static_len t).
Proof.
  intros t Hd Ht. unfold static_len_opt. rewrite Hd. destruct t; try reflexivity. discriminate.
Qed.

Theorem py_byte_length_static_agrees : forall t, has_txn t = false ->
    py_byte_length_static t = static_len_opt t.
Proof.
  induction t as [| | n | | | e n IH | e IH | nm ts IH | n | | k | k] using ty_ind'; intro Ht;
    try reflexivity; try discriminate.
  - (* T[n] *)
    simpl in Ht. cbn [py_byte_length_static]. unfold static_len_opt. cbn [is_dynamic].
    rewrite py_is_dynamic_agrees. destruct (is_dynamic e) eqn:Hd; [reflexivity|].
    cbn [static_len]. destruct (is_bool e); [rewrite bool_sequence_length_spec; reflexivity|].
    rewrite (IH Ht), (static_len_opt_static e Hd Ht). reflexivity.
  - (* tuple *)
    simpl in Ht. cbn [py_byte_length_static]. unfold static_len_opt. cbn [is_dynamic].
    rewrite (existsb_ext_Forall py_is_dynamic is_dynamic ts)
      by (apply Forall_forall; intros; apply py_is_dynamic_agrees).
    destruct (existsb is_dynamic ts) eqn:Hd; [reflexivity|].
    cbn [static_len].
    replace (map (fun x => (is_bool x, py_byte_length_static x)) ts)
      with (lift (map (fun x => (is_bool x, static_len x)) ts)).
    + apply (proj1 (bool_aware_len_spec _)).
    + unfold lift. rewrite map_map. cbn [fst snd].
      clear nm. induction IH as [|x r Hx _ IHr]; [reflexivity|].
      simpl in Ht, Hd. apply orb_false_iff in Ht as [Ht1 Ht2]. apply orb_false_iff in Hd as [Hd1 Hd2].
      cbn [map]. rewrite (Hx Ht1), (static_len_opt_static x Hd1 Ht1), (IHr Ht2 Hd2). reflexivity.
  - (* byte[n] *)
    cbn [py_byte_length_static omul option_map]. unfold static_len_opt. simpl.
    f_equal. change (8 / 8) with 1. lia.
Qed.

Lemma encodable_no_txn : forall t, encodable t = true -> has_txn t = false.
Proof.
  induction t as [| | n | | | e n IH | e IH | nm ts IH | n | | k | k] using ty_ind'; intro H;
    try reflexivity; try discriminate; simpl in *.
  - exact (IH H).
  - exact (IH H).
  - induction IH as [|x r Hx _ IHr]; [reflexivity|]. simpl in *.
    apply andb_true_iff in H as [H1 H2]. rewrite (Hx H1), (IHr H2). reflexivity.
Qed.

Lemma pyteal_ty_encodable : forall t, pyteal_ty t = true -> encodable t = true.
Proof.
  induction t as [| | n | | | e n IH | e IH | nm ts IH | n | | k | k] using ty_ind'; intro H;
    try reflexivity; try discriminate; simpl in *.
  - unfold pyteal_uint_bits in H. unfold valid_uint_bits.
    repeat (apply orb_true_iff in H as [H|H]); apply N.eqb_eq in H; subst; reflexivity.
  - exact (IH H).
  - exact (IH H).
  - induction IH as [|x r Hx _ IHr]; [reflexivity|]. simpl in *.
    apply andb_true_iff in H as [H1 H2]. rewrite (Hx H1), (IHr H2). reflexivity.
Qed.

(* for a static type without transaction specs: the length PyTeal uses unguarded *)
Lemma bls_static : forall t, is_dynamic t = false -> has_txn t = false -> bls t = static_len t.
Proof.
  intros t Hd Ht. unfold bls. rewrite (py_byte_length_static_agrees t Ht), (static_len_opt_static t Hd Ht).
  reflexivity.
Qed.
