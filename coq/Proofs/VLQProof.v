(* Proofs/VLQProof.v — round trip of the hand model Lit/VLQ.v for all integers. *)
From Coq Require Import ZArith List Bool Ascii String Lia.
From PV Require Import Lit.VLQ.
Import ListNotations.
Local Open Scope Z_scope.

(* ---- finite facts about the 64 digits ---- *)
Definition digits64 : list Z := map Z.of_nat (seq 0 64).
Definition digits32 : list Z := map Z.of_nat (seq 0 32).

Lemma in_digits : forall n d, 0 <= d < Z.of_nat n -> In d (map Z.of_nat (seq 0 n)).
Proof.
  intros n d H. rewrite <- (Z2Nat.id d) by lia.
  apply in_map. apply in_seq. lia.
Qed.

Lemma digit_char_val : forall d, 0 <= d < 64 -> b64_val (b64_char d) = Some d.
Proof.
  intros d H.
  assert (A : forallb (fun d => match b64_val (b64_char d) with Some x => x =? d | None => false end) digits64 = true)
    by (vm_compute; reflexivity).
  rewrite forallb_forall in A. specialize (A d (in_digits 64 d H)).
  destruct (b64_val (b64_char d)) as [x|]; [|discriminate].
  apply Z.eqb_eq in A. congruence.
Qed.

Lemma digit_bits : forall d, 0 <= d < 32 ->
  Z.land d 31 = d /\ Z.land d 32 = 0 /\ Z.land (d + 32) 31 = d /\ Z.land (d + 32) 32 = 32.
Proof.
  intros d H.
  assert (A : forallb (fun d => (Z.land d 31 =? d) && (Z.land d 32 =? 0) && (Z.land (d + 32) 31 =? d) && (Z.land (d + 32) 32 =? 32)) digits32 = true)
    by (vm_compute; reflexivity).
  rewrite forallb_forall in A. specialize (A d (in_digits 32 d H)).
  repeat (apply andb_prop in A; destruct A as [A ?]).
  repeat match goal with E : (_ =? _) = true |- _ => apply Z.eqb_eq in E end.
  auto.
Qed.

(* ---- sign folding ---- *)
Lemma vlq_sign_nonneg : forall z, 0 <= vlq_sign z.
Proof. intros z. unfold vlq_sign. destruct (z <? 0); lia. Qed.

Lemma vlq_unsign_sign : forall z, vlq_unsign (vlq_sign z) = z.
Proof.
  intros z. unfold vlq_sign, vlq_unsign.
  destruct (Z.ltb_spec z 0) as [Hn|Hp].
  - replace (2 * Z.abs z + 1) with (1 + 2 * Z.abs z) by lia.
    rewrite Z.odd_add_mul_2. cbn [Z.odd].
    replace (1 + 2 * Z.abs z) with (1 + Z.abs z * 2) by lia.
    rewrite Z.div_add by lia. cbn. lia.
  - replace (2 * Z.abs z + 0) with (0 + 2 * Z.abs z) by lia.
    rewrite Z.odd_add_mul_2. cbn [Z.odd].
    replace (0 + 2 * Z.abs z) with (0 + Z.abs z * 2) by lia.
    rewrite Z.div_add by lia. cbn. lia.
Qed.

(* ---- digits ---- *)
Lemma div32_small : forall f n, 0 <= n < 2 ^ Z.of_nat (S f) -> 0 <= n / 32 < 2 ^ Z.of_nat f.
Proof.
  intros f n [H0 H1]. split.
  - apply Z.div_pos; lia.
  - rewrite Nat2Z.inj_succ, Z.pow_succ_r in H1 by lia.
    apply Z.div_lt_upper_bound; lia.
Qed.

Lemma vlq_digits_fuel_irrelevant : forall f1 f2 n,
  0 <= n < 2 ^ Z.of_nat f1 -> n < 2 ^ Z.of_nat f2 -> vlq_digits f1 n = vlq_digits f2 n.
Proof.
  induction f1 as [|a IH]; intros f2 n H1 H2.
  - cbn in H1. assert (n = 0) by lia. subst n. destruct f2; reflexivity.
  - destruct f2 as [|b].
    + cbn in H2. assert (n = 0) by lia. subst n. reflexivity.
    + cbn [vlq_digits]. destruct (n / 32 =? 0); [reflexivity|].
      f_equal. apply IH.
      * apply div32_small; exact H1.
      * apply (div32_small b n). lia.
Qed.

Lemma vlq_fuel_adequate : forall n, 0 <= n -> n < 2 ^ Z.of_nat (vlq_fuel n).
Proof.
  intros n H. unfold vlq_fuel.
  destruct (Z.eq_dec n 0) as [->|Hn].
  - cbn. lia.
  - rewrite Z2Nat.id by (pose proof (Z.log2_nonneg n); lia).
    replace (Z.log2 n + 1) with (Z.succ (Z.log2 n)) by lia.
    apply Z.log2_spec. lia.
Qed.

Lemma vlq_digits_range : forall f n, 0 <= n -> Forall (fun d => 0 <= d < 64) (vlq_digits f n).
Proof.
  induction f as [|f IH]; intros n H; cbn [vlq_digits].
  - constructor; [|constructor]. pose proof (Z.mod_pos_bound n 32). lia.
  - pose proof (Z.mod_pos_bound n 32).
    destruct (n / 32 =? 0).
    + constructor; [lia|constructor].
    + constructor; [lia|]. apply IH. apply Z.div_pos; lia.
Qed.

Lemma vlq_digits_nonempty : forall f n, vlq_digits f n <> [].
Proof. intros [|f] n; cbn [vlq_digits]; [discriminate|]. destruct (n / 32 =? 0); discriminate. Qed.

(* the decoder reads back one number, whatever follows *)
Lemma vlq_dec_digits : forall f n rest shift value,
  0 <= n < 2 ^ Z.of_nat f -> 0 <= shift ->
  vlq_dec (vlq_digits f n ++ rest) shift value = vlq_unsign (value + n * 2 ^ shift) :: vlq_dec rest 0 0.
Proof.
  induction f as [|f IH]; intros n rest shift value Hn Hs.
  - cbn in Hn. assert (n = 0) by lia. subst n.
    cbn [vlq_digits app vlq_dec]. change (0 mod 32) with 0. cbn [Z.land Z.eqb Z.mul]. reflexivity.
  - cbn [vlq_digits].
    pose proof (Z.mod_pos_bound n 32 ltac:(lia)) as Hm.
    destruct (digit_bits (n mod 32) Hm) as (B1 & B2 & B3 & B4).
    pose proof (Z.div_mod n 32 ltac:(lia)) as Hdm.
    destruct (Z.eqb_spec (n / 32) 0) as [Hq|Hq].
    + cbn [app vlq_dec]. rewrite B1, B2. cbn [Z.eqb].
      replace (n mod 32) with n by lia. reflexivity.
    + cbn [app vlq_dec]. rewrite B3, B4. cbn [Z.eqb].
      rewrite IH; [|apply div32_small; exact Hn|lia].
      f_equal. f_equal.
      rewrite Z.pow_add_r by lia. change (2 ^ 5) with 32.
      remember (n / 32) as q. remember (n mod 32) as r. remember (2 ^ shift) as p.
      rewrite Hdm. ring.
Qed.

Lemma vlq_dec_encode_digits : forall l, vlq_dec (vlq_encode_digits l) 0 0 = l.
Proof.
  induction l as [|z l IH]; [reflexivity|].
  unfold vlq_encode_digits in *. cbn [flat_map]. unfold vlq_encode_one at 1.
  rewrite vlq_dec_digits.
  - rewrite IH. f_equal. cbn [Z.pow]. rewrite Z.mul_1_r, Z.add_0_l. apply vlq_unsign_sign.
  - split; [apply vlq_sign_nonneg|]. apply vlq_fuel_adequate. apply vlq_sign_nonneg.
  - lia.
Qed.

Lemma vlq_encode_digits_range : forall l, Forall (fun d => 0 <= d < 64) (vlq_encode_digits l).
Proof.
  induction l as [|z l IH]; [constructor|].
  unfold vlq_encode_digits in *. cbn [flat_map]. apply Forall_app. split; [|exact IH].
  apply vlq_digits_range. apply vlq_sign_nonneg.
Qed.

Lemma vals_of_chars : forall ds, Forall (fun d => 0 <= d < 64) ds -> vals_of (map b64_char ds) = Some ds.
Proof.
  induction ds as [|d ds IH]; intros H; [reflexivity|].
  inversion H as [|? ? Hd Hds]; subst.
  cbn [map vals_of]. rewrite digit_char_val by exact Hd. rewrite IH by exact Hds. reflexivity.
Qed.

Lemma vlq_chars_roundtrip : forall l, vlq_decode_chars (vlq_encode_chars l) = Some l.
Proof.
  intros l. unfold vlq_decode_chars, vlq_encode_chars.
  rewrite vals_of_chars by apply vlq_encode_digits_range.
  rewrite vlq_dec_encode_digits. reflexivity.
Qed.

Lemma vlq_roundtrip_hand : forall l : list Z, vlq_decode (vlq_encode l) = Some l.
Proof.
  intros l. unfold vlq_decode, vlq_encode.
  rewrite list_ascii_of_string_of_list_ascii. apply vlq_chars_roundtrip.
Qed.

(* an encoded non-empty field list is a non-empty text over the alphabet *)
Lemma vlq_encode_chars_nonempty : forall l, l <> [] -> vlq_encode_chars l <> [].
Proof.
  intros [|z l] H; [congruence|].
  unfold vlq_encode_chars, vlq_encode_digits. cbn [flat_map]. unfold vlq_encode_one.
  destruct (vlq_digits (vlq_fuel (vlq_sign z)) (vlq_sign z)) eqn:E.
  - exfalso. exact (vlq_digits_nonempty _ _ E).
  - discriminate.
Qed.

Lemma b64_char_not_sep : forall d, 0 <= d < 64 ->
  b64_char d <> ","%char /\ b64_char d <> ";"%char.
Proof.
  intros d H.
  assert (A : forallb (fun d => negb (Ascii.eqb (b64_char d) ",") && negb (Ascii.eqb (b64_char d) ";")) digits64 = true)
    by (vm_compute; reflexivity).
  rewrite forallb_forall in A. specialize (A d (in_digits 64 d H)).
  apply andb_prop in A. destruct A as [A1 A2].
  apply negb_true_iff in A1, A2. apply Ascii.eqb_neq in A1, A2. auto.
Qed.

Lemma vlq_encode_chars_no_sep : forall l c, (c = ","%char \/ c = ";"%char) -> ~ In c (vlq_encode_chars l).
Proof.
  intros l c Hc Hin. unfold vlq_encode_chars in Hin. apply in_map_iff in Hin.
  destruct Hin as (d & Hd & Hin).
  pose proof (vlq_encode_digits_range l) as R. rewrite Forall_forall in R.
  destruct (b64_char_not_sep d (R d Hin)) as [N1 N2].
  destruct Hc; subst; congruence.
Qed.
