(* Proofs/EndToEndExamples.v — the hypotheses of [routine_end_to_end] are satisfiable on a routine with a
   loop and an If (and the computed run agrees), and the one syntactic side condition
   [head_loop (root_ast ast0) = false] cannot be dropped. *)
From Coq Require Import List Arith NArith String Bool Lia.
From PV Require Import Base.Bytes AVM.Syntax AVM.Machine Src.Expr Src.Denote
  Comp.Blocks Comp.Lower Comp.Passes Comp.GraphSem Comp.LinearSem Comp.SimCheck Comp.Compile
  Proofs.LowerFrame Proofs.LowerLemmas Proofs.LowerCorrect Proofs.LowerShape
  Proofs.NormalizeLowered Proofs.FlattenCorrect Proofs.SortCorrect
  Proofs.EndToEndExits Proofs.EndToEndGlue Proofs.EndToEnd.
From PV Require Import Src.WellTyped.
Import ListNotations.

Definition x_int (n : N) : expr := EOp O_int [AInt n] TUint [].
Definition x_ld : expr := EOp O_load [ASlot 0] TUint [].
Definition x_st (e : expr) : expr := EOp O_store [ASlot 0] TNone [e].

(* i := 0; while i < 3: i := i + 1; if i == 3 then return 1 else return 0 *)
Definition ex_ast : expr :=
  ESeq [ x_st (x_int 0);
         EWhile (EOp O_lt [] TUint [x_ld; x_int 3]) (x_st (ENary O_add TUint [x_ld; x_int 1]));
         EIf (EOp O_eq [] TUint [x_ld; x_int 3]) (EReturn (Some (x_int 1))) (Some (EReturn (Some (x_int 0)))) ].

Definition ex_env1 : denv := mkEnv ex_ctx (fun n => n) [] [] false main_param.

Definition cr_of (o : copts) (ast0 : expr) : croutine :=
  match compile_one o None ast0 with COk cr => cr | CErr _ => mkCR None empty_graph 0 0 end.
Definition order_of (cr : croutine) : list id :=
  match sort_blocks (cr_graph cr) (cr_start cr) (cr_end cr) with Some l => l | None => [] end.
Definition code_of (cr : croutine) : list comp :=
  match flatten_blocks (cr_graph cr) (order_of cr) with Some c => c | None => [] end.

Definition ex_final : mstate := match denote ex_env1 100 (root_ast ex_ast) [] ex_st with DExit _ st => st | _ => ex_st end.

Lemma consistent_main o env : e_in_sub env = false -> (forall i, e_param env i = main_param i) ->
  consistent env (routine_ctx o None).
Proof. intros A B. split; [exact A|exact B]. Qed.

Example routine_end_to_end_example :
  let cr := cr_of opts0 ex_ast in
  compile_one opts0 None ex_ast = COk cr /\
  head_loop (root_ast ex_ast) = false /\
  sort_blocks (cr_graph cr) (cr_start cr) (cr_end cr) = Some (order_of cr) /\
  flatten_blocks (cr_graph cr) (order_of cr) = Some (code_of cr) /\
  consistent ex_env1 (routine_ctx opts0 None) /\
  denote ex_env1 100 (root_ast ex_ast) [] ex_st = DExit (VI 1) ex_final /\
  lstar ex_env1 (code_of cr) (LAt 0 [] ex_st) (LExit (VI 1) ex_final) /\
  lrun 200 ex_env1 (code_of cr) (LAt 0 [] ex_st) = LExit (VI 1) ex_final /\
  List.length (code_of cr) = 22.
Proof.
  intros cr.
  assert (E : compile_one opts0 None ex_ast = COk cr) by (vm_compute; reflexivity).
  assert (HL : head_loop (root_ast ex_ast) = false) by reflexivity.
  assert (HS : sort_blocks (cr_graph cr) (cr_start cr) (cr_end cr) = Some (order_of cr)) by (vm_compute; reflexivity).
  assert (HF : flatten_blocks (cr_graph cr) (order_of cr) = Some (code_of cr)) by (vm_compute; reflexivity).
  assert (Hc : consistent ex_env1 (routine_ctx opts0 None)) by (apply consistent_main; reflexivity).
  assert (Dn : denote ex_env1 100 (root_ast ex_ast) [] ex_st = DExit (VI 1) ex_final) by (vm_compute; reflexivity).
  repeat (split; [assumption|]).
  split; [|split; vm_compute; reflexivity].
  destruct (routine_end_to_end opts0 None ex_ast cr _ _ eq_refl E HL HS HF) as [_ T].
  apply (T ex_env1 Hc 100 [] ex_st). rewrite Dn. reflexivity.
Qed.

(* ---- the side condition on the root is needed ----
   A recipe PyTeal's constructors reject (a While used as an operand) but the model's checks accept:
   the routine's start block is the loop's condition block, whose only predecessor is the last block
   of the loop body; NormalizeBlocks merges that predecessor INTO the start block, so the compiled
   routine begins with the end of the loop body. *)
Definition bad_ast : expr :=
  EReturn (Some (EOp O_int [AInt 1] TUint
                     [EWhile (EOp O_lt [] TUint [x_ld; x_int 3]) (x_st (ENary O_add TUint [x_ld; x_int 1]))])).

Theorem end_to_end_needs_root_condition :
  exists o ast0 cr order code env fuel stk st h,
    compile_one o None ast0 = COk cr /\
    head_loop (root_ast ast0) = true /\
    sort_blocks (cr_graph cr) (cr_start cr) (cr_end cr) = Some order /\
    flatten_blocks (cr_graph cr) order = Some code /\
    consistent env (routine_ctx o None) /\
    halt_of (denote env fuel (root_ast ast0) stk st) = Some h /\
    ~ lstar env code (LAt 0 stk st) h.
Proof.
  pose (cr := cr_of opts0 bad_ast).
  exists opts0, bad_ast, cr, (order_of cr), (code_of cr), ex_env1, 100, [], ex_st,
    (match halt_of (denote ex_env1 100 (root_ast bad_ast) [] ex_st) with Some h => h | None => LFail end).
  split; [vm_compute; reflexivity|]. split; [reflexivity|].
  split; [vm_compute; reflexivity|]. split; [vm_compute; reflexivity|].
  split; [apply consistent_main; reflexivity|]. split; [vm_compute; reflexivity|].
  intros H.
  pose proof (lrun_lstar ex_env1 (code_of cr) 50 (LAt 0 [] ex_st)) as R.
  assert (F1 : lfinal (match halt_of (denote ex_env1 100 (root_ast bad_ast) [] ex_st) with Some h => h | None => LFail end) = true)
    by (vm_compute; reflexivity).
  pose proof (lstar_final_unique _ _ _ _ _ H F1 R) as U.
  vm_compute in U. specialize (U eq_refl). discriminate U.
Qed.

(* the example routine is well-typed in the sense of Src/WellTyped.v (no field table needed) *)
Example ex_ast_well_typed : well_typed (fun _ _ => None) false ex_ast = true.
Proof. vm_compute. reflexivity. Qed.

(* ---- a subroutine: one scratch-convention argument, a loop adding it three times, retsub ---- *)
Definition ex_sub : routine :=
  mkRoutine 1 "f" TUint [(false, 5%N)]
    (ESeq [ EOp O_store [ASlot 0] TNone [x_int 0];
            EOp O_store [ASlot 1] TNone [x_int 0];
            EWhile (EOp O_lt [] TUint [EOp O_load [ASlot 1] TUint []; x_int 3])
                   (ESeq [ x_st (ENary O_add TUint [x_ld; EParam 0]);
                           EOp O_store [ASlot 1] TNone
                               [ENary O_add TUint [EOp O_load [ASlot 1] TUint []; x_int 1]] ]);
            EReturn (Some x_ld) ]) None.

Definition sub_opts : copts := mkOpts 6 true false false (fun _ => 0%N) (fun _ _ => 0%N).
Definition ex_env_sub : denv := mkEnv ex_ctx (fun n => n) [] [] true (param_instr sub_opts ex_sub).
Definition sub_cr : croutine :=
  match compile_one sub_opts (Some ex_sub) (decl_body sub_opts ex_sub) with
  | COk cr => cr | CErr _ => mkCR None empty_graph 0 0 end.
Definition sub_final : mstate :=
  match denote ex_env_sub 100 (root_ast (decl_body sub_opts ex_sub)) [VI 4] ex_st with DRet _ st => st | _ => ex_st end.

Example subroutine_end_to_end_example :
  compile_one sub_opts (Some ex_sub) (decl_body sub_opts ex_sub) = COk sub_cr /\
  sort_blocks (cr_graph sub_cr) (cr_start sub_cr) (cr_end sub_cr) = Some (order_of sub_cr) /\
  flatten_blocks (cr_graph sub_cr) (order_of sub_cr) = Some (code_of sub_cr) /\
  consistent ex_env_sub (routine_ctx sub_opts (Some ex_sub)) /\
  denote ex_env_sub 100 (root_ast (decl_body sub_opts ex_sub)) [VI 4] ex_st = DRet [VI 12] sub_final /\
  lstar ex_env_sub (code_of sub_cr) (LAt 0 [VI 4] ex_st) (LRet [VI 12] sub_final) /\
  lrun 200 ex_env_sub (code_of sub_cr) (LAt 0 [VI 4] ex_st) = LRet [VI 12] sub_final.
Proof.
  assert (E : compile_one sub_opts (Some ex_sub) (decl_body sub_opts ex_sub) = COk sub_cr) by (vm_compute; reflexivity).
  assert (HS : sort_blocks (cr_graph sub_cr) (cr_start sub_cr) (cr_end sub_cr) = Some (order_of sub_cr)) by (vm_compute; reflexivity).
  assert (HF : flatten_blocks (cr_graph sub_cr) (order_of sub_cr) = Some (code_of sub_cr)) by (vm_compute; reflexivity).
  assert (Hc : consistent ex_env_sub (routine_ctx sub_opts (Some ex_sub))) by (split; reflexivity).
  assert (Dn : denote ex_env_sub 100 (root_ast (decl_body sub_opts ex_sub)) [VI 4] ex_st = DRet [VI 12] sub_final)
    by (vm_compute; reflexivity).
  repeat (split; [assumption|]).
  split; [|vm_compute; reflexivity].
  destruct (subroutine_end_to_end sub_opts ex_sub sub_cr _ _ eq_refl E HS HF) as [_ T].
  apply (T ex_env_sub Hc 100 [VI 4] ex_st). rewrite Dn. reflexivity.
Qed.
