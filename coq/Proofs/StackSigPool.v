(* Proofs/StackSigPool.v — the signatures are not too lax: for every listed opcode (with representative
   immediates) and every operand shape over {uint64, bytes} that its signature accepts, some stack of that
   shape built from a small pool of values makes the machine succeed.  Finite check by vm_compute.
   With [sig_necessary] (an opcode that succeeds had operands the signature accepts) this pins the table:
   a shape is accepted exactly when the opcode can succeed on operands of that shape. *)
From Coq Require Import List Arith NArith Ascii String Bool.
From PV Require Import Base.Bytes Base.U64 AVM.Syntax AVM.Ops AVM.Machine AVM.StackSig.
Import ListNotations.
Local Open Scope string_scope.

Definition b8 : bytes := repeat (ascii_of_N 1) 8.
Definition b40 : bytes := repeat (ascii_of_N 2) 40.
Definition pool_u : list value := [VI 1; VI 2; VI 0].
Definition pool_b : list value := [VB b8; VB b40; VB [ascii_of_N 1]].

(* all stacks whose cells have the given tags, drawn from the pool, on top of a fixed remainder *)
Fixpoint stacks_of (shape : list ty) : list (list value) :=
  match shape with
  | [] => [[VI 7]]
  | t :: r =>
      flat_map (fun rest => map (fun v => v :: rest) (match t with TU => pool_u | _ => pool_b end)) (stacks_of r)
  end.

Fixpoint shapes (n : nat) : list (list ty) :=
  match n with
  | O => [[]]
  | S k => flat_map (fun s => [TU :: s; TB :: s]) (shapes k)
  end.

Definition txn0 : txn :=
  mkTxn [("Fee", VI 1000); ("Sender", VB b8); ("Amount", VI 5)] [("ApplicationArgs", [VB b8; VB b8]); ("Assets", [VI 3])] [(0%N, VI 9)] 0.
Definition cx0 : ctx := mkCtx true [txn0; txn0] 1 [("MinTxnFee", VI 1000); ("ZeroAddress", VB b8)] [b8; b8] 0.
Definition st0 : mstate :=
  mkSt [] [(b8, VI 1)] [] [(b8, b40); (b40, b8)] (Some [[]]) [[("Fee", VI 1)]] [].

Definition succeeds (o : opc) (imms : list imm) (stk : list value) : bool :=
  match exec_op cx0 o imms stk st0 with OOk _ _ => true | _ => false end.

Definition accepted (o : opc) (imms : list imm) (shape : list ty) : bool :=
  match sig_apply true (sig_of o imms) (shape ++ [TU]) with Some _ => true | None => false end.

Definition realisable (o : opc) (imms : list imm) (depth : nat) : bool :=
  forallb (fun shape => implb (accepted o imms shape) (existsb (succeeds o imms) (stacks_of shape))) (shapes depth).

Definition i1 (n : N) : list imm := [IInt n].
Definition listed : list (opc * list imm * nat) :=
  [ (O_add, [], 2); (O_minus, [], 2); (O_div, [], 2); (O_mul, [], 2); (O_mod, [], 2); (O_lt, [], 2); (O_gt, [], 2);
    (O_le, [], 2); (O_ge, [], 2); (O_logic_and, [], 2); (O_logic_or, [], 2); (O_eq, [], 2); (O_neq, [], 2);
    (O_logic_not, [], 1); (O_bitwise_or, [], 2); (O_bitwise_and, [], 2); (O_bitwise_xor, [], 2); (O_bitwise_not, [], 1);
    (O_mulw, [], 2); (O_addw, [], 2); (O_divmodw, [], 4); (O_divw, [], 3); (O_exp, [], 2); (O_expw, [], 2);
    (O_shl, [], 2); (O_shr, [], 2); (O_sqrt, [], 1); (O_bitlen, [], 1);
    (O_len, [], 1); (O_itob, [], 1); (O_btoi, [], 1); (O_concat, [], 2);
    (O_substring, [IInt 1; IInt 3], 1); (O_substring3, [], 3); (O_extract, [IInt 1; IInt 2], 1); (O_extract3, [], 3);
    (O_extract_uint16, [], 2); (O_extract_uint32, [], 2); (O_extract_uint64, [], 2);
    (O_getbit, [], 2); (O_setbit, [], 3); (O_getbyte, [], 2); (O_setbyte, [], 3); (O_bzero, [], 1);
    (O_replace2, i1 1, 2); (O_replace3, [], 3);
    (O_b_add, [], 2); (O_b_minus, [], 2); (O_b_mul, [], 2); (O_b_div, [], 2); (O_b_mod, [], 2); (O_b_lt, [], 2);
    (O_b_gt, [], 2); (O_b_le, [], 2); (O_b_ge, [], 2); (O_b_eq, [], 2); (O_b_neq, [], 2); (O_b_or, [], 2);
    (O_b_and, [], 2); (O_b_xor, [], 2); (O_b_not, [], 1); (O_bsqrt, [], 1);
    (O_sha256, [], 1); (O_keccak256, [], 1); (O_sha512_256, [], 1); (O_sha3_256, [], 1);
    (O_pop, [], 1); (O_dup, [], 1); (O_dup2, [], 2); (O_swap, [], 2); (O_select, [], 3); (O_assert_, [], 1);
    (O_dig, i1 1, 2); (O_cover, i1 1, 2); (O_uncover, i1 1, 2); (O_bury, i1 1, 2); (O_popn, i1 2, 2); (O_dupn, i1 2, 1);
    (O_int, i1 5, 0); (O_pushint, i1 5, 0); (O_byte, [IBytes b8], 0); (O_pushbytes, [IBytes b8], 0);
    (O_addr, [IBytes b8], 0); (O_method_signature, [IBytes b8], 0);
    (O_load, i1 3, 0); (O_store, i1 3, 1); (O_loads, [], 1); (O_stores, [], 2);
    (O_txn, [IName "Fee"], 0); (O_txn, [IName "Sender"], 0); (O_txna, [IName "ApplicationArgs"; IInt 1], 0);
    (O_txnas, [IName "ApplicationArgs"], 1); (O_gtxn, [IInt 0; IName "Amount"], 0);
    (O_gtxna, [IInt 0; IName "Assets"; IInt 0], 0); (O_gtxns, [IName "Fee"], 1); (O_gtxnsa, [IName "Assets"; IInt 0], 1);
    (O_gtxnas, [IInt 1; IName "ApplicationArgs"], 1); (O_gtxnsas, [IName "ApplicationArgs"], 2);
    (O_global_, [IName "MinTxnFee"], 0); (O_global_, [IName "ZeroAddress"], 0);
    (O_arg, i1 1, 0); (O_args, [], 1); (O_gload, [IInt 0; IInt 0], 0); (O_gloads, i1 0, 1); (O_gaid, i1 0, 0); (O_gaids, [], 1);
    (O_app_global_get, [], 1); (O_app_global_get_ex, [], 2); (O_app_global_put, [], 2); (O_app_global_del, [], 1);
    (O_app_local_get, [], 2); (O_app_local_get_ex, [], 3); (O_app_local_put, [], 3); (O_app_local_del, [], 2);
    (O_log, [], 1); (O_box_put, [], 2); (O_box_get, [], 1); (O_box_len, [], 1); (O_box_del, [], 1);
    (O_box_create, [], 2); (O_box_extract, [], 3); (O_box_replace, [], 3);
    (O_itxn_next, [], 0); (O_itxn_field, [IName "Fee"], 1); (O_itxn_submit, [], 0); (O_itxn, [IName "Fee"], 0);
    (O_gitxn, [IInt 0; IName "Fee"], 0) ].

Definition all_realisable : bool :=
  forallb (fun x => match x with (o, imms, d) => realisable o imms d end) listed.

Definition failing : list string :=
  map (fun x => match x with (o, _, _) => opc_name o end)
      (filter (fun x => match x with (o, imms, d) => negb (realisable o imms d) end) listed).

(* every listed case has a signature at all (not unknown / control) and at least one accepted shape *)
Definition all_meaningful : bool :=
  forallb (fun x => match x with (o, imms, d) => existsb (accepted o imms) (shapes d) end) listed.

Lemma sig_realisable_on_pool : all_realisable = true /\ all_meaningful = true.
Proof. vm_compute. split; reflexivity. Qed.
