(* Proofs/StageEFlatten.v — stage E: the code flattenBlocks emits is label-closed (every branch it adds targets
   a label it emits), provided no block BODY contains a branch instruction; prefixing and the pragma keep that. *)
From Coq Require Import List Arith NArith Ascii String Bool Lia.
From PV Require Import Base.Bytes Base.Sexp AVM.Syntax AVM.Machine Src.Expr Src.Denote
  Comp.Blocks Comp.Passes Comp.GraphSem Comp.LinearSem Comp.Compile
  Proofs.FlattenCorrect Proofs.StageELink Proofs.StageECompose.
Import ListNotations.

Lemma flatten_one_instrs g blocks i b code r : flatten_one g blocks i b = Some (code, r) ->
  forall ins, In ins code ->
    In ins (get_ops g b) \/
    exists o ni, ins = mkI o [ALbl (label_of ni)] /\ In ni r /\ ni < List.length blocks.
Proof.
  unfold flatten_one, get_ops. destruct (g_blk g b) as [bb|]; [|discriminate].
  destruct (is_terminal bb); [intros H; injection H as <- <-; intros ins Hin; left; exact Hin|].
  assert (Lt : forall x n, index_of x blocks 0 = Some n -> n < List.length blocks).
  { intros x n Hx. apply index_of_nth in Hx. exact (nth_error_Some_lt _ _ _ Hx). }
  destruct bb as [ops [nx|]|ops [t|] [f|]]; cbn [b_ops]; try discriminate.
  - destruct (index_of nx blocks 0) as [ni|] eqn:En; [|discriminate].
    destruct (Nat.eqb ni (S i)); intros H; injection H as <- <-; intros ins Hin; [left; exact Hin|].
    apply in_app_or in Hin as [Hin|[<-|[]]]; [left; exact Hin|].
    right. exists O_b, ni. split; [reflexivity|]. split; [left; reflexivity|exact (Lt _ _ En)].
  - intros H; injection H as <- <-; intros ins Hin; left; exact Hin.
  - destruct (index_of t blocks 0) as [ti|] eqn:Et; [|discriminate].
    destruct (index_of f blocks 0) as [fi|] eqn:Ef; [|discriminate].
    destruct (Nat.eqb fi (S i)); [|destruct (Nat.eqb ti (S i))]; intros H; injection H as <- <-; intros ins Hin;
      apply in_app_or in Hin as [Hin|Hin]; try (left; exact Hin); right.
    + destruct Hin as [<-|[]]. exists O_bnz, ti. split; [reflexivity|]. split; [left; reflexivity|exact (Lt _ _ Et)].
    + destruct Hin as [<-|[]]. exists O_bz, fi. split; [reflexivity|]. split; [left; reflexivity|exact (Lt _ _ Ef)].
    + destruct Hin as [<-|[<-|[]]].
      * exists O_bnz, ti. split; [reflexivity|]. split; [left; reflexivity|exact (Lt _ _ Et)].
      * exists O_b, fi. split; [reflexivity|]. split; [right; left; reflexivity|exact (Lt _ _ Ef)].
Qed.

Lemma emit_ops codes refs : forall i ins, In (COp ins) (flatten_emit codes refs i) ->
  exists j code, nth_error codes j = Some code /\ In ins code.
Proof.
  induction codes as [|code t IH]; intros i ins H; [destruct H|].
  rewrite emit_cons in H. apply in_app_or in H as [H|H].
  - apply in_app_or in H as [H|H].
    + unfold lab in H. destruct (mem_nat i refs); [destruct H as [H|[]]; discriminate H|destruct H].
    + apply in_map_iff in H as (x & E & Hx). injection E as ->. exists 0, code. split; [reflexivity|exact Hx].
  - destruct (IH _ _ H) as (j & c & N & Hc). exists (S j), c. split; [exact N|exact Hc].
Qed.

Theorem flatten_targets_ok g blocks code :
  flatten_blocks g blocks = Some code ->
  (forall b ins, In b blocks -> In ins (get_ops g b) -> jump_of ins = None) ->
  targets_ok code = true.
Proof.
  unfold flatten_blocks. destruct (flatten_collect g blocks 0 blocks) as [[codes refs]|] eqn:C; [|discriminate].
  intros E NJ. injection E as <-.
  destruct (collect_spec g blocks blocks 0 codes refs C) as (L & Sp).
  unfold targets_ok. apply forallb_forall. intros c Hc.
  destruct c as [ins|l cm|v]; try reflexivity. cbn [target_ok].
  destruct (jump_of ins) as [[k l]|] eqn:Ej; [|reflexivity].
  destruct (emit_ops codes refs 0 ins Hc) as (j & code & N & Hin).
  assert (Hj : j < List.length blocks) by (rewrite <- L; exact (nth_error_Some_lt _ _ _ N)).
  destruct (nth_error blocks j) as [b|] eqn:Nb; [|apply nth_error_None in Nb; lia].
  destruct (Sp j b Nb) as (code' & r & F & N' & R). rewrite N in N'. injection N' as <-.
  destruct (flatten_one_instrs g blocks _ b code r F ins Hin) as [Hb|(o & ni & -> & Hr & Hlt)].
  - rewrite (NJ b ins (nth_error_In _ _ Nb) Hb) in Ej. discriminate Ej.
  - destruct (jump_of_inv _ _ _ Ej) as [_ Ea]. cbn [i_args] in Ea. injection Ea as <-.
    rewrite <- L in Hlt. destruct (nth_error codes ni) as [cn|] eqn:Nn; [|apply nth_error_None in Nn; lia].
    rewrite (find_label_emit codes refs ni cn Nn); [reflexivity|]. apply mem_nat_In. apply R. exact Hr.
Qed.

(* the prefix and the pragma keep label-closedness *)
Lemma main_comps_targets version code : targets_ok code = true -> targets_ok (main_comps version code) = true.
Proof.
  unfold targets_ok, main_comps. intros H. cbn [forallb target_ok]. rewrite forallb_forall in H.
  apply forallb_forall. intros c Hc. apply in_map_iff in Hc as (c0 & <- & Hc0). specialize (H c0 Hc0).
  destruct c0 as [ins|l cm|v]; try reflexivity.
  rewrite prefix_labels_op. cbn [target_ok] in *. rewrite jump_of_rw.
  destruct (jump_of ins) as [[k l]|]; [|reflexivity].
  rewrite find_label_pragma, find_label_prefix. destruct (find_label l code); [reflexivity|discriminate H].
Qed.
