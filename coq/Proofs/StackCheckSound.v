(* Proofs/StackCheckSound.v — soundness of AVM/StackCheck.v.
   An annotation accepted by [annot_inductive] over-approximates every state the machine can reach:
   by induction on the number of steps, with a simulation relation [conf] between machine states and
   annotations that includes the call stack (each pending frame records what the caller's annotation
   expects at the return address). *)
From Coq Require Import List Arith NArith Ascii String Bool Lia.
From PV Require Import Base.Bytes Base.U64 AVM.Syntax AVM.Ops AVM.Machine AVM.StackSig AVM.StackCheck
  Proofs.StackSigProof.
Import ListNotations.

(* ---- order lemmas ---- *)
Lemma stk_le_has : forall vs a b, stack_has vs a -> stk_le a b = true -> stack_has vs b.
Proof.
  intros vs a b H. revert b. induction H as [|v t vs ts Hv Hs IH]; intros b L; destruct b as [|u b]; cbn in L; try discriminate.
  - constructor.
  - apply andb_true_iff in L. destruct L as [L1 L2]. constructor; [eapply has_ty_le; eauto | apply IH; assumption].
Qed.

Lemma stk_le_length : forall a b, stk_le a b = true -> List.length a = List.length b.
Proof.
  induction a as [|x a IH]; intros [|y b] L; cbn in L; try discriminate; auto.
  apply andb_true_iff in L. destruct L as [_ L]. cbn. f_equal. auto.
Qed.

Lemma astate_le_inv : forall a b, astate_le a b = true ->
  a_rid a = a_rid b /\ a_fp a = a_fp b /\ stk_le (a_stk a) (a_stk b) = true.
Proof.
  intros a b H. unfold astate_le in H.
  apply andb_true_iff in H. destruct H as [H H4].
  apply andb_true_iff in H. destruct H as [H H3]. apply andb_true_iff in H. destruct H as [H1 H2].
  apply Nat.eqb_eq in H1. apply Bool.eqb_prop in H2. auto.
Qed.

Lemma le_at_inv : forall ann t a, le_at ann t a = true ->
  exists b, nth_error ann t = Some (Some b) /\ a_rid a = a_rid b /\ a_fp a = a_fp b /\ stk_le (a_stk a) (a_stk b) = true.
Proof.
  intros ann t a H. unfold le_at in H.
  destruct (nth_error ann t) as [[b|]|]; try discriminate.
  exists b. split; auto. apply astate_le_inv; auto.
Qed.

Lemma le_at_sl : forall ann t a b, le_at ann t a = true -> nth_error ann t = Some (Some b) ->
  sl_le (a_sl a) (a_sl b) = true.
Proof.
  intros ann t a b H E. unfold le_at in H. rewrite E in H. unfold astate_le in H.
  apply andb_true_iff in H. destruct H as [_ H]. exact H.
Qed.

(* ---- scratch slots ---- *)
Definition slots_ok (scr : list (N * value)) (sl : list (N * ty)) : Prop :=
  forall k t, In (k, t) sl -> has_ty (scratch_get scr k) t.

Definition sl_any (sl : list (N * ty)) : bool := forallb (fun kt => ty_eqb (snd kt) TA) sl.

Lemma alookup_In : forall (l : list (N * ty)) k t, alookup N.eqb k l = Some t -> In (k, t) l.
Proof.
  induction l as [|[j u] l IH]; intros k t H; cbn in H; try discriminate.
  destruct (N.eqb k j) eqn:E.
  - apply N.eqb_eq in E. inversion H; subst. left; reflexivity.
  - right. auto.
Qed.

Lemma slot_ty_ok : forall scr sl k, slots_ok scr sl -> has_ty (scratch_get scr k) (slot_ty sl k).
Proof.
  intros scr sl k H. unfold slot_ty. destruct (alookup N.eqb k sl) as [t|] eqn:E.
  - apply H. apply alookup_In; assumption.
  - apply has_ty_TA.
Qed.

Lemma slots_ok_le : forall scr a b, slots_ok scr a -> sl_le a b = true -> slots_ok scr b.
Proof.
  intros scr a b H L k t I. unfold sl_le in L. rewrite forallb_forall in L. specialize (L _ I). cbn in L.
  eapply has_ty_le; [apply slot_ty_ok; exact H | exact L].
Qed.

Lemma slots_ok_nil : forall scr, slots_ok scr [].
Proof. intros scr k t []. Qed.

Lemma slots_ok_any : forall scr sl, sl_any sl = true -> slots_ok scr sl.
Proof.
  intros scr sl H k t I. unfold sl_any in H. rewrite forallb_forall in H. specialize (H _ I). cbn in H.
  apply ty_eqb_eq in H. subst. apply has_ty_TA.
Qed.

Lemma sl_le_nil_any : forall b, sl_le [] b = true -> sl_any b = true.
Proof.
  intros b H. unfold sl_le in H. unfold sl_any. rewrite forallb_forall in *. intros kt I. specialize (H _ I).
  unfold slot_ty in H. cbn in H. destruct (snd kt); try discriminate; reflexivity.
Qed.

Lemma In_aremove : forall (l : list (N * ty)) k j t, In (j, t) (aremove N.eqb k l) -> j <> k /\ In (j, t) l.
Proof.
  induction l as [|[i u] l IH]; intros k j t H; cbn in H; [contradiction|].
  destruct (N.eqb k i) eqn:E.
  - destruct (IH _ _ _ H). split; auto. right; auto.
  - destruct H as [H|H].
    + inversion H; subst. split; [|left; reflexivity]. apply N.eqb_neq in E. congruence.
    + destruct (IH _ _ _ H). split; auto. right; auto.
Qed.

Lemma alookup_aremove_neq : forall (l : list (N * value)) k j, j <> k ->
  alookup N.eqb j (aremove N.eqb k l) = alookup N.eqb j l.
Proof.
  induction l as [|[i u] l IH]; intros k j N; cbn; auto.
  destruct (N.eqb k i) eqn:E.
  - apply N.eqb_eq in E. subst i. rewrite IH by assumption.
    destruct (N.eqb j k) eqn:E2; auto. apply N.eqb_eq in E2. contradiction.
  - cbn. destruct (N.eqb j i); auto.
Qed.

Lemma scratch_get_set : forall st k v j,
  scratch_get (s_scratch (set_scratch st k v)) j = if N.eqb j k then v else scratch_get (s_scratch st) j.
Proof.
  intros st k v j. unfold set_scratch, scratch_get, aset. cbn.
  destruct (N.eqb j k) eqn:E; auto.
  rewrite alookup_aremove_neq; auto. apply N.eqb_neq; assumption.
Qed.

Lemma slots_ok_store : forall st sl k v t, slots_ok (s_scratch st) sl -> has_ty v t ->
  slots_ok (s_scratch (set_scratch st k v)) (set_slot sl k t).
Proof.
  intros st sl k v t H Hv j u I. rewrite scratch_get_set. unfold set_slot in I. destruct I as [I|I].
  - inversion I; subst. rewrite N.eqb_refl. assumption.
  - apply In_aremove in I. destruct I as [Nj I]. apply N.eqb_neq in Nj. rewrite Nj. apply H; assumption.
Qed.

(* every ordinary opcode except store / stores leaves the scratch space alone *)
Lemma exec_op_scratch : forall cx o imms stk st stk' st',
  exec_op cx o imms stk st = OOk stk' st' -> o <> O_store -> o <> O_stores ->
  s_scratch st' = s_scratch st.
Proof.
  intros cx o imms stk st stk' st' H N1 N2.
  destruct o; try congruence; clear N1 N2.
  all: cbv beta iota zeta delta [exec_op exec_pure oki okb okbool push_field push_afield] in H.
  all: break_all H.
  all: inversion H; subst; reflexivity.
Qed.

Lemma slot_effect_sound : forall cx i a s' cur cur' below st st',
  exec_op cx (p_op i) (p_imms i) (cur ++ below) st = OOk (cur' ++ below) st' ->
  stack_has cur (a_stk a) -> stack_has cur' s' -> slots_ok (s_scratch st) (a_sl a) ->
  stack_has cur' (a_stk (slot_effect i a s')) /\ slots_ok (s_scratch st') (a_sl (slot_effect i a s')) /\
  a_rid (slot_effect i a s') = a_rid a /\ a_fp (slot_effect i a s') = a_fp a.
Proof.
  intros cx [o imms] a s' cur cur' below st st' H Hc Hc' Hsl. cbn [p_op p_imms] in H.
  assert (forall q, slot_effect (mkP o imms) a s' = with_stk a q -> q = s' ->
          o <> O_store -> o <> O_stores ->
          stack_has cur' (a_stk (slot_effect (mkP o imms) a s')) /\ slots_ok (s_scratch st') (a_sl (slot_effect (mkP o imms) a s')) /\
          a_rid (slot_effect (mkP o imms) a s') = a_rid a /\ a_fp (slot_effect (mkP o imms) a s') = a_fp a) as Plain.
  { intros q E Eq N1 N2. rewrite E. subst q. cbn. repeat split; auto.
    rewrite (exec_op_scratch _ _ _ _ _ _ _ H N1 N2). assumption. }
  destruct o; try (apply (Plain s'); [reflexivity | reflexivity | discriminate | discriminate]).
  - (* load *)
    unfold slot_effect; cbn [p_op p_imms].
    destruct imms as [|[k|?|?] [|? ?]]; try (apply (Plain s'); [reflexivity | reflexivity | discriminate | discriminate]).
    cbv beta iota zeta delta [exec_op exec_pure] in H. cbn [imms_to_args] in H.
    destruct (k <? 256)%N; try discriminate. inversion H; subst st'.
    match goal with E : _ :: cur ++ below = cur' ++ below |- _ => rename E into E0 end.
    change (scratch_get (s_scratch st) k :: cur ++ below) with ((scratch_get (s_scratch st) k :: cur) ++ below) in E0.
    apply app_inv_tail in E0. subst cur'.
    destruct s' as [|t0 r].
    + inversion Hc'.
    + inversion Hc'; subst. cbn. repeat split; auto. constructor; auto. apply slot_ty_ok; assumption.
  - (* store *)
    unfold slot_effect; cbn [p_op p_imms].
    destruct imms as [|[k|?|?] [|? ?]].
    all: try (cbn [a_stk a_sl a_rid a_fp]; split; [assumption | split; [apply slots_ok_nil | split; reflexivity]]).
    destruct (a_stk a) as [|t ts] eqn:Ea.
    + cbn [a_stk a_sl a_rid a_fp]. split; [assumption | split; [apply slots_ok_nil | split; reflexivity]].
    + cbn [a_stk a_sl a_rid a_fp]. split; [assumption | split; [| split; reflexivity]].
      inversion Hc as [|v0 t' cur0 ts' Hv Hr]; subst.
      cbv beta iota zeta delta [exec_op exec_pure] in H. cbn [imms_to_args app] in H.
      destruct (k <? 256)%N; try discriminate. inversion H; subst.
      apply slots_ok_store; assumption.
  - (* stores *)
    unfold slot_effect; cbn [p_op p_imms].
    destruct imms as [|[k|?|?] [|? ?]].
    all: cbn [a_stk a_sl a_rid a_fp]; split; [assumption | split; [apply slots_ok_nil | split; reflexivity]].
Qed.

Lemma not_proto_at_inv : forall p t, not_proto_at p t = true ->
  exists i, nth_error (pr_code p) t = Some i /\ is_proto (p_op i) = false.
Proof.
  intros p t H. unfold not_proto_at in H. destruct (nth_error (pr_code p) t) as [i|]; try discriminate.
  exists i. split; auto. destruct (is_proto (p_op i)); auto; discriminate.
Qed.

Lemma find_rid_from_ge : forall l k pc j, find_rid_from l k pc = Some j -> (k <= j)%nat.
Proof.
  induction l as [|r l IH]; intros k pc j H; cbn in H; try discriminate.
  destruct (Nat.eqb (r_entry r) pc).
  - inversion H; lia.
  - apply IH in H. lia.
Qed.

Lemma find_rid_nonzero : forall rt pc k, find_rid rt pc = Some k -> k <> 0%nat.
Proof.
  intros rt pc k H. unfold find_rid in H. destruct rt; try discriminate.
  apply find_rid_from_ge in H. lia.
Qed.

(* ---- frame arithmetic ---- *)
Lemma frame_index_shift : forall b na k,
  frame_index (b + na) na k = match frame_index na na k with Some i => Some (b + i)%nat | None => None end.
Proof.
  intros b na k. unfold frame_index.
  destruct (k <? 128)%N.
  - f_equal. lia.
  - destruct (N.to_nat (256 - k) <=? na)%nat eqn:E; auto.
    apply Nat.leb_le in E. f_equal. lia.
Qed.

Lemma from_bottom_app : forall (cur below : list value) idx pos,
  pos_from_bottom (List.length cur) idx = Some pos ->
  from_bottom (cur ++ below) (List.length below + idx) = Some pos /\ (pos < List.length cur)%nat.
Proof.
  intros cur below idx pos H. unfold pos_from_bottom in H. unfold from_bottom.
  destruct (idx <? List.length cur)%nat eqn:E; try discriminate. inversion H; subst; clear H.
  apply Nat.ltb_lt in E. rewrite app_length.
  assert ((List.length below + idx <? List.length cur + List.length below)%nat = true) as -> by (apply Nat.ltb_lt; lia).
  split; [f_equal|]; lia.
Qed.

Lemma retsub_frame_stack : forall (cur below : list value) na nr,
  rev (firstn (List.length below + na - na) (rev (cur ++ below)) ++
       firstn nr (skipn (List.length below + na) (rev (cur ++ below)))) =
  rev (firstn nr (skipn na (rev cur))) ++ below.
Proof.
  intros cur below na nr.
  rewrite !(rev_app_distr cur below).
  replace (List.length below + na - na)%nat with (List.length (rev below)) by (rewrite rev_length; lia).
  rewrite firstn_app, firstn_all, Nat.sub_diag. cbn [firstn]. rewrite app_nil_r.
  rewrite skipn_app.
  rewrite (skipn_all2 (rev below)) by (rewrite rev_length; lia).
  rewrite rev_length. replace (List.length below + na - List.length below)%nat with na by lia.
  cbn [app]. rewrite rev_app_distr, rev_involutive. reflexivity.
Qed.

Section Sound.
  Variable p : program.
  Variable rt : list rsig.
  Variable ann : annot.

  (* what each pending frame promises: the current routine [rid] was called from a point whose return
     address is annotated with (at least) the routine's results on top of the caller's remaining cells *)
  Fixpoint frames_ok (rid : nat) (fp : bool) (frames : list frame) (below : list value) : Prop :=
    match frames with
    | [] => rid = 0%nat /\ fp = false /\ below = []
    | f :: fs =>
        exists r, nth_error rt rid = Some r /\ rid <> 0%nat /\
          f_proto f = (if fp then Some (List.length below + List.length (r_args r), List.length (r_args r), List.length (r_rets r))%nat
                       else None) /\
          exists ac rest_abs lower below',
            nth_error ann (f_ret f) = Some (Some ac) /\
            stk_le (r_rets r ++ rest_abs) (a_stk ac) = true /\
            below = lower ++ below' /\ stack_has lower rest_abs /\
            not_proto_at p (f_ret f) = true /\
            sl_any (a_sl ac) = true /\
            frames_ok (a_rid ac) (a_fp ac) fs below'
    end.

  (* the simulation relation *)
  Definition conf (m : mach) : Prop :=
    exists a cur below,
      nth_error ann (m_pc m) = Some (Some a) /\
      m_stack m = cur ++ below /\
      stack_has cur (a_stk a) /\
      frames_ok (a_rid a) (a_fp a) (m_calls m) below /\
      (forall i, nth_error (pr_code p) (m_pc m) = Some i -> is_proto (p_op i) = true -> m_from_callsub m = true) /\
      slots_ok (s_scratch (m_st m)) (a_sl a).

  Hypothesis IND : annot_inductive p rt ann = true.

  Lemma ind_rt : rt_ok rt = true.
  Proof. pose proof IND as I. unfold annot_inductive in I. repeat (apply andb_true_iff in I; destruct I as [I ?]). assumption. Qed.

  Lemma ind_entry : le_at ann 0 (mkA 0 false [] []) = true /\ not_proto_at p 0 = true.
  Proof. pose proof IND as I. unfold annot_inductive in I. repeat (apply andb_true_iff in I; destruct I as [I ?]). auto. Qed.

  Lemma ind_pc : forall pc a, nth_error ann pc = Some (Some a) ->
    exists i, nth_error (pr_code p) pc = Some i /\ check_succs p ann (transfer false false p rt pc i a) = true.
  Proof.
    intros pc a H. pose proof IND as I0. unfold annot_inductive in I0. apply andb_true_iff in I0. destruct I0 as [_ F].
    rewrite forallb_forall in F.
    assert (In pc (seq 0 (List.length ann))) as I.
    { apply in_seq. split; [lia|]. cbn. apply nth_error_Some. congruence. }
    specialize (F _ I). unfold check_pc in F. rewrite H in F.
    destruct (nth_error (pr_code p) pc) as [i|]; try discriminate. eauto.
  Qed.

  (* moving to an ordinary successor inside the same routine *)
  Lemma conf_next_gen : forall m a below t a' cur' m',
    frames_ok (a_rid a) (a_fp a) (m_calls m) below ->
    le_at ann t a' = true -> not_proto_at p t = true ->
    a_rid a' = a_rid a -> a_fp a' = a_fp a ->
    stack_has cur' (a_stk a') ->
    m_pc m' = t -> m_stack m' = cur' ++ below -> m_calls m' = m_calls m ->
    slots_ok (s_scratch (m_st m')) (a_sl a') ->
    conf m'.
  Proof.
    intros m a below t a' cur' m' Hfr Hle Hnp Hr Hf Hs Hpc Hst Hc Hsl.
    destruct (le_at_inv _ _ _ Hle) as [b [Hb [Er [Ef Ls]]]].
    exists b, cur', below. rewrite Hpc, Hst, Hc. repeat split; auto.
    - eapply stk_le_has; eauto.
    - rewrite <- Er, <- Ef, Hr, Hf. assumption.
    - intros i Hi Hp. destruct (not_proto_at_inv _ _ Hnp) as [j [Hj Hq]]. congruence.
    - eapply slots_ok_le; [exact Hsl | eapply le_at_sl; eauto].
  Qed.

  (* ... by a step that touches neither the scratch space nor the slot types *)
  Lemma conf_next : forall m a below t a' cur' m',
    frames_ok (a_rid a) (a_fp a) (m_calls m) below ->
    le_at ann t a' = true -> not_proto_at p t = true ->
    a_rid a' = a_rid a -> a_fp a' = a_fp a ->
    stack_has cur' (a_stk a') ->
    m_pc m' = t -> m_stack m' = cur' ++ below -> m_calls m' = m_calls m ->
    slots_ok (s_scratch (m_st m)) (a_sl a) -> a_sl a' = a_sl a -> m_st m' = m_st m ->
    conf m'.
  Proof.
    intros m a below t a' cur' m' Hfr Hle Hnp Hr Hf Hs Hpc Hst Hc Hsl Esl Est.
    eapply conf_next_gen; eauto. rewrite Esl, Est. assumption.
  Qed.

  Lemma frames_nonmain : forall rid fp frames below,
    frames_ok rid fp frames below -> rid <> 0%nat -> exists f fs, frames = f :: fs.
  Proof. intros rid fp [|f fs] below H N; cbn in H; [destruct H; contradiction | eauto]. Qed.

  Lemma frames_main : forall fp frames below,
    frames_ok 0 fp frames below -> frames = [].
  Proof. intros fp [|f fs] below H; cbn in H; auto. destruct H as [r [_ [N _]]]. contradiction. Qed.

  Lemma transfer_generic : forall strict lr pc i a,
    sig_of (p_op i) (p_imms i) <> SCtl -> sig_of (p_op i) (p_imms i) <> SUnknown ->
    transfer strict lr p rt pc i a =
    match sig_apply strict (sig_of (p_op i) (p_imms i)) (a_stk a) with
    | Some s' => TSucc [(S pc, slot_effect i a s')] None
    | None => TErr "operand missing on the routine's stack or of the wrong type"
    end.
  Proof.
    intros strict lr pc i a H1 H2. unfold transfer.
    destruct (sig_of (p_op i) (p_imms i)); try congruence; reflexivity.
  Qed.

  Lemma check_succs_one : forall t a' , check_succs p ann (TSucc [(t, a')] None) = true ->
    le_at ann t a' = true /\ not_proto_at p t = true.
  Proof.
    intros t a' H. cbn in H. rewrite !andb_true_r in H. apply andb_true_iff in H. assumption.
  Qed.

  Lemma step_conf : forall cx m m', ctx_typed cx -> conf m -> step cx p m = Running m' -> conf m'.
  Proof.
    intros cx m m' CT [a [cur [below [Ha [Hst [Hh [Hfr [Hpr Hsl]]]]]]]] Hstep.
    destruct (ind_pc _ _ Ha) as [i [Hi Hchk]].
    unfold step in Hstep. rewrite Hi in Hstep.
    destruct (STACK_MAX <? height m)%nat; try discriminate.
    destruct (exec_op cx (p_op i) (p_imms i) (m_stack m) (m_st m)) as [stk' st'| | |] eqn:He; try discriminate.
    { (* an ordinary opcode *)
      inversion Hstep; subst m'; clear Hstep.
      assert (sig_of (p_op i) (p_imms i) <> SCtl) as Hnc.
      { intro E. rewrite (exec_op_ctl _ _ _ _ _ E) in He. discriminate. }
      assert (sig_of (p_op i) (p_imms i) <> SUnknown) as Hnu.
      { intro E. unfold transfer in Hchk. rewrite E in Hchk. discriminate. }
      rewrite (transfer_generic _ _ _ _ _ Hnc Hnu) in Hchk.
      destruct (sig_apply false (sig_of (p_op i) (p_imms i)) (a_stk a)) as [s'|] eqn:Hs; try discriminate.
      destruct (check_succs_one _ _ Hchk) as [Hle Hnp].
      rewrite Hst in He.
      destruct (exec_op_sound _ _ _ _ _ _ _ _ _ _ _ CT Hs Hh He) as [cur' [E Hc]].
      subst stk'.
      destruct (slot_effect_sound _ _ _ _ _ _ _ _ _ He Hh Hc Hsl) as [Hc2 [Hsl2 [Er2 Ef2]]].
      eapply conf_next_gen with (m := m) (a := a) (cur' := cur') (a' := slot_effect i a s'); eauto. }
    { (* control *)
      destruct (exec_op_not_ctl _ _ _ _ _ He) as [Hsig|Hsig].
      2: { unfold transfer in Hchk. rewrite Hsig in Hchk. discriminate. }
      unfold transfer in Hchk. rewrite Hsig in Hchk. clear He.
      destruct i as [o imms]. cbn [p_op p_imms] in *.
      destruct o; cbv beta iota delta [sig_of imm_nat] in Hsig; break_all Hsig; try discriminate Hsig; clear Hsig.
      all: unfold transfer_ctl in Hchk; cbn [p_op p_imms] in Hchk; cbv beta iota in Hstep.
      all: try discriminate Hstep.
      all: try solve [ break_all Hstep; break_all Hchk; try discriminate Hchk;
                       inversion Hstep; subst m'; clear Hstep;
                       destruct (check_succs_one _ _ Hchk) as [Hle Hnp];
                       (eapply conf_next with (m := m) (a := a) (cur' := cur); solve [eauto])
                       || (eapply conf_next with (m := m) (a := a) (cur' := _ :: cur);
                           [eassumption|eassumption|eassumption|reflexivity|reflexivity| | reflexivity | cbn; rewrite Hst; reflexivity | reflexivity | eassumption | reflexivity | reflexivity ];
                           cbn; constructor; [reflexivity | assumption]) ].
      - (* bnz *)
        destruct imms as [|[n|b|l] [|? ?]]; try discriminate Hstep.
        destruct (m_stack m) as [|[c|?] r] eqn:Es; try discriminate Hstep.
        destruct (label_pc p l) as [t|] eqn:El; try discriminate Hstep.
        inversion Hstep; subst m'; clear Hstep.
        destruct (a_stk a) as [|c' r'] eqn:Ea; try discriminate Hchk.
        destruct (accepts false c' TU); try discriminate Hchk.
        cbn in Hchk. rewrite !andb_true_r in Hchk.
        apply andb_true_iff in Hchk; destruct Hchk as [H1 H2].
        apply andb_true_iff in H1; destruct H1 as [L1 N1]. apply andb_true_iff in H2; destruct H2 as [L2 N2].
        inversion Hh as [|v t' cur' ts Hv Hc E1 E2]; subst cur. cbn in Hst. inversion Hst; subst v r.
        destruct (c =? 0)%N.
        + eapply conf_next with (m := m) (a := a) (cur' := cur') (a' := with_stk a r') (t := S (m_pc m)); eauto.
        + eapply conf_next with (m := m) (a := a) (cur' := cur') (a' := with_stk a r') (t := t); eauto.
      - (* bz *)
        destruct imms as [|[n|b|l] [|? ?]]; try discriminate Hstep.
        destruct (m_stack m) as [|[c|?] r] eqn:Es; try discriminate Hstep.
        destruct (label_pc p l) as [t|] eqn:El; try discriminate Hstep.
        inversion Hstep; subst m'; clear Hstep.
        destruct (a_stk a) as [|c' r'] eqn:Ea; try discriminate Hchk.
        destruct (accepts false c' TU); try discriminate Hchk.
        cbn in Hchk. rewrite !andb_true_r in Hchk.
        apply andb_true_iff in Hchk; destruct Hchk as [H1 H2].
        apply andb_true_iff in H1; destruct H1 as [L1 N1]. apply andb_true_iff in H2; destruct H2 as [L2 N2].
        inversion Hh as [|v t' cur' ts Hv Hc E1 E2]; subst cur. cbn in Hst. inversion Hst; subst v r.
        destruct (c =? 0)%N.
        + eapply conf_next with (m := m) (a := a) (cur' := cur') (a' := with_stk a r') (t := t); eauto.
        + eapply conf_next with (m := m) (a := a) (cur' := cur') (a' := with_stk a r') (t := S (m_pc m)); eauto.
      - (* callsub *)
        destruct imms as [|[n|b|l] [|? ?]]; try discriminate Hstep.
        destruct (label_pc p l) as [t|] eqn:El; try discriminate Hstep.
        inversion Hstep; subst m'; clear Hstep.
        destruct (find_rid rt t) as [k|] eqn:Ek; try discriminate Hchk.
        destruct (nth_error rt k) as [r|] eqn:Er; try discriminate Hchk.
        destruct (take_ops false (r_args r) (a_stk a)) as [rest|] eqn:Et; try discriminate Hchk.
        cbn in Hchk. rewrite andb_true_r in Hchk.
        apply andb_true_iff in Hchk; destruct Hchk as [H1 H2].
        apply andb_true_iff in H1; destruct H1 as [L1 N1]. apply andb_true_iff in H2; destruct H2 as [L2 _].
        destruct (take_ops_split _ _ _ _ Et) as [pre [Ep Lp]].
        rewrite Ep in Hh. destruct (stack_has_split _ _ _ Hh) as [c1 [c2 [Ec [S1 S2]]]]. subst cur.
        destruct (le_at_inv _ _ _ L2) as [b [Hb [Rb [Fb Sb]]]]. cbn in Rb, Fb, Sb.
        destruct (le_at_inv _ _ _ L1) as [ac [Hac [Rac [Fac Sac]]]]. cbn in Rac, Fac, Sac.
        exists b, c1, (c2 ++ below). cbn [m_pc m_stack m_calls m_from_callsub].
        split; [assumption|]. split; [rewrite Hst, app_assoc; reflexivity|].
        split.
        { eapply stk_le_has; [|exact Sb]. apply stack_has_TA.
          - rewrite map_length. rewrite (stack_has_length _ _ S1). assumption.
          - intros t' Hin. apply in_map_iff in Hin. destruct Hin as [? [? ?]]; auto. }
        split; [|split; [intros; reflexivity|]].
        2: { cbn [m_st]. apply slots_ok_any. apply sl_le_nil_any. exact (le_at_sl _ _ _ _ L2 Hb). }
        cbn [frames_ok]. rewrite <- Rb, <- Fb.
        exists r. split; [assumption|]. split; [eapply find_rid_nonzero; eauto|]. split; [reflexivity|].
        exists ac, rest, c2, below. cbn [f_ret].
        split; [assumption|]. split; [assumption|]. split; [reflexivity|]. split; [assumption|]. split; [assumption|].
        split; [apply sl_le_nil_any; exact (le_at_sl _ _ _ _ L1 Hac)|].
        rewrite <- Rac, <- Fac. exact Hfr.
      - (* retsub *)
        destruct (m_calls m) as [|f fs] eqn:Ec; try discriminate Hstep.
        destruct (nth_error rt (a_rid a)) as [r|] eqn:Er; try discriminate Hchk.
        destruct (Nat.eqb (a_rid a) 0) eqn:E0; try discriminate Hchk.
        cbn [frames_ok] in Hfr.
        destruct Hfr as [r' [Er' [Nz [Hp [ac [rest_abs [lower [below' [Hac [Sac [Eb [Sl [Np [Hany Hfs]]]]]]]]]]]]]].
        rewrite Er in Er'; inversion Er'; subst r'; clear Er'.
        destruct (a_fp a) eqn:Efp.
        + (* under proto *)
          rewrite Hp in Hstep. cbn [andb negb] in Hchk.
          destruct (List.length (r_args r) + List.length (r_rets r) <=? List.length (a_stk a))%nat eqn:El;
            cbn [negb] in Hchk; try discriminate Hchk.
          destruct (Nat.eqb (List.length (frame_rets (List.length (r_args r)) (List.length (r_rets r)) (a_stk a)))
                            (List.length (r_rets r))); cbn [negb] in Hchk; try discriminate Hchk.
          destruct (stk_le (frame_rets (List.length (r_args r)) (List.length (r_rets r)) (a_stk a)) (r_rets r)) eqn:Sle;
            try discriminate Hchk.
          apply Nat.leb_le in El. pose proof (stack_has_length _ _ Hh) as Lc.
          unfold height in Hstep. rewrite Hst in Hstep. rewrite app_length in Hstep.
          assert ((List.length below + List.length (r_args r) + List.length (r_rets r) <=? List.length cur + List.length below)%nat = true) as Ht
            by (apply Nat.leb_le; lia).
          rewrite Ht in Hstep. inversion Hstep; subst m'; clear Hstep.
          rewrite retsub_frame_stack.
          exists ac, (rev (firstn (List.length (r_rets r)) (skipn (List.length (r_args r)) (rev cur))) ++ lower), below'.
          cbn [m_pc m_stack m_calls m_from_callsub].
          split; [assumption|]. split; [rewrite Eb, app_assoc; reflexivity|].
          split.
          { eapply stk_le_has; [|exact Sac]. apply stack_has_app; [|assumption].
            eapply stk_le_has; [|exact Sle]. unfold frame_rets.
            apply rev_F2. apply firstn_F2. apply skipn_F2. apply rev_F2. exact Hh. }
          split; [assumption|].
          split; [|apply slots_ok_any; exact Hany].
          intros i Hi' Hp'. destruct (not_proto_at_inv _ _ Np) as [j [Hj Hq]]. congruence.
        + (* scratch convention *)
          rewrite Hp in Hstep. inversion Hstep; subst m'; clear Hstep.
          cbn [andb negb] in Hchk.
          destruct (Nat.eqb (List.length (a_stk a)) (List.length (r_rets r))); cbn [negb] in Hchk; try discriminate Hchk.
          destruct (stk_le (a_stk a) (r_rets r)) eqn:Sle; try discriminate Hchk.
          exists ac, (cur ++ lower), below'.
          cbn [m_pc m_stack m_calls m_from_callsub].
          split; [assumption|]. split; [rewrite Hst, Eb, app_assoc; reflexivity|].
          split.
          { eapply stk_le_has; [|exact Sac]. apply stack_has_app; [|assumption].
            eapply stk_le_has; [exact Hh | exact Sle]. }
          split; [assumption|].
          split; [|apply slots_ok_any; exact Hany].
          intros i Hi' Hp'. destruct (not_proto_at_inv _ _ Np) as [j [Hj Hq]]. congruence.
      - (* frame_dig *)
        destruct imms as [|[k|?|?] [|? ?]]; try discriminate Hstep.
        destruct (m_calls m) as [|f fs] eqn:Ec; try discriminate Hstep.
        destruct (nth_error rt (a_rid a)) as [r|] eqn:Er; try discriminate Hchk.
        destruct (a_fp a) eqn:Efp; try discriminate Hchk.
        destruct (frame_index (List.length (r_args r)) (List.length (r_args r)) k) as [idx|] eqn:Efi; try discriminate Hchk.
        destruct (pos_from_bottom (List.length (a_stk a)) idx) as [pos|] eqn:Epos; try discriminate Hchk.
        destruct (nth_error (a_stk a) pos) as [t|] eqn:Et; try discriminate Hchk.
        destruct (check_succs_one _ _ Hchk) as [Hle Hnp].
        pose proof Hfr as Hfr0. cbn [frames_ok] in Hfr0.
        destruct Hfr0 as [r' [Er' [Nz [Hp _]]]].
        rewrite Er in Er'; inversion Er'; subst r'; clear Er'.
        rewrite Hp in Hstep. rewrite frame_index_shift, Efi in Hstep. rewrite Hst in Hstep.
        rewrite <- (stack_has_length _ _ Hh) in Epos.
        destruct (from_bottom_app cur below _ _ Epos) as [Efb Lpos].
        rewrite Efb in Hstep.
        destruct (nth_error_F2 has_ty _ _ _ _ Hh Et) as [v [Ev Hv]].
        rewrite (nth_error_app_l _ _ below _ _ Ev) in Hstep.
        inversion Hstep; subst m'; clear Hstep.
        eapply conf_next with (m := m) (a := a) (cur' := v :: cur) (a' := with_stk a (t :: a_stk a)).
        * rewrite Efp, Ec. exact Hfr.
        * exact Hle.
        * exact Hnp.
        * reflexivity.
        * reflexivity.
        * cbn. constructor; assumption.
        * reflexivity.
        * reflexivity.
        * reflexivity.
        * exact Hsl.
        * reflexivity.
        * reflexivity.
      - (* frame_bury *)
        destruct imms as [|[k|?|?] [|? ?]]; try discriminate Hstep.
        destruct (m_stack m) as [|v rr] eqn:Es; try discriminate Hstep.
        destruct (m_calls m) as [|f fs] eqn:Ec; try discriminate Hstep.
        destruct (nth_error rt (a_rid a)) as [r|] eqn:Er; try discriminate Hchk.
        destruct (a_stk a) as [|tv s'] eqn:Ea; try discriminate Hchk.
        destruct (a_fp a) eqn:Efp; try discriminate Hchk.
        destruct (frame_index (List.length (r_args r)) (List.length (r_args r)) k) as [idx|] eqn:Efi; try discriminate Hchk.
        destruct (pos_from_bottom (List.length s') idx) as [pos|] eqn:Epos; try discriminate Hchk.
        destruct (check_succs_one _ _ Hchk) as [Hle Hnp].
        pose proof Hfr as Hfr0. cbn [frames_ok] in Hfr0.
        destruct Hfr0 as [r' [Er' [Nz [Hp _]]]].
        rewrite Er in Er'; inversion Er'; subst r'; clear Er'.
        inversion Hh as [|v0 t' cur' ts Hv Hc E1 E2]; subst cur. cbn in Hst. inversion Hst; subst v0 rr.
        rewrite Hp in Hstep.
        assert (List.length (cur' ++ below) = List.length below + List.length cur')%nat as Ll by (rewrite app_length; lia).
        rewrite frame_index_shift, Efi in Hstep.
        rewrite <- (stack_has_length _ _ Hc) in Epos.
        destruct (from_bottom_app cur' below _ _ Epos) as [Efb Lpos].
        rewrite Efb in Hstep.
        inversion Hstep; subst m'; clear Hstep.
        rewrite list_update_app by assumption.
        eapply conf_next with (m := m) (a := a) (cur' := list_update cur' pos v) (a' := with_stk a (list_update s' pos tv)).
        * rewrite Efp, Ec. exact Hfr.
        * exact Hle.
        * exact Hnp.
        * reflexivity.
        * reflexivity.
        * cbn. apply list_update_F2; assumption.
        * reflexivity.
        * reflexivity.
        * reflexivity.
        * exact Hsl.
        * reflexivity.
        * reflexivity.
      - (* proto *)
        destruct imms as [|[na|?|?] [|[nr|?|?] [|? ?]]]; try discriminate Hstep.
        rewrite (Hpr _ Hi eq_refl) in Hstep.
        destruct (m_calls m) as [|f fs] eqn:Ec; try discriminate Hstep.
        destruct (nth_error rt (a_rid a)) as [r|] eqn:Er; try discriminate Hchk.
        match type of Hchk with check_succs _ _ (if ?c then _ else _) = true => destruct c eqn:Ecnd; try discriminate Hchk end.
        repeat (apply andb_true_iff in Ecnd; destruct Ecnd as [Ecnd ?]).
        destruct (check_succs_one _ _ Hchk) as [Hle Hnp].
        destruct (N.to_nat na <=? height m)%nat; try discriminate Hstep.
        inversion Hstep; subst m'; clear Hstep.
        destruct (a_fp a) eqn:Efp; try discriminate.
        cbn [frames_ok] in Hfr.
        destruct Hfr as [r' [Er' [Nz [Hp Hrest]]]].
        rewrite Er in Er'; inversion Er'; subst r'; clear Er'.
        destruct (le_at_inv _ _ _ Hle) as [b [Hb [Rb [Fb Sb]]]]. cbn in Rb, Fb, Sb.
        exists b, cur, below. cbn [m_pc m_stack m_calls m_from_callsub].
        split; [assumption|]. split; [assumption|].
        split; [eapply stk_le_has; eauto|].
        split.
        { rewrite <- Rb, <- Fb. cbn [frames_ok]. exists r. split; [assumption|]. split; [assumption|].
          split.
          - cbn [f_proto]. unfold height. rewrite Hst, app_length.
            repeat match goal with H : Nat.eqb _ _ = true |- _ => apply Nat.eqb_eq in H end.
            rewrite (stack_has_length _ _ Hh).
            f_equal. f_equal; [f_equal; lia | lia]. 
          - cbn [f_ret]. exact Hrest. }
        split; [|cbn [m_st]; eapply slots_ok_le; [exact Hsl | exact (le_at_sl _ _ _ _ Hle Hb)]].
        intros i Hi' Hp'. destruct (not_proto_at_inv _ _ Hnp) as [j [Hj Hq]]. congruence. }
  Qed.


  Lemma conf_init : forall st, conf (init_mach st).
  Proof.
    intro st. destruct ind_entry as [Hle Hnp].
    destruct (le_at_inv _ _ _ Hle) as [b [Hb [Rb [Fb Sb]]]]. cbn in Rb, Fb, Sb.
    exists b, [], []. cbn [init_mach m_pc m_stack m_calls m_from_callsub].
    split; [assumption|]. split; [reflexivity|].
    split; [destruct (a_stk b); [constructor | discriminate]|].
    split; [rewrite <- Rb, <- Fb; cbn; auto|].
    split; [|apply slots_ok_any; apply sl_le_nil_any; exact (le_at_sl _ _ _ _ Hle Hb)].
    intros i Hi Hp. destruct (not_proto_at_inv _ _ Hnp) as [j [Hj Hq]]. congruence.
  Qed.

  (* the instruction at a reached pc exists, and the structural checks hold there *)
  Lemma conf_instr : forall m, conf m -> exists i, nth_error (pr_code p) (m_pc m) = Some i.
  Proof.
    intros m [a [cur [below [Ha _]]]]. destruct (ind_pc _ _ Ha) as [i [Hi _]]. eauto.
  Qed.

  (* no opcode takes operands from below the cells its routine owns *)
  Lemma conf_own_cells : forall m, conf m ->
    exists i a cur below,
      nth_error (pr_code p) (m_pc m) = Some i /\ nth_error ann (m_pc m) = Some (Some a) /\
      m_stack m = cur ++ below /\ stack_has cur (a_stk a) /\
      (sig_of (p_op i) (p_imms i) <> SCtl -> enough_cells (sig_of (p_op i) (p_imms i)) cur = true).
  Proof.
    intros m [a [cur [below [Ha [Hst [Hh _]]]]]]. destruct (ind_pc _ _ Ha) as [i [Hi Hchk]].
    exists i, a, cur, below. repeat split; auto.
    intro Hnc.
    assert (sig_of (p_op i) (p_imms i) <> SUnknown) as Hnu.
    { intro E. unfold transfer in Hchk. rewrite E in Hchk. discriminate. }
    rewrite (transfer_generic _ _ _ _ _ Hnc Hnu) in Hchk.
    destruct (sig_apply false (sig_of (p_op i) (p_imms i)) (a_stk a)) as [s'|] eqn:Hs; try discriminate.
    eapply lax_accept_enough; eauto.
  Qed.

  Definition structural (o : opc) : bool :=
    match o with O_b | O_callsub | O_retsub | O_proto | O_frame_dig | O_frame_bury => true | _ => false end.

  (* calls, returns, frame accesses and jumps never fail in a conforming state *)
  Lemma structural_no_fail : forall cx m mf i,
    conf m -> (height m <= STACK_MAX)%nat ->
    nth_error (pr_code p) (m_pc m) = Some i -> structural (p_op i) = true ->
    step cx p m = Done VFail mf -> False.
  Proof.
    intros cx m mf i0 [a [cur [below [Ha [Hst [Hh [Hfr [Hpr Hsl]]]]]]]] Hmax Hi0 Hs0 Hstep.
    destruct (ind_pc _ _ Ha) as [i [Hi Hchk]].
    rewrite Hi in Hi0. inversion Hi0; subst i0; clear Hi0.
    unfold step in Hstep. rewrite Hi in Hstep.
    assert ((STACK_MAX <? height m)%nat = false) as Hm by (apply Nat.ltb_ge; exact Hmax).
    rewrite Hm in Hstep.
    destruct i as [o imms]. cbn [p_op p_imms] in *.
    destruct o; try discriminate Hs0; clear Hs0.
    all: match type of Hstep with context [exec_op ?c ?o ?im ?sk ?t] => rewrite (exec_op_ctl c o im sk t eq_refl) in Hstep end.
    all: unfold transfer in Hchk; cbv beta iota delta [sig_of] in Hchk.
    all: unfold transfer_ctl in Hchk; cbn [p_op p_imms] in Hchk; cbv beta iota in Hstep.
    - (* b *)
      destruct imms as [|[n|b|l] [|? ?]]; try discriminate Hchk.
      destruct (label_pc p l) as [t|] eqn:El; try discriminate Hchk. discriminate Hstep.
    - (* callsub *)
      destruct imms as [|[n|b|l] [|? ?]]; try discriminate Hchk.
      destruct (label_pc p l) as [t|] eqn:El; try discriminate Hchk. discriminate Hstep.
    - (* retsub *)
      destruct (nth_error rt (a_rid a)) as [r|] eqn:Er; try discriminate Hchk.
      destruct (Nat.eqb (a_rid a) 0) eqn:E0; try discriminate Hchk.
      apply Nat.eqb_neq in E0.
      destruct (frames_nonmain _ _ _ _ Hfr E0) as [f [fs Ec]]. rewrite Ec in Hfr, Hstep.
      cbn [frames_ok] in Hfr.
      destruct Hfr as [r' [Er' [Nz [Hp _]]]].
      rewrite Er in Er'; inversion Er'; subst r'; clear Er'.
      rewrite Hp in Hstep.
      destruct (a_fp a) eqn:Efp; try discriminate Hstep.
      cbn [andb negb] in Hchk.
      destruct (List.length (r_args r) + List.length (r_rets r) <=? List.length (a_stk a))%nat eqn:El;
        cbn [negb] in Hchk; try discriminate Hchk.
      apply Nat.leb_le in El. pose proof (stack_has_length _ _ Hh) as Lc.
      unfold height in Hstep. rewrite Hst in Hstep. rewrite app_length in Hstep.
      assert ((List.length below + List.length (r_args r) + List.length (r_rets r) <=? List.length cur + List.length below)%nat = true) as Ht
        by (apply Nat.leb_le; lia).
      rewrite Ht in Hstep. discriminate Hstep.
    - (* frame_dig *)
      destruct imms as [|[k|?|?] [|? ?]]; try discriminate Hchk.
      destruct (nth_error rt (a_rid a)) as [r|] eqn:Er; try discriminate Hchk.
      destruct (a_fp a) eqn:Efp; try discriminate Hchk.
      destruct (frame_index (List.length (r_args r)) (List.length (r_args r)) k) as [idx|] eqn:Efi; try discriminate Hchk.
      destruct (pos_from_bottom (List.length (a_stk a)) idx) as [pos|] eqn:Epos; try discriminate Hchk.
      destruct (nth_error (a_stk a) pos) as [t|] eqn:Et; try discriminate Hchk.
      destruct (m_calls m) as [|f fs] eqn:Ec.
      { cbn in Hfr. destruct Hfr as [_ [F _]]. discriminate F. }
      cbn [frames_ok] in Hfr.
      destruct Hfr as [r' [Er' [Nz [Hp _]]]].
      rewrite Er in Er'; inversion Er'; subst r'; clear Er'.
      rewrite Hp in Hstep. rewrite frame_index_shift, Efi in Hstep. rewrite Hst in Hstep.
      rewrite <- (stack_has_length _ _ Hh) in Epos.
      destruct (from_bottom_app cur below _ _ Epos) as [Efb Lpos].
      rewrite Efb in Hstep.
      destruct (nth_error_F2 has_ty _ _ _ _ Hh Et) as [v [Ev Hv]].
      rewrite (nth_error_app_l _ _ below _ _ Ev) in Hstep. discriminate Hstep.
    - (* frame_bury *)
      destruct imms as [|[k|?|?] [|? ?]]; try discriminate Hchk.
      destruct (nth_error rt (a_rid a)) as [r|] eqn:Er; try discriminate Hchk.
      destruct (a_stk a) as [|tv s'] eqn:Ea; try discriminate Hchk.
      destruct (a_fp a) eqn:Efp; try discriminate Hchk.
      destruct (frame_index (List.length (r_args r)) (List.length (r_args r)) k) as [idx|] eqn:Efi; try discriminate Hchk.
      destruct (pos_from_bottom (List.length s') idx) as [pos|] eqn:Epos; try discriminate Hchk.
      inversion Hh as [|v0 t' cur' ts Hv Hc E1 E2]; subst cur. rewrite Hst in Hstep. cbn [app] in Hstep.
      destruct (m_calls m) as [|f fs] eqn:Ec.
      { cbn in Hfr. destruct Hfr as [_ [F _]]. discriminate F. }
      cbn [frames_ok] in Hfr.
      destruct Hfr as [r' [Er' [Nz [Hp _]]]].
      rewrite Er in Er'; inversion Er'; subst r'; clear Er'.
      rewrite Hp in Hstep. rewrite frame_index_shift, Efi in Hstep.
      rewrite <- (stack_has_length _ _ Hc) in Epos.
      destruct (from_bottom_app cur' below _ _ Epos) as [Efb Lpos].
      rewrite Efb in Hstep. discriminate Hstep.
    - (* proto *)
      destruct imms as [|[na|?|?] [|[nr|?|?] [|? ?]]]; try discriminate Hchk.
      rewrite (Hpr _ Hi eq_refl) in Hstep.
      destruct (nth_error rt (a_rid a)) as [r|] eqn:Er; try discriminate Hchk.
      match type of Hchk with check_succs _ _ (if ?c then _ else _) = true => destruct c eqn:Ecnd; try discriminate Hchk end.
      repeat (apply andb_true_iff in Ecnd; destruct Ecnd as [Ecnd ?]).
      repeat match goal with H : Nat.eqb _ _ = true |- _ => apply Nat.eqb_eq in H end.
      assert (a_rid a <> 0%nat) as Nz.
      { match goal with H : negb (Nat.eqb (a_rid a) 0) = true |- _ => apply negb_true_iff in H; apply Nat.eqb_neq in H; exact H end. }
      destruct (frames_nonmain _ _ _ _ Hfr Nz) as [f [fs Ec]]. rewrite Ec in Hstep.
      assert ((N.to_nat na <=? height m)%nat = true) as Hle.
      { apply Nat.leb_le. unfold height. rewrite Hst, app_length. rewrite (stack_has_length _ _ Hh). lia. }
      rewrite Hle in Hstep. discriminate Hstep.
  Qed.

  Definition branching (o : opc) : bool :=
    match o with O_bz | O_bnz | O_return_ => true | _ => false end.

  (* a conditional branch or return always finds a cell of its own routine *)
  Lemma branching_has_cell : forall m i,
    conf m -> nth_error (pr_code p) (m_pc m) = Some i -> branching (p_op i) = true -> m_stack m <> [].
  Proof.
    intros m i0 [a [cur [below [Ha [Hst [Hh _]]]]]] Hi0 Hb.
    destruct (ind_pc _ _ Ha) as [i [Hi Hchk]].
    rewrite Hi in Hi0. inversion Hi0; subst i0; clear Hi0.
    destruct i as [o imms]. cbn [p_op p_imms] in *.
    destruct o; try discriminate Hb; clear Hb.
    all: unfold transfer in Hchk; cbv beta iota delta [sig_of] in Hchk.
    all: unfold transfer_ctl in Hchk; cbn [p_op p_imms] in Hchk.
    all: destruct (a_stk a) as [|c r] eqn:Ea; [ break_all Hchk; discriminate Hchk | ].
    all: inversion Hh; subst; rewrite Hst; discriminate.
  Qed.

  Section Strict.
    Hypothesis STRICT : annot_strict p rt ann = true.

    Lemma strict_pc : forall pc a, nth_error ann pc = Some (Some a) ->
      exists i, nth_error (pr_code p) pc = Some i /\ check_succs p ann (transfer true false p rt pc i a) = true.
    Proof.
      intros pc a H. pose proof STRICT as F. unfold annot_strict in F. rewrite forallb_forall in F.
      assert (In pc (seq 0 (List.length ann))) as I.
      { apply in_seq. split; [lia|]. cbn. apply nth_error_Some. congruence. }
      specialize (F _ I). unfold check_pc in F. rewrite H in F.
      destruct (nth_error (pr_code p) pc) as [i|]; try discriminate. eauto.
    Qed.

    Lemma strict_operands : forall m i,
      conf m -> nth_error (pr_code p) (m_pc m) = Some i ->
      sig_of (p_op i) (p_imms i) <> SCtl ->
      operands_ok (sig_of (p_op i) (p_imms i)) (m_stack m) = true.
    Proof.
      intros m i0 [a [cur [below [Ha [Hst [Hh _]]]]]] Hi0 Hnc.
      destruct (strict_pc _ _ Ha) as [i [Hi Hchk]].
      rewrite Hi in Hi0. inversion Hi0; subst i0; clear Hi0.
      assert (sig_of (p_op i) (p_imms i) <> SUnknown) as Hnu.
      { intro E. unfold transfer in Hchk. rewrite E in Hchk. discriminate. }
      rewrite (transfer_generic _ _ _ _ _ Hnc Hnu) in Hchk.
      destruct (sig_apply true (sig_of (p_op i) (p_imms i)) (a_stk a)) as [s'|] eqn:Hs; try discriminate.
      rewrite Hst. eapply strict_accept_operands; eauto.
    Qed.

    Lemma strict_branching_no_fail : forall cx m mf i,
      conf m -> (height m <= STACK_MAX)%nat ->
      nth_error (pr_code p) (m_pc m) = Some i -> branching (p_op i) = true ->
      step cx p m = Done VFail mf -> False.
    Proof.
      intros cx m mf i0 [a [cur [below [Ha [Hst [Hh _]]]]]] Hmax Hi0 Hb Hstep.
      destruct (strict_pc _ _ Ha) as [i [Hi Hchk]].
      rewrite Hi in Hi0. inversion Hi0; subst i0; clear Hi0.
      unfold step in Hstep. rewrite Hi in Hstep.
      assert ((STACK_MAX <? height m)%nat = false) as Hm by (apply Nat.ltb_ge; exact Hmax).
      rewrite Hm in Hstep.
      destruct i as [o imms]. cbn [p_op p_imms] in *.
      destruct o; try discriminate Hb; clear Hb.
      all: match type of Hstep with context [exec_op ?c ?o ?im ?sk ?t] => rewrite (exec_op_ctl c o im sk t eq_refl) in Hstep end.
      all: unfold transfer in Hchk; cbv beta iota delta [sig_of] in Hchk.
      all: unfold transfer_ctl in Hchk; cbn [p_op p_imms] in Hchk; cbv beta iota in Hstep.
      - (* bnz *)
        destruct imms as [|[n|b|l] [|? ?]]; try discriminate Hchk.
        destruct (label_pc p l) as [t|] eqn:El; try discriminate Hchk.
        destruct (a_stk a) as [|c r] eqn:Ea; try discriminate Hchk.
        destruct (accepts true c TU) eqn:Ac; try discriminate Hchk.
        inversion Hh as [|v t' cur' ts Hv Hc E1 E2]; subst cur. rewrite Hst in Hstep. cbn [app] in Hstep.
        pose proof (accepts_strict_has _ _ _ Hv Ac) as Hu.
        destruct v; [discriminate Hstep | discriminate Hu].
      - (* bz *)
        destruct imms as [|[n|b|l] [|? ?]]; try discriminate Hchk.
        destruct (label_pc p l) as [t|] eqn:El; try discriminate Hchk.
        destruct (a_stk a) as [|c r] eqn:Ea; try discriminate Hchk.
        destruct (accepts true c TU) eqn:Ac; try discriminate Hchk.
        inversion Hh as [|v t' cur' ts Hv Hc E1 E2]; subst cur. rewrite Hst in Hstep. cbn [app] in Hstep.
        pose proof (accepts_strict_has _ _ _ Hv Ac) as Hu.
        destruct v; [discriminate Hstep | discriminate Hu].
      - (* return *)
        destruct (a_stk a) as [|c r] eqn:Ea; try discriminate Hchk.
        destruct (accepts true c TU) eqn:Ac; try discriminate Hchk.
        inversion Hh as [|v t' cur' ts Hv Hc E1 E2]; subst cur. rewrite Hst in Hstep. cbn [app] in Hstep.
        pose proof (accepts_strict_has _ _ _ Hv Ac) as Hu.
        destruct v; [|discriminate Hu].
        destruct (n =? 0)%N; discriminate Hstep.
    Qed.
  End Strict.

End Sound.

(* ---- executions ---- *)
Fixpoint reach (cx : ctx) (p : program) (n : nat) (m : mach) : option mach :=
  match n with
  | O => Some m
  | S k => match step cx p m with Running m' => reach cx p k m' | Done _ _ => None end
  end.

Lemma reach_conf : forall p rt ann, annot_inductive p rt ann = true ->
  forall cx, ctx_typed cx -> forall n m0 m, conf p rt ann m0 -> reach cx p n m0 = Some m -> conf p rt ann m.
Proof.
  intros p rt ann IND cx CT. induction n as [|n IH]; intros m0 m C H; cbn in H.
  - inversion H; subst; assumption.
  - destruct (step cx p m0) as [m1|v m1] eqn:E; try discriminate.
    eapply IH; [|exact H]. eapply step_conf; eauto.
Qed.

Lemma stack_check_sound_lemma : forall p rt ann, annot_inductive p rt ann = true ->
  forall cx, ctx_typed cx -> forall n st m, reach cx p n (init_mach st) = Some m -> conf p rt ann m.
Proof.
  intros p rt ann IND cx CT n st m H. eapply reach_conf; eauto. apply conf_init; assumption.
Qed.

(* [run] stops in a state that is reachable by [Running] steps *)
Lemma run_reach : forall cx p fuel m0 v mf, run fuel cx p m0 = (v, mf) -> v <> VOutOfFuel ->
  exists n m, reach cx p n m0 = Some m /\ step cx p m = Done v mf.
Proof.
  intros cx p. induction fuel as [|f IH]; intros m0 v mf H NV; cbn in H.
  - inversion H; subst. contradiction.
  - destruct (step cx p m0) as [m1|v1 m1] eqn:E.
    + destruct (IH _ _ _ H NV) as [n [m [R Sd]]]. exists (S n), m. cbn. rewrite E. auto.
    + inversion H; subst. exists 0%nat, m0. cbn. auto.
Qed.

Lemma step_done_same : forall cx p m v mf, step cx p m = Done v mf -> mf = m.
Proof.
  intros cx p m v mf H. unfold step in H.
  repeat match type of H with
  | context [match ?x with _ => _ end] =>
      lazymatch x with
      | context [match _ with _ => _ end] => fail
      | _ => destruct x
      end
  end; try discriminate H; inversion H; reflexivity.
Qed.

(* ---- which failures are excluded ---- *)
(* A step that fails for a reason of SHAPE: an operand is missing or has the wrong type, a frame access or a
   return has no (or too small a) frame, a label is missing, or control runs off the end of the program.
   Not included (failures of VALUE): err, assert, arithmetic (overflow, division by zero, ...), indices and
   lengths out of range inside an opcode, constant-block indices, the 1000-cell stack limit. *)
Definition shape_failure (cx : ctx) (p : program) (m : mach) : Prop :=
  (height m <= STACK_MAX)%nat /\ (exists mf, step cx p m = Done VFail mf) /\
  match nth_error (pr_code p) (m_pc m) with
  | None => True
  | Some i =>
      match sig_of (p_op i) (p_imms i) with
      | SCtl => structural (p_op i) = true \/ branching (p_op i) = true
      | SUnknown => False
      | sd => operands_ok sd (m_stack m) = false
      end
  end.

(* the part that holds even when [any] cells reach typed operands: missing cells, frames, labels, the end *)
Definition depth_failure (cx : ctx) (p : program) (m : mach) : Prop :=
  (height m <= STACK_MAX)%nat /\ (exists mf, step cx p m = Done VFail mf) /\
  match nth_error (pr_code p) (m_pc m) with
  | None => True
  | Some i =>
      match sig_of (p_op i) (p_imms i) with
      | SCtl => structural (p_op i) = true \/ (branching (p_op i) = true /\ m_stack m = [])
      | SUnknown => False
      | sd => enough_cells sd (m_stack m) = false
      end
  end.

Lemma conf_no_depth_failure : forall p rt ann, annot_inductive p rt ann = true ->
  forall cx m, conf p rt ann m -> ~ depth_failure cx p m.
Proof.
  intros p rt ann IND cx m C [Hmax [[mf Hstep] Hk]].
  destruct (conf_own_cells p rt ann IND m C) as [i [a [cur [below [Hi [Ha [Hst [Hh Hen]]]]]]]].
  rewrite Hi in Hk.
  destruct (ind_pc p rt ann IND _ _ Ha) as [i' [Hi' Hchk]].
  rewrite Hi in Hi'; inversion Hi'; subst i'; clear Hi'.
  unfold transfer in Hchk.
  destruct (sig_of (p_op i) (p_imms i)) eqn:Hsig;
    try (match type of Hchk with context [sig_apply false ?sd ?s] => destruct (sig_apply false sd s) eqn:Hs end;
         [ rewrite Hst in Hk; rewrite (lax_accept_enough_app _ _ _ _ below Hs Hh) in Hk; discriminate Hk
         | discriminate Hchk ]).
  - destruct Hk as [Hs | [Hb He]].
    + eapply structural_no_fail; eauto.
    + eapply branching_has_cell; eauto.
  - exact Hk.
Qed.

Lemma conf_no_shape_failure : forall p rt ann, annot_inductive p rt ann = true -> annot_strict p rt ann = true ->
  forall cx m, conf p rt ann m -> ~ shape_failure cx p m.
Proof.
  intros p rt ann IND STR cx m C [Hmax [[mf Hstep] Hk]].
  destruct (conf_instr p rt ann IND m C) as [i Hi].
  rewrite Hi in Hk.
  pose proof (strict_operands p rt ann STR m i C Hi) as Hgood.
  destruct (sig_of (p_op i) (p_imms i)) eqn:Hsig;
    try (rewrite Hgood in Hk by discriminate; discriminate Hk).
  - destruct Hk as [Hs | Hb].
    + eapply structural_no_fail; eauto.
    + eapply strict_branching_no_fail; eauto.
  - exact Hk.
Qed.

(* heights (and routine, and frame flag) at a pc are the same along every path *)
Lemma conf_same_pc : forall p rt ann m1 m2, conf p rt ann m1 -> conf p rt ann m2 -> m_pc m1 = m_pc m2 ->
  exists a cur1 below1 cur2 below2,
    nth_error ann (m_pc m1) = Some (Some a) /\
    m_stack m1 = cur1 ++ below1 /\ m_stack m2 = cur2 ++ below2 /\
    stack_has cur1 (a_stk a) /\ stack_has cur2 (a_stk a) /\
    List.length cur1 = List.length cur2.
Proof.
  intros p rt ann m1 m2 [a1 [c1 [b1 [A1 [S1 [H1 _]]]]]] [a2 [c2 [b2 [A2 [S2 [H2 _]]]]]] E.
  rewrite <- E in A2. rewrite A1 in A2. inversion A2; subst a2.
  exists a1, c1, b1, c2, b2. repeat split; auto.
  rewrite (stack_has_length _ _ H1), (stack_has_length _ _ H2). reflexivity.
Qed.
