(* Proofs/CallComposeProgram.v — property C02: the pipeline [compile_components] (optimiser off) inverted
   down to the linked component list, and the composed statement for a whole program:
   [program_linked_correct]. *)
From Coq Require Import List Arith NArith String Bool Lia.
From PV Require Import Base.Bytes Base.Sexp AVM.Syntax AVM.Machine Src.Expr Src.Denote Src.DenoteCall
  Comp.Blocks Comp.Lower Comp.Passes Comp.GraphSem Comp.LinearSem Comp.LinkedSem Comp.Compile
  Proofs.LowerFrame Proofs.LowerShape Proofs.NormalizeLowered Proofs.EndToEndExits
  Proofs.SlotComposeAssign
  CallX.Denote CallX.GraphSem CallX.LinearSem CallX.LowerCorrect CallX.EndToEndGlue CallX.EndToEnd
  CallX.SlotCompose CallX.SlotComposeEnd CallX.SlotComposeFinal
  Proofs.CallComposeLink Proofs.CallComposeMain Proofs.CallComposeLayout
  Proofs.CallComposeSpill Proofs.CallComposeSpillPass.
Import ListNotations.
Local Open Scope string_scope.
Local Open Scope list_scope.

(* ---- compile_one / compile_rec ---- *)
Lemma compile_one_sub o sub ast cr : compile_one o sub ast = COk cr -> cr_sub cr = sub.
Proof.
  intros E. unfold compile_one in E.
  destruct (check_expr _ _ _ _); [discriminate E|].
  destruct (has_bad_continue _ _); [discriminate E|].
  destruct (lower _ _ _ _ _) as [[s en] g0].
  destruct (add_incoming g0 s) as [g1 d].
  destruct (negb (validate_tree g1 s)); [discriminate E|].
  match type of E with (match ?R with COk _ => _ | CErr _ => _ end) = _ => destruct R as [[g2 s2]|] end; [|discriminate E].
  destruct (negb (validate_tree g2 s2)); [discriminate E|].
  destruct (normalize g2 s2) as [g3 s3].
  destruct (negb (validate_tree g3 s3)); [discriminate E|].
  injection E as <-. reflexivity.
Qed.

Definition sub_origin (o : copts) (p : prog) (c : croutine) : Prop :=
  exists r, cr_sub c = Some r /\ In r (p_subs p) /\ compile_one o (Some r) (decl_body o r) = COk c.

Section Rec.
  Variable o : copts.
  Variable p : prog.

  Lemma fold_step_err {A} (F : cres (list croutine) -> A -> cres (list croutine)) :
    (forall e x, F (CErr e) x = CErr e) -> forall l e, fold_left F l (CErr e) = CErr e.
  Proof. intros HF. induction l as [|x t IH]; intros e; [reflexivity|]. cbn [fold_left]. rewrite HF. apply IH. Qed.

  Lemma find_sub_in s r : find_sub p s = Some r -> In r (p_subs p).
  Proof. unfold find_sub. intros H. apply find_some in H. exact (proj1 H). Qed.

  (* the list compile_rec returns: what it was given, then the routine itself, then subroutines *)
  Lemma compile_rec_shape : forall fuel sub ast acc res,
    compile_rec fuel o p sub ast acc = COk res ->
    exists cr rest, res = acc ++ cr :: rest /\ compile_one o sub ast = COk cr /\ Forall (sub_origin o p) rest.
  Proof.
    induction fuel as [|f IH]; intros sub ast acc res H; [discriminate H|].
    cbn [compile_rec] in H.
    destruct (compile_one o sub ast) as [cr0|e] eqn:E0; [|discriminate H].
    match type of H with
    | fold_left ?F ?news (COk ?acc1) = _ => set (FF := F) in H; set (nws := news) in H; set (a1 := acc1) in H
    end.
    assert (P1 : exists rest1, a1 = acc ++ cr0 :: rest1 /\ Forall (sub_origin o p) rest1).
    { exists []. split; [reflexivity|constructor]. }
    clearbody a1. clearbody nws.
    revert a1 P1 H. induction nws as [|s t IHn]; intros a1 P1 H.
    - cbn [fold_left] in H. injection H as <-. destruct P1 as (rest1 & -> & F1). exists cr0, rest1. auto.
    - cbn [fold_left] in H. unfold FF at 2 in H.
      destruct (existsb (fun c => match cr_key c with Some k => N.eqb k s | None => false end) a1).
      + exact (IHn a1 P1 H).
      + destruct (find_sub p s) as [r|] eqn:Fs.
        * destruct (compile_rec f o p (Some r) (decl_body o r) a1) as [a2|e] eqn:E2.
          -- apply (IHn a2); [|exact H].
             destruct (IH _ _ _ _ E2) as (cr' & rest' & -> & E' & F').
             destruct P1 as (rest1 & -> & F1).
             exists (rest1 ++ cr' :: rest'). split; [rewrite <- app_assoc; reflexivity|].
             apply Forall_app. split; [exact F1|]. constructor; [|exact F'].
             exists r. split; [exact (compile_one_sub _ _ _ _ E')|]. split; [exact (find_sub_in s r Fs)|exact E'].
          -- rewrite fold_step_err in H; [discriminate H|]. intros e0 x. reflexivity.
        * rewrite fold_step_err in H; [discriminate H|]. intros e0 x. reflexivity.
  Qed.
End Rec.

(* ---- sortBlocks + flattenBlocks over the routine list ---- *)
Definition flat_step (c : croutine) (acc : cres (list flat_routine)) : cres (list flat_routine) :=
  match acc with
  | CErr e => CErr e
  | COk l =>
      match sort_blocks (cr_graph c) (cr_start c) (cr_end c) with
      | None => CErr ErrInternal
      | Some order =>
          match flatten_blocks (cr_graph c) order with
          | Some ops => COk (mkFR (cr_sub c) ops :: l)
          | None => CErr CrashAssertion
          end
      end
  end.

Definition flat_rel (c : croutine) (fr : flat_routine) : Prop :=
  fr_sub fr = cr_sub c /\
  exists order, sort_blocks (cr_graph c) (cr_start c) (cr_end c) = Some order /\
                flatten_blocks (cr_graph c) order = Some (fr_ops fr).

Lemma flat_inv : forall crs frs, fold_right flat_step (COk []) crs = COk frs -> Forall2 flat_rel crs frs.
Proof.
  induction crs as [|c t IH]; intros frs H; cbn [fold_right] in H.
  - injection H as <-. constructor.
  - unfold flat_step at 1 in H.
    destruct (fold_right flat_step (COk []) t) as [l|e] eqn:Et; [|discriminate H].
    destruct (sort_blocks (cr_graph c) (cr_start c) (cr_end c)) as [order|] eqn:Es; [|discriminate H].
    destruct (flatten_blocks (cr_graph c) order) as [ops|] eqn:Ef; [|discriminate H].
    injection H as <-. constructor; [|exact (IH l eq_refl)].
    split; [reflexivity|]. exists order. split; [exact Es|exact Ef].
Qed.

(* compile_components, optimiser off: every intermediate result *)
Lemma compile_components_stages o modes p comps :
  compile_components o modes p = COk comps -> o_opt_slots o = false ->
  exists crs crs' locals asg frs frs2,
    compile_rec (S (List.length (p_subs p))) o p None (p_main p) [] = COk crs /\
    assign_slots p crs = COk (crs', locals, asg) /\
    fold_right flat_step (COk []) crs' = COk frs /\
    spill (o_version o) p frs locals = COk frs2 /\
    comps = CPragma (o_version o) :: flatten_subroutines frs2.
Proof.
  intros H Ho. unfold compile_components in H. rewrite Ho in H.
  destruct (negb _); [discriminate H|].
  destruct (compile_rec _ o p None (p_main p) []) as [crs|e] eqn:E1; [|discriminate H].
  destruct (assign_slots p crs) as [[[crs' locals] asg]|e] eqn:E2; [|discriminate H].
  change (fold_right _ (COk []) crs') with (fold_right flat_step (COk []) crs') in H.
  destruct (fold_right flat_step (COk []) crs') as [frs|e] eqn:E3; [|discriminate H].
  destruct (spill (o_version o) p frs locals) as [frs2|e] eqn:E4; [|discriminate H].
  destruct (verify_ops o modes (flatten_subroutines frs2)); [discriminate H|].
  injection H as <-.
  exists crs, crs', locals, asg, frs, frs2. repeat split; reflexivity || assumption.
Qed.

(* ---- the composed statement for a program ---- *)
Lemma Forall2_in_l {A B} (R : A -> B -> Prop) l1 l2 b : Forall2 R l1 l2 -> In b l2 -> exists a, In a l1 /\ R a b.
Proof.
  induction 1 as [|x y t1 t2 Rxy _ IH]; intros Hin; [destruct Hin|].
  destruct Hin as [<-|Hin]; [exists x; split; [left; reflexivity|exact Rxy]|].
  destruct (IH Hin) as (a & Ha & Ra). exists a. split; [right; exact Ha|exact Ra].
Qed.

(* the component list after a pass that keeps the routines' identities and turns correct units (for the
   identity transformer) into correct units for the transformer W *)
Definition unit_lift (o : copts) (cx : ctx) (look : N -> N) (msel : list (string * bytes)) (subs : list routine)
           (W : option routine -> (N -> list value -> mstate -> callres) -> (N -> list value -> mstate -> callres))
           (fr fr2 : flat_routine) : Prop :=
  fr_sub fr2 = fr_sub fr /\
  forall ast0, unit_correct o cx look msel subs idW (fr_sub fr) ast0 (fr_ops fr) ->
               unit_correct o cx look msel subs W (fr_sub fr) ast0 (fr_ops fr2).

Lemma Forall2_in_r {A B} (R : A -> B -> Prop) l1 l2 b : Forall2 R l1 l2 -> In b l2 -> exists a, In a l1 /\ R a b.
Proof. exact (Forall2_in_l R l1 l2 b). Qed.

Lemma Forall2_head {A B} (R : A -> B -> Prop) x t l2 : Forall2 R (x :: t) l2 -> exists y u, l2 = y :: u /\ R x y /\ Forall2 R t u.
Proof. intros H. inversion H; subst. eauto. Qed.

Lemma program_core o p crs crs' locals asg frs frs2 W cx msel :
  compile_rec (S (List.length (p_subs p))) o p None (p_main p) [] = COk crs ->
  assign_slots p crs = COk (crs', locals, asg) ->
  fold_right flat_step (COk []) crs' = COk frs ->
  head_loop (root_ast (p_main p)) = false ->
  (forall r, In r (p_subs p) -> r_deferred r = None) ->
  requested_valid p (all_slots crs) ->
  Forall2 (unit_lift o cx (look_of asg) msel (fs_subs frs2) W) frs frs2 ->
  let L := flatten_subroutines frs2 in
  NoDup (labels_of L) ->
  forallb (fun fr => linkable (fr_ops fr)) frs2 = true ->
  (forall n, realizes (lenv cx (look_of asg) msel (fs_subs frs2)) L (fs_res frs2)
                      (call_k o cx (look_of asg) msel (fs_subs frs2) W n)) /\
  (forall n fuel stk st h,
     halt_of (denote_k o cx (look_of asg) msel (fs_subs frs2) W n None fuel (root_ast (p_main p)) stk st) = Some h ->
     claimed h ->
     pstar (lenv cx (look_of asg) msel (fs_subs frs2)) L (PAt [] 0 stk st) (emb 0 [] h)).
Proof.
  intros HR HA HF HL HD HV HU L ND LK.
  destruct (compile_rec_shape o p _ _ _ _ _ HR) as (crm & rest & Ecrs & Em & Frest). cbn [app] in Ecrs.
  destruct (assign_slots_inv p crs crs' locals asg HA) as (_ & _ & _ & Ecrs').
  pose proof (flat_inv crs' frs HF) as F2.
  set (look := look_of asg) in *.
  (* a compiled routine of the list gives a correct unit (for the identity transformer) *)
  assert (UC : forall cr sub ast0, In cr crs -> compile_one o sub ast0 = COk cr ->
            (match sub with Some r => r_deferred r | None => None end) = None ->
            head_loop (root_ast ast0) = false ->
            forall fr, flat_rel (rw_routine look cr) fr ->
            unit_correct o cx look msel (fs_subs frs2) idW sub ast0 (fr_ops fr)).
  { intros cr sub ast0 Hin Ec Dd Hh fr (Es & order & Hs & Hf) orc fuel stk st h Hh'.
    destruct (routine_end_to_end_assigned o sub ast0 cr p crs crs' locals asg Dd Ec Hh Hin HA HV) as [_ T].
    destruct (T order (fr_ops fr) Hs Hf) as (_ & _ & T').
    exact (proj1 (T' (envk o cx look msel (fs_subs frs2) sub orc) (envk_consistent o cx look msel (fs_subs frs2) sub orc)
                     fuel stk st h Hh')). }
  (* the component list before the pass: main first, then subroutines *)
  assert (Efrs : exists mainfr restf, frs = mainfr :: restf /\ flat_rel (rw_routine look crm) mainfr /\
                   Forall2 flat_rel (map (rw_routine look) rest) restf).
  { rewrite Ecrs', Ecrs in F2. cbn [map] in F2. inversion F2 as [|? mainfr ? restf R1 R2]; subst.
    exists mainfr, restf. auto. }
  destruct Efrs as (mainfr & restf & Efrs & Rm & Rr).
  assert (Sm : fr_sub mainfr = None).
  { destruct Rm as [E _]. rewrite E. destruct (rw_routine_fields look crm) as (-> & _). exact (compile_one_sub _ _ _ _ Em). }
  (* every subroutine component comes from a declaration body *)
  assert (Orig : forall fr, In fr restf -> exists r, fr_sub fr = Some r /\ In r (p_subs p) /\
                   unit_correct o cx look msel (fs_subs frs2) idW (Some r) (decl_body o r) (fr_ops fr)).
  { intros fr Hin. destruct (Forall2_in_l _ _ _ _ Rr Hin) as (c' & Hc' & Rc).
    apply in_map_iff in Hc'. destruct Hc' as (c & <- & Hc). rewrite Forall_forall in Frest.
    destruct (Frest c Hc) as (r & Er & Hr & Ec). exists r.
    split; [destruct Rc as [E _]; rewrite E; destruct (rw_routine_fields look c) as (-> & _); exact Er|].
    split; [exact Hr|].
    apply (UC c (Some r) (decl_body o r)); [rewrite Ecrs; right; exact Hc|exact Ec|exact (HD r Hr)|
                                            apply decl_body_root_head_loop|exact Rc]. }
  (* after the pass *)
  rewrite Efrs in HU. destruct (Forall2_head _ _ _ _ HU) as (mainfr2 & restf2 & Efrs2 & (Sm2 & Lm) & HU').
  rewrite Sm in Sm2, Lm.
  assert (Sr2 : Forall (fun fr => fr_sub fr <> None) restf2).
  { apply Forall_forall. intros fr2 Hfr2. destruct (Forall2_in_r _ _ _ _ HU' Hfr2) as (fr & Hfr & (E & _)).
    destruct (Orig fr Hfr) as (r & Er & _). rewrite E, Er. discriminate. }
  assert (Hsubs : forall f r, find_routine (fs_subs frs2) f = Some r ->
            r_id r = f /\ unit_placed o cx look msel (fs_subs frs2) W L (fs_res frs2) r).
  { intros f r Fr. destruct (flatten_layout_sub frs2 f r Fr) as (Eid & fr2 & e & Hin & Es & Er & Ne & Pl).
    split; [exact Eid|]. subst f.
    exists (fs_label frs2 r), e, (Some (r_name r)), (fs_label frs2 r ++ "_")%string, (fr_ops fr2).
    split; [exact Er|]. split; [exact Ne|]. split; [exact Pl|]. split.
    { rewrite forallb_forall in LK. exact (LK fr2 Hin). }
    rewrite Efrs2 in Hin. destruct Hin as [<-|Hin]; [rewrite Sm2 in Es; discriminate Es|].
    destruct (Forall2_in_r _ _ _ _ HU' Hin) as (fr & Hfr & (E & Lf)).
    destruct (Orig fr Hfr) as (r' & Er' & _ & UCr).
    assert (r' = r) by (rewrite E, Er' in Es; injection Es as <-; reflexivity). subst r'.
    rewrite Er' in Lf. exact (Lf _ UCr). }
  split.
  - intros n. exact (linked_calls_realized o cx look msel (fs_subs frs2) W L (fs_res frs2) ND Hsubs n).
  - intros n fuel stk st h Hh Cl.
    refine (linked_routine_correct o cx look msel (fs_subs frs2) W L (fs_res frs2) ND Hsubs None (p_main p) 0 "main_" (fr_ops mainfr2)
              _ _ _ n fuel [] stk st h Hh Cl).
    + exact (flatten_layout_main frs2 mainfr2 restf2 Efrs2 Sm2 Sr2).
    + rewrite forallb_forall in LK. apply LK. rewrite Efrs2. left. reflexivity.
    + apply Lm. apply (UC crm None (p_main p)); [rewrite Ecrs; left; reflexivity|exact Em|reflexivity|exact HL|exact Rm].
Qed.

(* ---- programs the spill pass leaves alone (in particular: acyclic call graphs) ---- *)
Theorem program_linked_correct o modes p comps :
  compile_components o modes p = COk comps -> o_opt_slots o = false ->
  head_loop (root_ast (p_main p)) = false ->
  (forall r, In r (p_subs p) -> r_deferred r = None) ->
  exists crs crs' locals asg frs frs2,
    compile_rec (S (List.length (p_subs p))) o p None (p_main p) [] = COk crs /\
    assign_slots p crs = COk (crs', locals, asg) /\
    fold_right flat_step (COk []) crs' = COk frs /\
    spill (o_version o) p frs locals = COk frs2 /\
    comps = CPragma (o_version o) :: flatten_subroutines frs2 /\
    (requested_valid p (all_slots crs) ->
     frs2 = frs ->                                           (* the spill pass inserted nothing *)
     let L := flatten_subroutines frs in
     NoDup (labels_of L) ->
     forallb (fun fr => linkable (fr_ops fr)) frs = true ->
     forall cx msel,
       (* every call, to every depth, is realized by the linked program ... *)
       (forall n, realizes (lenv cx (look_of asg) msel (fs_subs frs)) L (fs_res frs)
                           (call_k o cx (look_of asg) msel (fs_subs frs) idW n)) /\
       (* ... and the linked program computes the source semantics of the main routine *)
       (forall n fuel stk st h,
          halt_of (denote_k o cx (look_of asg) msel (fs_subs frs) idW n None fuel (root_ast (p_main p)) stk st) = Some h ->
          claimed h ->
          pstar (lenv cx (look_of asg) msel (fs_subs frs)) L (PAt [] 0 stk st) (emb 0 [] h))).
Proof.
  intros H Ho HL HD.
  destruct (compile_components_stages o modes p comps H Ho) as (crs & crs' & locals & asg & frs & frs2 & HR & HA & HF & HS & HC).
  exists crs, crs', locals, asg, frs, frs2. repeat (split; [assumption|]).
  intros HV E2 L ND LK cx msel. subst frs2.
  apply (program_core o p crs crs' locals asg frs frs idW cx msel HR HA HF HL HD HV); [|exact ND|exact LK].
  generalize (fs_subs frs). intros S0. clear.
  induction frs as [|fr t IH]; constructor; [|exact IH]. split; [reflexivity|]. intros ast0 U. exact U.
Qed.

(* ---- the general statement: whatever the spill pass does ---- *)
Lemma fs_subs_map_sub (g : flat_routine -> flat_routine) frs :
  (forall fr, fr_sub (g fr) = fr_sub fr) -> fs_subs (map g frs) = fs_subs frs.
Proof.
  intros H. unfold fs_subs. induction frs as [|fr t IH]; [reflexivity|]. cbn [map flat_map]. rewrite H, IH. reflexivity.
Qed.

Lemma stmt_in_sp_stmt version p re slots c : In c (sp_stmt version p re slots c).
Proof.
  unfold sp_stmt. destruct (filter _ _); [left; reflexivity|]. rewrite spill_one_split.
  apply in_or_app. right. left. reflexivity.
Qed.

Lemma in_sp_fr_ops version p frs locals fr c : In c (fr_ops fr) -> In c (fr_ops (sp_fr version p frs locals fr)).
Proof.
  intros H. unfold sp_fr. destruct (fr_sub fr) as [r|]; [|exact H]. destruct (sp_active frs locals r); [|exact H].
  cbn [fr_ops]. apply in_flat_map. exists c. split; [exact H|apply stmt_in_sp_stmt].
Qed.

Theorem program_linked_correct_spill o modes p comps :
  compile_components o modes p = COk comps -> o_opt_slots o = false ->
  head_loop (root_ast (p_main p)) = false ->
  (forall r, In r (p_subs p) -> r_deferred r = None) ->
  exists crs crs' locals asg frs frs2,
    compile_rec (S (List.length (p_subs p))) o p None (p_main p) [] = COk crs /\
    assign_slots p crs = COk (crs', locals, asg) /\
    fold_right flat_step (COk []) crs' = COk frs /\
    spill (o_version o) p frs locals = COk frs2 /\
    comps = CPragma (o_version o) :: flatten_subroutines frs2 /\
    (requested_valid p (all_slots crs) ->
     let L := flatten_subroutines frs2 in
     NoDup (labels_of L) ->
     forallb (fun fr => linkable (fr_ops fr)) frs2 = true ->
     forall cx msel,
       let W := W_spill o cx (look_of asg) msel (fs_subs frs2) (o_version o) p frs locals in
       (forall n, realizes (lenv cx (look_of asg) msel (fs_subs frs2)) L (fs_res frs2)
                           (call_k o cx (look_of asg) msel (fs_subs frs2) W n)) /\
       (forall n fuel stk st h,
          halt_of (denote_k o cx (look_of asg) msel (fs_subs frs2) W n None fuel (root_ast (p_main p)) stk st) = Some h ->
          claimed h ->
          pstar (lenv cx (look_of asg) msel (fs_subs frs2)) L (PAt [] 0 stk st) (emb 0 [] h))).
Proof.
  intros H Ho HL HD.
  destruct (compile_components_stages o modes p comps H Ho) as (crs & crs' & locals & asg & frs & frs2 & HR & HA & HF & HS & HC).
  exists crs, crs', locals, asg, frs, frs2. repeat (split; [assumption|]).
  intros HV L ND LK cx msel W.
  pose proof (spill_inv (o_version o) p frs locals frs2 HS) as E2.
  apply (program_core o p crs crs' locals asg frs frs2 W cx msel HR HA HF HL HD HV); [|exact ND|exact LK].
  subst frs2. rewrite forallb_forall in LK.
  assert (G : forall l, (forall fr, In fr l -> In fr frs) ->
            Forall2 (unit_lift o cx (look_of asg) msel (fs_subs (map (sp_fr (o_version o) p frs locals) frs)) W) l
                    (map (sp_fr (o_version o) p frs locals) l)).
  { induction l as [|fr t IH]; intros Hl; cbn [map]; constructor.
    - split; [apply sp_fr_sub|]. intros ast0 U.
      destruct fr as [[r|] code]; cbn [fr_sub fr_ops] in *.
      + apply spill_unit; [|exact U].
        intros i Hi.
        assert (Hin : In (sp_fr (o_version o) p frs locals (mkFR (Some r) code)) (map (sp_fr (o_version o) p frs locals) frs)).
        { apply in_map. apply Hl. left. reflexivity. }
        pose proof (LK _ Hin) as Lc. unfold linkable in Lc. rewrite forallb_forall in Lc.
        specialize (Lc (COp i) (in_sp_fr_ops _ _ _ _ (mkFR (Some r) code) _ Hi)). cbn in Lc.
        apply andb_prop in Lc. exact (proj1 Lc).
      + exact U.
    - apply IH. intros fr' H'. apply Hl. right. exact H'. }
  exact (G frs (fun _ H => H)).
Qed.
