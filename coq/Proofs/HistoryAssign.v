(* Proofs/HistoryAssign.v — only the relative order of ids is used (property C11). *)
From Coq Require Import NArith List Bool Lia Permutation Sorted.
From PV Require Import Hist.Events Hist.Assign.
Import ListNotations.
Local Open Scope N_scope.

(* ------------------------------------------------------------------------------------------ *)
(* stable sort: extensionality in the key comparison, commutation with map and filter           *)
(* ------------------------------------------------------------------------------------------ *)
Section SortLemmas.
  Context {A : Type}.

  Lemma insert_by_in (key : A -> N) x l y : In y (insert_by key x l) <-> y = x \/ In y l.
  Proof.
    induction l as [|z t IH]; cbn.
    - intuition.
    - destruct (key x <=? key z); cbn; [intuition|]. rewrite IH. intuition.
  Qed.

  Lemma sort_by_cons (key : A -> N) x t : sort_by key (x :: t) = insert_by key x (sort_by key t).
  Proof. reflexivity. Qed.

  Lemma sort_by_in (key : A -> N) l y : In y (sort_by key l) <-> In y l.
  Proof.
    induction l as [|x t IH]; [reflexivity|]. rewrite sort_by_cons, insert_by_in, IH. cbn. intuition.
  Qed.

  Lemma insert_by_length (key : A -> N) x l : length (insert_by key x l) = S (length l).
  Proof.
    induction l as [|z t IH]; cbn; [reflexivity|].
    destruct (key x <=? key z); cbn; [reflexivity|]. rewrite IH; reflexivity.
  Qed.

  Lemma sort_by_length (key : A -> N) l : length (sort_by key l) = length l.
  Proof. induction l as [|x t IH]; [reflexivity|]. rewrite sort_by_cons, insert_by_length, IH. reflexivity. Qed.

  (* two keys that compare alike on the elements of the list sort alike *)
  Lemma insert_by_ext (k1 k2 : A -> N) x l :
    (forall y, In y l -> (k1 x <=? k1 y) = (k2 x <=? k2 y)) ->
    insert_by k1 x l = insert_by k2 x l.
  Proof.
    induction l as [|z t IH]; intros H; cbn; [reflexivity|].
    rewrite (H z) by (left; reflexivity). destruct (k2 x <=? k2 z); [reflexivity|].
    f_equal. apply IH. intros y Hy. apply H. right; exact Hy.
  Qed.

  Lemma sort_by_ext (k1 k2 : A -> N) l :
    (forall x y, In x l -> In y l -> (k1 x <=? k1 y) = (k2 x <=? k2 y)) ->
    sort_by k1 l = sort_by k2 l.
  Proof.
    induction l as [|x t IH]; intros H; [reflexivity|]. rewrite !sort_by_cons.
    rewrite IH by (intros a b Ha Hb; apply H; right; assumption).
    apply insert_by_ext. intros y Hy. apply sort_by_in in Hy. apply H; [left; reflexivity | right; exact Hy].
  Qed.

  Definition key_le (key : A -> N) (a b : A) : Prop := key a <= key b.

  Lemma insert_by_sorted (key : A -> N) x l :
    StronglySorted (key_le key) l -> StronglySorted (key_le key) (insert_by key x l).
  Proof.
    induction l as [|z t IH]; intros Hs; cbn.
    - constructor; constructor.
    - inversion Hs as [|z' t' Hst Hall]; subst.
      destruct (key x <=? key z) eqn:E.
      + apply N.leb_le in E. constructor; [exact Hs|].
        constructor; [exact E|]. eapply Forall_impl; [|exact Hall]. unfold key_le; intros a Ha; lia.
      + apply N.leb_gt in E. constructor; [apply IH; exact Hst|].
        apply Forall_forall. intros y Hy. apply insert_by_in in Hy as [->|Hy].
        * unfold key_le; lia.
        * rewrite Forall_forall in Hall. apply Hall; exact Hy.
  Qed.

  Lemma sort_by_sorted (key : A -> N) l : StronglySorted (key_le key) (sort_by key l).
  Proof. induction l as [|x t IH]; [constructor | rewrite sort_by_cons; apply insert_by_sorted; exact IH]. Qed.

  Lemma insert_by_head (key : A -> N) x l :
    (forall y, In y l -> key x <= key y) -> insert_by key x l = x :: l.
  Proof.
    destruct l as [|z t]; intros H; cbn; [reflexivity|].
    assert (E : (key x <=? key z) = true) by (apply N.leb_le, H; left; reflexivity).
    rewrite E; reflexivity.
  Qed.

  (* filtering commutes with inserting into a sorted list *)
  Lemma insert_by_filter (key : A -> N) (p : A -> bool) x l :
    StronglySorted (key_le key) l ->
    filter p (insert_by key x l) = if p x then insert_by key x (filter p l) else filter p l.
  Proof.
    induction l as [|z t IH]; intros Hs.
    - cbn. destruct (p x); reflexivity.
    - inversion Hs as [|z' t' Hst Hall]; subst. cbn [insert_by].
      destruct (key x <=? key z) eqn:E.
      + cbn [filter]. destruct (p x) eqn:Px; [|reflexivity].
        symmetry. apply insert_by_head. intros y Hy.
        apply N.leb_le in E.
        assert (Hy' : In y (z :: t)) by (change (In y (filter p (z :: t))) in Hy; apply filter_In in Hy; tauto).
        destruct Hy' as [->|Hy']; [exact E|].
        rewrite Forall_forall in Hall. specialize (Hall y Hy'). unfold key_le in Hall. lia.
      + cbn [filter]. rewrite (IH Hst).
        destruct (p x) eqn:Px, (p z) eqn:Pz; cbn [insert_by]; rewrite ?E; reflexivity.
  Qed.

  Lemma sort_by_filter (key : A -> N) (p : A -> bool) l :
    filter p (sort_by key l) = sort_by key (filter p l).
  Proof.
    induction l as [|x t IH]; [reflexivity|]. rewrite sort_by_cons.
    rewrite insert_by_filter by apply sort_by_sorted. rewrite IH. cbn [filter].
    destruct (p x); reflexivity.
  Qed.
End SortLemmas.

Lemma insert_by_map {A B} (kA : A -> N) (kB : B -> N) (g : A -> B) x l :
  (forall y, In y l -> (kB (g x) <=? kB (g y)) = (kA x <=? kA y)) ->
  insert_by kB (g x) (map g l) = map g (insert_by kA x l).
Proof.
  induction l as [|z t IH]; intros H; cbn; [reflexivity|].
  rewrite (H z) by (left; reflexivity). destruct (kA x <=? kA z); cbn; [reflexivity|].
  f_equal. apply IH. intros y Hy; apply H; right; exact Hy.
Qed.

Lemma sort_by_map {A B} (kA : A -> N) (kB : B -> N) (g : A -> B) l :
  (forall x y, In x l -> In y l -> (kB (g x) <=? kB (g y)) = (kA x <=? kA y)) ->
  sort_by kB (map g l) = map g (sort_by kA l).
Proof.
  induction l as [|x t IH]; intros H; [reflexivity|]. cbn [map]. rewrite !sort_by_cons.
  rewrite IH by (intros a b Ha Hb; apply H; right; assumption).
  apply insert_by_map. intros y Hy. apply sort_by_in in Hy. apply H; [left; reflexivity | right; exact Hy].
Qed.

Lemma mono_leb f : strictly_monotone f -> forall a b, (f a <=? f b) = (a <=? b).
Proof.
  intros Hf a b. destruct (a <=? b) eqn:E.
  - apply N.leb_le in E. apply N.leb_le. destruct (N.eq_dec a b) as [->|Hne]; [lia|].
    assert (a < b) by lia. specialize (Hf a b H). lia.
  - apply N.leb_gt in E. apply N.leb_gt. apply Hf; exact E.
Qed.

Lemma mono_inj f : strictly_monotone f -> forall a b, f a = f b -> a = b.
Proof.
  intros Hf a b E. destruct (N.lt_trichotomy a b) as [H|[H|H]]; [|exact H|].
  - specialize (Hf a b H). lia.
  - specialize (Hf b a H). lia.
Qed.

(* ------------------------------------------------------------------------------------------ *)
(* next_free: the `while nextSlotIndex in slotIds` search                                      *)
(* ------------------------------------------------------------------------------------------ *)
Lemma memN_in x l : memN x l = true <-> In x l.
Proof.
  unfold memN. rewrite existsb_exists. split.
  - intros [y [Hy E]]. apply N.eqb_eq in E. subst; exact Hy.
  - intros H. exists x. split; [exact H | apply N.eqb_refl].
Qed.

Lemma next_free_fuel_found fuel used : forall n,
  (exists k : nat, (k < fuel)%nat /\ memN (n + N.of_nat k) used = false) ->
  memN (next_free_fuel fuel used n) used = false.
Proof.
  induction fuel as [|fuel IH]; intros n [k [Hk Hf]]; [lia|].
  cbn [next_free_fuel]. destruct (memN n used) eqn:E; [|exact E].
  apply IH. destruct k as [|k].
  - cbn in Hf. rewrite N.add_0_r in Hf. congruence.
  - exists k. split; [lia|]. replace (n + 1 + N.of_nat k) with (n + N.of_nat (S k)) by lia. exact Hf.
Qed.

Lemma pigeon used n :
  exists k : nat, (k < S (length used))%nat /\ memN (n + N.of_nat k) used = false.
Proof.
  set (cands := map (fun k => n + N.of_nat k) (seq 0 (S (length used)))).
  destruct (forallb (fun x => memN x used) cands) eqn:E.
  - exfalso. rewrite forallb_forall in E.
    assert (Hincl : incl cands used) by (intros x Hx; apply memN_in, E, Hx).
    assert (Hnd : NoDup cands).
    { unfold cands. apply FinFun.Injective_map_NoDup; [|apply seq_NoDup]. intros a b Hab. lia. }
    pose proof (NoDup_incl_length Hnd Hincl) as Hl. unfold cands in Hl. rewrite map_length, seq_length in Hl. lia.
  - assert (Hex : existsb (fun x => negb (memN x used)) cands = true).
    { clear -E. induction cands as [|c t IH]; cbn in *; [discriminate|].
      destruct (memN c used); cbn in *; [apply IH; exact E | reflexivity]. }
    apply existsb_exists in Hex as [x [Hx Hn]]. unfold cands in Hx. apply in_map_iff in Hx as [k [<- Hk]].
    apply in_seq in Hk. exists k. split; [lia|]. destruct (memN (n + N.of_nat k) used); [discriminate | reflexivity].
Qed.

Lemma next_free_spec used n : memN (next_free used n) used = false.
Proof. unfold next_free. apply next_free_fuel_found, pigeon. Qed.

Lemma next_free_fixed used n : memN n used = false -> next_free used n = n.
Proof. intros H. unfold next_free. cbn [next_free_fuel]. rewrite H. reflexivity. Qed.

Lemma next_free_idem used n : next_free used (next_free used n) = next_free used n.
Proof. apply next_free_fixed, next_free_spec. Qed.

(* ------------------------------------------------------------------------------------------ *)
(* the numbering loop                                                                          *)
(* ------------------------------------------------------------------------------------------ *)
Lemma assign_loop_absorb L used n : assign_loop L (next_free used n) used = assign_loop L n used.
Proof. destruct L as [|o L']; cbn [assign_loop]; [reflexivity|]. rewrite next_free_idem. reflexivity. Qed.

Lemma assign_loop_fst L : forall n used o k, In (o, k) (assign_loop L n used) -> In o L.
Proof.
  induction L as [|x L' IH]; intros n used o k H; cbn [assign_loop] in H; [destruct H|].
  destruct (so_res x); destruct H as [E|H]; try (inversion E; subst; left; reflexivity); right; eapply IH; exact H.
Qed.

Definition p_res (p : slotobj * N) : bool := so_res (fst p).
Definition p_auto (p : slotobj * N) : bool := so_auto (fst p).

Lemma assign_loop_res L : forall n used,
  filter p_res (assign_loop L n used) = map (fun o => (o, so_id o)) (filter so_res L).
Proof.
  induction L as [|x L' IH]; intros n used; cbn [assign_loop filter map]; [reflexivity|].
  destruct (so_res x) eqn:E; cbn [filter]; unfold p_res at 1; cbn [fst]; rewrite E.
  - cbn [map]. f_equal. apply IH.
  - apply IH.
Qed.

Lemma assign_loop_auto L : forall n used,
  filter p_auto (assign_loop L n used) = assign_loop (filter so_auto L) n used.
Proof.
  induction L as [|x L' IH]; intros n used; cbn [assign_loop filter]; [reflexivity|].
  unfold so_auto at 1. destruct (so_res x) eqn:E; cbn [negb filter]; unfold p_auto at 1, so_auto at 1; cbn [fst]; rewrite E; cbn [negb].
  - rewrite IH. apply assign_loop_absorb.
  - cbn [assign_loop]. rewrite E. f_equal. apply IH.
Qed.

Lemma rename_slot_res f o : so_res (rename_slot f o) = so_res o.
Proof. unfold rename_slot. destruct (so_res o) eqn:E; [exact E | reflexivity]. Qed.

Lemma rename_slot_oid f o : so_oid (rename_slot f o) = so_oid o.
Proof. unfold rename_slot. destruct (so_res o); reflexivity. Qed.

Lemma rename_slot_reserved f o : so_res o = true -> rename_slot f o = o.
Proof. intros H. unfold rename_slot. rewrite H. reflexivity. Qed.

Lemma rename_slot_id_res f o : so_res o = true -> so_id (rename_slot f o) = so_id o.
Proof. intros H. rewrite rename_slot_reserved by exact H. reflexivity. Qed.

Definition rn_pair (f : N -> N) (p : slotobj * N) : slotobj * N := (rename_slot f (fst p), snd p).

Lemma assign_loop_rename f L : forall n used,
  assign_loop (map (rename_slot f) L) n used = map (rn_pair f) (assign_loop L n used).
Proof.
  induction L as [|x L' IH]; intros n used; cbn [assign_loop map]; [reflexivity|].
  rewrite rename_slot_res. destruct (so_res x) eqn:E.
  - cbn [map]. unfold rn_pair at 1; cbn [fst snd]. rewrite rename_slot_id_res by exact E. f_equal. apply IH.
  - cbn [map]. unfold rn_pair at 1; cbn [fst snd]. f_equal. apply IH.
Qed.

Lemma filter_map_rename_res f all :
  filter so_res (map (rename_slot f) all) = filter so_res all.
Proof.
  induction all as [|x t IH]; cbn [map filter]; [reflexivity|].
  rewrite rename_slot_res. destruct (so_res x) eqn:E; [|exact IH].
  rewrite rename_slot_reserved by exact E. f_equal. exact IH.
Qed.

Lemma filter_map_rename_auto f all :
  filter so_auto (map (rename_slot f) all) = map (rename_slot f) (filter so_auto all).
Proof.
  induction all as [|x t IH]; cbn [map filter]; [reflexivity|].
  assert (E : so_auto (rename_slot f x) = so_auto x) by (unfold so_auto; rewrite rename_slot_res; reflexivity).
  rewrite E. destruct (so_auto x); cbn [map]; [f_equal|]; exact IH.
Qed.

Lemma rename_slot_inj_auto f o1 o2 :
  strictly_monotone f -> rename_slot f o1 = rename_slot f o2 -> o1 = o2.
Proof.
  intros Hf H.
  assert (Hr : so_res o1 = so_res o2) by (rewrite <- (rename_slot_res f o1), <- (rename_slot_res f o2), H; reflexivity).
  unfold rename_slot in H. rewrite <- Hr in H. destruct (so_res o1) eqn:E; [exact H|].
  destruct o1 as [a1 i1 r1], o2 as [a2 i2 r2]. cbn in *. subst r1 r2. inversion H; subst.
  f_equal. apply (mono_inj f Hf); assumption.
Qed.

(* sorting the automatic objects by renamed id = renaming the sorted automatic objects *)
Lemma sort_auto_rename f M :
  strictly_monotone f -> (forall o, In o M -> so_res o = false) ->
  sort_by so_id (map (rename_slot f) M) = map (rename_slot f) (sort_by so_id M).
Proof.
  intros Hf Hauto. apply sort_by_map. intros x y Hx Hy.
  unfold rename_slot. rewrite (Hauto x Hx), (Hauto y Hy). cbn [so_id]. apply mono_leb; exact Hf.
Qed.

Lemma in_split_filter (m : list (slotobj * N)) p :
  In p m <-> In p (filter p_res m) \/ In p (filter p_auto m).
Proof.
  rewrite !filter_In. unfold p_res, p_auto, so_auto. destruct (so_res (fst p)); cbn; intuition discriminate.
Qed.

Theorem assign_rename_invariant_proof (f : N -> N) (all : list slotobj) :
  strictly_monotone f ->
  same_failure (assign_slots (map (rename_slot f) all)) (assign_slots all) /\
  (forall o k, assigned (assign_slots all) o k <->
               assigned (assign_slots (map (rename_slot f) all)) (rename_slot f o) k) /\
  (forall o' k, assigned (assign_slots (map (rename_slot f) all)) o' k -> exists o, In o all /\ o' = rename_slot f o).
Proof.
  intros Hf. unfold assign_slots. rewrite filter_map_rename_res, map_length.
  destruct (first_dup (map so_id (filter so_res all)) []) as [d|]; [cbn; tauto|].
  destruct (Nat.ltb MAX_SLOTS (length all)); [cbn; tauto|].
  set (used := map so_id (filter so_res all)).
  set (m := assign_loop (sort_by so_id all) 0 used).
  set (m' := assign_loop (sort_by so_id (map (rename_slot f) all)) 0 used).
  (* reserved part: unchanged *)
  assert (Hres : filter p_res m' = filter p_res m).
  { unfold m, m'. rewrite !assign_loop_res, !sort_by_filter, filter_map_rename_res. reflexivity. }
  (* automatic part: renamed pointwise *)
  assert (Hauto : filter p_auto m' = map (rn_pair f) (filter p_auto m)).
  { unfold m, m'. rewrite !assign_loop_auto, !sort_by_filter, filter_map_rename_auto.
    rewrite sort_auto_rename; [apply assign_loop_rename | exact Hf |].
    intros o Ho. apply filter_In in Ho as [_ Ho]. unfold so_auto in Ho. destruct (so_res o); [discriminate | reflexivity]. }
  cbn [same_failure assigned]. split; [exact I|]. split.
  - intros o k. rewrite (in_split_filter m), (in_split_filter m'), Hres, Hauto. split.
    + intros [H|H].
      * left. assert (E : so_res o = true) by (apply filter_In in H as [_ H]; exact H).
        rewrite rename_slot_reserved by exact E. exact H.
      * right. apply in_map_iff. exists (o, k). split; [reflexivity | exact H].
    + intros [H|H].
      * left. assert (E : so_res o = true).
        { apply filter_In in H as [_ H]. unfold p_res in H; cbn [fst] in H. rewrite rename_slot_res in H. exact H. }
        rewrite rename_slot_reserved in H by exact E. exact H.
      * right. apply in_map_iff in H as [[o0 k0] [E H]]. unfold rn_pair in E; cbn [fst snd] in E.
        inversion E as [[E1 E2]]. subst k0. apply (rename_slot_inj_auto f _ _ Hf) in E1. subst o0. exact H.
  - intros o' k H. apply assign_loop_fst in H. apply sort_by_in in H. apply in_map_iff in H as [o [E Ho]].
    exists o. split; [exact Ho | symmetry; exact E].
Qed.

(* the iteration order of the set does not matter when automatic ids are pairwise distinct and no
   automatic id equals a reserved one *)
Lemma sorted_perm_eq {A} (key : A -> N) (l1 l2 : list A) :
  StronglySorted (key_le key) l1 -> StronglySorted (key_le key) l2 ->
  Permutation l1 l2 -> NoDup (map key l1) -> l1 = l2.
Proof.
  revert l2. induction l1 as [|x t IH]; intros l2 Hs1 Hs2 Hp Hnd.
  - apply Permutation_nil in Hp. subst; reflexivity.
  - destruct l2 as [|y u]; [apply Permutation_sym, Permutation_nil in Hp; discriminate|].
    inversion Hs1 as [|x' t' Hst Hallx]; subst. inversion Hs2 as [|y' u' Hsu Hally]; subst.
    cbn in Hnd. inversion Hnd as [|kx kt Hnotin Hndt]; subst.
    assert (Hxy : x = y).
    { assert (Hx : In x (y :: u)) by (eapply Permutation_in; [exact Hp | left; reflexivity]).
      assert (Hy : In y (x :: t)) by (eapply Permutation_in; [apply Permutation_sym; exact Hp | left; reflexivity]).
      destruct Hx as [->|Hx]; [reflexivity|]. destruct Hy as [->|Hy]; [reflexivity|].
      rewrite Forall_forall in Hallx, Hally. specialize (Hallx y Hy). specialize (Hally x Hx).
      unfold key_le in *. assert (E : key x = key y) by lia.
      exfalso. apply Hnotin. rewrite E. apply in_map; exact Hy. }
    subst y. f_equal. apply IH; try assumption. eapply Permutation_cons_inv; exact Hp.
Qed.

Lemma sort_by_perm {A} (key : A -> N) l : Permutation (sort_by key l) l.
Proof.
  assert (Hi : forall x l0, Permutation (insert_by key x l0) (x :: l0)).
  { intros x l0; induction l0 as [|z t IH]; cbn; [apply Permutation_refl|].
    destruct (key x <=? key z); [apply Permutation_refl|].
    eapply Permutation_trans; [apply perm_skip; exact IH | apply perm_swap]. }
  induction l as [|x t IH]; [apply Permutation_refl|]. rewrite sort_by_cons.
  eapply Permutation_trans; [apply Hi | apply perm_skip; exact IH].
Qed.

Lemma sort_by_perm_eq {A} (key : A -> N) (l1 l2 : list A) :
  Permutation l1 l2 -> NoDup (map key l1) -> sort_by key l1 = sort_by key l2.
Proof.
  intros Hp Hnd. apply (sorted_perm_eq key); try apply sort_by_sorted.
  - eapply Permutation_trans; [apply sort_by_perm|]. eapply Permutation_trans; [exact Hp|]. apply Permutation_sym, sort_by_perm.
  - eapply Permutation_NoDup; [|exact Hnd]. apply Permutation_map, Permutation_sym, sort_by_perm.
Qed.

Theorem assign_perm_invariant_proof (all all' : list slotobj) :
  Permutation all all' -> NoDup (map so_id all) ->
  match assign_slots all, assign_slots all' with
  | AssignOk m, AssignOk m' => m = m'
  | AssignTooMany a, AssignTooMany b => a = b
  | AssignDupReserved _, _ | _, AssignDupReserved _ => False
  | _, _ => False
  end.
Proof.
  intros Hp Hnd. unfold assign_slots.
  assert (Hf : filter so_res all = filter so_res all' \/ True) by (right; exact I). clear Hf.
  (* no duplicate reserved id on either side *)
  assert (Hnodup : forall l seen, NoDup (l ++ seen) -> first_dup l seen = None).
  { induction l as [|x t IH]; intros seen H; cbn; [reflexivity|].
    destruct (memN x seen) eqn:E.
    - apply memN_in in E. cbn in H. inversion H as [|? ? Hn _]; subst. exfalso. apply Hn. apply in_or_app; right; exact E.
    - apply IH. eapply Permutation_NoDup; [apply Permutation_middle | exact H]. }
  assert (Hsub : forall l : list slotobj, NoDup (map so_id l) -> NoDup (map so_id (filter so_res l))).
  { induction l as [|x t IH]; intros H; cbn; [constructor|]. cbn in H. apply NoDup_cons_iff in H as [Hn H].
    destruct (so_res x); [|apply IH; exact H]. cbn. constructor; [|apply IH; exact H].
    intros Hin. apply Hn. apply in_map_iff in Hin as [y [E Hy]]. apply filter_In in Hy as [Hy _]. rewrite <- E. apply in_map; exact Hy. }
  assert (Hnd' : NoDup (map so_id all')) by (eapply Permutation_NoDup; [apply Permutation_map; exact Hp | exact Hnd]).
  rewrite (Hnodup _ []) by (rewrite app_nil_r; apply Hsub; exact Hnd).
  rewrite (Hnodup _ []) by (rewrite app_nil_r; apply Hsub; exact Hnd').
  rewrite <- (Permutation_length Hp).
  destruct (Nat.ltb MAX_SLOTS (length all)); [reflexivity|].
  rewrite <- (sort_by_perm_eq so_id all all' Hp Hnd).
  (* the reserved set is used for membership only *)
  assert (Hmem : forall L used1 used2 n, (forall x, memN x used1 = memN x used2) -> length used1 = length used2 ->
                 assign_loop L n used1 = assign_loop L n used2).
  { assert (Hnf : forall fuel used1 used2 n, (forall x, memN x used1 = memN x used2) -> next_free_fuel fuel used1 n = next_free_fuel fuel used2 n).
    { induction fuel as [|fuel IH]; intros used1 used2 n H; cbn; [reflexivity|]. rewrite (H n). destruct (memN n used2); [apply IH; exact H | reflexivity]. }
    induction L as [|o L' IH]; intros used1 used2 n H Hl; cbn [assign_loop]; [reflexivity|].
    assert (E : next_free used1 n = next_free used2 n) by (unfold next_free; rewrite Hl; apply Hnf; exact H).
    rewrite E. destruct (so_res o); f_equal.
    - apply IH; assumption.
    - apply IH; [|cbn; lia]. intros x. unfold memN; cbn. fold (memN x used1) (memN x used2). rewrite (H x). reflexivity. }
  apply Hmem.
  - intros x. destruct (memN x (map so_id (filter so_res all))) eqn:E1, (memN x (map so_id (filter so_res all'))) eqn:E2; try reflexivity.
    + apply memN_in in E1. assert (H2 : In x (map so_id (filter so_res all'))).
      { eapply Permutation_in; [|exact E1]. apply Permutation_map. clear -Hp. induction Hp; cbn; try (destruct (so_res x)); try (destruct (so_res y)); eauto using Permutation. }
      apply memN_in in H2. congruence.
    + apply memN_in in E2. assert (H1 : In x (map so_id (filter so_res all))).
      { eapply Permutation_in; [|exact E2]. apply Permutation_map, Permutation_sym. clear -Hp. induction Hp; cbn; try (destruct (so_res x)); try (destruct (so_res y)); eauto using Permutation. }
      apply memN_in in H1. congruence.
  - rewrite !map_length. apply Permutation_length. clear -Hp. induction Hp; cbn; try (destruct (so_res x)); try (destruct (so_res y)); cbn; eauto using Permutation.
Qed.

Corollary assign_set_order_irrelevant_proof (all all' : list slotobj) :
  Permutation all all' -> NoDup (map so_id all) ->
  match assign_slots all, assign_slots all' with
  | AssignOk m, AssignOk m' => m = m'
  | AssignTooMany a, AssignTooMany b => a = b
  | _, _ => False
  end.
Proof.
  intros Hp Hn. pose proof (assign_perm_invariant_proof all all' Hp Hn) as H.
  destruct (assign_slots all), (assign_slots all'); exact H.
Qed.

(* ------------------------------------------------------------------------------------------ *)
(* labels and compile order                                                                    *)
(* ------------------------------------------------------------------------------------------ *)
Lemma enumerate_from_map {A B} (g : A -> B) l : forall n,
  enumerate_from n (map g l) = map (fun p => (g (fst p), snd p)) (enumerate_from n l).
Proof. induction l as [|x t IH]; intros n; cbn; [reflexivity|]. f_equal. apply IH. Qed.

Theorem resolve_rename_invariant_proof (f : N -> N) (subs : list subobj) :
  strictly_monotone f ->
  resolve (map (rename_sub f) subs) = map (fun p => (rename_sub f (fst p), snd p)) (resolve subs).
Proof.
  intros Hf. unfold resolve. rewrite (sort_by_map su_id su_id (rename_sub f)).
  - apply enumerate_from_map.
  - intros x y _ _. cbn. apply mono_leb; exact Hf.
Qed.

Lemma corder_rename_proof (f : N -> N) (key : N -> N) (calls : N -> list N) :
  strictly_monotone f ->
  forall fuel cur vis, corder fuel (fun o => f (key o)) calls cur vis = corder fuel key calls cur vis.
Proof.
  intros Hf. induction fuel as [|fuel IH]; intros cur vis; cbn [corder]; [reflexivity|].
  rewrite (sort_by_ext (fun o => f (key o)) key) by (intros x y _ _; apply mono_leb; exact Hf).
  generalize (sort_by key (filter (fun s => negb (memN s (if memN cur vis then vis else vis ++ [cur]))) (dedup (calls cur) []))).
  generalize (if memN cur vis then vis else vis ++ [cur]).
  intros v l. revert v. induction l as [|s t IHl]; intros v; cbn [fold_left]; [reflexivity|].
  rewrite IH. apply IHl.
Qed.
