(* Proofs/CallComposeAcyclic.v — property C02: for a program whose call graph is ACYCLIC (every routine
   calls only routines of smaller rank, for some rank function) the pass [spill] changes nothing: no
   routine is re-entered, so no call is wrapped.  This is the case of [program_linked_correct]. *)
From Coq Require Import List Arith NArith String Bool Lia.
From PV Require Import Base.Bytes AVM.Syntax Src.Expr Comp.Blocks Comp.Lower Comp.Passes Comp.Compile
  Proofs.SlotCompose Proofs.CallComposeSpillPass.
Import ListNotations.
Local Open Scope list_scope.

Definition acyclic (rank : N -> nat) (frs : list flat_routine) : Prop :=
  forall fr r, In fr frs -> fr_sub fr = Some r ->
    forall c, In c (flat_map comp_subs (fr_ops fr)) -> (rank c < rank (r_id r))%nat.

Section Acyclic.
  Variable rank : N -> nat.
  Variable gr : list (N * list N).
  Hypothesis Hgr : forall a l, In (a, l) gr -> forall y, In y l -> (rank y < rank a)%nat.

  Definition succ_of (c : N) : list N :=
    match find (fun x => N.eqb (fst x) c) gr with Some (_, l) => l | None => [] end.

  Lemma succ_rank c y : In y (succ_of c) -> (rank y < rank c)%nat.
  Proof.
    unfold succ_of. destruct (find (fun x => N.eqb (fst x) c) gr) as [[a l]|] eqn:F; [|intros []].
    apply find_some in F. destruct F as [Hin E]. cbn [fst] in E. apply N.eqb_eq in E. subst a.
    exact (Hgr c l Hin y).
  Qed.

  (* a search that starts below the target never finds it *)
  Lemma graph_search_below target : forall fuel stack visited,
    (forall x, In x stack -> (rank x < rank target)%nat) ->
    graph_search fuel gr stack visited target = false.
  Proof.
    induction fuel as [|f IH]; intros stack visited Hs; [reflexivity|]. cbn [graph_search].
    destruct (rev stack) as [|cur rest_rev] eqn:E; [reflexivity|].
    assert (Hcur : In cur stack) by (apply in_rev; rewrite E; left; reflexivity).
    assert (Hrest : forall x, In x (rev rest_rev) -> In x stack).
    { intros x Hx. apply in_rev. rewrite E. right. apply in_rev. exact Hx. }
    destruct (mem_N cur visited).
    - apply IH. intros x Hx. apply Hs. exact (Hrest x Hx).
    - destruct (N.eqb_spec cur target) as [->|Ne]; [specialize (Hs target Hcur); lia|].
      apply IH. intros x Hx. apply in_app_or in Hx. destruct Hx as [Hx|Hx]; [apply Hs; exact (Hrest x Hx)|].
      fold (succ_of cur) in Hx. pose proof (succ_rank cur x Hx). specialize (Hs cur Hcur). lia.
  Qed.
End Acyclic.

Lemma sp_graph_rank rank frs : acyclic rank frs ->
  forall a l, In (a, l) (sp_graph frs) -> forall y, In y l -> (rank y < rank a)%nat.
Proof.
  intros Ha a l Hin y Hy. unfold sp_graph in Hin. apply in_flat_map in Hin. destruct Hin as (fr & Hfr & Hin).
  destruct (fr_sub fr) as [r|] eqn:Es; [|destruct Hin]. destruct Hin as [E|[]]. injection E as <- <-.
  apply (proj1 (in_sort_dedup' _ _)) in Hy. exact (Ha fr r Hfr Es y Hy).
Qed.

Lemma sp_reentry_acyclic rank frs : acyclic rank frs -> forall s, sp_reentry frs s = [].
Proof.
  intros Ha s. unfold sp_reentry. cbv zeta.
  destruct (find (fun x => N.eqb (fst x) s) (sp_graph frs)) as [[a callees]|] eqn:F; [|reflexivity].
  pose proof (sp_graph_rank rank frs Ha) as Hgr.
  apply find_some in F. destruct F as [Hin E]. cbn [fst] in E. apply N.eqb_eq in E. subst a.
  assert (G : forall l, (forall c, In c l -> In c callees) ->
            filter (fun c => graph_search (S (List.length (sp_graph frs)) * S (List.length (sp_graph frs)) + S (List.length (sp_graph frs)))
                                          (sp_graph frs)
                                          (match find (fun x => N.eqb (fst x) c) (sp_graph frs) with Some (_, l0) => l0 | None => [] end)
                                          [] s) l = []).
  { induction l as [|c t IH]; intros Hl; [reflexivity|]. cbn [filter].
    rewrite (graph_search_below rank (sp_graph frs) Hgr s).
    - apply IH. intros c' Hc'. apply Hl. right. exact Hc'.
    - intros x Hx. fold (succ_of (sp_graph frs) c) in Hx.
      pose proof (succ_rank rank (sp_graph frs) Hgr c x Hx).
      pose proof (Hgr s callees Hin c (Hl c (or_introl eq_refl))). lia. }
  exact (G callees (fun _ H => H)).
Qed.

Theorem spill_acyclic_identity rank version p frs locals frs2 :
  acyclic rank frs -> spill version p frs locals = COk frs2 -> frs2 = frs.
Proof.
  intros Ha H. rewrite (spill_inv version p frs locals frs2 H).
  transitivity (map (fun fr : flat_routine => fr) frs); [|apply map_id].
  apply map_ext. intros fr. unfold sp_fr.
  destruct (fr_sub fr) as [r|]; [|reflexivity]. unfold sp_active. rewrite (sp_reentry_acyclic rank frs Ha). reflexivity.
Qed.
