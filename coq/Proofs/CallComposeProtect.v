(* Proofs/CallComposeProtect.v — property C02, recursion: WHAT a call wrapped by the spill pass does.
   [wrap] (Proofs/CallComposeSpill.v) answers a wrapped call with the outcome of its spill segment.
   Here that outcome is characterised with the frame theorem of Proofs/SpillProof.v
   ([before_ok], [after_ok], i.e. the two halves of C02_spill_frame_same_type), transported from the
   stack/scratch semantics Comp/SpillSem.v to the semantics with oracles:

   [wrapped_call_protects]: if the callee, called with [args] in state [st], returns [results] and state
   [st'] whatever lies below its arguments (it is a function of its arguments and the state), then the
   wrapped call on stack [rev args ++ S] returns [rev results ++ S] — the operands of the caller are
   untouched — in a state that has the CALLER's local slots as they were before the call ([st]), every
   other scratch slot and every other state component as the callee left them ([st']). *)
From Coq Require Import String.
From Coq Require Import List Arith NArith Bool Lia.
From PV Require Import Base.Bytes AVM.Syntax AVM.Ops AVM.Machine Src.Expr
  Comp.Blocks Comp.Lower Comp.Passes Comp.Compile Comp.SpillSem
  Proofs.SpillProof Proofs.CallPartial
  CallX.Denote CallX.GraphSem CallX.LinearSem
  Proofs.CallComposeLink Proofs.CallComposeSpill Proofs.CallComposeSpillPass.
Import ListNotations.
Local Open Scope list_scope.

(* every component of the state except the scratch space *)
Definition same_rest (a b : mstate) : Prop :=
  s_global a = s_global b /\ s_local a = s_local b /\ s_boxes a = s_boxes b /\
  s_itxn a = s_itxn b /\ s_last_itxn a = s_last_itxn b /\ s_trace a = s_trace b.

Lemma same_rest_refl a : same_rest a a.
Proof. repeat split. Qed.
Lemma same_rest_trans a b c : same_rest a b -> same_rest b c -> same_rest a c.
Proof. intros (A1 & A2 & A3 & A4 & A5 & A6) (B1 & B2 & B3 & B4 & B5 & B6). repeat split; congruence. Qed.
Lemma same_rest_set st i v : same_rest st (set_scratch st i v).
Proof. repeat split. Qed.

(* the opcodes of the spill code *)
Definition spill_opc (o : opc) : bool :=
  match o with O_load | O_store | O_cover | O_uncover | O_dig | O_swap | O_pop => true | _ => false end.

Definition spill_comp (c : comp) : Prop :=
  exists o ns, c = COp (mkI o (map AInt ns)) /\ spill_opc o = true.

Definition is_store_comp (c : comp) : bool := match c with COp i => is_store (i_op i) | _ => false end.

Lemma imms_args ns : imms_to_args (map IInt ns) = map AInt ns.
Proof. induction ns as [|n t IH]; [reflexivity|]. cbn [map imms_to_args]. rewrite IH. reflexivity. Qed.

Lemma args_imms env o ns : args_to_imms env o (map AInt ns) = Some (map IInt ns).
Proof. induction ns as [|n t IH]; [reflexivity|]. cbn [map args_to_imms arg_to_imm]. rewrite IH. reflexivity. Qed.

Lemma slot_access_ints o ns : slot_access o (map AInt ns) = None.
Proof. destruct ns as [|n [|n2 t]]; reflexivity. Qed.

Lemma call_target_ints o ns : call_target o (map AInt ns) = None.
Proof. unfold call_target. destruct o; try reflexivity. destruct ns as [|n [|n2 t]]; reflexivity. Qed.

Section Free.
  Variable env : denv.
  Variable callee : callee_t.
  Variable na : nat.

  (* one instruction of the spill code: the same step in both semantics *)
  Lemma spill_op_step o ns stk stX m stk1 m1 : spill_opc o = true ->
    (forall n, sc_of stX n = m n) ->
    sstep callee na (COp (mkI o (map AInt ns))) stk m = Some (stk1, m1) ->
    exists stX1, do_op env o (map AInt ns) stk stX = DNorm stk1 stX1 /\
                 (forall n, sc_of stX1 n = m1 n) /\ same_rest stX stX1 /\ (is_store o = false -> stX1 = stX).
  Proof.
    intros Ho Hm H. unfold do_op. rewrite call_target_ints, slot_access_ints, args_imms.
    destruct o; try discriminate Ho;
      try (cbn [sstep i_op i_args] in H; unfold exec_op; rewrite imms_args;
           match type of H with context [exec_pure ?oo ?aa ?ss] => destruct (exec_pure oo aa ss) as [s| |] end;
           try discriminate H; injection H as <- <-; exists stX; repeat split; auto; fail).
    - (* load *)
      cbn [sstep i_op i_args] in H. destruct ns as [|n [|? ?]]; try discriminate H. cbn [map] in *.
      change (exec_op (e_ctx env) O_load [IInt n] stk stX)
        with (if (n <? 256)%N then OOk (scratch_get (s_scratch stX) n :: stk) stX else OFail).
      destruct (n <? 256)%N; [|discriminate H]. injection H as <- <-.
      exists stX. split; [rewrite <- Hm; reflexivity|]. split; [exact Hm|]. split; [apply same_rest_refl|reflexivity].
    - (* store *)
      cbn [sstep i_op i_args] in H. destruct ns as [|n [|? ?]]; try discriminate H;
        destruct stk as [|v r]; try discriminate H. cbn [map] in *.
      change (exec_op (e_ctx env) O_store [IInt n] (v :: r) stX)
        with (if (n <? 256)%N then OOk r (set_scratch stX n v) else OFail).
      destruct (n <? 256)%N; [|discriminate H]. injection H as <- <-.
      exists (set_scratch stX n v). split; [reflexivity|]. split.
      + intros k. rewrite sc_of_set. unfold supd. rewrite Hm. reflexivity.
      + split; [apply same_rest_set|discriminate].
  Qed.

  Lemma spill_opc_straight o ns : spill_opc o = true -> straight (COp (mkI o (map AInt ns))) = true.
  Proof. destruct o; try discriminate; reflexivity. Qed.

  (* a call-free stretch of spill code *)
  Lemma spill_code_run seg : Forall spill_comp seg ->
    forall j stk stX m stk' m', (forall n, sc_of stX n = m n) ->
      srun callee na seg stk m = Some (stk', m') ->
      forall C, (forall k x, nth_error seg k = Some x -> nth_error C (j + k) = Some x) ->
      exists stX', lstar env C (LAt j stk stX) (LAt (j + List.length seg) stk' stX') /\
                   (forall n, sc_of stX' n = m' n) /\ same_rest stX stX' /\
                   (existsb is_store_comp seg = false -> stX' = stX).
  Proof.
    induction 1 as [|c t Hc _ IH]; intros j stk stX m stk' m' Hm Hr C HC.
    - cbn [srun] in Hr. injection Hr as <- <-. exists stX. rewrite Nat.add_0_r.
      split; [apply lstar_refl|]. split; [exact Hm|]. split; [apply same_rest_refl|reflexivity].
    - cbn [srun] in Hr. destruct (sstep callee na c stk m) as [[stk1 m1]|] eqn:S1; [|discriminate Hr].
      destruct Hc as (o & ns & -> & Ho).
      destruct (spill_op_step o ns stk stX m stk1 m1 Ho Hm S1) as (stX1 & D & Hm1 & R1 & NS).
      assert (HC' : forall k x, nth_error t k = Some x -> nth_error C (S j + k) = Some x).
      { intros k x Hk. specialize (HC (S k) x Hk). rewrite Nat.add_succ_r in HC. exact HC. }
      destruct (IH (S j) stk1 stX1 m1 stk' m' Hm1 Hr C HC') as (stX' & Run & Hm' & R' & NS').
      exists stX'. split.
      + eapply lstar_step; [|cbn [List.length]; rewrite Nat.add_succ_r; exact Run].
        cbn [lstep]. specialize (HC 0 _ eq_refl). rewrite Nat.add_0_r in HC. rewrite HC. f_equal.
        pose proof (spill_opc_straight o ns Ho) as St. cbn [straight i_op] in St.
        apply andb_prop in St. destruct St as [St J]. apply andb_prop in St. destruct St as [Rr Rs].
        apply negb_true_iff in Rr. apply negb_true_iff in Rs.
        unfold lstep_op. cbn [i_op i_args] in *. rewrite Rr, Rs. destruct (jump_of _); [discriminate J|].
        rewrite D. reflexivity.
      + split; [exact Hm'|]. split; [exact (same_rest_trans _ _ _ R1 R')|].
        cbn [existsb is_store_comp i_op]. intros E. apply orb_false_iff in E. destruct E as [E1 E2].
        rewrite (NS' E2). exact (NS E1).
  Qed.
End Free.

(* ---- the spill code consists of such instructions ---- *)
Lemma sc_OpI o n : spill_opc o = true -> spill_comp (OpI o n).
Proof. intros H. exists o, [n]. split; [reflexivity|exact H]. Qed.
Lemma sc_Op0 o : spill_opc o = true -> spill_comp (Op0 o).
Proof. intros H. exists o, []. split; [reflexivity|exact H]. Qed.

Lemma Forall_flat_map' {A B} (P : B -> Prop) (g : A -> list B) l : (forall x, Forall P (g x)) -> Forall P (flat_map g l).
Proof. intros H. induction l as [|x t IH]; [constructor|]. cbn [flat_map]. apply Forall_app. split; [apply H|exact IH]. Qed.
Lemma Forall_map' {A B} (P : B -> Prop) (g : A -> B) l : (forall x, P (g x)) -> Forall P (map g l).
Proof. intros H. induction l as [|x t IH]; constructor; auto. Qed.
Lemma Forall_repeat' {A} (P : A -> Prop) x n : P x -> Forall P (repeat x n).
Proof. intros H. induction n; constructor; auto. Qed.
Lemma Forall_concat_repeat {A} (P : A -> Prop) l n : Forall P l -> Forall P (concat (repeat l n)).
Proof. intros H. induction n as [|n IH]; [constructor|]. cbn [repeat concat]. apply Forall_app. split; assumption. Qed.

Lemma unc_ins_P (P : comp -> Prop) d : P (Op0 O_swap) -> P (OpI O_uncover (N.of_nat d)) -> Forall P (unc_ins d).
Proof. intros H1 H2. unfold unc_ins. destruct (Nat.eqb d 1); constructor; auto. Qed.

Lemma before_code_P (P : comp -> Prop) version slots a :
  (forall s, P (OpI O_load s)) -> (forall n, P (OpI O_cover n)) -> (forall n, P (OpI O_uncover n)) ->
  (forall n, P (OpI O_dig n)) -> P (Op0 O_swap) ->
  Forall P (before_code version slots a).
Proof.
  intros Hl Hc Hu Hd Hs. unfold before_code. destruct (N.leb 5 version); [destruct (Nat.ltb _ a)|].
  - apply Forall_flat_map'. intros s. repeat constructor; auto.
  - apply Forall_app. split; [apply Forall_map'; exact Hl|]. apply Forall_concat_repeat. apply unc_ins_P; auto.
  - apply Forall_app. split; [apply Forall_map'; exact Hl|]. apply Forall_repeat'. apply Hd.
Qed.

Lemma before_code_spill version slots a : Forall spill_comp (before_code version slots a).
Proof. apply before_code_P; intros; (apply sc_OpI || apply sc_Op0); reflexivity. Qed.

Lemma before_code_no_store version slots a : existsb is_store_comp (before_code version slots a) = false.
Proof.
  pose proof (before_code_P (fun c => is_store_comp c = false) version slots a
                (fun _ => eq_refl) (fun _ => eq_refl) (fun _ => eq_refl) (fun _ => eq_refl) eq_refl) as F.
  induction F as [|c t Hc _ IH]; [reflexivity|]. cbn [existsb]. rewrite Hc, IH. reflexivity.
Qed.

Lemma after_code_spill version r slots a : Forall spill_comp (after_code version r slots a).
Proof.
  unfold after_code. repeat (apply Forall_app; split).
  - destruct r; [|constructor]. destruct (Nat.eqb _ 1); [repeat constructor; apply sc_Op0; reflexivity|].
    destruct (N.leb 5 version); repeat constructor; apply sc_OpI; reflexivity.
  - destruct (_ && _).
    + destruct slots as [|s1 t]; [constructor|]. apply Forall_app. split.
      * apply Forall_map'. intros x. apply sc_OpI. reflexivity.
      * repeat constructor; (apply sc_OpI || apply sc_Op0); reflexivity.
    + apply Forall_map'. intros x. apply sc_OpI. reflexivity.
  - destruct (N.leb 5 version); [constructor|]. apply Forall_concat_repeat. apply Forall_app. split.
    + destruct r; repeat constructor. apply sc_Op0. reflexivity.
    + repeat constructor. apply sc_Op0. reflexivity.
Qed.

(* ---- the wrapped call ---- *)
Theorem wrapped_call_protects (version : N) (ret : bool) (slots : list N) (na : nat)
        (wr : N -> option (list comp * list comp)) (env0 : denv) (orc : N -> list value -> mstate -> callres)
        (f : N) (args X0 results : list value) (st st' : mstate) :
  wr f = Some (sp_pre version slots na, sp_post version ret slots na) ->
  slots <> [] -> NoDup slots -> Forall slot_ok slots ->
  List.length args = na ->
  (List.length slots + na - 1 <= 255)%nat -> (List.length slots <= 255)%nat ->
  List.length results = (if ret then 1 else 0)%nat ->
  (* the callee is a function of its arguments and the state: the stack below them is handed back as it is *)
  (forall Y, orc f (rev args ++ Y) st = CRet (rev results ++ Y) st') ->
  exists st'',
    wrap wr env0 orc f (rev args ++ X0) st = CRet (rev results ++ X0) st'' /\
    (forall n, scratch_get (s_scratch st'') n =
               if mem_N n slots then scratch_get (s_scratch st) n else scratch_get (s_scratch st') n) /\
    same_rest st' st''.
Proof.
  intros Hwr Hne Hnd Hs Hl Hd Hk Hres Horc. subst na.
  set (c := call_stmt_of f).
  set (bc := before_code version slots (List.length args)).
  set (ac := after_code version ret slots (List.length args)).
  set (C := bc ++ c :: ac).
  assert (EC : expand wr c = C).
  { unfold c, call_stmt_of. cbn [expand i_op i_args call_target]. rewrite Hwr.
    rewrite <- spill_one_split. apply spill_one_shape. exact Hnd. }
  assert (HSt : forallb straight C = true).
  { rewrite <- EC. unfold c, call_stmt_of. cbn [expand i_op i_args call_target]. rewrite Hwr.
    rewrite !forallb_app, sp_pre_straight, sp_post_straight. reflexivity. }
  set (env := envR env0 orc).
  set (m := sc_of st). set (m1 := sc_of st').
  set (Y := rev (map m slots) ++ (if N.leb 5 version then X0 else rev args ++ X0)).
  set (dummy := (fun (_ : list value) (mm : scratch) => (@nil value, mm)) : callee_t).
  (* before *)
  pose proof (before_ok dummy (List.length args) version slots args X0 m Hs Hd) as Rb. fold bc Y in Rb.
  destruct (spill_code_run env dummy (List.length args) bc (before_code_spill _ _ _) 0 (rev args ++ X0) st m _ _
              (fun n => eq_refl) Rb C) as (st1 & Run1 & _ & _ & NS1).
  { intros k x Hx. unfold C. cbn [Nat.add]. rewrite nth_error_app1; [exact Hx|]. apply nth_error_Some. rewrite Hx. discriminate. }
  rewrite (NS1 (before_code_no_store _ _ _)) in Run1. clear NS1 st1. cbn [Nat.add] in Run1.
  (* the call *)
  assert (Ec : nth_error C (List.length bc) = Some c).
  { unfold C. rewrite nth_error_app2 by lia. rewrite Nat.sub_diag. reflexivity. }
  assert (Run2 : lstep env C (LAt (List.length bc) (rev args ++ Y) st) = Some (LAt (S (List.length bc)) (rev results ++ Y) st')).
  { cbn [lstep]. rewrite Ec. unfold c, call_stmt_of, lstep_op. cbn [i_op i_args is_return is_retsub jump_of].
    unfold do_op. cbn [call_target]. unfold env, envR, with_call. cbn [e_call]. rewrite Horc. reflexivity. }
  (* after *)
  destruct (after_ok dummy (List.length args) version ret slots args X0 results m m1 Hne Hnd Hs Hk Hres) as (m2 & Ra & Hm2).
  fold ac Y in Ra.
  destruct (spill_code_run env dummy (List.length args) ac (after_code_spill _ _ _ _) (S (List.length bc)) (rev results ++ Y) st' m1 _ _
              (fun n => eq_refl) Ra C) as (st'' & Run3 & Hm'' & R'' & _).
  { intros k x Hx. unfold C. rewrite nth_error_app2 by lia.
    replace (S (List.length bc) + k - List.length bc) with (S k) by lia. exact Hx. }
  assert (Elen : S (List.length bc) + List.length ac = List.length C).
  { unfold C. rewrite app_length. cbn [List.length]. lia. }
  rewrite Elen in Run3.
  assert (Run : lstar env C (LAt 0 (rev args ++ X0) st) (LEnd (rev results ++ X0) st'')).
  { eapply lstar_trans; [exact Run1|]. eapply lstar_step; [exact Run2|]. eapply lstar_trans; [exact Run3|].
    apply lstar_one. cbn [lstep]. rewrite (proj2 (nth_error_None C (List.length C)) (le_n _)). reflexivity. }
  exists st''. split; [|split; [|exact R'']].
  - unfold wrap, is_wrapped. rewrite Hwr. fold c. rewrite EC. unfold seg_orc. fold env.
    pose proof (lrun_seg_outcome env0 orc C (rev args ++ X0) st HSt) as Out. fold env in Out.
    pose proof (lrun_lstar env C (S (List.length C)) (LAt 0 (rev args ++ X0) st)) as RunL.
    assert (Fin : lfinal (lrun (S (List.length C)) env C (LAt 0 (rev args ++ X0) st)) = true).
    { destruct (lrun _ _ _ _); try reflexivity. destruct Out. }
    rewrite (lstar_final_unique env C _ _ _ RunL Fin Run eq_refl). reflexivity.
  - intros n. change (scratch_get (s_scratch st'') n) with (sc_of st'' n). rewrite Hm'', Hm2. reflexivity.
Qed.
