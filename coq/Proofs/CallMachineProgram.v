(* Proofs/CallMachineProgram.v — property C02: source semantics with calls -> the TEXT compile_model prints ->
   [Machine.run].  Composition of
     Proofs/CallComposeFinal.v        (linked list L computes [denote_k]; acyclic and general call graph),
     Proofs/CallComposeByValueFinal.v ([denote_c] -> linked list, acyclic, by-value parameters),
     Proofs/CallMachineText.v         (list -> text -> assembler -> machine, whole-run bridge with call stack). *)
From Coq Require Import List Arith NArith String Bool Lia.
From PV Require Import Base.Bytes Base.Sexp AVM.Syntax AVM.Machine AVM.Parse Src.Expr Src.Denote Src.DenoteCall
  Comp.Blocks Comp.Lower Comp.Passes Comp.GraphSem Comp.LinearSem Comp.LinkedSem Comp.Compile Comp.Assemble
  Proofs.LowerShape Proofs.NormalizeLowered Proofs.SlotComposeAssign
  Proofs.StageELink Proofs.StageEText Proofs.StageECompose
  Proofs.CallMachineSim Proofs.CallMachineText
  CallX.Denote CallX.EndToEnd
  Proofs.CallComposeLink Proofs.CallComposeMain Proofs.CallComposeLayout
  Proofs.CallComposeSpill Proofs.CallComposeSpillPass Proofs.CallComposeProgram Proofs.CallComposeAcyclic
  Proofs.CallComposeFinal Proofs.CallComposeByValue Proofs.CallComposeByValueFinal.
Import ListNotations.
Local Open Scope list_scope.

(* the two definitions of "the labels of a list" (assembler stage / link stage) agree *)
Lemma labels_of_eq L : Proofs.CallComposeLink.labels_of L = Proofs.StageELink.labels_of L.
Proof.
  unfold Proofs.CallComposeLink.labels_of.
  induction L as [|c t IH]; [reflexivity|].
  destruct c as [i|l cm|v]; cbn [flat_map Proofs.StageELink.labels_of app]; rewrite IH; reflexivity.
Qed.

(* the verdict of the embedded outcome of the main routine (empty call stack):
   [return] ends the program with the value's verdict; [retsub] in main, and every failure, is a failure *)
Lemma emb_verdict h : claimed h -> pverdict_of (emb 0 [] h) = verdict_of h.
Proof. destruct h; cbn; intros C; try reflexivity; destruct C. Qed.

(* the machine at the verdict, in terms of the source outcome: when the program exits, the machine state is the
   state of the outcome and the value is on top of the stack *)
Definition exit_ok (h : lconf) (m : mach) : Prop :=
  match h with
  | LExit v st => m_st m = st /\ hd_error (m_stack m) = Some v
  | _ => True
  end.

Lemma emb_exit_ok h m : pfinal_ok (emb 0 [] h) m -> exit_ok h m.
Proof. destruct h; cbn; intros H; try exact Logic.I; exact H. Qed.

Lemma compile_model_inv o modes p lines :
  compile_model o modes p = COk lines ->
  exists comps, compile_components o modes p = COk comps /\ assemble_all comps = Some lines.
Proof.
  unfold compile_model. destruct (compile_components o modes p) as [comps|e]; [|discriminate].
  destruct (assemble_all comps) as [ls|] eqn:A; [|discriminate]. intros H. injection H as <-.
  exists comps. split; [reflexivity|exact A].
Qed.

(* ---------------------------------------------------------------------------------------------- *)
(* acyclic call graph                                                                               *)
(* ---------------------------------------------------------------------------------------------- *)
Theorem program_text_calls_nonrecursive o modes p lines (rank : N -> nat) msel :
  compile_model o modes p = COk lines -> o_opt_slots o = false ->
  head_loop (root_ast (p_main p)) = false ->
  (forall r, In r (p_subs p) -> r_deferred r = None) ->
  (forall u i, In (u, (i, true)) (p_slots p) -> (i < 256)%N) ->
  exists crs crs' locals asg frs,
    compile_rec (S (List.length (p_subs p))) o p None (p_main p) [] = COk crs /\
    assign_slots p crs = COk (crs', locals, asg) /\
    fold_right flat_step (COk []) crs' = COk frs /\
    (acyclic rank frs ->
     let L := flatten_subroutines frs in
     let comps := CPragma (o_version o) :: L in
     compile_components o modes p = COk comps /\ assemble_all comps = Some lines /\
     (NoDup (labels_of L) ->
      forallb (fun fr => linkable (fr_ops fr)) frs = true ->
      printable msel comps = true -> targets_ok comps = true ->
      exists P,
        parse_program msel (program_text lines) = Some P /\ link msel comps = Some P /\
        (no_pragma L = true -> pr_version P = o_version o) /\
        forall cx n fuel st h v,
          halt_of (denote_k o cx (look_of asg) msel (fs_subs frs) idW n None fuel (root_ast (p_main p)) [] st) = Some h ->
          claimed h -> verdict_of h = Some v ->
          pstack_bounded (lenv cx (look_of asg) msel (fs_subs frs)) L (PAt [] 0 [] st) ->
          exists k0 m', (forall k, k0 <= k -> run k cx P (init_mach st) = (v, m')) /\ exit_ok h m')).
Proof.
  intros H Ho HL HD HT.
  destruct (compile_model_inv o modes p lines H) as (comps0 & HC & HA).
  destruct (call_correct_nonrecursive o modes p comps0 rank HC Ho HL HD HT)
    as (crs & crs' & locals & asg & frs & HR & HAs & HF & T).
  exists crs, crs', locals, asg, frs. split; [exact HR|]. split; [exact HAs|]. split; [exact HF|].
  intros Ha L comps. destruct (T Ha) as [HC0 T2]. fold L in HC0. fold comps in HC0. subst comps0.
  split; [exact HC|]. split; [exact HA|].
  intros ND LK PR TG.
  assert (ND' : NoDup (Proofs.StageELink.labels_of L)) by (rewrite <- labels_of_eq; exact ND).
  destruct (linked_text_runs msel (o_version o) L ND' PR TG) as (lines' & P & A' & PP & PL & PV & Run).
  fold comps in A'. rewrite HA in A'. injection A' as <-.
  exists P. split; [exact PP|]. split; [exact PL|]. split; [exact PV|].
  intros cx n fuel st h v Hh Cl V B.
  destruct (T2 ND LK cx msel) as [_ T3].
  pose proof (T3 n fuel [] st h Hh Cl) as Hstar.
  destruct (Run (lenv cx (look_of asg) msel (fs_subs frs)) eq_refl st (emb 0 [] h) v Hstar
              (eq_trans (emb_verdict h Cl) V) B) as (k0 & m' & Hrun & Hfin).
  exists k0, m'. split; [exact Hrun|]. exact (emb_exit_ok h m' Hfin).
Qed.

(* ---------------------------------------------------------------------------------------------- *)
(* any call graph (the spill pass included)                                                          *)
(* ---------------------------------------------------------------------------------------------- *)
Theorem program_text_calls_recursive o modes p lines msel :
  compile_model o modes p = COk lines -> o_opt_slots o = false ->
  head_loop (root_ast (p_main p)) = false ->
  (forall r, In r (p_subs p) -> r_deferred r = None) ->
  (forall u i, In (u, (i, true)) (p_slots p) -> (i < 256)%N) ->
  exists crs crs' locals asg frs frs2,
    compile_rec (S (List.length (p_subs p))) o p None (p_main p) [] = COk crs /\
    assign_slots p crs = COk (crs', locals, asg) /\
    fold_right flat_step (COk []) crs' = COk frs /\
    spill (o_version o) p frs locals = COk frs2 /\
    let L := flatten_subroutines frs2 in
    let comps := CPragma (o_version o) :: L in
    compile_components o modes p = COk comps /\ assemble_all comps = Some lines /\
    (NoDup (labels_of L) ->
     forallb (fun fr => linkable (fr_ops fr)) frs2 = true ->
     printable msel comps = true -> targets_ok comps = true ->
     exists P,
       parse_program msel (program_text lines) = Some P /\ link msel comps = Some P /\
       (no_pragma L = true -> pr_version P = o_version o) /\
       forall cx,
         let W := W_spill o cx (look_of asg) msel (fs_subs frs2) (o_version o) p frs locals in
         forall n fuel st h v,
           halt_of (denote_k o cx (look_of asg) msel (fs_subs frs2) W n None fuel (root_ast (p_main p)) [] st) = Some h ->
           claimed h -> verdict_of h = Some v ->
           pstack_bounded (lenv cx (look_of asg) msel (fs_subs frs2)) L (PAt [] 0 [] st) ->
           exists k0 m', (forall k, k0 <= k -> run k cx P (init_mach st) = (v, m')) /\ exit_ok h m').
Proof.
  intros H Ho HL HD HT.
  destruct (compile_model_inv o modes p lines H) as (comps0 & HC & HA).
  destruct (call_correct_recursive o modes p comps0 HC Ho HL HD HT)
    as (crs & crs' & locals & asg & frs & frs2 & HR & HAs & HF & HS & T).
  exists crs, crs', locals, asg, frs, frs2.
  split; [exact HR|]. split; [exact HAs|]. split; [exact HF|]. split; [exact HS|].
  intros L comps. cbv zeta in T. destruct T as [HC0 T2]. fold L in HC0, T2. fold comps in HC0. subst comps0.
  split; [exact HC|]. split; [exact HA|].
  intros ND LK PR TG.
  assert (ND' : NoDup (Proofs.StageELink.labels_of L)) by (rewrite <- labels_of_eq; exact ND).
  destruct (linked_text_runs msel (o_version o) L ND' PR TG) as (lines' & P & A' & PP & PL & PV & Run).
  fold comps in A'. rewrite HA in A'. injection A' as <-.
  exists P. split; [exact PP|]. split; [exact PL|]. split; [exact PV|].
  intros cx W n fuel st h v Hh Cl V B.
  destruct (T2 ND LK cx msel) as [_ T3].
  pose proof (T3 n fuel [] st h Hh Cl) as Hstar.
  destruct (Run (lenv cx (look_of asg) msel (fs_subs frs2)) eq_refl st (emb 0 [] h) v Hstar
              (eq_trans (emb_verdict h Cl) V) B) as (k0 & m' & Hrun & Hfin).
  exists k0, m'. split; [exact Hrun|]. exact (emb_exit_ok h m' Hfin).
Qed.

(* ---------------------------------------------------------------------------------------------- *)
(* against the by-value semantics [denote_c] (acyclic, by-value parameters, non-failing runs)        *)
(* ---------------------------------------------------------------------------------------------- *)
Theorem program_text_calls_by_value o modes p lines (rank : N -> nat) (PL : list N) msel :
  compile_model o modes p = COk lines -> o_opt_slots o = false -> o_use_fp o = false ->
  head_loop (root_ast (p_main p)) = false ->
  (forall r, In r (p_subs p) -> r_deferred r = None) ->
  (forall u i, In (u, (i, true)) (p_slots p) -> (i < 256)%N) ->
  exists crs crs' locals asg frs,
    compile_rec (S (List.length (p_subs p))) o p None (p_main p) [] = COk crs /\
    assign_slots p crs = COk (crs', locals, asg) /\
    fold_right flat_step (COk []) crs' = COk frs /\
    (acyclic rank frs ->
     let L := flatten_subroutines frs in
     let comps := CPragma (o_version o) :: L in
     let subs := fs_subs frs in
     let look := look_of asg in
     compile_components o modes p = COk comps /\ assemble_all comps = Some lines /\
     (NoDup (labels_of L) ->
      forallb (fun fr => linkable (fr_ops fr)) frs = true ->
      printable msel comps = true -> targets_ok comps = true ->
      exists P,
        parse_program msel (program_text lines) = Some P /\ link msel comps = Some P /\
        (no_pragma L = true -> pr_version P = o_version o) /\
        forall cx,
          params_ok look subs rank PL -> bodies_ok look subs rank PL -> disciplined cx look msel subs ->
          forall k, okb look subs rank PL k (root_ast (p_main p)) = true ->
          forall f st v stC,
            denote_c (ceC cx look msel subs) f None [] (root_ast (p_main p)) [] st = DExit v stC ->
            pstack_bounded (lenv cx look msel subs) L (PAt [] 0 [] st) ->
            exists k0 m', (forall k, k0 <= k -> run k cx P (init_mach st) = (exit_verdict v, m')) /\
                          hd_error (m_stack m') = Some v /\ Rel look PL (m_st m') stC)).
Proof.
  intros H Ho Hfp HL HD HT.
  destruct (compile_model_inv o modes p lines H) as (comps0 & HC & HA).
  destruct (call_correct_nonrecursive_by_value o modes p comps0 rank PL HC Ho Hfp HL HD HT)
    as (crs & crs' & locals & asg & frs & HR & HAs & HF & T).
  exists crs, crs', locals, asg, frs. split; [exact HR|]. split; [exact HAs|]. split; [exact HF|].
  intros Ha L comps subs look. destruct (T Ha) as [HC0 T2]. fold L in HC0, T2. fold comps in HC0. subst comps0.
  split; [exact HC|]. split; [exact HA|].
  intros ND LK PR TG.
  assert (ND' : NoDup (Proofs.StageELink.labels_of L)) by (rewrite <- labels_of_eq; exact ND).
  destruct (linked_text_runs msel (o_version o) L ND' PR TG) as (lines' & P & A' & PP & PL' & PV & Run).
  fold comps in A'. rewrite HA in A'. injection A' as <-.
  exists P. split; [exact PP|]. split; [exact PL'|]. split; [exact PV|].
  intros cx HPo HBo HDo k Ok f st v stC HCe B.
  destruct (T2 ND LK cx msel HPo HBo HDo k Ok f st v stC HCe) as (stK & Hstar & HRel).
  destruct (Run (lenv cx look msel subs) eq_refl st (PExit v stK) (exit_verdict v) Hstar eq_refl B)
    as (k0 & m' & Hrun & Hst & Htop).
  exists k0, m'. split; [exact Hrun|]. split; [exact Htop|]. rewrite Hst. exact HRel.
Qed.
