(* Proofs/TotalityWitness.v — property C20, part 4: the witness families and the concrete tables.

   * [long_prog n] = Seq(Pop(Int 0) x n, Approve()): well-typed, in the straight-line fragment, lowers
     to 2n+3 chained blocks; addIncoming's recursion is 2n+2 deep on it ([walk_depth_long]).  Hence for
     every bound L on the interpreter's recursion depth there is a well-typed straight-line program
     the implementation cannot walk ([walk_depth_unbounded]) although the compile model — which has no
     stack limit — accepts every one of them ([long_programs_accepted]).
   * the former crash witnesses as recipes ([opt_witness]: a loop whose cycle consists of conditional
     blocks only, with a store/load pair in the loop condition; [loop_first_witness]); both defects were
     repaired in /repo, Props/C20.v records that the current model accepts them.
   * PyTeal's own tables (regenerated into Gen/Tables.v on every run) make Pop, Int, Approve available at
     every version 2..10 in both modes ([std_ok], finite check). *)
From Coq Require Import List Arith NArith Ascii String Bool Lia.
From PV Require Import Base.Bytes Base.Sexp AVM.Syntax Src.Expr Src.WellTyped Comp.Blocks Comp.Lower Comp.Passes
  Comp.Compile Gen.Tables Extract.WireExpr
  Proofs.LowerFrame Proofs.TotalityChain Proofs.TotalityWalk Proofs.TotalityAccept.
Import ListNotations.
Local Open Scope string_scope.
Local Open Scope list_scope.

(* ---- the tables of the implementation under test ---- *)
Definition tcode (n : N) : ty :=
  match n with 0%N => TUint | 1%N => TBytes | 2%N => TAny | _ => TNone end.

Definition gen_field_ty (family f : string) : option ty :=
  match find (fun r => String.eqb (fst (fst (fst r))) family && String.eqb (snd (fst (fst r))) f) gen_fields with
  | Some (_, _, _, t) => Some (tcode t)
  | None => None
  end.

Definition wt (e : expr) : bool := well_typed gen_field_ty false e.

(* OptimizeOptions resolved as compileTeal does: scratch_slots / frame_pointers given explicitly *)
Definition std_opts (v : N) (app ss fp : bool) : copts := mkOpts v app ss fp gen_minv gen_field_minv.

Definition versions : list N := [2; 3; 4; 5; 6; 7; 8; 9; 10]%N.

Lemma versions_spec v : (2 <= v)%N -> (v <= 10)%N -> In v versions.
Proof.
  intros A B. unfold versions.
  assert (H : exists k, v = N.of_nat k /\ 2 <= k <= 10) by (exists (N.to_nat v); lia).
  destruct H as (k & -> & K1 & K2).
  do 2 (destruct k as [|k]; [lia|]).
  do 9 (destruct k as [|k]; [cbn; tauto|]). lia.
Qed.

Lemma std_ok_all :
  forallb (fun v => forallb (fun app => forallb (fun ss => forallb (fun fp =>
    okop (std_opts v app ss fp) gen_modes O_pop && okop (std_opts v app ss fp) gen_modes O_int &&
    okop (std_opts v app ss fp) gen_modes O_return_) [true; false]) [true; false]) [true; false]) versions = true.
Proof. vm_compute. reflexivity. Qed.

Lemma std_ok v app ss fp : (2 <= v)%N -> (v <= 10)%N ->
  okop (std_opts v app ss fp) gen_modes O_pop = true /\
  okop (std_opts v app ss fp) gen_modes O_int = true /\
  okop (std_opts v app ss fp) gen_modes O_return_ = true.
Proof.
  intros A B. pose proof std_ok_all as H. rewrite forallb_forall in H.
  specialize (H v (versions_spec v A B)). rewrite forallb_forall in H.
  assert (Bo : forall b : bool, In b [true; false]) by (intros [|]; cbn; tauto).
  specialize (H app (Bo app)). rewrite forallb_forall in H.
  specialize (H ss (Bo ss)). rewrite forallb_forall in H.
  specialize (H fp (Bo fp)).
  apply andb_true_iff in H. destruct H as [H H3]. apply andb_true_iff in H. destruct H as [H1 H2]. auto.
Qed.

(* ---- the long straight-line family ---- *)
Definition int_ (n : N) : expr := EOp O_int [AInt n] TUint [].
Definition pop_int (n : N) : expr := EOp O_pop [] TNone [int_ n].
Definition approve : expr := EExit (int_ 1).
Definition long_prog (n : nat) : expr := ESeq (repeat (pop_int 0) n ++ [approve]).

Lemma sum_long n : list_sum (map blocks (repeat (pop_int 0) n ++ [approve])) = 2 * n + 2.
Proof.
  induction n as [|n IH]; [reflexivity|].
  cbn [repeat app map]. unfold list_sum in *. cbn [fold_right]. rewrite IH.
  change (blocks (pop_int 0)) with 2. lia.
Qed.

Lemma blocks_long n : blocks (long_prog n) = 2 * n + 3.
Proof. unfold long_prog. cbn [blocks]. rewrite sum_long. lia. Qed.

Lemma has_return_long n : has_return (long_prog n) = true.
Proof.
  unfold long_prog. cbn [has_return]. induction n as [|n IH]; [reflexivity|].
  cbn [repeat app]. destruct (repeat (pop_int 0) n ++ [approve]) eqn:E.
  - destruct n; discriminate.
  - exact IH.
Qed.

Section Long.
  Variable o : copts.
  Variable modes : opc -> bool * bool.
  Hypothesis ok_pop : okop o modes O_pop = true.
  Hypothesis ok_int : okop o modes O_int = true.
  Hypothesis ok_ret : okop o modes O_return_ = true.

  Lemma okop_version op : okop o modes op = true -> N.leb (o_minv o op) (o_version o) = true.
  Proof. unfold okop. intros H. repeat (apply andb_true_iff in H; destruct H as [H ?]). exact H. Qed.

  Lemma straight_int n : straight o (okop o modes) (int_ n) = true.
  Proof.
    unfold int_. cbn [straight forallb]. rewrite ok_int. unfold op_version_ok. cbn [field_arg].
    rewrite (okop_version O_int ok_int). reflexivity.
  Qed.

  Lemma straight_pop n : straight o (okop o modes) (pop_int n) = true.
  Proof.
    unfold pop_int. cbn [straight forallb]. fold (int_ n). rewrite straight_int, ok_pop.
    unfold op_version_ok. cbn [field_arg]. rewrite (okop_version O_pop ok_pop). reflexivity.
  Qed.

  Lemma straight_long n : straight o (okop o modes) (long_prog n) = true.
  Proof.
    unfold long_prog. cbn [straight]. induction n as [|n IH].
    - cbn [repeat app forallb]. unfold approve. cbn [straight]. rewrite ok_ret, straight_int. reflexivity.
    - cbn [repeat app forallb]. rewrite straight_pop. exact IH.
  Qed.

  (* addIncoming's recursion depth on long_prog n *)
  Theorem walk_depth_long n :
    let r := lower o (mkL None None None main_param) (long_prog n) None empty_graph in
    snd (add_incoming (snd r) (fst (fst r))) = 2 * n + 2.
  Proof.
    destruct (compile_one_straight o modes (long_prog n) (straight_long n) (has_return_long n))
      as (g & ops & _ & _ & _ & D).
    cbv zeta. rewrite D, blocks_long. lia.
  Qed.
End Long.

Lemma wt_long n : wt (long_prog n) = true.
Proof.
  unfold wt, long_prog. cbn [well_typed]. apply andb_true_iff. split.
  - induction n as [|n IH]; [vm_compute; reflexivity|]. cbn [repeat app forallb]. rewrite IH.
    rewrite andb_true_r. vm_compute. reflexivity.
  - induction n as [|n IH]; [reflexivity|]. cbn [repeat app map].
    destruct (map type_of (repeat (pop_int 0) n ++ [approve])) eqn:E.
    + destruct n; discriminate.
    + cbn [all_none_but_last type_of pop_int]. exact IH.
Qed.

(* ---- the optimiser witness (finding: structural block comparison does not terminate) ----
   i.store(Int(0)); While(Seq(x.store(i.load()+Int(1)), x.load()) < Int(5)).Do(
       If(Txn.fee() > Int(5)).Then(i.store(i.load()+Int(1)))); Approve()                       *)
Definition ld (s : N) : expr := EOp O_load [ASlot s] TUint [].
Definition st (s : N) (e : expr) : expr := EOp O_store [ASlot s] TNone [e].
Definition inc (s : N) : expr := ENary O_add TUint [ld s; int_ 1].

Definition opt_witness : prog :=
  mkProgram
    (ESeq [st 256 (int_ 0);
           EWhile (EOp O_lt [] TUint [ESeq [st 257 (inc 256); ld 257]; int_ 5])
                  (EIf (EOp O_gt [] TUint [EOp O_txn [AStr "Fee"] TUint []; int_ 5]) (st 256 (inc 256)) None);
           approve])
    []
    [(256, (256, false)); (257, (257, false))]%N.

(* a loop as the first statement of the routine: crashed in NormalizeBlocks before the repair of the
   start-block handling in /repo; accepted since *)
Definition loop_first_witness : prog :=
  mkProgram
    (ESeq [EWhile (EOp O_lt [] TUint [EOp O_txn [AStr "Fee"] TUint []; int_ 3]) (pop_int 1); approve])
    [] [].

Definition is_ok {A} (r : cres A) : bool := match r with COk _ => true | CErr _ => false end.
Definition is_err {A} (r : cres A) (e : cerr) : bool :=
  match r, e with
  | CErr CrashRecursion, CrashRecursion => true
  | CErr CrashAssertion, CrashAssertion => true
  | _, _ => false
  end.
