From Coq Require Import List.
From PV Require Import Comp.Constants.
Lemma placeholder_ConstantsSim : True. Proof. exact I. Qed.
