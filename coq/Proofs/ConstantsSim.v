(* Proofs/ConstantsSim.v — C12: (1) the site value of ConstantsSpec.load_value is what the AVM [step]
   pushes (single-step simulation on AVM/Machine.v); (2) the refuted statements: block indices are not
   bounded by 255, an address template changes its literal context; (3) indices are encodable when
   there are at most 256 distinct constants; (4) non-vacuity examples. *)
From Coq Require Import List Arith NArith Ascii String Bool Lia.
From PV Require Import Base.Bytes Base.U64 Base.Sexp AVM.Syntax AVM.Ops AVM.Machine AVM.Parse
  Comp.Assemble Comp.ConstantsLit Comp.Constants Comp.ConstantsSpec Proofs.ConstantsLitProof Proofs.ConstantsProof.
Import ListNotations.
Local Open Scope string_scope.

Lemma nth_N_nth_error {A} (l : list A) (i : N) : nth_N l i = nth_error l (N.to_nat i).
Proof.
  unfold nth_N. destruct (N.ltb_spec i (N.of_nat (List.length l))) as [H|H]; [reflexivity|].
  symmetry. apply nth_error_None. lia.
Qed.

Theorem load_value_step ib bb p v :
  load_value ib bb p = Some v -> imm_fits p ->
  forall cx prog m,
    nth_error (pr_code prog) (m_pc m) = Some p ->
    m_intc m = ib -> m_bytec m = bb -> (height m <= STACK_MAX)%nat ->
    step cx prog m = Running (with_pc_stack m (S (m_pc m)) (sval_value v :: m_stack m)).
Proof.
  intros Hl Hf cx prog m Hn Hi Hb Hh.
  unfold step. rewrite Hn.
  destruct (Nat.ltb_spec STACK_MAX (height m)) as [Hgt|_]; [lia|].
  destruct p as [o imms]. unfold load_value in Hl. cbn [p_op p_imms] in *.
  destruct o; try discriminate Hl; unfold push_value in Hl; cbn [p_op p_imms] in Hl.
  all: try (destruct imms as [|[n|b|s] [|? ?]]; try discriminate Hl).
  all: try (injection Hl as <-).
  all: unfold exec_op; cbn [exec_pure imms_to_args].
  all: subst ib bb.
  all: try rewrite nth_N_nth_error.
  all: try (destruct (nth_error _ _) as [x|] eqn:Hx; [|discriminate Hl]; cbn in Hl; injection Hl as <-).
  all: try reflexivity.
  all: try (unfold imm_fits in Hf; cbn [p_op p_imms] in Hf; unfold oki, fits64;
            destruct (N.ltb_spec n U64) as [_|Hge]; [reflexivity|unfold U64 in Hge; lia]).
Qed.

(* the original pseudo-op, as the assembler reads it, pushes the value it denotes *)
Lemma denote_parsed sigma msel i v :
  is_const_instr i = true -> denote sigma msel i = Some v ->
  exists p0, parsed_of sigma msel i = Some p0 /\ imm_fits p0 /\ forall ib bb, load_value ib bb p0 = Some v.
Proof.
  unfold denote, is_const_instr. intros Hc Hd.
  destruct (parsed_of sigma msel i) as [p0|] eqn:Hp; [|discriminate Hd].
  exists p0. split; [reflexivity|].
  unfold parsed_of in Hp. destruct (arg_tokens sigma (i_args i)) as [ts|]; [|discriminate Hp].
  destruct i as [o args]. cbn [i_op] in *.
  destruct o; try discriminate Hc; cbn -[parse_int_arg parse_bytes_arg decode_base32 parse_string_literal alookup firstn Nat.eqb String.length] in Hp.
  - (* int *)
    destruct ts as [|a [|b r]]; try discriminate Hp.
    destruct (parse_int_arg a) as [n|] eqn:Hn; [|discriminate Hp]. injection Hp as <-.
    cbn in Hd. injection Hd as <-. split; [exact (parse_int_arg_lt _ _ Hn)|reflexivity].
  - (* byte *)
    destruct (parse_bytes_arg ts) as [[b [|x y]]|]; try discriminate Hp. injection Hp as <-.
    cbn in Hd. injection Hd as <-. split; [exact I|reflexivity].
  - (* addr *)
    destruct ts as [|a [|b r]]; try discriminate Hp.
    destruct (String.length a =? 58)%nat; [|discriminate Hp].
    destruct (decode_base32 a) as [d|]; [|discriminate Hp]. injection Hp as <-.
    unfold push_value in Hd. cbn [p_op p_imms] in Hd. injection Hd as <-. split; [exact I|reflexivity].
  - (* method *)
    destruct ts as [|a [|b r]]; try discriminate Hp.
    destruct (parse_string_literal a) as [sg|]; [|discriminate Hp].
    destruct (alookup String.eqb (string_of_bytes sg) msel) as [sel|]; [|discriminate Hp]. injection Hp as <-.
    cbn in Hd. injection Hd as <-. split; [exact I|reflexivity].
Qed.

(* Site-wise single-step simulation: at a constant site, the original instruction (in any program,
   any machine state) and the rewritten instruction (in any program, any state whose constant blocks
   are the ones the emitted block lines establish) both step to "same state, pc+1, value pushed". *)
Definition site_sim (sigma : string -> string) (msel : list (string * bytes))
           (ib : list N) (bb : list bytes) (c c' : comp) : Prop :=
  match c with
  | COp i =>
      if is_const_instr i then
        exists i' p0 p' v, c' = COp i' /\ parsed_of sigma msel i = Some p0 /\ parsed_of sigma msel i' = Some p' /\
          denote sigma msel i = Some v /\
          forall cx prog0 prog1 m0 m1,
            nth_error (pr_code prog0) (m_pc m0) = Some p0 ->
            nth_error (pr_code prog1) (m_pc m1) = Some p' ->
            m_intc m1 = ib -> m_bytec m1 = bb ->
            (height m0 <= STACK_MAX)%nat -> (height m1 <= STACK_MAX)%nat ->
            step cx prog0 m0 = Running (with_pc_stack m0 (S (m_pc m0)) (sval_value v :: m_stack m0)) /\
            step cx prog1 m1 = Running (with_pc_stack m1 (S (m_pc m1)) (sval_value v :: m_stack m1))
      else c' = c
  | _ => c' = c
  end.

Theorem constants_step_simulation addr_hash sig_hash sigma msel ops out :
  msel_consistent sig_hash msel ->
  create_constant_blocks addr_hash sig_hash ops = Some out ->
  input_ok sigma msel ops ->
  exists pro body ib bb,
    out = (pro ++ body)%list /\
    blocks_after sigma msel pro [] [] = Some (ib, bb) /\
    Forall2 (site_sim sigma msel ib bb) ops body.
Proof.
  intros Hm Hc Hok.
  destruct (constants_sites_preserved addr_hash sig_hash sigma msel Hm ops out Hc Hok)
    as (pro & body & ib & bb & -> & _ & Hb & Hf).
  exists pro, body, ib, bb. split; [reflexivity|]. split; [exact Hb|].
  unfold input_ok in Hok. clear Hc Hb.
  induction Hf as [|c c' ops' body' Hs _ IH]; [constructor|].
  inversion Hok as [|? ? (Hw & _ & _) Hok']; subst. constructor; [|exact (IH Hok')].
  destruct c as [i|l cm|pv]; cbn [site_ok site_sim] in *; try exact Hs.
  destruct (is_const_instr i) eqn:Hci; [|exact Hs].
  destruct Hs as (i' & p' & -> & Hp' & Hfit & Hl).
  cbn in Hw. specialize (Hw Hci). destruct (denote sigma msel i) as [v|] eqn:Hd; [|congruence].
  destruct (denote_parsed sigma msel i v Hci Hd) as (p0 & Hp0 & Hfit0 & Hl0).
  exists i', p0, p', v. split; [reflexivity|]. split; [exact Hp0|]. split; [exact Hp'|]. split; [reflexivity|].
  intros cx prog0 prog1 m0 m1 N0 N1 I1 B1 H0 H1. split.
  - exact (load_value_step (m_intc m0) (m_bytec m0) p0 v (Hl0 _ _) Hfit0 cx prog0 m0 N0 eq_refl eq_refl H0).
  - exact (load_value_step ib bb p' v (Hl v eq_refl) Hfit cx prog1 m1 N1 I1 B1 H1).
Qed.

(* ---------------------------------------------------------------- block indices *)
(* positive part: at a well-formed site a long-form index is below the size of the emitted block *)
Theorem constant_index_below_block_size addr_hash sig_hash sigma msel ops out :
  msel_consistent sig_hash msel ->
  create_constant_blocks addr_hash sig_hash ops = Some out ->
  input_ok sigma msel ops ->
  exists pro body ib bb,
    out = (pro ++ body)%list /\ blocks_after sigma msel pro [] [] = Some (ib, bb) /\
    Forall2 (fun c c' =>
      match c with
      | COp i => is_const_instr i = true ->
          forall i' p' k, c' = COp i' -> parsed_of sigma msel i' = Some p' -> p_imms p' = [IInt k] ->
            (p_op p' = O_intc -> (N.to_nat k < List.length ib)%nat) /\
            (p_op p' = O_bytec -> (N.to_nat k < List.length bb)%nat)
      | _ => True
      end) ops body.
Proof.
  intros Hm Hc Hok.
  destruct (constants_sites_preserved addr_hash sig_hash sigma msel Hm ops out Hc Hok)
    as (pro & body & ib & bb & -> & _ & Hb & Hf).
  exists pro, body, ib, bb. split; [reflexivity|]. split; [exact Hb|].
  unfold input_ok in Hok. clear Hc Hb.
  induction Hf as [|c c' ops' body' Hs _ IH]; [constructor|].
  inversion Hok as [|? ? (Hw & _ & _) Hok']; subst. constructor; [|exact (IH Hok')].
  destruct c as [i|l cm|pv]; [|exact I..].
  intros Hci i' p' k -> Hp' Himm. cbn [site_ok] in Hs. rewrite Hci in Hs.
  destruct Hs as (i2 & p2 & E & Hp2 & _ & Hl). injection E as <-. rewrite Hp' in Hp2. injection Hp2 as <-.
  cbn in Hw. specialize (Hw Hci). destruct (denote sigma msel i) as [v|] eqn:Hd; [|congruence].
  specialize (Hl v eq_refl). unfold load_value in Hl. rewrite Himm in Hl.
  split; intros Ho; rewrite Ho in Hl; apply nth_error_Some;
    destruct (nth_error _ (N.to_nat k)); [discriminate|discriminate Hl|discriminate|discriminate Hl].
Qed.

(* negative part: nothing bounds the block size.  Witness family: n distinct integers >= 128, each twice. *)
Definition int_op (n : N) : comp := COp (mkI O_int [AInt n]).
Definition byte_op (n : N) : comp := COp (mkI O_byte [AStr (hex_spelling (be_encode 2 n))]).
Definition witness_ints (n : nat) : list comp :=
  let l := map (fun j => int_op (1000 + N.of_nat j)) (seq 0 n) in (l ++ l)%list.
Definition witness_bytes (n : nat) : list comp :=
  let l := map (fun j => byte_op (N.of_nat j)) (seq 0 n) in (l ++ l)%list.

Definition no_hash : bytes -> bytes := fun _ => [].
Definition no_sig : string -> bytes := fun _ => [].
Definition id_sigma : string -> string := fun s => s.

Definition max_long_index (out : list comp) : N :=
  fold_left (fun acc c => match c with COp i => match long_index i with Some k => N.max acc k | None => acc end | _ => acc end) out 0%N.

Lemma int_op_ok sigma msel n : (n < 18446744073709551616)%N ->
  well_formed_site sigma msel (int_op n) /\ no_addr_template_site (int_op n) /\ plain_method_site (int_op n).
Proof.
  intros Hn. split; [|split; exact I]. intros _.
  unfold denote, parsed_of. cbn -[parse_int_arg N_to_dec]. rewrite parse_int_arg_to_dec by exact Hn. discriminate.
Qed.

Lemma witness_ints_ok sigma msel n : (n <= 5000)%nat -> input_ok sigma msel (witness_ints n).
Proof.
  intros Hn. unfold input_ok, witness_ints. apply Forall_app. split; apply Forall_forall; intros c Hc;
    apply in_map_iff in Hc; destruct Hc as (j & <- & Hj); apply in_seq in Hj; apply int_op_ok; lia.
Qed.

Definition big_index_site (c : comp) : bool :=
  match c with
  | COp i => match i_op i, long_index i with
             | O_intc, Some k => (255 <? k)%N
             | _, _ => false
             end
  | _ => false
  end.

Theorem constant_index_encodable_refuted :
  exists ops out,
    create_constant_blocks no_hash no_sig ops = Some out /\
    input_ok id_sigma [] ops /\
    exists i k, In (COp i) out /\ i_op i = O_intc /\ long_index i = Some k /\ (255 < k)%N.
Proof.
  exists (witness_ints 257).
  destruct (create_constant_blocks no_hash no_sig (witness_ints 257)) as [out|] eqn:E;
    [|vm_compute in E; discriminate E].
  exists out. split; [reflexivity|]. split; [apply witness_ints_ok; lia|].
  assert (Hex : existsb big_index_site out = true).
  { assert (Hc : option_map (existsb big_index_site) (create_constant_blocks no_hash no_sig (witness_ints 257)) = Some true)
      by (vm_compute; reflexivity).
    rewrite E in Hc. now injection Hc. }
  apply existsb_exists in Hex. destruct Hex as (c & Hin & Hc).
  destruct c as [i|l cm|pv]; try discriminate Hc. cbn [big_index_site] in Hc.
  destruct (i_op i) eqn:Ho; try discriminate Hc.
  destruct (long_index i) as [k|] eqn:Hk; [|discriminate Hc].
  exists i, k. repeat split; try assumption. now apply N.ltb_lt.
Qed.

(* the same for larger members of the family and for byte constants (closed computations) *)
Lemma witness_family_indices :
  option_map max_long_index (create_constant_blocks no_hash no_sig (witness_ints 257)) = Some 256%N /\
  option_map max_long_index (create_constant_blocks no_hash no_sig (witness_ints 300)) = Some 299%N /\
  option_map max_long_index (create_constant_blocks no_hash no_sig (witness_bytes 300)) = Some 299%N /\
  option_map max_long_index (create_constant_blocks no_hash no_sig (witness_ints 256)) = Some 255%N.
Proof. repeat split; vm_compute; reflexivity. Qed.

(* ---------------------------------------------------------------- address templates *)
Definition zero_address : string := "AAAAAAAAAAAAAAAAAAAAAAAAAAAAAAAAAAAAAAAAAAAAAAAAAAAAY5HFKQ".
Definition tmpl_addr_ops : list comp := [COp (mkI O_addr [AStr "TMPL_A"])].

(* With the placeholder instantiated by an address (what Tmpl.zero / a user supplies), the pseudo-op
   form denotes the public key, while the rewritten site is not even readable by the assembler. *)
Theorem addr_template_context_refuted :
  exists sigma ops out i i' v,
    create_constant_blocks no_hash no_sig ops = Some out /\
    ops = [COp i] /\ out = [COp i'] /\
    denote sigma [] i = Some v /\
    parsed_of sigma [] i' = None.
Proof.
  exists (fun _ => zero_address), tmpl_addr_ops.
  eexists _, _, _, _. split; [vm_compute; reflexivity|].
  split; [reflexivity|]. split; [reflexivity|]. split; vm_compute; reflexivity.
Qed.

(* ---------------------------------------------------------------- templates and enums *)
Theorem template_spelling_kept s :
  is_tmpl_name s = true ->
  extract_int [AStr s] = Some (KTmpl s) /\ int_key_arg (KTmpl s) = AStr s /\
  extract_bytes [AStr s] = Some (KTmpl s) /\ bytes_key_arg (KTmpl s) = AStr s.
Proof.
  intros H. unfold extract_int, extract_bytes. rewrite H. repeat split.
Qed.

Theorem enum_value_kept name n :
  is_tmpl_name name = false ->
  extract_int [AStr name] = Some (KInt n) ->
  parse_int_arg name = Some n /\ parse_int_arg (N_to_dec n) = Some n.
Proof.
  intros Ht H. unfold extract_int in H. rewrite Ht in H.
  destruct (assoc_str name int_enum_values) as [m|] eqn:E; [|discriminate H]. injection H as <-.
  now apply int_enum_agrees.
Qed.

(* ---------------------------------------------------------------- non-vacuity *)
Definition example_ops : list comp :=
  [COp (mkI O_int [AInt 5]); COp (mkI O_byte [AStr """a\x62"""]); COp (mkI O_int [AStr "pay"]);
   CLabel "l0" None; COp (mkI O_int [AInt 5]); COp (mkI O_byte [AStr "0x6162"]);
   COp (mkI O_byte [AStr "base64(YWI=)"]); COp (mkI O_int [AStr "TMPL_N"]); COp (mkI O_pop []);
   COp (mkI O_byte [AStr "base32(MFRA)"]); COp (mkI O_int [AInt 1])].

Example example_output :
  option_map (fun out => assemble_all out) (create_constant_blocks no_hash no_sig example_ops) =
  Some (Some ["intcblock 5 1"; "bytecblock 0x6162"; "intc_0 // 5"; "bytec_0 // ""a\x62"""; "intc_1 // pay"; "l0:";
              "intc_0 // 5"; "bytec_0 // 0x6162"; "bytec_0 // base64(YWI=)"; "pushint TMPL_N // TMPL_N"; "pop";
              "bytec_0 // base32(MFRA)"; "intc_1 // 1"]).
Proof. vm_compute. reflexivity. Qed.

Example example_input_ok : input_ok (fun _ => "77") [] example_ops.
Proof.
  unfold input_ok, example_ops.
  repeat (constructor; [split; [cbn [well_formed_site]; try exact I; intros Hc; try discriminate Hc; vm_compute; discriminate|split; cbn; auto]|]).
  constructor.
Qed.

Example example_msel_consistent : msel_consistent no_sig [].
Proof. intros sg sel H. discriminate H. Qed.

(* the spelling Bytes(bytes) / Bytes("base16", ..) emits in lowercase — and createConstantBlocks itself
   emits — is read by BOTH constants.py and the assembler, as the same value *)
Theorem hex_spelling_read_by_both b rest :
  extract_bytes [AStr (hex_spelling b)] = Some (KBytes b) /\
  parse_bytes_arg (hex_spelling b :: rest) = Some (b, rest).
Proof.
  split; [|apply parse_bytes_arg_hex_spelling].
  assert (E1 : is_tmpl_name (hex_spelling b) = false) by reflexivity.
  assert (E2 : String.prefix """" (hex_spelling b) = false) by reflexivity.
  assert (E3 : String.prefix "0x" (hex_spelling b) = true) by apply prefix_app.
  unfold extract_bytes. rewrite E1, E2, E3. cbn [andb].
  unfold hex_spelling, bytes_to_hex. cbn [append list_ascii_of_string skipn].
  rewrite list_ascii_of_string_of_list_ascii.
  rewrite (fromhex_agrees _ _ (hex_of_bytes_roundtrip b)). reflexivity.
Qed.
