(* Proofs/RouterArgsProof.v — C09: the binding plan of the router glue, evaluated on a call produced by
   the ARC-4 client, binds every parameter to what the caller passed for it.

   Tuple element access on ARC-4 bytes (needed only for methods with more than 15 non-transaction
   parameters: de-tupling of ApplicationArgs[15]) is property C07's subject; it enters here as the
   Section hypothesis [member_correct] over an abstract [member].  coq/Router/Args.v [member_bytes] is
   the concrete instance the extracted binary uses; harness/c09.py validates it against the reference
   codec on every tupled call. *)
From Coq Require Import List Arith NArith Ascii Bool Lia.
From PV Require Import Base.Bytes Base.Sexp ABI.Types ABI.Spec ABI.Descr Gen.Tables Router.Args
  Proofs.ABISpecProof Proofs.ABIDescrProof Proofs.RouterArgsLists.
Import ListNotations.

(* the constant read from pyteal/config.py on this run is the one the ARC-4 text fixes *)
Lemma cutoff_is_15 : CUTOFF = 15.
Proof. reflexivity. Qed.

(* ------------------------------------------------------------------------------------------ *)
(* foreign arrays                                                                              *)
(* ------------------------------------------------------------------------------------------ *)
Section Pop.
  Context {A : Type} (eqb : A -> A -> bool).
  Hypothesis eqb_eq : forall x y, eqb x y = true -> x = y.

  Lemma index_of_nth : forall x l i, index_of eqb x l = Some i -> nth_error l i = Some x.
  Proof.
    intros x l. induction l as [| y r IH]; intros i H; cbn in H; [discriminate |].
    destruct (eqb x y) eqn:E.
    - inversion H; subst. cbn. f_equal. symmetry. now apply eqb_eq.
    - destruct (index_of eqb x r) as [j |] eqn:Ej; [| discriminate]. inversion H; subst. cbn. now apply IH.
  Qed.

  Lemma populate_spec : forall x arr i arr',
    populate eqb x arr = (i, arr') -> nth_error arr' i = Some x /\ exists suf, arr' = arr ++ suf.
  Proof.
    intros x arr i arr' H. unfold populate in H. destruct (index_of eqb x arr) as [j |] eqn:E.
    - inversion H; subst. split; [now apply index_of_nth | exists []; now rewrite app_nil_r].
    - inversion H; subst. split; [| now exists [x]].
      rewrite nth_error_app2 by lia. now rewrite Nat.sub_diag.
  Qed.
End Pop.

Lemma nth_error_ext : forall {A} (l s : list A) i x, nth_error l i = Some x -> nth_error (l ++ s) i = Some x.
Proof.
  intros A l s i x H. rewrite nth_error_app1; [assumption |]. apply nth_error_Some. congruence.
Qed.

Definition extends (f f' : foreign) : Prop :=
  (exists s, f_accounts f' = f_accounts f ++ s) /\
  (exists s, f_assets f' = f_assets f ++ s) /\
  (exists s, f_apps f' = f_apps f ++ s).

Lemma extends_refl : forall f, extends f f.
Proof. intro f. repeat split; exists []; now rewrite app_nil_r. Qed.

Lemma extends_trans : forall a b c, extends a b -> extends b c -> extends a c.
Proof.
  intros a b c [[s1 H1] [[s2 H2] [s3 H3]]] [[t1 G1] [[t2 G2] [t3 G3]]].
  repeat split; [exists (s1 ++ t1) | exists (s2 ++ t2) | exists (s3 ++ t3)];
    rewrite app_assoc; congruence.
Qed.

Lemma resolve_account_ext : forall sender l s i a,
  resolve_account sender l i = Some a -> resolve_account sender (l ++ s) i = Some a.
Proof.
  intros sender l s i a. unfold resolve_account. destruct (N.eqb i 0); [trivial |]. apply nth_error_ext.
Qed.
Lemma resolve_asset_ext : forall l s i a, resolve_asset l i = Some a -> resolve_asset (l ++ s) i = Some a.
Proof. intros l s i a. unfold resolve_asset. apply nth_error_ext. Qed.
Lemma resolve_app_ext : forall app l s i a,
  resolve_app app l i = Some a -> resolve_app app (l ++ s) i = Some a.
Proof.
  intros app l s i a. unfold resolve_app. destruct (N.eqb i 0); [trivial |]. apply nth_error_ext.
Qed.

(* ------------------------------------------------------------------------------------------ *)
(* what the client puts on the wire for a non-transaction argument                              *)
(* ------------------------------------------------------------------------------------------ *)
Inductive wire_rel (sender : bytes) (app_id : N) (fs : foreign) : ty * carg -> ty * val -> Prop :=
| wr_val : forall t v, is_plain_ty t = true -> wire_rel sender app_id fs (t, CVal v) (t, v)
| wr_account : forall addr i,
    resolve_account sender (f_accounts fs) i = Some addr ->
    wire_rel sender app_id fs (TRef RAccount, CAccount addr) (TUint 8, VUint i)
| wr_asset : forall id i,
    resolve_asset (f_assets fs) i = Some id ->
    wire_rel sender app_id fs (TRef RAsset, CAsset id) (TUint 8, VUint i)
| wr_app : forall id i,
    resolve_app app_id (f_apps fs) i = Some id ->
    wire_rel sender app_id fs (TRef RApplication, CApp id) (TUint 8, VUint i).

Lemma wire_rel_ext : forall sender app_id f f' pa tv,
  extends f f' -> wire_rel sender app_id f pa tv -> wire_rel sender app_id f' pa tv.
Proof.
  intros sender app_id f f' pa tv [[s1 H1] [[s2 H2] [s3 H3]]] H.
  destruct H as [t v Hp | addr i Hr | id i Hr | id i Hr].
  - now constructor.
  - constructor. rewrite H1. now apply resolve_account_ext.
  - constructor. rewrite H2. now apply resolve_asset_ext.
  - constructor. rewrite H3. now apply resolve_app_ext.
Qed.

Lemma wire_rel_ty : forall sender app_id f pa tv, wire_rel sender app_id f pa tv -> fst tv = wire_ty (fst pa).
Proof.
  intros sender app_id f pa tv H. destruct H as [t v Hp | | |]; cbn; try reflexivity.
  destruct t; cbn in *; try reflexivity; discriminate.
Qed.

Definition txn_rel (pa : ty * carg) (x : gtx) : Prop :=
  exists k, pa = (TTxn k, CTxn x) /\ txn_type_ok k x = true.

Lemma plain_not_txn : forall t, is_plain_ty t = true -> is_txn_ty t = false.
Proof. intros t H. destruct t; cbn in *; try reflexivity; discriminate. Qed.

Lemma to_nat_of_nat_S_sub : forall j, N.to_nat (N.of_nat (S j)) - 1 = j.
Proof. intro j. rewrite Nat2N.id. lia. Qed.

Ltac crunch_place1 H :=
  repeat match type of H with
         | context [match ?k with RAccount => _ | RAsset => _ | RApplication => _ end] => destruct k
         | context [let '(_, _) := ?p in _] => destruct p eqn:?
         | context [if ?c then _ else _] => destruct c eqn:?
         end.

Lemma place1_txn : forall sender app_id t a fs x,
  place1 sender app_id t a fs = Some (PTxn x) ->
  exists k, t = TTxn k /\ a = CTxn x /\ txn_type_ok k x = true.
Proof.
  intros sender app_id t a fs x H.
  destruct t; destruct a; cbn in H; try discriminate H; crunch_place1 H; try discriminate H.
  inversion H; subst. eauto.
Qed.

Lemma place1_wire : forall sender app_id t a fs tv fs1,
  place1 sender app_id t a fs = Some (PWire tv fs1) ->
  is_txn_ty t = false /\ extends fs fs1 /\ wire_rel sender app_id fs1 (t, a) tv.
Proof.
  intros sender app_id t a fs tv fs1 H.
  destruct t; destruct a; cbn in H; try discriminate H; crunch_place1 H; try discriminate H;
    inversion H; subst; clear H; (split; [reflexivity |]).
  1-10: (split; [apply extends_refl | constructor; cbn; assumption || reflexivity]).
  - (* account *)
    rename Heqp into P. destruct (bytes_eqb a sender) eqn:E.
    + inversion P; subst. split.
      * repeat split; cbn; exists []; now rewrite app_nil_r.
      * constructor. cbn. f_equal. symmetry. now apply bytes_eqb_eq.
    + destruct (populate bytes_eqb a (f_accounts fs)) as [j l'] eqn:Q. inversion P; subst.
      apply (populate_spec bytes_eqb bytes_eqb_eq) in Q. destruct Q as [Hn [suf Hs]]. split.
      * repeat split; cbn; [now exists suf | exists []; now rewrite app_nil_r | exists []; now rewrite app_nil_r].
      * constructor. unfold resolve_account. cbn [f_accounts].
        replace (N.eqb (N.of_nat (S j)) 0) with false by (symmetry; apply N.eqb_neq; lia).
        now rewrite to_nat_of_nat_S_sub.
  - (* asset *)
    rename Heqp into P.
    apply (populate_spec N.eqb (fun x y => proj1 (N.eqb_eq x y))) in P. destruct P as [Hn [suf Hs]]. split.
    + repeat split; cbn; [exists []; now rewrite app_nil_r | now exists suf | exists []; now rewrite app_nil_r].
    + constructor. unfold resolve_asset. cbn [f_assets]. now rewrite Nat2N.id.
  - (* application *)
    rename Heqp into P. destruct (N.eqb id app_id) eqn:E.
    + inversion P; subst. split.
      * repeat split; cbn; exists []; now rewrite app_nil_r.
      * constructor. cbn. f_equal. symmetry. now apply N.eqb_eq.
    + destruct (populate N.eqb id (f_apps fs)) as [j l'] eqn:Q. inversion P; subst.
      apply (populate_spec N.eqb (fun x y => proj1 (N.eqb_eq x y))) in Q. destruct Q as [Hn [suf Hs]]. split.
      * repeat split; cbn; [exists []; now rewrite app_nil_r | exists []; now rewrite app_nil_r | now exists suf].
      * constructor. unfold resolve_app. cbn [f_apps].
        replace (N.eqb (N.of_nat (S j)) 0) with false by (symmetry; apply N.eqb_neq; lia).
        now rewrite to_nat_of_nat_S_sub.
Qed.

Lemma place_spec : forall sender app_id ps fs w xs fs',
  place sender app_id ps fs = Some (w, xs, fs') ->
  extends fs fs' /\
  Forall2 (wire_rel sender app_id fs') (filter (fun pa => not_txn_ty (fst pa)) ps) w /\
  Forall2 txn_rel (filter (fun pa => is_txn_ty (fst pa)) ps) xs.
Proof.
  intros sender app_id ps. induction ps as [| [t a] r IH]; intros fs w xs fs' H.
  - cbn in H. inversion H; subst. split; [apply extends_refl |]. split; constructor.
  - cbn [place] in H. destruct (place1 sender app_id t a fs) as [[tv fs1 | x] |] eqn:P1; [| | discriminate H].
    + destruct (place sender app_id r fs1) as [[[w' xs'] fs''] |] eqn:PR; [| discriminate H].
      inversion H; subst. apply place1_wire in P1. destruct P1 as [Ht [He Hw]].
      apply IH in PR. destruct PR as [He' [Hw' Hx']].
      cbn [filter fst]. unfold not_txn_ty at 1. rewrite Ht. cbn [negb].
      split; [eapply extends_trans; eauto |]. split; [| assumption].
      constructor; [eapply wire_rel_ext; eauto | assumption].
    + destruct (place sender app_id r fs) as [[[w' xs'] fs''] |] eqn:PR; [| discriminate H].
      inversion H; subst. apply place1_txn in P1. destruct P1 as [k [Ht [Ha Hok]]]. subst.
      apply IH in PR. destruct PR as [He' [Hw' Hx']].
      cbn [filter fst is_txn_ty not_txn_ty negb].
      split; [assumption |]. split; [assumption |].
      constructor; [exists k; split; [reflexivity | assumption] | assumption].
Qed.

(* ------------------------------------------------------------------------------------------ *)
(* packing                                                                                     *)
(* ------------------------------------------------------------------------------------------ *)
Definition enc_rel (tv : ty * val) (b : bytes) : Prop := arc4_encode (fst tv) (snd tv) = Some b.

Lemma enc_each_spec : forall w bs, enc_each w = Some bs -> Forall2 enc_rel w bs.
Proof.
  intro w. induction w as [| [t v] r IH]; intros bs H; cbn in H.
  - inversion H. constructor.
  - destruct (arc4_encode t v) as [b |] eqn:E; [| discriminate H].
    destruct (enc_each r) as [bs' |] eqn:E'; [| discriminate H]. inversion H; subst.
    constructor; [exact E | now apply IH].
Qed.

Lemma pack_small : forall w bs, length w <= 15 -> pack w = Some bs -> Forall2 enc_rel w bs.
Proof.
  intros w bs Hl H. unfold pack in H.
  replace (15 <? length w) with false in H by (symmetry; apply Nat.ltb_ge; lia).
  now apply enc_each_spec.
Qed.

Lemma pack_big : forall w bs, 15 < length w -> pack w = Some bs ->
  exists heads tup, bs = heads ++ [tup] /\ Forall2 enc_rel (firstn 14 w) heads /\
    arc4_encode (TTuple None (map fst (skipn 14 w))) (VList (map snd (skipn 14 w))) = Some tup.
Proof.
  intros w bs Hl H. unfold pack in H.
  replace (15 <? length w) with true in H by (symmetry; apply Nat.ltb_lt; lia).
  destruct (enc_each (firstn 14 w)) as [heads |] eqn:E; [| discriminate H].
  destruct (arc4_encode (TTuple None (map fst (skipn 14 w))) (VList (map snd (skipn 14 w)))) as [tup |] eqn:T; [| discriminate H].
  inversion H; subst. exists heads, tup. split; [reflexivity |]. split; [now apply enc_each_spec | reflexivity].
Qed.

(* ------------------------------------------------------------------------------------------ *)
(* the glue's plan for the non-transaction parameters, position by position                     *)
(* ------------------------------------------------------------------------------------------ *)
Definition app_source (apps : list ty) (r : nat) : source :=
  if (length apps <=? 15) || (r <? 14) then SArg (r + 1) else SMember 15 (skipn 14 apps) (r - 14).

Lemma app_bindings_length : forall apps, length (app_bindings apps) = length apps.
Proof.
  intro apps. unfold app_bindings. destruct (CUTOFF <? length apps).
  - rewrite app_length, !mapi_from_length, <- app_length, firstn_skipn. reflexivity.
  - apply mapi_from_length.
Qed.

Lemma app_bindings_nth : forall apps r t,
  nth_error apps r = Some t ->
  nth_error (app_bindings apps) r = Some (mk_binding (app_source apps r) t).
Proof.
  intros apps r t H. unfold app_bindings, app_source. change CUTOFF with 15. change (15 - 1) with 14.
  assert (Hr : r < length apps) by (apply nth_error_Some; congruence).
  destruct (15 <? length apps) eqn:C.
  - apply Nat.ltb_lt in C. replace (length apps <=? 15) with false by (symmetry; apply Nat.leb_gt; lia).
    cbn [orb]. assert (L14 : length (firstn 14 apps) = 14) by (apply firstn_length_le; lia).
    destruct (r <? 14) eqn:R.
    + apply Nat.ltb_lt in R. rewrite nth_error_app1 by (rewrite mapi_from_length; lia).
      rewrite nth_error_mapi_from, nth_error_firstn_lt by lia. rewrite H. reflexivity.
    + apply Nat.ltb_ge in R. rewrite nth_error_app2 by (rewrite mapi_from_length; lia).
      rewrite mapi_from_length, L14, nth_error_mapi_from, nth_error_skipn_add.
      replace (14 + (r - 14)) with r by lia. rewrite H. reflexivity.
  - apply Nat.ltb_ge in C. replace (length apps <=? 15) with true by (symmetry; apply Nat.leb_le; lia).
    cbn [orb]. rewrite nth_error_mapi_from, H. reflexivity.
Qed.

Lemma b2n_n2b : forall n, (n < 256)%N -> b2n (n2b n) = n.
Proof.
  intros n H. unfold b2n, n2b. rewrite N.mod_small by exact H. now apply N_ascii_embedding.
Qed.

Lemma uint8_enc_inv : forall i bs,
  arc4_encode (TUint 8) (VUint i) = Some bs -> exists c, bs = [c] /\ b2n c = i.
Proof.
  intros i bs H. cbn [arc4_encode uint_enc] in H.
  destruct (valid_uint_bits 8 && (i <? 2 ^ 8)%N) eqn:E; [| discriminate H].
  apply andb_prop in E. destruct E as [_ E]. apply N.ltb_lt in E.
  change (N.to_nat (8 / 8)) with 1 in H. cbn [be_encode app] in H. inversion H; subst.
  exists (n2b i). split; [reflexivity |]. apply b2n_n2b. exact E.
Qed.

(* a tuple encodes only if each of its components does *)
Lemma enc_seq_member : forall ts vs es j t v,
  enc_seq (map (fun x => enc_elem (is_bool x) (is_dynamic x) (arc4_encode x)) ts) vs = Some es ->
  nth_error ts j = Some t -> nth_error vs j = Some v ->
  exists e, arc4_encode t v = Some e.
Proof.
  intro ts. induction ts as [| t0 ts IH]; intros vs es j t v H Ht Hv; [destruct j; discriminate |].
  destruct vs as [| v0 vs]; [destruct j; discriminate |]. cbn [map enc_seq] in H.
  destruct (enc_elem (is_bool t0) (is_dynamic t0) (arc4_encode t0) v0) as [e0 |] eqn:E0; [| discriminate H].
  cbn [obind] in H.
  destruct (enc_seq (map (fun x => enc_elem (is_bool x) (is_dynamic x) (arc4_encode x)) ts) vs) as [es' |] eqn:S; [| discriminate H].
  destruct j as [| j]; cbn in Ht, Hv.
  - inversion Ht; inversion Hv; subst. unfold enc_elem in E0. destruct (is_bool t) eqn:B.
    + apply is_bool_true in B. subst t. destruct v; try discriminate E0. cbn. eauto.
    + destruct (arc4_encode t v) as [e |]; [eauto | destruct (is_dynamic t); discriminate E0].
  - eapply IH; eauto.
Qed.

Lemma tuple_member_encodes : forall ts vs bs j t v,
  arc4_encode (TTuple None ts) (VList vs) = Some bs ->
  nth_error ts j = Some t -> nth_error vs j = Some v ->
  exists e, arc4_encode t v = Some e.
Proof.
  intros ts vs bs j t v H Ht Hv. cbn [arc4_encode tuple_enc] in H.
  destruct (enc_seq (map (fun x => enc_elem (is_bool x) (is_dynamic x) (arc4_encode x)) ts) vs) as [es |] eqn:S; [| discriminate H].
  eapply enc_seq_member; eauto.
Qed.

Section Binding.
  Variable member : list ty -> nat -> bytes -> option bytes.
  (* C07's subject: element j of an encoded tuple is the encoding of the j-th component *)
  Hypothesis member_correct : forall ts vs bs j t v,
    arc4_encode (TTuple None ts) (VList vs) = Some bs ->
    nth_error ts j = Some t -> nth_error vs j = Some v ->
    member ts j bs = arc4_encode t v.

  Lemma eval_all_pointwise : forall args group gi bl (Q : nat -> bound -> Prop),
    (forall j b, nth_error bl j = Some b ->
                 exists r, eval_binding member args group gi b = Some r /\ Q j r) ->
    exists rs, eval_all member args group gi bl = Some rs /\ length rs = length bl /\
               forall j r, nth_error rs j = Some r -> Q j r.
  Proof.
    intros args group gi bl. induction bl as [| b rest IH]; intros Q H.
    - exists []. split; [reflexivity |]. split; [reflexivity |]. intros j r Hj. destruct j; discriminate.
    - destruct (H 0 b eq_refl) as [r0 [E0 Q0]].
      destruct (IH (fun j r => Q (S j) r)) as [rs [Ers [Hlen Hq]]].
      { intros j b' Hj. apply (H (S j)). exact Hj. }
      exists (r0 :: rs). cbn [eval_all]. rewrite E0, Ers. split; [reflexivity |].
      split; [cbn; now rewrite Hlen |]. intros j r Hj. destruct j as [| j]; cbn in Hj.
      + inversion Hj; subst. exact Q0.
      + now apply Hq.
  Qed.

  (* what the glue reads for the r-th non-transaction parameter is what the client encoded for it *)
  Lemma read_source_ok : forall (apps : list ty) (w : list (ty * val)) bs sel r wt wv,
    map wire_ty apps = map fst w ->
    pack w = Some bs ->
    nth_error w r = Some (wt, wv) ->
    exists e, arc4_encode wt wv = Some e /\ read_source member (sel :: bs) (app_source apps r) = Some e.
  Proof.
    intros apps w bs sel r wt wv Hty Hp Hr.
    assert (Hlen : length apps = length w).
    { rewrite <- (map_length wire_ty apps), Hty. apply map_length. }
    assert (Hrl : r < length w) by (apply nth_error_Some; congruence).
    unfold app_source. rewrite Hlen. destruct (length w <=? 15) eqn:C.
    - apply Nat.leb_le in C. cbn [orb]. apply pack_small in Hp; [| exact C].
      destruct (Forall2_nth_l _ _ _ _ _ Hp Hr) as [e [He Hrel]]. exists e. split; [exact Hrel |].
      cbn [read_source]. rewrite Nat.add_1_r. exact He.
    - apply Nat.leb_gt in C. cbn [orb]. destruct (pack_big _ _ C Hp) as [heads [tup [Hbs [Hh Ht]]]]. subst bs.
      assert (L14 : length heads = 14).
      { rewrite <- (Forall2_len _ _ _ Hh). apply firstn_length_le. lia. }
      destruct (r <? 14) eqn:R.
      + apply Nat.ltb_lt in R.
        assert (Hr' : nth_error (firstn 14 w) r = Some (wt, wv)) by (rewrite nth_error_firstn_lt by lia; exact Hr).
        destruct (Forall2_nth_l _ _ _ _ _ Hh Hr') as [e [He Hrel]]. exists e. split; [exact Hrel |].
        cbn [read_source]. rewrite Nat.add_1_r. cbn [nth_error]. rewrite nth_error_app1 by lia. exact He.
      + apply Nat.ltb_ge in R. cbn [read_source].
        change (nth_error (sel :: heads ++ [tup]) 15) with (nth_error (heads ++ [tup]) 14).
        rewrite nth_error_app2 by lia. rewrite L14. cbn [Nat.sub nth_error].
        rewrite <- skipn_map, Hty, skipn_map.
        assert (Hsk : nth_error (skipn 14 w) (r - 14) = Some (wt, wv)).
        { rewrite nth_error_skipn_add. replace (14 + (r - 14)) with r by lia. exact Hr. }
        assert (Hf : nth_error (map fst (skipn 14 w)) (r - 14) = Some wt)
          by (apply nth_error_map_some with (f := fst) in Hsk; exact Hsk).
        assert (Hs : nth_error (map snd (skipn 14 w)) (r - 14) = Some wv)
          by (apply nth_error_map_some with (f := snd) in Hsk; exact Hsk).
        rewrite (member_correct _ _ _ (r - 14) wt wv Ht Hf Hs).
        destruct (tuple_member_encodes _ _ _ _ _ _ Ht Hf Hs) as [e He]. exists e. split; assumption.
  Qed.

  Lemma wire_rel_types : forall sender app_id fs apps_pa w,
    Forall2 (wire_rel sender app_id fs) apps_pa w -> map wire_ty (map fst apps_pa) = map fst w.
  Proof.
    intros sender app_id fs apps_pa w H. induction H as [| pa tv r1 r2 Hr Hrest IH]; [reflexivity |].
    cbn [map]. rewrite IH. f_equal. symmetry. eapply wire_rel_ty; eauto.
  Qed.

  Lemma app_part : forall sender app_id (c : call) fs apps_pa w bs sel group gi,
    f_accounts fs = c_accounts c -> f_assets fs = c_assets c -> f_apps fs = c_apps c ->
    Forall2 (wire_rel sender app_id fs) apps_pa w -> pack w = Some bs ->
    exists EA, eval_all member (sel :: bs) group gi (app_bindings (map fst apps_pa)) = Some EA /\
               Forall2 (fun pa b => app_bound_ok sender app_id c (fst pa) (snd pa) b) apps_pa EA.
  Proof.
    intros sender app_id c fs apps_pa w bs sel group gi Hac Has Hap Hw Hp.
    pose proof (wire_rel_types _ _ _ _ _ Hw) as Hty.
    set (apps := map fst apps_pa) in *.
    destruct (eval_all_pointwise (sel :: bs) group gi (app_bindings apps)
                (fun j r => exists pa, nth_error apps_pa j = Some pa /\
                                       app_bound_ok sender app_id c (fst pa) (snd pa) r)) as [EA [He [Hlen Hq]]].
    - intros j b Hj.
      assert (Hjl : j < length apps).
      { rewrite <- app_bindings_length. apply nth_error_Some. congruence. }
      destruct (nth_error apps_pa j) as [pa |] eqn:Epa.
      2: { apply nth_error_None in Epa. unfold apps in Hjl. rewrite map_length in Hjl. lia. }
      assert (Et : nth_error apps j = Some (fst pa)) by (unfold apps; now apply nth_error_map_some).
      rewrite (app_bindings_nth _ _ _ Et) in Hj. inversion Hj; subst b. clear Hj.
      destruct (Forall2_nth_l _ _ _ _ _ Hw Epa) as [tv [Etv Hrel]]. destruct tv as [wt wv].
      destruct (read_source_ok apps w bs sel j wt wv Hty Hp Etv) as [e [Hen Hrd]].
      inversion Hrel as [t v Hpl E1 E2 | addr i Hr E1 E2 | id i Hr E1 E2 | id i Hr E1 E2]; subst pa; subst; cbn [fst snd] in *.
      + assert (Hmk : mk_binding (app_source apps j) wt = BVal (app_source apps j) wt)
          by (destruct wt; cbn in *; try reflexivity; discriminate).
        rewrite Hmk. cbn [eval_binding]. rewrite Hrd. cbn [option_map].
        eexists. split; [reflexivity |]. exists (wt, CVal wv). split; [reflexivity |]. now constructor.
      + cbn [mk_binding eval_binding]. rewrite Hrd. destruct (uint8_enc_inv _ _ Hen) as [ch [-> Hch]].
        eexists. split; [reflexivity |]. exists (TRef RAccount, CAccount addr). split; [reflexivity |].
        rewrite Hch. constructor. rewrite <- Hac. exact Hr.
      + cbn [mk_binding eval_binding]. rewrite Hrd. destruct (uint8_enc_inv _ _ Hen) as [ch [-> Hch]].
        eexists. split; [reflexivity |]. exists (TRef RAsset, CAsset id). split; [reflexivity |].
        rewrite Hch. constructor. rewrite <- Has. exact Hr.
      + cbn [mk_binding eval_binding]. rewrite Hrd. destruct (uint8_enc_inv _ _ Hen) as [ch [-> Hch]].
        eexists. split; [reflexivity |]. exists (TRef RApplication, CApp id). split; [reflexivity |].
        rewrite Hch. constructor. rewrite <- Hap. exact Hr.
    - exists EA. split; [exact He |]. apply Forall2_of_nth.
      + rewrite Hlen, app_bindings_length. unfold apps. now rewrite map_length.
      + intros j pa r Hpa Hr. destruct (Hq j r Hr) as [pa' [Hpa' Hok]]. congruence.
  Qed.

  (* ---- transaction parameters ---- *)
  Lemma txn_part : forall (l : list (ty * carg)) (xsl : list gtx) m idx0 pre me after args,
    Forall2 txn_rel l xsl -> m = idx0 + length l ->
    let group := pre ++ xsl ++ me :: after in
    let gi := length pre + length xsl in
    exists ET,
      eval_all member args group gi
        (mapi_from idx0 (fun idx t => BTxn (m - idx) (kind_of t)) (map fst l)) = Some ET /\
      ET = mapi_from 0 (fun j x => RTxn (length pre + j) x) xsl.
  Proof.
    intros l xsl m idx0 pre me after args H. revert idx0 pre.
    induction H as [| pa x l' xs' Hrel Hrest IH]; intros idx0 pre Hm group gi.
    - exists []. split; reflexivity.
    - destruct Hrel as [k [-> Hok]]. cbn [map fst mapi_from eval_all kind_of eval_binding].
      pose proof (Forall2_len _ _ _ Hrest) as Hlen.
      assert (Hback : m - idx0 = S (length l')) by (cbn in Hm; lia).
      rewrite Hback. subst gi. cbn [length].
      replace (S (length l') <=? length pre + S (length xs')) with true by (symmetry; apply Nat.leb_le; lia).
      replace (length pre + S (length xs') - S (length l')) with (length pre) by lia.
      subst group. rewrite nth_error_app2 by lia. rewrite Nat.sub_diag. cbn [app nth_error]. rewrite Hok.
      destruct (IH (S idx0) (pre ++ [x])) as [ET [He Het]]; [cbn in Hm; lia |].
      rewrite <- app_assoc in He. cbn [app] in He. rewrite app_length in He. cbn [length] in He.
      replace (length pre + 1 + length xs') with (length pre + S (length xs')) in He by lia.
      rewrite He. eexists. split; [reflexivity |]. rewrite Het. cbn [mapi_from]. rewrite Nat.add_0_r. f_equal.
      rewrite app_length. cbn [length]. rewrite mapi_from_shift. apply mapi_from_ext. intros j y. f_equal. lia.
  Qed.
End Binding.

Section Main.
  Variable member : list ty -> nat -> bytes -> option bytes.
  Hypothesis member_correct : forall ts vs bs j t v,
    arc4_encode (TTuple None ts) (VList vs) = Some bs ->
    nth_error ts j = Some t -> nth_error vs j = Some v ->
    member ts j bs = arc4_encode t v.

  Lemma eval_all_cons_inv : forall args group gi b bl rs,
    eval_all member args group gi (b :: bl) = Some rs ->
    exists r rs', rs = r :: rs' /\ eval_binding member args group gi b = Some r /\
                  eval_all member args group gi bl = Some rs'.
  Proof.
    intros args group gi b bl rs H. cbn [eval_all] in H.
    destruct (eval_binding member args group gi b) as [r |]; [| discriminate H].
    destruct (eval_all member args group gi bl) as [rs' |]; [| discriminate H].
    inversion H; subst. eauto.
  Qed.

  (* object identity: evaluating the spliced plan = splicing the evaluated sub-plans *)
  Lemma eval_all_splice : forall args group gi tys A T EA ET,
    length A = length (filter not_txn_ty tys) -> length T = length (filter is_txn_ty tys) ->
    eval_all member args group gi A = Some EA -> eval_all member args group gi T = Some ET ->
    eval_all member args group gi (splice tys A T) = Some (splice tys EA ET).
  Proof.
    intros args group gi tys. induction tys as [| t r IH]; intros A T EA ET HA HT EA' ET'; [reflexivity |].
    cbn [filter] in HA, HT. unfold not_txn_ty in HA at 1. cbn [splice].
    destruct (is_txn_ty t) eqn:Et; cbn [negb] in HA.
    - destruct T as [| b T']; [discriminate HT |].
      destruct (eval_all_cons_inv _ _ _ _ _ _ ET') as [x [ET'' [-> [Eb Er]]]].
      cbn [eval_all]. rewrite Eb. rewrite (IH A T' EA ET''); auto.
    - destruct A as [| b A']; [discriminate HA |].
      destruct (eval_all_cons_inv _ _ _ _ _ _ EA') as [x [EA'' [-> [Eb Er]]]].
      cbn [eval_all]. rewrite Eb. rewrite (IH A' T EA'' ET); auto.
  Qed.

  Lemma splice_args_ok : forall sender app_id c group base ps n EA xs,
    Forall2 (fun pa b => app_bound_ok sender app_id c (fst pa) (snd pa) b)
            (filter (fun pa => not_txn_ty (fst pa)) ps) EA ->
    Forall2 txn_rel (filter (fun pa => is_txn_ty (fst pa)) ps) xs ->
    (forall j x, nth_error xs j = Some x -> nth_error group (base + n + j) = Some x) ->
    args_ok sender app_id c group base n ps
            (splice (map fst ps) EA (mapi_from 0 (fun j x => RTxn (base + n + j) x) xs)).
  Proof.
    intros sender app_id c group base ps. induction ps as [| [t a] r IH]; intros n EA xs HA HT Hg.
    - constructor.
    - cbn [filter fst] in HA, HT. unfold not_txn_ty in HA at 1. cbn [map fst splice].
      destruct (is_txn_ty t) eqn:Et; cbn [negb] in HA.
      + inversion HT as [| pa x l' xs' Hrel Hrest E1 E2]; subst. destruct Hrel as [k [Epa Hok]].
        inversion Epa; subst. cbn [mapi_from]. rewrite Nat.add_0_r.
        constructor; [exact Hok | |].
        * specialize (Hg 0 x eq_refl). now rewrite Nat.add_0_r in Hg.
        * rewrite mapi_from_shift.
          rewrite (mapi_from_ext _ (fun j y => RTxn (base + S n + j) y)) by (intros; f_equal; lia).
          apply IH; [exact HA | exact Hrest |]. intros j y Hj. specialize (Hg (S j) y Hj).
          now replace (base + S n + j) with (base + n + S j) by lia.
      + inversion HA as [| pa b l' EA' Hrel Hrest E1 E2]; subst. cbn [fst snd] in Hrel.
        constructor; [exact Et | exact Hrel |]. apply IH; assumption.
  Qed.

  Theorem arg_binding_main : forall sel sender app_id s args c before me after,
    client_encode sel sender app_id s args = Some c ->
    exists bounds,
      eval_all member (c_args c) (group_of before c me after) (group_index_of before c)
               (binding_plan (s_params s)) = Some bounds /\
      args_ok sender app_id c (group_of before c me after) (length before) 0
              (combine (s_params s) args) bounds /\
      length (c_txns c) = length (filter is_txn_ty (s_params s)) /\
      length (s_params s) = length args.
  Proof.
    intros sel sender app_id s args c before me after H. unfold client_encode in H.
    destruct (Nat.eqb (length (s_params s)) (length args)) eqn:El; [| discriminate H].
    apply Nat.eqb_eq in El.
    destruct (place sender app_id (combine (s_params s) args) (mkForeign [] [] [])) as [[[w xs] fs] |] eqn:P; [| discriminate H].
    destruct (pack w) as [bs |] eqn:Pk; [| discriminate H]. inversion H; subst c. clear H.
    set (ps := combine (s_params s) args) in *.
    assert (Hps : map fst ps = s_params s) by (apply map_fst_combine; exact El).
    destruct (place_spec _ _ _ _ _ _ _ P) as [_ [Hw Hx]].
    set (c := mkCall (sel :: bs) (f_accounts fs) (f_assets fs) (f_apps fs) xs).
    unfold group_of, group_index_of. cbn [c_txns c_args].
    destruct (app_part member member_correct sender app_id c fs _ w bs sel
                (before ++ xs ++ me :: after) (length before + length xs) eq_refl eq_refl eq_refl Hw Pk)
      as [EA [HEA HokA]].
    destruct (txn_part member (filter (fun pa => is_txn_ty (fst pa)) ps) xs
                (0 + length (filter (fun pa => is_txn_ty (fst pa)) ps)) 0 before me after (sel :: bs) Hx eq_refl)
      as [ET [HET EqET]].
    cbn zeta in HET. cbn [Nat.add] in HET.
    exists (splice (s_params s) EA ET). split; [| split; [| split]].
    - unfold binding_plan. rewrite <- Hps at 2 3. rewrite !filter_map_fst.
      apply eval_all_splice.
      + rewrite app_bindings_length. rewrite <- Hps, filter_map_fst. reflexivity.
      + unfold txn_bindings. rewrite mapi_from_length. rewrite <- Hps, filter_map_fst. reflexivity.
      + exact HEA.
      + unfold txn_bindings. rewrite map_length. exact HET.
    - rewrite <- Hps, EqET.
      rewrite (mapi_from_ext _ (fun j x => RTxn (length before + 0 + j) x)) by (intros; f_equal; lia).
      apply splice_args_ok; [exact HokA | exact Hx |].
      intros j x Hj. rewrite Nat.add_0_r. rewrite nth_error_app2 by lia.
      replace (length before + j - length before) with j by lia.
      change (c_txns c) with xs. rewrite nth_error_app1 by (apply nth_error_Some; congruence). exact Hj.
    - change (c_txns c) with xs. rewrite <- (Forall2_len _ _ _ Hx). rewrite <- Hps, filter_map_fst, map_length. reflexivity.
    - exact El.
  Qed.
End Main.

(* ------------------------------------------------------------------------------------------ *)
(* shape of the plan: kinds are preserved; the cut-off                                           *)
(* ------------------------------------------------------------------------------------------ *)
Lemma splice_Forall2 : forall {A} (R : ty -> A -> Prop) tys (LA LT : list A),
  Forall2 R (filter not_txn_ty tys) LA -> Forall2 R (filter is_txn_ty tys) LT ->
  Forall2 R tys (splice tys LA LT).
Proof.
  intros A R tys. induction tys as [| t r IH]; intros LA LT HA HT; [constructor |].
  cbn [filter] in HA, HT. unfold not_txn_ty in HA at 1. cbn [splice].
  destruct (is_txn_ty t) eqn:Et; cbn [negb] in HA.
  - inversion HT; subst. constructor; [assumption | now apply IH].
  - inversion HA; subst. constructor; [assumption | now apply IH].
Qed.

(* a transaction parameter of kind k is bound by a BTxn of kind k, anything else by a BVal / BRef *)
Definition plan_shape (t : ty) (b : binding) : Prop :=
  match t with
  | TTxn k => exists back, b = BTxn back k
  | TRef k => exists s, b = BRef s k
  | _ => exists s, b = BVal s t
  end.

Lemma binding_plan_shape : forall tys, Forall2 plan_shape tys (binding_plan tys).
Proof.
  intro tys. unfold binding_plan. apply splice_Forall2.
  - set (apps := filter not_txn_ty tys).
    assert (Hnt : forall t, In t apps -> is_txn_ty t = false).
    { intros t Hin. apply filter_In in Hin. destruct Hin as [_ H]. unfold not_txn_ty in H. now destruct (is_txn_ty t). }
    apply Forall2_of_nth; [now rewrite app_bindings_length |].
    intros j t b Ht Hb. rewrite (app_bindings_nth _ _ _ Ht) in Hb. inversion Hb; subst b.
    specialize (Hnt t (nth_error_In _ _ Ht)). destruct t; cbn in *; try discriminate; eauto.
  - set (txns := filter is_txn_ty tys).
    assert (Ht : forall t, In t txns -> is_txn_ty t = true).
    { intros t Hin. apply filter_In in Hin. tauto. }
    unfold txn_bindings. apply Forall2_of_nth; [now rewrite mapi_from_length |].
    intros j t b Hj Hb. rewrite nth_error_mapi_from, Hj in Hb. cbn in Hb. inversion Hb; subst b.
    specialize (Ht t (nth_error_In _ _ Hj)). destruct t; cbn in *; try discriminate; eauto.
Qed.

Section Enforced.
  Variable member : list ty -> nat -> bytes -> option bytes.

  Lemma eval_all_nth : forall args group gi bl rs j b,
    eval_all member args group gi bl = Some rs -> nth_error bl j = Some b ->
    exists r, nth_error rs j = Some r /\ eval_binding member args group gi b = Some r.
  Proof.
    intros args group gi bl. induction bl as [| b0 bl IH]; intros rs j b H Hj; [destruct j; discriminate |].
    cbn [eval_all] in H. destruct (eval_binding member args group gi b0) as [r0 |] eqn:E0; [| discriminate H].
    destruct (eval_all member args group gi bl) as [rs' |] eqn:Er; [| discriminate H]. inversion H; subst.
    destruct j as [| j]; cbn in Hj |- *.
    - inversion Hj; subst. eauto.
    - eapply IH; eauto.
  Qed.

  (* Whatever the application arguments and the group are (client-made or not): if the glue gets
     through, every transaction parameter denotes an existing group transaction of the declared
     type, at the computed position.  A transaction of another type makes the call fail. *)
  Theorem txn_type_enforced_main : forall args group gi tys i k bounds,
    nth_error tys i = Some (TTxn k) ->
    eval_all member args group gi (binding_plan tys) = Some bounds ->
    exists g x, nth_error bounds i = Some (RTxn g x) /\ g < gi /\ nth_error group g = Some x /\
                txn_type_ok k x = true.
  Proof.
    intros args group gi tys i k bounds Hi He.
    destruct (Forall2_nth_l _ _ _ _ _ (binding_plan_shape tys) Hi) as [b [Hb [back ->]]].
    destruct (eval_all_nth _ _ _ _ _ _ _ He Hb) as [r [Hr Ev]].
    cbn [eval_binding] in Ev. destruct (back <=? gi) eqn:Eb; [| discriminate Ev]. apply Nat.leb_le in Eb.
    destruct (nth_error group (gi - back)) as [x |] eqn:Ex; [| discriminate Ev].
    destruct (txn_type_ok k x) eqn:Ek; [| discriminate Ev]. inversion Ev; subst r.
    exists (gi - back), x. repeat split; auto.
    (* back > 0 : txn_bindings uses len - idx with idx < len *)
    assert (Hpos : 0 < back).
    { unfold binding_plan in Hb. clear - Hb.
      assert (Hall : Forall (fun b => match b with BTxn bk _ => 0 < bk | _ => True end)
                            (splice tys (app_bindings (filter not_txn_ty tys)) (txn_bindings (filter is_txn_ty tys)))).
      { assert (HA : Forall (fun b => match b with BTxn bk _ => 0 < bk | _ => True end) (app_bindings (filter not_txn_ty tys))).
        { apply Forall_forall. intros b Hin. apply In_nth_error in Hin. destruct Hin as [j Hj].
          assert (Hjl : j < length (filter not_txn_ty tys)).
          { rewrite <- app_bindings_length. apply nth_error_Some. congruence. }
          destruct (nth_error (filter not_txn_ty tys) j) as [t |] eqn:Et; [| apply nth_error_None in Et; lia].
          rewrite (app_bindings_nth _ _ _ Et) in Hj. inversion Hj. destruct t; cbn; exact I. }
        assert (HT : Forall (fun b => match b with BTxn bk _ => 0 < bk | _ => True end) (txn_bindings (filter is_txn_ty tys))).
        { apply Forall_forall. intros b Hin. apply In_nth_error in Hin. destruct Hin as [j Hj].
          unfold txn_bindings in Hj. rewrite nth_error_mapi_from in Hj.
          destruct (nth_error (filter is_txn_ty tys) j) as [t |] eqn:Et; [| discriminate Hj].
          cbn in Hj. inversion Hj. assert (j < length (filter is_txn_ty tys)) by (apply nth_error_Some; congruence). lia. }
        clear Hb. revert HA HT. generalize (app_bindings (filter not_txn_ty tys)) as LA. generalize (txn_bindings (filter is_txn_ty tys)) as LT.
        induction tys as [| t r IH]; intros LT LA HA HT; cbn [splice]; [constructor |].
        destruct (is_txn_ty t).
        - destruct LT as [| b LT']; [constructor |]; inversion HT; subst. constructor; [assumption | now apply IH].
        - destruct LA as [| b LA']; [constructor |]; inversion HA; subst. constructor; [assumption | now apply IH]. }
      rewrite Forall_forall in Hall. exact (Hall _ (nth_error_In _ _ Hb)). }
    lia.
  Qed.
End Enforced.

(* ---- the cut-off, both sides ---- *)
Lemma app_bindings_le : forall apps, length apps <= 15 ->
  app_bindings apps = mapi_from 0 (fun idx t => mk_binding (SArg (idx + 1)) t) apps.
Proof.
  intros apps H. unfold app_bindings. change CUTOFF with 15.
  replace (15 <? length apps) with false by (symmetry; apply Nat.ltb_ge; lia). reflexivity.
Qed.

Lemma app_bindings_gt : forall apps, 15 < length apps ->
  app_bindings apps =
    mapi_from 0 (fun idx t => mk_binding (SArg (idx + 1)) t) (firstn 14 apps)
    ++ mapi_from 0 (fun idx t => mk_binding (SMember 15 (skipn 14 apps) idx) t) (skipn 14 apps).
Proof.
  intros apps H. unfold app_bindings. change CUTOFF with 15. change (15 - 1) with 14.
  replace (15 <? length apps) with true by (symmetry; apply Nat.ltb_lt; lia).
  rewrite firstn_length_le by lia. reflexivity.
Qed.

Lemma splice_no_txn : forall {A} tys (LA LT : list A),
  forallb not_txn_ty tys = true -> length LA = length tys -> splice tys LA LT = LA.
Proof.
  intros A tys. induction tys as [| t r IH]; intros LA LT H Hl.
  - destruct LA; [reflexivity | discriminate].
  - cbn in H. apply andb_prop in H. destruct H as [Ht Hr]. unfold not_txn_ty in Ht. cbn [splice].
    destruct (is_txn_ty t); [discriminate |]. destruct LA as [| b LA']; [discriminate |]. f_equal. apply IH; auto.
Qed.

Lemma filter_all : forall {A} (p : A -> bool) l, forallb p l = true -> filter p l = l.
Proof.
  intros A p l. induction l as [| x r IH]; intro H; [reflexivity |]. cbn in *.
  apply andb_prop in H. destruct H as [Hx Hr]. rewrite Hx. f_equal. now apply IH.
Qed.

(* a method without transaction parameters: the plan is the application-argument plan *)
Lemma binding_plan_no_txn : forall tys, forallb not_txn_ty tys = true -> binding_plan tys = app_bindings tys.
Proof.
  intros tys H. unfold binding_plan. rewrite (filter_all _ _ H).
  apply splice_no_txn; [exact H | apply app_bindings_length].
Qed.

(* 15 arguments: one application argument each *)
Theorem cutoff_15_individual_main : forall tys,
  length tys = 15 -> forallb not_txn_ty tys = true ->
  binding_plan tys = mapi_from 0 (fun idx t => mk_binding (SArg (idx + 1)) t) tys /\ tupled_types tys = [].
Proof.
  intros tys Hl H. rewrite (binding_plan_no_txn _ H). split; [apply app_bindings_le; lia |].
  unfold tupled_types. rewrite (filter_all _ _ H). change CUTOFF with 15. rewrite Hl. reflexivity.
Qed.

(* 16 arguments: 14 alone, the last two as a 2-tuple in application argument 15 *)
Theorem cutoff_16_tupled_main : forall tys,
  length tys = 16 -> forallb not_txn_ty tys = true ->
  exists t14 t15,
    skipn 14 tys = [t14; t15] /\ tupled_types tys = [t14; t15] /\
    binding_plan tys =
      mapi_from 0 (fun idx t => mk_binding (SArg (idx + 1)) t) (firstn 14 tys)
      ++ [mk_binding (SMember 15 [t14; t15] 0) t14; mk_binding (SMember 15 [t14; t15] 1) t15].
Proof.
  intros tys Hl H.
  assert (Hs : exists t14 t15, skipn 14 tys = [t14; t15]).
  { pose proof (skipn_length 14 tys) as L. rewrite Hl in L. change (16 - 14) with 2 in L.
    destruct (skipn 14 tys) as [| a [| b [| c r]]]; try discriminate. eauto. }
  destruct Hs as [t14 [t15 Hs]]. exists t14, t15. split; [exact Hs |]. split.
  - unfold tupled_types. rewrite (filter_all _ _ H). change CUTOFF with 15. rewrite Hl. cbn [Nat.ltb Nat.leb]. exact Hs.
  - rewrite (binding_plan_no_txn _ H), app_bindings_gt by lia. rewrite Hs. reflexivity.
Qed.

(* the client, both sides of the boundary *)
Lemma enc_each_length : forall w bs, enc_each w = Some bs -> length bs = length w.
Proof. intros w bs H. apply enc_each_spec in H. symmetry. eapply Forall2_len; eauto. Qed.

Theorem client_cutoff_main : forall w bs,
  pack w = Some bs ->
  (length w <= 15 -> length bs = length w /\ Forall2 enc_rel w bs) /\
  (15 < length w ->
     length bs = 15 /\ Forall2 enc_rel (firstn 14 w) (firstn 14 bs) /\
     nth_error bs 14 = arc4_encode (TTuple None (map fst (skipn 14 w))) (VList (map snd (skipn 14 w)))).
Proof.
  intros w bs H. split; intro Hl.
  - pose proof (pack_small _ _ Hl H) as F. split; [symmetry; eapply Forall2_len; eauto | exact F].
  - destruct (pack_big _ _ Hl H) as [heads [tup [-> [Hh Ht]]]].
    assert (L14 : length heads = 14) by (rewrite <- (Forall2_len _ _ _ Hh); apply firstn_length_le; lia).
    split; [rewrite app_length, L14; reflexivity |]. split.
    + rewrite firstn_app, L14, Nat.sub_diag, firstn_O, app_nil_r.
      rewrite (firstn_all2 heads) by lia. exact Hh.
    + rewrite nth_error_app2 by lia. rewrite L14, Nat.sub_diag, Ht. reflexivity.
Qed.
