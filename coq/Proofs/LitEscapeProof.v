(* Proofs/LitEscapeProof.v — C13: the escaped spelling of ANY byte string is read back by the
   assembler's tokeniser and string-literal parser as exactly that byte string. *)
From Coq Require Import List NArith Ascii String Bool Lia.
From PV Require Import Base.Bytes Base.Sexp AVM.Syntax AVM.Machine AVM.Parse Lit.Escape.
Import ListNotations.
Local Open Scope string_scope.
Local Open Scope list_scope.

(* ------------------------------------------------------------------------------------------ *)
(* generic facts about the tokeniser                                                           *)
(* ------------------------------------------------------------------------------------------ *)

Lemma str_of_rev l : str_of (rev l) = string_of_list_ascii l.
Proof. unfold str_of. now rewrite rev_involutive. Qed.

(* the accumulator of finished tokens is only ever extended *)
Lemma tok_line_acc s : forall cur is es ib acc,
  tok_line s cur is es ib acc = rev acc ++ tok_line s cur is es ib [].
Proof.
  induction s as [|c t IH]; intros cur is es ib acc.
  - cbn. destruct cur; cbn; [now rewrite app_nil_r | reflexivity].
  - cbn [tok_line].
    destruct is.
    { destruct es; [apply IH|].
      destruct (Ascii.eqb c "\"); [apply IH|].
      destruct (Ascii.eqb c """"); apply IH. }
    destruct (is_space c).
    { destruct cur as [|x cur]; [apply IH|].
      rewrite IH. rewrite (IH _ _ _ _ [_]). cbn [rev app]. now rewrite <- app_assoc. }
    destruct (Ascii.eqb c """").
    { destruct cur; apply IH. }
    destruct (Ascii.eqb c "/").
    { destruct t as [|c2 t'].
      - apply IH.
      - destruct (Ascii.eqb c2 "/" && negb ib).
        + destruct cur; cbn; [now rewrite app_nil_r | reflexivity].
        + apply IH. }
    destruct (Ascii.eqb c "("); [apply IH|].
    destruct (Ascii.eqb c ")"); [apply IH|].
    destruct (Ascii.eqb c ";").
    { destruct ib; [apply IH|].
      rewrite IH. rewrite (IH _ _ _ _ (_ :: _)).
      destruct cur; cbn [rev app]; now rewrite <- ?app_assoc. }
    apply IH.
Qed.

(* ------------------------------------------------------------------------------------------ *)
(* one escaped unit                                                                            *)
(* ------------------------------------------------------------------------------------------ *)

(* Inside a string, with no pending backslash, the escaped form of one byte is consumed whole and
   leaves the tokeniser inside the string with no pending backslash (256 cases by computation;
   the rest of the line [t] and the state stay symbolic). *)
Lemma tok_unit c : forall t cur ib acc,
  tok_line (esc_byte c ++ t) cur true false ib acc =
  tok_line t (rev (esc_byte c) ++ cur) true false ib acc.
Proof.
  destruct c as [[|] [|] [|] [|] [|] [|] [|] [|]]; intros; reflexivity.
Qed.

(* The literal parser reads one escaped unit back as the byte it came from, provided something
   follows (the closing quote at least). *)
Lemma parse_unit c : forall x t,
  parse_str_body (esc_byte c ++ x :: t) = option_map (cons c) (parse_str_body (x :: t)).
Proof.
  destruct c as [[|] [|] [|] [|] [|] [|] [|] [|]]; intros; reflexivity.
Qed.

(* No escaped unit contains a raw line feed, so a literal never spans TEAL lines. *)
Lemma unit_no_newline c : forallb (fun x => negb (Ascii.eqb x (chr 10))) (esc_byte c) = true.
Proof.
  destruct c as [[|] [|] [|] [|] [|] [|] [|] [|]]; reflexivity.
Qed.

(* ------------------------------------------------------------------------------------------ *)
(* whole bodies (induction on the byte list)                                                   *)
(* ------------------------------------------------------------------------------------------ *)

Lemma tok_body b : forall rest cur ib acc,
  tok_line (escape_body b ++ rest) cur true false ib acc =
  tok_line rest (rev (escape_body b) ++ cur) true false ib acc.
Proof.
  induction b as [|c b IH]; intros rest cur ib acc; [reflexivity|].
  unfold escape_body in *. cbn [flat_map].
  rewrite <- app_assoc, tok_unit, IH, rev_app_distr, <- app_assoc. reflexivity.
Qed.

Lemma parse_body b : parse_str_body (escape_body b ++ [dquote]) = Some b.
Proof.
  induction b as [|c b IH]; [reflexivity|].
  unfold escape_body in *. cbn [flat_map]. rewrite <- app_assoc.
  destruct (flat_map esc_byte b ++ [dquote]) as [|x t] eqn:E.
  - exfalso. eapply app_cons_not_nil. symmetry. exact E.
  - rewrite parse_unit, IH. reflexivity.
Qed.

Lemma body_no_newline b : forallb (fun x => negb (Ascii.eqb x (chr 10))) (escape_body b) = true.
Proof.
  induction b as [|c b IH]; [reflexivity|].
  unfold escape_body in *. cbn [flat_map]. rewrite forallb_app, unit_no_newline, IH. reflexivity.
Qed.

(* ------------------------------------------------------------------------------------------ *)
(* the literal as one token                                                                    *)
(* ------------------------------------------------------------------------------------------ *)

(* From any token boundary (nothing pending, outside a string), the literal is consumed as one
   unit: afterwards the tokeniser is outside the string and the pending token is the literal. *)
Lemma tok_literal b : forall rest ib acc,
  tok_line (escape_list b ++ rest) [] false false ib acc =
  tok_line rest (rev (escape_list b)) false false ib acc.
Proof.
  intros rest ib acc. unfold escape_list.
  change ((dquote :: escape_body b ++ [dquote]) ++ rest)
    with (dquote :: (escape_body b ++ [dquote]) ++ rest).
  rewrite <- app_assoc.
  cbn [tok_line]. change (is_space dquote) with false. change (Ascii.eqb dquote """") with true.
  cbn iota. rewrite tok_body. cbn [app tok_line].
  change (Ascii.eqb dquote "\") with false. change (Ascii.eqb dquote """") with true. cbn iota.
  f_equal. cbn [rev]. rewrite rev_app_distr. reflexivity.
Qed.

Lemma escape_str_first b : exists r, escape_str b = String dquote r.
Proof. unfold escape_str, escape_list. cbn. eauto. Qed.

(* the literal is not one of the words the tokeniser / byte-argument parser treat specially *)
Lemma escape_str_not_kw b :
  String.eqb (escape_str b) "base64" = false /\ String.eqb (escape_str b) "b64" = false /\
  String.eqb (escape_str b) "base32" = false /\ String.eqb (escape_str b) "b32" = false.
Proof. destruct (escape_str_first b) as [r ->]. repeat split; reflexivity. Qed.

Lemma parse_string_literal_escape b : parse_string_literal (escape_str b) = Some b.
Proof.
  unfold parse_string_literal, escape_str.
  rewrite list_ascii_of_string_of_list_ascii. unfold escape_list.
  change (Ascii.eqb dquote """") with true. cbn iota. apply parse_body.
Qed.

(* a token that starts with a double quote is none of the other spellings of a byte constant *)
Lemma paren_body_quote p r : paren_body (String "b" p) (String dquote r) = None.
Proof. unfold paren_body, starts_with. cbn [append String.prefix]. reflexivity. Qed.

Lemma decode_hex0x_quote r : decode_hex0x (String dquote r) = None.
Proof. unfold decode_hex0x. cbn [list_ascii_of_string]. destruct (list_ascii_of_string r); reflexivity. Qed.

(* the literal read as the argument of byte / pushbytes *)
Lemma parse_bytes_arg_escape b rest :
  parse_bytes_arg (escape_str b :: rest) = Some (b, rest).
Proof.
  unfold parse_bytes_arg.
  destruct (escape_str_not_kw b) as (E1 & E2 & E3 & E4). rewrite E1, E2, E3, E4. cbn [orb].
  pose proof (parse_string_literal_escape b) as P.
  destruct (escape_str_first b) as [r E]. rewrite E in *.
  rewrite !paren_body_quote, decode_hex0x_quote, P. reflexivity.
Qed.

(* ------------------------------------------------------------------------------------------ *)
(* whole lines                                                                                 *)
(* ------------------------------------------------------------------------------------------ *)

Definition byte_line (b : bytes) : string := ("byte " ++ escape_str b)%string.

Lemma list_of_append a b :
  list_ascii_of_string (a ++ b)%string = list_ascii_of_string a ++ list_ascii_of_string b.
Proof. induction a as [|c a IH]; cbn; [reflexivity | now rewrite IH]. Qed.

Lemma list_of_escape_str b : list_ascii_of_string (escape_str b) = escape_list b.
Proof. unfold escape_str. apply list_ascii_of_string_of_list_ascii. Qed.

(* after the op word [byte] and one blank the tokeniser is at a token boundary *)
Lemma tok_byte_prefix rest acc :
  tok_line (list_ascii_of_string "byte " ++ rest) [] false false false acc =
  tok_line rest [] false false false ("byte" :: acc).
Proof. reflexivity. Qed.

(* the line `byte <literal>` followed by anything *)
Lemma tok_byte_literal b rest acc :
  tok_line (list_ascii_of_string (byte_line b) ++ rest) [] false false false acc =
  tok_line rest (rev (escape_list b)) false false false ("byte" :: acc).
Proof.
  unfold byte_line. rewrite list_of_append, <- app_assoc, tok_byte_prefix, list_of_escape_str.
  apply tok_literal.
Qed.

Lemma flush_literal b : str_of (rev (escape_list b)) = escape_str b.
Proof. apply str_of_rev. Qed.

Lemma escape_list_nonempty b : exists x l, rev (escape_list b) = x :: l.
Proof.
  unfold escape_list. cbn [rev]. rewrite rev_app_distr. cbn. eauto.
Qed.

(* (1) the literal alone on its line *)
Lemma escape_tokens b : tokens_of_line (byte_line b) = ["byte"; escape_str b].
Proof.
  unfold tokens_of_line.
  rewrite <- (app_nil_r (list_ascii_of_string (byte_line b))), tok_byte_literal.
  cbn [tok_line]. destruct (escape_list_nonempty b) as (x & l & E).
  rewrite <- flush_literal, E. reflexivity.
Qed.

(* what the tokeniser does after a finished, pending token [x :: cur] *)
Lemma tok_pending_comment x cur cmt acc :
  String.eqb (str_of (x :: cur)) "base64" = false -> String.eqb (str_of (x :: cur)) "b64" = false ->
  tok_line (" "%char :: "/"%char :: "/"%char :: cmt) (x :: cur) false false false acc =
  rev (str_of (x :: cur) :: acc).
Proof.
  intros E1 E2. cbn [tok_line]. change (is_space " ") with true. cbn iota.
  rewrite E1, E2. reflexivity.
Qed.

Lemma tok_pending_semicolon x cur more acc :
  tok_line (";"%char :: more) (x :: cur) false false false acc =
  tok_line more [] false false false (";" :: str_of (x :: cur) :: acc).
Proof. reflexivity. Qed.

(* (2) with a trailing comment, whatever the comment contains *)
Lemma escape_tokens_comment b (cmt : string) :
  tokens_of_line (byte_line b ++ " //" ++ cmt)%string = ["byte"; escape_str b].
Proof.
  unfold tokens_of_line. rewrite list_of_append, tok_byte_literal.
  destruct (escape_str_not_kw b) as (E1 & E2 & _). rewrite <- flush_literal in E1, E2.
  destruct (escape_list_nonempty b) as (x & l & E).
  cbn [append list_ascii_of_string]. rewrite E in *.
  rewrite tok_pending_comment by assumption. rewrite <- E, flush_literal. reflexivity.
Qed.

(* (3) followed by a statement separator and any further text on the same line *)
Lemma escape_tokens_semicolon b (more : string) :
  tokens_of_line (byte_line b ++ ";" ++ more)%string = ["byte"; escape_str b; ";"] ++ tokens_of_line more.
Proof.
  unfold tokens_of_line. rewrite list_of_append, tok_byte_literal.
  destruct (escape_list_nonempty b) as (x & l & E).
  cbn [append list_ascii_of_string]. rewrite E.
  rewrite tok_pending_semicolon, <- E, flush_literal, tok_line_acc. reflexivity.
Qed.

(* (4) preceded by another statement on the same line: from ANY token boundary.  A boundary
   state is what the tokeniser is in after a `;` (or at the start of a line). *)
Lemma escape_tokens_after_boundary b acc :
  tok_line (list_ascii_of_string (byte_line b)) [] false false false acc =
  rev acc ++ ["byte"; escape_str b].
Proof.
  rewrite <- (app_nil_r (list_ascii_of_string (byte_line b))), tok_byte_literal.
  cbn [tok_line]. destruct (escape_list_nonempty b) as (x & l & E).
  rewrite <- flush_literal, E. cbn [rev]. now rewrite <- !app_assoc.
Qed.

(* ------------------------------------------------------------------------------------------ *)
(* statement level: the assembler's reading of the line is `byte b`                            *)
(* ------------------------------------------------------------------------------------------ *)

Definition push_bytes (b : bytes) : option (option stmt) := Some (Some (SInstr (mkP O_byte [IBytes b]))).

Lemma parse_opc_byte : parse_opc "byte" = Some O_byte.
Proof. vm_compute. reflexivity. Qed.

Lemma parse_stmt_byte_escape msel b :
  parse_stmt msel ["byte"; escape_str b] = push_bytes b.
Proof.
  unfold parse_stmt. change (String.eqb "byte" "#pragma") with false. cbn iota.
  change (ends_with_colon "byte") with (@None string). cbn iota.
  rewrite parse_opc_byte. cbn iota. rewrite parse_bytes_arg_escape. reflexivity.
Qed.

Lemma escape_roundtrip_stmt msel b :
  parse_stmt msel (tokens_of_line (byte_line b)) = push_bytes b.
Proof. rewrite escape_tokens. apply parse_stmt_byte_escape. Qed.

Lemma escape_roundtrip_stmt_comment msel b cmt :
  parse_stmt msel (tokens_of_line (byte_line b ++ " //" ++ cmt)%string) = push_bytes b.
Proof. rewrite escape_tokens_comment. apply parse_stmt_byte_escape. Qed.

(* ------------------------------------------------------------------------------------------ *)
(* program level: the literal's line inside a program text                                     *)
(* ------------------------------------------------------------------------------------------ *)

Definition no_nl (l : list ascii) : bool := forallb (fun x => negb (Ascii.eqb x (chr 10))) l.

Lemma split_lines_line l : forall rest cur,
  no_nl l = true ->
  split_lines (l ++ chr 10 :: rest) cur = str_of (rev l ++ cur) :: split_lines rest [].
Proof.
  induction l as [|c l IH]; intros rest cur H.
  - cbn [app split_lines]. change (Ascii.eqb (chr 10) (chr 10)) with true. reflexivity.
  - unfold no_nl in H. cbn [forallb] in H. apply andb_true_iff in H as [Hc Hl].
    cbn [app split_lines]. apply negb_true_iff in Hc. rewrite Hc.
    rewrite IH by assumption. cbn [rev]. now rewrite <- app_assoc.
Qed.

Lemma split_lines_last l : forall cur,
  no_nl l = true -> split_lines l cur = [str_of (rev l ++ cur)].
Proof.
  induction l as [|c l IH]; intros cur H; [reflexivity|].
  unfold no_nl in H. cbn [forallb] in H. apply andb_true_iff in H as [Hc Hl].
  cbn [split_lines]. apply negb_true_iff in Hc. rewrite Hc.
  rewrite IH by assumption. cbn [rev]. now rewrite <- app_assoc.
Qed.

Lemma byte_line_no_nl b : no_nl (list_ascii_of_string (byte_line b)) = true.
Proof.
  unfold byte_line, no_nl. rewrite list_of_append, list_of_escape_str, forallb_app.
  unfold escape_list. cbn [forallb]. rewrite forallb_app.
  fold (no_nl (escape_body b)). unfold no_nl. rewrite body_no_newline. reflexivity.
Qed.

Definition nl : string := String (chr 10) "".

(* A program text whose line k is `byte <literal>`: the statements are those of the text
   before, then `byte b`, then those of the text after — the literal neither swallows nor
   spills into neighbouring lines. *)
Lemma split_lines_app_line (pre : list ascii) : forall l rest cur,
  no_nl l = true ->
  split_lines (pre ++ chr 10 :: l ++ chr 10 :: rest) cur =
  split_lines pre cur ++ str_of (rev l) :: split_lines rest [].
Proof.
  induction pre as [|c pre IH]; intros l rest cur H.
  - cbn [app split_lines]. change (Ascii.eqb (chr 10) (chr 10)) with true. cbn iota.
    rewrite split_lines_line by assumption. now rewrite app_nil_r.
  - cbn [app split_lines]. destruct (Ascii.eqb c (chr 10)).
    + rewrite IH by assumption. reflexivity.
    + apply IH. assumption.
Qed.

Lemma parse_stmts_app msel a : forall b,
  parse_stmts msel (a ++ b) =
  match parse_stmts msel a, parse_stmts msel b with
  | Some x, Some y => Some (x ++ y)
  | _, _ => None
  end.
Proof.
  induction a as [|ts a IH]; intros b.
  - cbn. destruct (parse_stmts msel b); reflexivity.
  - cbn [app parse_stmts]. rewrite IH.
    destruct (parse_stmt msel ts) as [[s|]|]; destruct (parse_stmts msel a); destruct (parse_stmts msel b); reflexivity.
Qed.

Lemma string_of_list_of s : string_of_list_ascii (list_ascii_of_string s) = s.
Proof. apply string_of_list_ascii_of_string. Qed.

Lemma split_semis_two (a b : string) :
  String.eqb a ";" = false -> String.eqb b ";" = false -> split_semis [a; b] [] = [[a; b]].
Proof. intros Ha Hb. cbn. rewrite Ha, Hb. reflexivity. Qed.

Lemma escape_str_not_semi b : String.eqb (escape_str b) ";" = false.
Proof. destruct (escape_str_first b) as [r ->]. reflexivity. Qed.

Lemma program_with_literal msel (pre post : string) b :
  statements_of_text msel (pre ++ nl ++ byte_line b ++ nl ++ post)%string =
  match statements_of_text msel pre, statements_of_text msel post with
  | Some x, Some y => Some (x ++ SInstr (mkP O_byte [IBytes b]) :: y)
  | _, _ => None
  end.
Proof.
  unfold statements_of_text.
  rewrite !list_of_append. cbn [nl list_ascii_of_string app].
  rewrite split_lines_app_line by apply byte_line_no_nl.
  rewrite str_of_rev, string_of_list_of.
  rewrite flat_map_app. cbn [flat_map]. rewrite escape_tokens.
  rewrite split_semis_two by (reflexivity || apply escape_str_not_semi).
  rewrite parse_stmts_app. cbn [app parse_stmts].
  rewrite parse_stmt_byte_escape. unfold push_bytes.
  destruct (parse_stmts msel (flat_map _ (split_lines (list_ascii_of_string pre) []))); [|reflexivity].
  destruct (parse_stmts msel (flat_map _ (split_lines (list_ascii_of_string post) []))); reflexivity.
Qed.

(* non-vacuity / sanity: a string full of every hazard *)
Example escape_example :
  tokens_of_line (byte_line (list_ascii_of_string "a""b\c // ; x")) =
    ["byte"; """a\""b\\c // ; x"""] /\
  parse_string_literal """a\""b\\c // ; x""" = Some (list_ascii_of_string "a""b\c // ; x").
Proof. split; reflexivity. Qed.
