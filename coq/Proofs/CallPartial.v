(* Proofs/CallPartial.v — C02: (a) the bridge between the straight-line semantics [Comp.SpillSem] and
   the reference machine [AVM.Machine.step]: every step of [srun] that is not the abstract call is a
   machine step; (b) [call_correct_partial]: on the machine, a call of a routine compiled with the
   scratch convention whose body is straight-line code returns the body's value on top of the caller's
   operands, the arguments are gone, parameter i was bound to argument i. *)
From Coq Require Import String.
From Coq Require Import Arith NArith Bool Lia List.
From PV Require Import Base.Bytes AVM.Syntax AVM.Ops AVM.Machine Comp.Passes Comp.Compile
  Comp.SpillSem Proofs.SpillProof Proofs.PrologueProof.
Import ListNotations.
Notation length := List.length.

(* ---- the machine's scratch space as a function ---- *)
Definition sc_of (st : mstate) : scratch := fun n => scratch_get (s_scratch st) n.

Lemma alookup_aremove_other {B} (k i : N) (l : list (N * B)) : N.eqb k i = false ->
  alookup N.eqb k (aremove N.eqb i l) = alookup N.eqb k l.
Proof.
  intros Hk. induction l as [|[k' v] l IH]; [reflexivity|].
  cbn [aremove alookup]. destruct (N.eqb_spec i k') as [->|Hne].
  - rewrite Hk. exact IH.
  - cbn [alookup]. rewrite IH. reflexivity.
Qed.

Lemma sc_of_set st i v n : sc_of (set_scratch st i v) n = supd (sc_of st) i v n.
Proof.
  unfold sc_of, set_scratch, scratch_get, supd, aset. cbn [s_scratch alookup].
  destruct (N.eqb n i) eqn:E; [reflexivity|]. rewrite alookup_aremove_other by exact E. reflexivity.
Qed.

Section Mach.
Variable cx : ctx.
Variable p : program.

(* n machine steps, all of them [Running] *)
Fixpoint msteps (n : nat) (m : mach) : option mach :=
  match n with
  | O => Some m
  | S k => match step cx p m with Running m' => msteps k m' | Done _ _ => None end
  end.

Lemma msteps_add a b m :
  msteps (a + b) m = match msteps a m with Some m' => msteps b m' | None => None end.
Proof.
  revert m; induction a as [|a IH]; intros m; cbn [Nat.add msteps]; [reflexivity|].
  destruct (step cx p m); auto.
Qed.

(* a straight-line segment: every instruction is executed by [exec_op] (no control flow) *)
Fixpoint mrun (seg : list pinstr) (stk : list value) (st : mstate) : option (list value * mstate) :=
  match seg with
  | [] => Some (stk, st)
  | i :: t =>
      if (STACK_MAX <? length stk)%nat then None else
      match exec_op cx (p_op i) (p_imms i) stk st with
      | OOk stk' st' => mrun t stk' st'
      | _ => None
      end
  end.

Lemma mrun_app s1 s2 stk st :
  mrun (s1 ++ s2) stk st = match mrun s1 stk st with Some (stk', st') => mrun s2 stk' st' | None => None end.
Proof.
  revert stk st; induction s1 as [|i s1 IH]; intros stk st; cbn [app mrun]; [reflexivity|].
  destruct (STACK_MAX <? length stk)%nat; [reflexivity|].
  destruct (exec_op cx (p_op i) (p_imms i) stk st); auto.
Qed.

Definition seg_at (pc : nat) (seg : list pinstr) : Prop :=
  forall j i, nth_error seg j = Some i -> nth_error (pr_code p) (pc + j) = Some i.

Lemma seg_at_tail pc i t : seg_at pc (i :: t) -> seg_at (S pc) t.
Proof. intros H j x Hx. specialize (H (S j) x Hx). rewrite Nat.add_succ_r in H. exact H. Qed.

Lemma seg_at_app_r pc s1 s2 : seg_at pc (s1 ++ s2) -> seg_at (pc + length s1) s2.
Proof.
  intros H j x Hx. rewrite <- Nat.add_assoc. apply H.
  rewrite nth_error_app2 by lia. replace (length s1 + j - length s1)%nat with j by lia. exact Hx.
Qed.

Lemma mrun_steps seg : forall pc stk st calls fcs intc bytec stk' st',
  seg_at pc seg -> mrun seg stk st = Some (stk', st') ->
  msteps (length seg) (mkM pc stk calls fcs intc bytec st)
  = Some (mkM (pc + length seg) stk' calls (match seg with [] => fcs | _ => false end) intc bytec st').
Proof.
  induction seg as [|i t IH]; intros pc stk st calls fcs intc bytec stk' st' Hseg Hrun.
  - cbn [mrun] in Hrun. injection Hrun as <- <-. cbn [length msteps]. rewrite Nat.add_0_r. reflexivity.
  - cbn [mrun] in Hrun. cbn [length msteps].
    pose proof (Hseg 0%nat i eq_refl) as Hi. rewrite Nat.add_0_r in Hi.
    unfold step. cbn [m_pc]. rewrite Hi. unfold height. cbn [m_stack m_st].
    destruct (STACK_MAX <? length stk)%nat; [discriminate|].
    destruct (exec_op cx (p_op i) (p_imms i) stk st) as [stk1 st1| | |]; try discriminate.
    cbn [m_calls m_intc m_bytec].
    rewrite (IH (S pc) stk1 st1 calls false intc bytec stk' st' (seg_at_tail pc i t Hseg) Hrun).
    replace (S pc + length t)%nat with (pc + S (length t))%nat by lia.
    destruct t; reflexivity.
Qed.

(* ---------------------------------------------------------------------------------------- *)
(* (a) bridge: a non-call step of SpillSem is a machine [exec_op] step on the same stack, with  *)
(*     the same scratch contents                                                              *)
(* ---------------------------------------------------------------------------------------- *)
Lemma sstep_is_exec_op callee na (o : opc) (ns : list N) stk (st : mstate) stk' m' :
  o <> O_callsub ->
  sstep callee na (COp (mkI o (map AInt ns))) stk (sc_of st) = Some (stk', m') ->
  exists st', exec_op cx o (map IInt ns) stk st = OOk stk' st' /\ forall n, sc_of st' n = m' n.
Proof.
  intros Hno H.
  assert (Himm : imms_to_args (map IInt ns) = map AInt ns).
  { clear. induction ns as [|n ns IH]; cbn [map imms_to_args]; [reflexivity|]. rewrite IH. reflexivity. }
  destruct o; try (exfalso; apply Hno; reflexivity);
    try (cbn [sstep i_op i_args] in H; unfold exec_op; rewrite Himm;
         destruct (exec_pure _ (map AInt ns) stk) as [s| |]; try discriminate;
         injection H as <- <-; exists st; split; [reflexivity|intros n; reflexivity]).
  - (* load *)
    cbn [sstep i_op i_args] in H. destruct ns as [|n [|? ?]]; try discriminate. cbn [map] in *.
    change (exec_op cx O_load [IInt n] stk st)
      with (if (n <? 256)%N then OOk (scratch_get (s_scratch st) n :: stk) st else OFail).
    destruct (n <? 256)%N; [|discriminate]. injection H as <- <-.
    exists st. split; [reflexivity|intros k; reflexivity].
  - (* store *)
    cbn [sstep i_op i_args] in H. destruct ns as [|n [|? ?]]; try discriminate;
      destruct stk as [|v r]; try discriminate. cbn [map] in *.
    change (exec_op cx O_store [IInt n] (v :: r) st)
      with (if (n <? 256)%N then OOk r (set_scratch st n v) else OFail).
    destruct (n <? 256)%N; [|discriminate]. injection H as <- <-.
    exists (set_scratch st n v). split; [reflexivity|]. intros k. apply sc_of_set.
Qed.

(* ---------------------------------------------------------------------------------------- *)
(* (b) the scratch prologue on the machine                                                    *)
(* ---------------------------------------------------------------------------------------- *)
Definition mbind (rs : list N) (vs : list value) (st : mstate) : mstate :=
  fold_left (fun acc sv => set_scratch acc (fst sv) (snd sv)) (combine rs vs) st.

Lemma bind_slots_ext rs : forall vs m1 m2, (forall n, m1 n = m2 n) ->
  forall n, bind_slots rs vs m1 n = bind_slots rs vs m2 n.
Proof.
  induction rs as [|s rs IH]; intros [|v vs] m1 m2 H n; try apply H.
  unfold bind_slots in *. cbn [combine fold_left fst snd]. apply IH.
  intros k. unfold supd. destruct (N.eqb k s); [reflexivity|apply H].
Qed.

Lemma sc_of_mbind rs : forall vs st n, sc_of (mbind rs vs st) n = bind_slots rs vs (sc_of st) n.
Proof.
  induction rs as [|s rs IH]; intros [|v vs] st n; try reflexivity.
  unfold mbind, bind_slots in *. cbn [combine fold_left fst snd]. rewrite IH.
  apply bind_slots_ext. intros k. apply sc_of_set.
Qed.

Definition store_instr (s : N) : pinstr := mkP O_store [IInt s].

Lemma mrun_stores rs : Forall slot_ok rs -> forall vs X st,
  length vs = length rs -> (length (vs ++ X) <= STACK_MAX)%nat ->
  mrun (map store_instr rs) (vs ++ X) st = Some (X, mbind rs vs st).
Proof.
  induction 1 as [|s t Hs _ IH]; intros [|v vs] X st Hl Hh; try discriminate; [reflexivity|].
  change (map store_instr (s :: t)) with (mkP O_store [IInt s] :: map store_instr t).
  cbn [mrun app].
  replace (STACK_MAX <? length (v :: vs ++ X))%nat with false by (symmetry; apply Nat.ltb_ge; exact Hh).
  cbn [p_op p_imms].
  change (exec_op cx O_store [IInt s] (v :: vs ++ X) st)
    with (if (s <? 256)%N then OOk (vs ++ X) (set_scratch st s v) else OFail).
  replace (s <? 256)%N with true by (symmetry; apply N.ltb_lt; exact Hs).
  rewrite IH; [reflexivity|cbn [length] in Hl; lia|cbn [app length] in Hh; lia].
Qed.

(* the state after the prologue has parameter i bound to argument i, other slots untouched *)
Lemma mbind_params slots args st : NoDup slots -> length args = length slots ->
  (forall i s v, nth_error slots i = Some s -> nth_error args i = Some v ->
     sc_of (mbind (rev slots) (rev args) st) s = v)
  /\ (forall n, ~ In n slots -> sc_of (mbind (rev slots) (rev args) st) n = sc_of st n).
Proof.
  intros Hnd Hl. split.
  - intros i s v Hi Hv. rewrite sc_of_mbind. apply bind_slots_in; [apply NoDup_rev; exact Hnd|].
    rewrite combine_rev by (symmetry; exact Hl). apply -> in_rev. eapply nth_error_combine; eassumption.
  - intros n Hn. rewrite sc_of_mbind. apply bind_slots_other. intro H. apply Hn. apply in_rev. exact H.
Qed.

(* ---------------------------------------------------------------------------------------- *)
(* call_correct_partial                                                                       *)
(* ---------------------------------------------------------------------------------------- *)
(* PARTIAL.  What is proved: on the reference machine, for a routine laid out as the scratch
   convention prescribes — [store slot_(n-1); ...; store slot_0; body; retsub] — whose body is
   straight-line code (every instruction executed by [exec_op]) that leaves one value [result] on the
   stack it started on once its parameters are bound, the call [callsub l] with the arguments on top of
   the caller's operands [Sk] comes back to the instruction after the call with [result :: Sk], the
   call stack unchanged, in exactly 2 + #params + #body steps.
   What is missing for the full property: (1) bodies with control flow (branches, loops, Return in the
   middle) and nested/recursive calls — recursion is covered by [spill_frame_same_type] with an
   ABSTRACT callee, not composed with this theorem; (2) the frame-pointer convention end to end (the
   pieces are [callsub_proto_steps], [prologue_fp], [retsub_fp*]); (3) the link from the source
   semantics ([denote] of ECall) to [result] — established by the correspondence runs of the check,
   not by a theorem. *)
Theorem call_correct_partial :
  forall (m : mach) (l : string) (t : nat) (slots : list N) (args Sk : list value)
         (body : list pinstr) (imms : list imm) (result : value) (st2 : mstate),
    nth_error (pr_code p) (m_pc m) = Some (mkP O_callsub [IName l]) ->
    label_pc p l = Some t ->
    seg_at t (map store_instr (rev slots) ++ body) ->
    nth_error (pr_code p) (t + length slots + length body) = Some (mkP O_retsub imms) ->
    m_stack m = rev args ++ Sk -> length args = length slots ->
    Forall slot_ok slots ->
    (height m <= STACK_MAX)%nat -> (S (length Sk) <= STACK_MAX)%nat ->
    mrun body Sk (mbind (rev slots) (rev args) (m_st m)) = Some (result :: Sk, st2) ->
    msteps (2 + length slots + length body) m
    = Some (mkM (S (m_pc m)) (result :: Sk) (m_calls m) false (m_intc m) (m_bytec m) st2).
Proof.
  intros m l t slots args Sk body imms result st2 Hc Hl Hseg Hret Hst Hlen Hs Hh HSk Hbody.
  replace (2 + length slots + length body)%nat with (1 + (length (map store_instr (rev slots) ++ body) + 1))%nat
    by (rewrite app_length, map_length, rev_length; lia).
  rewrite msteps_add. cbn [msteps].
  (* callsub *)
  unfold step at 1. rewrite Hc, (stack_ok_false m Hh). cbn [p_op p_imms].
  change (exec_op cx O_callsub [IName l] (m_stack m) (m_st m)) with ONot. cbn iota. rewrite Hl.
  (* prologue ++ body *)
  rewrite msteps_add.
  assert (Hrun : mrun (map store_instr (rev slots) ++ body) (m_stack m) (m_st m) = Some (result :: Sk, st2)).
  { rewrite mrun_app, Hst, mrun_stores.
    - exact Hbody.
    - apply Forall_forall. intros x Hx. apply in_rev in Hx. exact (proj1 (Forall_forall slot_ok slots) Hs x Hx).
    - rewrite !rev_length. exact Hlen.
    - unfold height in Hh. rewrite Hst in Hh. exact Hh. }
  rewrite (mrun_steps _ t (m_stack m) (m_st m) _ true (m_intc m) (m_bytec m) _ _ Hseg Hrun).
  (* retsub *)
  cbn [msteps]. unfold step. cbn [m_pc].
  replace (t + length (map store_instr (rev slots) ++ body))%nat with (t + length slots + length body)%nat
    by (rewrite app_length, map_length, rev_length; lia).
  rewrite Hret. unfold height. cbn [m_stack].
  replace (STACK_MAX <? length (result :: Sk))%nat with false by (symmetry; apply Nat.ltb_ge; exact HSk).
  cbn [p_op p_imms m_st].
  change (exec_op cx O_retsub imms (result :: Sk) st2) with ONot. cbn iota. cbn [m_calls f_proto f_ret m_intc m_bytec m_st].
  reflexivity.
Qed.

(* the same, with the body's behaviour given as a function of the argument values: whenever the body
   computes [f args] from any state in which parameter i holds argument i, the call returns [f args] *)
Corollary call_correct_partial_fun :
  forall (f : list value -> value)
         (m : mach) (l : string) (t : nat) (slots : list N) (args Sk : list value)
         (body : list pinstr) (imms : list imm),
    nth_error (pr_code p) (m_pc m) = Some (mkP O_callsub [IName l]) ->
    label_pc p l = Some t ->
    seg_at t (map store_instr (rev slots) ++ body) ->
    nth_error (pr_code p) (t + length slots + length body) = Some (mkP O_retsub imms) ->
    m_stack m = rev args ++ Sk -> length args = length slots ->
    NoDup slots -> Forall slot_ok slots ->
    (height m <= STACK_MAX)%nat -> (S (length Sk) <= STACK_MAX)%nat ->
    (forall st1,
        (forall i s v, nth_error slots i = Some s -> nth_error args i = Some v -> sc_of st1 s = v) ->
        exists st2, mrun body Sk st1 = Some (f args :: Sk, st2)) ->
    exists st2,
      msteps (2 + length slots + length body) m
      = Some (mkM (S (m_pc m)) (f args :: Sk) (m_calls m) false (m_intc m) (m_bytec m) st2).
Proof.
  intros f m l t slots args Sk body imms Hc Hl Hseg Hret Hst Hlen Hnd Hs Hh HSk Hbody.
  destruct (Hbody (mbind (rev slots) (rev args) (m_st m))
                  (proj1 (mbind_params slots args (m_st m) Hnd Hlen))) as [st2 H2].
  exists st2. eapply call_correct_partial; eassumption.
Qed.

End Mach.
