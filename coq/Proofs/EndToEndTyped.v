(* Proofs/EndToEndTyped.v — the side condition of the end-to-end theorem holds for every well-typed
   recipe (Src/WellTyped.v, the quantifier of C20: what PyTeal's constructors accept): a loop has type
   none, and no constructor accepts a none-typed expression where [head_loop] descends (first operand,
   condition, returned value), so a well-typed root is never headed by a loop. *)
From Coq Require Import List Arith NArith String Bool Lia.
From PV Require Import Base.Bytes AVM.Syntax AVM.Machine Src.Expr Src.Denote Src.WellTyped
  Comp.Blocks Comp.Lower Comp.Passes Comp.GraphSem Comp.LinearSem Comp.Compile
  Proofs.LowerFrame Proofs.LowerCorrect Proofs.LowerShape Proofs.NormalizeLowered Proofs.FlattenCorrect
  Proofs.EndToEndGlue Proofs.EndToEnd.
Import ListNotations.

Lemma tm_none_r t : types_match TNone t = true -> t = TNone.
Proof. destruct t; cbn; intros H; try discriminate H; reflexivity. Qed.

Lemma args_match_none fty o imms t want res l :
  op_sig fty o imms t = Some (want, res) -> args_match (TNone :: l) want = false.
Proof.
  intros H. destruct want as [|w wr]; [reflexivity|]. cbn [args_match].
  assert (Q : w <> TNone).
  { unfold op_sig in H.
    destruct o; try discriminate H;
      repeat match type of H with
             | match ?x with _ => _ end = _ => destruct x; try discriminate H
             | option_map _ ?x = _ => destruct x; cbn [option_map] in H; try discriminate H
             | (if ?x then _ else _) = _ => destruct x; try discriminate H
             end;
      inversion H; subst; discriminate. }
  destruct w; cbn; try reflexivity. destruct (Q eq_refl).
Qed.

Lemma wt_op_head fty il o imms t a rest :
  type_of a = TNone -> well_typed fty il (EOp o imms t (a :: rest)) = false.
Proof.
  intros Ta. cbn [well_typed]. apply andb_false_iff. right.
  destruct o;
    try (destruct (op_sig fty _ imms t) as [[want res]|] eqn:Es;
         [cbn [map]; rewrite Ta, (args_match_none _ _ _ _ _ _ _ Es); apply andb_false_r|reflexivity]).
  - destruct rest as [|b [|c r]]; rewrite ?Ta; cbn [is_value_ty andb]; apply andb_false_r.
  - destruct rest as [|b [|c r]]; rewrite ?Ta; cbn [is_value_ty andb]; apply andb_false_r.
  - destruct rest as [|b [|c [|d r]]]; rewrite ?Ta; reflexivity.
Qed.

(* a well-typed expression headed by a loop has type none *)
Lemma wt_head_loop_none fty e : forall il,
  well_typed fty il e = true -> head_loop e = true -> type_of e = TNone.
Proof.
  induction e using expr_ind'; intros il W HL; cbn [head_loop] in HL; try discriminate HL; try reflexivity.
  - (* EOp *)
    destruct args as [|a rest]; [discriminate HL|]. inversion H as [|? ? Ha _]; subst.
    assert (Wa : well_typed fty il a = true).
    { cbn [well_typed forallb] in W. apply andb_true_iff in W. destruct W as [W _].
      apply andb_true_iff in W. exact (proj1 W). }
    rewrite (wt_op_head fty il o imms t a rest (Ha il Wa HL)) in W. discriminate W.
  - (* ENary *)
    destruct args as [|a rest]; [discriminate HL|]. inversion H as [|? ? Ha _]; subst.
    cbn [well_typed forallb type_of] in *.
    repeat (apply andb_true_iff in W; destruct W as [W ?]).
    match goal with Hm : types_match (type_of a) t && _ = true |- _ =>
      apply andb_true_iff in Hm; destruct Hm as [Hm _]; rewrite (Ha il W HL) in Hm; exact (tm_none_r _ Hm) end.
  - (* EIf *)
    cbn [well_typed] in W. repeat (apply andb_true_iff in W; destruct W as [W ?]).
    match goal with Hm : types_match (type_of e1) TUint = true |- _ =>
      rewrite (IHe1 il W HL) in Hm; discriminate Hm end.
  - (* ECond *)
    destruct arms as [|[c v] rest]; [discriminate HL|]. inversion H as [|? ? [Hc _] _]; subst. cbn [fst] in Hc.
    cbn [well_typed forallb fst snd] in W. repeat (apply andb_true_iff in W; destruct W as [W ?]).
    match goal with Hm : types_match (type_of c) TUint = true |- _ =>
      rewrite (Hc il W HL) in Hm; discriminate Hm end.
  - (* ECall *) cbn [well_typed] in W. discriminate W.
Qed.

(* the root compile_one hands to the lowering, for a well-typed main routine *)
Theorem wt_root_head_loop fty ast0 :
  well_typed fty false ast0 = true -> head_loop (root_ast ast0) = false.
Proof.
  intros W. unfold root_ast.
  assert (K : forall e, well_typed fty false e = true -> types_match (type_of e) TUint = true -> head_loop e = false).
  { intros e We Te. destruct (head_loop e) eqn:HL; [|reflexivity].
    rewrite (wt_head_loop_none fty e false We HL) in Te. discriminate Te. }
  destruct (has_return ast0) eqn:HR.
  - destruct ast0; cbn [has_return] in HR; try discriminate HR; cbn [head_loop]; try reflexivity.
    + (* EIf *) cbn [well_typed] in W. repeat (apply andb_true_iff in W; destruct W as [W ?]). apply K; assumption.
    + (* ECond *) destruct arms as [|[c v] rest]; [reflexivity|].
      cbn [well_typed forallb fst snd] in W. repeat (apply andb_true_iff in W; destruct W as [W ?]). apply K; assumption.
    + (* EReturn *) destruct v as [x|]; [|reflexivity].
      cbn [well_typed] in W. apply andb_true_iff in W. destruct W as [W1 W2]. apply K; assumption.
    + (* EExit *) cbn [well_typed] in W. apply andb_true_iff in W. destruct W as [W1 W2]. apply K; assumption.
  - destruct (type_of ast0) eqn:T; try reflexivity; cbn [head_loop];
      (destruct (head_loop ast0) eqn:HL; [|reflexivity]);
      rewrite (wt_head_loop_none fty ast0 false W HL) in T; discriminate T.
Qed.

(* the end-to-end theorem for a well-typed main routine: no side condition left *)
Theorem main_end_to_end_well_typed fty o ast0 cr order code :
  well_typed fty false ast0 = true ->
  compile_one o None ast0 = COk cr ->
  sort_blocks (cr_graph cr) (cr_start cr) (cr_end cr) = Some order ->
  flatten_blocks (cr_graph cr) order = Some code ->
  pos_of (cr_graph cr) order (cr_start cr) = 0 /\
  forall env, consistent env (routine_ctx o None) ->
  forall fuel stk st h, halt_of (denote env fuel (root_ast ast0) stk st) = Some h ->
    lstar env code (LAt 0 stk st) h /\
    forall c2, lstar env code (LAt 0 stk st) c2 -> lfinal c2 = true -> c2 = h.
Proof.
  intros W E HS HF.
  exact (routine_end_to_end o None ast0 cr order code eq_refl E (wt_root_head_loop fty ast0 W) HS HF).
Qed.
