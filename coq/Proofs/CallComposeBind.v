(* Proofs/CallComposeBind.v — property C02 (i): what the declaration body of a subroutine does under the
   scratch-slot calling convention, in the source semantics with a call oracle (CallX/Denote.v), i.e. in
   the semantics [call_k]/[denote_k] of Proofs/CallComposeMain.v that the linked code is proved to compute:
     - [decl_body_binds]: entered on the stack [rev args ++ rest], the declaration body pops exactly the
       arguments, stores argument i into the slot of parameter i and runs the user's body on [rest];
     - [param_reads_arg]: in that state parameter i ([EParam i], compiled to [load <slot i>]) evaluates to
       argument i, and every slot that is not a parameter slot of the routine is as before the call. *)
From Coq Require Import List Arith NArith String Bool Lia.
From PV Require Import Base.Bytes AVM.Syntax AVM.Machine Src.Expr
  Comp.Blocks Comp.Lower Comp.Passes Comp.Compile
  CallX.Denote.
Import ListNotations.
Local Open Scope list_scope.

Section Bind.
  Variable o : copts.
  Variable env : denv.

  (* slots := the parameters' slot objects; store the values, LAST parameter first (it is on top) *)
  Fixpoint bind_rev (slots : list N) (vals : list value) (st : mstate) : mstate :=
    match slots, vals with
    | s :: ts, v :: tv => bind_rev ts tv (set_scratch st (e_asg env s) v)
    | _, _ => st
    end.

  Definition store_of (ps : bool * N) : expr := EOp O_store [ASlot (snd ps)] TNone [].

  Lemma denote_store f u v stk st :
    denote env (S f) (EOp O_store [ASlot u] TNone []) (v :: stk) st = DNorm stk (set_scratch st (e_asg env u) v).
  Proof. reflexivity. Qed.

  (* the stores of the prologue, in the order they are emitted, on the values in the order they lie on the stack *)
  Lemma prologue_stores f (ps : list (bool * N)) (vals rest : list value) (tail : list expr) st :
    List.length vals = List.length ps ->
    den_list (denote env (S f)) (map store_of ps ++ tail) (vals ++ rest) st =
    den_list (denote env (S f)) tail rest (bind_rev (map snd ps) vals st).
  Proof.
    revert vals st. induction ps as [|p t IH]; intros vals st Hl.
    - destruct vals; [reflexivity|discriminate Hl].
    - destruct vals as [|v tv]; [discriminate Hl|]. cbn [map app den_list]. unfold store_of at 1.
      rewrite denote_store. cbn [bind map snd bind_rev]. apply IH. cbn [List.length] in Hl. lia.
  Qed.

  Hypothesis Hfp : o_use_fp o = false.

  (* the declaration body = bind the parameters, then the user's body on the rest of the stack *)
  Theorem decl_body_binds r f (args rest : list value) st :
    List.length args = List.length (r_params r) ->
    denote env (S (S f)) (decl_body o r) (rev args ++ rest) st =
    denote env (S f) (r_body r) rest (bind_rev (map snd (rev (r_params r))) (rev args) st).
  Proof.
    intros Hl. unfold decl_body. rewrite Hfp.
    change (denote env (S (S f)) (ESeq ?es) ?s ?t) with (den_list (denote env (S f)) es s t).
    assert (E : map (fun '(_, slot) => EOp O_store [ASlot slot] TNone []) (rev (r_params r)) = map store_of (rev (r_params r))).
    { apply map_ext. intros [b s]. reflexivity. }
    rewrite E, prologue_stores by (rewrite !rev_length; exact Hl).
    cbn [den_list]. destruct (denote env (S f) (r_body r) rest _); reflexivity.
  Qed.

  (* ---- what the bound state contains ---- *)
  Lemma scratch_get_set st i v n :
    scratch_get (s_scratch (set_scratch st i v)) n = if N.eqb n i then v else scratch_get (s_scratch st) n.
  Proof.
    unfold set_scratch, scratch_get, aset. cbn [s_scratch alookup]. destruct (N.eqb n i) eqn:E; [reflexivity|].
    induction (s_scratch st) as [|[k w] l IH]; [reflexivity|]. cbn [aremove].
    destruct (N.eqb_spec i k) as [->|Ne]; [rewrite IH; cbn [alookup]; rewrite E; reflexivity|].
    cbn [alookup]. destruct (N.eqb n k); [reflexivity|exact IH].
  Qed.

  Lemma bind_rev_other slots : forall vals st n, ~ In n (map (e_asg env) slots) ->
    scratch_get (s_scratch (bind_rev slots vals st)) n = scratch_get (s_scratch st) n.
  Proof.
    induction slots as [|s t IH]; intros vals st n Hn; [reflexivity|]. destruct vals as [|v tv]; [reflexivity|].
    cbn [bind_rev]. rewrite IH by (intros H; apply Hn; right; exact H). rewrite scratch_get_set.
    destruct (N.eqb_spec n (e_asg env s)) as [->|Ne]; [exfalso; apply Hn; left; reflexivity|reflexivity].
  Qed.

  Lemma bind_rev_nth slots : forall vals st k s v, NoDup (map (e_asg env) slots) ->
    nth_error slots k = Some s -> nth_error vals k = Some v ->
    scratch_get (s_scratch (bind_rev slots vals st)) (e_asg env s) = v.
  Proof.
    induction slots as [|s0 t IH]; intros vals st k s v ND Hs Hv; [destruct k; discriminate Hs|].
    destruct vals as [|v0 tv]; [destruct k; discriminate Hv|]. cbn [map] in ND. inversion ND as [|? ? Nin ND']; subst.
    destruct k as [|k]; cbn [nth_error] in Hs, Hv.
    - injection Hs as <-. injection Hv as <-. cbn [bind_rev]. rewrite bind_rev_other by exact Nin.
      rewrite scratch_get_set, N.eqb_refl. reflexivity.
    - cbn [bind_rev]. exact (IH tv _ k s v ND' Hs Hv).
  Qed.

  Lemma nth_error_rev {A} (l : list A) k : (k < List.length l)%nat ->
    nth_error (rev l) (List.length l - 1 - k) = nth_error l k.
  Proof.
    intros H. destruct (nth_error l k) as [x|] eqn:E; [|apply nth_error_None in E; lia].
    rewrite (nth_error_nth' (rev l) x) by (rewrite rev_length; lia).
    rewrite rev_nth by lia. replace (List.length l - S (List.length l - 1 - k))%nat with k by lia.
    rewrite (nth_error_nth _ _ x E). reflexivity.
  Qed.

  (* parameter i reads argument i; every other slot is as it was *)
  Theorem param_reads_arg r (args : list value) st i b slot v stk f :
    List.length args = List.length (r_params r) ->
    NoDup (map (e_asg env) (map snd (r_params r))) ->
    nth_error (r_params r) (N.to_nat i) = Some (b, slot) -> nth_error args (N.to_nat i) = Some v ->
    e_param env = param_instr o r ->
    let st1 := bind_rev (map snd (rev (r_params r))) (rev args) st in
    (b = false -> denote env (S f) (EParam i) stk st1 = DNorm (v :: stk) st1) /\
    (forall n, ~ In n (map (e_asg env) (map snd (r_params r))) ->
               scratch_get (s_scratch st1) n = scratch_get (s_scratch st) n).
  Proof.
    intros Hl ND Hp Ha Hpar st1. split.
    - intros Hb. subst b. cbn [denote]. rewrite Hpar. unfold param_instr. rewrite Hp, Hfp. cbn [andb i_op i_args].
      unfold do_op. cbn [call_target slot_access is_load]. f_equal. f_equal. unfold st1.
      assert (Lk : (N.to_nat i < List.length (r_params r))%nat) by (apply nth_error_Some; rewrite Hp; discriminate).
      apply (bind_rev_nth _ _ _ (List.length (r_params r) - 1 - N.to_nat i)).
      + rewrite map_rev, map_rev. apply NoDup_rev. exact ND.
      + rewrite map_rev. rewrite <- (map_length snd (r_params r)). rewrite nth_error_rev by (rewrite map_length; exact Lk).
        rewrite nth_error_map, Hp. reflexivity.
      + rewrite <- Hl. rewrite nth_error_rev by lia. exact Ha.
    - intros n Hn. unfold st1. apply bind_rev_other. rewrite map_rev, map_rev. intros H. apply in_rev in H. exact (Hn H).
  Qed.
End Bind.
