(* Proofs/CallComposeSpill.v — property C02, recursion: code in which some call statements are wrapped
   in straight-line code (what [spill] does: [spill_one] = loads/covers before, stores/pops after a
   re-entrant [callsub]) against the unwrapped code.

   [expand c] is the replacement of component c: [c] itself, or a STRAIGHT-LINE segment (no label, no
   branch, no return/retsub) around a call instruction.  The unwrapped code is run with the oracle
   [wrap orc]: a wrapped call answers with the outcome of running its segment (with the raw oracle
   [orc] for the call inside it) — [seg_orc].  [spill_sim]: that run is, position for position
   ([pos]), the run of the expanded code with the raw oracle.  States are equal, not just equivalent:
   the statement is purely about where the instructions sit. *)
From Coq Require Import List Arith NArith String Bool Lia.
From PV Require Import Base.Bytes AVM.Syntax AVM.Machine Src.Expr
  Comp.Blocks Comp.Lower Comp.Passes Comp.Compile
  CallX.Denote CallX.GraphSem CallX.LinearSem CallX.FlattenCorrect Proofs.CallComposeLink.
Import ListNotations.
Local Open Scope list_scope.

Definition with_call (env : denv) (orc : N -> list value -> mstate -> callres) : denv :=
  mkEnv (e_ctx env) (e_asg env) (e_msel env) (e_subs env) (e_in_sub env) (e_param env) orc.

(* an instruction that only runs through [do_op] and moves to the next position *)
Definition straight (c : comp) : bool :=
  match c with
  | COp i => negb (is_return (i_op i)) && negb (is_retsub (i_op i)) &&
             match jump_of i with None => true | Some _ => false end
  | _ => false
  end.

Definition call_stmt_of (f : N) : comp := COp (mkI O_callsub [ASub f]).

(* the outcome of a straight-line segment, as a call result *)
Definition seg_orc (env : denv) (seg : list comp) (stk : list value) (st : mstate) : callres :=
  match lrun (S (List.length seg)) env seg (LAt 0 stk st) with
  | LEnd s' st' => CRet s' st'
  | LExit v st' => CExit v st'
  | LFail => CFail
  | _ => CNone
  end.

Section Expand.
  (* [wrapper f = Some (pre, post)]: a call of f is replaced by pre ++ [the call] ++ post *)
  Variable wrapper : N -> option (list comp * list comp).

  Definition expand (c : comp) : list comp :=
    match c with
    | COp i =>
        match call_target (i_op i) (i_args i) with
        | Some f => match wrapper f with Some (pre, post) => pre ++ [c] ++ post | None => [c] end
        | None => [c]
        end
    | _ => [c]
    end.

  Definition wrapper_ok : Prop :=
    forall f pre post, wrapper f = Some (pre, post) -> forallb straight pre = true /\ forallb straight post = true.

  (* every replacement is the component itself or a straight-line segment around a call instruction *)
  Definition expand_ok : Prop :=
    forall c, (expand c = [c] /\
               forall i f, c = COp i -> call_target (i_op i) (i_args i) = Some f -> wrapper f = None) \/
              (exists f pre post, c = call_stmt_of f /\ wrapper f = Some (pre, post)) /\ forallb straight (expand c) = true.

  Definition pos (code : list comp) (k : nat) : nat := List.length (flat_map expand (firstn k code)).

  Definition is_wrapped (f : N) : bool := match wrapper f with Some _ => true | None => false end.

  Variable env0 : denv.
  Variable orc : N -> list value -> mstate -> callres.

  Definition envR : denv := with_call env0 orc.

  Definition wrap (f : N) (stk : list value) (st : mstate) : callres :=
    if is_wrapped f then seg_orc envR (expand (call_stmt_of f)) stk st else orc f stk st.

  Definition envW : denv := with_call env0 wrap.

  Hypothesis HW : wrapper_ok.

  Lemma straight_call f : straight (call_stmt_of f) = true.
  Proof. reflexivity. Qed.

  Lemma HE : expand_ok.
  Proof.
    intros c. destruct c as [i|l cm|v]; try (left; split; [reflexivity|intros ? ? Q; discriminate Q]). cbn [expand].
    destruct (call_target (i_op i) (i_args i)) as [f|] eqn:CT;
      [|left; split; [reflexivity|intros i' f' Q; injection Q as <-; rewrite CT; discriminate]].
    destruct (wrapper f) as [[pre post]|] eqn:Wf;
      [|left; split; [reflexivity|intros i' f' Q C'; injection Q as <-; rewrite CT in C'; injection C' as <-; exact Wf]]. right.
    destruct (call_target_inv _ _ _ CT) as [Eo Ea]. destruct i as [o a]. cbn [i_op i_args] in Eo, Ea. subst o a.
    split; [exists f, pre, post; split; [reflexivity|exact Wf]|].
    destruct (HW f pre post Wf) as [S1 S2]. rewrite !forallb_app, S1, S2. reflexivity.
  Qed.

  (* ---- positions ---- *)
  Lemma pos_0 code : pos code 0 = 0.
  Proof. reflexivity. Qed.

  Lemma split_at (code : list comp) pc c : nth_error code pc = Some c ->
    code = firstn pc code ++ c :: skipn (S pc) code.
  Proof.
    revert pc. induction code as [|x t IH]; intros pc H; [destruct pc; discriminate H|].
    destruct pc as [|pc]; cbn [nth_error] in H; [injection H as ->; reflexivity|].
    cbn [firstn skipn app]. f_equal. exact (IH pc H).
  Qed.

  Lemma firstn_S_nth (code : list comp) pc c : nth_error code pc = Some c -> firstn (S pc) code = firstn pc code ++ [c].
  Proof.
    revert pc. induction code as [|x t IH]; intros pc H; [destruct pc; discriminate H|].
    destruct pc as [|pc]; cbn [nth_error] in H; [injection H as ->; reflexivity|].
    cbn [firstn app]. f_equal. exact (IH pc H).
  Qed.

  Lemma pos_S code pc c : nth_error code pc = Some c -> pos code (S pc) = pos code pc + List.length (expand c).
  Proof.
    intros H. unfold pos. rewrite (firstn_S_nth code pc c H), flat_map_app, app_length. cbn [flat_map].
    rewrite app_nil_r. reflexivity.
  Qed.

  Lemma expanded_at code pc c : nth_error code pc = Some c ->
    forall j x, nth_error (expand c) j = Some x -> nth_error (flat_map expand code) (pos code pc + j) = Some x.
  Proof.
    intros H j x Hj. rewrite (split_at code pc c H) at 1. rewrite flat_map_app. cbn [flat_map].
    unfold pos. rewrite nth_error_app2 by lia.
    replace (List.length (flat_map expand (firstn pc code)) + j - List.length (flat_map expand (firstn pc code))) with j by lia.
    rewrite nth_error_app1; [exact Hj|]. apply nth_error_Some. rewrite Hj. discriminate.
  Qed.

  Lemma pos_beyond code pc : nth_error code pc = None -> pos code pc = List.length (flat_map expand code).
  Proof.
    intros H. unfold pos. rewrite firstn_all2; [reflexivity|]. apply nth_error_None. exact H.
  Qed.

  (* ---- labels ---- *)
  Lemma straight_no_label seg l : forallb straight seg = true -> forall cm, ~ In (CLabel l cm) seg.
  Proof.
    intros H cm Hin. rewrite forallb_forall in H. specialize (H _ Hin). discriminate H.
  Qed.

  Lemma expand_label l cm : expand (CLabel l cm) = [CLabel l cm].
  Proof.
    reflexivity.
  Qed.

  Lemma expand_no_label c l : (forall cm, c <> CLabel l cm) -> forall cm, ~ In (CLabel l cm) (expand c).
  Proof.
    intros Hc cm. destruct (HE c) as [[E _]|[_ S]].
    - rewrite E. intros [Q|[]]. exact (Hc cm Q).
    - exact (straight_no_label _ l S cm).
  Qed.

  Lemma find_label_expand l : forall code,
    find_label l (flat_map expand code) = option_map (pos code) (find_label l code).
  Proof.
    induction code as [|c t IH]; [reflexivity|].
    assert (Shift : forall p, pos (c :: t) (S p) = List.length (expand c) + pos t p).
    { intros p. unfold pos. cbn [firstn flat_map]. rewrite app_length. reflexivity. }
    destruct c as [i|l' cm|v].
    - cbn [flat_map find_label].
      rewrite (find_label_app_notin l (expand (COp i)) _ (expand_no_label (COp i) l ltac:(discriminate))), IH.
      destruct (find_label l t) as [p|]; cbn [option_map]; [rewrite Shift; reflexivity|reflexivity].
    - cbn [flat_map]. rewrite expand_label. cbn [app find_label].
      destruct (String.eqb l l') eqn:Q; [reflexivity|]. rewrite IH.
      destruct (find_label l t) as [p|]; cbn [option_map]; [|reflexivity].
      rewrite Shift, expand_label. reflexivity.
    - cbn [flat_map find_label].
      rewrite (find_label_app_notin l (expand (CPragma v)) _ (expand_no_label (CPragma v) l ltac:(discriminate))), IH.
      destruct (find_label l t) as [p|]; cbn [option_map]; [rewrite Shift; reflexivity|reflexivity].
  Qed.

  (* ---- a straight-line segment inside a longer list ---- *)
  Definition embs (b len : nat) (c : lconf) : lconf :=
    match c with
    | LAt j stk st => LAt (b + j) stk st
    | LEnd stk st => LAt (b + len) stk st
    | other => other
    end.

  Lemma straight_step env C seg b : forallb straight seg = true ->
    (forall j x, nth_error seg j = Some x -> nth_error C (b + j) = Some x) ->
    forall j stk st c1, j < List.length seg ->
      lstep env seg (LAt j stk st) = Some c1 ->
      lstep env C (LAt (b + j) stk st) = Some (embs b (List.length seg) c1) /\
      match c1 with LAt j' _ _ => j' = S j | LEnd _ _ => False | _ => True end.
  Proof.
    intros HS HP j stk st c1 Lj S1. cbn [lstep] in *.
    destruct (nth_error seg j) as [x|] eqn:E; [|apply nth_error_None in E; lia].
    rewrite (HP j x E). rewrite forallb_forall in HS. pose proof (HS x (nth_error_In _ _ E)) as Sx.
    destruct x as [i|l cm|v]; try discriminate Sx. injection S1 as <-.
    cbn [straight] in Sx. apply andb_prop in Sx. destruct Sx as [Sx J]. apply andb_prop in Sx. destruct Sx as [R R'].
    apply negb_true_iff in R. apply negb_true_iff in R'.
    unfold lstep_op. rewrite R, R'. destruct (jump_of i); [discriminate J|].
    destruct (do_op env (i_op i) (i_args i) stk st); cbn [embs]; try (split; [reflexivity|exact Logic.I]).
    rewrite Nat.add_succ_r. split; reflexivity.
  Qed.

  Lemma straight_run env C seg b : forallb straight seg = true ->
    (forall j x, nth_error seg j = Some x -> nth_error C (b + j) = Some x) ->
    forall c c', lstar env seg c c' ->
      (match c with LAt j _ _ => j <= List.length seg | _ => True end) ->
      lstar env C (embs b (List.length seg) c) (embs b (List.length seg) c').
  Proof.
    intros HS HP c c' H. induction H as [c|c c1 c' S1 _ IH]; intros Hj; [apply lstar_refl|].
    destruct c as [j stk st| | | | |]; try discriminate S1.
    destruct (Nat.eq_dec j (List.length seg)) as [->|Ne].
    - (* at the end of the segment: the segment's own run ends here *)
      cbn [lstep] in S1. rewrite (proj2 (nth_error_None seg (List.length seg)) (le_n _)) in S1. injection S1 as <-.
      cbn [embs] in *. apply IH. exact Logic.I.
    - assert (Lj : j < List.length seg) by lia.
      destruct (straight_step env C seg b HS HP j stk st c1 Lj S1) as [S2 Sh].
      eapply lstar_step; [exact S2|]. apply IH.
      destruct c1; try exact Logic.I. subst. lia.
  Qed.

  (* ---- the simulation ---- *)
  Definition mapc (code : list comp) (c : lconf) : lconf :=
    match c with LAt pc stk st => LAt (pos code pc) stk st | other => other end.

  Definition not_unsup (c : lconf) : Prop := match c with LUnsup _ => False | _ => True end.

  Lemma goto_expand code l stk st :
    mapc code (goto code l stk st) = goto (flat_map expand code) l stk st.
  Proof. unfold goto. rewrite find_label_expand. destruct (find_label l code); reflexivity. Qed.

  Lemma args_to_imms_W_R o l : args_to_imms envW o l = args_to_imms envR o l.
  Proof.
    induction l as [|a t IH]; [reflexivity|]. cbn [args_to_imms]. rewrite IH.
    destruct a; reflexivity.
  Qed.

  Lemma do_op_W_R o imms stk st : call_target o imms = None \/ (exists f, call_target o imms = Some f /\ is_wrapped f = false) ->
    do_op envW o imms stk st = do_op envR o imms stk st.
  Proof.
    intros [H|(f & H & Wf)]; unfold do_op; rewrite H; [rewrite args_to_imms_W_R; reflexivity|].
    cbn [envW envR with_call e_call]. unfold wrap. rewrite Wf. reflexivity.
  Qed.

  Lemma lrun_seg_outcome seg stk st : forallb straight seg = true ->
    match lrun (S (List.length seg)) envR seg (LAt 0 stk st) with
    | LAt _ _ _ => False
    | _ => True
    end.
  Proof.
    intros HS.
    assert (G : forall n j s t, j + n = S (List.length seg) -> j <= List.length seg ->
              match lrun n envR seg (LAt j s t) with LAt _ _ _ => False | _ => True end).
    { induction n as [|n IH]; intros j s t Hn Hj; [lia|]. cbn [lrun].
      destruct (Nat.eq_dec j (List.length seg)) as [->|Ne].
      - cbn [lstep]. rewrite (proj2 (nth_error_None seg (List.length seg)) (le_n _)).
        destruct n; exact Logic.I.
      - destruct (lstep envR seg (LAt j s t)) as [c1|] eqn:S1;
          [|cbn [lstep] in S1; destruct (nth_error seg j) as [[| |]|]; discriminate S1].
        destruct (straight_step envR seg seg 0 HS (fun _ _ H => H) j s t c1 ltac:(lia) S1) as [_ Sh].
        destruct c1 as [j' s' t'|s' t'|v' t'|s' t'| |o']; try (destruct n; exact Logic.I).
        subst j'. apply IH; lia. }
    apply (G (S (List.length seg)) 0); lia.
  Qed.

  Theorem spill_step code c c1 : lstep envW code c = Some c1 -> not_unsup c1 ->
    lstar envR (flat_map expand code) (mapc code c) (mapc code c1).
  Proof.
    intros S1 NU. destruct c as [pc stk st| | | | |]; try discriminate S1.
    cbn [lstep] in S1. cbn [mapc].
    destruct (nth_error code pc) as [c|] eqn:E.
    2:{ injection S1 as <-. apply lstar_one. cbn [lstep mapc]. rewrite (pos_beyond code pc E).
        rewrite (proj2 (nth_error_None _ _) (le_n _)). reflexivity. }
    destruct (HE c) as [[Ex NW]|[(f & pre & post & Ef & Wf) HS]].
    - (* the component stands as it is *)
      assert (E' : nth_error (flat_map expand code) (pos code pc) = Some c).
      { rewrite <- (Nat.add_0_r (pos code pc)). apply (expanded_at code pc c E 0 c). rewrite Ex. reflexivity. }
      assert (PS : pos code (S pc) = S (pos code pc)).
      { rewrite (pos_S code pc c E), Ex. cbn [List.length]. lia. }
      destruct c as [i|l cm|v].
      + injection S1 as <-. apply lstar_one. cbn [lstep]. rewrite E'. f_equal.
        unfold lstep_op.
        destruct (is_return (i_op i)); [destruct stk; reflexivity|].
        destruct (is_retsub (i_op i)); [reflexivity|].
        assert (D : do_op envW (i_op i) (i_args i) stk st = do_op envR (i_op i) (i_args i) stk st).
        { apply do_op_W_R. destruct (call_target (i_op i) (i_args i)) as [f|] eqn:CT; [right|left; reflexivity].
          exists f. split; [reflexivity|]. unfold is_wrapped. rewrite (NW i f eq_refl CT). reflexivity. }
        destruct (jump_of i) as [[[| |] l]|].
        * rewrite <- goto_expand. reflexivity.
        * destruct stk as [|v s']; [reflexivity|]. destruct (truthy v) as [[|]|]; try reflexivity.
          -- cbn [mapc]. rewrite PS. reflexivity.
          -- rewrite <- goto_expand. reflexivity.
        * destruct stk as [|v s']; [reflexivity|]. destruct (truthy v) as [[|]|]; try reflexivity.
          -- rewrite <- goto_expand. reflexivity.
          -- cbn [mapc]. rewrite PS. reflexivity.
        * rewrite <- D. destruct (do_op envW (i_op i) (i_args i) stk st); try reflexivity.
          cbn [mapc]. rewrite PS. reflexivity.
      + injection S1 as <-. apply lstar_one. cbn [lstep mapc]. rewrite E', PS. reflexivity.
      + injection S1 as <-. apply lstar_one. cbn [lstep mapc]. rewrite E', PS. reflexivity.
    - (* a wrapped call: the oracle's answer is the outcome of the segment, which sits here *)
      subst c. injection S1 as <-.
      pose proof (expanded_at code pc _ E) as Pl.
      pose proof (pos_S code pc _ E) as PS.
      set (seg := expand (call_stmt_of f)) in *.
      unfold lstep_op in *. cbn [call_stmt_of i_op i_args is_return is_retsub jump_of] in *.
      unfold do_op in *. cbn [call_target envW with_call e_call] in *. unfold wrap, is_wrapped in *.
      rewrite Wf in *.
      pose proof (lrun_lstar envR seg (S (List.length seg)) (LAt 0 stk st)) as Run.
      pose proof (lrun_seg_outcome seg stk st HS) as Out.
      pose proof (straight_run envR (flat_map expand code) seg (pos code pc) HS Pl _ _ Run (Nat.le_0_l _)) as Emb.
      cbn [embs] in Emb. rewrite Nat.add_0_r in Emb.
      unfold seg_orc in *. fold seg in NU |- *.
      destruct (lrun (S (List.length seg)) envR seg (LAt 0 stk st)) as [j s' st'|s' st'|v st'|s' st'| |o];
        cbn [of_callres mapc embs] in *; try destruct Out; try destruct NU; try exact Emb.
      rewrite PS. exact Emb.
  Qed.

  Lemma not_unsup_final c : ~ not_unsup c -> forall code, lstep envW code c = None.
  Proof. destruct c; cbn; intros H code; try reflexivity; exfalso; apply H; exact Logic.I. Qed.

  (* the unwrapped code with the wrapping oracle against the expanded code with the raw oracle *)
  Theorem spill_sim code c c' : lstar envW code c c' -> not_unsup c' ->
    lstar envR (flat_map expand code) (mapc code c) (mapc code c').
  Proof.
    induction 1 as [c|c c1 c' S1 H IH]; intros NU; [apply lstar_refl|].
    assert (N1 : not_unsup c1).
    { destruct c1; try exact Logic.I. inversion H as [|? ? ? S2 _]; subst; [exact NU|discriminate S2]. }
    eapply lstar_trans; [exact (spill_step code c c1 S1 N1)|exact (IH NU)].
  Qed.
End Expand.
