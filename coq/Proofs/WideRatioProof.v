(* Proofs/WideRatioProof.v — C16: the op list WideRatio emits computes the exact quotient or fails. *)
From Coq Require Import List NArith Lia Bool.
From PV Require Import Base.Bytes Base.U64 AVM.Syntax AVM.Ops Comp.WideRatio.
Import ListNotations.
Local Open Scope N_scope.

Lemma U64_pos : 0 < U64. Proof. reflexivity. Qed.
Lemma U128_eq : U128 = U64 * U64. Proof. reflexivity. Qed.

Lemma run_pure_app a b s :
  run_pure (a ++ b) s = match run_pure a s with Some s' => run_pure b s' | None => None end.
Proof.
  revert s; induction a as [|i a IH]; intros s; cbn [app run_pure]; [reflexivity|].
  destruct (exec_pure (i_op i) (i_args i) s); auto.
Qed.

(* the mathematical step: multiply a 128-bit value (hi,lo) by a 64-bit factor *)
Definition mul_step (hi lo c : N) : option (N * N) :=
  let P := (hi * U64 + lo) * c in
  if P <? U128 then Some (P / U64, P mod U64) else None.

Ltac stepc :=
  repeat (cbn -[N.ltb N.eqb U64 N.mul N.add N.div N.modulo hi64 lo64 run_pure flat_map];
          try change (Pos.to_nat 2) with 2%nat; try change (Pos.to_nat 1) with 1%nat);
  cbn -[N.ltb N.eqb U64 N.mul N.add N.div N.modulo hi64 lo64 flat_map];
  try change (Pos.to_nat 2) with 2%nat; try change (Pos.to_nat 1) with 1%nat;
  cbn -[N.ltb N.eqb U64 N.mul N.add N.div N.modulo hi64 lo64 flat_map];
  unfold oki, fits64.

Lemma step_ops_compute hi lo c r :
  run_pure (const_code c ++ mul_step_ops) (VI lo :: VI hi :: r) =
  if c <? U64 then
    if hi * c <? U64 then
      if hi * c + hi64 (lo * c) <? U64
      then Some (VI (lo64 (lo * c)) :: VI (hi * c + hi64 (lo * c)) :: r)
      else None
    else None
  else None.
Proof.
  unfold const_code, mul_step_ops, I0, I1.
  stepc.
  destruct (c <? U64); [|reflexivity].
  stepc.
  destruct (hi * c <? U64); [|reflexivity].
  stepc.
  destruct (hi * c + hi64 (lo * c) <? U64); reflexivity.
Qed.

Lemma mul_step_arith hi lo c : hi < U64 -> lo < U64 -> c < U64 ->
  (if hi * c <? U64 then
     if hi * c + hi64 (lo * c) <? U64
     then Some (hi * c + hi64 (lo * c), lo64 (lo * c)) else None
   else None) = mul_step hi lo c.
Proof.
  intros Hh Hl Hc. unfold mul_step, hi64, lo64. rewrite U128_eq.
  set (U := U64) in *. set (P := (hi * U + lo) * c).
  pose proof U64_pos as Up. fold U in Up.
  assert (EP : P = (hi*c + (lo*c)/U)*U + (lo*c) mod U).
  { unfold P. pose proof (N.div_mod (lo*c) U ltac:(lia)) as D. nia. }
  pose proof (N.mod_lt (lo*c) U ltac:(lia)) as Hr.
  assert (Hc1 : hi*c <= hi*c + lo*c/U) by apply N.le_add_r.
  remember (lo*c/U) as q. remember ((lo*c) mod U) as r. remember (hi*c) as a.
  assert (Key : P < U*U <-> a + q < U).
  { rewrite EP. split; intros Hx.
    - destruct (N.lt_ge_cases (a+q) U) as [L|L]; auto. exfalso.
      assert (U*U <= (a+q)*U) by (apply N.mul_le_mono_r; exact L). lia.
    - assert ((a+q)*U <= (U-1)*U) by (apply N.mul_le_mono_r; lia).
      assert ((U-1)*U + U = U*U) by (rewrite N.mul_sub_distr_r; lia). lia. }
  destruct (N.ltb_spec a U) as [H1|H1].
  - destruct (N.ltb_spec (a + q) U) as [H2|H2].
    + destruct (N.ltb_spec P (U*U)) as [H3|H3]; [|apply Key in H2; lia].
      f_equal. f_equal.
      * rewrite EP. rewrite N.div_add_l by lia. rewrite (N.div_small r U) by exact Hr. symmetry; apply N.add_0_r.
      * rewrite EP. rewrite N.add_comm, N.mod_add by lia. symmetry. apply N.mod_small. exact Hr.
    + destruct (N.ltb_spec P (U*U)) as [H3|H3]; [apply Key in H3; lia|reflexivity].
  - destruct (N.ltb_spec P (U*U)) as [H3|H3]; [apply Key in H3; lia|reflexivity].
Qed.

Lemma step_ops_spec hi lo c r : hi < U64 -> lo < U64 -> c < U64 ->
  run_pure (const_code c ++ mul_step_ops) (VI lo :: VI hi :: r) =
  match mul_step hi lo c with
  | Some (h, l) => Some (VI l :: VI h :: r)
  | None => None
  end.
Proof.
  intros Hh Hl Hc. rewrite step_ops_compute.
  apply N.ltb_lt in Hc as Hc'. rewrite Hc'.
  rewrite <- (mul_step_arith hi lo c Hh Hl Hc).
  destruct (hi * c <? U64); [|reflexivity].
  destruct (hi * c + hi64 (lo * c) <? U64); reflexivity.
Qed.

Lemma mul_step_bounds hi lo c h l : mul_step hi lo c = Some (h, l) ->
  h < U64 /\ l < U64 /\ h * U64 + l = (hi * U64 + lo) * c.
Proof.
  unfold mul_step. set (P := (hi * U64 + lo) * c).
  destruct (N.ltb_spec P U128) as [H|H]; [|discriminate].
  intros E; inversion E; subst h l; clear E.
  pose proof U64_pos as Up.
  split; [|split].
  - apply N.div_lt_upper_bound; [lia|]. rewrite U128_eq in H. lia.
  - apply N.mod_lt; lia.
  - pose proof (N.div_mod P U64 ltac:(lia)). lia.
Qed.

(* run the tail of multiplyFactors (factors 3..n) from an accumulated (hi,lo) *)
Fixpoint steps (hi lo : N) (cs : list N) : option (N * N) :=
  match cs with
  | [] => Some (hi, lo)
  | c :: t => match mul_step hi lo c with Some (h, l) => steps h l t | None => None end
  end.

Lemma rest_ops_spec cs : forall hi lo r,
  hi < U64 -> lo < U64 -> Forall (fun c => c < U64) cs ->
  run_pure (flat_map (fun f => f ++ mul_step_ops) (map const_code cs)) (VI lo :: VI hi :: r) =
  match steps hi lo cs with Some (h, l) => Some (VI l :: VI h :: r) | None => None end.
Proof.
  induction cs as [|c cs IH]; intros hi lo r Hh Hl Hall; cbn [map flat_map steps]; [reflexivity|].
  inversion Hall as [|? ? Hc Hcs]; subst.
  rewrite run_pure_app, step_ops_spec by assumption.
  destruct (mul_step hi lo c) as [[h l]|] eqn:E; [|reflexivity].
  apply mul_step_bounds in E as (Bh & Bl & _). apply IH; assumption.
Qed.

Lemma steps_spec cs : forall hi lo, hi < U64 -> lo < U64 ->
  match steps hi lo cs with
  | Some (h, l) => running_ok (hi * U64 + lo) cs = true /\ h < U64 /\ l < U64 /\
                   h * U64 + l = fold_left N.mul cs (hi * U64 + lo)
  | None => running_ok (hi * U64 + lo) cs = false
  end.
Proof.
  induction cs as [|c cs IH]; intros hi lo Hh Hl; cbn [steps running_ok fold_left].
  - auto.
  - destruct (mul_step hi lo c) as [[h l]|] eqn:E.
    + pose proof E as E'. apply mul_step_bounds in E' as (Bh & Bl & Eq).
      specialize (IH h l Bh Bl). rewrite Eq in IH.
      unfold mul_step in E. destruct (N.ltb_spec ((hi * U64 + lo) * c) U128) as [L|L]; [|discriminate].
      cbn [andb]. exact IH.
    + unfold mul_step in E. destruct ((hi * U64 + lo) * c <? U128); [discriminate|reflexivity].
Qed.

(* multiplyFactors on constant factors leaves (hi, lo) of the product, or fails *)
Lemma multiply_factors_spec ns r :
  ns <> [] -> Forall (fun c => c < U64) ns ->
  run_pure (multiply_factors (map const_code ns)) r =
  if running_ok 1 ns then Some (VI (lo64 (prod ns)) :: VI (hi64 (prod ns)) :: r) else None.
Proof.
  intros Hne Hall. pose proof U64_pos as Up.
  destruct ns as [|a [|b cs]]; [congruence| |].
  - (* single factor *)
    inversion Hall as [|? ? Ha _]; subst.
    assert (A1 : a <? U128 = true) by (apply N.ltb_lt; rewrite U128_eq; nia).
    cbn [map multiply_factors running_ok]. unfold prod; cbn [fold_left].
    rewrite ?N.mul_1_l, ?A1.
    cbn [andb]. unfold const_code, I1.
    cbn -[N.ltb U64 hi64 lo64]. unfold oki, fits64.
    apply N.ltb_lt in Ha as Ha'. rewrite Ha'.
    unfold hi64, lo64. rewrite N.div_small, N.mod_small by assumption. reflexivity.
  - inversion Hall as [|? ? Ha Hall']; subst. inversion Hall' as [|? ? Hb Hcs]; subst.
    cbn [map multiply_factors]. unfold const_code at 1 2. cbn [app].
    unfold I1 at 1 2. cbn [run_pure i_op i_args].
    cbn -[N.ltb U64 N.mul hi64 lo64 run_pure flat_map]. unfold oki, fits64.
    apply N.ltb_lt in Ha as Ha'. rewrite Ha'.
    cbn -[N.ltb U64 N.mul hi64 lo64 run_pure flat_map]. unfold oki, fits64.
    apply N.ltb_lt in Hb as Hb'. rewrite Hb'.
    cbn -[N.ltb U64 N.mul hi64 lo64 run_pure flat_map].
    assert (Bh : hi64 (a * b) < U64).
    { unfold hi64. apply N.div_lt_upper_bound; [lia|]. nia. }
    assert (Bl : lo64 (a * b) < U64) by (unfold lo64; apply N.mod_lt; lia).
    assert (Eab : hi64 (a * b) * U64 + lo64 (a * b) = a * b).
    { unfold hi64, lo64. pose proof (N.div_mod (a * b) U64 ltac:(lia)). lia. }
    rewrite rest_ops_spec by assumption.
    pose proof (steps_spec cs _ _ Bh Bl) as S. rewrite Eab in S.
    assert (A1 : a <? U128 = true) by (apply N.ltb_lt; rewrite U128_eq; nia).
    assert (A2 : a * b <? U128 = true) by (apply N.ltb_lt; rewrite U128_eq; nia).
    cbn [running_ok]. rewrite ?N.mul_1_l, ?A1, ?A2.
    cbn [andb]. unfold prod. cbn [fold_left]. rewrite ?N.mul_1_l.
    destruct (steps (hi64 (a * b)) (lo64 (a * b)) cs) as [[h l]|].
    + destruct S as (R & Hh & Hl & Eq). rewrite R. rewrite <- Eq.
      unfold hi64, lo64.
      rewrite N.div_add_l by lia. rewrite (N.div_small l U64) by assumption. rewrite N.add_0_r.
      rewrite N.add_comm, N.mod_add by lia. rewrite N.mod_small by assumption. reflexivity.
    + rewrite S. reflexivity.
Qed.

Lemma combine_spec nhi nlo dhi dlo r :
  nhi < U64 -> nlo < U64 -> dhi < U64 -> dlo < U64 ->
  run_pure combine_ops (VI dlo :: VI dhi :: VI nlo :: VI nhi :: r) =
  let x := nhi * U64 + nlo in
  let y := dhi * U64 + dlo in
  if negb (y =? 0) && (x / y <? U64) then Some (VI (x / y) :: r) else None.
Proof.
  intros. pose proof U64_pos as Up. unfold combine_ops, I0.
  cbn -[N.ltb N.eqb U64 N.mul N.add N.div N.modulo hi64 lo64].
  destruct (dhi * U64 + dlo =? 0); [reflexivity|].
  cbn -[N.ltb N.eqb U64 N.mul N.add N.div N.modulo hi64 lo64].
  set (q := (nhi * U64 + nlo) / (dhi * U64 + dlo)).
  unfold hi64, lo64.
  destruct (N.ltb_spec q U64) as [L|L].
  - rewrite (N.div_small q U64) by assumption. cbn -[N.modulo U64].
    rewrite N.mod_small by assumption. reflexivity.
  - assert (q / U64 <> 0).
    { intros E. apply N.div_small_iff in E; lia. }
    destruct (N.eqb_spec (q / U64) 0) as [E|E]; [contradiction|]. reflexivity.
Qed.

Lemma running_ok_lt l : forall acc, running_ok acc l = true -> acc < U128 ->
  fold_left N.mul l acc < U128.
Proof.
  induction l as [|x t IH]; intros acc R Hacc; cbn [fold_left running_ok] in *; [exact Hacc|].
  apply andb_true_iff in R as [R1 R2]. apply N.ltb_lt in R1. apply IH; assumption.
Qed.

Lemma split128 p : p < U128 -> hi64 p < U64 /\ lo64 p < U64 /\ hi64 p * U64 + lo64 p = p.
Proof.
  intros H. pose proof U64_pos as Up. unfold hi64, lo64. split; [|split].
  - apply N.div_lt_upper_bound; [lia|]. rewrite U128_eq in H. lia.
  - apply N.mod_lt; lia.
  - pose proof (N.div_mod p U64 ltac:(lia)). lia.
Qed.

Theorem wide_ratio_exact ns ds r :
  ns <> [] -> ds <> [] ->
  Forall (fun c => c < U64) ns -> Forall (fun c => c < U64) ds ->
  run_pure (wide_ratio_ops (map const_code ns) (map const_code ds)) r =
  match wide_ratio_spec ns ds with
  | Some q => Some (VI q :: r)
  | None => None
  end.
Proof.
  intros Hn Hd Fn Fd. unfold wide_ratio_ops, wide_ratio_spec.
  rewrite run_pure_app, multiply_factors_spec by assumption.
  destruct (running_ok 1 ns) eqn:Rn; cbn [andb]; [|reflexivity].
  rewrite run_pure_app, multiply_factors_spec by assumption.
  destruct (running_ok 1 ds) eqn:Rd; cbn [andb]; [|reflexivity].
  assert (Pn : prod ns < U128) by (apply running_ok_lt; [assumption|reflexivity]).
  assert (Pd : prod ds < U128) by (apply running_ok_lt; [assumption|reflexivity]).
  destruct (split128 _ Pn) as (Nh & Nl & Ne). destruct (split128 _ Pd) as (Dh & Dl & De).
  rewrite combine_spec by assumption. cbv zeta. rewrite Ne, De.
  destruct (negb (prod ds =? 0) && (prod ns / prod ds <? U64)); reflexivity.
Qed.

Lemma wide_ratio_spec_meaning ns ds q : wide_ratio_spec ns ds = Some q ->
  running_ok 1 ns = true /\ running_ok 1 ds = true /\ prod ds <> 0 /\
  q = prod ns / prod ds /\ q < U64.
Proof.
  unfold wide_ratio_spec. intros H.
  destruct (running_ok 1 ns); cbn [andb] in H; [|discriminate].
  destruct (running_ok 1 ds); cbn [andb] in H; [|discriminate].
  destruct (N.eqb_spec (prod ds) 0) as [E|E]; cbn [negb andb] in H; [discriminate|].
  destruct (N.ltb_spec (prod ns / prod ds) U64) as [L|L]; [|discriminate].
  inversion H; subst. auto.
Qed.

(* Non-vacuity: a concrete non-trivial instance on each side of the boundary. *)
Example wide_ratio_example_ok :
  run_pure (wide_ratio_ops (map const_code [MAXU64; 4611686018427387904; 3]) (map const_code [4611686018427387904; 7])) [] =
  Some [VI 7905747460161236406].
Proof. vm_compute. reflexivity. Qed.

Example wide_ratio_example_overflow :
  run_pure (wide_ratio_ops (map const_code [MAXU64; MAXU64; 2]) (map const_code [1; 1])) [] = None.
Proof. vm_compute. reflexivity. Qed.
