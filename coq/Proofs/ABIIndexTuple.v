(* Proofs/ABIIndexTuple.v — tuple[i] on the encoding of a tuple returns component i ([index_tuple_correct]). *)
From Coq Require Import List NArith Arith Ascii String Bool Lia.
From PV Require Import Base.Bytes Base.U64 AVM.Syntax AVM.Ops ABI.Types ABI.Spec ABI.Index
  Proofs.ABISpecProof Proofs.ABIIndexBits Proofs.ABIIndexAsm Proofs.ABIIndexElems Proofs.ABIIndexSel
  Proofs.ABIIndexWalk Proofs.ABIIndexExec.
Import ListNotations.
Local Open Scope N_scope.

Lemma tuple_encode_inv : forall nm ts vs enc,
    arc4_encode (TTuple nm ts) (VList vs) = Some enc ->
    exists es, enc_seq (map (fun x => enc_elem (is_bool x) (is_dynamic x) (arc4_encode x)) ts) vs = Some es /\
               assemble es = Some enc /\ Forall2 elem_rel ts es.
Proof.
  intros nm ts vs enc H. cbn [arc4_encode] in H. unfold tuple_enc in H.
  apply obind_some in H as [es [He Ha]]. exists es. repeat split; auto. eapply tuple_rel; eauto.
Qed.

Lemma enc_elem_bool_inv : forall ed enc v b, enc_elem true ed enc v = Some (EB b) -> v = VBool b.
Proof. intros ed enc v b H. unfold enc_elem in H. destruct v; try discriminate. congruence. Qed.

Lemma enc_elem_nonbool_inv : forall ed enc v e, enc_elem false ed enc v = Some e ->
    exists bs, enc v = Some bs /\ e = (if ed then ED bs else ES bs).
Proof. intros ed enc v e H. unfold enc_elem in H. apply option_map_some in H as [bs [H ->]]. exists bs. split; [exact H|]. destruct ed; reflexivity. Qed.

Lemma getbit_bytes_eq : forall enc i,
    run1 (exec_pure O_getbit [] [VI i; VB enc]) = option_map VI (get_bit_bytes enc i).
Proof. intros. cbn. destruct (get_bit_bytes enc i); reflexivity. Qed.

Lemma get_bit_bytes_bound : forall enc i x, get_bit_bytes enc i = Some x -> i < 8 * blen enc.
Proof.
  intros enc i x H. unfold get_bit_bytes, nth_N in H.
  destruct (N.ltb_spec (i / 8) (N.of_nat (List.length enc))) as [L|L]; [|discriminate].
  fold (blen enc) in L. pose proof (N.div_mod i 8 ltac:(lia)). pose proof (N.mod_lt i 8 ltac:(lia)). lia.
Qed.

Lemma dyn_not_scalar : forall t s e l, is_dynamic t = true ->
    decode_plan t s e l = substring_for_decoding s e l /\ stored t = fun v => option_map VB (arc4_encode t v).
Proof. intros t s e l H. destruct t; cbn in H; try discriminate; split; reflexivity. Qed.

Lemma skipn_S_nil : forall {A} (l : list A) i, S i = List.length l -> skipn (S i) l = [].
Proof. intros A l i H. apply skipn_all2. lia. Qed.

Theorem index_tuple_correct : forall ver nm ts vs enc i t v idx,
    EXTRACT_MIN_VERSION <= ver ->
    arc4_encode (TTuple nm ts) (VList vs) = Some enc -> blen enc <= MAX_BYTES ->
    nth_error ts i = Some t -> nth_error vs i = Some v -> pyteal_elem t = true ->
    exists p sv, index_tuple ts i = Some p /\ stored t v = Some sv /\ exec_plan ver p enc idx = Some sv.
Proof.
  intros ver nm ts vs enc i t v idx Hver Henc Hlen Ht Hv Hpy.
  destruct (tuple_encode_inv _ _ _ _ Henc) as (es & Hes & Hasm & F).
  destruct (Forall2_split _ _ _ _ _ F Ht) as (e & He & Hrel & Ets & Ees & F2 & Li).
  set (fs := map (fun x => enc_elem (is_bool x) (is_dynamic x) (arc4_encode x)) ts) in *.
  assert (Hf : nth_error fs i = Some (enc_elem (is_bool t) (is_dynamic t) (arc4_encode t)))
    by (unfold fs; exact (map_nth_error (fun x => enc_elem (is_bool x) (is_dynamic x) (arc4_encode x)) i ts Ht)).
  destruct (enc_seq_nth _ _ _ _ _ _ Hes Hf Hv) as (e' & He' & Hev).
  rewrite He in He'. injection He' as <-.
  pose proof (walk_before_at ts es i t F Ht) as [Wb Wn]. cbv zeta in Wb, Wn.
  set (w := walk_before ts i (mkW 0 0 0 0)) in *.
  set (l1 := firstn i es) in *. set (l2 := skipn (S i) es) in *.
  set (P := fst (spos l1 0 0)) in *. set (np := snd (spos l1 0 0)) in *.
  unfold index_tuple. rewrite Ht. fold w.
  destruct (is_bool t) eqn:Hb.
  - (* bool *)
    destruct (elem_rel_bool _ _ Hrel Hb) as [b ->].
    apply enc_elem_bool_inv in Hev. subst v.
    pose proof (access_bool _ _ _ _ _ Hasm Ees) as G. fold l1 P np in G.
    rewrite (Wb eq_refl).
    assert (Ht' : t = TBool) by (apply is_bool_true; exact Hb). subst t.
    exists (PGetbit (IInt (8 * P + np))), (VI (b2N b)). split; [reflexivity|]. split; [reflexivity|].
    cbn [exec_plan]. pose proof (get_bit_bytes_bound _ _ _ G) as Bd.
    rewrite eval_int by (unfold MAX_BYTES in Hlen; unfold U64; lia). cbn [obind].
    rewrite getbit_bytes_eq, G. reflexivity.
  - pose proof (Wn eq_refl) as Hoff. clear Wb Wn.
    destruct (is_dynamic t) eqn:Hd.
    + (* dynamic *)
      destruct (elem_rel_dyn _ _ Hrel Hb Hd) as [bs ->].
      apply enc_elem_nonbool_inv in Hev as [bs' [Hbs Eq]]. cbv iota in Eq. injection Eq as <-.
      pose proof (access_dyn _ _ _ _ _ Hasm Ees) as (Ho & Hsl & a & Ea & Hla). fold l1 l2 P np in Hsl, Ea, Hla, Ho.
      set (o := head_len es 0 + blen (tails_of l1)) in *.
      rewrite <- Hoff in Hsl.
      assert (Hoffb : w_off w + 2 <= blen enc) by (eapply slice_bound; eauto).
      assert (Hu : eval_iexpr enc idx (IU16 (IInt (w_off w))) = Some o).
      { cbn [eval_iexpr]. rewrite push_int_ok by (apply MAXB_U64; lia). cbn [obind].
        apply u16_at_ok; assumption. }
      destruct (dyn_not_scalar t) with (s := @None iexpr) (e := @None iexpr) (l := @None iexpr) as [_ Hst]; [exact Hd|].
      rewrite Hst, Hbs. cbn [option_map].
      destruct (dyn_split l2) as [Hnd|(m & bs' & l3 & El2 & Hm)].
      * (* last dynamic member *)
        rewrite (walk_after_none (skipn (S i) ts) l2 0 (w_off w + 2) (w_off w + 2) 0 F2); [| |exact Hnd].
        2:{ unfold ainv. cbn [N.eqb]. auto. }
        destruct (dyn_not_scalar t (Some (IU16 (IInt (w_off w)))) None None Hd) as [-> _].
        cbn [substring_for_decoding].
        exists (PSuffix (IU16 (IInt (w_off w)))), (VB bs). split; [reflexivity|]. split; [reflexivity|].
        cbn [exec_plan]. rewrite Hu. cbn [obind]. rewrite len_of_eq. cbn [obind].
        rewrite do_substring3_eq. rewrite (tails_of_no_dyn _ Hnd), app_nil_r in Ea.
        rewrite <- Hla. subst enc. rewrite bsub_suffix. reflexivity.
      * (* a later dynamic member: its head cell holds the end *)
        assert (F2' : Forall2 elem_rel (skipn (S i) ts) (m ++ ED bs' :: l3)) by (rewrite <- El2; exact F2).
        rewrite (walk_after_some m (skipn (S i) ts) bs' l3 0 (w_off w + 2) (w_off w + 2) 0 F2'); [| |exact Hm].
        2:{ unfold ainv. cbn [N.eqb]. auto. }
        cbn [fst snd].
        destruct (dyn_not_scalar t (Some (IU16 (IInt (w_off w))))
                    (Some (IU16 (IInt (fst (spos m 0 (w_off w + 2)) + bool_seq_len (snd (spos m 0 (w_off w + 2)))))))
                    None Hd) as [-> _].
        cbn [substring_for_decoding].
        eexists; exists (VB bs). split; [reflexivity|]. split; [reflexivity|].
        (* the next head cell *)
        assert (Ees2 : es = (l1 ++ ED bs :: m) ++ ED bs' :: l3).
        { rewrite Ees. fold l1 l2. rewrite El2, <- app_assoc. reflexivity. }
        pose proof (access_dyn _ _ _ _ _ Hasm Ees2) as (Ho2 & Hsl2 & _).
        rewrite spos_app in Hsl2. cbn [spos] in Hsl2. fold P np in Hsl2. rewrite <- Hoff in Hsl2.
        rewrite tails_of_app in Ho2, Hsl2. cbn [tails_of] in Ho2, Hsl2.
        rewrite (tails_of_no_dyn _ Hm), app_nil_r, blen_app in Ho2, Hsl2.
        fold o in Ho2, Hsl2. rewrite N.add_assoc in Ho2, Hsl2.
        assert (Hb2 : fst (spos m 0 (w_off w + 2)) + bool_seq_len (snd (spos m 0 (w_off w + 2))) + 2 <= blen enc)
          by (eapply slice_bound; eauto).
        cbn [exec_plan]. rewrite Hu. cbn [obind].
        cbn [eval_iexpr]. rewrite push_int_ok by (apply MAXB_U64; lia). cbn [obind].
        rewrite (u16_at_ok _ _ _ Hsl2 Ho2). cbn [obind].
        change (head_len es 0 + blen (tails_of l1)) with o.
        rewrite do_substring3_eq. rewrite <- Hla. rewrite Ea. rewrite bsub_mid. reflexivity.
    + (* static, not bool *)
      destruct (elem_rel_static _ _ Hrel Hb Hd) as [bs [-> Hsl]].
      apply enc_elem_nonbool_inv in Hev as [bs' [Hbs Eq]]. cbv iota in Eq. injection Eq as <-.
      pose proof (access_static _ _ _ _ _ Hasm Ees) as (a & c & Ea & Hla). fold l1 P np in Hla.
      rewrite <- Hoff in Hla.
      assert (Hlast : S i = List.length ts -> exists a', enc = a' ++ bs ++ tails_of l1 /\ blen a' = w_off w).
      { intro HS. assert (Hl2 : l2 = []).
        { unfold l2. apply skipn_S_nil. destruct (enc_seq_length _ _ _ Hes) as [L1 _]. unfold fs in L1. rewrite map_length in L1. lia. }
        fold l1 l2 in Ees. rewrite Hl2 in Ees.
        destruct (access_static_last _ _ _ _ Hasm Ees) as (a' & Ea' & Hla'). fold P np in Hla'.
        exists a'. split; [exact Ea'|]. rewrite Hla', Hoff. reflexivity. }
      destruct (Nat.eqb_spec (S i) (List.length ts)) as [HS|HS]; cbn [andb].
      * destruct (Hlast HS) as (a' & Ea' & Hla'). clear Ea Hla a c. rewrite <- Hla', <- Hsl.
        destruct (N.eqb_spec (blen a') 0) as [Hz|Hz].
        -- (* first and only bytes: decode(encoded) *)
           eapply decode_static_ok; eauto. split; [exact Hz|].
           apply tails_of_no_dyn. apply (spos_zero_no_dyn l1 0). fold P np. rewrite <- Hoff, <- Hla'. exact Hz.
        -- destruct (all_static ts) eqn:Hall.
           ++ (* last member, all static: suffix *)
              eapply decode_static_ok; eauto. split; [reflexivity|].
              assert (Hnd : no_dyn es = true) by (eapply no_dyn_static_tuple; eauto).
              apply tails_of_no_dyn in Hnd. rewrite Ees, tails_of_app in Hnd.
              apply app_eq_nil in Hnd as [Hnd _]. exact Hnd.
           ++ (* last member, dynamic members before it: start and length *)
              eapply decode_static_ok; eauto. split; reflexivity.
      * rewrite <- Hla, <- Hsl. destruct (N.eqb_spec (blen a) 0) as [Hz|Hz].
        -- eapply decode_static_ok; eauto. split; [exact Hz|reflexivity].
        -- eapply decode_static_ok; eauto. split; reflexivity.
Qed.
