(* Proofs/StackSigProof.v — the stack signatures of AVM/StackSig.v are a sound abstraction of
   Machine.exec_op: when the abstract transformer accepts an abstract stack describing the top part of
   the concrete stack and the opcode succeeds, the cells below that part are untouched and the new top
   part has the predicted types. *)
From Coq Require Import List Arith NArith Ascii String Bool Lia.
From PV Require Import Base.Bytes Base.U64 AVM.Syntax AVM.Ops AVM.Machine AVM.StackSig.
Import ListNotations.

Definition stack_has (vs : list value) (ts : list ty) : Prop := Forall2 has_ty vs ts.

(* ---- lattice ---- *)
Lemma ty_eqb_eq : forall a b, ty_eqb a b = true <-> a = b.
Proof. destruct a, b; cbn; split; intro H; try reflexivity; try discriminate. Qed.

Lemma ty_le_refl : forall a, ty_le a a = true.
Proof. destruct a; reflexivity. Qed.

Lemma ty_le_trans : forall a b c, ty_le a b = true -> ty_le b c = true -> ty_le a c = true.
Proof. destruct a, b, c; cbn; intros; try reflexivity; try discriminate. Qed.

Lemma ty_le_TA : forall a, ty_le a TA = true.
Proof. destruct a; reflexivity. Qed.

Lemma has_ty_TA : forall v, has_ty v TA.
Proof. intro v. unfold has_ty. apply ty_le_TA. Qed.

Lemma has_ty_VI : forall n t, has_ty (VI n) t <-> ty_le TU t = true.
Proof. intros. unfold has_ty. cbn. tauto. Qed.
Lemma has_ty_VB : forall b t, has_ty (VB b) t <-> ty_le TB t = true.
Proof. intros. unfold has_ty. cbn. tauto. Qed.

Lemma has_ty_le : forall v a b, has_ty v a -> ty_le a b = true -> has_ty v b.
Proof. intros v a b H L. unfold has_ty in *. eapply ty_le_trans; eauto. Qed.

Lemma has_ty_join_l : forall v a b, has_ty v a -> has_ty v (ty_join a b).
Proof. intros v a b H. unfold has_ty in *. destruct (tag v), a, b; cbn in *; auto. Qed.
Lemma has_ty_join_r : forall v a b, has_ty v b -> has_ty v (ty_join a b).
Proof. intros v a b H. unfold has_ty in *. destruct (tag v), a, b; cbn in *; auto. Qed.

Lemma has_ty_tag : forall v, has_ty v (tag v).
Proof. intro v. unfold has_ty. apply ty_le_refl. Qed.

Lemma stack_has_length : forall vs ts, stack_has vs ts -> List.length vs = List.length ts.
Proof. intros vs ts H. induction H; cbn; auto. Qed.

Lemma stack_has_app : forall a b ta tb, stack_has a ta -> stack_has b tb -> stack_has (a ++ b) (ta ++ tb).
Proof. intros. apply Forall2_app; assumption. Qed.

Lemma stack_has_tags : forall vs, stack_has vs (map tag vs).
Proof. induction vs; cbn; constructor; auto using has_ty_tag. Qed.

Lemma stack_has_TA : forall vs ts, List.length vs = List.length ts -> (forall t, In t ts -> t = TA) -> stack_has vs ts.
Proof.
  induction vs as [|v vs IH]; intros [|t ts] L H; cbn in *; try discriminate; constructor.
  - rewrite (H t); auto using has_ty_TA.
  - apply IH; auto.
Qed.

(* an accepted cell, concretely *)
Lemma accepts_strict_has : forall v c r, has_ty v c -> accepts true c r = true -> has_ty v r.
Proof.
  intros v c r H A. destruct r; cbn in A; try apply has_ty_TA;
    rewrite orb_false_r in A; apply ty_eqb_eq in A; subst; assumption.
Qed.

Lemma accepts_strict_lax : forall c r, accepts true c r = true -> accepts false c r = true.
Proof. intros c r H. destruct r; cbn in *; auto; rewrite orb_false_r in H; rewrite H; reflexivity. Qed.

(* on concrete tags strict = lax *)
Lemma accepts_tag : forall v r b, accepts b (tag v) r = accepts true (tag v) r.
Proof. intros v r b. destruct v, r, b; reflexivity. Qed.

(* ---- take_ops ---- *)
Lemma take_ops_split : forall strict req s rest,
  take_ops strict req s = Some rest ->
  exists pre, s = pre ++ rest /\ List.length pre = List.length req.
Proof.
  induction req as [|r req IH]; intros s rest H; cbn in H.
  - inversion H; subst. exists []. auto.
  - destruct s as [|c s]; try discriminate.
    destruct (accepts strict c r); try discriminate.
    destruct (IH _ _ H) as [pre [E L]]. exists (c :: pre). cbn. subst. auto.
Qed.

Lemma take_ops_strict_lax : forall req s rest, take_ops true req s = Some rest -> take_ops false req s = Some rest.
Proof.
  induction req as [|r req IH]; intros s rest H; cbn in *; auto.
  destruct s as [|c s]; try discriminate.
  destruct (accepts true c r) eqn:A; try discriminate.
  rewrite (accepts_strict_lax _ _ A). auto.
Qed.

(* Forall2 splitting at a known prefix length *)
Lemma stack_has_split : forall vs pre rest,
  stack_has vs (pre ++ rest) ->
  exists v1 v2, vs = v1 ++ v2 /\ stack_has v1 pre /\ stack_has v2 rest.
Proof. intros vs pre rest H. apply Forall2_app_inv_r in H. destruct H as [v1 [v2 [H1 [H2 E]]]]. exists v1, v2. auto. Qed.

(* concrete strict acceptance from abstract strict acceptance *)
Lemma take_ops_concrete : forall req abs rest vs,
  take_ops true req abs = Some rest -> stack_has vs abs ->
  exists rest', take_ops true req (map tag vs) = Some rest'.
Proof.
  induction req as [|r req IH]; intros abs rest vs H S; cbn in *.
  - eauto.
  - destruct abs as [|c abs]; try discriminate.
    inversion S as [|v c' vs' abs' Hv S']; subst. cbn.
    destruct (accepts true c r) eqn:A; try discriminate.
    assert (accepts true (tag v) r = true) as ->.
    { destruct r; cbn in *; auto; rewrite orb_false_r in *; apply ty_eqb_eq in A; subst;
        unfold has_ty in Hv; destruct (tag v); cbn in *; auto; discriminate. }
    eapply IH; eauto.
Qed.

(* ---- typed contexts ---- *)
Ltac destr_match H :=
  match type of H with
  | context [match ?x with _ => _ end] =>
      lazymatch x with
      | context [match _ with _ => _ end] => fail
      | _ => tryif is_var x then destruct x else destruct x eqn:?
      end
  end.
(* fallback: a discriminee that itself contains a match under a binder (e.g. the log-limit test) *)
Ltac destr_any H :=
  match type of H with
  | context [match ?x with _ => _ end] => tryif is_var x then destruct x else destruct x eqn:?
  end.
Ltac break_all H := repeat (first [discriminate H | destr_match H | destr_any H]).

Lemma alookup_typed : forall (fty : string -> ty) l f v,
  fields_typed fty l -> alookup String.eqb f l = Some v -> has_ty v (fty f).
Proof.
  induction l as [|[k w] l IH]; intros f v T H; cbn in H; try discriminate.
  inversion T as [|x y Hx Hy]; subst. cbn in Hx.
  destruct (String.eqb f k) eqn:E.
  - apply String.eqb_eq in E. subst. inversion H; subst. assumption.
  - eapply IH; eauto.
Qed.

Lemma fld_typed : forall t f v, txn_typed t -> fld t f = Some v -> has_ty v (txn_field_ty f).
Proof. intros t f v [T _] H. eapply alookup_typed; eauto. Qed.

Lemma alookup_arr_typed : forall (fty : string -> ty) l f arr,
  arrays_typed fty l -> alookup String.eqb f l = Some arr -> Forall (fun v => has_ty v (fty f)) arr.
Proof.
  induction l as [|[k w] l IH]; intros f arr T H; cbn in H; try discriminate.
  inversion T as [|x y Hx Hy]; subst. cbn in Hx.
  destruct (String.eqb f k) eqn:E.
  - apply String.eqb_eq in E. subst. inversion H; subst. assumption.
  - eapply IH; eauto.
Qed.

Lemma nth_N_In : forall A (l : list A) i x, nth_N l i = Some x -> In x l.
Proof. intros A l i x H. unfold nth_N in H. destruct (N.ltb _ _); try discriminate. eapply nth_error_In; eauto. Qed.

Lemma arr_typed : forall t f arr i v, txn_typed t -> alookup String.eqb f (t_arrays t) = Some arr ->
  nth_N arr i = Some v -> has_ty v (txn_field_ty f).
Proof.
  intros t f arr i v [_ T] H N. pose proof (alookup_arr_typed _ _ _ _ T H) as F.
  rewrite Forall_forall in F. apply F. eapply nth_N_In; eauto.
Qed.

Lemma cur_txn_typed : forall cx t, ctx_typed cx -> cur_txn cx = Some t -> txn_typed t.
Proof. intros cx t [G _] H. unfold cur_txn in H. rewrite Forall_forall in G. apply G. eapply nth_error_In; eauto. Qed.

Lemma group_typed : forall cx k t, ctx_typed cx -> nth_N (c_group cx) k = Some t -> txn_typed t.
Proof. intros cx k t [G _] H. rewrite Forall_forall in G. apply G. eapply nth_N_In; eauto. Qed.

Lemma glob_typed : forall cx f v, ctx_typed cx -> alookup String.eqb f (c_globals cx) = Some v -> has_ty v (global_field_ty f).
Proof. intros cx f v [_ G] H. eapply alookup_typed; eauto. Qed.

Ltac solve_ty :=
  first [ apply has_ty_TA
        | reflexivity
        | eapply fld_typed; [ first [eapply cur_txn_typed; eassumption | eapply group_typed; eassumption] | eassumption ]
        | eapply arr_typed; [ first [eapply cur_txn_typed; eassumption | eapply group_typed; eassumption] | eassumption | eassumption ]
        | eapply glob_typed; eassumption ].

Ltac finish_fix H :=
  inversion H; subst; cbn [List.length skipn firstn app];
  split; [reflexivity | split; [ repeat (constructor; [solve_ty|]); constructor | cbn; lia ] ].


Lemma fix_local : forall cx o imms pops pushes stk st stk' st',
  ctx_typed cx -> sig_of o imms = SFix pops pushes ->
  exec_op cx o imms stk st = OOk stk' st' ->
  skipn (List.length pushes) stk' = skipn (List.length pops) stk /\
  stack_has (firstn (List.length pushes) stk') pushes /\
  (List.length pops <= List.length stk)%nat.
Proof.
  intros cx o imms pops pushes stk st stk' st' CT Hs H.
  destruct o; cbv beta iota delta [sig_of imm_nat] in Hs; try discriminate Hs.
  all: break_all Hs.
  all: inversion Hs; subst; clear Hs.
  all: cbv beta iota zeta delta [exec_op exec_pure oki okb okbool push_field push_afield] in H.
  all: break_all H.
  all: finish_fix H.
Qed.

(* ---- list lemmas for the polymorphic stack manipulators ---- *)
Section ListRel.
  Context {A B : Type} (R : A -> B -> Prop).

  Lemma insert_at_F2 : forall n a a' r r' s',
    Forall2 R r r' -> R a a' -> insert_at n a' r' = Some s' ->
    exists s, insert_at n a r = Some s /\ Forall2 R s s'.
  Proof.
    induction n as [|n IH]; intros a a' r r' s' F Ha H; cbn in *.
    - inversion H; subst. eexists; split; eauto.
    - destruct r' as [|h' t']; try discriminate.
      inversion F as [|h h2 t t2 Hh Ht]; subst.
      destruct (insert_at n a' t') as [q'|] eqn:E; try discriminate. inversion H; subst.
      destruct (IH _ _ _ _ _ Ht Ha E) as [q [E1 F1]]. rewrite E1. eexists; split; eauto.
  Qed.

  Lemma remove_at_F2 : forall n r r' x' s',
    Forall2 R r r' -> remove_at n r' = Some (x', s') ->
    exists x s, remove_at n r = Some (x, s) /\ R x x' /\ Forall2 R s s'.
  Proof.
    induction n as [|n IH]; intros r r' x' s' F H; cbn in *.
    - destruct r' as [|h' t']; try discriminate. inversion H; subst.
      inversion F; subst. eexists _, _; split; eauto.
    - destruct r' as [|h' t']; try discriminate.
      inversion F as [|h h2 t t2 Hh Ht]; subst.
      destruct (remove_at n t') as [[y' q']|] eqn:E; try discriminate. inversion H; subst.
      destruct (IH _ _ _ _ Ht E) as [y [q [E1 [Ry F1]]]]. rewrite E1. eexists _, _; split; eauto.
  Qed.

  Lemma list_update_F2 : forall l l' i x x',
    Forall2 R l l' -> R x x' -> Forall2 R (list_update l i x) (list_update l' i x').
  Proof.
    intros l l' i x x' F. revert i. induction F as [|h h' t t' Hh Ht IH]; intros i Hx; cbn.
    - constructor.
    - destruct i; constructor; auto.
  Qed.

  Lemma nth_error_F2 : forall l l' n t, Forall2 R l l' -> nth_error l' n = Some t ->
    exists v, nth_error l n = Some v /\ R v t.
  Proof.
    intros l l' n t F. revert n. induction F as [|h h' q q' Hh Hq IH]; intros n H.
    - destruct n; discriminate.
    - destruct n; cbn in *.
      + inversion H; subst. eauto.
      + eauto.
  Qed.

  Lemma skipn_F2 : forall n l l', Forall2 R l l' -> Forall2 R (skipn n l) (skipn n l').
  Proof.
    induction n; intros l l' F; cbn; auto. destruct F; auto.
  Qed.

  Lemma firstn_F2 : forall n l l', Forall2 R l l' -> Forall2 R (firstn n l) (firstn n l').
  Proof.
    induction n; intros l l' F; cbn; auto. destruct F; auto.
  Qed.

  Lemma rev_F2 : forall l l', Forall2 R l l' -> Forall2 R (rev l) (rev l').
  Proof.
    intros l l' F. induction F; cbn; auto. apply Forall2_app; auto.
  Qed.

  Lemma repeat_F2 : forall n a a', R a a' -> Forall2 R (repeat a n) (repeat a' n).
  Proof. induction n; intros; cbn; auto. Qed.
End ListRel.

Lemma insert_at_app : forall A n (a : A) r s b, insert_at n a r = Some s -> insert_at n a (r ++ b) = Some (s ++ b).
Proof.
  induction n as [|n IH]; intros a r s b H; cbn in *.
  - inversion H; subst. reflexivity.
  - destruct r as [|h t]; try discriminate. cbn.
    destruct (insert_at n a t) eqn:E; try discriminate. inversion H; subst.
    rewrite (IH _ _ _ b E). reflexivity.
Qed.

Lemma remove_at_app : forall A n (r : list A) x s b, remove_at n r = Some (x, s) -> remove_at n (r ++ b) = Some (x, s ++ b).
Proof.
  induction n as [|n IH]; intros r x s b H; cbn in *.
  - destruct r; try discriminate. inversion H; subst. reflexivity.
  - destruct r as [|h t]; try discriminate. cbn.
    destruct (remove_at n t) as [[y q]|] eqn:E; try discriminate. inversion H; subst.
    rewrite (IH _ _ _ b E). reflexivity.
Qed.

Lemma list_update_app : forall A (l : list A) i x b, (i < List.length l)%nat -> list_update (l ++ b) i x = list_update l i x ++ b.
Proof.
  induction l as [|h t IH]; intros i x b L; cbn in *; try lia.
  destruct i; cbn; auto. rewrite IH; auto. lia.
Qed.

Lemma nth_error_app_l : forall A (l b : list A) n v, nth_error l n = Some v -> nth_error (l ++ b) n = Some v.
Proof. intros. rewrite nth_error_app1; auto. apply nth_error_Some. congruence. Qed.

Lemma skipn_app_le : forall A n (l b : list A), (n <= List.length l)%nat -> skipn n (l ++ b) = skipn n l ++ b.
Proof. intros. rewrite skipn_app. replace (n - List.length l)%nat with 0%nat by lia. reflexivity. Qed.

(* ---- the main abstraction lemma ---- *)
Ltac inv_F2 :=
  repeat match goal with
  | H : stack_has _ (_ :: _) |- _ => inversion H; subst; clear H
  | H : Forall2 has_ty _ (_ :: _) |- _ => inversion H; subst; clear H
  end.

Lemma exec_op_sound : forall cx o imms strict abs abs' cur below st stk' st',
  ctx_typed cx ->
  sig_apply strict (sig_of o imms) abs = Some abs' ->
  stack_has cur abs ->
  exec_op cx o imms (cur ++ below) st = OOk stk' st' ->
  exists cur', stk' = cur' ++ below /\ stack_has cur' abs'.
Proof.
  intros cx o imms strict abs abs' cur below st stk' st' CT Hs SH H.
  destruct (sig_of o imms) eqn:Hsig; cbn [sig_apply] in Hs; try discriminate Hs.
  - (* SFix *)
    destruct (take_ops strict pops abs) as [rest|] eqn:T; try discriminate Hs. inversion Hs; subst; clear Hs.
    destruct (take_ops_split _ _ _ _ T) as [pre [E L]]. subst abs.
    destruct (stack_has_split _ _ _ SH) as [c1 [c2 [E [S1 S2]]]]. subst cur.
    destruct (fix_local _ _ _ _ _ _ _ _ _ CT Hsig H) as [K1 [K2 K3]].
    pose proof (stack_has_length _ _ S1) as L1.
    rewrite <- app_assoc in K1. rewrite skipn_app_le in K1 by lia.
    replace (skipn (List.length pops) c1) with (@nil value) in K1
      by (symmetry; apply skipn_all2; lia). cbn [app] in K1.
    exists (firstn (List.length pushes) stk' ++ c2). split.
    + rewrite <- app_assoc. rewrite <- K1. symmetry. apply firstn_skipn.
    + apply stack_has_app; assumption.
  - (* SEq *)
    destruct o; cbv beta iota delta [sig_of imm_nat] in Hsig; break_all Hsig.
    all: destruct abs as [|a [|b r]]; try discriminate Hs.
    all: destruct (ty_compat2 strict a b); try discriminate Hs; inversion Hs; subst; clear Hs.
    all: inv_F2.
    all: cbv beta iota zeta delta [exec_op exec_pure okbool] in H; cbn [app] in H.
    all: break_all H; inversion H; subst; eexists (_ :: _); (split; [reflexivity | constructor; [reflexivity | assumption]]).
  - (* SSetbit *)
    destruct o; cbv beta iota delta [sig_of imm_nat] in Hsig; break_all Hsig.
    destruct abs as [|a [|b [|c r]]]; try discriminate Hs.
    destruct (accepts strict a TU && accepts strict b TU); try discriminate Hs; inversion Hs; subst; clear Hs.
    inv_F2.
    cbv beta iota zeta delta [exec_op exec_pure okbool] in H; cbn [app] in H.
    break_all H; inversion H; subst; eexists (_ :: _); (split; [reflexivity | constructor; [ | assumption]]).
    all: match goal with Ht : has_ty _ ?t |- has_ty _ ?t => unfold has_ty in *; cbn in *; exact Ht end.
  - (* SSelect *)
    destruct o; cbv beta iota delta [sig_of imm_nat] in Hsig; break_all Hsig.
    destruct abs as [|a [|b [|c r]]]; try discriminate Hs.
    destruct (accepts strict a TU); try discriminate Hs; inversion Hs; subst; clear Hs.
    inv_F2.
    cbv beta iota zeta delta [exec_op exec_pure okbool] in H; cbn [app] in H.
    break_all H; inversion H; subst; eexists (_ :: _); (split; [reflexivity | constructor; [ | assumption]]).
    all: auto using has_ty_join_l, has_ty_join_r.
  - (* SDup *)
    destruct o; cbv beta iota delta [sig_of imm_nat] in Hsig; break_all Hsig.
    destruct abs as [|a r]; try discriminate Hs. inversion Hs; subst; clear Hs. inv_F2.
    cbv beta iota zeta delta [exec_op exec_pure] in H; cbn [app] in H. inversion H; subst.
    eexists (_ :: _ :: _); split; [reflexivity | repeat (constructor; auto)].
  - (* SDup2 *)
    destruct o; cbv beta iota delta [sig_of imm_nat] in Hsig; break_all Hsig.
    destruct abs as [|a [|b r]]; try discriminate Hs. inversion Hs; subst; clear Hs. inv_F2.
    cbv beta iota zeta delta [exec_op exec_pure] in H; cbn [app] in H. inversion H; subst.
    eexists (_ :: _ :: _ :: _ :: _); split; [reflexivity | repeat (constructor; auto)].
  - (* SSwap *)
    destruct o; cbv beta iota delta [sig_of imm_nat] in Hsig; break_all Hsig.
    destruct abs as [|a [|b r]]; try discriminate Hs. inversion Hs; subst; clear Hs. inv_F2.
    cbv beta iota zeta delta [exec_op exec_pure] in H; cbn [app] in H. inversion H; subst.
    eexists (_ :: _ :: _); split; [reflexivity | repeat (constructor; auto)].
  - (* SDig *)
    destruct o; cbv beta iota delta [sig_of imm_nat] in Hsig; break_all Hsig; inversion Hsig; subst; clear Hsig.
    destruct (nth_error abs (N.to_nat n0)) as [t|] eqn:E; try discriminate Hs. inversion Hs; subst; clear Hs.
    destruct (nth_error_F2 _ _ _ _ _ SH E) as [v [Ev Hv]].
    cbv beta iota zeta delta [exec_op exec_pure arg1 imms_to_args] in H.
    rewrite (nth_error_app_l _ _ below _ _ Ev) in H.
    break_all H; inversion H; subst.
    exists (v :: cur). split; [reflexivity | constructor; auto].
  - (* SCover *)
    destruct o; cbv beta iota delta [sig_of imm_nat] in Hsig; break_all Hsig; inversion Hsig; subst; clear Hsig.
    destruct abs as [|a r]; try discriminate Hs. inv_F2.
    match goal with Hx : has_ty ?x a, Hl : Forall2 has_ty ?l r |- _ =>
      destruct (insert_at_F2 has_ty _ _ _ _ _ _ Hl Hx Hs) as [s [Es Fs]] end.
    cbv beta iota zeta delta [exec_op exec_pure arg1 imms_to_args] in H. cbn [app] in H.
    rewrite (insert_at_app _ _ _ _ _ below Es) in H.
    break_all H; inversion H; subst.
    exists s. split; [reflexivity | assumption].
  - (* SUncover *)
    destruct o; cbv beta iota delta [sig_of imm_nat] in Hsig; break_all Hsig; inversion Hsig; subst; clear Hsig.
    destruct (remove_at (N.to_nat n0) abs) as [[x' s']|] eqn:E; try discriminate Hs. inversion Hs; subst; clear Hs.
    destruct (remove_at_F2 has_ty _ _ _ _ _ SH E) as [x [s [Es [Rx Fs]]]].
    cbv beta iota zeta delta [exec_op exec_pure arg1 imms_to_args] in H.
    rewrite (remove_at_app _ _ _ _ _ below Es) in H.
    break_all H; inversion H; subst.
    exists (x :: s). split; [reflexivity | constructor; assumption].
  - (* SBury *)
    destruct o; cbv beta iota delta [sig_of imm_nat] in Hsig; break_all Hsig; inversion Hsig; subst; clear Hsig.
    destruct abs as [|a r]; try discriminate Hs. inv_F2.
    destruct (N.to_nat n0) as [|k] eqn:En; try discriminate Hs.
    destruct (S k <=? List.length r)%nat eqn:Le; try discriminate Hs. inversion Hs; subst; clear Hs.
    apply Nat.leb_le in Le.
    match goal with Hl : Forall2 has_ty ?l r |- _ => pose proof (stack_has_length _ _ Hl) as LL end.
    cbv beta iota zeta delta [exec_op exec_pure arg1 imms_to_args] in H. cbn [app] in H.
    break_all H; inversion H; subst.
    replace (N.to_nat (n0 - 1)) with k by lia.
    rewrite list_update_app by lia.
    eexists; split; [reflexivity | apply list_update_F2; assumption].
  - (* SPopn *)
    destruct o; cbv beta iota delta [sig_of imm_nat] in Hsig; break_all Hsig; inversion Hsig; subst; clear Hsig.
    destruct (N.to_nat n0 <=? List.length abs)%nat eqn:Le; try discriminate Hs. inversion Hs; subst; clear Hs.
    apply Nat.leb_le in Le. pose proof (stack_has_length _ _ SH) as LL.
    cbv beta iota zeta delta [exec_op exec_pure arg1 imms_to_args] in H.
    break_all H; inversion H; subst.
    rewrite skipn_app_le by lia.
    eexists; split; [reflexivity | apply skipn_F2; assumption].
  - (* SDupn *)
    destruct o; cbv beta iota delta [sig_of imm_nat] in Hsig; break_all Hsig; inversion Hsig; subst; clear Hsig.
    destruct abs as [|a r]; try discriminate Hs. inversion Hs; subst; clear Hs. inv_F2.
    cbv beta iota zeta delta [exec_op exec_pure arg1 imms_to_args] in H. cbn [app] in H.
    break_all H; inversion H; subst.
    eexists (repeat _ _ ++ _ :: _). split.
    + rewrite <- app_assoc. reflexivity.
    + apply Forall2_app; [apply repeat_F2; assumption | constructor; assumption].
Qed.

(* ---- control opcodes are exactly the ones exec_op leaves to the machine ---- *)
Lemma exec_op_ctl : forall cx o imms stk st, sig_of o imms = SCtl -> exec_op cx o imms stk st = ONot.
Proof.
  intros cx o imms stk st Hs.
  destruct o; cbv beta iota delta [sig_of imm_nat] in Hs; break_all Hs; try discriminate Hs; reflexivity.
Qed.

Lemma exec_op_not_ctl : forall cx o imms stk st,
  exec_op cx o imms stk st = ONot -> sig_of o imms = SCtl \/ sig_of o imms = SUnknown.
Proof.
  intros cx o imms stk st H.
  destruct o; try (left; reflexivity); try (right; reflexivity).
  all: cbv beta iota zeta delta [exec_op exec_pure oki okb okbool push_field push_afield] in H.
  all: break_all H.
Qed.

(* ---- acceptance depends only on the shape: transport along a relation on cells ---- *)
Lemma insert_at_some : forall A n (a : A) r, (n <= List.length r)%nat -> exists s, insert_at n a r = Some s.
Proof.
  induction n as [|n IH]; intros a r L; cbn.
  - eauto.
  - destruct r as [|h t]; cbn in L; try lia.
    destruct (IH a t) as [s E]; try lia. rewrite E. eauto.
Qed.
Lemma insert_at_len : forall A n (a : A) r s, insert_at n a r = Some s -> (n <= List.length r)%nat.
Proof.
  induction n as [|n IH]; intros a r s H; cbn in *; try lia.
  destruct r as [|h t]; try discriminate. destruct (insert_at n a t) eqn:E; try discriminate.
  apply IH in E. cbn. lia.
Qed.
Lemma remove_at_some : forall A n (r : list A), (n < List.length r)%nat -> exists x s, remove_at n r = Some (x, s).
Proof.
  induction n as [|n IH]; intros r L; destruct r as [|h t]; cbn in *; try lia.
  - eauto.
  - destruct (IH t) as [x [s E]]; try lia. rewrite E. eauto.
Qed.
Lemma remove_at_len : forall A n (r : list A) x s, remove_at n r = Some (x, s) -> (n < List.length r)%nat.
Proof.
  induction n as [|n IH]; intros r x s H; destruct r as [|h t]; cbn in *; try discriminate; try lia.
  destruct (remove_at n t) as [[y q]|] eqn:E; try discriminate. apply IH in E. lia.
Qed.

Lemma F2_length : forall A B (R : A -> B -> Prop) l l', Forall2 R l l' -> List.length l = List.length l'.
Proof. intros A B R l l' F. induction F; cbn; auto. Qed.

Section Transport.
  Variables s1 s2 : bool.
  Variable R : ty -> ty -> Prop.
  Hypothesis Racc : forall c c' r, R c c' -> accepts s1 c r = true -> accepts s2 c' r = true.
  Hypothesis Rcompat : forall a a' b b', R a a' -> R b b' -> ty_compat2 s1 a b = true -> ty_compat2 s2 a' b' = true.

  Lemma take_ops_transport : forall req abs rest l ext,
    take_ops s1 req abs = Some rest -> Forall2 R abs l ->
    exists rest', take_ops s2 req (l ++ ext) = Some rest'.
  Proof.
    induction req as [|r req IH]; intros abs rest l ext H F; cbn in *.
    - eauto.
    - destruct abs as [|c abs]; try discriminate. inversion F as [|c0 c' abs0 l' Hc Hl]; subst. cbn.
      destruct (accepts s1 c r) eqn:A; try discriminate.
      rewrite (Racc _ _ _ Hc A). eapply IH; eauto.
  Qed.

  Lemma sig_apply_transport : forall sd abs abs' l ext,
    sig_apply s1 sd abs = Some abs' -> Forall2 R abs l ->
    exists r, sig_apply s2 sd (l ++ ext) = Some r.
  Proof.
    intros sd abs abs' l ext H F. pose proof (F2_length _ _ _ _ _ F) as LEN.
    destruct sd; cbn [sig_apply] in *; try discriminate H.
    - destruct (take_ops s1 pops abs) as [rest|] eqn:T; try discriminate.
      destruct (take_ops_transport _ _ _ _ ext T F) as [rest' E]. rewrite E. eauto.
    - destruct abs as [|a [|b r]]; try discriminate.
      inversion F as [|? a' ? l1 Ha F1]; subst. inversion F1 as [|? b' ? l2 Hb F2]; subst. cbn [app].
      destruct (ty_compat2 s1 a b) eqn:C; try discriminate. rewrite (Rcompat _ _ _ _ Ha Hb C). eauto.
    - destruct abs as [|a [|b [|c r]]]; try discriminate.
      inversion F as [|? a' ? l1 Ha F1]; subst. inversion F1 as [|? b' ? l2 Hb F2]; subst.
      inversion F2 as [|? c' ? l3 Hc F3]; subst. cbn [app].
      destruct (accepts s1 a TU) eqn:A1; try discriminate. destruct (accepts s1 b TU) eqn:A2; try discriminate.
      rewrite (Racc _ _ _ Ha A1), (Racc _ _ _ Hb A2). cbn [andb]. eauto.
    - destruct abs as [|a [|b [|c r]]]; try discriminate.
      inversion F as [|? a' ? l1 Ha F1]; subst. inversion F1 as [|? b' ? l2 Hb F2]; subst.
      inversion F2 as [|? c' ? l3 Hc F3]; subst. cbn [app].
      destruct (accepts s1 a TU) eqn:A1; try discriminate.
      rewrite (Racc _ _ _ Ha A1). eauto.
    - destruct abs as [|a r]; try discriminate. inversion F; subst. cbn [app]. eauto.
    - destruct abs as [|a [|b r]]; try discriminate.
      inversion F as [|? a' ? l1 Ha F1]; subst. inversion F1; subst. cbn [app]. eauto.
    - destruct abs as [|a [|b r]]; try discriminate.
      inversion F as [|? a' ? l1 Ha F1]; subst. inversion F1; subst. cbn [app]. eauto.
    - destruct (nth_error abs n) eqn:E; try discriminate.
      assert (n < List.length (l ++ ext))%nat as L.
      { rewrite app_length. assert (n < List.length abs)%nat by (apply nth_error_Some; congruence). lia. }
      apply nth_error_Some in L. destruct (nth_error (l ++ ext) n); try congruence. eauto.
    - destruct abs as [|a r]; try discriminate. inversion F as [|? a' ? l1 Ha F1]; subst. cbn [app].
      apply insert_at_len in H. pose proof (F2_length _ _ _ _ _ F1).
      apply insert_at_some. rewrite app_length. lia.
    - destruct (remove_at n abs) as [[x q]|] eqn:E; try discriminate.
      apply remove_at_len in E.
      destruct (remove_at_some _ n (l ++ ext)) as [y [q' E']]; [rewrite app_length; lia|].
      rewrite E'. eauto.
    - destruct abs as [|a r]; try discriminate. inversion F as [|? a' ? l1 Ha F1]; subst. cbn [app].
      destruct n as [|k]; try discriminate.
      destruct (S k <=? List.length r)%nat eqn:Le; try discriminate. apply Nat.leb_le in Le.
      pose proof (F2_length _ _ _ _ _ F1).
      assert ((S k <=? List.length (l1 ++ ext))%nat = true) as -> by (apply Nat.leb_le; rewrite app_length; lia).
      eauto.
    - destruct (n <=? List.length abs)%nat eqn:Le; try discriminate. apply Nat.leb_le in Le.
      assert ((n <=? List.length (l ++ ext))%nat = true) as -> by (apply Nat.leb_le; rewrite app_length; lia).
      eauto.
    - destruct abs as [|a r]; try discriminate. inversion F; subst. cbn [app]. eauto.
  Qed.
End Transport.

(* the routine's own cells suffice (no underflow into the caller's cells) *)
Definition enough_cells (sd : sigd) (own : list value) : bool :=
  match sig_apply false sd (map (fun _ => TA) own) with Some _ => true | None => false end.

Lemma lax_accept_enough : forall sd abs abs' cur,
  sig_apply false sd abs = Some abs' -> stack_has cur abs -> enough_cells sd cur = true.
Proof.
  intros sd abs abs' cur H S. unfold enough_cells.
  destruct (sig_apply_transport false false (fun _ t => t = TA)) with (sd := sd) (abs := abs) (abs' := abs')
    (l := map (fun _ : value => TA) cur) (ext := @nil ty) as [r E]; auto.
  - intros c c' r Hc _. subst. destruct r; reflexivity.
  - intros a a' b b' Ha Hb _. subst. reflexivity.
  - clear H. induction S; cbn; constructor; auto.
  - rewrite app_nil_r in E. rewrite E. reflexivity.
Qed.

(* strict acceptance of the annotation gives concrete operands of the right types, whatever lies below *)
Lemma strict_accept_operands : forall sd abs abs' cur below,
  sig_apply true sd abs = Some abs' -> stack_has cur abs -> operands_ok sd (cur ++ below) = true.
Proof.
  intros sd abs abs' cur below H S. unfold operands_ok. rewrite map_app.
  destruct (sig_apply_transport true true (fun c t => t <> TA /\ ty_le t c = true)) with (sd := sd) (abs := abs) (abs' := abs')
    (l := map tag cur) (ext := map tag below) as [r E]; auto.
  - intros c c' r [N L] A. destruct r; cbn in *; auto; rewrite orb_false_r in *;
      apply ty_eqb_eq in A; subst; destruct c'; cbn in *; try discriminate; try reflexivity; congruence.
  - intros a a' b b' [Na La] [Nb Lb] C. cbn in *. apply andb_true_iff in C. destruct C as [C1 C2].
    apply ty_eqb_eq in C1. subst b.
    destruct a, a', b'; cbn in *; try discriminate; try reflexivity; congruence.
  - clear H. induction S as [|v t vs ts Hv Hs IH]; cbn; constructor; auto.
    split; [destruct v; discriminate | exact Hv].
  - rewrite E. reflexivity.
Qed.

Lemma lax_accept_enough_app : forall sd abs abs' cur below,
  sig_apply false sd abs = Some abs' -> stack_has cur abs -> enough_cells sd (cur ++ below) = true.
Proof.
  intros sd abs abs' cur below H S. unfold enough_cells. rewrite map_app.
  destruct (sig_apply_transport false false (fun _ t => t = TA)) with (sd := sd) (abs := abs) (abs' := abs')
    (l := map (fun _ : value => TA) cur) (ext := map (fun _ : value => TA) below) as [r E]; auto.
  - intros c c' r Hc _. subst. destruct r; reflexivity.
  - intros a a' b b' Ha Hb _. subst. reflexivity.
  - clear H. induction S; cbn; constructor; auto.
  - rewrite E. reflexivity.
Qed.

(* ---- the signatures are necessary for success ---- *)
Lemma arg1_imm : forall imms n, arg1 (imms_to_args imms) = Some n -> imms = [IInt n].
Proof.
  intros [|[k|b|s] [|j t]] n H; cbn in H; try discriminate; try (destruct j; discriminate).
  inversion H; reflexivity.
Qed.

(* the signatures are not stricter than the machine: an opcode that succeeds had its operands.
   (itxn_field is excepted: the machine accepts any value, the signature wants the field's type;
    one-byte immediates are assumed to be bytes) *)
Lemma sig_necessary : forall cx o imms stk st stk' st',
  exec_op cx o imms stk st = OOk stk' st' -> o <> O_itxn_field ->
  (forall n, imms = [IInt n] -> (n <= 255)%N) ->
  operands_ok (sig_of o imms) stk = true.
Proof.
  intros cx o imms stk st stk' st' H N I8.
  destruct o; try congruence; clear N.
  all: cbv beta iota zeta delta [exec_op exec_pure oki okb okbool push_field push_afield] in H.
  all: break_all H.
  all: try reflexivity.
  all: match goal with Ha : arg1 _ = Some ?n |- _ => apply arg1_imm in Ha; subst imms; pose proof (I8 _ eq_refl) as L8;
         apply N.leb_le in L8 end.
  all: unfold operands_ok; cbv beta iota delta [sig_of imm_nat]; rewrite L8; cbn [sig_apply map].
  - (* dig *) erewrite map_nth_error by eassumption. reflexivity.
  - (* cover *)
    match goal with Hi : insert_at _ _ _ = Some _ |- _ => apply insert_at_len in Hi end.
    destruct (insert_at_some _ (N.to_nat n) (tag v) (map tag stk)) as [s E]; [rewrite map_length; assumption|].
    rewrite E. reflexivity.
  - (* uncover *)
    match goal with Hi : remove_at _ _ = Some _ |- _ => apply remove_at_len in Hi end.
    destruct (remove_at_some _ (N.to_nat n) (map tag stk)) as [x [s E]]; [rewrite map_length; assumption|].
    rewrite E. reflexivity.
  - (* popn *)
    rewrite map_length.
    match goal with Hb : (n <=? N.of_nat _)%N = true |- _ => apply N.leb_le in Hb end.
    assert ((N.to_nat n <=? List.length stk)%nat = true) as -> by (apply Nat.leb_le; lia). reflexivity.
  - (* dupn *) reflexivity.
  - (* bury *)
    rewrite map_length.
    match goal with Hb : (n <=? N.of_nat _)%N = true |- _ => apply N.leb_le in Hb end.
    match goal with Hz : (n =? 0)%N = false |- _ => apply N.eqb_neq in Hz end.
    destruct (N.to_nat n) as [|k] eqn:En; [lia|].
    assert ((S k <=? List.length stk)%nat = true) as -> by (apply Nat.leb_le; lia). reflexivity.
Qed.
