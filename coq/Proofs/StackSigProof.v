(* Proofs/StackSigProof.v — the stack signatures of AVM/StackSig.v are a sound abstraction of
   Machine.exec_op: when the abstract transformer accepts an abstract stack describing the top part of
   the concrete stack and the opcode succeeds, the cells below that part are untouched and the new top
   part has the predicted types. *)
From Coq Require Import List Arith NArith Ascii String Bool Lia.
From PV Require Import Base.Bytes Base.U64 AVM.Syntax AVM.Ops AVM.Machine AVM.StackSig.
Import ListNotations.

Definition stack_has (vs : list value) (ts : list ty) : Prop := Forall2 has_ty vs ts.

(* ---- lattice ---- *)
Lemma ty_eqb_eq : forall a b, ty_eqb a b = true <-> a = b.
Proof. destruct a, b; cbn; split; intro H; try reflexivity; try discriminate. Qed.

Lemma ty_le_refl : forall a, ty_le a a = true.
Proof. destruct a; reflexivity. Qed.

Lemma ty_le_trans : forall a b c, ty_le a b = true -> ty_le b c = true -> ty_le a c = true.
Proof. destruct a, b, c; cbn; intros; try reflexivity; try discriminate. Qed.

Lemma ty_le_TA : forall a, ty_le a TA = true.
Proof. destruct a; reflexivity. Qed.

Lemma has_ty_TA : forall v, has_ty v TA.
Proof. intro v. unfold has_ty. apply ty_le_TA. Qed.

Lemma has_ty_VI : forall n t, has_ty (VI n) t <-> ty_le TU t = true.
Proof. intros. unfold has_ty. cbn. tauto. Qed.
Lemma has_ty_VB : forall b t, has_ty (VB b) t <-> ty_le TB t = true.
Proof. intros. unfold has_ty. cbn. tauto. Qed.

Lemma has_ty_le : forall v a b, has_ty v a -> ty_le a b = true -> has_ty v b.
Proof. intros v a b H L. unfold has_ty in *. eapply ty_le_trans; eauto. Qed.

Lemma has_ty_join_l : forall v a b, has_ty v a -> has_ty v (ty_join a b).
Proof. intros v a b H. unfold has_ty in *. destruct (tag v), a, b; cbn in *; auto. Qed.
Lemma has_ty_join_r : forall v a b, has_ty v b -> has_ty v (ty_join a b).
Proof. intros v a b H. unfold has_ty in *. destruct (tag v), a, b; cbn in *; auto. Qed.

Lemma has_ty_tag : forall v, has_ty v (tag v).
Proof. intro v. unfold has_ty. apply ty_le_refl. Qed.

Lemma stack_has_length : forall vs ts, stack_has vs ts -> List.length vs = List.length ts.
Proof. intros vs ts H. induction H; cbn; auto. Qed.

Lemma stack_has_app : forall a b ta tb, stack_has a ta -> stack_has b tb -> stack_has (a ++ b) (ta ++ tb).
Proof. intros. apply Forall2_app; assumption. Qed.

Lemma stack_has_tags : forall vs, stack_has vs (map tag vs).
Proof. induction vs; cbn; constructor; auto using has_ty_tag. Qed.

Lemma stack_has_TA : forall vs ts, List.length vs = List.length ts -> (forall t, In t ts -> t = TA) -> stack_has vs ts.
Proof.
  induction vs as [|v vs IH]; intros [|t ts] L H; cbn in *; try discriminate; constructor.
  - rewrite (H t); auto using has_ty_TA.
  - apply IH; auto.
Qed.

(* an accepted cell, concretely *)
Lemma accepts_strict_has : forall v c r, has_ty v c -> accepts true c r = true -> has_ty v r.
Proof.
  intros v c r H A. destruct r; cbn in A; try apply has_ty_TA;
    rewrite orb_false_r in A; apply ty_eqb_eq in A; subst; assumption.
Qed.

Lemma accepts_strict_lax : forall c r, accepts true c r = true -> accepts false c r = true.
Proof. intros c r H. destruct r; cbn in *; auto; rewrite orb_false_r in H; rewrite H; reflexivity. Qed.

(* on concrete tags strict = lax *)
Lemma accepts_tag : forall v r b, accepts b (tag v) r = accepts true (tag v) r.
Proof. intros v r b. destruct v, r, b; reflexivity. Qed.

(* ---- take_ops ---- *)
Lemma take_ops_split : forall strict req s rest,
  take_ops strict req s = Some rest ->
  exists pre, s = pre ++ rest /\ List.length pre = List.length req.
Proof.
  induction req as [|r req IH]; intros s rest H; cbn in H.
  - inversion H; subst. exists []. auto.
  - destruct s as [|c s]; try discriminate.
    destruct (accepts strict c r); try discriminate.
    destruct (IH _ _ H) as [pre [E L]]. exists (c :: pre). cbn. subst. auto.
Qed.

Lemma take_ops_strict_lax : forall req s rest, take_ops true req s = Some rest -> take_ops false req s = Some rest.
Proof.
  induction req as [|r req IH]; intros s rest H; cbn in *; auto.
  destruct s as [|c s]; try discriminate.
  destruct (accepts true c r) eqn:A; try discriminate.
  rewrite (accepts_strict_lax _ _ A). auto.
Qed.

(* Forall2 splitting at a known prefix length *)
Lemma stack_has_split : forall vs pre rest,
  stack_has vs (pre ++ rest) ->
  exists v1 v2, vs = v1 ++ v2 /\ stack_has v1 pre /\ stack_has v2 rest.
Proof. intros vs pre rest H. apply Forall2_app_inv_r in H. destruct H as [v1 [v2 [H1 [H2 E]]]]. exists v1, v2. auto. Qed.

(* concrete strict acceptance from abstract strict acceptance *)
Lemma take_ops_concrete : forall req abs rest vs,
  take_ops true req abs = Some rest -> stack_has vs abs ->
  exists rest', take_ops true req (map tag vs) = Some rest'.
Proof.
  induction req as [|r req IH]; intros abs rest vs H S; cbn in *.
  - eauto.
  - destruct abs as [|c abs]; try discriminate.
    inversion S as [|v c' vs' abs' Hv S']; subst. cbn.
    destruct (accepts true c r) eqn:A; try discriminate.
    assert (accepts true (tag v) r = true) as ->.
    { destruct r; cbn in *; auto; rewrite orb_false_r in *; apply ty_eqb_eq in A; subst;
        unfold has_ty in Hv; destruct (tag v); cbn in *; auto; discriminate. }
    eapply IH; eauto.
Qed.
