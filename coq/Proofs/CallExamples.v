(* Proofs/CallExamples.v — C02: non-vacuity of the calling-convention theorems on concrete programs
   executed by the reference machine. *)
From Coq Require Import String.
From Coq Require Import Arith NArith Bool Lia List.
From PV Require Import Base.Bytes AVM.Syntax AVM.Ops AVM.Machine Comp.Passes Comp.Compile
  Comp.SpillSem Proofs.SpillProof Proofs.PrologueProof Proofs.CallPartial.
Import ListNotations.
Notation length := List.length.
Local Open Scope string_scope.

Definition cx0 : ctx := mkCtx true [] 0 [] [] 0.
Definition st0 : mstate := init_state [] [] [].

(* ---- frame pointers: f(a, b) = a + b with two locals above the return cell ----
   0 callsub f; 1 return; f: 2 proto 2 1; 3 int 0; 4 int 99; 5 frame_dig -2; 6 frame_dig -1; 7 +;
   8 frame_bury 0; 9 retsub *)
Definition p_fp : program :=
  mkProg 8 [mkP O_callsub [IName "f"]; mkP O_return_ [];
            mkP O_proto [IInt 2; IInt 1]; mkP O_int [IInt 0]; mkP O_int [IInt 99];
            mkP O_frame_dig [IInt 254]; mkP O_frame_dig [IInt 255]; mkP O_add [];
            mkP O_frame_bury [IInt 0]; mkP O_retsub []]
         [("f", 2%nat)].

Definition m_start : mach := mkM 0 [VI 5; VI 3; VI 1000] [] false [] [] st0.

Example ex_fp_whole_call :
  option_map (fun m => (m_pc m, m_stack m, m_calls m)) (msteps cx0 p_fp 9 m_start)
  = Some (1%nat, [VI 8; VI 1000], []).
Proof. vm_compute. reflexivity. Qed.

(* the machine just before [frame_dig -2] (pc 5): two locals above the arguments *)
Definition m_dig : mach :=
  mkM 5 ([VI 99; VI 0] ++ rev [VI 3; VI 5] ++ [VI 1000]) [mkFrame 1 (Some (3, 2, 1)%nat)] false [] [] st0.

Example ex_reach_m_dig : msteps cx0 p_fp 4 m_start = Some m_dig.
Proof. vm_compute. reflexivity. Qed.

Example prologue_fp_nonvacuous :
  step cx0 p_fp m_dig = Running (with_pc_stack m_dig 6 (VI 3 :: m_stack m_dig)).
Proof.
  apply (prologue_fp cx0 p_fp m_dig 1 [] 2 1 0 [VI 3; VI 5] [VI 99; VI 0] [VI 1000] (VI 3));
    try reflexivity; cbn; unfold STACK_MAX; lia.
Qed.

Example callsub_proto_nonvacuous :
  msteps cx0 p_fp 2 m_start
  = Some (mkM 3 [VI 5; VI 3; VI 1000] [mkFrame 1 (Some (3, 2, 1)%nat)] false [] [] st0).
Proof.
  assert (Ha : (height m_start <= STACK_MAX)%nat) by (cbn; unfold STACK_MAX; lia).
  assert (Hb : (N.to_nat 2 <= height m_start)%nat) by (cbn; lia).
  destruct (callsub_proto_steps cx0 p_fp m_start "f" 2 2 1 eq_refl eq_refl eq_refl Ha Hb) as [H1 H2].
  cbn [msteps]. rewrite H1, H2. reflexivity.
Qed.

(* just before [frame_bury 0] (pc 8): result on top of the locals [99] and cell0 = 0 *)
Definition m_bury : mach :=
  mkM 8 (VI 8 :: [VI 99] ++ VI 0 :: rev [VI 3; VI 5] ++ [VI 1000]) [mkFrame 1 (Some (3, 2, 1)%nat)] false [] [] st0.

Example ex_reach_m_bury : msteps cx0 p_fp 7 m_start = Some m_bury.
Proof. vm_compute. reflexivity. Qed.

Example retsub_fp_nonvacuous :
  msteps cx0 p_fp 2 m_bury = Some (mkM 1 [VI 8; VI 1000] [] false [] [] st0).
Proof.
  assert (Ha : (height m_bury <= STACK_MAX)%nat) by (cbn; unfold STACK_MAX; lia).
  destruct (retsub_fp cx0 p_fp m_bury 1 [] 2 [] (VI 8) (VI 0) [VI 99] [VI 3; VI 5] [VI 1000]
              eq_refl eq_refl eq_refl Ha eq_refl eq_refl) as [H1 H2].
  cbn [msteps]. rewrite H1, H2. reflexivity.
Qed.

(* ---- scratch convention: f(a, b) = a - b, parameters in slots 10 and 11 ----
   0 callsub f; 1 return; f: 2 store 11; 3 store 10; 4 load 10; 5 load 11; 6 -; 7 retsub *)
Definition p_sc : program :=
  mkProg 6 [mkP O_callsub [IName "f"]; mkP O_return_ [];
            mkP O_store [IInt 11]; mkP O_store [IInt 10];
            mkP O_load [IInt 10]; mkP O_load [IInt 11]; mkP O_minus []; mkP O_retsub []]
         [("f", 2%nat)].

Definition m_sc : mach := mkM 0 (rev [VI 9; VI 4] ++ [VI 1000]) [] false [] [] st0.

Definition f_sub (args : list value) : value :=
  match args with [VI a; VI b] => VI (a - b) | _ => VI 0 end.

Example call_correct_partial_nonvacuous :
  exists st2, msteps cx0 p_sc (2 + 2 + 3) m_sc = Some (mkM 1 [VI 5; VI 1000] [] false [] [] st2).
Proof.
  apply (call_correct_partial_fun cx0 p_sc f_sub m_sc "f" 2 [10; 11]%N [VI 9; VI 4] [VI 1000]
           [mkP O_load [IInt 10]; mkP O_load [IInt 11]; mkP O_minus []] []);
    try reflexivity; try (cbn; unfold STACK_MAX; lia).
  - intros j i Hj. destruct j as [|[|[|[|[|j]]]]]; cbn in Hj;
      [| | | | |destruct j; discriminate]; injection Hj as <-; reflexivity.
  - repeat constructor; cbn; intuition discriminate.
  - repeat constructor.
  - intros st1 Hb.
    pose proof (Hb 0%nat 10%N (VI 9) eq_refl eq_refl) as H10.
    pose proof (Hb 1%nat 11%N (VI 4) eq_refl eq_refl) as H11.
    unfold sc_of in H10, H11.
    eexists. cbn [mrun p_op p_imms].
    change (STACK_MAX <? length [VI 1000])%nat with false. cbv iota.
    change (exec_op cx0 O_load [IInt 10] [VI 1000] st1)
      with (OOk (scratch_get (s_scratch st1) 10 :: [VI 1000]) st1).
    cbv iota. rewrite H10.
    change (STACK_MAX <? length [VI 9; VI 1000])%nat with false. cbv iota.
    change (exec_op cx0 O_load [IInt 11] [VI 9; VI 1000] st1)
      with (OOk (scratch_get (s_scratch st1) 11 :: [VI 9; VI 1000]) st1).
    cbv iota. rewrite H11.
    change (STACK_MAX <? length [VI 4; VI 9; VI 1000])%nat with false. cbv iota.
    reflexivity.
Qed.

(* the scratch prologue in the straight-line semantics *)
Example prologue_scratch_nonvacuous :
  exists m', srun callee_none 0 (scratch_prologue [10; 11]%N) (rev [VI 9; VI 4] ++ [VI 1000]) m0 = Some ([VI 1000], m')
             /\ m' 10%N = VI 9 /\ m' 11%N = VI 4 /\ m' 12%N = m0 12%N.
Proof.
  destruct (prologue_scratch callee_none 0 [10; 11]%N [VI 9; VI 4] [VI 1000] m0) as [m' [H1 [H2 H3]]].
  - repeat constructor; cbn; intuition discriminate.
  - repeat constructor.
  - reflexivity.
  - exists m'. split; [exact H1|]. split; [|split].
    + exact (proj1 (H2 0%nat 10%N (VI 9) eq_refl eq_refl)).
    + exact (proj1 (H2 1%nat 11%N (VI 4) eq_refl eq_refl)).
    + apply H3. cbn. intuition discriminate.
Qed.
