(* Proofs/HistoryCompose.v — history independence of the id-dependent stages (property C11):
   shift lemma (HistoryEvents) + rename invariance (HistoryAssign). *)
From Coq Require Import NArith List Bool Lia.
From PV Require Import Hist.Events Hist.Assign Proofs.HistoryEvents Proofs.HistoryAssign.
Import ListNotations.
Local Open Scope N_scope.

Definition addN (d : N) : N -> N := fun i => i + d.

Lemma addN_mono d : strictly_monotone (addN d).
Proof. unfold strictly_monotone, addN. intros; lia. Qed.

(* ---------------- reading objects off a shifted trace ---------------- *)
Lemma slot_at_shift a b tr pos :
  slot_at (map (shift_item a b) tr) pos = option_map (rename_slot (addN a)) (slot_at tr pos).
Proof.
  unfold slot_at. rewrite nth_error_map. destruct (nth_error tr pos) as [[i|n|t|i]|]; reflexivity.
Qed.

Lemma sub_at_shift a b tr pos :
  sub_at (map (shift_item a b) tr) pos = option_map (rename_sub (addN b)) (sub_at tr pos).
Proof.
  unfold sub_at. rewrite nth_error_map. destruct (nth_error tr pos) as [[i|n|t|i]|]; reflexivity.
Qed.

Lemma pick_map {A} (f g : nat -> option A) (h : A -> A) ps :
  (forall p, g p = option_map h (f p)) -> pick g ps = map h (pick f ps).
Proof.
  intros H. induction ps as [|p t IH]; cbn; [reflexivity|].
  rewrite H. destruct (f p); cbn; [f_equal|]; exact IH.
Qed.

Definition is_sub_pos (tr : list titem) (oid : N) : Prop :=
  exists i, nth_error tr (N.to_nat oid) = Some (TSub i).

Lemma sub_key_shift a b tr oid :
  is_sub_pos tr oid -> sub_key (map (shift_item a b) tr) oid = sub_key tr oid + b.
Proof. intros [i H]. unfold sub_key. rewrite nth_error_map, H. reflexivity. Qed.

(* compile order with two keys that compare alike on the nodes that can be called *)
Lemma corder_ext (P : N -> Prop) (k1 k2 : N -> N) (calls : N -> list N) :
  (forall n c, In c (calls n) -> P c) ->
  (forall x y, P x -> P y -> (k1 x <=? k1 y) = (k2 x <=? k2 y)) ->
  forall fuel cur vis, corder fuel k1 calls cur vis = corder fuel k2 calls cur vis.
Proof.
  intros Hc Hk. induction fuel as [|fuel IH]; intros cur vis; cbn [corder]; [reflexivity|].
  set (vis1 := if memN cur vis then vis else vis ++ [cur]).
  set (new := filter (fun s => negb (memN s vis1)) (dedup (calls cur) [])).
  assert (Hnew : forall c, In c new -> P c).
  { intros c Hin. unfold new in Hin. apply filter_In in Hin as [Hin _].
    apply (Hc cur). clear -Hin. revert Hin. generalize (@nil N).
    induction (calls cur) as [|x t IHt]; intros seen Hin; cbn in Hin; [destruct Hin|].
    destruct (memN x seen); [right; eapply IHt; exact Hin|].
    destruct Hin as [->|Hin]; [left; reflexivity | right; eapply IHt; exact Hin]. }
  rewrite (sort_by_ext k1 k2 new) by (intros x y Hx Hy; apply Hk; apply Hnew; assumption).
  generalize (sort_by k2 new). generalize vis1. intros v l. revert v.
  induction l as [|s t IHl]; intros v; cbn [fold_left]; [reflexivity|]. rewrite IH. apply IHl.
Qed.

Definition calls_are_subs (p : program) (tr : list titem) : Prop :=
  forall n c, In c (p_calls p n) -> is_sub_pos tr c.

(* ---------------- the view of a program does not depend on the starting counters ---------------- *)
Lemma compile_view_shift (m : mode) (p : program) (a b : N) (g : gst) :
  calls_are_subs p (r_tr (run_evs m (p_events p) g)) ->
  same_view (compile_view m p (shift_st a b g)) (compile_view m p g).
Proof.
  intros Hcalls. unfold compile_view. rewrite run_evs_shift. cbn [shift_res r_tr].
  set (tr := r_tr (run_evs m (p_events p) g)) in *.
  rewrite (pick_map (slot_at tr) (slot_at (map (shift_item a b) tr)) (rename_slot (addN a)))
    by (intros q; apply slot_at_shift).
  rewrite (pick_map (sub_at tr) (sub_at (map (shift_item a b) tr)) (rename_sub (addN b)))
    by (intros q; apply sub_at_shift).
  destruct (assign_rename_invariant_proof (addN a) (pick (slot_at tr) (p_slots p)) (addN_mono a)) as [Hfail [Hfw Hbw]].
  unfold same_view. cbn [v_slots v_labels v_order]. repeat split.
  - exact Hfail.
  - intros [o' [Hoid Hasg]]. destruct (Hbw o' k Hasg) as [o [_ ->]].
    exists o. split; [rewrite <- Hoid; symmetry; apply rename_slot_oid | apply Hfw; exact Hasg].
  - intros [o [Hoid Hasg]]. exists (rename_slot (addN a) o).
    split; [rewrite rename_slot_oid; exact Hoid | apply Hfw; exact Hasg].
  - rewrite (resolve_rename_invariant_proof (addN b)) by apply addN_mono.
    rewrite map_map. apply map_ext. intros [s k]. reflexivity.
  - apply (corder_ext (is_sub_pos tr)).
    + exact Hcalls.
    + intros x y Hx Hy. rewrite !sub_key_shift by assumption. apply (mono_leb (addN b) (addN_mono b)).
Qed.

Theorem compile_history_independent_proof (m : mode) (h : list evs) (p : program) :
  let g := run_history m h init_gst in
  g_marker g = None ->
  calls_are_subs p (r_tr (run_evs m (p_events p) init_gst)) ->
  same_view (compile_view m p g) (compile_view m p init_gst).
Proof.
  intros g Hm Hc.
  pose proof (history_monotone m h init_gst) as [Hs _]. fold g in Hs. change (g_slot init_gst) with NUM_SLOTS in Hs.
  rewrite (shift_st_of_init g Hs Hm). apply compile_view_shift. exact Hc.
Qed.

Theorem compile_history_independent_fixed_proof (h : list evs) (p : program) :
  calls_are_subs p (r_tr (run_evs Fixed (p_events p) init_gst)) ->
  same_view (compile_view Fixed p (run_history Fixed h init_gst)) (compile_view Fixed p init_gst).
Proof.
  intros Hc. apply compile_history_independent_proof; [|exact Hc].
  apply history_marker_fixed. reflexivity.
Qed.
