(* Proofs/StageELink.v — stage E, part 1: the MACHINE BRIDGE.
   A flattened instruction list ([list comp], executed by Comp/LinearSem.v with labels resolved by
   position in the list) is LINKED into a [program] of AVM/Machine.v (labels resolved to indices into the
   list of real instructions) by the assembler's own [build_prog]; [Machine.step] on the linked program
   simulates [lstep] on the list, step for step; halting configurations of the list correspond to verdicts
   of [Machine.run]. *)
From Coq Require Import List Arith NArith Ascii String Bool Lia.
From PV Require Import Base.Bytes Base.Sexp AVM.Syntax AVM.Ops AVM.Machine AVM.Parse Src.Expr Src.Denote
  Comp.Blocks Comp.GraphSem Comp.LinearSem.
Import ListNotations.

(* ---------------------------------------------------------------------------------------------- *)
(* 1. from components to assembler statements                                                      *)
(* ---------------------------------------------------------------------------------------------- *)

(* what the assembler makes of one argument; as [Src.Denote.arg_to_imm] without placeholders (a slot object
   or an unresolved subroutine cannot be assembled), the method selectors being the table [msel] *)
Definition imm_of_arg (msel : list (string * bytes)) (o : opc) (a : arg) : option imm :=
  match a with
  | AInt n => Some (IInt n)
  | ASlot _ => None
  | ALbl l => Some (IName l)
  | ASub _ => None
  | AStr s =>
      match o with
      | O_byte | O_pushbytes =>
          match parse_bytes_arg (tokens_of_line s) with Some (b, []) => Some (IBytes b) | _ => None end
      | O_int | O_pushint => option_map IInt (parse_int_arg s)
      | O_addr => match decode_base32 s with Some b => Some (IBytes (firstn 32 b)) | None => None end
      | O_method_signature =>
          match parse_string_literal s with
          | Some sig => option_map IBytes (alookup String.eqb (string_of_bytes sig) msel)
          | None => None
          end
      | _ => Some (IName s)
      end
  end.

Fixpoint imms_of_args (msel : list (string * bytes)) (o : opc) (l : list arg) : option (list imm) :=
  match l with
  | [] => Some []
  | a :: t => match imm_of_arg msel o a, imms_of_args msel o t with Some x, Some r => Some (x :: r) | _, _ => None end
  end.

Lemma imm_of_arg_env env o a x : imm_of_arg (e_msel env) o a = Some x -> arg_to_imm env o a = Some x.
Proof. destruct a as [n|s|l|u|sb]; cbn [imm_of_arg arg_to_imm]; intros H; try exact H; discriminate H. Qed.

Lemma imms_of_args_env env o l : forall im, imms_of_args (e_msel env) o l = Some im -> args_to_imms env o l = Some im.
Proof.
  induction l as [|a t IH]; intros im H; cbn [imms_of_args args_to_imms] in *; [exact H|].
  destruct (imm_of_arg (e_msel env) o a) as [x|] eqn:Ea; [|discriminate H].
  destruct (imms_of_args (e_msel env) o t) as [r|] eqn:Et; [|discriminate H].
  rewrite (imm_of_arg_env env o a x Ea), (IH r eq_refl). exact H.
Qed.

Lemma imms_of_args_no_slot msel o l im : imms_of_args msel o l = Some im -> forall u, l <> [ASlot u].
Proof. intros H u E. subst l. cbn in H. discriminate H. Qed.

Definition is_comment (o : opc) : bool := match o with O_comment => true | _ => false end.

(* a component the assembler turns into an instruction: an op that is not a comment *)
Definition real (c : comp) : bool :=
  match c with COp i => negb (is_comment (i_op i)) | _ => false end.

(* the statements of one component: a comment op is a comment line (no statement) *)
Definition stmt_of (msel : list (string * bytes)) (c : comp) : option (list stmt) :=
  match c with
  | COp i =>
      if is_comment (i_op i) then Some []
      else option_map (fun im => [SInstr (mkP (i_op i) im)]) (imms_of_args msel (i_op i) (i_args i))
  | CLabel l _ => Some [SLabel l]
  | CPragma v => Some [SPragma v]
  end.

Fixpoint stmts_of (msel : list (string * bytes)) (code : list comp) : option (list stmt) :=
  match code with
  | [] => Some []
  | c :: t => match stmt_of msel c, stmts_of msel t with Some x, Some r => Some (x ++ r) | _, _ => None end
  end.

(* LINKING = the assembler's own label resolution applied to these statements *)
Definition link (msel : list (string * bytes)) (code : list comp) : option program :=
  match stmts_of msel code with
  | Some ss => build_prog ss 0 1%N [] []
  | None => None
  end.

(* machine pc of a list position: the number of real instructions before it *)
Fixpoint mpc (code : list comp) (pc : nat) : nat :=
  match pc, code with
  | S k, c :: t => (if real c then 1 else 0) + mpc t k
  | _, _ => 0
  end.

Lemma mpc_0 code : mpc code 0 = 0.
Proof. destruct code; reflexivity. Qed.

(* the instruction the assembler makes of an op *)
Definition pinstr_of (msel : list (string * bytes)) (i : instr) : option pinstr :=
  option_map (mkP (i_op i)) (imms_of_args msel (i_op i) (i_args i)).

(* ---------------------------------------------------------------------------------------------- *)
(* 2. what build_prog computes                                                                      *)
(* ---------------------------------------------------------------------------------------------- *)
Section BuildSpec.
  Variable msel : list (string * bytes).

  (* a label already in the table makes a second definition fail *)
  Lemma build_prog_dup : forall code ss pc ver acc labels P l x,
    stmts_of msel code = Some ss -> build_prog ss pc ver acc labels = Some P ->
    alookup String.eqb l labels = Some x -> find_label l code = None.
  Proof.
    induction code as [|c t IH]; intros ss pc ver acc labels P l x S B L; [reflexivity|].
    cbn [stmts_of] in S.
    destruct (stmt_of msel c) as [s1|] eqn:E1; [|discriminate S].
    destruct (stmts_of msel t) as [r|] eqn:Et; [|discriminate S].
    injection S as <-.
    destruct c as [i|l' cm|v]; cbn [stmt_of] in E1; cbn [find_label].
    - destruct (is_comment (i_op i)).
      + injection E1 as <-. cbn [app] in B. rewrite (IH _ _ _ _ _ _ _ _ eq_refl B L). reflexivity.
      + destruct (imms_of_args msel (i_op i) (i_args i)) as [im|]; [|discriminate E1].
        injection E1 as <-. cbn [app build_prog] in B. rewrite (IH _ _ _ _ _ _ _ _ eq_refl B L). reflexivity.
    - injection E1 as <-. cbn [app build_prog] in B.
      destruct (alookup String.eqb l' labels) as [y|] eqn:E2; [discriminate B|].
      destruct (String.eqb l l') eqn:El.
      + apply String.eqb_eq in El. subst l'. rewrite L in E2. discriminate E2.
      + assert (L' : alookup String.eqb l ((l', pc) :: labels) = Some x) by (cbn [alookup]; rewrite El; exact L).
        rewrite (IH _ _ _ _ _ _ _ _ eq_refl B L'). reflexivity.
    - injection E1 as <-. cbn [app build_prog] in B. rewrite (IH _ _ _ _ _ _ _ _ eq_refl B L). reflexivity.
  Qed.

  (* the instructions of the program, in list order *)
  Fixpoint pinstrs (code : list comp) : list pinstr :=
    match code with
    | [] => []
    | COp i :: t =>
        if is_comment (i_op i) then pinstrs t
        else match pinstr_of msel i with Some p => p :: pinstrs t | None => pinstrs t end
    | _ :: t => pinstrs t
    end.

  Lemma build_prog_spec : forall code ss pc ver acc labels P,
    stmts_of msel code = Some ss -> build_prog ss pc ver acc labels = Some P ->
    pr_code P = (rev acc ++ pinstrs code)%list /\
    forall l, label_pc P l =
              match find_label l code with
              | Some p => Some (pc + mpc code p)
              | None => alookup String.eqb l labels
              end.
  Proof.
    induction code as [|c t IH]; intros ss pc ver acc labels P S B.
    - injection S as <-. cbn [build_prog] in B. injection B as <-. cbn [pr_code pinstrs find_label].
      split; [now rewrite app_nil_r|]. intros l. reflexivity.
    - cbn [stmts_of] in S.
      destruct (stmt_of msel c) as [s1|] eqn:E1; [|discriminate S].
      destruct (stmts_of msel t) as [r|] eqn:Et; [|discriminate S].
      injection S as <-.
      destruct c as [i|l' cm|v]; cbn [stmt_of] in E1; cbn [find_label pinstrs].
      + destruct (is_comment (i_op i)) eqn:Ec.
        * injection E1 as <-. cbn [app] in B. destruct (IH _ _ _ _ _ _ eq_refl B) as [C L]. split; [exact C|].
          intros l. rewrite L. destruct (find_label l t) as [p|]; [|reflexivity].
          cbn [option_map mpc real]. rewrite Ec. reflexivity.
        * unfold pinstr_of. destruct (imms_of_args msel (i_op i) (i_args i)) as [im|]; [|discriminate E1].
          injection E1 as <-. cbn [app build_prog] in B. destruct (IH _ _ _ _ _ _ eq_refl B) as [C L].
          cbn [option_map]. split.
          { rewrite C. cbn [rev]. rewrite <- app_assoc. reflexivity. }
          intros l. rewrite L. destruct (find_label l t) as [p|]; [|reflexivity].
          cbn [option_map mpc real]. rewrite Ec. cbn [negb]. f_equal. lia.
      + injection E1 as <-. cbn [app build_prog] in B.
        destruct (alookup String.eqb l' labels) as [y|] eqn:E2; [discriminate B|].
        destruct (IH _ _ _ _ _ _ eq_refl B) as [C L]. split; [exact C|].
        intros l. rewrite L. destruct (String.eqb l l') eqn:El.
        * apply String.eqb_eq in El. subst l'.
          assert (L' : alookup String.eqb l ((l, pc) :: labels) = Some pc) by (cbn [alookup]; now rewrite String.eqb_refl).
          rewrite (build_prog_dup t r _ _ _ _ _ _ _ Et B L'). rewrite L'. rewrite mpc_0. f_equal. lia.
        * destruct (find_label l t) as [p|]; cbn [option_map mpc real].
          { reflexivity. }
          cbn [alookup]. rewrite El. reflexivity.
      + injection E1 as <-. cbn [app build_prog] in B. destruct (IH _ _ _ _ _ _ eq_refl B) as [C L]. split; [exact C|].
        intros l. rewrite L. destruct (find_label l t) as [p|]; reflexivity.
  Qed.

  (* where the instruction at a list position sits in [pinstrs] *)
  Lemma pinstrs_nth : forall code ss pc,
    stmts_of msel code = Some ss ->
    match nth_error code pc with
    | Some (COp i) =>
        if is_comment (i_op i) then mpc code (S pc) = mpc code pc
        else exists im, imms_of_args msel (i_op i) (i_args i) = Some im /\
                        nth_error (pinstrs code) (mpc code pc) = Some (mkP (i_op i) im) /\
                        mpc code (S pc) = S (mpc code pc)
    | Some _ => mpc code (S pc) = mpc code pc
    | None => nth_error (pinstrs code) (mpc code pc) = None
    end.
  Proof.
    induction code as [|c t IH]; intros ss pc HS.
    - destruct pc; reflexivity.
    - cbn [stmts_of] in HS.
      destruct (stmt_of msel c) as [s1|] eqn:E1; [|discriminate HS].
      destruct (stmts_of msel t) as [r|] eqn:Et; [|discriminate HS].
      destruct pc as [|k].
      + cbn [nth_error]. destruct c as [i|l' cm|v]; cbn [stmt_of] in E1.
        * destruct (is_comment (i_op i)) eqn:Ec.
          { cbn [mpc real]. rewrite Ec, mpc_0. reflexivity. }
          destruct (imms_of_args msel (i_op i) (i_args i)) as [im|] eqn:Ei; [|discriminate E1].
          exists im. split; [reflexivity|]. cbn [pinstrs mpc real]. rewrite Ec. unfold pinstr_of. rewrite Ei.
          cbn [option_map nth_error negb]. rewrite mpc_0. split; reflexivity.
        * cbn [mpc real]. rewrite mpc_0. reflexivity.
        * cbn [mpc real]. rewrite mpc_0. reflexivity.
      + cbn [nth_error]. specialize (IH r k eq_refl).
        assert (Shift : forall q, mpc (c :: t) (S q) = (if real c then 1 else 0) + mpc t q) by reflexivity.
        assert (Nth : forall n, nth_error (pinstrs (c :: t)) ((if real c then 1 else 0) + n) = nth_error (pinstrs t) n).
        { intros n. destruct c as [i|l' cm|v]; cbn [real pinstrs stmt_of] in *; try reflexivity.
          destruct (is_comment (i_op i)); [reflexivity|]. unfold pinstr_of.
          destruct (imms_of_args msel (i_op i) (i_args i)) as [im|]; [|discriminate E1]. reflexivity. }
        rewrite !Shift.
        destruct (nth_error t k) as [[i|l' cm|v]|].
        * destruct (is_comment (i_op i)); [now rewrite IH|].
          destruct IH as (im & Ei & En & Em). exists im. split; [exact Ei|]. split; [rewrite Nth; exact En|].
          rewrite Em. lia.
        * now rewrite IH.
        * now rewrite IH.
        * rewrite Nth. exact IH.
  Qed.
End BuildSpec.

(* the linked program, characterised *)
Lemma link_spec msel code P : link msel code = Some P ->
  pr_code P = pinstrs msel code /\
  forall l, label_pc P l = option_map (mpc code) (find_label l code).
Proof.
  unfold link. destruct (stmts_of msel code) as [ss|] eqn:S; [|discriminate]. intros B.
  destruct (build_prog_spec msel code ss 0 1%N [] [] P S B) as [C L]. split; [exact C|].
  intros l. rewrite L. destruct (find_label l code); reflexivity.
Qed.

(* a component list whose labels are pairwise different and whose arguments assemble can be linked *)
Fixpoint labels_of (code : list comp) : list string :=
  match code with
  | [] => []
  | CLabel l _ :: t => l :: labels_of t
  | _ :: t => labels_of t
  end.

Lemma find_label_none code l : ~ In l (labels_of code) -> find_label l code = None.
Proof.
  induction code as [|c t IH]; intros H; [reflexivity|].
  destruct c as [i|l' cm|v]; cbn [find_label labels_of] in *.
  - now rewrite IH.
  - destruct (String.eqb l l') eqn:E.
    + apply String.eqb_eq in E. subst. exfalso. apply H. left. reflexivity.
    + rewrite IH; [reflexivity|]. intros Hin. apply H. right. exact Hin.
  - now rewrite IH.
Qed.

Lemma build_prog_total msel : forall code ss pc ver acc labels,
  stmts_of msel code = Some ss -> NoDup (labels_of code) ->
  (forall l, In l (labels_of code) -> alookup String.eqb l labels = None) ->
  exists P, build_prog ss pc ver acc labels = Some P.
Proof.
  induction code as [|c t IH]; intros ss pc ver acc labels S N D.
  - injection S as <-. eexists. reflexivity.
  - cbn [stmts_of] in S.
    destruct (stmt_of msel c) as [s1|] eqn:E1; [|discriminate S].
    destruct (stmts_of msel t) as [r|] eqn:Et; [|discriminate S].
    injection S as <-.
    destruct c as [i|l' cm|v]; cbn [stmt_of] in E1; cbn [labels_of] in N, D.
    + destruct (is_comment (i_op i)).
      * injection E1 as <-. cbn [app]. apply (IH r); auto.
      * destruct (imms_of_args msel (i_op i) (i_args i)) as [im|]; [|discriminate E1].
        injection E1 as <-. cbn [app build_prog]. apply (IH r); auto.
    + injection E1 as <-. cbn [app build_prog]. rewrite (D l' (or_introl eq_refl)).
      inversion N as [|? ? Hn Nt]; subst. apply (IH r); auto.
      intros l Hin. cbn [alookup]. destruct (String.eqb l l') eqn:E.
      * apply String.eqb_eq in E. subst. contradiction.
      * apply D. right. exact Hin.
    + injection E1 as <-. cbn [app build_prog]. apply (IH r); auto.
Qed.

Lemma link_total msel code ss : stmts_of msel code = Some ss -> NoDup (labels_of code) ->
  exists P, link msel code = Some P.
Proof.
  intros S N. unfold link. rewrite S. apply (build_prog_total msel code ss 0 1%N [] [] S N). intros; reflexivity.
Qed.

(* ---------------------------------------------------------------------------------------------- *)
(* 3. opcodes the machine's [step] (not [exec_op]) handles                                          *)
(* ---------------------------------------------------------------------------------------------- *)
Lemma exec_pure_ctrl o a stk :
  match o with O_return_ | O_retsub | O_b | O_bz | O_bnz | O_comment | O_err => True | _ => False end ->
  exec_pure o a stk = PNot.
Proof.
  intros H. destruct o; try contradiction;
    destruct stk as [|[x|x] [|[y|y] [|[z|z] [|[w|w] r]]]]; reflexivity.
Qed.

Lemma exec_op_return cx im stk st : exec_op cx O_return_ im stk st = ONot.
Proof. unfold exec_op. rewrite exec_pure_ctrl by exact I. reflexivity. Qed.
Lemma exec_op_retsub cx im stk st : exec_op cx O_retsub im stk st = ONot.
Proof. unfold exec_op. rewrite exec_pure_ctrl by exact I. reflexivity. Qed.
Lemma exec_op_b cx im stk st : exec_op cx O_b im stk st = ONot.
Proof. unfold exec_op. rewrite exec_pure_ctrl by exact I. reflexivity. Qed.
Lemma exec_op_bz cx im stk st : exec_op cx O_bz im stk st = ONot.
Proof. unfold exec_op. rewrite exec_pure_ctrl by exact I. reflexivity. Qed.
Lemma exec_op_bnz cx im stk st : exec_op cx O_bnz im stk st = ONot.
Proof. unfold exec_op. rewrite exec_pure_ctrl by exact I. reflexivity. Qed.
Lemma exec_op_err cx im stk st : exec_op cx O_err im stk st = ONot.
Proof. unfold exec_op. rewrite exec_pure_ctrl by exact I. reflexivity. Qed.
Lemma exec_op_comment cx im stk st : exec_op cx O_comment im stk st = OOk stk st.
Proof. unfold exec_op. rewrite exec_pure_ctrl by exact I. reflexivity. Qed.

(* ---------------------------------------------------------------------------------------------- *)
(* 4. the simulation                                                                                *)
(* ---------------------------------------------------------------------------------------------- *)

(* list configuration (pc counts every component) ~ machine (pc counts real instructions): same operand
   stack, same machine state, empty call stack (LinearSem runs ONE routine: callsub is outside it) *)
Definition rel (code : list comp) (pc : nat) (stk : list value) (st : mstate) (m : mach) : Prop :=
  m_pc m = mpc code pc /\ m_stack m = stk /\ m_st m = st /\ m_calls m = [].

Definition exit_verdict (v : value) : verdict :=
  match v with VI n => if (n =? 0)%N then VReject else VApprove | VB _ => VFail end.
Definition end_verdict (stk : list value) : verdict :=
  match stk with [VI n] => if (n =? 0)%N then VReject else VApprove | _ => VFail end.

(* the verdict the machine gives when the list halts; [LUnsup] (LinearSem is inconclusive) has none *)
Definition verdict_of (h : lconf) : option verdict :=
  match h with
  | LExit v _ => Some (exit_verdict v)
  | LEnd stk _ => Some (end_verdict stk)
  | LRet _ _ => Some VFail          (* retsub with an empty call stack *)
  | LFail => Some VFail
  | LUnsup _ => None
  | LAt _ _ _ => None
  end.

(* the machine at the moment of the verdict *)
Definition final_ok (h : lconf) (m : mach) : Prop :=
  match h with
  | LExit v st => m_st m = st /\ hd_error (m_stack m) = Some v
  | LEnd stk st => m_st m = st /\ m_stack m = stk
  | LRet stk st => m_st m = st /\ m_stack m = stk
  | _ => True
  end.

(* every branch target is defined in the list *)
Definition target_ok (code : list comp) (c : comp) : bool :=
  match c with
  | COp i => match jump_of i with
             | Some (_, l) => match find_label l code with Some _ => true | None => false end
             | None => true
             end
  | _ => true
  end.
Definition targets_ok (code : list comp) : bool := forallb (target_ok code) code.

Lemma is_return_eq o : is_return o = true -> o = O_return_.
Proof. destruct o; intros H; try discriminate H; reflexivity. Qed.
Lemma is_retsub_eq o : is_retsub o = true -> o = O_retsub.
Proof. destruct o; intros H; try discriminate H; reflexivity. Qed.
Lemma is_err_eq o : is_err o = true -> o = O_err.
Proof. destruct o; intros H; try discriminate H; reflexivity. Qed.
Lemma is_comment_eq o : is_comment o = true -> o = O_comment.
Proof. destruct o; intros H; try discriminate H; reflexivity. Qed.

Definition jop (k : jkind) : opc := match k with JB => O_b | JBz => O_bz | JBnz => O_bnz end.

Lemma jump_of_inv i k l : jump_of i = Some (k, l) -> i_op i = jop k /\ i_args i = [ALbl l].
Proof.
  unfold jump_of. destruct i as [o a]. cbn [i_op i_args].
  destruct o; try discriminate; destruct a as [|[n|s|l'|u|sb] [|? ?]]; try discriminate;
    intros H; injection H as <- <-; split; reflexivity.
Qed.

Lemma slot_access_none msel o a im : imms_of_args msel o a = Some im -> slot_access o a = None.
Proof.
  intros H. unfold slot_access. destruct a as [|[n|s|l|u|sb] [|? ?]]; try reflexivity.
  cbn in H. discriminate H.
Qed.

Lemma slot_access_comment a : slot_access O_comment a = None.
Proof. unfold slot_access. destruct a as [|[n|s|l|u|sb] [|? ?]]; reflexivity. Qed.

Section Sim.
  Variable env : denv.
  Variable code : list comp.
  Variable P : program.
  Hypothesis LK : link (e_msel env) code = Some P.
  Hypothesis TG : targets_ok code = true.

  Let cx := e_ctx env.

  Lemma stmts_ok : exists ss, stmts_of (e_msel env) code = Some ss.
  Proof. unfold link in LK. destruct (stmts_of (e_msel env) code) as [ss|]; [eexists; reflexivity|discriminate LK]. Qed.

  Lemma target_defined pc i k l :
    nth_error code pc = Some (COp i) -> jump_of i = Some (k, l) -> exists p, find_label l code = Some p.
  Proof.
    intros Hn Hj. unfold targets_ok in TG. rewrite forallb_forall in TG.
    specialize (TG (COp i) (nth_error_In _ _ Hn)). cbn [target_ok] in TG. rewrite Hj in TG.
    destruct (find_label l code) as [p|]; [eexists; reflexivity|discriminate TG].
  Qed.

  Lemma sim_step pc stk st m c' :
    rel code pc stk st m -> List.length stk <= STACK_MAX ->
    lstep env code (LAt pc stk st) = Some c' ->
    match c' with
    | LAt pc' stk' st' =>
        (exists m', step cx P m = Running m' /\ rel code pc' stk' st' m') \/
        (rel code pc' stk' st' m /\ exists c, nth_error code pc = Some c /\ real c = false)
    | LUnsup _ => True
    | h => exists v, verdict_of h = Some v /\ step cx P m = Done v m /\ final_ok h m
    end.
  Proof.
    intros (Rpc & Rstk & Rst & Rcalls) Hh Hstep.
    destruct stmts_ok as [ss HS]. destruct (link_spec _ _ _ LK) as [PC PL].
    pose proof (pinstrs_nth (e_msel env) code ss pc HS) as Hn.
    cbn [lstep] in Hstep.
    assert (Hheight : (STACK_MAX <? height m)%nat = false).
    { unfold height. rewrite Rstk. apply Nat.ltb_ge. exact Hh. }
    destruct (nth_error code pc) as [[i|lb cm|v]|] eqn:En.
    - (* an op *)
      injection Hstep as <-.
      destruct (is_comment (i_op i)) eqn:Ec.
      + (* comment: no machine step *)
        apply is_comment_eq in Ec. unfold lstep_op. rewrite Ec. cbn [is_return is_retsub].
        assert (Ej : jump_of i = None) by (unfold jump_of; rewrite Ec; reflexivity).
        rewrite Ej. unfold do_op. rewrite slot_access_comment.
        destruct (args_to_imms env O_comment (i_args i)) as [im|]; [|exact I].
        rewrite exec_op_comment. right. split.
        { repeat split; try assumption. rewrite Hn. exact Rpc. }
        exists (COp i). split; [reflexivity|]. cbn [real]. rewrite Ec. reflexivity.
      + destruct Hn as (im & Ei & Enth & Empc).
        assert (Hm : nth_error (pr_code P) (m_pc m) = Some (mkP (i_op i) im)) by (rewrite PC, Rpc; exact Enth).
        unfold lstep_op.
        destruct (is_return (i_op i)) eqn:Er.
        { apply is_return_eq in Er.
          assert (St : step cx P m =
                       match stk with
                       | VI n :: _ => Done (if (n =? 0)%N then VReject else VApprove) m
                       | _ => Done VFail m
                       end).
          { unfold step. rewrite Hm, Hheight. cbn [p_op p_imms]. rewrite Er, exec_op_return, Rstk. reflexivity. }
          destruct stk as [|[n|b] r].
          - exists VFail. repeat split. exact St.
          - exists (if (n =? 0)%N then VReject else VApprove). split; [reflexivity|]. split; [exact St|].
            split; [exact Rst|]. rewrite Rstk. reflexivity.
          - exists VFail. split; [reflexivity|]. split; [exact St|]. split; [exact Rst|]. rewrite Rstk. reflexivity. }
        destruct (is_retsub (i_op i)) eqn:Es.
        { apply is_retsub_eq in Es. exists VFail. split; [reflexivity|]. split; [|split; assumption].
          unfold step. rewrite Hm, Hheight. cbn [p_op p_imms]. rewrite Es, exec_op_retsub, Rcalls. reflexivity. }
        destruct (jump_of i) as [[k l]|] eqn:Ej.
        { destruct (jump_of_inv i k l Ej) as [Eo Ea].
          destruct (target_defined pc i k l En Ej) as [p Ep].
          assert (Lp : label_pc P l = Some (mpc code p)) by (rewrite PL, Ep; reflexivity).
          rewrite Ea in Ei. cbn in Ei. injection Ei as <-.
          unfold goto. rewrite Ep.
          destruct k; cbn [jop] in Eo.
          - (* b *)
            left. eexists. split.
            + unfold step. rewrite Hm, Hheight. cbn [p_op p_imms]. rewrite Eo, exec_op_b, Lp. reflexivity.
            + repeat split; cbn; assumption.
          - (* bz *)
            destruct stk as [|[n|b] r]; cbn [truthy].
            + exists VFail. repeat split.
              unfold step. rewrite Hm, Hheight. cbn [p_op p_imms]. rewrite Eo, exec_op_bz, Rstk. reflexivity.
            + assert (St : step cx P m = Running (with_pc_stack m (if (n =? 0)%N then mpc code p else S (m_pc m)) r)).
              { unfold step. rewrite Hm, Hheight. cbn [p_op p_imms]. rewrite Eo, exec_op_bz, Rstk, Lp. reflexivity. }
              destruct (n =? 0)%N; cbn [negb]; left; eexists; (split; [exact St|]); repeat split; cbn; try assumption.
              rewrite Empc, Rpc. reflexivity.
            + exists VFail. repeat split.
              unfold step. rewrite Hm, Hheight. cbn [p_op p_imms]. rewrite Eo, exec_op_bz, Rstk. reflexivity.
          - (* bnz *)
            destruct stk as [|[n|b] r]; cbn [truthy].
            + exists VFail. repeat split.
              unfold step. rewrite Hm, Hheight. cbn [p_op p_imms]. rewrite Eo, exec_op_bnz, Rstk. reflexivity.
            + assert (St : step cx P m = Running (with_pc_stack m (if (n =? 0)%N then S (m_pc m) else mpc code p) r)).
              { unfold step. rewrite Hm, Hheight. cbn [p_op p_imms]. rewrite Eo, exec_op_bnz, Rstk, Lp. reflexivity. }
              destruct (n =? 0)%N; cbn [negb]; left; eexists; (split; [exact St|]); repeat split; cbn; try assumption.
              rewrite Empc, Rpc. reflexivity.
            + exists VFail. repeat split.
              unfold step. rewrite Hm, Hheight. cbn [p_op p_imms]. rewrite Eo, exec_op_bnz, Rstk. reflexivity. }
        (* a plain operation: the same [exec_op] on both sides *)
        unfold do_op. rewrite (slot_access_none _ _ _ _ Ei), (imms_of_args_env env _ _ _ Ei).
        fold cx.
        destruct (exec_op cx (i_op i) im stk st) as [s' st'| | |] eqn:Ex.
        * left. eexists. split.
          { unfold step. rewrite Hm, Hheight. cbn [p_op p_imms]. rewrite Rstk, Rst, Ex. reflexivity. }
          repeat split; cbn; try assumption. rewrite Empc, Rpc. reflexivity.
        * exists VFail. repeat split.
          unfold step. rewrite Hm, Hheight. cbn [p_op p_imms]. rewrite Rstk, Rst, Ex. reflexivity.
        * destruct (is_err (i_op i)) eqn:Ee; [|exact I].
          apply is_err_eq in Ee. exists VFail. repeat split.
          unfold step. rewrite Hm, Hheight. cbn [p_op p_imms]. rewrite Rstk, Rst, Ex, Ee. reflexivity.
        * exact I.
    - injection Hstep as <-. right. split.
      { repeat split; try assumption. rewrite Hn. exact Rpc. }
      eexists. split; reflexivity.
    - injection Hstep as <-. right. split.
      { repeat split; try assumption. rewrite Hn. exact Rpc. }
      eexists. split; reflexivity.
    - (* off the end *)
      injection Hstep as <-. exists (end_verdict stk). split; [reflexivity|]. split; [|split; assumption].
      unfold step. rewrite PC, Rpc, Hn, Rstk. unfold end_verdict.
      destruct stk as [|[n|b] [|? ?]]; reflexivity.
  Qed.
End Sim.

(* ---------------------------------------------------------------------------------------------- *)
(* 5. runs                                                                                          *)
(* ---------------------------------------------------------------------------------------------- *)
Lemma lstar_from_final env code c c' : lfinal c = true -> lstar env code c c' -> c' = c.
Proof.
  intros F H. destruct H as [|c c1 c2 S1 _]; [reflexivity|].
  rewrite (lfinal_stuck env code c F) in S1. discriminate S1.
Qed.

(* the operand stack stays within the AVM's limit along the run from c0 *)
Definition stack_bounded (env : denv) (code : list comp) (c0 : lconf) : Prop :=
  forall pc stk st, lstar env code c0 (LAt pc stk st) -> List.length stk <= STACK_MAX.

Lemma stack_bounded_step env code c c' :
  lstep env code c = Some c' -> stack_bounded env code c -> stack_bounded env code c'.
Proof. intros S1 B pc stk st H. apply (B pc stk st). eapply lstar_step; [exact S1|exact H]. Qed.

Theorem machine_bridge env code P :
  link (e_msel env) code = Some P -> targets_ok code = true ->
  forall c0 h, lstar env code c0 h ->
  forall pc stk st m v, c0 = LAt pc stk st -> rel code pc stk st m ->
    verdict_of h = Some v -> stack_bounded env code c0 ->
    exists n m', (forall k, n <= k -> run k (e_ctx env) P m = (v, m')) /\ final_ok h m'.
Proof.
  intros LK TG c0 h H.
  induction H as [c|c c' c'' S1 H' IH]; intros pc stk st m v E R V B.
  - subst c. discriminate V.
  - subst c.
    assert (Hh : List.length stk <= STACK_MAX) by (apply (B pc stk st); apply lstar_refl).
    pose proof (sim_step env code P LK TG pc stk st m c' R Hh S1) as Sim.
    pose proof (stack_bounded_step env code _ _ S1 B) as B'.
    destruct c' as [pc' stk' st'|stk' st'|v' st'|stk' st'| |o].
    + destruct Sim as [(m1 & St & R1)|(R1 & _)].
      * destruct (IH pc' stk' st' m1 v eq_refl R1 V B') as (n & m' & Hrun & Hfin).
        exists (S n), m'. split; [|exact Hfin].
        intros k Hk. destruct k as [|k]; [lia|]. cbn [run]. rewrite St. apply Hrun. lia.
      * exact (IH pc' stk' st' m v eq_refl R1 V B').
    + assert (Ec : c'' = LEnd stk' st') by (eapply lstar_from_final; [|exact H']; reflexivity). subst c''.
      destruct Sim as (v1 & V1 & St & Hfin). rewrite V1 in V. injection V as <-.
      exists 1, m. split; [|exact Hfin]. intros k Hk. destruct k as [|k]; [lia|]. cbn [run]. rewrite St. reflexivity.
    + assert (Ec : c'' = LExit v' st') by (eapply lstar_from_final; [|exact H']; reflexivity). subst c''.
      destruct Sim as (v1 & V1 & St & Hfin). rewrite V1 in V. injection V as <-.
      exists 1, m. split; [|exact Hfin]. intros k Hk. destruct k as [|k]; [lia|]. cbn [run]. rewrite St. reflexivity.
    + assert (Ec : c'' = LRet stk' st') by (eapply lstar_from_final; [|exact H']; reflexivity). subst c''.
      destruct Sim as (v1 & V1 & St & Hfin). rewrite V1 in V. injection V as <-.
      exists 1, m. split; [|exact Hfin]. intros k Hk. destruct k as [|k]; [lia|]. cbn [run]. rewrite St. reflexivity.
    + assert (Ec : c'' = LFail) by (eapply lstar_from_final; [|exact H']; reflexivity). subst c''.
      destruct Sim as (v1 & V1 & St & Hfin). rewrite V1 in V. injection V as <-.
      exists 1, m. split; [|exact Hfin]. intros k Hk. destruct k as [|k]; [lia|]. cbn [run]. rewrite St. reflexivity.
    + assert (Ec : c'' = LUnsup o) by (eapply lstar_from_final; [|exact H']; reflexivity). subst c''. discriminate V.
Qed.

(* from the initial machine *)
Lemma rel_init code stk st : stk = [] -> rel code 0 stk st (init_mach st).
Proof. intros ->. repeat split. cbn. now rewrite mpc_0. Qed.

Corollary machine_bridge_init env code P :
  link (e_msel env) code = Some P -> targets_ok code = true ->
  forall st h v, lstar env code (LAt 0 [] st) h -> verdict_of h = Some v ->
    stack_bounded env code (LAt 0 [] st) ->
    exists n m', (forall k, n <= k -> run k (e_ctx env) P (init_mach st) = (v, m')) /\ final_ok h m'.
Proof.
  intros LK TG st h v H V B.
  exact (machine_bridge env code P LK TG _ h H 0 [] st (init_mach st) v eq_refl (rel_init code [] st eq_refl) V B).
Qed.

(* the step-for-step statement in one piece, for the property file: the machine does not move exactly when
   the list steps over a label, a pragma or a comment *)
Theorem machine_simulates_list env code P :
  link (e_msel env) code = Some P -> targets_ok code = true ->
  forall pc stk st m c', rel code pc stk st m -> List.length stk <= STACK_MAX ->
    lstep env code (LAt pc stk st) = Some c' ->
    match c' with
    | LAt pc' stk' st' =>
        (exists m', step (e_ctx env) P m = Running m' /\ rel code pc' stk' st' m') \/
        (rel code pc' stk' st' m /\ exists c, nth_error code pc = Some c /\ real c = false)
    | LUnsup _ => True
    | h => exists v, verdict_of h = Some v /\ step (e_ctx env) P m = Done v m /\ final_ok h m
    end.
Proof. intros LK TG pc stk st m c'. exact (sim_step env code P LK TG pc stk st m c'). Qed.

(* a checker for [stack_bounded] on terminating runs (for examples) *)
Fixpoint bounded_run (fuel : nat) (env : denv) (code : list comp) (c : lconf) : bool :=
  match c with
  | LAt _ stk _ =>
      (List.length stk <=? STACK_MAX)%nat &&
      match fuel with
      | O => false
      | S f => match lstep env code c with Some c' => bounded_run f env code c' | None => true end
      end
  | _ => true
  end.

Lemma bounded_run_sound env code : forall fuel c, bounded_run fuel env code c = true -> stack_bounded env code c.
Proof.
  induction fuel as [|f IH]; intros c H pc stk st R.
  - destruct c as [pc0 stk0 st0| | | | |]; cbn [bounded_run] in H.
    + rewrite andb_false_r in H. discriminate H.
    + apply lstar_from_final in R; [discriminate R|reflexivity].
    + apply lstar_from_final in R; [discriminate R|reflexivity].
    + apply lstar_from_final in R; [discriminate R|reflexivity].
    + apply lstar_from_final in R; [discriminate R|reflexivity].
    + apply lstar_from_final in R; [discriminate R|reflexivity].
  - destruct c as [pc0 stk0 st0| | | | |];
      try (apply lstar_from_final in R; [discriminate R|reflexivity]).
    cbn [bounded_run] in H. apply andb_true_iff in H as [Hh Hn]. apply Nat.leb_le in Hh.
    remember (LAt pc0 stk0 st0) as c0 eqn:E0. remember (LAt pc stk st) as c1 eqn:E1.
    destruct R as [c|c c' c'' S1 R'].
    + subst c. injection E1 as <- <- <-. exact Hh.
    + subst c c''. rewrite S1 in Hn. exact (IH c' Hn pc stk st R').
Qed.
