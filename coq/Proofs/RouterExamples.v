(* Proofs/RouterExamples.v — the hypotheses of the C08 theorems are satisfiable, and the corner cases the
   property text lists, on one concrete router (closed computations). *)
From Coq Require Import List NArith Bool Ascii String.
From PV Require Import Base.Bytes Router.Dispatch.
Import ListNotations.
Local Open Scope N_scope.

Definition b_ (s : string) : bytes := bytes_of_string s.

Definition never6 : method_config := mkMC NEVER NEVER NEVER NEVER NEVER NEVER.

(* bare: NoOp create-only -> handler 100, OptIn always -> handler 101; clear_state -> handler 200;
   m0: NoOp CALL / OptIn CREATE; m1: ALL everywhere; m2: NoOp CREATE only *)
Definition ex_bare : bare_actions :=
  mkBA (mkOCA (Some 100) CREATE) (mkOCA (Some 101) ALL) oca_never oca_never oca_never oca_never.
Definition ex_m0 := mkMethod (b_ "aaaa") (mkMC CALL CREATE NEVER NEVER NEVER NEVER) 0.
Definition ex_m1 := mkMethod (b_ "bbbb") (mkMC ALL ALL ALL NEVER ALL ALL) 1.
Definition ex_m2 := mkMethod (b_ "cccc") (mkMC CREATE NEVER NEVER NEVER NEVER NEVER) 2.
Definition ex_router : router_cfg := mkRouter ex_bare (Some 200) [ex_m0; ex_m1; ex_m2].
Definition no_bare : bare_actions := mkBA oca_never oca_never oca_never oca_never oca_never oca_never.

Example ex_registers : register ex_bare (Some 200) [ex_m0; ex_m1; ex_m2] = RegOk ex_router.
Proof. vm_compute. reflexivity. Qed.

Example ex_cfg_ok : cfg_ok ex_router = true.
Proof. vm_compute. reflexivity. Qed.

(* a method call that is allowed *)
Example ex_method_runs :
  dispatch ex_router (mkCall [b_ "aaaa"] NoOp false) = RunsHandler 0 /\
  allowed ex_router (mkCall [b_ "aaaa"] NoOp false) = Some 0.
Proof. vm_compute. split; reflexivity. Qed.

(* a CREATE-only method and a creation call carrying its selector (and extra arguments) *)
Example ex_create_only_method :
  dispatch ex_router (mkCall [b_ "cccc"; b_ "x"] NoOp true) = RunsHandler 2 /\
  dispatch ex_router (mkCall [b_ "cccc"; b_ "x"] NoOp false) = Fails.
Proof. vm_compute. split; reflexivity. Qed.

(* a disallowed method call fails; it does not fall through to the bare action of the same OnCompletion *)
Example ex_no_fall_through :
  dispatch ex_router (mkCall [b_ "aaaa"] OptIn false) = Fails /\
  dispatch ex_router (mkCall [] OptIn false) = RunsHandler 101.
Proof. vm_compute. split; reflexivity. Qed.

(* application arguments present but no registered selector: not a bare call, rejected *)
Example ex_unknown_selector :
  dispatch ex_router (mkCall [b_ "zzzz"] OptIn false) = Fails /\
  dispatch ex_router (mkCall [b_ "aaa"] NoOp true) = Fails.
Proof. vm_compute. split; reflexivity. Qed.

(* bare calls: creation status checked, unregistered OnCompletion rejected *)
Example ex_bare_calls :
  dispatch ex_router (mkCall [] NoOp true) = RunsHandler 100 /\
  dispatch ex_router (mkCall [] NoOp false) = Fails /\
  dispatch ex_router (mkCall [] DeleteApplication false) = Fails.
Proof. vm_compute. repeat split; reflexivity. Qed.

(* nothing registered: Reject(); methods only and a bare call: fails *)
Example ex_empty_router :
  dispatch (mkRouter no_bare None []) (mkCall [b_ "aaaa"] NoOp false) = Rejects /\
  dispatch (mkRouter no_bare None []) (mkCall [] NoOp true) = Rejects /\
  dispatch (mkRouter no_bare None [ex_m0]) (mkCall [] NoOp false) = Fails /\
  dispatch_clear (mkRouter no_bare None [ex_m0]) (mkCall [] ClearState false) = Rejects /\
  dispatch_clear ex_router (mkCall [b_ "aaaa"] ClearState false) = RunsHandler 200.
Proof. vm_compute. repeat split; reflexivity. Qed.

(* the guard OnCompletion <> ClearState of router_dispatch_correct cannot be dropped: approval_cond never
   looks at ClearState, its all-ALL short cut approves it (the protocol never runs the approval program so) *)
Example ex_clear_state_guard_needed :
  dispatch ex_router (mkCall [b_ "bbbb"] ClearState false) = RunsHandler 1 /\
  allowed ex_router (mkCall [b_ "bbbb"] ClearState false) = None.
Proof. vm_compute. split; reflexivity. Qed.

(* registration refuses: a selector registered twice, a never-executed method, clear_state in a MethodConfig,
   a bare clear_state action, an action without CallConfig *)
Example ex_registration_refuses :
  register ex_bare None [ex_m0; ex_m1; mkMethod (b_ "aaaa") (m_cfg ex_m1) 7] = RegErr ErrReRegistering /\
  register ex_bare None [ex_m0; mkMethod (b_ "dddd") never6 7] = RegErr ErrNeverExecuted /\
  register ex_bare None [mkMethod (b_ "dddd") (mkMC CALL NEVER NEVER CALL NEVER NEVER) 7] = RegErr ErrMethodClearState /\
  register (mkBA oca_never oca_never oca_never (mkOCA (Some 5) CALL) oca_never oca_never) None [] = RegErr ErrBareClearState /\
  register (mkBA (mkOCA (Some 5) NEVER) oca_never oca_never oca_never oca_never oca_never) None [] = RegErr ErrActionContradicts /\
  register (mkBA (mkOCA None CALL) oca_never oca_never oca_never oca_never oca_never) None [] = RegErr ErrActionContradicts.
Proof. vm_compute. repeat split; reflexivity. Qed.
