(* Proofs/SlotsProof.v — C10: lemmas about the slot-assignment model Comp/Slots.v.
   Everything is proved for an arbitrary iteration order of the Python set allSlots. *)
From Coq Require Import List NArith ZArith Bool Arith Lia Permutation Sorted.
From PV Require Import Gen.SlotConfig Comp.Slots.
Import ListNotations.
Local Open Scope N_scope.

(* ---------------- basic membership facts ---------------- *)
Lemma slot_eqb_eq a b : slot_eqb a b = true <-> a = b.
Proof. unfold slot_eqb; destruct (slot_eq_dec a b); split; congruence. Qed.

Lemma mem_In s l : mem s l = true <-> In s l.
Proof.
  unfold mem. rewrite existsb_exists. split.
  - intros [x [Hx He]]. apply slot_eqb_eq in He. subst; auto.
  - intros H. exists s. split; auto. apply slot_eqb_eq; auto.
Qed.

Lemma memN_In n l : memN n l = true <-> In n l.
Proof.
  unfold memN. rewrite existsb_exists. split.
  - intros [x [Hx He]]. apply N.eqb_eq in He. subst; auto.
  - intros H. exists n. split; auto. apply N.eqb_refl.
Qed.

Lemma set_of_In s l : In s (set_of l) <-> In s l.
Proof. apply nodup_In. Qed.
Lemma set_union_In s a b : In s (set_union a b) <-> In s a \/ In s b.
Proof. unfold set_union. rewrite nodup_In, in_app_iff. tauto. Qed.
Lemma set_inter_In s a b : In s (set_inter a b) <-> In s a /\ In s b.
Proof. unfold set_inter. rewrite filter_In, mem_In. tauto. Qed.
Lemma set_diff_In s a b : In s (set_diff a b) <-> In s a /\ ~ In s b.
Proof. unfold set_diff. rewrite filter_In, negb_true_iff, <- not_true_iff_false, mem_In. tauto. Qed.

(* ---------------- collectScratchSlots ---------------- *)
Lemma collect_loop_spec : forall todo i all glob g ls,
  collect_loop i todo all glob = (g, ls) ->
  incl glob g /\
  (forall s, In s g -> In s glob \/ In s (concat todo)) /\
  Forall2 (fun t l => (forall s, In s l -> In s t) /\ (forall s, In s t -> In s l \/ In s g)) todo ls.
Proof.
  induction todo as [|t todo IH]; intros i all glob g ls H; cbn [collect_loop] in H.
  - inversion H; subst. split; [apply incl_refl|]. split; [auto|constructor].
  - destruct (collect_loop (S i) todo all (set_union glob (set_inter t (others_of i all)))) as [g' ls'] eqn:E.
    inversion H; subst; clear H.
    apply IH in E. destruct E as [Hinc [Hg HF]].
    split; [|split].
    + intros s Hs. apply Hinc. apply set_union_In. auto.
    + intros s Hs. apply Hg in Hs. destruct Hs as [Hs|Hs].
      * apply set_union_In in Hs. destruct Hs as [Hs|Hs]; auto.
        apply set_inter_In in Hs. right. cbn [concat]. apply in_app_iff. tauto.
      * right. cbn [concat]. apply in_app_iff. auto.
    + constructor; auto. split.
      * intros s Hs. apply set_diff_In in Hs. tauto.
      * intros s Hs.
        destruct (in_dec slot_eq_dec s (set_union glob (set_inter t (others_of i all)))) as [Hi|Hn].
        -- right. apply Hinc. auto.
        -- left. apply set_diff_In. auto.
Qed.

Lemma Forall2_concat_in : forall (g : list slot) todo ls,
  Forall2 (fun t l => (forall s, In s l -> In s t) /\ (forall s, In s t -> In s l \/ In s g)) todo ls ->
  forall s, (In s (concat ls) -> In s (concat todo)) /\ (In s (concat todo) -> In s (concat ls) \/ In s g).
Proof.
  intros g todo ls H; induction H as [|t l todo ls [H1 H2] HF IH]; intros s; cbn [concat].
  - tauto.
  - rewrite !in_app_iff. destruct (IH s) as [IH1 IH2]. split.
    + intros [Hs|Hs]; auto.
    + intros [Hs|Hs].
      * apply H2 in Hs. tauto.
      * apply IH2 in Hs. tauto.
Qed.

Lemma concat_routine_slots s inp : In s (concat (map routine_slots inp)) <-> In s (all_refs inp).
Proof.
  unfold all_refs. induction inp as [|r inp IH]; cbn [map concat flat_map]; [tauto|].
  rewrite !in_app_iff, IH. unfold routine_slots. rewrite set_of_In. tauto.
Qed.

(* allSlots is exactly the set of referenced slot objects, without repetition *)
Lemma all_slots_spec inp s : In s (all_slots inp) <-> referenced inp s.
Proof.
  unfold all_slots, collect, referenced.
  destruct (collect_loop 0 (map routine_slots inp) (map routine_slots inp) []) as [g ls] eqn:E.
  apply collect_loop_spec in E. destruct E as [_ [Hg HF]].
  pose proof (Forall2_concat_in g _ _ HF s) as [H1 H2].
  rewrite set_union_In, set_of_In, <- concat_routine_slots. split.
  - intros [Hs|Hs]; auto. apply Hg in Hs. destruct Hs as [[]|Hs]; auto.
  - intros Hs. apply H2 in Hs. tauto.
Qed.

Lemma all_slots_NoDup inp : NoDup (all_slots inp).
Proof.
  unfold all_slots. destruct (collect inp) as [g ls]. unfold set_union. apply NoDup_nodup.
Qed.

Lemma slot_count_meaning_lemma : forall inp,
  NoDup (all_slots inp) /\ (forall s, In s (all_slots inp) <-> referenced inp s).
Proof. intros inp. split; [apply all_slots_NoDup | intros s; apply all_slots_spec]. Qed.

Lemma set_order_In inp order s : set_order inp order -> (In s order <-> referenced inp s).
Proof.
  intros H. rewrite <- all_slots_spec. split; apply Permutation_in; [exact H | apply Permutation_sym; exact H].
Qed.
Lemma set_order_NoDup inp order : set_order inp order -> NoDup order.
Proof. intros H. eapply Permutation_NoDup; [apply Permutation_sym; exact H | apply all_slots_NoDup]. Qed.
Lemma set_order_length inp order : set_order inp order -> List.length order = List.length (all_slots inp).
Proof. apply Permutation_length. Qed.

(* ---------------- the while loop: next vacant index ---------------- *)
Definition cnt_ge (used : list N) (n : N) : nat := List.length (filter (fun x => n <=? x) used).

Lemma cnt_ge_succ_le used n : (cnt_ge used (n + 1) <= cnt_ge used n)%nat.
Proof.
  unfold cnt_ge. induction used as [|a used IH]; cbn [filter List.length]; auto.
  destruct (N.leb_spec (n + 1) a), (N.leb_spec n a); cbn [List.length]; lia.
Qed.

Lemma cnt_ge_succ_lt used n : In n used -> (cnt_ge used (n + 1) < cnt_ge used n)%nat.
Proof.
  unfold cnt_ge. induction used as [|a used IH]; cbn [filter List.length In]; [tauto|].
  intros [->|H].
  - pose proof (cnt_ge_succ_le used n) as Hle. unfold cnt_ge in Hle.
    destruct (N.leb_spec (n + 1) n), (N.leb_spec n n); cbn [List.length]; lia.
  - specialize (IH H).
    destruct (N.leb_spec (n + 1) a), (N.leb_spec n a); cbn [List.length]; lia.
Qed.

Lemma cnt_ge_le_length used n : (cnt_ge used n <= List.length used)%nat.
Proof.
  unfold cnt_ge. induction used as [|a used IH]; cbn [filter List.length]; auto.
  destruct (n <=? a); cbn [List.length]; lia.
Qed.

Lemma next_free_gen : forall fuel used n, (cnt_ge used n < fuel)%nat ->
  ~ In (next_free fuel used n) used /\ n <= next_free fuel used n /\
  (forall k, n <= k -> k < next_free fuel used n -> In k used).
Proof.
  induction fuel as [|f IH]; intros used n Hc; [lia|].
  cbn [next_free]. destruct (memN n used) eqn:E.
  - apply memN_In in E. pose proof (cnt_ge_succ_lt used n E) as Hlt.
    destruct (IH used (n + 1)) as [H1 [H2 H3]]; [lia|]. split; [auto|]. split; [lia|].
    intros k Hk1 Hk2. destruct (N.eq_dec k n) as [->|Hne]; auto. apply H3; lia.
  - split; [|split; [lia|intros; lia]]. intro H. apply memN_In in H. congruence.
Qed.

Lemma next_free_spec used n :
  ~ In (next_free (S (List.length used)) used n) used /\ n <= next_free (S (List.length used)) used n /\
  (forall k, n <= k -> k < next_free (S (List.length used)) used n -> In k used).
Proof. apply next_free_gen. pose proof (cnt_ge_le_length used n). lia. Qed.

(* pigeonhole: if every number below v is in use, v is at most the number of used numbers *)
Lemma below_all_used_le used v : (forall k, k < v -> In k used) -> (N.to_nat v <= List.length used)%nat.
Proof.
  intros H.
  assert (Hinc : incl (map N.of_nat (seq 0 (N.to_nat v))) used).
  { intros x Hx. apply in_map_iff in Hx. destruct Hx as [i [<- Hi]]. apply in_seq in Hi. apply H. lia. }
  apply NoDup_incl_length in Hinc.
  - rewrite map_length, seq_length in Hinc. exact Hinc.
  - apply FinFun.Injective_map_NoDup; [intros a b Hab; lia | apply seq_NoDup].
Qed.

(* ---------------- the duplicate-request check ---------------- *)
Definition res_ids (l : list slot) : list N := map sl_id (filter sl_res l).

Lemma res_ids_In l i : In i (res_ids l) <-> exists s, In s l /\ sl_res s = true /\ sl_id s = i.
Proof.
  unfold res_ids. rewrite in_map_iff. split.
  - intros [s [Hi Hs]]. apply filter_In in Hs. exists s. tauto.
  - intros [s [H1 [H2 H3]]]. exists s. split; auto. apply filter_In. auto.
Qed.

Lemma dup_check_inr : forall l ids ids', dup_check l ids = inr ids' ->
  ids' = rev (res_ids l) ++ ids /\
  (forall s, In s l -> sl_res s = true -> ~ In (sl_id s) ids) /\
  NoDup (res_ids l).
Proof.
  induction l as [|a l IH]; intros ids ids' H; cbn [dup_check] in H.
  - inversion H; subst. split; [reflexivity|]. split; [intros s []|constructor].
  - unfold res_ids in *. cbn [filter]. destruct (sl_res a) eqn:Ea.
    + destruct (memN (sl_id a) ids) eqn:Em; [discriminate|].
      apply IH in H. destruct H as [H1 [H2 H3]]. cbn [map rev]. split; [|split].
      * rewrite <- app_assoc. exact H1.
      * intros s [->|Hs] Hr.
        -- intro Hin. apply memN_In in Hin. congruence.
        -- intro Hin. apply (H2 s Hs Hr). right. exact Hin.
      * constructor; auto. intro Hin. apply in_map_iff in Hin. destruct Hin as [s [Hi Hs]].
        apply filter_In in Hs. destruct Hs as [Hs Hr]. apply (H2 s Hs Hr). left. auto.
    + apply IH in H. destruct H as [H1 [H2 H3]]. split; [exact H1|]. split; auto.
      intros s [->|Hs] Hr; [congruence|]. apply H2; auto.
Qed.

Lemma dup_check_inl : forall l ids i, dup_check l ids = inl i ->
  exists l1 s l2, l = l1 ++ s :: l2 /\ sl_res s = true /\ sl_id s = i /\
    (In i ids \/ exists s', In s' l1 /\ sl_res s' = true /\ sl_id s' = i).
Proof.
  induction l as [|a l IH]; intros ids i H; cbn [dup_check] in H; [discriminate|].
  destruct (sl_res a) eqn:Ea.
  - destruct (memN (sl_id a) ids) eqn:Em.
    + inversion H; subst. exists [], a, l. split; [reflexivity|]. split; auto. split; auto.
      left. apply memN_In. exact Em.
    + apply IH in H. destruct H as [l1 [s [l2 [Hl [Hr [Hi Hor]]]]]].
      exists (a :: l1), s, l2. split; [cbn; congruence|]. split; auto. split; auto.
      destruct Hor as [[Hh|Hin]|[s' [Hs' [Hr' Hi']]]].
      * right. exists a. split; [left; reflexivity|]. split; auto.
      * left. exact Hin.
      * right. exists s'. split; [right; exact Hs'|]. auto.
  - apply IH in H. destruct H as [l1 [s [l2 [Hl [Hr [Hi Hor]]]]]].
    exists (a :: l1), s, l2. split; [cbn; congruence|]. split; auto. split; auto.
    destruct Hor as [Hin|[s' [Hs' [Hr' Hi']]]]; [left; exact Hin|].
    right. exists s'. split; [right; exact Hs'|]. auto.
Qed.

Lemma NoDup_map_inj {A B} (f : A -> B) (l : list A) :
  NoDup (map f l) -> forall a b, In a l -> In b l -> f a = f b -> a = b.
Proof.
  induction l as [|x l IH]; cbn [map]; intros H a b Ha Hb Hf; [destruct Ha|].
  inversion H as [|? ? Hn Hd]; subst.
  destruct Ha as [->|Ha], Hb as [->|Hb]; auto.
  - exfalso. apply Hn. rewrite Hf. apply in_map. exact Hb.
  - exfalso. apply Hn. rewrite <- Hf. apply in_map. exact Ha.
Qed.

Lemma res_ids_NoDup_unique l : NoDup (res_ids l) ->
  forall s1 s2, In s1 l -> In s2 l -> sl_res s1 = true -> sl_res s2 = true -> sl_id s1 = sl_id s2 -> s1 = s2.
Proof.
  intros H s1 s2 H1 H2 R1 R2 Hi. unfold res_ids in H.
  apply (NoDup_map_inj sl_id (filter sl_res l) H); auto; apply filter_In; auto.
Qed.

(* ---------------- sorted() ---------------- *)
Lemma insert_slot_perm x l : Permutation (insert_slot x l) (x :: l).
Proof.
  induction l as [|a l IH]; cbn [insert_slot]; auto.
  destruct (sl_id x <=? sl_id a); auto.
  eapply perm_trans; [apply perm_skip; exact IH | apply perm_swap].
Qed.

Lemma sort_slots_perm l : Permutation (sort_slots l) l.
Proof.
  induction l as [|a l IH]; cbn [sort_slots fold_right]; [constructor|].
  eapply perm_trans; [apply insert_slot_perm|]. apply perm_skip. exact IH.
Qed.

Definition count_auto (l : list slot) : nat := List.length (filter (fun s => negb (sl_res s)) l).
Definition count_res (l : list slot) : nat := List.length (filter sl_res l).

Lemma count_split l : (count_res l + count_auto l = List.length l)%nat.
Proof.
  unfold count_res, count_auto. induction l as [|a l IH]; cbn [filter List.length]; auto.
  destruct (sl_res a); cbn [negb List.length]; lia.
Qed.

Lemma count_auto_insert x l : count_auto (insert_slot x l) = count_auto (x :: l).
Proof.
  unfold count_auto. induction l as [|a l IH]; cbn [insert_slot]; auto.
  destruct (sl_id x <=? sl_id a); auto.
  cbn [filter] in *. destruct (sl_res a), (sl_res x); cbn [negb List.length] in *; lia.
Qed.

Lemma count_auto_sort l : count_auto (sort_slots l) = count_auto l.
Proof.
  induction l as [|a l IH]; cbn [sort_slots fold_right]; auto.
  rewrite count_auto_insert. unfold count_auto in *. cbn [filter].
  destruct (sl_res a); cbn [negb List.length]; auto.
Qed.

Lemma count_res_sort l : count_res (sort_slots l) = count_res l.
Proof.
  pose proof (count_split l). pose proof (count_split (sort_slots l)).
  pose proof (count_auto_sort l). pose proof (Permutation_length (sort_slots_perm l)). lia.
Qed.

(* the list is sorted by id (each element is <= every later one) *)
Lemma insert_slot_sorted x l :
  StronglySorted (fun a b => sl_id a <= sl_id b) l -> StronglySorted (fun a b => sl_id a <= sl_id b) (insert_slot x l).
Proof.
  induction 1 as [|a l Hs IH Hall]; cbn [insert_slot].
  - constructor; constructor.
  - destruct (N.leb_spec (sl_id x) (sl_id a)) as [Hle|Hgt].
    + constructor; [constructor; auto|]. constructor; auto.
      eapply Forall_impl; [|exact Hall]. cbn. intros b Hb. lia.
    + constructor; auto.
      eapply Permutation_Forall; [apply Permutation_sym; apply insert_slot_perm|].
      constructor; auto. lia.
Qed.

Lemma sort_slots_sorted l : StronglySorted (fun a b => sl_id a <= sl_id b) (sort_slots l).
Proof.
  induction l as [|a l IH]; cbn [sort_slots fold_right]; [constructor|]. apply insert_slot_sorted. exact IH.
Qed.

(* ---------------- the numbering loop ---------------- *)
Lemma assign_loop_fst : forall l next used, map fst (assign_loop l next used) = l.
Proof.
  induction l as [|a l IH]; intros next used; cbn [assign_loop]; [reflexivity|].
  destruct (sl_res a); cbn [map fst]; f_equal; apply IH.
Qed.

Definition loop_pre (l : list slot) (next : N) (used : list N) : Prop :=
  (forall k, k < next -> In k used) /\ (forall s, In s l -> sl_res s = true -> In (sl_id s) used).

Lemma loop_pre_below a l next used : loop_pre (a :: l) next used ->
  forall k, k < next_free (S (List.length used)) used next -> In k used.
Proof.
  intros [Hb _] k Hk. destruct (next_free_spec used next) as [_ [_ H3]].
  destruct (N.lt_ge_cases k next) as [Hlt|Hge]; [apply Hb; exact Hlt | apply H3; auto].
Qed.

Lemma loop_pre_res a l next used : loop_pre (a :: l) next used ->
  loop_pre l (next_free (S (List.length used)) used next) used.
Proof.
  intros H. split; [apply (loop_pre_below a l next used H)|].
  destruct H as [_ Hr]. intros s Hs. apply Hr. right. exact Hs.
Qed.

Lemma loop_pre_auto a l next used : loop_pre (a :: l) next used ->
  loop_pre l (next_free (S (List.length used)) used next) (next_free (S (List.length used)) used next :: used).
Proof.
  intros H. split.
  - intros k Hk. right. apply (loop_pre_below a l next used H). exact Hk.
  - destruct H as [_ Hr]. intros s Hs R. right. apply Hr; [right; exact Hs | exact R].
Qed.

(* every pair produced: a requested slot keeps its id; an automatic slot gets a number that was
   not in use, below (numbers in use) + (automatic slots still to number) *)
Lemma assign_loop_elems : forall l next used, loop_pre l next used ->
  forall s n, In (s, n) (assign_loop l next used) ->
    (sl_res s = true /\ n = sl_id s) \/
    (sl_res s = false /\ ~ In n used /\ (N.to_nat n < List.length used + count_auto l)%nat).
Proof.
  induction l as [|a l IH]; intros next used Hpre s n Hin; cbn [assign_loop] in Hin; [destruct Hin|].
  destruct (next_free_spec used next) as [Hv1 [Hv2 Hv3]].
  pose proof (loop_pre_below a l next used Hpre) as Hbelow.
  pose proof (loop_pre_res a l next used Hpre) as Hpr. pose proof (loop_pre_auto a l next used Hpre) as Hpa.
  set (v := next_free (S (List.length used)) used next) in *. clearbody v.
  unfold count_auto. cbn [filter]. destruct (sl_res a) eqn:Ea; cbn [negb]; destruct Hin as [Heq|Hin].
  - inversion Heq; subst. left. auto.
  - apply (IH _ _ Hpr) in Hin. exact Hin.
  - inversion Heq; subst. right. split; auto. split; auto.
    pose proof (below_all_used_le used _ Hbelow). cbn [List.length]. lia.
  - apply (IH _ _ Hpa) in Hin.
    destruct Hin as [Hin|[R [Hn Hlt]]]; [left; exact Hin|]. right. split; auto. split.
    + intro Hc. apply Hn. right. exact Hc.
    + cbn [List.length] in *. unfold count_auto in Hlt. lia.
Qed.

Lemma assign_loop_in_fst l next used s n : In (s, n) (assign_loop l next used) -> In s l.
Proof.
  intros H. rewrite <- (assign_loop_fst l next used). change s with (fst (s, n)). apply in_map. exact H.
Qed.

(* no number is handed out twice *)
Lemma assign_loop_nodup : forall l next used, loop_pre l next used -> NoDup l ->
  (forall s1 s2, In s1 l -> In s2 l -> sl_res s1 = true -> sl_res s2 = true -> sl_id s1 = sl_id s2 -> s1 = s2) ->
  NoDup (map snd (assign_loop l next used)).
Proof.
  induction l as [|a l IH]; intros next used Hpre Hnd Huniq; cbn [assign_loop]; [constructor|].
  destruct (next_free_spec used next) as [Hv1 _].
  pose proof (loop_pre_res a l next used Hpre) as Hpr. pose proof (loop_pre_auto a l next used Hpre) as Hpa.
  set (v := next_free (S (List.length used)) used next) in *. clearbody v.
  inversion Hnd as [|? ? Hnotin Hnd']; subst.
  assert (Huniq' : forall s1 s2, In s1 l -> In s2 l -> sl_res s1 = true -> sl_res s2 = true -> sl_id s1 = sl_id s2 -> s1 = s2).
  { intros s1 s2 H1 H2. apply Huniq; right; assumption. }
  destruct (sl_res a) eqn:Ea; cbn [map snd]; constructor.
  - intro Hin. apply in_map_iff in Hin. destruct Hin as [[s n] [Hn Hin]]. cbn [snd] in Hn. subst n.
    pose proof (assign_loop_in_fst _ _ _ _ _ Hin) as Hsl.
    apply (assign_loop_elems _ _ _ Hpr) in Hin.
    destruct Hin as [[R Hid]|[R [Hn _]]].
    + assert (a = s) by (apply Huniq; [left; reflexivity | right; exact Hsl | exact Ea | exact R | exact Hid]).
      subst s. contradiction.
    + apply Hn. destruct Hpre as [_ Hr]. apply Hr; [left; reflexivity | exact Ea].
  - apply IH; auto.
  - intro Hin. apply in_map_iff in Hin. destruct Hin as [[s n] [Hn Hin]]. cbn [snd] in Hn. subst n.
    pose proof (assign_loop_in_fst _ _ _ _ _ Hin) as Hsl.
    apply (assign_loop_elems _ _ _ Hpa) in Hin.
    destruct Hin as [[R Hid]|[R [Hn _]]].
    + apply Hv1. rewrite Hid. destruct Hpre as [_ Hr]. apply Hr; [right; exact Hsl | exact R].
    + apply Hn. left. reflexivity.
  - apply IH; auto.
Qed.

(* ---------------- lookup ---------------- *)
Lemma lookup_In m s n : lookup m s = Some n -> In (s, n) m.
Proof.
  induction m as [|[k v] m IH]; cbn [lookup]; [discriminate|].
  destruct (slot_eqb s k) eqn:E.
  - intros H. inversion H; subst. apply slot_eqb_eq in E. subst. left. reflexivity.
  - intros H. right. apply IH. exact H.
Qed.

Lemma In_lookup m s n : NoDup (map fst m) -> In (s, n) m -> lookup m s = Some n.
Proof.
  induction m as [|[k v] m IH]; cbn [lookup map fst]; intros Hnd Hin; [destruct Hin|].
  inversion Hnd as [|? ? Hnotin Hnd']; subst.
  destruct Hin as [Heq|Hin].
  - inversion Heq; subst. assert (E : slot_eqb s s = true) by (apply slot_eqb_eq; reflexivity). rewrite E. reflexivity.
  - destruct (slot_eqb s k) eqn:E.
    + apply slot_eqb_eq in E. subst. exfalso. apply Hnotin. change k with (fst (k, n)). apply in_map. exact Hin.
    + apply IH; auto.
Qed.

Lemma lookup_total m s : In s (map fst m) -> exists n, lookup m s = Some n.
Proof.
  induction m as [|[k v] m IH]; cbn [lookup map fst]; intros Hin; [destruct Hin|].
  destruct (slot_eqb s k) eqn:E; [eexists; reflexivity|].
  destruct Hin as [Heq|Hin]; [|apply IH; exact Hin].
  subst. assert (E' : slot_eqb s s = true) by (apply slot_eqb_eq; reflexivity). congruence.
Qed.

(* ---------------- the whole function ---------------- *)
Lemma assign_ok_inv order inp v a : assign_in_order order inp v = Ok a ->
  exists ids, dup_check order [] = inr ids /\
    (List.length order <= N.to_nat NUM_SLOTS)%nat /\ v = true /\
    a = mkAssignment (assign_loop (sort_slots order) 0 ids)
                     (map (map (rewrite_op (assign_loop (sort_slots order) 0 ids))) inp)
                     (map (assigned_locals (assign_loop (sort_slots order) 0 ids)) (snd (collect inp))).
Proof.
  unfold assign_in_order. destruct (dup_check order []) as [i|ids] eqn:Ed; [discriminate|].
  destruct (N.ltb_spec NUM_SLOTS (N.of_nat (List.length order))) as [Hlt|Hge]; [discriminate|].
  destruct v; cbn [negb]; [|discriminate].
  intros H. inversion H; subst. exists ids. split; auto. split; [lia|]. split; reflexivity.
Qed.

(* facts about the numbering for an Ok result, collected once *)
Record numbering_facts (inp : input) (m : list (slot * N)) : Prop := mkFacts {
  nf_keys : forall s, In s (map fst m) <-> referenced inp s;
  nf_keys_nodup : NoDup (map fst m);
  nf_vals_nodup : NoDup (map snd m);
  nf_elems : forall s n, In (s, n) m ->
      (sl_res s = true /\ n = sl_id s) \/ (sl_res s = false /\ (N.to_nat n < List.length (all_slots inp))%nat)
}.

Lemma assign_ok_facts order inp v a : set_order inp order -> assign_in_order order inp v = Ok a ->
  numbering_facts inp (r_map a).
Proof.
  intros Hord H. apply assign_ok_inv in H. destruct H as [ids [Hd [Hlen [_ ->]]]]. cbn [r_map].
  apply dup_check_inr in Hd. destruct Hd as [Hids [_ Hnd]]. rewrite app_nil_r in Hids.
  pose proof (sort_slots_perm order) as Hperm.
  assert (Hpre : loop_pre (sort_slots order) 0 ids).
  { split; [intros k Hk; lia|]. intros s Hs R. subst ids. apply -> in_rev. apply res_ids_In.
    exists s. split; [eapply Permutation_in; [exact Hperm | exact Hs]|]. auto. }
  assert (Hsnd : NoDup (sort_slots order)).
  { eapply Permutation_NoDup; [apply Permutation_sym; exact Hperm | eapply set_order_NoDup; exact Hord]. }
  constructor.
  - intros s. rewrite assign_loop_fst. rewrite <- (set_order_In inp order s Hord).
    split; apply Permutation_in; [exact Hperm | apply Permutation_sym; exact Hperm].
  - rewrite assign_loop_fst. exact Hsnd.
  - apply assign_loop_nodup; auto.
    intros s1 s2 H1 H2. apply (res_ids_NoDup_unique order Hnd); eapply Permutation_in; eauto.
  - intros s n Hin. apply (assign_loop_elems _ _ _ Hpre) in Hin.
    destruct Hin as [Hin|[R [_ Hlt]]]; [left; exact Hin|]. right. split; auto.
    assert (List.length ids = count_res order).
    { subst ids. rewrite rev_length. unfold res_ids, count_res. apply map_length. }
    rewrite count_auto_sort in Hlt. pose proof (count_split order).
    rewrite <- (set_order_length inp order Hord). lia.
Qed.

Lemma NoDup_snd_inj (m : list (slot * N)) s1 s2 n :
  NoDup (map snd m) -> In (s1, n) m -> In (s2, n) m -> s1 = s2.
Proof.
  intros Hnd H1 H2. assert (E : (s1, n) = (s2, n)) by (apply (NoDup_map_inj snd m Hnd); auto).
  inversion E; reflexivity.
Qed.

(* T1 *)
Lemma assign_injective_lemma : forall inp order v a, set_order inp order ->
  assign_in_order order inp v = Ok a ->
  forall s1 s2 n, lookup (r_map a) s1 = Some n -> lookup (r_map a) s2 = Some n -> s1 = s2.
Proof.
  intros inp order v a Hord H s1 s2 n H1 H2. destruct (assign_ok_facts _ _ _ _ Hord H) as [_ _ Hv _].
  eapply NoDup_snd_inj; eauto using lookup_In.
Qed.

(* every referenced slot receives a number *)
Lemma assign_total_lemma : forall inp order v a, set_order inp order ->
  assign_in_order order inp v = Ok a ->
  forall s, referenced inp s <-> exists n, lookup (r_map a) s = Some n.
Proof.
  intros inp order v a Hord H s. destruct (assign_ok_facts _ _ _ _ Hord H) as [Hk _ _ _]. split.
  - intros Hs. apply lookup_total. apply Hk. exact Hs.
  - intros [n Hn]. apply Hk. apply lookup_In in Hn. change s with (fst (s, n)). apply in_map. exact Hn.
Qed.

(* T2 *)
Lemma assign_respects_requested_lemma : forall inp order v a, set_order inp order ->
  assign_in_order order inp v = Ok a ->
  forall s, referenced inp s -> sl_res s = true -> lookup (r_map a) s = Some (sl_id s).
Proof.
  intros inp order v a Hord H s Hs R.
  destruct (proj1 (assign_total_lemma _ _ _ _ Hord H s) Hs) as [n Hn].
  destruct (assign_ok_facts _ _ _ _ Hord H) as [_ _ _ He].
  destruct (He s n (lookup_In _ _ _ Hn)) as [[_ ->]|[R' _]]; [exact Hn | congruence].
Qed.

(* T3 *)
Lemma assign_in_range_lemma : forall inp order v a, set_order inp order -> requested_ids_valid inp ->
  assign_in_order order inp v = Ok a ->
  forall s n, lookup (r_map a) s = Some n -> n < NUM_SLOTS.
Proof.
  intros inp order v a Hord Hvalid H s n Hn.
  assert (Hs : referenced inp s) by (apply (assign_total_lemma _ _ _ _ Hord H); eauto).
  destruct (assign_ok_facts _ _ _ _ Hord H) as [_ _ _ He].
  apply assign_ok_inv in H. destruct H as [ids [_ [Hlen _]]].
  rewrite (set_order_length inp order Hord) in Hlen.
  destruct (He s n (lookup_In _ _ _ Hn)) as [[R ->]|[_ Hlt]]; [apply Hvalid; auto | lia].
Qed.

(* automatic slots are numbered below the number of distinct slots, whatever NUM_SLOTS is *)
Lemma assign_auto_below_count_lemma : forall inp order v a, set_order inp order ->
  assign_in_order order inp v = Ok a ->
  forall s n, lookup (r_map a) s = Some n -> sl_res s = false -> n < slot_count inp.
Proof.
  intros inp order v a Hord H s n Hn R. destruct (assign_ok_facts _ _ _ _ Hord H) as [_ _ _ He].
  unfold slot_count. destruct (He s n (lookup_In _ _ _ Hn)) as [[R' _]|[_ Hlt]]; [congruence | lia].
Qed.

(* T4: the four outcomes, decided by conflicts / count / the validateSlots parameter *)
Lemma conflict_of_dup inp order i : set_order inp order -> dup_check order [] = inl i -> conflict_on inp i.
Proof.
  intros Hord Hd. apply dup_check_inl in Hd.
  destruct Hd as [l1 [s [l2 [Hl [R [Hi [[]|[s' [Hs' [R' Hi']]]]]]]]]].
  pose proof (set_order_NoDup inp order Hord) as Hnd. subst order.
  exists s', s. repeat split; auto.
  - apply (set_order_In inp _ s' Hord). apply in_app_iff. left. exact Hs'.
  - apply (set_order_In inp _ s Hord). apply in_app_iff. right. left. reflexivity.
  - intros ->. apply NoDup_remove_2 in Hnd. apply Hnd. apply in_app_iff. left. exact Hs'.
Qed.

Lemma no_conflict_of_inr inp order ids : set_order inp order -> dup_check order [] = inr ids -> ~ has_conflict inp.
Proof.
  intros Hord Hd [i [s1 [s2 [H1 [H2 [Hne [R1 [R2 [I1 I2]]]]]]]]].
  apply dup_check_inr in Hd. destruct Hd as [_ [_ Hnd]]. apply Hne.
  apply (res_ids_NoDup_unique order Hnd); auto; try (apply (set_order_In inp order _ Hord); assumption). congruence.
Qed.

Lemma assign_error_iff_lemma : forall inp order v, set_order inp order ->
  (has_conflict inp -> exists i, conflict_on inp i /\ assign_in_order order inp v = Err (SlotIdAssignedTwice i)) /\
  (~ has_conflict inp -> NUM_SLOTS < slot_count inp -> assign_in_order order inp v = Err (TooManySlots (slot_count inp))) /\
  (~ has_conflict inp -> slot_count inp <= NUM_SLOTS -> v = false -> assign_in_order order inp v = Err ValidateFailed) /\
  (~ has_conflict inp -> slot_count inp <= NUM_SLOTS -> v = true -> exists a, assign_in_order order inp v = Ok a).
Proof.
  intros inp order v Hord. unfold assign_in_order, slot_count.
  rewrite (set_order_length inp order Hord).
  destruct (dup_check order []) as [i|ids] eqn:Ed.
  - pose proof (conflict_of_dup inp order i Hord Ed) as Hc.
    split; [intros _; exists i; auto|]. repeat split; intros Hn; exfalso; apply Hn; exists i; exact Hc.
  - pose proof (no_conflict_of_inr inp order ids Hord Ed) as Hn.
    split; [intros Hc; contradiction|].
    destruct (N.ltb_spec NUM_SLOTS (N.of_nat (List.length (all_slots inp)))) as [Hlt|Hge].
    + split; [auto|]. split; intros; lia.
    + split; [intros; lia|]. split; intros _ _ ->; cbn [negb]; eauto.
Qed.

(* the literal iff of the property statement *)
Lemma assign_rejects_iff_lemma : forall inp order v, set_order inp order ->
  ((exists i, assign_in_order order inp v = Err (SlotIdAssignedTwice i)) <-> has_conflict inp) /\
  ((exists n, assign_in_order order inp v = Err (TooManySlots n)) <-> ~ has_conflict inp /\ NUM_SLOTS < slot_count inp) /\
  ((exists a, assign_in_order order inp v = Ok a) <-> ~ has_conflict inp /\ slot_count inp <= NUM_SLOTS /\ v = true).
Proof.
  intros inp order v Hord. unfold assign_in_order, slot_count.
  rewrite (set_order_length inp order Hord).
  destruct (dup_check order []) as [i|ids] eqn:Ed.
  - pose proof (conflict_of_dup inp order i Hord Ed) as Hc.
    assert (Hh : has_conflict inp) by (exists i; exact Hc).
    split; [split; eauto|]. split; split; try (intros [? ?]; discriminate); tauto.
  - pose proof (no_conflict_of_inr inp order ids Hord Ed) as Hn.
    destruct (N.ltb_spec NUM_SLOTS (N.of_nat (List.length (all_slots inp)))) as [Hlt|Hge].
    + split; [split; [intros [? ?]; discriminate | tauto]|].
      split; [split; eauto|]. split; [intros [? ?]; discriminate | lia].
    + split; [split; [intros [? H]; destruct v; discriminate | tauto]|].
      split; [split; [intros [? H]; destruct v; discriminate | lia]|].
      destruct v; cbn [negb]; split; eauto; try (intros [? ?]; discriminate). intros [_ [_ ?]]; discriminate.
Qed.

(* T5: one function of the slot object decides every rewritten argument, whatever the op *)
Definition number_of (m : list (slot * N)) (s : slot) : N := match lookup m s with Some n => n | None => 0 end.

Lemma rewrite_arg_subst m a : (forall s, In s (arg_slots a) -> exists n, lookup m s = Some n) ->
  rewrite_arg m a = subst_arg (number_of m) a.
Proof.
  destruct a as [s|n|t]; cbn [rewrite_arg subst_arg arg_slots]; auto.
  intros H. destruct (H s (or_introl eq_refl)) as [n Hn]. unfold number_of. rewrite Hn. reflexivity.
Qed.

Lemma index_sees_assignment_lemma : forall inp order v a, set_order inp order ->
  assign_in_order order inp v = Ok a ->
  exists f : slot -> N,
    (forall s, referenced inp s -> lookup (r_map a) s = Some (f s)) /\
    r_ops a = map (map (subst_op f)) inp /\
    r_locals a = map (map f) (snd (collect inp)).
Proof.
  intros inp order v a Hord H. exists (number_of (r_map a)).
  pose proof (assign_total_lemma _ _ _ _ Hord H) as Htot.
  split; [|split].
  - intros s Hs. destruct (proj1 (Htot s) Hs) as [n Hn]. unfold number_of. rewrite Hn. reflexivity.
  - apply assign_ok_inv in H. destruct H as [ids [_ [_ [_ Ha]]]]. rewrite Ha in *. cbn [r_ops r_map] in *.
    apply map_ext_in. intros r Hr. apply map_ext_in. intros o Ho.
    unfold rewrite_op, subst_op. f_equal. apply map_ext_in. intros x Hx. apply rewrite_arg_subst.
    intros s Hs. apply Htot. unfold referenced, all_refs. apply in_flat_map. exists r. split; auto.
    unfold routine_refs. apply in_flat_map. exists o. split; auto.
    unfold op_slots. apply in_flat_map. exists x. split; auto.
  - assert (Hloc : forall l, In l (snd (collect inp)) -> forall s, In s l -> referenced inp s).
    { intros l Hl s Hs. apply all_slots_spec. unfold all_slots. destruct (collect inp) as [g ls]. cbn [snd] in Hl.
      apply set_union_In. right. apply set_of_In. apply in_concat. exists l. auto. }
    apply assign_ok_inv in H. destruct H as [ids [_ [_ [_ Ha]]]]. rewrite Ha in *. cbn [r_locals r_map] in *.
    apply map_ext_in. intros l Hl. specialize (Hloc l Hl). unfold assigned_locals.
    clear Hl. induction l as [|s l IH]; cbn [flat_map map]; auto.
    destruct (proj1 (Htot s) (Hloc s (or_introl eq_refl))) as [n Hn]. unfold number_of at 1. rewrite Hn.
    cbn [app]. f_equal. apply IH. intros s' Hs'. apply Hloc. right. exact Hs'.
Qed.

(* no placeholder survives the rewriting *)
Lemma rewrite_complete_lemma : forall inp order v a, set_order inp order ->
  assign_in_order order inp v = Ok a ->
  forall r o x, In r (r_ops a) -> In o r -> In x (o_args o) -> forall s, x <> ASlot s.
Proof.
  intros inp order v a Hord H r o x Hr Ho Hx s.
  destruct (index_sees_assignment_lemma _ _ _ _ Hord H) as [f [_ [Hops _]]]. rewrite Hops in Hr.
  apply in_map_iff in Hr. destruct Hr as [r0 [<- Hr0]].
  apply in_map_iff in Ho. destruct Ho as [o0 [<- Ho0]].
  unfold subst_op in Hx. cbn [o_args] in Hx. apply in_map_iff in Hx. destruct Hx as [x0 [<- Hx0]].
  destruct x0; cbn [subst_arg]; discriminate.
Qed.

(* ---------------- the result does not depend on the set iteration order ---------------- *)
Lemma next_free_ext u1 u2 n : (forall k, In k u1 <-> In k u2) ->
  next_free (S (List.length u1)) u1 n = next_free (S (List.length u2)) u2 n.
Proof.
  intros H. destruct (next_free_spec u1 n) as [A1 [A2 A3]]. destruct (next_free_spec u2 n) as [B1 [B2 B3]].
  set (v1 := next_free (S (List.length u1)) u1 n) in *. set (v2 := next_free (S (List.length u2)) u2 n) in *.
  clearbody v1 v2. destruct (N.lt_trichotomy v1 v2) as [Hlt|[Heq|Hgt]]; auto.
  - exfalso. apply A1. apply H. apply B3; auto.
  - exfalso. apply B1. apply H. apply A3; auto.
Qed.

Lemma assign_loop_ext : forall l next u1 u2, (forall k, In k u1 <-> In k u2) ->
  assign_loop l next u1 = assign_loop l next u2.
Proof.
  induction l as [|a l IH]; intros next u1 u2 H; cbn [assign_loop]; auto.
  rewrite (next_free_ext u1 u2 next H). destruct (sl_res a); f_equal; apply IH; auto.
  intros k. cbn [In]. rewrite H. tauto.
Qed.

Lemma sorted_perm_unique : forall l1 l2 : list slot,
  StronglySorted (fun a b => sl_id a <= sl_id b) l1 -> StronglySorted (fun a b => sl_id a <= sl_id b) l2 ->
  Permutation l1 l2 -> NoDup l1 ->
  (forall a b, In a l1 -> In b l1 -> sl_id a = sl_id b -> a = b) -> l1 = l2.
Proof.
  induction l1 as [|a l1 IH]; intros l2 S1 S2 Hp Hnd Hinj.
  - apply Permutation_nil in Hp. auto.
  - destruct l2 as [|b l2]; [apply Permutation_sym, Permutation_nil in Hp; discriminate|].
    inversion S1 as [|? ? S1' F1]; subst. inversion S2 as [|? ? S2' F2]; subst.
    inversion Hnd as [|? ? Hna Hnd']; subst.
    assert (Hab : a = b).
    { assert (Ha : In a (b :: l2)) by (eapply Permutation_in; [exact Hp | left; reflexivity]).
      assert (Hb : In b (a :: l1)) by (eapply Permutation_in; [apply Permutation_sym; exact Hp | left; reflexivity]).
      destruct Ha as [->|Ha]; auto. destruct Hb as [->|Hb]; auto.
      rewrite Forall_forall in F1, F2. specialize (F1 b Hb). specialize (F2 a Ha). cbn in F1, F2.
      apply Hinj; [left; reflexivity | right; exact Hb | lia]. }
    subst b. f_equal. apply IH; auto.
    + eapply Permutation_cons_inv. exact Hp.
    + intros x y Hx Hy. apply Hinj; right; assumption.
Qed.

Lemma assign_order_independent_lemma : forall inp o1 o2 v, set_order inp o1 -> set_order inp o2 ->
  ids_distinct inp -> assign_in_order o1 inp v = assign_in_order o2 inp v.
Proof.
  intros inp o1 o2 v H1 H2 Hd.
  assert (Hnc : ~ has_conflict inp).
  { intros [i [s1 [s2 [R1 [R2 [Hne [_ [_ [I1 I2]]]]]]]]]. apply Hne. apply Hd; auto. congruence. }
  assert (Hs : sort_slots o1 = sort_slots o2).
  { apply sorted_perm_unique; try apply sort_slots_sorted.
    - eapply perm_trans; [apply sort_slots_perm|]. eapply perm_trans; [exact H1|].
      apply Permutation_sym. eapply perm_trans; [apply sort_slots_perm | exact H2].
    - eapply Permutation_NoDup; [apply Permutation_sym; apply sort_slots_perm | eapply set_order_NoDup; exact H1].
    - intros a b Ha Hb. apply Hd; apply (set_order_In inp o1 _ H1); eapply Permutation_in; try apply sort_slots_perm; assumption. }
  unfold assign_in_order.
  rewrite (set_order_length inp o1 H1), (set_order_length inp o2 H2), Hs.
  destruct (dup_check o1 []) as [i|ids1] eqn:E1.
  { exfalso. apply Hnc. exists i. exact (conflict_of_dup inp o1 i H1 E1). }
  destruct (dup_check o2 []) as [i|ids2] eqn:E2.
  { exfalso. apply Hnc. exists i. exact (conflict_of_dup inp o2 i H2 E2). }
  apply dup_check_inr in E1, E2. destruct E1 as [-> _], E2 as [-> _]. rewrite !app_nil_r.
  assert (Hids : forall k, In k (rev (res_ids o1)) <-> In k (rev (res_ids o2))).
  { intros k. rewrite <- !in_rev, !res_ids_In.
    split; intros [s [Hs' Hr]]; exists s; (split; [|exact Hr]).
    - apply (set_order_In inp o2 s H2). apply (set_order_In inp o1 s H1). exact Hs'.
    - apply (set_order_In inp o1 s H1). apply (set_order_In inp o2 s H2). exact Hs'. }
  rewrite (assign_loop_ext _ 0 _ _ Hids). reflexivity.
Qed.

(* ---------------- the ScratchSlot constructor ---------------- *)
Lemma new_slot_requested uid z c s c' : new_slot uid (Some z) c = NewSlot s c' ->
  sl_res s = true /\ sl_id s < NUM_SLOTS /\ Z.of_N (sl_id s) = z /\ sl_uid s = uid /\ c' = c.
Proof.
  unfold new_slot. destruct (Z.ltb_spec z 0) as [Hneg|Hpos]; cbn [orb]; [discriminate|].
  destruct (Z.leb_spec (Z.of_N NUM_SLOTS) z) as [Hbig|Hok]; [discriminate|].
  intros H. inversion H; subst. cbn. repeat split; lia.
Qed.

Lemma new_slot_invalid_iff uid z c : new_slot uid (Some z) c = InvalidSlotId <-> (z < 0 \/ Z.of_N NUM_SLOTS <= z)%Z.
Proof.
  unfold new_slot. destruct (Z.ltb_spec z 0) as [Hneg|Hpos]; cbn [orb]; [split; auto|].
  destruct (Z.leb_spec (Z.of_N NUM_SLOTS) z) as [Hbig|Hok]; split; auto; try discriminate. lia.
Qed.

Lemma new_slot_automatic uid c s c' : new_slot uid None c = NewSlot s c' ->
  sl_res s = false /\ sl_id s = c /\ sl_uid s = uid /\ c' = c + 1.
Proof. unfold new_slot. intros H. inversion H; subst. cbn. auto. Qed.

Lemma make_slots_spec : forall reqs uid c l c', make_slots reqs uid c = Some (l, c') ->
  c <= c' /\
  (forall s, In s l -> sl_res s = true -> sl_id s < NUM_SLOTS) /\
  (forall s, In s l -> sl_res s = false -> c <= sl_id s /\ sl_id s < c') /\
  (forall s, In s l -> uid <= sl_uid s) /\
  NoDup (map sl_uid l) /\
  (forall s1 s2, In s1 l -> In s2 l -> sl_res s1 = false -> sl_res s2 = false -> sl_id s1 = sl_id s2 -> s1 = s2).
Proof.
  induction reqs as [|r reqs IH]; intros uid c l c' H; cbn [make_slots] in H.
  - inversion H; subst. split; [lia|]. split; [intros ? []|]. split; [intros ? []|]. split; [intros ? []|].
    split; [constructor|]. intros ? ? [].
  - destruct (new_slot uid r c) as [s c1|] eqn:En; [|discriminate].
    destruct (make_slots reqs (uid + 1) c1) as [[l1 c2]|] eqn:Em; [|discriminate].
    inversion H; subst; clear H. apply IH in Em. destruct Em as [Hc [Hr [Ha [Hu [Hnd Hinj]]]]].
    assert (Hs : sl_uid s = uid /\ c <= c1 /\ (sl_res s = true -> sl_id s < NUM_SLOTS) /\ (sl_res s = false -> sl_id s = c /\ c1 = c + 1)).
    { destruct r as [z|].
      - apply new_slot_requested in En. destruct En as [R [Hlt [_ [Hu' ->]]]]. repeat split; auto; try lia; congruence.
      - apply new_slot_automatic in En. destruct En as [R [Hi [Hu' ->]]]. repeat split; auto; try lia; congruence. }
    destruct Hs as [Hsu [Hcc [Hsr Hsa]]].
    split; [lia|]. split; [|split; [|split; [|split]]].
    + intros x [<-|Hx]; auto.
    + intros x [<-|Hx] R.
      * destruct (Hsa R). lia.
      * destruct (Ha x Hx R). lia.
    + intros x [<-|Hx]; [lia|]. specialize (Hu x Hx). lia.
    + cbn [map]. constructor; auto. intro Hin. apply in_map_iff in Hin. destruct Hin as [x [Hxu Hx]].
      specialize (Hu x Hx). lia.
    + intros s1 s2 [<-|H1] [<-|H2] R1 R2 Hi; auto.
      * exfalso. destruct (Hsa R1). destruct (Ha s2 H2 R2). lia.
      * exfalso. destruct (Hsa R2). destruct (Ha s1 H1 R1). lia.
Qed.

(* what a program gets from the constructor: valid requested ids, and no two slots with one id
   unless two of them REQUEST it (the counter starts at NUM_SLOTS and only grows) *)
Lemma constructor_establishes_lemma : forall reqs uid c l c' inp,
  make_slots reqs uid c = Some (l, c') -> NUM_SLOTS <= c ->
  (forall s, referenced inp s -> In s l) ->
  requested_ids_valid inp /\ (~ has_conflict inp -> ids_distinct inp).
Proof.
  intros reqs uid c l c' inp Hm Hc Hin. apply make_slots_spec in Hm.
  destruct Hm as [_ [Hr [Ha [_ [_ Hinj]]]]]. split.
  - intros s Hs R. apply Hr; auto.
  - intros Hnc s1 s2 H1 H2 Hi.
    destruct (sl_res s1) eqn:R1, (sl_res s2) eqn:R2.
    + destruct (slot_eq_dec s1 s2) as [|Hne]; auto. exfalso. apply Hnc. exists (sl_id s1), s1, s2. repeat split; auto.
    + exfalso. pose proof (Hr s1 (Hin s1 H1) R1). destruct (Ha s2 (Hin s2 H2) R2). lia.
    + exfalso. pose proof (Hr s2 (Hin s2 H2) R2). destruct (Ha s1 (Hin s1 H1) R1). lia.
    + apply Hinj; auto.
Qed.

(* ---------------- alloc_abstract_var ---------------- *)
Lemma alloc_abstract_var_spec st v st' : alloc_abstract_var st = (v, st') ->
  match st with
  | None => v = ScratchVarNew /\ st' = None
  | Some n =>
      (n < MAX_FRAME_LOCAL_VARS /\ v = FrameVarAt n /\ st' = Some (n + 1)) \/
      (MAX_FRAME_LOCAL_VARS <= n /\ v = ScratchVarNew /\ st' = Some n)
  end.
Proof.
  unfold alloc_abstract_var. destruct st as [n|]; [|intros H; inversion H; auto].
  destruct (N.leb_spec (n + 1) MAX_FRAME_LOCAL_VARS) as [Hle|Hgt]; intros H; inversion H; subst; [left|right]; repeat split; lia.
Qed.

(* any number of allocations: the frame never holds more than MAX_FRAME_LOCAL_VARS locals, every
   frame index handed out is fresh (n0 <= index < final size) and distinct, and once the frame is
   full every further variable is a scratch variable *)
Lemma alloc_many_spec : forall k n0 vs st', alloc_many k (Some n0) = (vs, st') ->
  exists n', st' = Some n' /\ n0 <= n' /\ (n0 <= MAX_FRAME_LOCAL_VARS -> n' <= MAX_FRAME_LOCAL_VARS) /\
    (forall i, In (FrameVarAt i) vs -> n0 <= i /\ i < n' /\ i < MAX_FRAME_LOCAL_VARS) /\
    NoDup (filter (fun v => match v with FrameVarAt _ => true | ScratchVarNew => false end) vs) /\
    N.of_nat (List.length (filter (fun v => match v with FrameVarAt _ => true | ScratchVarNew => false end) vs)) = n' - n0 /\
    (MAX_FRAME_LOCAL_VARS <= n0 -> Forall (fun v => v = ScratchVarNew) vs).
Proof.
  induction k as [|k IH]; intros n0 vs st' H; cbn [alloc_many] in H.
  - inversion H; subst. exists n0. split; auto. split; [lia|]. split; auto. split; [intros i []|].
    split; [constructor|]. split; [cbn; lia|]. constructor.
  - destruct (alloc_abstract_var (Some n0)) as [v st1] eqn:Ea.
    destruct (alloc_many k st1) as [vs1 st2] eqn:Em. inversion H; subst; clear H.
    apply alloc_abstract_var_spec in Ea. destruct Ea as [[Hlt [-> ->]]|[Hge [-> ->]]].
    + apply IH in Em. destruct Em as [n' [-> [Hle [Hmax [Hidx [Hnd [Hcnt Hfull]]]]]]].
      exists n'. split; auto. split; [lia|]. split; [intros; apply Hmax; lia|]. split; [|split; [|split]].
      * intros i [Heq|Hi]; [inversion Heq; subst; lia|]. specialize (Hidx i Hi). lia.
      * cbn [filter]. constructor; auto. intro Hin. apply filter_In in Hin. destruct Hin as [Hin _].
        specialize (Hidx n0 Hin). lia.
      * cbn [filter List.length]. lia.
      * intros; lia.
    + apply IH in Em. destruct Em as [n' [-> [Hle [Hmax [Hidx [Hnd [Hcnt Hfull]]]]]]].
      exists n'. split; auto. split; [lia|]. split; [auto|]. split; [|split; [|split]].
      * intros i [Heq|Hi]; [discriminate|]. apply Hidx. exact Hi.
      * cbn [filter]. exact Hnd.
      * cbn [filter]. exact Hcnt.
      * intros _. constructor; auto.
Qed.

Lemma alloc_many_no_proto : forall k vs st', alloc_many k None = (vs, st') ->
  st' = None /\ Forall (fun v => v = ScratchVarNew) vs.
Proof.
  induction k as [|k IH]; intros vs st' H; cbn [alloc_many alloc_abstract_var] in H.
  - inversion H; subst. split; auto.
  - destruct (alloc_many k None) as [vs1 st2]. destruct (IH vs1 st2 eq_refl) as [-> HF].
    inversion H; subst. split; auto.
Qed.

(* the regenerated constants fit the machine: scratch has 256 cells (AVM/Machine.v tests i <? 256),
   and frame_dig/frame_bury take an int8, so a local index must stay below 128 *)
Lemma num_slots_fits_avm : NUM_SLOTS <= 256.
Proof. vm_compute. discriminate. Qed.
Lemma frame_locals_fit_int8 : MAX_FRAME_LOCAL_VARS <= 128.
Proof. vm_compute. discriminate. Qed.

(* ---------------- what collectScratchSlots returns ---------------- *)
Lemma others_from_In s i : forall sets j,
  In s (others_from i j sets) <-> exists k t, nth_error sets k = Some t /\ (j + k)%nat <> i /\ In s t.
Proof.
  induction sets as [|a sets IH]; intros j; cbn [others_from].
  - split; [intros []|]. intros [k [t [H _]]]. destruct k; discriminate.
  - rewrite in_app_iff, (IH (S j)). split.
    + intros [H|[k [t [H1 [H2 H3]]]]].
      * destruct (Nat.eqb_spec i j) as [->|Hne]; [destruct H|]. exists 0%nat, a. cbn. split; auto. split; [lia|auto].
      * exists (S k), t. cbn. split; auto. split; [lia|auto].
    + intros [k [t [H1 [H2 H3]]]]. destruct k as [|k]; cbn in H1.
      * inversion H1; subst. left. destruct (Nat.eqb_spec i j) as [->|Hne]; [lia|auto].
      * right. exists k, t. split; auto. split; [lia|auto].
Qed.

Lemma others_of_In s i sets :
  In s (others_of i sets) <-> exists k t, nth_error sets k = Some t /\ k <> i /\ In s t.
Proof. unfold others_of. rewrite set_of_In, others_from_In. cbn. tauto. Qed.

Lemma collect_loop_locals : forall todo i all glob g ls,
  collect_loop i todo all glob = (g, ls) ->
  (forall k, nth_error todo k = nth_error all (i + k)) ->
  (forall s, In s glob -> exists j t, (j < i)%nat /\ nth_error all j = Some t /\ In s t) ->
  forall k t l, nth_error todo k = Some t -> nth_error ls k = Some l ->
    forall s, In s l <-> In s t /\ ~ In s (others_of (i + k) all).
Proof.
  induction todo as [|t0 todo IH]; intros i all glob g ls H Hnth Hglob k t l Ht Hl s; cbn [collect_loop] in H.
  - destruct k; discriminate.
  - destruct (collect_loop (S i) todo all (set_union glob (set_inter t0 (others_of i all)))) as [g' ls'] eqn:E.
    inversion H; subst; clear H.
    assert (Hi : nth_error all i = Some t0).
    { pose proof (Hnth 0%nat) as H0. rewrite Nat.add_0_r in H0. rewrite <- H0. reflexivity. }
    destruct k as [|k]; cbn [nth_error] in Ht, Hl.
    + inversion Ht; subst. inversion Hl; subst. rewrite Nat.add_0_r, set_diff_In, set_union_In, set_inter_In. split.
      * intros [Hs Hn]. split; auto.
      * intros [Hs Hn]. split; auto. intros [Hg|[_ Ho]]; [|contradiction].
        destruct (Hglob s Hg) as [j [t' [Hj [Hjt Hst]]]]. apply Hn. apply others_of_In. exists j, t'. split; auto. split; [lia|auto].
    + replace (i + S k)%nat with (S i + k)%nat by lia.
      apply (IH (S i) all _ g ls' E) with (t := t) (l := l); auto.
      * intros k'. pose proof (Hnth (S k')) as Hk. cbn [nth_error] in Hk. rewrite Hk.
        f_equal. lia.
      * intros s' Hs'. apply set_union_In in Hs'. destruct Hs' as [Hs'|Hs'].
        -- destruct (Hglob s' Hs') as [j [t' [Hj [Hjt Hst]]]]. exists j, t'. split; [lia|auto].
        -- apply set_inter_In in Hs'. exists i, t0. split; [lia|]. split; tauto.
Qed.

(* local slots of routine number k = the slots only routine k references *)
Lemma collect_locals_spec inp k r l :
  nth_error inp k = Some r -> nth_error (snd (collect inp)) k = Some l ->
  forall s, In s l <-> In s (routine_refs r) /\
                       forall j r', nth_error inp j = Some r' -> j <> k -> ~ In s (routine_refs r').
Proof.
  unfold collect. intros Hr Hl s.
  destruct (collect_loop 0 (map routine_slots inp) (map routine_slots inp) []) as [g ls] eqn:E. cbn [snd] in Hl.
  assert (Ht : nth_error (map routine_slots inp) k = Some (routine_slots r)) by (rewrite nth_error_map, Hr; reflexivity).
  rewrite (collect_loop_locals _ _ _ _ _ _ E (fun k' => eq_refl) (fun s' (F : In s' []) => match F with end) k _ l Ht Hl s).
  cbn [Nat.add]. unfold routine_slots at 1. rewrite set_of_In, others_of_In. split.
  - intros [Hs Hn]. split; auto. intros j r' Hj Hne Hs'. apply Hn. exists j, (routine_slots r').
    split; [rewrite nth_error_map, Hj; reflexivity|]. split; auto. apply set_of_In. exact Hs'.
  - intros [Hs Hn]. split; auto. intros [j [t [Hj [Hne Hst]]]]. rewrite nth_error_map in Hj.
    destruct (nth_error inp j) as [r'|] eqn:Ej; [|discriminate]. inversion Hj; subst.
    apply (Hn j r' Ej Hne). unfold routine_slots in Hst. apply (proj1 (set_of_In _ _)) in Hst. exact Hst.
Qed.
