(* Proofs/ABIIndexElems.v — relation between member types and member encodings; the encoding of a static
   type has exactly [static_len] bytes ([encode_static_len]). *)
From Coq Require Import List NArith Arith Ascii String Bool Lia.
From PV Require Import Base.Bytes Base.U64 ABI.Types ABI.Spec
  Proofs.ABISpecProof Proofs.ABIIndexBits Proofs.ABIIndexAsm.
Import ListNotations.
Local Open Scope N_scope.

(* kind of a member encoding w.r.t. (is bool, is dynamic, static length) of its type *)
Definition ekind (eb ed : bool) (len : N) (e : eenc) : Prop :=
  match e with
  | EB _ => eb = true
  | ES bs => eb = false /\ ed = false /\ blen bs = len
  | ED _ => eb = false /\ ed = true
  end.

Definition elem_rel (t : ty) (e : eenc) : Prop := ekind (is_bool t) (is_dynamic t) (static_len t) e.

Lemma enc_elem_kind : forall eb ed (enc : val -> option bytes) len v e,
    enc_elem eb ed enc v = Some e ->
    (ed = false -> forall bs, enc v = Some bs -> blen bs = len) ->
    ekind eb ed len e.
Proof.
  intros eb ed enc len v e H Hl. unfold enc_elem in H. destruct eb.
  - destruct v; try discriminate. injection H as <-. reflexivity.
  - apply option_map_some in H as [bs [Hb ->]]. destruct ed; cbn; auto.
Qed.

Lemma enc_all_kind : forall eb ed (enc : val -> option bytes) len vs es,
    enc_all (enc_elem eb ed enc) vs = Some es ->
    (ed = false -> forall v bs, In v vs -> enc v = Some bs -> blen bs = len) ->
    Forall (ekind eb ed len) es /\ List.length es = List.length vs.
Proof.
  intros eb ed enc len vs. induction vs as [|v r IH]; intros es H Hl; cbn in H.
  - injection H as <-. split; [constructor | reflexivity].
  - apply obind_some in H as [e [He H]]. apply option_map_some in H as [es' [H ->]].
    destruct (IH _ H) as [F L]; [intros E x bs Hin; apply Hl; [exact E | right; exact Hin]|].
    split; [|cbn; f_equal; exact L]. constructor; [|exact F].
    eapply enc_elem_kind; [exact He|]. intros E bs. apply Hl; [exact E | left; reflexivity].
Qed.

Lemma enc_all_nth : forall (f : val -> option eenc) vs es i v,
    enc_all f vs = Some es -> nth_error vs i = Some v ->
    exists e, nth_error es i = Some e /\ f v = Some e.
Proof.
  intros f vs. induction vs as [|x r IH]; intros es i v H Hn; [destruct i; discriminate|].
  cbn in H. apply obind_some in H as [e [He H]]. apply option_map_some in H as [es' [H ->]].
  destruct i as [|i]; cbn in *.
  - injection Hn as <-. exists e. auto.
  - eapply IH; eauto.
Qed.

(* homogeneous lists *)
Lemma head_len_bools : forall es run, Forall (ekind true false 1) es -> head_len es run = bool_seq_len (run + nlen es).
Proof.
  induction es as [|e r IH]; intros run F.
  - cbn. f_equal. unfold nlen. cbn. lia.
  - inversion F as [|? ? He Fr]; subst. destruct e as [b|bs|bs]; cbn in He.
    + cbn [head_len]. rewrite IH by exact Fr. f_equal. rewrite nlen_cons. lia.
    + destruct He; discriminate.
    + destruct He; discriminate.
Qed.

Lemma head_len_statics : forall len es run, Forall (ekind false false len) es ->
    head_len es run = bool_seq_len run + nlen es * len.
Proof.
  intros len. induction es as [|e r IH]; intros run F.
  - cbn. unfold nlen. cbn. lia.
  - inversion F as [|? ? He Fr]; subst. destruct e as [b|bs|bs]; cbn in He.
    + discriminate.
    + destruct He as (_ & _ & Hl). cbn [head_len]. rewrite IH by exact Fr. rewrite nlen_cons, Hl.
      change (bool_seq_len 0) with 0. lia.
    + destruct He; discriminate.
Qed.

Lemma head_len_dyns : forall len es run, Forall (ekind false true len) es ->
    head_len es run = bool_seq_len run + nlen es * 2.
Proof.
  intros len. induction es as [|e r IH]; intros run F.
  - cbn. unfold nlen. cbn. lia.
  - inversion F as [|? ? He Fr]; subst. destruct e as [b|bs|bs]; cbn in He.
    + discriminate.
    + destruct He as (_ & He & _). discriminate.
    + cbn [head_len]. rewrite IH by exact Fr. rewrite nlen_cons. change (bool_seq_len 0) with 0. lia.
Qed.

Lemma no_dyn_kind : forall eb len es, Forall (ekind eb false len) es -> no_dyn es = true.
Proof.
  induction es as [|e r IH]; intro F; [reflexivity|].
  inversion F as [|? ? He Fr]; subst. change (no_dyn (e :: r)) with (negb (is_ED e) && no_dyn r)%bool.
  rewrite (IH Fr), andb_true_r.
  destruct e; cbn in *; try reflexivity. destruct He; discriminate.
Qed.

Lemma assemble_static_len : forall es enc, assemble es = Some enc -> no_dyn es = true -> blen enc = head_len es 0.
Proof.
  intros es enc H Hn. rewrite (assemble_len _ _ H), (tails_of_no_dyn _ Hn). cbn. lia.
Qed.

(* tuples *)
Lemma enc_seq_rel : forall ts vs es,
    enc_seq (map (fun x => enc_elem (is_bool x) (is_dynamic x) (arc4_encode x)) ts) vs = Some es ->
    Forall (fun t => forall v bs, arc4_encode t v = Some bs -> is_dynamic t = false -> blen bs = static_len t) ts ->
    Forall2 elem_rel ts es.
Proof.
  induction ts as [|t r IH]; intros vs es H F; destruct vs as [|v vr]; cbn in H; try discriminate.
  - injection H as <-. constructor.
  - apply obind_some in H as [e [He H]]. apply option_map_some in H as [es' [H ->]].
    inversion F as [|? ? Ft Fr]; subst. constructor; [|eapply IH; eauto].
    eapply enc_elem_kind; [exact He|]. intros E bs Hb. eapply Ft; eauto.
Qed.

Lemma enc_seq_nth : forall (fs : list (val -> option eenc)) vs es i f v,
    enc_seq fs vs = Some es -> nth_error fs i = Some f -> nth_error vs i = Some v ->
    exists e, nth_error es i = Some e /\ f v = Some e.
Proof.
  induction fs as [|g r IH]; intros vs es i f v H Hf Hv; [destruct i; discriminate|].
  destruct vs as [|x vr]; [destruct i; discriminate|].
  cbn in H. apply obind_some in H as [e [He H]]. apply option_map_some in H as [es' [H ->]].
  destruct i as [|i]; cbn in *.
  - injection Hf as <-. injection Hv as <-. exists e. auto.
  - eapply IH; eauto.
Qed.

Lemma enc_seq_length : forall (fs : list (val -> option eenc)) vs es,
    enc_seq fs vs = Some es -> List.length es = List.length fs /\ List.length vs = List.length fs.
Proof.
  induction fs as [|g r IH]; intros vs es H; destruct vs as [|x vr]; cbn in H; try discriminate.
  - injection H as <-. auto.
  - apply obind_some in H as [e [He H]]. apply option_map_some in H as [es' [H ->]].
    destruct (IH _ _ H). cbn. auto.
Qed.

Lemma head_len_static_tuple : forall ts es run,
    Forall2 elem_rel ts es -> forallb (fun x => negb (is_dynamic x)) ts = true ->
    head_len es run = seq_static_len (map (fun x => (is_bool x, static_len x)) ts) run.
Proof.
  intros ts es run F. revert run. induction F as [|t e tr er He F IH]; intros run Hs; [reflexivity|].
  cbn in Hs. apply andb_true_iff in Hs as [Ht Hr]. apply negb_true_iff in Ht.
  cbn [map seq_static_len]. unfold elem_rel in He. destruct e as [b|bs|bs]; cbn in He.
  - rewrite He. cbn [head_len]. apply IH. exact Hr.
  - destruct He as (Hb & _ & Hl). rewrite Hb. cbn [head_len]. rewrite Hl, IH by exact Hr. reflexivity.
  - destruct He as (_ & Hd). congruence.
Qed.

Lemma no_dyn_static_tuple : forall ts es,
    Forall2 elem_rel ts es -> forallb (fun x => negb (is_dynamic x)) ts = true -> no_dyn es = true.
Proof.
  intros ts es F. induction F as [|t e tr er He F IH]; intro Hs; [reflexivity|].
  cbn in Hs. apply andb_true_iff in Hs as [Ht Hr]. apply negb_true_iff in Ht.
  change (no_dyn (e :: er)) with (negb (is_ED e) && no_dyn er)%bool.
  rewrite (IH Hr), andb_true_r. unfold elem_rel in He.
  destruct e; cbn in *; try reflexivity. destruct He; congruence.
Qed.

Lemma existsb_false_forallb : forall {A} (f : A -> bool) l, existsb f l = false -> forallb (fun x => negb (f x)) l = true.
Proof.
  induction l as [|x r IH]; intro H; [reflexivity|].
  cbn in *. apply orb_false_iff in H as [H1 H2]. rewrite H1, (IH H2). reflexivity.
Qed.

Lemma static_array_len : forall eb (enc : val -> option bytes) len n v bs,
    static_array_enc eb false enc n v = Some bs ->
    (forall x b, enc x = Some b -> blen b = len) ->
    blen bs = if eb then bool_seq_len n else n * len.
Proof.
  intros eb enc len n v bs H Hl. unfold static_array_enc in H.
  apply obind_some in H as [vs [Hv H]]. destruct (N.eqb_spec (N.of_nat (List.length vs)) n) as [En|]; [|discriminate].
  apply obind_some in H as [es [He Ha]].
  destruct (enc_all_kind eb false enc len vs es He) as [F L]; [intros _ x b _; apply Hl|].
  rewrite (assemble_static_len _ _ Ha) by (eapply no_dyn_kind; exact F).
  assert (Hn : nlen es = n) by (unfold nlen; rewrite L; exact En).
  destruct eb.
  - rewrite head_len_bools.
    + rewrite Hn. reflexivity.
    + eapply Forall_impl; [|exact F]. intros e Hk. destruct e; cbn in *; auto; destruct Hk; discriminate.
  - rewrite (head_len_statics len) by exact F. rewrite Hn. change (bool_seq_len 0) with 0. lia.
Qed.

Lemma uint_enc_len : forall bits v bs, uint_enc bits v = Some bs -> blen bs = bits / 8.
Proof.
  intros bits v bs H. destruct v; cbn in H; try discriminate.
  destruct (valid_uint_bits bits && (n <? 2 ^ bits))%bool; [|discriminate].
  injection H as <-. rewrite be_encode_len. apply N2Nat.id.
Qed.

Theorem encode_static_len : forall t v bs,
    arc4_encode t v = Some bs -> is_dynamic t = false -> blen bs = static_len t.
Proof.
  induction t as [| | n | | | e n IH | e IH | nm ts IH | n | | k | k] using ty_ind'; intros v bs H Hd;
    cbn [is_dynamic] in Hd; try discriminate; cbn [arc4_encode static_len] in *.
  - destruct v; cbn in H; try discriminate. injection H as <-. reflexivity.
  - apply uint_enc_len in H. exact H.
  - apply uint_enc_len in H. exact H.
  - apply (static_array_len false (uint_enc 8) 1) in H; [lia|].
    intros x b Hx. apply uint_enc_len in Hx. exact Hx.
  - rewrite Hd in H. apply (static_array_len (is_bool e) (arc4_encode e) (static_len e)) in H; [exact H|].
    intros x b Hx. eapply IH; eauto.
  - unfold tuple_enc in H. destruct v as [b|m|r|vs]; try discriminate.
    apply obind_some in H as [es [He Ha]].
    apply existsb_false_forallb in Hd.
    assert (F : Forall2 elem_rel ts es) by (eapply enc_seq_rel; eauto).
    rewrite (assemble_static_len _ _ Ha) by (eapply no_dyn_static_tuple; eauto).
    apply head_len_static_tuple; assumption.
  - apply (static_array_len false (uint_enc 8) 1) in H; [lia|].
    intros x b Hx. apply uint_enc_len in Hx. exact Hx.
Qed.

(* with the theorem: the member relation holds for every encodable tuple *)
Lemma tuple_rel : forall ts vs es,
    enc_seq (map (fun x => enc_elem (is_bool x) (is_dynamic x) (arc4_encode x)) ts) vs = Some es ->
    Forall2 elem_rel ts es.
Proof.
  intros ts vs es H. eapply enc_seq_rel; [exact H|].
  apply Forall_forall. intros t _ v bs. apply encode_static_len.
Qed.

Lemma array_kind : forall e vs es,
    enc_all (enc_elem (is_bool e) (is_dynamic e) (arc4_encode e)) vs = Some es ->
    Forall (elem_rel e) es /\ List.length es = List.length vs.
Proof.
  intros e vs es H. eapply enc_all_kind; [exact H|].
  intros Hd v bs _ Hb. eapply encode_static_len; eauto.
Qed.
