(* Proofs/ABIIndexArray.v — array[idx], length(), get() on the encoding of an array ([array_elem_correct],
   [length_correct], [bytes_get_correct]). *)
From Coq Require Import List NArith Arith Ascii String Bool Lia.
From PV Require Import Base.Bytes Base.U64 AVM.Syntax AVM.Ops ABI.Types ABI.Spec ABI.Index
  Proofs.ABISpecProof Proofs.ABIIndexBits Proofs.ABIIndexAsm Proofs.ABIIndexElems Proofs.ABIIndexSel
  Proofs.ABIIndexWalk Proofs.ABIIndexExec Proofs.ABIIndexTuple.
Import ListNotations.
Local Open Scope N_scope.

(* ---- the shape of an array encoding ---- *)
Definition arr_prefix (slen : option N) (n : N) : bytes :=
  match slen with Some _ => [] | None => be_encode 2 n end.

Lemma array_encode_eq : forall arr e slen v,
    array_info arr = Some (e, slen) ->
    arc4_encode arr v =
    match slen with
    | Some n => static_array_enc (is_bool e) (is_dynamic e) (arc4_encode e) n v
    | None => dyn_array_enc (is_bool e) (is_dynamic e) (arc4_encode e) v
    end.
Proof.
  intros arr e slen v H. destruct arr; cbn in H; try discriminate; injection H as <- <-; reflexivity.
Qed.

Lemma array_body : forall arr e slen v enc,
    array_info arr = Some (e, slen) -> arc4_encode arr v = Some enc ->
    exists vs es body,
      elems_of v = Some vs /\
      enc_all (enc_elem (is_bool e) (is_dynamic e) (arc4_encode e)) vs = Some es /\
      assemble es = Some body /\ Forall (elem_rel e) es /\ List.length es = List.length vs /\
      enc = arr_prefix slen (nlen vs) ++ body /\
      match slen with Some n => nlen vs = n | None => nlen vs < 65536 end.
Proof.
  intros arr e slen v enc Hi He. rewrite (array_encode_eq _ _ _ _ Hi) in He.
  destruct slen as [n|].
  - unfold static_array_enc in He. apply obind_some in He as [vs [Hv He]].
    destruct (N.eqb_spec (N.of_nat (List.length vs)) n) as [En|]; [|discriminate].
    apply obind_some in He as [es [Hes Ha]].
    destruct (array_kind _ _ _ Hes) as [F L].
    exists vs, es, enc. repeat split; auto.
  - unfold dyn_array_enc in He. apply obind_some in He as [vs [Hv He]].
    apply obind_some in He as [p [Hp He]]. apply obind_some in He as [body [Hb He]].
    injection He as <-. apply obind_some in Hb as [es [Hes Ha]].
    destruct (array_kind _ _ _ Hes) as [F L]. apply u16_len in Hp as (_ & -> & Hlt).
    exists vs, es, body. repeat split; auto.
Qed.

(* ---- homogeneous position lemmas ---- *)
Lemma spos_bools : forall t l np pos, is_bool t = true -> Forall (elem_rel t) l -> spos l np pos = (pos, np + nlen l).
Proof.
  intros t l np pos Hb F. revert np. induction F as [|e r He F IH]; intro np.
  - cbn. f_equal. unfold nlen. cbn. lia.
  - destruct (elem_rel_bool _ _ He Hb) as [b ->]. cbn [spos]. rewrite IH, nlen_cons. f_equal. lia.
Qed.

Lemma spos_statics : forall t l pos, is_bool t = false -> is_dynamic t = false -> Forall (elem_rel t) l ->
    spos l 0 pos = (pos + nlen l * static_len t, 0).
Proof.
  intros t l pos Hb Hd F. revert pos. induction F as [|e r He F IH]; intro pos.
  - cbn. f_equal. unfold nlen. cbn. lia.
  - destruct (elem_rel_static _ _ He Hb Hd) as [bs [-> Hl]]. cbn [spos]. rewrite IH, nlen_cons, bsl0, Hl. f_equal. lia.
Qed.

Lemma spos_dyns : forall t l pos, is_bool t = false -> is_dynamic t = true -> Forall (elem_rel t) l ->
    spos l 0 pos = (pos + nlen l * 2, 0).
Proof.
  intros t l pos Hb Hd F. revert pos. induction F as [|e r He F IH]; intro pos.
  - cbn. f_equal. unfold nlen. cbn. lia.
  - destruct (elem_rel_dyn _ _ He Hb Hd) as [bs ->]. cbn [spos]. rewrite IH, nlen_cons, bsl0. f_equal. lia.
Qed.

Lemma nlen_app : forall {A} (a b : list A), nlen (a ++ b) = nlen a + nlen b.
Proof. intros. unfold nlen. rewrite app_length. lia. Qed.

(* ---- evaluation helpers ---- *)
Lemma op2_add : forall a b, a + b < U64 -> op2 O_add a b = Some (a + b).
Proof.
  intros a b H. unfold op2. cbn. unfold oki, fits64.
  assert (E : (a + b <? U64) = true) by (apply N.ltb_lt; exact H). rewrite E. reflexivity.
Qed.

Lemma op2_mul : forall a b, a * b < U64 -> op2 O_mul a b = Some (a * b).
Proof.
  intros a b H. unfold op2. cbn. unfold oki, fits64.
  assert (E : (a * b <? U64) = true) by (apply N.ltb_lt; exact H). rewrite E. reflexivity.
Qed.

Lemma op2_eq : forall a b, op2 O_eq a b = Some (b2N (a =? b)).
Proof. intros. reflexivity. Qed.

Lemma slice_app_shift : forall (pre body : bytes) p n, slice (pre ++ body) (blen pre + p) n = slice body p n.
Proof.
  intros pre body p n. unfold slice, bsub. rewrite blen_app.
  replace (blen pre + p <=? blen pre + p + n) with (p <=? p + n).
  2:{ destruct (N.leb_spec p (p + n)), (N.leb_spec (blen pre + p) (blen pre + p + n)); auto; lia. }
  replace (blen pre + p + n <=? blen pre + blen body) with (p + n <=? blen body).
  2:{ destruct (N.leb_spec (p + n) (blen body)), (N.leb_spec (blen pre + p + n) (blen pre + blen body)); auto; lia. }
  destruct ((p <=? p + n) && (p + n <=? blen body))%bool; [|reflexivity].
  f_equal. replace (blen pre + p + n - (blen pre + p)) with (p + n - p) by lia. f_equal.
  rewrite N2Nat.inj_add, to_nat_blen, skipn_app.
  rewrite skipn_all2 by lia. cbn [app]. f_equal. lia.
Qed.

Lemma u16_at_shift : forall (pre body : bytes) p, u16_at (pre ++ body) (blen pre + p) = u16_at body p.
Proof. intros. rewrite !u16_at_eq, slice_app_shift. reflexivity. Qed.

Lemma u16_at_prefix : forall n body, n < 65536 -> u16_at (be_encode 2 n ++ body) 0 = Some n.
Proof.
  intros n body H. apply u16_at_ok; [|exact H].
  unfold slice. pose proof (bsub_mid [] (be_encode 2 n) body) as G. cbn [app] in G.
  rewrite be_encode_len in G. exact G.
Qed.

Lemma get_bit_bytes_shift : forall (pre body : bytes) i,
    get_bit_bytes (pre ++ body) (8 * blen pre + i) = get_bit_bytes body i.
Proof.
  intros pre body i. rewrite <- (N2Nat.id i). unfold blen.
  replace (8 * N.of_nat (List.length pre) + N.of_nat (N.to_nat i))
    with (N.of_nat (8 * List.length pre + N.to_nat i)) by lia.
  rewrite !get_bit_bytes_bit_at, bit_at_app. reflexivity.
Qed.

Lemma arr_prefix_len : forall slen n, blen (arr_prefix slen n) = match slen with Some _ => 0 | None => 2 end.
Proof. intros [m|] n; cbn [arr_prefix]; [reflexivity | apply be_encode_len]. Qed.

(* array.length() *)
Theorem length_correct : forall arr e slen v enc vs idx,
    array_info arr = Some (e, slen) -> arc4_encode arr v = Some enc -> elems_of v = Some vs ->
    nlen vs < U64 ->
    eval_iexpr enc idx (length_expr slen) = Some (nlen vs).
Proof.
  intros arr e slen v enc vs idx Hi He Hv Hn.
  destruct (array_body _ _ _ _ _ Hi He) as (vs' & es & body & Hv' & _ & _ & _ & _ & -> & Hs).
  rewrite Hv in Hv'. injection Hv' as <-.
  destruct slen as [n|]; cbn [length_expr eval_iexpr arr_prefix].
  - subst n. apply push_int_ok. exact Hn.
  - rewrite push_int_ok by (unfold U64; lia). cbn [obind]. apply u16_at_prefix. exact Hs.
Qed.

Lemma is_dynamic_arr : forall arr e slen, array_info arr = Some (e, slen) ->
    is_dynamic arr = match slen with Some _ => is_dynamic e | None => true end.
Proof. intros arr e slen H. destruct arr; cbn in H; try discriminate; injection H as <- <-; reflexivity. Qed.

Lemma nth_error_split' : forall {A} (l : list A) i x, nth_error l i = Some x ->
    exists l1 l2, l = l1 ++ x :: l2 /\ nlen l1 = N.of_nat i.
Proof.
  intros A l i x H. destruct (nth_error_split l i H) as (l1 & l2 & -> & L). exists l1, l2. split; [reflexivity|].
  unfold nlen. rewrite L. reflexivity.
Qed.

(* ---- array[idx] for an in-range index (constant or computed: the plan only sees its value) ---- *)
Theorem array_elem_correct : forall ver arr e slen v enc vs i x,
    EXTRACT_MIN_VERSION <= ver ->
    array_info arr = Some (e, slen) -> arc4_encode arr v = Some enc -> blen enc <= MAX_BYTES ->
    elems_of v = Some vs -> nth_error vs i = Some x -> pyteal_elem e = true -> nlen vs < U64 ->
    exists p sv, array_elem_plan arr = Some p /\ stored e x = Some sv /\
                 exec_plan ver p enc (N.of_nat i) = Some sv.
Proof.
  intros ver arr e slen v enc vs i x Hver Hi He Hlen Hv Hx Hpy Hnv.
  pose proof (length_correct _ _ _ _ _ _ (N.of_nat i) Hi He Hv Hnv) as Hlenx.
  destruct (array_body _ _ _ _ _ Hi He) as (vs' & es & body & Hv' & Hes & Hasm & F & L & Eenc & Hs).
  rewrite Hv in Hv'. injection Hv' as <-.
  destruct (enc_all_nth _ _ _ _ _ Hes Hx) as (el & Hel & Hev).
  destruct (nth_error_split' _ _ _ Hel) as (l1 & l2 & Ees & Hl1).
  assert (Hi_lt : N.of_nat i < nlen vs).
  { unfold nlen. rewrite <- L, Ees, app_length. unfold nlen in Hl1. cbn [List.length]. lia. }
  rewrite Ees in F. apply Forall_app in F as [F1 F2]. apply Forall_cons_iff in F2 as [Hrel F3].
  set (pre := arr_prefix slen (nlen vs)) in *.
  assert (Hpre : blen pre = match slen with Some _ => 0 | None => 2 end) by apply arr_prefix_len.
  assert (Hbody : blen body <= MAX_BYTES) by (rewrite Eenc, blen_app in Hlen; lia).
  assert (Hpre2 : blen pre <= 2) by (rewrite Hpre; destruct slen; lia).
  unfold array_elem_plan. rewrite Hi.
  destruct (is_bool e) eqn:Hb.
  - (* bool elements: one bit *)
    destruct (elem_rel_bool _ _ Hrel Hb) as [b ->].
    apply enc_elem_bool_inv in Hev. subst x.
    assert (Hte : e = TBool) by (apply is_bool_true; exact Hb). subst e.
    pose proof (access_bool _ _ _ _ _ Hasm Ees) as G.
    rewrite (spos_bools TBool l1 0 0 eq_refl F1) in G. cbn [fst snd] in G.
    rewrite Hl1 in G. replace (8 * 0 + (0 + N.of_nat i)) with (N.of_nat i) in G by lia.
    pose proof (get_bit_bytes_bound _ _ _ G) as Bd.
    rewrite (is_dynamic_arr _ _ _ Hi). cbn [is_dynamic stored].
    destruct slen as [n|]; subst pre; cbn [arr_prefix app] in Eenc.
    + exists (PGetbit IIdx), (VI (b2N b)). split; [reflexivity|]. split; [reflexivity|].
      cbn [exec_plan eval_iexpr obind]. rewrite getbit_bytes_eq. subst enc. rewrite G. reflexivity.
    + exists (PGetbit (IAdd IIdx (IInt 16))), (VI (b2N b)). split; [reflexivity|]. split; [reflexivity|].
      cbn [exec_plan eval_iexpr obind]. rewrite push_int_ok by (unfold U64; lia). cbn [obind].
      rewrite op2_add by (unfold MAX_BYTES in Hbody; unfold U64; lia). cbn [obind].
      rewrite getbit_bytes_eq. subst enc.
      replace (N.of_nat i + 16) with (8 * blen (be_encode 2 (nlen vs)) + N.of_nat i) by (rewrite be_encode_len; lia).
      rewrite get_bit_bytes_shift, G. reflexivity.
  - destruct (is_dynamic e) eqn:Hd.
    + (* dynamic elements *)
      destruct (elem_rel_dyn _ _ Hrel Hb Hd) as [bs ->].
      apply enc_elem_nonbool_inv in Hev as [bs' [Hbs Eq]]. cbv iota in Eq. injection Eq as <-.
      pose proof (access_dyn _ _ _ _ _ Hasm Ees) as (Ho & Hsl & a & Ea & Hla).
      rewrite (spos_dyns e l1 0 Hb Hd F1) in Hsl. cbn [fst snd] in Hsl. rewrite bsl0, Hl1 in Hsl.
      set (o := head_len es 0 + blen (tails_of l1)) in *.
      replace (0 + N.of_nat i * 2 + 0) with (2 * N.of_nat i) in Hsl by lia.
      assert (Hib : 2 * N.of_nat i + 2 <= blen body) by (eapply slice_bound; eauto).
      unfold stride. rewrite Hd.
      destruct (dyn_not_scalar e (@None iexpr) (@None iexpr) (@None iexpr) Hd) as [_ Hst].
      rewrite Hst, Hbs. cbn [option_map].
      (* value of the start expression, in both prefix variants *)
      set (byteIndex := if match slen with None => true | Some _ => false end
                        then IAdd (IMul (IInt 2) IIdx) (IInt 2) else IMul (IInt 2) IIdx).
      assert (Hbi : eval_iexpr enc (N.of_nat i) byteIndex = Some (blen pre + 2 * N.of_nat i)).
      { unfold byteIndex. destruct slen as [n|]; cbn [eval_iexpr].
        - rewrite push_int_ok by (unfold U64; lia). cbn [obind].
          rewrite op2_mul by (unfold MAX_BYTES in Hbody; unfold U64; lia). rewrite Hpre. f_equal.
        - rewrite !push_int_ok by (unfold U64; lia). cbn [obind].
          rewrite op2_mul by (unfold MAX_BYTES in Hbody; unfold U64; lia). cbn [obind].
          rewrite op2_add by (unfold MAX_BYTES in Hbody; unfold U64; lia). rewrite Hpre. f_equal. lia. }
      assert (Hu : eval_iexpr enc (N.of_nat i) (IU16 byteIndex) = Some o).
      { cbn [eval_iexpr]. rewrite Hbi. cbn [obind]. rewrite Eenc, u16_at_shift. apply u16_at_ok; assumption. }
      set (vstart := if match slen with None => true | Some _ => false end
                     then IAdd (IU16 byteIndex) (IInt 2) else IU16 byteIndex).
      assert (Hvs : eval_iexpr enc (N.of_nat i) vstart = Some (blen (pre ++ a))).
      { unfold vstart. rewrite blen_app, Hla, Hpre. destruct slen as [n|].
        - rewrite Hu. reflexivity.
        - cbn [eval_iexpr]. cbn [eval_iexpr] in Hu. rewrite Hu. cbn [obind].
          rewrite push_int_ok by (unfold U64; lia). cbn [obind].
          rewrite op2_add by (unfold U64; lia). f_equal. lia. }
      assert (Hnc : not_const vstart) by (unfold vstart; destruct slen; intros k Hk; discriminate).
      set (nvs := if match slen with None => true | Some _ => false end
                  then IAdd (IU16 (IAdd byteIndex (IInt 2))) (IInt 2) else IU16 (IAdd byteIndex (IInt 2))).
      set (ve := IIf (IEq (IAdd IIdx (IInt 1)) (length_expr slen)) ILen nvs).
      assert (Eenc2 : enc = (pre ++ a) ++ bs ++ tails_of l2) by (rewrite Eenc, Ea, <- app_assoc; reflexivity).
      assert (Hve : eval_iexpr enc (N.of_nat i) ve = Some (blen (pre ++ a) + blen bs)).
      { unfold ve. cbn [eval_iexpr]. rewrite push_int_ok by (unfold U64; lia). cbn [obind].
        rewrite op2_add by (unfold U64 in *; lia). cbn [obind].
        change (eval_iexpr enc (N.of_nat i) (length_expr slen)) with (eval_iexpr enc (N.of_nat i) (length_expr slen)).
        rewrite Hlenx. cbn [obind]. rewrite op2_eq. cbn [obind].
        destruct (N.eqb_spec (N.of_nat i + 1) (nlen vs)) as [Elast|Enl]; cbn [b2N N.eqb].
        - (* last element: up to the end of the encoding *)
          assert (Hl2 : l2 = []).
          { destruct l2 as [|y r]; [reflexivity|]. exfalso.
            assert (nlen (l1 ++ ED bs :: y :: r) = nlen vs) by (rewrite <- Ees; unfold nlen; rewrite L; reflexivity).
            rewrite nlen_app, !nlen_cons in H. lia. }
          rewrite len_of_eq. f_equal. rewrite Eenc2, Hl2. cbn [tails_of]. rewrite !blen_app. cbn. lia.
        - (* not the last: the next head cell *)
          destruct l2 as [|y r].
          { exfalso. assert (nlen (l1 ++ [ED bs]) = nlen vs) by (rewrite <- Ees; unfold nlen; rewrite L; reflexivity).
            rewrite nlen_app, nlen_cons in H. unfold nlen in H at 2. cbn in H. lia. }
          apply Forall_cons_iff in F3 as [Hy F4].
          destruct (elem_rel_dyn _ _ Hy Hb Hd) as [bs2 ->].
          assert (Ees2 : es = (l1 ++ [ED bs]) ++ ED bs2 :: r) by (rewrite Ees, <- app_assoc; reflexivity).
          pose proof (access_dyn _ _ _ _ _ Hasm Ees2) as (Ho2 & Hsl2 & _).
          rewrite spos_app, (spos_dyns e l1 0 Hb Hd F1) in Hsl2. cbn [fst snd spos] in Hsl2.
          rewrite bsl0, Hl1 in Hsl2. rewrite tails_of_app in Ho2, Hsl2. cbn [tails_of] in Ho2, Hsl2.
          rewrite app_nil_r, blen_app in Ho2, Hsl2. rewrite N.add_assoc in Ho2, Hsl2. fold o in Ho2, Hsl2.
          replace (0 + N.of_nat i * 2 + 0 + 2 + 0) with (2 * N.of_nat i + 2) in Hsl2 by lia.
          assert (Hib2 : 2 * N.of_nat i + 2 + 2 <= blen body) by (eapply slice_bound; eauto).
          assert (Hn16 : eval_iexpr enc (N.of_nat i) (IU16 (IAdd byteIndex (IInt 2))) = Some (o + blen bs)).
          { cbn [eval_iexpr]. rewrite Hbi. cbn [obind]. rewrite push_int_ok by (unfold U64; lia). cbn [obind].
            rewrite op2_add by (unfold MAX_BYTES in Hbody; unfold U64; lia). cbn [obind].
            rewrite Eenc. rewrite <- N.add_assoc, u16_at_shift. apply u16_at_ok; assumption. }
          unfold nvs. rewrite blen_app, Hla, Hpre. destruct slen as [n|].
          + rewrite Hn16. f_equal.
          + cbn [eval_iexpr]. cbn [eval_iexpr] in Hn16. rewrite Hn16. cbn [obind].
            rewrite push_int_ok by (unfold U64; lia). cbn [obind].
            rewrite op2_add by (unfold U64; lia). f_equal. lia. }
      assert (Hplan : exec_plan ver (PSubstring vstart ve) enc (N.of_nat i) = Some (VB bs))
        by (eapply exec_substring_gen; eauto).
      destruct (dyn_not_scalar e (Some vstart) (Some ve) None Hd) as [Hdp _].
      exists (PSubstring vstart ve), (VB bs). split; [|split; [reflexivity|exact Hplan]].
      unfold vstart, ve, nvs, byteIndex. destruct slen; exact Hdp.
    + (* static elements *)
      destruct (elem_rel_static _ _ Hrel Hb Hd) as [bs [-> Hsl]].
      apply enc_elem_nonbool_inv in Hev as [bs' [Hbs Eq]]. cbv iota in Eq. injection Eq as <-.
      pose proof (access_static _ _ _ _ _ Hasm Ees) as (a & c & Ea & Hla).
      rewrite (spos_statics e l1 0 Hb Hd F1) in Hla. cbn [fst snd] in Hla. rewrite bsl0, Hl1 in Hla.
      unfold stride. rewrite Hd.
      set (byteIndex := if match slen with None => true | Some _ => false end
                        then IAdd (IMul (IInt (static_len e)) IIdx) (IInt 2) else IMul (IInt (static_len e)) IIdx).
      assert (Eenc2 : enc = (pre ++ a) ++ bs ++ c) by (rewrite Eenc, Ea, <- app_assoc; reflexivity).
      assert (Hab : blen a + blen bs <= blen body) by (rewrite Ea, !blen_app; lia).
      assert (Hbi : eval_iexpr enc (N.of_nat i) byteIndex = Some (blen (pre ++ a))).
      { unfold byteIndex. rewrite blen_app, Hla, Hpre. destruct slen as [n|]; cbn [eval_iexpr].
        - rewrite push_int_ok by (unfold MAX_BYTES in Hbody; unfold U64; lia). cbn [obind].
          rewrite op2_mul by (unfold MAX_BYTES in Hbody; unfold U64; nia). f_equal. lia.
        - rewrite !push_int_ok by (unfold MAX_BYTES in Hbody; unfold U64; lia). cbn [obind].
          rewrite op2_mul by (unfold MAX_BYTES in Hbody; unfold U64; nia). cbn [obind].
          rewrite op2_add by (unfold MAX_BYTES in Hbody; unfold U64; nia). f_equal. lia. }
      assert (Hnc : not_const byteIndex) by (unfold byteIndex; destruct slen; intros k Hk; discriminate).
      rewrite <- Hsl.
      destruct (decode_static_at ver e x bs enc (N.of_nat i) (pre ++ a) c byteIndex Hbs Hb Hd Hpy Eenc2
                  ltac:(unfold MAX_BYTES in Hbody; unfold U64; lia) Hnc Hbi) as (p & sv & Hp & Hst & Hex).
      exists p, sv. split; [|split; assumption].
      unfold byteIndex in Hp. destruct slen; exact Hp.
Qed.

(* ---- get() on byte strings ---- *)
Theorem bytes_get_correct : forall ver t bs enc idx,
    EXTRACT_MIN_VERSION <= ver -> arc4_encode t (VBytes bs) = Some enc -> blen enc <= MAX_BYTES ->
    match t with TString | TDynBytes | TAddress | TStaticBytes _ => True | _ => False end ->
    exists p, get_plan t = Some p /\ exec_plan ver p enc idx = Some (VB bs).
Proof.
  intros ver t bs enc idx Hv He Hl Ht.
  destruct t; try contradiction; cbn [get_plan].
  - (* address *)
    exists PWhole. split; [reflexivity|]. cbn [exec_plan].
    pose proof (encode_typed _ _ _ He) as Hty. cbn in Hty. unfold static_array_ok in Hty. cbn [elems_of] in Hty.
    rewrite map_length in Hty. apply andb_true_iff in Hty as [Hn _]. apply N.eqb_eq in Hn.
    rewrite (encode_address_raw bs Hn) in He. congruence.
  - (* string *)
    exists (PSuffix (IInt 2)). split; [reflexivity|].
    pose proof (encode_typed _ _ _ He) as Hty. cbn in Hty. unfold dyn_array_ok in Hty. cbn [elems_of] in Hty.
    rewrite map_length in Hty. apply andb_true_iff in Hty as [Hn _]. apply N.ltb_lt in Hn.
    rewrite (encode_string_raw bs Hn) in He. injection He as <-.
    pose proof (exec_suffix_const ver (be_encode 2 (blen bs) ++ bs) idx (be_encode 2 (blen bs)) bs Hv eq_refl Hl) as G.
    rewrite be_encode_len in G. exact G.
  - (* static bytes *)
    exists PWhole. split; [reflexivity|]. cbn [exec_plan].
    pose proof (encode_typed _ _ _ He) as Hty. cbn in Hty. unfold static_array_ok in Hty. cbn [elems_of] in Hty.
    rewrite map_length in Hty. apply andb_true_iff in Hty as [Hn _]. apply N.eqb_eq in Hn.
    rewrite (encode_static_bytes_raw len bs Hn) in He. congruence.
  - (* dynamic bytes *)
    exists (PSuffix (IInt 2)). split; [reflexivity|].
    pose proof (encode_typed _ _ _ He) as Hty. cbn in Hty. unfold dyn_array_ok in Hty. cbn [elems_of] in Hty.
    rewrite map_length in Hty. apply andb_true_iff in Hty as [Hn _]. apply N.ltb_lt in Hn.
    rewrite (encode_dynbytes_raw bs Hn) in He. injection He as <-.
    pose proof (exec_suffix_const ver (be_encode 2 (blen bs) ++ bs) idx (be_encode 2 (blen bs)) bs Hv eq_refl Hl) as G.
    rewrite be_encode_len in G. exact G.
Qed.
