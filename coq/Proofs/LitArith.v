(* Proofs/LitArith.v — C13: arithmetic of the assembler's big-number base-N decoder
   ([decode_bits] in AVM/Parse.v): it distributes over groups whose bit length is a multiple of 8,
   and on one group it computes the bytes the RFC 4648 diagrams prescribe. *)
From Coq Require Import List Arith NArith Ascii String Bool Lia.
From PV Require Import Base.Bytes AVM.Parse Lit.RFC4648.
Import ListNotations.
Local Open Scope N_scope.

Definition foldw (w : N) (vals : list N) (a : N) : N := fold_left (fun acc v => acc * 2 ^ w + v) vals a.

Lemma decode_bits_unfold w vals :
  decode_bits w vals =
  be_encode (N.to_nat (w * N.of_nat (List.length vals) / 8))
            (N.shiftr (foldw w vals 0) (w * N.of_nat (List.length vals) mod 8)).
Proof. reflexivity. Qed.

Lemma pow2_pos n : 0 < 2 ^ n.
Proof. apply N.neq_0_lt_0, N.pow_nonzero. discriminate. Qed.

Lemma foldw_acc w l : forall a,
  foldw w l a = a * 2 ^ (w * N.of_nat (List.length l)) + foldw w l 0.
Proof.
  induction l as [|v l IH]; intros a.
  - cbn. rewrite N.mul_0_r. cbn. lia.
  - unfold foldw in *. cbn [fold_left List.length]. rewrite IH, (IH (0 * 2 ^ w + v)).
    rewrite Nat2N.inj_succ, N.mul_succ_r, N.pow_add_r.
    set (P := 2 ^ (w * N.of_nat (List.length l))). set (Q := 2 ^ w). lia.
Qed.

Lemma foldw_bound w l : Forall (fun v => v < 2 ^ w) l -> foldw w l 0 < 2 ^ (w * N.of_nat (List.length l)).
Proof.
  induction 1 as [|v l Hv Hl IH].
  - cbn. rewrite N.mul_0_r. reflexivity.
  - unfold foldw in *. cbn [fold_left List.length]. fold (foldw w l (0 * 2 ^ w + v)).
    rewrite foldw_acc. unfold foldw.
    rewrite Nat2N.inj_succ, N.mul_succ_r, N.pow_add_r.
    set (P := 2 ^ (w * N.of_nat (List.length l))) in *. set (Q := 2 ^ w) in *.
    assert (0 < P) by apply pow2_pos. nia.
Qed.

Lemma n2b_small y : y < 256 -> n2b y = byte_of y.
Proof. intros H. unfold n2b, byte_of. now rewrite N.mod_small. Qed.

Lemma be_encode_snoc k n y : y < 256 -> be_encode (S k) (n * 256 + y) = be_encode k n ++ [byte_of y].
Proof.
  intros H. cbn [be_encode]. rewrite N.div_add_l by discriminate. rewrite (N.div_small y) by assumption.
  rewrite N.add_0_r. f_equal. unfold n2b, byte_of.
  rewrite N.add_comm, N.mod_add by discriminate. now rewrite N.mod_small.
Qed.

Lemma be_encode_1 y : y < 256 -> be_encode 1 y = [byte_of y].
Proof. intros H. cbn [be_encode app]. now rewrite n2b_small. Qed.

Lemma be_encode_split m : forall k G R,
  R < 256 ^ N.of_nat m ->
  be_encode (k + m) (G * 256 ^ N.of_nat m + R) = be_encode k G ++ be_encode m R.
Proof.
  induction m as [|m IH]; intros k G R H.
  - cbn in H. assert (R = 0) by lia. subst R. cbn [N.of_nat]. rewrite Nat.add_0_r.
    cbn [be_encode]. rewrite N.pow_0_r, N.mul_1_r, N.add_0_r, app_nil_r. reflexivity.
  - rewrite Nat.add_succ_r. cbn [be_encode].
    rewrite Nat2N.inj_succ, N.pow_succ_r' in *.
    set (P := 256 ^ N.of_nat m) in *.
    replace (G * (256 * P) + R) with (G * P * 256 + R) by lia.
    rewrite N.div_add_l by discriminate.
    rewrite IH by (apply N.div_lt_upper_bound; [discriminate | lia]).
    rewrite <- app_assoc. f_equal. f_equal. f_equal. unfold n2b.
    rewrite N.add_comm, N.mod_add by discriminate. reflexivity.
Qed.

Lemma shiftr_eq X s q r : X = q * 2 ^ s + r -> r < 2 ^ s -> N.shiftr X s = q.
Proof.
  intros -> H. rewrite N.shiftr_div_pow2, N.div_add_l by (apply N.pow_nonzero; discriminate).
  rewrite N.div_small by assumption. lia.
Qed.

(* the decoder distributes over a leading group of 8K bits *)
Lemma decode_bits_app w g r K :
  Forall (fun v => v < 2 ^ w) r ->
  w * N.of_nat (List.length g) = 8 * N.of_nat K ->
  decode_bits w (g ++ r) = be_encode K (foldw w g 0) ++ decode_bits w r.
Proof.
  intros Hr Hg. rewrite !decode_bits_unfold.
  unfold foldw at 1. rewrite fold_left_app. fold (foldw w g 0). fold (foldw w r (foldw w g 0)).
  rewrite foldw_acc. set (G := foldw w g 0). pose proof (foldw_bound w r Hr) as HR.
  set (R := foldw w r 0) in *. rewrite app_length, Nat2N.inj_add, N.mul_add_distr_l, Hg.
  set (T := w * N.of_nat (List.length r)) in *.
  pose proof (N.div_mod T 8 ltac:(discriminate)) as DM.
  pose proof (N.mod_lt T 8 ltac:(discriminate)) as ML.
  replace ((8 * N.of_nat K + T) / 8) with (N.of_nat K + T / 8)
    by (rewrite (N.mul_comm 8), N.div_add_l by discriminate; reflexivity).
  replace ((8 * N.of_nat K + T) mod 8) with (T mod 8)
    by (rewrite (N.mul_comm 8), N.add_comm, N.mod_add by discriminate; reflexivity).
  set (m := T / 8) in *. set (s := T mod 8) in *.
  rewrite N2Nat.inj_add, Nat2N.id.
  assert (E2 : 2 ^ T = 256 ^ m * 2 ^ s).
  { rewrite DM, N.pow_add_r, N.pow_mul_r. reflexivity. }
  assert (Ps : 0 < 2 ^ s) by apply pow2_pos.
  rewrite (shiftr_eq (G * 2 ^ T + R) s (G * 256 ^ m + R / 2 ^ s) (R mod 2 ^ s)).
  - replace (256 ^ m) with (256 ^ N.of_nat (N.to_nat m)) by now rewrite N2Nat.id.
    rewrite be_encode_split.
    + f_equal. f_equal. rewrite N.shiftr_div_pow2. reflexivity.
    + rewrite N2Nat.id. apply N.div_lt_upper_bound; [lia|]. rewrite N.mul_comm, <- E2. exact HR.
  - rewrite E2. pose proof (N.div_mod R (2 ^ s) ltac:(lia)). nia.
  - apply N.mod_lt. lia.
Qed.

(* naming quotients and remainders so that [lia] can finish *)
Ltac divmod x k :=
  let q := fresh "q" in let r := fresh "r" in let Hq := fresh "Hq" in let Hr := fresh "Hr" in
  pose proof (N.div_mod x k ltac:(discriminate)) as Hq;
  pose proof (N.mod_lt x k ltac:(discriminate)) as Hr;
  remember (x / k) as q; remember (x mod k) as r.

(* ---- base64 groups ---- *)
Lemma q64_ok a b c d : a < 64 -> b < 64 -> c < 64 -> d < 64 ->
  be_encode 3 (foldw 6 [a; b; c; d] 0) = q64 a b c d.
Proof.
  intros Ha Hb Hc Hd. unfold q64, foldw. cbn [fold_left]. change (2 ^ 6) with 64.
  divmod b 16. divmod c 4.
  replace ((((0 * 64 + a) * 64 + b) * 64 + c) * 64 + d)
    with (((a * 4 + q) * 256 + (r * 16 + q0)) * 256 + (r0 * 64 + d)) by lia.
  rewrite !be_encode_snoc, be_encode_1 by lia. reflexivity.
Qed.

Lemma q64_2_ok a b : a < 64 -> b < 64 -> decode_bits 6 [a; b] = q64_2 a b.
Proof.
  intros Ha Hb. rewrite decode_bits_unfold. unfold q64_2, foldw. cbn [fold_left List.length].
  change (N.to_nat (6 * N.of_nat 2 / 8)) with 1%nat. change (6 * N.of_nat 2 mod 8) with 4.
  change (2 ^ 6) with 64. divmod b 16.
  rewrite (shiftr_eq _ 4 (a * 4 + q) r) by (change (2 ^ 4) with 16; lia).
  apply be_encode_1. lia.
Qed.

Lemma q64_3_ok a b c : a < 64 -> b < 64 -> c < 64 -> decode_bits 6 [a; b; c] = q64_3 a b c.
Proof.
  intros Ha Hb Hc. rewrite decode_bits_unfold. unfold q64_3, foldw. cbn [fold_left List.length].
  change (N.to_nat (6 * N.of_nat 3 / 8)) with 2%nat. change (6 * N.of_nat 3 mod 8) with 2.
  change (2 ^ 6) with 64. divmod b 16. divmod c 4.
  rewrite (shiftr_eq _ 2 ((a * 4 + q) * 256 + (r * 16 + q0)) r0) by (change (2 ^ 2) with 4; lia).
  rewrite be_encode_snoc, be_encode_1 by lia. reflexivity.
Qed.

(* ---- base32 groups ---- *)
Lemma q32_ok a b c d e f g h :
  a < 32 -> b < 32 -> c < 32 -> d < 32 -> e < 32 -> f < 32 -> g < 32 -> h < 32 ->
  be_encode 5 (foldw 5 [a; b; c; d; e; f; g; h] 0) = q32 a b c d e f g h.
Proof.
  intros Ha Hb Hc Hd He Hf Hg Hh. unfold q32, q32_4, q32_3, q32_2, q32_1, foldw. cbn [fold_left app].
  change (2 ^ 5) with 32. divmod b 4. divmod d 16. divmod e 2. divmod g 8.
  replace ((((((((0 * 32 + a) * 32 + b) * 32 + c) * 32 + d) * 32 + e) * 32 + f) * 32 + g) * 32 + h)
    with (((((a * 8 + q) * 256 + (r * 64 + c * 2 + q0)) * 256 + (r0 * 16 + q1)) * 256 + (r1 * 128 + f * 4 + q2)) * 256 + (r2 * 32 + h)) by lia.
  rewrite !be_encode_snoc, be_encode_1 by lia. reflexivity.
Qed.

Lemma q32_1_ok a b : a < 32 -> b < 32 -> decode_bits 5 [a; b] = q32_1 a b.
Proof.
  intros Ha Hb. rewrite decode_bits_unfold. unfold q32_1, foldw. cbn [fold_left List.length].
  change (N.to_nat (5 * N.of_nat 2 / 8)) with 1%nat. change (5 * N.of_nat 2 mod 8) with 2.
  change (2 ^ 5) with 32. divmod b 4.
  rewrite (shiftr_eq _ 2 (a * 8 + q) r) by (change (2 ^ 2) with 4; lia).
  apply be_encode_1. lia.
Qed.

Lemma q32_2_ok a b c d : a < 32 -> b < 32 -> c < 32 -> d < 32 -> decode_bits 5 [a; b; c; d] = q32_2 a b c d.
Proof.
  intros Ha Hb Hc Hd. rewrite decode_bits_unfold. unfold q32_2, q32_1, foldw. cbn [fold_left List.length app].
  change (N.to_nat (5 * N.of_nat 4 / 8)) with 2%nat. change (5 * N.of_nat 4 mod 8) with 4.
  change (2 ^ 5) with 32. divmod b 4. divmod d 16.
  rewrite (shiftr_eq _ 4 ((a * 8 + q) * 256 + (r * 64 + c * 2 + q0)) r0) by (change (2 ^ 4) with 16; lia).
  rewrite be_encode_snoc, be_encode_1 by lia. reflexivity.
Qed.

Lemma q32_3_ok a b c d e : a < 32 -> b < 32 -> c < 32 -> d < 32 -> e < 32 ->
  decode_bits 5 [a; b; c; d; e] = q32_3 a b c d e.
Proof.
  intros Ha Hb Hc Hd He. rewrite decode_bits_unfold. unfold q32_3, q32_2, q32_1, foldw. cbn [fold_left List.length app].
  change (N.to_nat (5 * N.of_nat 5 / 8)) with 3%nat. change (5 * N.of_nat 5 mod 8) with 1.
  change (2 ^ 5) with 32. divmod b 4. divmod d 16. divmod e 2.
  rewrite (shiftr_eq _ 1 (((a * 8 + q) * 256 + (r * 64 + c * 2 + q0)) * 256 + (r0 * 16 + q1)) r1)
    by (change (2 ^ 1) with 2; lia).
  rewrite !be_encode_snoc, be_encode_1 by lia. reflexivity.
Qed.

Lemma q32_4_ok a b c d e f g : a < 32 -> b < 32 -> c < 32 -> d < 32 -> e < 32 -> f < 32 -> g < 32 ->
  decode_bits 5 [a; b; c; d; e; f; g] = q32_4 a b c d e f g.
Proof.
  intros Ha Hb Hc Hd He Hf Hg. rewrite decode_bits_unfold. unfold q32_4, q32_3, q32_2, q32_1, foldw.
  cbn [fold_left List.length app].
  change (N.to_nat (5 * N.of_nat 7 / 8)) with 4%nat. change (5 * N.of_nat 7 mod 8) with 3.
  change (2 ^ 5) with 32. divmod b 4. divmod d 16. divmod e 2. divmod g 8.
  rewrite (shiftr_eq _ 3 ((((a * 8 + q) * 256 + (r * 64 + c * 2 + q0)) * 256 + (r0 * 16 + q1)) * 256 + (r1 * 128 + f * 4 + q2)) r2)
    by (change (2 ^ 3) with 8; lia).
  rewrite !be_encode_snoc, be_encode_1 by lia. reflexivity.
Qed.
