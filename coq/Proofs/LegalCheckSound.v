(* Proofs/LegalCheckSound.v — C04: soundness of AVM/LegalCheck.v with respect to AVM/Machine.v.

   If [legal_check version app msel text = LOk] and the text parses to the program p, then in EVERY
   execution of p (every context, every initial state, any number of steps):
     - the pc always points at an instruction of p: the "ran off the end" case of [step] is unreachable;
     - every return address on the call stack points at an instruction of p;
     - the instruction about to be executed passed the static check (langspec membership at the
       version and in the mode, immediates), and each of its branch targets resolves ([label_pc]);
     - a step that is not a callsub or retsub stays in the routine region of its instruction; callsub
       goes to a routine entry, retsub is never executed in the main region.
   Invariant: pc and all return addresses belong to the set R verified by [closed_check]. *)
From Coq Require Import List Arith NArith Ascii String Bool Lia.
From PV Require Import Base.Bytes Base.Sexp AVM.Syntax AVM.Ops AVM.Machine AVM.Parse AVM.Langspec AVM.LegalCheck.
Import ListNotations.
Local Open Scope string_scope.

(* ------------------------------------------------------------------ verdict algebra *)
Lemma vand_ok a b : vand a b = VOk -> a = VOk /\ b = VOk.
Proof. destruct a; cbn; intros H; try discriminate; auto. Qed.

Lemma with_op_ok o v : with_op o v = VOk -> v = VOk.
Proof. destruct v; cbn; intros H; try discriminate; auto. Qed.

Lemma vall_ok {A} (f : A -> iverdict) l : vall f l = VOk -> forall x, In x l -> f x = VOk.
Proof.
  induction l as [|a t IH]; cbn; intros H x Hin; [contradiction|].
  apply vand_ok in H. destruct H as [Ha Ht]. destruct Hin as [<-|Hin]; auto.
Qed.

Lemma lthen_ok a b : lthen a b = LOk -> a = LOk /\ b = LOk.
Proof. destruct a; cbn; intros H; try discriminate; auto. Qed.

Lemma lift_ok v pc k : lift v pc k = LOk -> v = VOk /\ k = LOk.
Proof. destruct v; cbn; intros H; try discriminate; auto. Qed.

Lemma first_bad_ok f : forall code s, first_bad f s code = LOk ->
  forall k i, nth_error code k = Some i -> f (s + k)%nat i = VOk.
Proof.
  induction code as [|a t IH]; intros s H k i Hn.
  - destruct k; discriminate.
  - cbn in H. destruct (f s a) eqn:E; try discriminate.
    destruct k as [|k]; cbn in Hn.
    + injection Hn as <-. now rewrite Nat.add_0_r.
    + rewrite Nat.add_succ_r. change (S (s + k)) with (S s + k)%nat. eapply IH; eauto.
Qed.

(* ------------------------------------------------------------------ what the checker establishes *)
Definition code_len (p : program) : nat := List.length (pr_code p).
Definition ni_of (p : program) : option nat := block_len O_intcblock (pr_code p).
Definition nb_of (p : program) : option nat := block_len O_bytecblock (pr_code p).

Record checked (version : N) (app : bool) (p : program) (R : list bool) : Prop := mkChecked {
  ck_static : forall pc i, nth_error (pr_code p) pc = Some i -> static_instr version app (ni_of p) (nb_of p) i = VOk;
  ck_targets : forall pc i, nth_error (pr_code p) pc = Some i -> targets_instr version p pc i = VOk;
  ck_nonempty : (0 < code_len p)%nat;
  ck_no_entry_0 : ~ In 0%nat (entries_of p);
  ck_entry : nth 0 R false = true;
  ck_closed : forall pc i, nth_error (pr_code p) pc = Some i -> nth pc R false = true ->
              pc_closed p (entries_of p) R pc i = VOk
}.

Lemma existsb_eqb_false x l : existsb (Nat.eqb x) l = false -> ~ In x l.
Proof.
  intros H Hin. assert (existsb (Nat.eqb x) l = true) as E.
  { apply existsb_exists. exists x. split; [exact Hin|apply Nat.eqb_refl]. }
  congruence.
Qed.

Lemma existsb_eqb_true x l : existsb (Nat.eqb x) l = true -> In x l.
Proof.
  intros H. apply existsb_exists in H. destruct H as [y [Hin E]]. apply Nat.eqb_eq in E. now subst.
Qed.

Lemma check_program_checked version app p :
  check_program version app p = LOk -> checked version app p (reach_set p (entries_of p)).
Proof.
  unfold check_program. intros H.
  apply lthen_ok in H. destruct H as [Hs H].
  apply lthen_ok in H. destruct H as [_ H].
  apply lthen_ok in H. destruct H as [Ht Hc].
  unfold closed_check in Hc.
  destruct (pr_code p) as [|i0 t] eqn:Ec; [discriminate|]. rewrite <- Ec in *.
  destruct (existsb (Nat.eqb 0) (entries_of p)) eqn:E0; [discriminate|].
  destruct (nth 0 (reach_set p (entries_of p)) false) eqn:ER; [|discriminate]. cbn [negb] in Hc.
  constructor.
  - intros pc i Hn. apply (first_bad_ok _ _ _ Hs pc i Hn).
  - intros pc i Hn. apply (first_bad_ok _ _ _ Ht pc i Hn).
  - unfold code_len. rewrite Ec. cbn. lia.
  - apply existsb_eqb_false. exact E0.
  - exact ER.
  - intros pc i Hn HR.
    assert (Hk : (if nth pc (reach_set p (entries_of p)) false
                  then pc_closed p (entries_of p) (reach_set p (entries_of p)) pc i else VOk) = VOk)
      by exact (first_bad_ok _ _ _ Hc pc i Hn).
    now rewrite HR in Hk.
Qed.

(* ------------------------------------------------------------------ reading the closure verdicts *)
Lemma negb_false_true b : negb b = false -> b = true.
Proof. destruct b; cbn; congruence. Qed.

Lemma fall_ok_spec n ents R pc : fall_ok n ents R pc = VOk ->
  (S pc < n)%nat /\ region_of ents (S pc) = region_of ents pc /\ nth (S pc) R false = true.
Proof.
  unfold fall_ok. intros H.
  destruct (S pc <? n)%nat eqn:E1; cbn [negb] in H; [|discriminate].
  destruct (same_region ents (S pc) pc) eqn:E2; cbn [negb] in H; [|discriminate].
  destruct (nth (S pc) R false) eqn:E3; cbn [negb] in H; [|discriminate].
  apply Nat.ltb_lt in E1. apply Nat.eqb_eq in E2. auto.
Qed.

Lemma target_ok_spec p ents R pc l : target_ok p ents R pc l = VOk ->
  exists t, label_pc p l = Some t /\ (t < code_len p)%nat /\ region_of ents t = region_of ents pc /\ nth t R false = true.
Proof.
  unfold target_ok. intros H. destruct (label_pc p l) as [t|]; [|discriminate].
  destruct (t <? List.length (pr_code p))%nat eqn:E1; cbn [negb] in H; [|discriminate].
  destruct (same_region ents t pc) eqn:E2; cbn [negb] in H; [|discriminate].
  destruct (nth t R false) eqn:E3; cbn [negb] in H; [|discriminate].
  exists t. apply Nat.ltb_lt in E1. apply Nat.eqb_eq in E2. auto.
Qed.

Lemma call_ok_spec p ents R l : call_ok p ents R l = VOk ->
  exists t, label_pc p l = Some t /\ (t < code_len p)%nat /\ In t ents /\ nth t R false = true.
Proof.
  unfold call_ok. intros H. destruct (label_pc p l) as [t|]; [|discriminate].
  destruct (t <? List.length (pr_code p))%nat eqn:E1; cbn [negb] in H; [|discriminate].
  destruct (existsb (Nat.eqb t) ents) eqn:E2; cbn [negb] in H; [|discriminate].
  destruct (nth t R false) eqn:E3; cbn [negb] in H; [|discriminate].
  exists t. apply Nat.ltb_lt in E1. apply existsb_eqb_true in E2. auto.
Qed.

(* ------------------------------------------------------------------ the shape of a machine step *)
Definition is_ctl (o : opc) : bool :=
  match o with
  | O_b | O_bz | O_bnz | O_callsub | O_retsub | O_return_ | O_err | O_switch | O_match_ => true
  | _ => false
  end.

Lemma exec_op_ctl cx o imms stk st : is_ctl o = true -> exec_op cx o imms stk st = ONot.
Proof. destruct o; cbn [is_ctl]; intros H; try discriminate H; reflexivity. Qed.

Lemma pc_closed_plain p ents R pc i : is_ctl (p_op i) = false ->
  pc_closed p ents R pc i = with_op (p_op i) (fall_ok (List.length (pr_code p)) ents R pc).
Proof. unfold pc_closed. destruct (p_op i); cbn [is_ctl]; intros H; try discriminate H; reflexivity. Qed.

Inductive step_kind (p : program) (m m' : mach) (i : pinstr) : Prop :=
| SK_next : is_ctl (p_op i) = false -> m_pc m' = S (m_pc m) ->
            map f_ret (m_calls m') = map f_ret (m_calls m) -> step_kind p m m' i
| SK_b l t : p_op i = O_b -> p_imms i = [IName l] -> label_pc p l = Some t ->
            m_pc m' = t -> m_calls m' = m_calls m -> step_kind p m m' i
| SK_cond l t : p_op i = O_bz \/ p_op i = O_bnz -> p_imms i = [IName l] -> label_pc p l = Some t ->
            m_pc m' = t \/ m_pc m' = S (m_pc m) -> m_calls m' = m_calls m -> step_kind p m m' i
| SK_call l t : p_op i = O_callsub -> p_imms i = [IName l] -> label_pc p l = Some t ->
            m_pc m' = t -> m_calls m' = mkFrame (S (m_pc m)) None :: m_calls m -> step_kind p m m' i
| SK_ret f fs : p_op i = O_retsub -> m_calls m = f :: fs -> m_pc m' = f_ret f -> m_calls m' = fs ->
            step_kind p m m' i.

Ltac brk H :=
  repeat (match type of H with
          | context [match ?x with _ => _ end] => destruct x eqn:?; try discriminate H
          end).

Ltac finish_kind H Eo :=
  injection H as <-; subst;
  first [ solve [eapply SK_next; [rewrite Eo; reflexivity|cbn; eauto ..]]
        | solve [eapply SK_next; [rewrite Eo; reflexivity|cbn; eauto|
                 cbn; match goal with Hq : m_calls _ = _ |- _ => rewrite Hq end; reflexivity]]
        | solve [eapply SK_b; cbn; eauto]
        | solve [eapply SK_cond; cbn; eauto]
        | solve [eapply SK_call; cbn; eauto]
        | solve [eapply SK_ret; cbn; eauto] ].

Lemma step_shape cx p m m' i :
  nth_error (pr_code p) (m_pc m) = Some i -> step cx p m = Running m' -> step_kind p m m' i.
Proof.
  intros Hn H. unfold step in H. rewrite Hn in H.
  destruct (STACK_MAX <? height m)%nat; [discriminate|].
  destruct (exec_op cx (p_op i) (p_imms i) (m_stack m) (m_st m)) eqn:E; try discriminate.
  - (* an ordinary instruction *)
    destruct (is_ctl (p_op i)) eqn:C.
    + rewrite exec_op_ctl in E by exact C. discriminate.
    + injection H as <-. apply SK_next; cbn; auto.
  - (* handled by the machine itself *)
    clear E. destruct (p_op i) eqn:Eo; cbn in H; try discriminate H; brk H; finish_kind H Eo.
Qed.

Lemma step_done_same cx p m v m' : step cx p m = Done v m' -> m' = m.
Proof.
  intros H. unfold step in H.
  destruct (nth_error (pr_code p) (m_pc m)) as [i|].
  - destruct (STACK_MAX <? height m)%nat; [injection H; auto|].
    destruct (exec_op cx (p_op i) (p_imms i) (m_stack m) (m_st m)); try discriminate;
      try (injection H; auto; fail).
    destruct (p_op i); cbn in H; try discriminate H; brk H; injection H; auto.
  - brk H; injection H; auto.
Qed.

(* ------------------------------------------------------------------ the invariant *)
Definition good (p : program) (R : list bool) (pc : nat) : Prop :=
  nth pc R false = true /\ (pc < code_len p)%nat.

Definition Inv (p : program) (R : list bool) (m : mach) : Prop :=
  good p R (m_pc m) /\ Forall (good p R) (map f_ret (m_calls m)).

Lemma good_instr p R pc : good p R pc -> exists i, nth_error (pr_code p) pc = Some i.
Proof.
  intros [_ H]. unfold code_len in H. destruct (nth_error (pr_code p) pc) eqn:E; eauto.
  apply nth_error_None in E. lia.
Qed.

Section Preservation.
  Variables (version : N) (app : bool) (p : program) (R : list bool).
  Hypothesis CK : checked version app p R.

  Lemma inv_init st : Inv p R (init_mach st).
  Proof.
    split; cbn; [|constructor]. split; [apply (ck_entry _ _ _ _ CK)|apply (ck_nonempty _ _ _ _ CK)].
  Qed.

  (* facts about one step from a state satisfying the invariant *)
  Lemma inv_step cx m m' i :
    Inv p R m -> nth_error (pr_code p) (m_pc m) = Some i -> step cx p m = Running m' ->
    Inv p R m' /\
    ((p_op i = O_callsub /\ In (m_pc m') (entries_of p)) \/
     (p_op i = O_retsub /\ region_of (entries_of p) (m_pc m) <> 0%nat) \/
     (p_op i <> O_callsub /\ p_op i <> O_retsub /\
      region_of (entries_of p) (m_pc m') = region_of (entries_of p) (m_pc m))).
  Proof.
    intros [[HR Hlt] Hcalls] Hn Hs.
    pose proof (ck_closed _ _ _ _ CK _ _ Hn HR) as Hc.
    destruct (step_shape _ _ _ _ _ Hn Hs) as [C Hpc Hcl | l t Eo Ei El Hpc Hcl | l t Eo Ei El Hpc Hcl | l t Eo Ei El Hpc Hcl | f fs Eo Ecs Hpc Hcl].
    - (* next *)
      rewrite pc_closed_plain in Hc by exact C. apply with_op_ok in Hc.
      apply fall_ok_spec in Hc. destruct Hc as [H1 [H2 H3]].
      split.
      + split; [split; rewrite Hpc; [exact H3|exact H1]|]. rewrite Hcl. exact Hcalls.
      + right. right. rewrite Hpc. repeat split; try exact H2;
          intros E; rewrite E in C; discriminate C.
    - (* b *)
      unfold pc_closed in Hc. rewrite Eo, Ei in Hc. apply with_op_ok in Hc.
      apply target_ok_spec in Hc. destruct Hc as [t' [El' [H1 [H2 H3]]]].
      rewrite El in El'. injection El' as <-.
      split.
      + split; [split; rewrite Hpc; assumption|]. rewrite Hcl. exact Hcalls.
      + right. right. rewrite Hpc, Eo. repeat split; try exact H2; discriminate.
    - (* bz / bnz *)
      assert (Hc' : vand (target_ok p (entries_of p) R (m_pc m) l) (fall_ok (List.length (pr_code p)) (entries_of p) R (m_pc m)) = VOk).
      { unfold pc_closed in Hc. destruct Eo as [Eo|Eo]; rewrite Eo, Ei in Hc; apply with_op_ok in Hc; exact Hc. }
      apply vand_ok in Hc'. destruct Hc' as [Ht Hf].
      apply target_ok_spec in Ht. destruct Ht as [t' [El' [H1 [H2 H3]]]].
      rewrite El in El'. injection El' as <-.
      apply fall_ok_spec in Hf. destruct Hf as [F1 [F2 F3]].
      split.
      + split; [|rewrite Hcl; exact Hcalls].
        destruct Hpc as [Hpc|Hpc]; rewrite Hpc; split; assumption.
      + right. right. split; [destruct Eo as [Eo|Eo]; rewrite Eo; discriminate|].
        split; [destruct Eo as [Eo|Eo]; rewrite Eo; discriminate|].
        destruct Hpc as [Hpc|Hpc]; rewrite Hpc; assumption.
    - (* callsub *)
      unfold pc_closed in Hc. rewrite Eo, Ei in Hc. apply with_op_ok in Hc.
      apply vand_ok in Hc. destruct Hc as [Ht Hf].
      apply call_ok_spec in Ht. destruct Ht as [t' [El' [H1 [H2 H3]]]].
      rewrite El in El'. injection El' as <-.
      apply fall_ok_spec in Hf. destruct Hf as [F1 [F2 F3]].
      split.
      + split; [split; rewrite Hpc; assumption|]. rewrite Hcl. cbn [map f_ret].
        constructor; [split; assumption|exact Hcalls].
      + left. rewrite Hpc. auto.
    - (* retsub *)
      unfold pc_closed in Hc. rewrite Eo in Hc. apply with_op_ok in Hc.
      destruct (Nat.eqb (region_of (entries_of p) (m_pc m)) 0) eqn:E0; [discriminate|].
      apply Nat.eqb_neq in E0.
      rewrite Ecs in Hcalls. cbn [map] in Hcalls.
      pose proof (Forall_inv Hcalls) as Hg. pose proof (Forall_inv_tail Hcalls) as Hrest.
      split.
      + split; [rewrite Hpc; exact Hg|rewrite Hcl; exact Hrest].
      + right. left. auto.
  Qed.
End Preservation.

(* ------------------------------------------------------------------ executions *)
Inductive reaches (cx : ctx) (p : program) : mach -> mach -> Prop :=
| reaches_refl m : reaches cx p m m
| reaches_step m m1 m2 : reaches cx p m m1 -> step cx p m1 = Running m2 -> reaches cx p m m2.

Lemma inv_reaches version app p R cx m0 m :
  checked version app p R -> Inv p R m0 -> reaches cx p m0 m -> Inv p R m.
Proof.
  intros CK H0 Hr. induction Hr as [|m m1 m2 Hr IH Hs]; [exact H0|].
  specialize (IH H0). destruct (good_instr _ _ _ (proj1 IH)) as [i Hn].
  exact (proj1 (inv_step _ _ _ _ CK cx _ _ _ IH Hn Hs)).
Qed.

Lemma run_reaches cx p : forall fuel m v m', run fuel cx p m = (v, m') -> reaches cx p m m'.
Proof.
  induction fuel as [|f IH]; intros m v m' H; cbn in H.
  - injection H as _ <-. constructor.
  - destruct (step cx p m) as [m1|v1 m1] eqn:E.
    + specialize (IH _ _ _ H). clear H.
      induction IH as [|a b c Hab IHab Hbc]; [econstructor; [constructor|exact E]|].
      econstructor; [apply IHab; exact E|exact Hbc].
    + injection H as _ <-. apply step_done_same in E. subst. constructor.
Qed.

(* ------------------------------------------------------------------ from the text to [checked] *)
Lemma build_prog_version : forall ss pc v code labels p,
  existsb is_pragma ss = false -> build_prog ss pc v code labels = Some p -> pr_version p = v.
Proof.
  induction ss as [|s r IH]; intros pc v code labels p Hp H; cbn in H.
  - injection H as <-. reflexivity.
  - destruct s as [i|l|v']; cbn in Hp.
    + eapply IH; eauto.
    + destruct (alookup String.eqb l labels); [discriminate|]. eapply IH; eauto.
    + discriminate.
Qed.

Lemma legal_check_inv version app msel text :
  legal_check version app msel text = LOk ->
  exists rest p, statements_of_text msel text = Some (SPragma version :: rest) /\
                 existsb is_pragma rest = false /\
                 build_prog rest 0 version [] [] = Some p /\
                 check_program version app p = LOk.
Proof.
  unfold legal_check. intros H.
  destruct (statements_of_text msel text) as [ss|]; [|discriminate].
  destruct ss as [|s rest]; [discriminate|]. destruct s as [i|l|v]; try discriminate.
  destruct (N.eqb_spec v version) as [->|]; cbn [negb] in H; [|discriminate].
  destruct (existsb is_pragma rest) eqn:Ep; [discriminate|].
  destruct (build_prog rest 0 version [] []) as [p|] eqn:Eb; [|discriminate].
  exists rest, p. auto.
Qed.

Lemma legal_check_program version app msel text p :
  legal_check version app msel text = LOk -> parse_program msel text = Some p ->
  check_program version app p = LOk /\ pr_version p = version.
Proof.
  intros H Hp. destruct (legal_check_inv _ _ _ _ H) as [rest [p' [Hs [Hnp [Hb Hc]]]]].
  unfold parse_program in Hp. rewrite Hs in Hp. cbn [build_prog] in Hp.
  rewrite Hb in Hp. injection Hp as <-. split; [exact Hc|].
  eapply build_prog_version; eauto.
Qed.

(* ------------------------------------------------------------------ the static verdict, spelled out *)
Lemma static_instr_spec version app ni nb i : static_instr version app ni nb i = VOk ->
  exists sp, ls_op (p_op i) = Known sp /\ (os_minv sp <= version)%N /\
             (if app then os_app sp else os_sig sp) = true /\
             imms_ok version app (os_imms sp) (p_imms i) = VOk /\
             const_index_ok ni nb i = VOk.
Proof.
  unfold static_instr. intros H. apply with_op_ok in H.
  destruct (ls_op (p_op i)) as [sp|]; [|discriminate]. exists sp.
  destruct (N.ltb_spec version (os_minv sp)); [discriminate|].
  destruct (if app then os_app sp else os_sig sp) eqn:Em; cbn [negb] in H; [|discriminate].
  apply vand_ok in H. destruct H. auto.
Qed.

Lemma imm_names_in l : forall s, In (IName s) l -> In s (imm_names l).
Proof.
  induction l as [|a t IH]; intros s H; [contradiction|].
  destruct H as [->|H]; [left; reflexivity|]. destruct a; cbn; auto.
Qed.

Lemma targets_instr_spec version p pc i : targets_instr version p pc i = VOk ->
  is_branch (p_op i) = true -> forall l, In (IName l) (p_imms i) ->
  exists t, label_pc p l = Some t /\
            (p_op i <> O_callsub -> (version < BACK_BRANCH_VERSION)%N -> (pc < t)%nat).
Proof.
  unfold targets_instr. intros H Hb l Hin. rewrite Hb in H. apply with_op_ok in H.
  pose proof (vall_ok _ _ H l (imm_names_in _ _ Hin)) as Hl. unfold target_defined in Hl.
  destruct (label_pc p l) as [t|]; [|discriminate]. exists t. split; [reflexivity|].
  intros Hne Hv.
  assert (Eq : opc_eqb (p_op i) O_callsub = false).
  { destruct (p_op i); try reflexivity; try discriminate Hb. contradiction Hne; reflexivity. }
  rewrite Eq in Hl. cbn [negb andb] in Hl.
  destruct (N.ltb_spec version BACK_BRANCH_VERSION) as [_|Hge]; [|lia].
  cbn [andb] in Hl. destruct (Nat.leb_spec t pc); [discriminate|lia].
Qed.

(* ------------------------------------------------------------------ main theorem *)
Definition instr_legal (version : N) (app : bool) (p : program) (i : pinstr) : Prop :=
  static_instr version app (ni_of p) (nb_of p) i = VOk.

Definition targets_resolve (p : program) (i : pinstr) : Prop :=
  is_branch (p_op i) = true -> forall l, In (IName l) (p_imms i) -> label_pc p l <> None.

(* how control may move in one step *)
Definition region_discipline (p : program) (m m' : mach) (i : pinstr) : Prop :=
  let ents := entries_of p in
  (p_op i = O_callsub /\ In (m_pc m') ents) \/
  (p_op i = O_retsub /\ region_of ents (m_pc m) <> 0%nat) \/
  (p_op i <> O_callsub /\ p_op i <> O_retsub /\ region_of ents (m_pc m') = region_of ents (m_pc m)).

Theorem legal_check_sound_lemma version app msel text p :
  legal_check version app msel text = LOk ->
  parse_program msel text = Some p ->
  pr_version p = version /\
  forall cx st m, reaches cx p (init_mach st) m ->
    exists i, nth_error (pr_code p) (m_pc m) = Some i /\
              Forall (fun f => (f_ret f < code_len p)%nat) (m_calls m) /\
              instr_legal version app p i /\
              targets_resolve p i /\
              forall m', step cx p m = Running m' -> region_discipline p m m' i.
Proof.
  intros H Hp. destruct (legal_check_program _ _ _ _ _ H Hp) as [Hc Hv]. split; [exact Hv|].
  pose proof (check_program_checked _ _ _ Hc) as CK.
  intros cx st m Hr.
  pose proof (inv_reaches _ _ _ _ _ _ _ CK (inv_init _ _ _ _ CK st) Hr) as HI.
  destruct (good_instr _ _ _ (proj1 HI)) as [i Hn]. exists i.
  split; [exact Hn|]. split.
  { destruct HI as [_ Hf]. clear - Hf. induction (m_calls m) as [|f fs IH]; cbn in *; constructor.
    - inversion Hf as [|x xs [_ Hx] _]; subst. exact Hx.
    - apply IH. inversion Hf; assumption. }
  split; [exact (ck_static _ _ _ _ CK _ _ Hn)|]. split.
  { intros Hb l Hin. destruct (targets_instr_spec _ _ _ _ (ck_targets _ _ _ _ CK _ _ Hn) Hb l Hin) as [t [Et _]].
    congruence. }
  intros m' Hs. exact (proj2 (inv_step _ _ _ _ CK cx _ _ _ HI Hn Hs)).
Qed.

(* the verdict of [run] is never produced by the ran-off-the-end rule: the final pc is inside the program *)
Corollary legal_run_inside version app msel text p :
  legal_check version app msel text = LOk -> parse_program msel text = Some p ->
  forall fuel cx st v m', run fuel cx p (init_mach st) = (v, m') ->
    nth_error (pr_code p) (m_pc m') <> None.
Proof.
  intros H Hp fuel cx st v m' Hrun.
  destruct (legal_check_sound_lemma _ _ _ _ _ H Hp) as [_ Hall].
  destruct (Hall cx st m' (run_reaches _ _ _ _ _ _ Hrun)) as [i [Hn _]]. congruence.
Qed.

(* labels are defined once: [build_prog] refuses a second definition *)
Lemma build_prog_nodup : forall ss pc v code labels p,
  NoDup (map fst labels) -> build_prog ss pc v code labels = Some p -> NoDup (map fst (pr_labels p)).
Proof.
  induction ss as [|s r IH]; intros pc v code labels p Hnd H; cbn in H.
  - injection H as <-. exact Hnd.
  - destruct s as [i|l|v'].
    + eapply IH; eauto.
    + destruct (alookup String.eqb l labels) eqn:E; [discriminate|].
      eapply IH; [|exact H]. cbn. constructor; [|exact Hnd].
      intros Hin. clear - E Hin. induction labels as [|[k x] t IHl]; [contradiction|].
      cbn in E. destruct (String.eqb_spec l k) as [->|Hne]; [discriminate|].
      destruct Hin as [Hk|Hin]; [cbn in Hk; congruence|]. apply IHl; assumption.
    + eapply IH; eauto.
Qed.

Theorem legal_labels_unique_lemma version app msel text p :
  legal_check version app msel text = LOk -> parse_program msel text = Some p ->
  NoDup (map fst (pr_labels p)).
Proof.
  intros H Hp. destruct (legal_check_inv _ _ _ _ H) as [rest [p' [Hs [_ [Hb _]]]]].
  unfold parse_program in Hp. rewrite Hs in Hp. cbn [build_prog] in Hp. rewrite Hb in Hp. injection Hp as <-.
  eapply build_prog_nodup; [|exact Hb]. constructor.
Qed.

(* an accepted text always parses to a program (the hypothesis of the soundness theorem is satisfiable) *)
Lemma legal_check_parses version app msel text :
  legal_check version app msel text = LOk -> exists p, parse_program msel text = Some p.
Proof.
  intros H. destruct (legal_check_inv _ _ _ _ H) as [rest [p [Hs [_ [Hb _]]]]].
  exists p. unfold parse_program. rewrite Hs. cbn [build_prog]. exact Hb.
Qed.
