(* Proofs/LowerFrame.v — bookkeeping of the lowering: graphs only grow; blocks defined before a
   lowering step are untouched by it (the "frame" property, CompCert RTLgen style). *)
From Coq Require Import List Arith NArith String Bool Lia.
From PV Require Import Base.Bytes AVM.Syntax Src.Expr Comp.Blocks Comp.WideRatio Comp.Lower.
Import ListNotations.

(* ---- a strong induction principle for the nested inductive [expr] ---- *)
Inductive opt_all (P : expr -> Prop) : option expr -> Prop :=
| oa_none : opt_all P None
| oa_some x : P x -> opt_all P (Some x).

Section ExprInd.
  Variable P : expr -> Prop.
  Hypothesis H_op : forall o imms t args, Forall P args -> P (EOp o imms t args).
  Hypothesis H_nary : forall o t args, Forall P args -> P (ENary o t args).
  Hypothesis H_seq : forall es, Forall P es -> P (ESeq es).
  Hypothesis H_if : forall c th el, P c -> P th -> opt_all P el -> P (EIf c th el).
  Hypothesis H_cond : forall arms, Forall (fun a => P (fst a) /\ P (snd a)) arms -> P (ECond arms).
  Hypothesis H_while : forall c b, P c -> P b -> P (EWhile c b).
  Hypothesis H_for : forall i c s b, P i -> P c -> P s -> P b -> P (EFor i c s b).
  Hypothesis H_break : P EBreak.
  Hypothesis H_continue : P EContinue.
  Hypothesis H_assert : forall conds cm, Forall P conds -> P (EAssert conds cm).
  Hypothesis H_return : forall v, opt_all P v -> P (EReturn v).
  Hypothesis H_exit : forall v, P v -> P (EExit v).
  Hypothesis H_multi : forall o imms args outs, Forall P args -> P (EMulti o imms args outs).
  Hypothesis H_call : forall s t args, Forall P args -> P (ECall s t args).
  Hypothesis H_wide : forall ns ds, Forall P ns -> Forall P ds -> P (EWide ns ds).
  Hypothesis H_param : forall i, P (EParam i).

  Fixpoint expr_ind' (e : expr) : P e :=
    let fl := (fix go (l : list expr) : Forall P l :=
                 match l with
                 | [] => Forall_nil P
                 | x :: t => Forall_cons x (expr_ind' x) (go t)
                 end) in
    match e with
    | EOp o imms t args => H_op o imms t args (fl args)
    | ENary o t args => H_nary o t args (fl args)
    | ESeq es => H_seq es (fl es)
    | EIf c th el =>
        H_if c th el (expr_ind' c) (expr_ind' th)
             (match el with Some y => oa_some P y (expr_ind' y) | None => oa_none P end)
    | ECond arms =>
        H_cond arms ((fix go (l : list (expr * expr)) : Forall (fun a => P (fst a) /\ P (snd a)) l :=
                        match l with
                        | [] => Forall_nil _
                        | a :: t => Forall_cons a (conj (expr_ind' (fst a)) (expr_ind' (snd a))) (go t)
                        end) arms)
    | EWhile c b => H_while c b (expr_ind' c) (expr_ind' b)
    | EFor i c s b => H_for i c s b (expr_ind' i) (expr_ind' c) (expr_ind' s) (expr_ind' b)
    | EBreak => H_break
    | EContinue => H_continue
    | EAssert conds cm => H_assert conds cm (fl conds)
    | EReturn v =>
        H_return v
             (match v with Some y => oa_some P y (expr_ind' y) | None => oa_none P end)
    | EExit v => H_exit v (expr_ind' v)
    | EMulti o imms args outs => H_multi o imms args outs (fl args)
    | ECall s t args => H_call s t args (fl args)
    | EWide ns ds => H_wide ns ds (fl ns) (fl ds)
    | EParam i => H_param i
    end.
End ExprInd.

(* ---- well-formed graphs and frames ---- *)
Definition wf (g : graph) : Prop := forall i, g_next g <= i -> g_blk g i = None.

Definition frame (g g' : graph) : Prop :=
  g_next g <= g_next g' /\ (forall j, j < g_next g -> g_blk g' j = g_blk g j) /\ wf g'.

Lemma wf_empty : wf empty_graph.
Proof. intros i _. reflexivity. Qed.

Lemma frame_refl g : wf g -> frame g g.
Proof. intros W. repeat split; auto. Qed.

Lemma frame_trans a b c : frame a b -> frame b c -> frame a c.
Proof.
  intros (A1 & A2 & A3) (B1 & B2 & B3). repeat split; auto; [lia|].
  intros j H. rewrite B2 by lia. auto.
Qed.

Lemma frame_wf a b : frame a b -> wf b.
Proof. intros (_ & _ & W). exact W. Qed.

Lemma frame_keeps a b j x : frame a b -> wf a -> g_blk a j = Some x -> g_blk b j = Some x.
Proof.
  intros (A1 & A2 & A3) W E.
  destruct (Nat.lt_ge_cases j (g_next a)) as [L|L]; [rewrite A2; auto|].
  rewrite W in E by lia. discriminate.
Qed.

Lemma upd_same {A} (f : id -> A) k v : upd f k v k = v.
Proof. unfold upd. rewrite Nat.eqb_refl. reflexivity. Qed.
Lemma upd_other {A} (f : id -> A) k v j : j <> k -> upd f k v j = f j.
Proof. intros H. unfold upd. destruct (Nat.eqb_spec j k); [contradiction|reflexivity]. Qed.

Lemma add_block_spec g b i g' : wf g -> add_block g b = (i, g') ->
  frame g g' /\ g_blk g' i = Some b /\ i = g_next g /\ g_next g' = S i.
Proof.
  intros W E. unfold add_block in E. inversion E; subst; clear E. cbn [g_next g_blk].
  repeat split; cbn [g_next g_blk]; auto.
  - intros j H. apply upd_other. lia.
  - intros j H. cbn [g_next g_blk] in *. rewrite upd_other by lia. apply W. lia.
  - apply upd_same.
Qed.

Lemma reserve_spec g i g' : wf g -> reserve g = (i, g') ->
  frame g g' /\ g_blk g' i = None /\ i = g_next g /\ g_next g' = S i.
Proof.
  intros W E. unfold reserve in E. inversion E; subst; clear E. cbn [g_next g_blk].
  repeat split; cbn [g_next g_blk]; auto.
  - intros j H. cbn [g_next g_blk] in *. apply W. lia.
Qed.

Lemma define_spec g i b : wf g -> i < g_next g ->
  wf (define g i b) /\ g_next (define g i b) = g_next g /\ g_blk (define g i b) i = Some b /\
  (forall j, j <> i -> g_blk (define g i b) j = g_blk g j).
Proof.
  intros W L. unfold define. cbn [g_next g_blk]. repeat split.
  - intros j H. cbn [g_next g_blk] in *. rewrite upd_other by lia. apply W. lia.
  - apply upd_same.
  - intros j H. apply upd_other. exact H.
Qed.

Arguments add_block : simpl never.
Arguments reserve : simpl never.
Arguments define : simpl never.

(* the frame property of a single-expression lowering function *)
Definition lw_frame (lw : expr -> option id -> graph -> (id * id) * graph) (e : expr) : Prop :=
  forall k g r g', wf g -> lw e k g = (r, g') -> frame g g'.

Section HelperFrames.
  Variable lw : expr -> option id -> graph -> (id * id) * graph.

  Lemma lower_chain_frame es : Forall (lw_frame lw) es ->
    forall k g r g', wf g -> lower_chain lw es k g = (r, g') -> frame g g'.
  Proof.
    induction 1 as [|e t He Ht IH]; intros k g r g' W E; cbn [lower_chain] in E.
    - inversion E; subst. apply frame_refl; auto.
    - destruct (lower_chain lw t k g) as [[kt endt] g1] eqn:E1.
      destruct (lw e kt g1) as [[s en] g2] eqn:E2. inversion E; subst; clear E.
      pose proof (IH _ _ _ _ W E1) as F1.
      pose proof (He _ _ _ _ (frame_wf _ _ F1) E2) as F2.
      eapply frame_trans; eauto.
  Qed.

  Lemma lower_nary_rest_frame op l : Forall (lw_frame lw) l ->
    forall k g r g', wf g -> lower_nary_rest lw op l k g = (r, g') -> frame g g'.
  Proof.
    induction 1 as [|e t He Ht IH]; intros k g r g' W E; cbn [lower_nary_rest] in E.
    - inversion E; subst. apply frame_refl; auto.
    - destruct (lower_nary_rest lw op t k g) as [[kt endt] g1] eqn:E1.
      destruct (add_block g1 (BSimple [I op []] kt)) as [opb g2] eqn:E2.
      destruct (lw e (Some opb) g2) as [[s en] g3] eqn:E3. inversion E; subst; clear E.
      pose proof (IH _ _ _ _ W E1) as F1.
      destruct (add_block_spec _ _ _ _ (frame_wf _ _ F1) E2) as (F2 & _).
      pose proof (He _ _ _ _ (frame_wf _ _ F2) E3) as F3.
      eapply frame_trans; [|exact F3]. eapply frame_trans; eauto.
  Qed.

  Lemma lower_cond_arms_frame l : Forall (fun a => lw_frame lw (fst a) /\ lw_frame lw (snd a)) l ->
    forall en errb g r g', wf g -> lower_cond_arms lw l en errb g = (r, g') -> frame g g'.
  Proof.
    induction 1 as [|[cnd pred] t [Hc Hp] Ht IH]; intros en errb g r g' W E; cbn [lower_cond_arms] in E.
    - inversion E; subst. apply frame_refl; auto.
    - cbn [fst snd] in *.
      destruct (lower_cond_arms lw t en errb g) as [fls g1] eqn:E1.
      destruct (lw pred (Some en) g1) as [[ps pe] g2] eqn:E2.
      destruct (add_block g2 (BCond [] (Some ps) (Some fls))) as [br g3] eqn:E3.
      destruct (lw cnd (Some br) g3) as [[cs ce] g4] eqn:E4. inversion E; subst; clear E.
      pose proof (IH _ _ _ _ _ W E1) as F1.
      pose proof (Hp _ _ _ _ (frame_wf _ _ F1) E2) as F2.
      destruct (add_block_spec _ _ _ _ (frame_wf _ _ F2) E3) as (F3 & _).
      pose proof (Hc _ _ _ _ (frame_wf _ _ F3) E4) as F4.
      eapply frame_trans; [|exact F4]. eapply frame_trans; [|exact F3]. eapply frame_trans; eauto.
  Qed.

  Lemma lower_wide_rest_frame l : Forall (lw_frame lw) l ->
    forall k g r g', wf g -> lower_wide_rest lw l k g = (r, g') -> frame g g'.
  Proof.
    induction 1 as [|e t He Ht IH]; intros k g r g' W E; cbn [lower_wide_rest] in E.
    - inversion E; subst. apply frame_refl; auto.
    - destruct (lower_wide_rest lw t k g) as [[kt endt] g1] eqn:E1.
      destruct (add_block g1 (BSimple mul_step_ops kt)) as [mb g2] eqn:E2.
      destruct (lw e (Some mb) g2) as [[s en] g3] eqn:E3. inversion E; subst; clear E.
      pose proof (IH _ _ _ _ W E1) as F1.
      destruct (add_block_spec _ _ _ _ (frame_wf _ _ F1) E2) as (F2 & _).
      pose proof (He _ _ _ _ (frame_wf _ _ F2) E3) as F3.
      eapply frame_trans; [|exact F3]. eapply frame_trans; eauto.
  Qed.

  Lemma lower_factors_frame fs : Forall (lw_frame lw) fs ->
    forall k g r g', wf g -> lower_factors lw fs k g = (r, g') -> frame g g'.
  Proof.
    intros HF k g r g' W E. unfold lower_factors in E.
    destruct fs as [|f0 [|f1 rest]].
    - destruct (add_block g (BSimple [] k)) as [b g1] eqn:E1. inversion E; subst.
      apply (add_block_spec _ _ _ _ W E1).
    - inversion HF as [|? ? H0 _]; subst.
      destruct (lw f0 k g) as [[s0 e0] g1] eqn:E1.
      destruct (add_block g1 (BSimple [I1 O_int 0] (Some s0))) as [hw g2] eqn:E2.
      destruct (add_block g2 (BSimple [] (Some hw))) as [st g3] eqn:E3. inversion E; subst; clear E.
      pose proof (H0 _ _ _ _ W E1) as F1.
      destruct (add_block_spec _ _ _ _ (frame_wf _ _ F1) E2) as (F2 & _).
      destruct (add_block_spec _ _ _ _ (frame_wf _ _ F2) E3) as (F3 & _).
      eapply frame_trans; [|exact F3]. eapply frame_trans; eauto.
    - inversion HF as [|? ? H0 HF1]; subst. inversion HF1 as [|? ? H1 HR]; subst.
      destruct (lower_wide_rest lw rest k g) as [[krest endrest] g1] eqn:E1.
      destruct (add_block g1 (BSimple [I0 O_mulw] krest)) as [m2 g2] eqn:E2.
      destruct (lw f1 (Some m2) g2) as [[s1 e1] g3] eqn:E3.
      destruct (lw f0 (Some s1) g3) as [[s0 e0] g4] eqn:E4.
      destruct (add_block g4 (BSimple [] (Some s0))) as [st g5] eqn:E5. inversion E; subst; clear E.
      pose proof (lower_wide_rest_frame _ HR _ _ _ _ W E1) as F1.
      destruct (add_block_spec _ _ _ _ (frame_wf _ _ F1) E2) as (F2 & _).
      pose proof (H1 _ _ _ _ (frame_wf _ _ F2) E3) as F3.
      pose proof (H0 _ _ _ _ (frame_wf _ _ F3) E4) as F4.
      destruct (add_block_spec _ _ _ _ (frame_wf _ _ F4) E5) as (F5 & _).
      eapply frame_trans; [|exact F5]. eapply frame_trans; [|exact F4].
      eapply frame_trans; [|exact F3]. eapply frame_trans; eauto.
  Qed.
End HelperFrames.

Lemma lower_comment_lines_frame lines : forall k g r g', wf g ->
  lower_comment_lines lines k g = (r, g') -> frame g g'.
Proof.
  induction lines as [|l t IH]; intros k g r g' W E; cbn [lower_comment_lines] in E.
  - inversion E; subst. apply frame_refl; auto.
  - destruct (lower_comment_lines t k g) as [kt g1] eqn:E1.
    destruct (add_block g1 (BSimple [mkI O_comment [AStr l]] kt)) as [b g2] eqn:E2. inversion E; subst; clear E.
    pose proof (IH _ _ _ _ W E1) as F1.
    destruct (add_block_spec _ _ _ _ (frame_wf _ _ F1) E2) as (F2 & _).
    eapply frame_trans; eauto.
Qed.

Lemma lower_stores_frame outs : forall kk first g r1 r2 g', wf g ->
  lower_stores outs kk first g = (r1, r2, g') -> frame g g'.
Proof.
  induction outs as [|s t IH]; intros kk first g r1 r2 g' W E; cbn [lower_stores] in E.
  - inversion E; subst. apply frame_refl; auto.
  - destruct (add_block g (BSimple [I O_store [ASlot s]] kk)) as [b g1] eqn:E1.
    destruct (add_block_spec _ _ _ _ W E1) as (F1 & _).
    pose proof (IH _ _ _ _ _ _ (frame_wf _ _ F1) E) as F2.
    eapply frame_trans; eauto.
Qed.

Section AssertFrames.
  Variable lw : expr -> option id -> graph -> (id * id) * graph.
  Variable version : N.
  Variable comment : option (list string).

  Lemma lower_assert1_frame cnd : lw_frame lw cnd ->
    forall k g r g', wf g -> lower_assert1 lw version comment cnd k g = (r, g') -> frame g g'.
  Proof.
    intros Hc k g r g' W E. unfold lower_assert1 in E.
    destruct (N.leb 3 version).
    - destruct (add_block g (BSimple [I O_assert_ []] k)) as [opb g1] eqn:E1.
      destruct (add_block_spec _ _ _ _ W E1) as (F1 & _).
      destruct comment as [lines|].
      + destruct (lower_comment_lines lines (Some opb) g1) as [ks ga] eqn:E2.
        destruct (add_block ga (BSimple [] ks)) as [st gb] eqn:E3.
        destruct (lw cnd (Some st) gb) as [[cs ce] g3] eqn:E4. inversion E; subst; clear E.
        pose proof (lower_comment_lines_frame _ _ _ _ _ (frame_wf _ _ F1) E2) as F2.
        destruct (add_block_spec _ _ _ _ (frame_wf _ _ F2) E3) as (F3 & _).
        pose proof (Hc _ _ _ _ (frame_wf _ _ F3) E4) as F4.
        eapply frame_trans; [|exact F4]. eapply frame_trans; [|exact F3]. eapply frame_trans; eauto.
      + destruct (lw cnd (Some opb) g1) as [[cs ce] g3] eqn:E4. inversion E; subst; clear E.
        pose proof (Hc _ _ _ _ (frame_wf _ _ F1) E4) as F4.
        eapply frame_trans; eauto.
    - destruct (add_block g (BSimple [] k)) as [en g1] eqn:E1.
      destruct (add_block g1 (BSimple [I O_err []] None)) as [errb g2] eqn:E2.
      destruct (add_block g2 (BCond [] (Some en) (Some errb))) as [br g3] eqn:E3.
      destruct (lw cnd (Some br) g3) as [[cs ce] g4] eqn:E4. inversion E; subst; clear E.
      destruct (add_block_spec _ _ _ _ W E1) as (F1 & _).
      destruct (add_block_spec _ _ _ _ (frame_wf _ _ F1) E2) as (F2 & _).
      destruct (add_block_spec _ _ _ _ (frame_wf _ _ F2) E3) as (F3 & _).
      pose proof (Hc _ _ _ _ (frame_wf _ _ F3) E4) as F4.
      eapply frame_trans; [|exact F4]. eapply frame_trans; [|exact F3]. eapply frame_trans; eauto.
  Qed.

  Lemma lower_asserts_frame l : Forall (lw_frame lw) l ->
    forall k g r g', wf g -> lower_asserts lw version comment l k g = (r, g') -> frame g g'.
  Proof.
    induction 1 as [|e t He Ht IH]; intros k g r g' W E; cbn [lower_asserts] in E.
    - inversion E; subst. apply frame_refl; auto.
    - destruct (lower_asserts lw version comment t k g) as [[kt endt] g1] eqn:E1.
      destruct (lower_assert1 lw version comment e kt g1) as [[s en] g2] eqn:E2. inversion E; subst; clear E.
      pose proof (IH _ _ _ _ W E1) as F1.
      pose proof (lower_assert1_frame _ He _ _ _ _ (frame_wf _ _ F1) E2) as F2.
      eapply frame_trans; eauto.
  Qed.
End AssertFrames.

(* ---- the lowering itself ---- *)
Theorem lower_frame o e : forall c, lw_frame (lower o c) e.
Proof.
  induction e using expr_ind'; intros c k g r g' W E; cbn [lower] in E.
  - (* EOp *)
    destruct (add_block g (BSimple [I o0 imms] k)) as [opb g1] eqn:E1.
    destruct (lower_chain (lower o c) args (Some opb) g1) as [[s x] g2] eqn:E2. inversion E; subst; clear E.
    destruct (add_block_spec _ _ _ _ W E1) as (F1 & _).
    eapply frame_trans; [exact F1|].
    eapply lower_chain_frame; [|exact (frame_wf _ _ F1)|exact E2].
    eapply Forall_impl; [|exact H]. intros a Ha. apply Ha.
  - (* ENary *)
    destruct args as [|a1 rest].
    + destruct (add_block g (BSimple [] k)) as [b g1] eqn:E1. inversion E; subst.
      apply (add_block_spec _ _ _ _ W E1).
    + inversion H as [|? ? H1 HR]; subst.
      destruct (lower_nary_rest (lower o c) o0 rest k g) as [[krest endrest] g1] eqn:E1.
      destruct (lower o c a1 krest g1) as [[s1 e1] g2] eqn:E2. inversion E; subst; clear E.
      assert (F1 : frame g g1).
      { eapply lower_nary_rest_frame; [|exact W|exact E1].
        eapply Forall_impl; [|exact HR]. intros a Ha. apply Ha. }
      eapply frame_trans; [exact F1|]. eapply H1; [exact (frame_wf _ _ F1)|exact E2].
  - (* ESeq *)
    destruct (lower_chain (lower o c) es k g) as [[ks en] g1] eqn:E1.
    destruct (add_block g1 (BSimple [] ks)) as [st g2] eqn:E2. inversion E; subst; clear E.
    assert (F1 : frame g g1).
    { eapply lower_chain_frame; [|exact W|exact E1].
      eapply Forall_impl; [|exact H]. intros a Ha. apply Ha. }
    eapply frame_trans; [exact F1|]. apply (add_block_spec _ _ _ _ (frame_wf _ _ F1) E2).
  - (* EIf *)
    destruct (add_block g (BSimple [] k)) as [en g1] eqn:E1.
    destruct (lower o c e2 (Some en) g1) as [[ths the] g2] eqn:E2.
    destruct (add_block_spec _ _ _ _ W E1) as (F1 & _).
    pose proof (IHe2 c _ _ _ _ (frame_wf _ _ F1) E2) as F2.
    destruct el as [x|].
    + destruct (lower o c x (Some en) g2) as [[s xe] g'0] eqn:E3.
      destruct (add_block g'0 (BCond [] (Some ths) (Some s))) as [br g4] eqn:E4.
      destruct (lower o c e1 (Some br) g4) as [[cs ce] g5] eqn:E5. inversion E; subst; clear E.
      inversion H as [|? Hx]; subst. pose proof (Hx c _ _ _ _ (frame_wf _ _ F2) E3) as F3.
      destruct (add_block_spec _ _ _ _ (frame_wf _ _ F3) E4) as (F4 & _).
      pose proof (IHe1 c _ _ _ _ (frame_wf _ _ F4) E5) as F5.
      eapply frame_trans; [|exact F5]. eapply frame_trans; [|exact F4].
      eapply frame_trans; [|exact F3]. eapply frame_trans; eauto.
    + destruct (add_block g2 (BCond [] (Some ths) (Some en))) as [br g4] eqn:E4.
      destruct (lower o c e1 (Some br) g4) as [[cs ce] g5] eqn:E5. inversion E; subst; clear E.
      destruct (add_block_spec _ _ _ _ (frame_wf _ _ F2) E4) as (F4 & _).
      pose proof (IHe1 c _ _ _ _ (frame_wf _ _ F4) E5) as F5.
      eapply frame_trans; [|exact F5]. eapply frame_trans; [|exact F4]. eapply frame_trans; eauto.
  - (* ECond *)
    destruct (add_block g (BSimple [] k)) as [en g1] eqn:E1.
    destruct (add_block g1 (BSimple [I O_err []] None)) as [errb g2] eqn:E2.
    destruct (lower_cond_arms (lower o c) arms en errb g2) as [st g3] eqn:E3. inversion E; subst; clear E.
    destruct (add_block_spec _ _ _ _ W E1) as (F1 & _).
    destruct (add_block_spec _ _ _ _ (frame_wf _ _ F1) E2) as (F2 & _).
    eapply frame_trans; [exact F1|]. eapply frame_trans; [exact F2|].
    eapply lower_cond_arms_frame; [|exact (frame_wf _ _ F2)|exact E3].
    eapply Forall_impl; [|exact H]. intros a [Ha Hb]. split; [apply Ha|apply Hb].
  - (* EWhile *)
    destruct (add_block g (BSimple [] k)) as [en g1] eqn:E1.
    destruct (reserve g1) as [br g2] eqn:E2.
    destruct (lower o (mkL (l_sub_ret c) (Some en) None (l_param c)) e1 (Some br) g2) as [[cs ce] g3] eqn:E3.
    destruct (lower o (mkL (l_sub_ret c) (Some en) (Some cs) (l_param c)) e2 (Some cs) g3) as [[ds de] g4] eqn:E4.
    inversion E; subst; clear E.
    destruct (add_block_spec _ _ _ _ W E1) as (F1 & _ & Ien & Nen).
    destruct (reserve_spec _ _ _ (frame_wf _ _ F1) E2) as (F2 & _ & Ibr & Nbr).
    pose proof (IHe1 _ _ _ _ _ (frame_wf _ _ F2) E3) as F3.
    pose proof (IHe2 _ _ _ _ _ (frame_wf _ _ F3) E4) as F4.
    assert (F04 : frame g g4).
    { eapply frame_trans; [exact F1|]. eapply frame_trans; [exact F2|]. eapply frame_trans; eauto. }
    destruct F04 as (A1 & A2 & A3).
    assert (Lbr : br < g_next g4).
    { destruct F3 as (B1 & _). destruct F4 as (C1 & _). lia. }
    destruct (define_spec g4 br (BCond [] (Some ds) (Some en)) A3 Lbr) as (D1 & D2 & D3 & D4).
    repeat split.
    + rewrite D2. exact A1.
    + intros j Hj. rewrite D4; [apply A2; exact Hj|].
      destruct F1 as (X1 & _). lia.
    + exact D1.
  - (* EFor *)
    destruct (add_block g (BSimple [] k)) as [en g1] eqn:E1.
    destruct (reserve g1) as [br g2] eqn:E2.
    destruct (lower o (mkL (l_sub_ret c) (Some en) None (l_param c)) e2 (Some br) g2) as [[cs ce] g3] eqn:E3.
    destruct (lower o (mkL (l_sub_ret c) (Some en) None (l_param c)) e3 (Some cs) g3) as [[ss se] g4] eqn:E4.
    destruct (lower o (mkL (l_sub_ret c) (Some en) (Some ss) (l_param c)) e4 (Some ss) g4) as [[ds de] g5] eqn:E5.
    destruct (lower o (mkL (l_sub_ret c) (Some en) None (l_param c)) e1 (Some cs) g5) as [[is_ ie] g6] eqn:E6.
    inversion E; subst; clear E.
    destruct (add_block_spec _ _ _ _ W E1) as (F1 & _ & Ien & Nen).
    destruct (reserve_spec _ _ _ (frame_wf _ _ F1) E2) as (F2 & _ & Ibr & Nbr).
    pose proof (IHe2 _ _ _ _ _ (frame_wf _ _ F2) E3) as F3.
    pose proof (IHe3 _ _ _ _ _ (frame_wf _ _ F3) E4) as F4.
    pose proof (IHe4 _ _ _ _ _ (frame_wf _ _ F4) E5) as F5.
    pose proof (IHe1 _ _ _ _ _ (frame_wf _ _ F5) E6) as F6.
    assert (F06 : frame g g6).
    { eapply frame_trans; [exact F1|]. eapply frame_trans; [exact F2|]. eapply frame_trans; [exact F3|].
      eapply frame_trans; [exact F4|]. eapply frame_trans; eauto. }
    destruct F06 as (A1 & A2 & A3).
    assert (Lbr : br < g_next g6).
    { destruct F3 as (B1 & _). destruct F4 as (C1 & _). destruct F5 as (D1 & _). destruct F6 as (G1 & _). lia. }
    destruct (define_spec g6 br (BCond [] (Some ds) (Some en)) A3 Lbr) as (D1 & D2 & D3 & D4).
    repeat split.
    + rewrite D2. exact A1.
    + intros j Hj. rewrite D4; [apply A2; exact Hj|].
      destruct F1 as (X1 & _). lia.
    + exact D1.
  - (* EBreak *)
    destruct (add_block g (BSimple [] (l_brk c))) as [b g1] eqn:E1. inversion E; subst.
    apply (add_block_spec _ _ _ _ W E1).
  - (* EContinue *)
    destruct (add_block g (BSimple [] (l_cont c))) as [b g1] eqn:E1. inversion E; subst.
    apply (add_block_spec _ _ _ _ W E1).
  - (* EAssert *)
    assert (HF : Forall (lw_frame (lower o c)) conds).
    { eapply Forall_impl; [|exact H]. intros a Ha. apply Ha. }
    destruct conds as [|c1 [|c2 rest]].
    + cbn [lower_asserts] in E.
      destruct (add_block g (BSimple [] k)) as [st g2] eqn:E2. inversion E; subst.
      apply (add_block_spec _ _ _ _ W E2).
    + inversion HF as [|? ? H1 _]; subst.
      eapply lower_assert1_frame; [exact H1|exact W|exact E].
    + destruct (lower_asserts (lower o c) (o_version o) cm (c1 :: c2 :: rest) k g) as [[ks en] g1] eqn:E1.
      destruct (add_block g1 (BSimple [] ks)) as [st g2] eqn:E2. inversion E; subst; clear E.
      pose proof (lower_asserts_frame _ _ _ _ HF _ _ _ _ W E1) as F1.
      eapply frame_trans; [exact F1|]. apply (add_block_spec _ _ _ _ (frame_wf _ _ F1) E2).
  - (* EReturn *)
    destruct (add_block g (BSimple [I (match l_sub_ret c with Some _ => O_retsub | None => O_return_ end) []] k)) as [opb g1] eqn:E1.
    destruct (add_block_spec _ _ _ _ W E1) as (F1 & _).
    destruct v as [x|].
    + destruct (lower o c x (Some opb) g1) as [[s xe] g2] eqn:E2. inversion E; subst; clear E.
      inversion H as [|? Hx]; subst. eapply frame_trans; [exact F1|]. eapply Hx; [exact (frame_wf _ _ F1)|exact E2].
    + inversion E; subst. exact F1.
  - (* EExit *)
    destruct (add_block g (BSimple [I O_return_ []] k)) as [opb g1] eqn:E1.
    destruct (lower o c e (Some opb) g1) as [[s xe] g2] eqn:E2. inversion E; subst; clear E.
    destruct (add_block_spec _ _ _ _ W E1) as (F1 & _).
    eapply frame_trans; [exact F1|]. eapply IHe; [exact (frame_wf _ _ F1)|exact E2].
  - (* EMulti *)
    destruct (lower_stores outs k None g) as [[kst lastst] g1] eqn:E1.
    destruct (add_block g1 (BSimple [I o0 imms] kst)) as [opb g2] eqn:E2.
    destruct (lower_chain (lower o c) args (Some opb) g2) as [[s x] g3] eqn:E3. inversion E; subst; clear E.
    pose proof (lower_stores_frame _ _ _ _ _ _ _ W E1) as F1.
    destruct (add_block_spec _ _ _ _ (frame_wf _ _ F1) E2) as (F2 & _).
    eapply frame_trans; [exact F1|]. eapply frame_trans; [exact F2|].
    eapply lower_chain_frame; [|exact (frame_wf _ _ F2)|exact E3].
    eapply Forall_impl; [|exact H]. intros a Ha. apply Ha.
  - (* ECall *)
    destruct (add_block g (BSimple [I O_callsub [ASub s]] k)) as [opb g1] eqn:E1.
    destruct (lower_chain (lower o c) args (Some opb) g1) as [[s0 x] g2] eqn:E2. inversion E; subst; clear E.
    destruct (add_block_spec _ _ _ _ W E1) as (F1 & _).
    eapply frame_trans; [exact F1|].
    eapply lower_chain_frame; [|exact (frame_wf _ _ F1)|exact E2].
    eapply Forall_impl; [|exact H]. intros a Ha. apply Ha.
  - (* EWide *)
    destruct (add_block g (BSimple combine_ops k)) as [cb g1] eqn:E1.
    destruct (lower_factors (lower o c) ds (Some cb) g1) as [[dstart de] g2] eqn:E2.
    destruct (lower_factors (lower o c) ns (Some dstart) g2) as [[nstart ne] g3] eqn:E3. inversion E; subst; clear E.
    destruct (add_block_spec _ _ _ _ W E1) as (F1 & _).
    assert (F2 : frame g1 g2).
    { eapply lower_factors_frame; [|exact (frame_wf _ _ F1)|exact E2].
      eapply Forall_impl; [|exact H0]. intros a Ha. apply Ha. }
    assert (F3 : frame g2 g').
    { eapply lower_factors_frame; [|exact (frame_wf _ _ F2)|exact E3].
      eapply Forall_impl; [|exact H]. intros a Ha. apply Ha. }
    eapply frame_trans; [exact F1|]. eapply frame_trans; eauto.
  - (* EParam *)
    destruct (add_block g (BSimple [l_param c i] k)) as [b g1] eqn:E1. inversion E; subst.
    apply (add_block_spec _ _ _ _ W E1).
Qed.
