(* Proofs/LitIntProof.v — C13: decimal printing of an Int literal and the assembler's reading of it. *)
From Coq Require Import List Arith NArith ZArith Ascii String Bool Lia.
From PV Require Import Base.Bytes Base.Sexp AVM.Syntax AVM.Machine AVM.Parse Lit.Escape Lit.BaseN
  Proofs.LitEscapeProof Proofs.LitLineProof.
Import ListNotations.
Local Open Scope N_scope.

Lemma digit_char r : r < 10 -> N_of_ascii (ascii_of_N (48 + r)) = 48 + r.
Proof. intros H. apply N_ascii_embedding. lia. Qed.

Lemma digit_is_digit r : r < 10 -> is_digit (ascii_of_N (48 + r)) = true.
Proof.
  intros H. unfold is_digit, in_range. rewrite digit_char by assumption.
  apply andb_true_iff. split; apply N.leb_le; lia.
Qed.

Lemma dec_acc_digit r acc a : r < 10 ->
  dec_acc (ascii_of_N (48 + r) :: acc) a = dec_acc acc (a * 10 + r).
Proof.
  intros H. cbn [dec_acc]. rewrite digit_char by assumption.
  replace (N.leb 48 (48 + r)) with true by (symmetry; apply N.leb_le; lia).
  replace (N.leb (48 + r) 57) with true by (symmetry; apply N.leb_le; lia).
  cbn [andb]. f_equal. lia.
Qed.

Lemma half_bound n f : 10 <= n -> n < 2 ^ N.of_nat (S f) -> n / 10 < 2 ^ N.of_nat f.
Proof.
  intros H10 H. rewrite Nat2N.inj_succ, N.pow_succ_r' in H.
  apply N.div_lt_upper_bound; [discriminate|]. lia.
Qed.

(* reading the printed digits (followed by [acc]) continues from a * 10^k + n *)
Lemma dec_digits_read f : forall n acc, n < 2 ^ N.of_nat f ->
  exists k, forall a, dec_acc (dec_digits (S f) n acc) a = dec_acc acc (a * 10 ^ k + n).
Proof.
  induction f as [|f IH]; intros n acc H.
  - cbn in H. assert (n = 0) by lia. subst n. exists 1. intros a. cbn [dec_digits].
    change (N.ltb 0 10) with true. cbn iota. change (0 mod 10) with 0.
    rewrite dec_acc_digit by lia. f_equal.
  - cbn [dec_digits]. pose proof (N.mod_lt n 10 ltac:(discriminate)) as Hm.
    destruct (N.ltb_spec n 10) as [L|L].
    + exists 1. intros a. rewrite dec_acc_digit by assumption. rewrite N.mod_small by assumption. f_equal.
    + destruct (IH (n / 10) (ascii_of_N (48 + n mod 10) :: acc) (half_bound n f L H)) as [k Hk].
      exists (k + 1). intros a. rewrite Hk, dec_acc_digit by assumption. f_equal.
      rewrite N.pow_add_r, N.pow_1_r. pose proof (N.div_mod n 10 ltac:(discriminate)). lia.
Qed.

Lemma dec_digits_chars f : forall n acc, forallb is_digit acc = true ->
  forallb is_digit (dec_digits f n acc) = true /\ (f <> O -> dec_digits f n acc <> []).
Proof.
  induction f as [|f IH]; intros n acc H; [split; [exact H | congruence]|].
  cbn [dec_digits]. pose proof (N.mod_lt n 10 ltac:(discriminate)) as Hm.
  assert (D : forallb is_digit (ascii_of_N (48 + n mod 10) :: acc) = true).
  { cbn [forallb]. now rewrite digit_is_digit, H. }
  destruct (N.ltb n 10).
  - split; [exact D | discriminate].
  - destruct (IH (n / 10) _ D) as [I1 I2]. split; [exact I1|]. intros _.
    destruct f; [cbn; discriminate | apply I2; discriminate].
Qed.

Lemma N_to_dec_list n : list_ascii_of_string (N_to_dec n) = dec_digits (S (N.to_nat (N.size n))) n [].
Proof. unfold N_to_dec. apply list_ascii_of_string_of_list_ascii. Qed.

Lemma N_to_dec_digits n : forallb is_digit (list_ascii_of_string (N_to_dec n)) = true.
Proof. rewrite N_to_dec_list. now apply dec_digits_chars. Qed.

Lemma N_to_dec_nonempty n : N_to_dec n <> ""%string.
Proof.
  intros E. apply (f_equal list_ascii_of_string) in E. rewrite N_to_dec_list in E.
  revert E. apply dec_digits_chars; [reflexivity | discriminate].
Qed.

Lemma N_of_dec_to_dec n : N_of_dec (N_to_dec n) = Some n.
Proof.
  unfold N_of_dec. rewrite N_to_dec_list.
  destruct (dec_digits_read (N.to_nat (N.size n)) n []) as [k Hk].
  { rewrite N2Nat.id. apply N.size_gt. }
  pose proof (Hk 0) as H0. cbn [dec_acc] in H0. rewrite N.mul_0_l, N.add_0_l in H0.
  destruct (dec_digits (S (N.to_nat (N.size n))) n []) as [|c l] eqn:E; [|exact H0].
  exfalso. revert E. apply dec_digits_chars; [reflexivity | discriminate].
Qed.

Lemma digit_not_x c : is_digit c = true -> Ascii.eqb c "x" || Ascii.eqb c "X" = false.
Proof. destruct c as [[|] [|] [|] [|] [|] [|] [|] [|]]; cbn; intros H; try discriminate H; reflexivity. Qed.

Lemma parse_uint_dec n : parse_uint (N_to_dec n) = Some n.
Proof.
  unfold parse_uint. pose proof (N_to_dec_digits n) as D. pose proof (N_of_dec_to_dec n) as R.
  destruct (list_ascii_of_string (N_to_dec n)) as [|z [|x t]]; try exact R.
  cbn [forallb] in D. apply andb_true_iff in D as [_ D]. apply andb_true_iff in D as [Dx _].
  rewrite (digit_not_x x Dx), andb_false_r. exact R.
Qed.

Lemma parse_int_arg_dec n : n < 18446744073709551616 -> parse_int_arg (N_to_dec n) = Some n.
Proof.
  intros H. unfold parse_int_arg. rewrite parse_uint_dec.
  apply N.ltb_lt in H. now rewrite H.
Qed.

Lemma parse_int_arg_dec_big n : 18446744073709551616 <= n -> parse_int_arg (N_to_dec n) = None.
Proof.
  intros H. unfold parse_int_arg. rewrite parse_uint_dec.
  apply N.ltb_ge in H. now rewrite H.
Qed.

(* the whole line *)
Lemma int_line_roundtrip msel n : n < 18446744073709551616 ->
  parse_stmt msel (tokens_of_line ("int " ++ N_to_dec n)) = push_int n.
Proof.
  intros H. rewrite tokens_int by (apply N_to_dec_nonempty || apply N_to_dec_digits).
  rewrite parse_stmt_int, parse_int_arg_dec by assumption. reflexivity.
Qed.

Lemma int_line_spec z :
  int_line z = if ((0 <=? z) && (z <? 18446744073709551616))%Z
               then Some ("int " ++ N_to_dec (Z.to_N z))%string else None.
Proof. reflexivity. Qed.

Lemma int_line_accepts z line : int_line z = Some line ->
  exists n, z = Z.of_N n /\ n < 18446744073709551616 /\ line = ("int " ++ N_to_dec n)%string.
Proof.
  unfold int_line. destruct ((0 <=? z) && (z <? 18446744073709551616))%Z eqn:E; [|discriminate].
  intros [= <-]. apply andb_true_iff in E as [E1 E2]. apply Z.leb_le in E1. apply Z.ltb_lt in E2.
  exists (Z.to_N z). repeat split; [now rewrite Z2N.id | lia].
Qed.

Lemma int_line_rejects z : int_line z = None <-> (z < 0 \/ 18446744073709551616 <= z)%Z.
Proof.
  unfold int_line. destruct (Z.leb_spec 0 z) as [L|L]; destruct (Z.ltb_spec z 18446744073709551616) as [U|U];
    cbn [andb]; split; intros H; try discriminate H; try reflexivity; lia.
Qed.

(* The printed text has no leading zero (so an assembler that reads a leading 0 as an octal or
   0x/0b/0o prefix, as Go's ParseUint with base 0 does, still reads the decimal value). *)
Lemma dec_digits_head f : forall n acc, 0 < n -> n < 2 ^ N.of_nat f ->
  exists d t, dec_digits (S f) n acc = ascii_of_N (48 + d) :: t /\ 0 < d /\ d < 10.
Proof.
  induction f as [|f IH]; intros n acc Hp H.
  - cbn in H. lia.
  - cbn [dec_digits]. pose proof (N.mod_lt n 10 ltac:(discriminate)) as Hm.
    destruct (N.ltb_spec n 10) as [L|L].
    + exists (n mod 10), acc. rewrite N.mod_small by assumption. repeat split; assumption.
    + apply IH; [|now apply half_bound].
      apply N.div_str_pos. lia.
Qed.

Lemma N_to_dec_no_leading_zero n : 0 < n ->
  exists d t, list_ascii_of_string (N_to_dec n) = ascii_of_N (48 + d) :: t /\ 0 < d /\ d < 10.
Proof.
  intros H. rewrite N_to_dec_list. apply dec_digits_head; [exact H|].
  rewrite N2Nat.id. apply N.size_gt.
Qed.

Lemma N_to_dec_zero : N_to_dec 0 = "0"%string.
Proof. reflexivity. Qed.

Example int_example : parse_stmt [] (tokens_of_line "int 18446744073709551615") = push_int 18446744073709551615.
Proof. vm_compute. reflexivity. Qed.
