(* Proofs/StageELiterals.v — stage E: the literal spellings PyTeal's constructors emit (C13's models in
   Lit/BaseN.v: Bytes in every form, Int, Addr, MethodSignature) are in the printable class of StageEText, and the
   immediate the assembler reads is the literal's specified value. *)
From Coq Require Import List Arith NArith ZArith Ascii String Bool Lia.
From PV Require Import Base.Bytes Base.Sexp AVM.Syntax AVM.Machine AVM.Parse Src.Expr Src.Denote
  Lit.Escape Lit.BaseN Lit.RFC4648 Lit.Spec
  Proofs.LitEscapeProof Proofs.LitLineProof Proofs.LitBaseNProof Proofs.LitIntProof Proofs.LitFinalProof.
From PV Require Proofs.C18Text Proofs.StageELink Proofs.StageEText.
Import ListNotations.
Local Open Scope list_scope.
Local Open Scope string_scope.

Definition nolf (c : ascii) : bool := negb (Ascii.eqb c (chr 10)).

Lemma no_nlb_is s : StageEText.no_nlb s = forallb nolf (list_ascii_of_string s).
Proof. reflexivity. Qed.

Lemma class_nolf (P : ascii -> bool) : (forall c, P c = true -> nolf c = true) ->
  forall l, forallb P l = true -> forallb nolf l = true.
Proof.
  intros H l. induction l as [|c l IH]; cbn; [reflexivity|].
  intros E. apply andb_true_iff in E as [E1 E2]. now rewrite (H c E1), IH.
Qed.

Lemma hex_nolf c : is_hex c = true -> nolf c = true.
Proof. destruct c as [[|] [|] [|] [|] [|] [|] [|] [|]]; cbn; intros H; try discriminate H; reflexivity. Qed.
Lemma b32_nolf c : is_b32 c || is_pad c = true -> nolf c = true.
Proof. destruct c as [[|] [|] [|] [|] [|] [|] [|] [|]]; cbn; intros H; try discriminate H; reflexivity. Qed.
Lemma b64_nolf c : b64c c = true -> nolf c = true.
Proof. destruct c as [[|] [|] [|] [|] [|] [|] [|] [|]]; cbn; intros H; try discriminate H; reflexivity. Qed.

Lemma Some_inj {A} (a b : A) : Some a = Some b -> a = b.
Proof. intros H. injection H as H. exact H. Qed.

(* no spelling contains a raw line feed *)
Lemma bytes_payload_no_nl a s : bytes_payload a = Some s -> StageEText.no_nlb s = true.
Proof.
  rewrite no_nlb_is. destruct a as [u|b|base v]; cbn [bytes_payload].
  - intros E. apply Some_inj in E. subst s. rewrite list_of_escape_str. unfold escape_list. cbn [forallb].
    rewrite forallb_app. cbn [forallb]. change (forallb nolf (escape_body u)) with
      (forallb (fun x => negb (Ascii.eqb x (chr 10))) (escape_body u)).
    rewrite body_no_newline. reflexivity.
  - intros E. apply Some_inj in E. subst s. rewrite list_of_append, forallb_app, list_ascii_of_string_of_list_ascii.
    rewrite (class_nolf _ hex_nolf _ (hex_lower_is_hex b)). reflexivity.
  - destruct (String.eqb base "base32").
    { destruct (valid_base32 v) eqn:V; [|discriminate]. intros E. apply Some_inj in E. subst s.
      rewrite !list_of_append, !forallb_app. rewrite (class_nolf _ b32_nolf _ (valid32_chars _ V)). reflexivity. }
    destruct (String.eqb base "base64").
    { destruct (valid_base64 v) eqn:V; [|discriminate]. intros E. apply Some_inj in E. subst s.
      rewrite !list_of_append, !forallb_app. rewrite (class_nolf _ b64_nolf _ (valid64_chars _ V)). reflexivity. }
    destruct (String.eqb base "base16"); [|discriminate].
    destruct (valid_base16 (strip0x v)) eqn:V; [|discriminate]. intros E. apply Some_inj in E. subst s.
    rewrite list_of_append, forallb_app. rewrite (class_nolf _ hex_nolf _ (valid16_chars _ V)). reflexivity.
Qed.

Lemma byte_word : StageEText.word "byte" = true. Proof. vm_compute. reflexivity. Qed.

(* Bytes(...) in every accepted form: printable, and read back as the specified value *)
Theorem bytes_literal_printable msel a s :
  bytes_payload a = Some s ->
  StageEText.printable_instr msel (mkI O_byte [AStr s]) = true /\
  exists b, bytes_value a = Some b /\ StageELink.imm_of_arg msel O_byte (AStr s) = Some (IBytes b).
Proof.
  intros P. pose proof (bytes_literal_correct msel a) as C.
  assert (L : bytes_line a = Some ("byte " ++ s)) by (unfold bytes_line; rewrite P; reflexivity).
  destruct (bytes_value a) as [b|] eqn:V; [|rewrite L in C; discriminate C].
  destruct C as (line & L' & R). rewrite L in L'. apply Some_inj in L'. subst line.
  unfold reads_as in R. change ("byte " ++ s) with ("byte" ++ " " ++ s) in R.
  rewrite (StageEText.tokens_cons "byte" s byte_word) in R.
  change "byte" with (opc_name O_byte) in R. rewrite (StageEText.parse_byte msel O_byte _ eq_refl) in R.
  destruct (parse_bytes_arg (tokens_of_line s)) as [[b' rest]|] eqn:Pb; [|discriminate R].
  destruct rest; [|discriminate R]. unfold StageEText.mkS, push_bytes in R. injection R as ->.
  split.
  - unfold StageEText.printable_instr. cbn [i_op i_args StageEText.kind_of]. rewrite Pb, (bytes_payload_no_nl a s P). reflexivity.
  - exists b. split; [reflexivity|]. cbn [StageELink.imm_of_arg]. rewrite Pb. reflexivity.
Qed.

(* Int(n), 0 <= n < 2^64 *)
Theorem int_literal_printable msel z n :
  int_value z = Some n ->
  StageEText.printable_instr msel (mkI O_int [AInt n]) = true /\ int_line z = Some ("int " ++ N_to_dec n).
Proof.
  unfold int_value, int_line. destruct ((0 <=? z)%Z && (z <? 18446744073709551616)%Z) eqn:R; [|discriminate].
  intros E. injection E as <-. split; [|reflexivity].
  unfold StageEText.printable_instr. cbn [i_op i_args StageEText.kind_of].
  apply andb_true_iff in R as [R1 R2]. apply Z.leb_le in R1. apply Z.ltb_lt in R2. apply N.ltb_lt. lia.
Qed.
