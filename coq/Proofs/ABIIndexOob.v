(* Proofs/ABIIndexOob.v — array[idx] with idx outside the array: when the extraction fails, and the three
   classes in which it returns data instead (refutations of "out of bounds fails"). *)
From Coq Require Import List NArith Arith Ascii String Bool Lia.
From PV Require Import Base.Bytes Base.U64 AVM.Syntax AVM.Ops ABI.Types ABI.Spec ABI.Index
  Proofs.ABISpecProof Proofs.ABIIndexBits Proofs.ABIIndexAsm Proofs.ABIIndexElems Proofs.ABIIndexSel
  Proofs.ABIIndexWalk Proofs.ABIIndexExec Proofs.ABIIndexTuple Proofs.ABIIndexArray.
Import ListNotations.
Local Open Scope N_scope.

(* ---- evaluation of the byte index, whatever the index ---- *)
Lemma op2_add_some : forall a b r, op2 O_add a b = Some r -> r = a + b.
Proof.
  intros a b r H. unfold op2 in H. cbn in H. unfold oki in H. destruct (fits64 (a + b)); cbn in H; congruence.
Qed.

Lemma op2_mul_some : forall a b r, op2 O_mul a b = Some r -> r = a * b.
Proof.
  intros a b r H. unfold op2 in H. cbn in H. unfold oki in H. destruct (fits64 (a * b)); cbn in H; congruence.
Qed.

Definition byte_index (stride : N) (lendyn : bool) : iexpr :=
  if lendyn then IAdd (IMul (IInt stride) IIdx) (IInt 2) else IMul (IInt stride) IIdx.

Lemma byte_index_value : forall enc idx st (lendyn : bool) s,
    eval_iexpr enc idx (byte_index st lendyn) = Some s -> s = st * idx + (if lendyn then 2 else 0).
Proof.
  intros enc idx st lendyn s H. unfold byte_index in H. destruct lendyn; cbn [eval_iexpr] in H.
  - destruct (push_int st) as [a|] eqn:Ea; cbn [obind] in H; [|discriminate].
    apply push_int_some in Ea as [-> _].
    destruct (op2 O_mul st idx) as [m|] eqn:Em; cbn [obind] in H; [|discriminate].
    apply op2_mul_some in Em. subst m.
    destruct (push_int 2) as [b|] eqn:Eb; cbn [obind] in H; [|discriminate].
    apply push_int_some in Eb as [-> _]. apply op2_add_some in H. exact H.
  - destruct (push_int st) as [a|] eqn:Ea; cbn [obind] in H; [|discriminate].
    apply push_int_some in Ea as [-> _]. apply op2_mul_some in H. lia.
Qed.

Lemma static_body_len : forall e es body, assemble es = Some body -> Forall (elem_rel e) es ->
    is_bool e = false -> is_dynamic e = false -> blen body = nlen es * static_len e.
Proof.
  intros e es body Ha F Hb Hd.
  assert (F' : Forall (ekind false false (static_len e)) es).
  { eapply Forall_impl; [|exact F]. intros x Hx. unfold elem_rel in Hx. rewrite Hb, Hd in Hx. exact Hx. }
  rewrite (assemble_static_len _ _ Ha) by (eapply no_dyn_kind; exact F').
  rewrite (head_len_statics _ _ _ F'). rewrite bsl0. lia.
Qed.

Lemma getbyte_fail : forall enc s, blen enc <= s -> run1 (exec_pure O_getbyte [] [VI s; VB enc]) = None.
Proof.
  intros enc s H. cbn. unfold nth_N. fold (blen enc).
  assert (E : (s <? blen enc) = false) by (apply N.ltb_ge; exact H). rewrite E. reflexivity.
Qed.

Lemma extract_uint_fail : forall enc s k, blen enc < s + k ->
    bextract enc s k = None.
Proof. intros. unfold bextract. apply bsub_fail. assumption. Qed.

(* arrays whose elements are static, not bool and at least one byte long: every out-of-range index fails,
   for static arrays (idx >= N) as well as for dynamic ones, constant or computed index *)
Theorem array_oob_fails_static_elems : forall ver arr e slen v enc vs idx p,
    array_info arr = Some (e, slen) -> arc4_encode arr v = Some enc -> elems_of v = Some vs ->
    is_bool e = false -> is_dynamic e = false -> 0 < static_len e -> pyteal_elem e = true ->
    nlen vs <= idx ->
    array_elem_plan arr = Some p -> exec_plan ver p enc idx = None.
Proof.
  intros ver arr e slen v enc vs idx p Hi He Hv Hb Hd Hpos Hpy Hidx Hp.
  destruct (array_body _ _ _ _ _ Hi He) as (vs' & es & body & Hv' & Hes & Hasm & F & L & Eenc & Hs).
  rewrite Hv in Hv'. injection Hv' as <-.
  pose proof (static_body_len _ _ _ Hasm F Hb Hd) as Hbl.
  assert (Hn : nlen es = nlen vs) by (unfold nlen; rewrite L; reflexivity). rewrite Hn in Hbl.
  assert (Hel : blen enc = (match slen with Some _ => 0 | None => 2 end) + nlen vs * static_len e)
    by (rewrite Eenc, blen_app, arr_prefix_len, Hbl; reflexivity).
  unfold array_elem_plan in Hp. rewrite Hi, Hb, Hd in Hp. unfold stride in Hp. rewrite Hd in Hp.
  set (lendyn := match slen with None => true | Some _ => false end) in *.
  change (if lendyn then IAdd (IMul (IInt (static_len e)) IIdx) (IInt 2) else IMul (IInt (static_len e)) IIdx)
    with (byte_index (static_len e) lendyn) in Hp.
  assert (Hbeyond : forall s, eval_iexpr enc idx (byte_index (static_len e) lendyn) = Some s ->
                              blen enc < s + static_len e).
  { intros s Hse. apply byte_index_value in Hse. subst s. rewrite Hel. unfold lendyn. destruct slen; nia. }
  assert (Hbytes : exec_plan ver (PExtract (byte_index (static_len e) lendyn) (IInt (static_len e))) enc idx = None).
  { assert (G : obind (eval_iexpr enc idx (byte_index (static_len e) lendyn))
                  (fun a => obind (eval_iexpr enc idx (IInt (static_len e))) (fun b => do_extract3 enc a b)) = None).
    { destruct (eval_iexpr enc idx (byte_index (static_len e) lendyn)) as [s|] eqn:Es; cbn [obind]; [|reflexivity].
      cbn [eval_iexpr]. destruct (push_int (static_len e)) as [l|] eqn:El; cbn [obind]; [|reflexivity].
      apply push_int_some in El as [-> _]. rewrite do_extract3_eq, bsub_fail; [reflexivity|]. apply Hbeyond. reflexivity. }
    unfold byte_index in *. destruct lendyn; exact G. }
  assert (Huint : forall bits, (bits = 8 \/ bits = 16 \/ bits = 32 \/ bits = 64) -> static_len e = bits / 8 ->
            exec_plan ver (PUintAt bits (byte_index (static_len e) lendyn)) enc idx = None).
  { intros bits Hbits Hsl. cbn [exec_plan].
    destruct (eval_iexpr enc idx (byte_index (static_len e) lendyn)) as [s|] eqn:Es; cbn [obind]; [|reflexivity].
    pose proof (Hbeyond s eq_refl) as Hby. rewrite Hsl in Hby.
    destruct Hbits as [-> | [-> | [-> | ->]]]; cbn [N.eqb Pos.eqb].
    - apply getbyte_fail. change (8 / 8) with 1 in Hby. lia.
    - cbn. rewrite extract_uint_fail by exact Hby. reflexivity.
    - cbn. rewrite extract_uint_fail by exact Hby. reflexivity.
    - cbn. rewrite extract_uint_fail by exact Hby. reflexivity. }
  destruct e; cbn [is_bool is_dynamic pyteal_elem] in Hb, Hd, Hpy; try discriminate;
    cbn [decode_plan substring_for_decoding] in Hp; try (injection Hp as <-; exact Hbytes).
  - (* byte *) cbn in Hp. injection Hp as <-. apply Huint; auto.
  - (* uintN *)
    destruct (pyteal_bits_cases _ Hpy) as [-> | [-> | [-> | ->]]]; cbn in Hp; injection Hp as <-; apply Huint; auto.
Qed.

(* ---- bool arrays: the bits of the last byte beyond the array are readable ---- *)
Lemma pack_bits_pad : forall bs acc cnt j,
    (cnt < 8)%nat -> (cnt + List.length bs <= j)%nat -> (j < 8 * List.length (pack_bits bs acc cnt))%nat ->
    bit_at (pack_bits bs acc cnt) j = Some false.
Proof.
  induction bs as [|b r IH]; intros acc cnt j Hc Hj Hl.
  - cbn [pack_bits] in *. destruct (Nat.eqb_spec cnt 0) as [->|Hn]; [cbn in Hl; lia|].
    cbn [List.length] in Hl, Hj. rewrite bit_at_cons_lo by lia. f_equal.
    rewrite testbit_n2b by lia. apply N.shiftl_spec_low. lia.
  - cbn [pack_bits] in *. cbn [List.length] in Hj.
    destruct (Nat.eqb_spec cnt 7) as [->|Hn7].
    + cbn [List.length] in Hl.
      assert (Hk : exists k, j = (8 + k)%nat) by (exists (j - 8)%nat; lia). destruct Hk as [k ->].
      rewrite bit_at_cons_hi. apply IH; lia.
    + apply IH; lia.
Qed.

Lemma bool_body : forall es body, assemble es = Some body -> Forall (elem_rel TBool) es ->
    exists bs, body = pack_bools bs /\ List.length bs = List.length es.
Proof.
  intros es body Ha F.
  assert (G : forall l pend off h t, Forall (elem_rel TBool) l -> asm l pend off = Some (h, t) ->
              exists bs, h = pack_bools (rev pend ++ bs) /\ t = [] /\ List.length bs = List.length l).
  { induction l as [|e r IH]; intros pend off h t Fl H.
    - cbn in H. injection H as <- <-. exists []. rewrite rev'_rev, app_nil_r. auto.
    - apply Forall_cons_iff in Fl as [He Fr]. destruct (elem_rel_bool _ _ He eq_refl) as [b ->].
      cbn [asm] in H. destruct (IH _ _ _ _ Fr H) as (bs & -> & -> & Lb).
      exists (b :: bs). cbn [rev List.length]. rewrite <- app_assoc. auto. }
  unfold assemble in Ha. apply obind_some in Ha as [[h t] [H1 H2]]. injection H2 as <-.
  destruct (G _ _ _ _ _ F H1) as (bs & -> & -> & Lb). exists bs. cbn [rev app fst snd]. rewrite app_nil_r. auto.
Qed.

(* value of the bit index *)
Lemma bool_bit_index : forall enc idx (lendyn : bool) j,
    eval_iexpr enc idx (if lendyn then IAdd IIdx (IInt 16) else IIdx) = Some j ->
    j = idx + (if lendyn then 16 else 0).
Proof.
  intros enc idx lendyn j H. destruct lendyn; cbn [eval_iexpr obind] in H.
  - destruct (push_int 16) as [b|] eqn:Eb; cbn [obind] in H; [|discriminate].
    apply push_int_some in Eb as [-> _]. apply op2_add_some in H. exact H.
  - injection H as <-. lia.
Qed.

Lemma get_bit_bytes_beyond : forall enc j, 8 * blen enc <= j -> get_bit_bytes enc j = None.
Proof.
  intros enc j H. unfold get_bit_bytes, nth_N. fold (blen enc).
  assert (E : (j / 8 <? blen enc) = false).
  { apply N.ltb_ge. apply N.div_le_lower_bound; lia. }
  rewrite E. reflexivity.
Qed.

Section BoolArrays.
  Variables (ver : N) (arr : ty) (slen : option N) (v : val) (enc : bytes) (vs : list val).
  Hypothesis Hi : array_info arr = Some (TBool, slen).
  Hypothesis He : arc4_encode arr v = Some enc.
  Hypothesis Hv : elems_of v = Some vs.

  Let lendyn := match slen with None => true | Some _ => false end.

  Lemma bool_plan : array_elem_plan arr = Some (PGetbit (if lendyn then IAdd IIdx (IInt 16) else IIdx)).
  Proof.
    unfold array_elem_plan. rewrite Hi. cbn [is_bool]. rewrite (is_dynamic_arr _ _ _ Hi).
    unfold lendyn. destruct slen; reflexivity.
  Qed.

  Lemma bool_enc_shape : exists bs, enc = arr_prefix slen (nlen vs) ++ pack_bools bs /\ List.length bs = List.length vs.
  Proof.
    destruct (array_body _ _ _ _ _ Hi He) as (vs' & es & body & Hv' & Hes & Hasm & F & L & Eenc & Hs).
    rewrite Hv in Hv'. injection Hv' as <-.
    destruct (bool_body _ _ Hasm F) as (bs & -> & Lb). exists bs. split; [exact Eenc | lia].
  Qed.

  (* beyond the last byte: fails *)
  Theorem array_oob_bool_fails_beyond_padding : forall idx,
      8 * bool_seq_len (nlen vs) <= idx ->
      exec_plan ver (PGetbit (if lendyn then IAdd IIdx (IInt 16) else IIdx)) enc idx = None.
  Proof.
    intros idx Hidx. destruct bool_enc_shape as (bs & Eenc & Lb).
    cbn [exec_plan].
    destruct (eval_iexpr enc idx (if lendyn then IAdd IIdx (IInt 16) else IIdx)) as [j|] eqn:Ej; cbn [obind]; [|reflexivity].
    apply bool_bit_index in Ej. rewrite getbit_bytes_eq, get_bit_bytes_beyond; [reflexivity|].
    rewrite Eenc, blen_app, arr_prefix_len, pack_bools_len, Lb. fold (nlen vs).
    subst j. unfold lendyn. destruct slen; lia.
  Qed.

  (* inside the last byte but beyond the array: a padding bit is returned (REFUTES "out of bounds fails") *)
  Theorem array_oob_bool_padding_returns_zero : forall idx,
      nlen vs <= idx -> idx < 8 * bool_seq_len (nlen vs) ->
      exec_plan ver (PGetbit (if lendyn then IAdd IIdx (IInt 16) else IIdx)) enc idx = Some (VI 0).
  Proof.
    intros idx Hlo Hhi. destruct bool_enc_shape as (bs & Eenc & Lb).
    assert (Hbsl : bool_seq_len (nlen vs) <= nlen vs + 1).
    { unfold bool_seq_len. apply N.div_le_upper_bound; lia. }
    assert (Hpk : N.of_nat (List.length (pack_bools bs)) = bool_seq_len (nlen vs)).
    { pose proof (pack_bools_len bs) as P. unfold blen in P. rewrite P, Lb. reflexivity. }
    assert (Hbig : nlen vs < 65536 \/ lendyn = false).
    { destruct (array_body _ _ _ _ _ Hi He) as (vs' & es & body & Hv' & _ & _ & _ & _ & _ & Hs).
      rewrite Hv in Hv'. injection Hv' as <-. unfold lendyn. destruct slen; auto. }
    assert (G : get_bit_bytes (pack_bools bs) idx = Some 0).
    { rewrite <- (N2Nat.id idx). rewrite get_bit_bytes_bit_at. unfold pack_bools.
      rewrite pack_bits_pad; [reflexivity|lia| |].
      - cbn. unfold nlen in Hlo. lia.
      - fold (pack_bools bs). lia. }
    cbn [exec_plan]. unfold lendyn in *. destruct slen as [n|]; cbn [eval_iexpr obind arr_prefix app] in *.
    - rewrite getbit_bytes_eq, Eenc, G. reflexivity.
    - destruct Hbig as [Hbig|]; [|discriminate].
      rewrite push_int_ok by (unfold U64; lia). cbn [obind].
      rewrite op2_add by (unfold U64; lia). cbn [obind].
      rewrite getbit_bytes_eq, Eenc.
      replace (idx + 16) with (8 * blen (be_encode 2 (nlen vs)) + idx) by (rewrite be_encode_len; lia).
      rewrite get_bit_bytes_shift, G. reflexivity.
  Qed.
End BoolArrays.

(* ---- elements of byte length 0 (the empty tuple, T[0], byte[0]): no index ever fails ---- *)
Theorem array_oob_zero_length_elems_never_fail : forall ver arr e slen v enc vs idx,
    array_info arr = Some (e, slen) -> arc4_encode arr v = Some enc -> elems_of v = Some vs ->
    is_bool e = false -> is_dynamic e = false -> static_len e = 0 -> pyteal_elem e = true ->
    idx < U64 ->
    exists p, array_elem_plan arr = Some p /\ exec_plan ver p enc idx = Some (VB []).
Proof.
  intros ver arr e slen v enc vs idx Hi He Hv Hb Hd Hz Hpy Hidx.
  destruct (array_body _ _ _ _ _ Hi He) as (vs' & es & body & Hv' & Hes & Hasm & F & L & Eenc & Hs).
  unfold array_elem_plan. rewrite Hi, Hb, Hd. unfold stride. rewrite Hd, Hz.
  set (lendyn := match slen with None => true | Some _ => false end).
  assert (Hplan : decode_plan e (Some (if lendyn then IAdd (IMul (IInt 0) IIdx) (IInt 2) else IMul (IInt 0) IIdx)) None (Some (IInt 0))
                  = Some (PExtract (if lendyn then IAdd (IMul (IInt 0) IIdx) (IInt 2) else IMul (IInt 0) IIdx) (IInt 0))).
  { destruct e; cbn [is_bool is_dynamic pyteal_elem static_len] in *; try discriminate; try reflexivity.
    destruct (pyteal_bits_cases _ Hpy) as [-> | [-> | [-> | ->]]]; discriminate. }
  eexists. split; [exact Hplan|].
  assert (Hpre : blen (arr_prefix slen (nlen vs')) <= blen enc) by (rewrite Eenc, blen_app; lia).
  rewrite arr_prefix_len in Hpre.
  assert (G : obind (eval_iexpr enc idx (if lendyn then IAdd (IMul (IInt 0) IIdx) (IInt 2) else IMul (IInt 0) IIdx))
                (fun a => obind (eval_iexpr enc idx (IInt 0)) (fun b => do_extract3 enc a b)) = Some (VB [])).
  { unfold lendyn. destruct slen as [n|]; cbn [eval_iexpr].
    - rewrite push_int_ok by (unfold U64; lia). cbn [obind]. rewrite op2_mul by (unfold U64; lia). cbn [obind].
      rewrite do_extract3_eq. unfold bsub. cbn [N.mul N.add N.leb N.compare andb].
      replace (0 <=? blen enc) with true by (symmetry; apply N.leb_le; lia). reflexivity.
    - rewrite !push_int_ok by (unfold U64; lia). cbn [obind]. rewrite op2_mul by (unfold U64; lia). cbn [obind].
      rewrite op2_add by (unfold U64; lia). cbn [obind].
      rewrite do_extract3_eq. unfold bsub. change (0 * idx + 2 + 0) with 2. change (0 * idx + 2) with 2.
      replace (2 <=? blen enc) with true by (symmetry; apply N.leb_le; lia). cbn. reflexivity. }
  unfold lendyn in *. destruct slen; exact G.
Qed.

(* ---- witnesses, by computation ---- *)
(* string[]  = ["\x00\x03"], index 1 (one past the end): the length prefix of element 0 is read as an offset
   and one byte of the encoding is returned *)
Definition wit_dyn_ty : ty := TDynArray TString.
Definition wit_dyn_val : val := VList [VBytes ["000"%char; "003"%char]].

Example array_oob_dynamic_elem_witness :
  exists enc p out, arc4_encode wit_dyn_ty wit_dyn_val = Some enc /\ array_elem_plan wit_dyn_ty = Some p /\
                    exec_plan 8 p enc 1 = Some (VB out).
Proof. do 3 eexists. split; [vm_compute; reflexivity|]. split; [vm_compute; reflexivity|]. vm_compute. reflexivity. Qed.

(* bool[3] = [true, true, true], index 5: padding bit *)
Example array_oob_bool_witness :
  exists enc p, arc4_encode (TStaticArray TBool 3) (VList [VBool true; VBool true; VBool true]) = Some enc /\
                array_elem_plan (TStaticArray TBool 3) = Some p /\ exec_plan 8 p enc 5 = Some (VI 0).
Proof. do 2 eexists. split; [vm_compute; reflexivity|]. split; [vm_compute; reflexivity|]. vm_compute. reflexivity. Qed.

(* ()[] = [()], index 1000 *)
Example array_oob_zero_length_witness :
  exists enc p, arc4_encode (TDynArray (TTuple None [])) (VList [VList []]) = Some enc /\
                array_elem_plan (TDynArray (TTuple None [])) = Some p /\ exec_plan 8 p enc 1000 = Some (VB []).
Proof. do 2 eexists. split; [vm_compute; reflexivity|]. split; [vm_compute; reflexivity|]. vm_compute. reflexivity. Qed.

(* the statement "every out-of-range index makes the extraction fail" is false of the model *)
Theorem array_oob_refuted :
  ~ (forall ver arr e slen v enc vs idx p,
        array_info arr = Some (e, slen) -> arc4_encode arr v = Some enc -> elems_of v = Some vs ->
        nlen vs <= idx -> array_elem_plan arr = Some p -> exec_plan ver p enc idx = None).
Proof.
  intro H.
  specialize (H 8 (TStaticArray TBool 3) TBool (Some 3) (VList [VBool true; VBool true; VBool true])).
  destruct array_oob_bool_witness as (enc & p & He & Hp & Hx).
  specialize (H enc [VBool true; VBool true; VBool true] 5 p eq_refl He eq_refl).
  assert (Hle : nlen [VBool true; VBool true; VBool true] <= 5) by (vm_compute; discriminate).
  rewrite (H Hle Hp) in Hx. discriminate.
Qed.

(* ---- non-vacuity of the main theorems ---- *)
Example index_tuple_example :
  let ts := [TBool; TString; TBool; TBool; TDynArray (TUint 16); TUint 8] in
  let v := VList [VBool true; VBytes ["h"%char; "i"%char]; VBool false; VBool true;
                  VList [VUint 1; VUint 2]; VUint 9] in
  exists enc, arc4_encode (TTuple None ts) v = Some enc /\ blen enc <= MAX_BYTES /\
    option_map (fun p => exec_plan 8 p enc 0) (index_tuple ts 1) = Some (stored TString (VBytes ["h"%char; "i"%char])) /\
    option_map (fun p => exec_plan 8 p enc 0) (index_tuple ts 3) = Some (Some (VI 1)) /\
    option_map (fun p => exec_plan 8 p enc 0) (index_tuple ts 4) = Some (stored (TDynArray (TUint 16)) (VList [VUint 1; VUint 2])).
Proof. cbv zeta. eexists. split; [vm_compute; reflexivity|]. split; [vm_compute; discriminate|]. split; [vm_compute; reflexivity|]. split; vm_compute; reflexivity. Qed.

Example array_elem_example :
  let arr := TDynArray (TTuple None [TBool; TString]) in
  let v := VList [VList [VBool true; VBytes ["a"%char]]; VList [VBool false; VBytes []]] in
  exists enc, arc4_encode arr v = Some enc /\
    option_map (fun p => exec_plan 8 p enc 1) (array_elem_plan arr) =
    Some (stored (TTuple None [TBool; TString]) (VList [VBool false; VBytes []])).
Proof. cbv zeta. eexists. split; [vm_compute; reflexivity|]. vm_compute. reflexivity. Qed.
