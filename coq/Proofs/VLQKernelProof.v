(* Proofs/VLQKernelProof.v — the kernel GENERATED from pyteal/compiler/sourcemap.py on this run
   (Gen/VLQKernel.v) computes exactly the hand model Lit/VLQ.v; hence the round trip holds for
   what the Python source says now.  Re-checked by coqc on every run. *)
From Coq Require Import ZArith List Bool Ascii String Lia.
From PV Require Import Lit.PyInt Lit.VLQ Gen.VLQKernel Proofs.VLQProof.
Import ListNotations.
Local Open Scope Z_scope.

(* ---- tables and constants as reflected from the module ---- *)
Lemma gen_constants : g_shiftsize = 5 /\ g_flag = 32 /\ g_mask = 31.
Proof. repeat split; reflexivity. Qed.

Lemma gen_table_val : forall c : ascii,
  b64_val c = if code c <? 128 then getitem g_b64table (code c) else None.
Proof.
  intros c. destruct c as [[] [] [] [] [] [] [] []]; vm_compute; reflexivity.
Qed.

Lemma gen_chars_val : forall d, 0 <= d < 64 -> getitem g_b64chars d = Some (code (b64_char d)).
Proof.
  intros d H.
  assert (A : forallb (fun d => match getitem g_b64chars d with Some x => x =? code (b64_char d) | None => false end) digits64 = true)
    by (vm_compute; reflexivity).
  rewrite forallb_forall in A. specialize (A d (in_digits 64 d H)).
  destruct (getitem g_b64chars d) as [x|]; [|discriminate].
  apply Z.eqb_eq in A. congruence.
Qed.

Lemma code_range : forall c, 0 <= code c < 256.
Proof.
  intros c. unfold code. pose proof (N_ascii_bounded c). lia.
Qed.

(* ---- Python arithmetic idioms ---- *)
Lemma gen_unsign : forall v, Z.shiftr v 1 * (if truthy (Z.land v 1) then - 1 else 1) = vlq_unsign v.
Proof.
  intros v. unfold vlq_unsign, truthy.
  rewrite Z.shiftr_div_pow2 by lia. change (2 ^ 1) with 2.
  change 1 with (Z.ones 1) at 1. rewrite Z.land_ones by lia. change (2 ^ 1) with 2.
  rewrite Zmod_odd. destruct (Z.odd v); cbn [Z.eqb negb]; lia.
Qed.

Lemma gen_sign : forall z, Z.lor (Z.shiftl (Z.abs z) 1) (b2z (z <? 0)) = vlq_sign z.
Proof.
  intros z. unfold vlq_sign, b2z.
  destruct (z <? 0).
  - destruct (Z.abs z) as [|p|p] eqn:E; try reflexivity.
    pose proof (Z.abs_nonneg z). lia.
  - rewrite Z.lor_0_r, Z.shiftl_mul_pow2 by lia. lia.
Qed.

Lemma gen_low5 : forall n, Z.land n g_mask = n mod 32.
Proof. intros n. change g_mask with (Z.ones 5). rewrite Z.land_ones by lia. reflexivity. Qed.

Lemma gen_high : forall n, Z.shiftr n g_shiftsize = n / 32.
Proof. intros n. unfold g_shiftsize. rewrite Z.shiftr_div_pow2 by lia. reflexivity. Qed.

Lemma lor_32 : forall d, 0 <= d < 32 -> Z.lor d 32 = d + 32.
Proof.
  intros d H.
  assert (A : forallb (fun d => Z.lor d 32 =? d + 32) digits32 = true) by (vm_compute; reflexivity).
  rewrite forallb_forall in A. apply Z.eqb_eq. apply A. apply in_digits. exact H.
Qed.

(* ---- decoder ---- *)
Definition res_of (o : option (list Z * Z * Z)) : option (list Z) :=
  match o with Some (r, _, _) => Some r | None => None end.

Lemma gen_dec_for1 : forall cs res sh v, 0 <= sh ->
  all_ascii (map code cs) = true ->
  res_of (base64vlq_decode_for1 (map code cs) res sh v) =
  match vals_of cs with
  | Some ds => Some (res ++ vlq_dec ds sh v)
  | None => None
  end.
Proof.
  induction cs as [|c cs IH]; intros res sh v Hsh Hasc.
  - cbn. rewrite app_nil_r. reflexivity.
  - cbn [map all_ascii forallb] in Hasc. apply andb_prop in Hasc. destruct Hasc as [Hc Hcs].
    apply andb_prop in Hc. destruct Hc as [_ Hc].
    cbn [map base64vlq_decode_for1 vals_of].
    pose proof (gen_table_val c) as T. rewrite Hc in T. rewrite <- T.
    destruct (b64_val c) as [d|]; [|reflexivity].
    destruct (Z.leb_spec 0 sh) as [_|]; [|lia].
    rewrite Z.shiftl_mul_pow2 by exact Hsh.
    change g_mask with 31. change g_flag with 32. change g_shiftsize with 5.
    unfold truthy.
    destruct (vals_of cs) as [ds|].
    + cbn [vlq_dec].
      destruct (Z.land d 32 =? 0); cbn [negb].
      * rewrite IH by (try lia; exact Hcs).
        rewrite gen_unsign. rewrite <- app_assoc. reflexivity.
      * rewrite IH by (try lia; exact Hcs). reflexivity.
    + destruct (Z.land d 32 =? 0); cbn [negb]; rewrite IH by (try lia; exact Hcs); reflexivity.
Qed.

Lemma not_ascii_no_vals : forall cs, all_ascii (map code cs) = false -> vals_of cs = None.
Proof.
  induction cs as [|c cs IH]; intros H; [discriminate|].
  cbn [map all_ascii forallb] in H. cbn [vals_of].
  apply andb_false_iff in H. destruct H as [H|H].
  - pose proof (code_range c) as R.
    apply andb_false_iff in H. destruct H as [H|H]; [apply Z.leb_gt in H; lia|].
    unfold b64_val. apply Z.ltb_ge in H.
    destruct (Z.ltb_spec 122 (code c)); [reflexivity|lia].
  - unfold all_ascii in IH. rewrite (IH H). destruct (b64_val c); reflexivity.
Qed.

Lemma gen_decode_eq : forall cs, base64vlq_decode (map code cs) = vlq_decode_chars cs.
Proof.
  intros cs. unfold base64vlq_decode, vlq_decode_chars.
  destruct (all_ascii (map code cs)) eqn:E.
  - pose proof (gen_dec_for1 cs [] 0 0 ltac:(lia) E) as H. cbn [app] in H.
    destruct (base64vlq_decode_for1 (map code cs) [] 0 0) as [[[r s] v]|];
      cbn [res_of] in H; destruct (vals_of cs); congruence.
  - rewrite (not_ascii_no_vals cs E). reflexivity.
Qed.

(* ---- encoder ---- *)
Lemma gen_enc_while1 : forall f n res, 0 <= n < 2 ^ Z.of_nat f ->
  base64vlq_encode_while1 (S f) res n = Some (res ++ vlq_digits f n, 0).
Proof.
  induction f as [|f IH]; intros n res Hn.
  - cbn in Hn. assert (n = 0) by lia. subst n. reflexivity.
  - remember (S f) as f1 eqn:Ef1.
    cbn [base64vlq_encode_while1]. rewrite gen_low5, gen_high.
    pose proof (Z.mod_pos_bound n 32 ltac:(lia)) as Hm.
    subst f1. cbn [vlq_digits]. unfold truthy, py_and. rewrite negb_involutive.
    destruct (Z.eqb_spec (n / 32) 0) as [Hq|Hq].
    + rewrite Hq. rewrite Z.lor_0_r. reflexivity.
    + change g_flag with 32. rewrite lor_32 by exact Hm.
      rewrite IH by (apply div32_small; exact Hn).
      rewrite <- app_assoc. reflexivity.
Qed.

Lemma gen_enc_while1_any : forall F n res, 0 <= n -> (S (vlq_fuel n) <= F)%nat ->
  base64vlq_encode_while1 F res n = Some (res ++ vlq_digits (vlq_fuel n) n, 0).
Proof.
  intros F n res Hn HF. destruct F as [|f]; [lia|].
  pose proof (vlq_fuel_adequate n Hn) as A.
  assert (B : 2 ^ Z.of_nat (vlq_fuel n) <= 2 ^ Z.of_nat f) by (apply Z.pow_le_mono_r; lia).
  rewrite gen_enc_while1 by lia.
  rewrite (vlq_digits_fuel_irrelevant (vlq_fuel n) f n); [reflexivity|lia|lia].
Qed.

Lemma gen_enc_for1 : forall l F res,
  (forall z, In z l -> (S (vlq_fuel (vlq_sign z)) <= F)%nat) ->
  base64vlq_encode_for1 F l res = Some (res ++ vlq_encode_digits l).
Proof.
  induction l as [|z l IH]; intros F res HF.
  - cbn. rewrite app_nil_r. reflexivity.
  - cbn [base64vlq_encode_for1]. rewrite gen_sign.
    rewrite gen_enc_while1_any; [|apply vlq_sign_nonneg|apply HF; left; reflexivity].
    rewrite IH by (intros y Hy; apply HF; right; exact Hy).
    unfold vlq_encode_digits. cbn [flat_map]. rewrite <- app_assoc. reflexivity.
Qed.

Lemma enc_fuel_covers : forall l z, In z l -> (S (vlq_fuel (vlq_sign z)) <= enc_fuel l)%nat.
Proof.
  unfold enc_fuel. induction l as [|y l IH]; intros z Hz; [destruct Hz|].
  cbn [fold_right]. destruct Hz as [->|Hz].
  - lia.
  - specialize (IH z Hz). lia.
Qed.

Lemma map_opt_chars : forall ds, Forall (fun d => 0 <= d < 64) ds ->
  map_opt (getitem g_b64chars) ds = Some (map code (map b64_char ds)).
Proof.
  induction ds as [|d ds IH]; intros H; [reflexivity|].
  inversion H as [|? ? Hd Hds]; subst.
  cbn [map_opt map]. rewrite gen_chars_val by exact Hd. rewrite IH by exact Hds. reflexivity.
Qed.

Lemma gen_encode_eq : forall l F, (enc_fuel l <= F)%nat ->
  base64vlq_encode F l = Some (map code (vlq_encode_chars l)).
Proof.
  intros l F HF. unfold base64vlq_encode.
  rewrite gen_enc_for1.
  - cbn [app]. apply map_opt_chars. apply vlq_encode_digits_range.
  - intros z Hz. pose proof (enc_fuel_covers l z Hz). lia.
Qed.

(* the round trip, about the definitions generated from the Python source *)
Lemma gen_vlq_roundtrip : forall (l : list Z) (F : nat), (enc_fuel l <= F)%nat ->
  exists s, base64vlq_encode F l = Some s /\ base64vlq_decode s = Some l.
Proof.
  intros l F HF. exists (map code (vlq_encode_chars l)). split.
  - apply gen_encode_eq. exact HF.
  - rewrite gen_decode_eq. apply vlq_chars_roundtrip.
Qed.
