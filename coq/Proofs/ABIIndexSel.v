(* Proofs/ABIIndexSel.v — the opcode chosen by Substring / Extract / Suffix for constant arguments means the
   same as the generic three-operand form (substring3 / extract3 / "from start to the end"). *)
From Coq Require Import List NArith Arith Ascii String Bool Lia.
From PV Require Import Base.Bytes Base.U64 AVM.Syntax AVM.Ops ABI.Types ABI.Spec ABI.Index
  Proofs.ABIIndexBits.
Import ListNotations.
Local Open Scope N_scope.

Lemma push_int_ok : forall n, n < U64 -> push_int n = Some n.
Proof.
  intros n H. unfold push_int. cbn. unfold oki, fits64.
  assert (E : (n <? U64) = true) by (apply N.ltb_lt; exact H). rewrite E. reflexivity.
Qed.

Lemma push_int_some : forall n m, push_int n = Some m -> m = n /\ n < U64.
Proof.
  intros n m H. unfold push_int in H. cbn in H. unfold oki, fits64 in H.
  destruct (N.ltb_spec n U64); cbn in H; [|discriminate]. injection H as <-. auto.
Qed.

Lemma push_int_fail : forall n, U64 <= n -> push_int n = None.
Proof.
  intros n H. unfold push_int. cbn. unfold oki, fits64.
  assert (E : (n <? U64) = false) by (apply N.ltb_ge; exact H). rewrite E. reflexivity.
Qed.

(* results of the byte-string opcodes in terms of [bsub] *)
Definition okv (o : option bytes) : option value := option_map VB o.

Lemma do_substring3_eq : forall enc s e, do_substring3 enc s e = okv (bsub enc s e).
Proof. intros. unfold do_substring3. cbn. destruct (bsub enc s e); reflexivity. Qed.

Lemma do_extract3_eq : forall enc s l, do_extract3 enc s l = okv (bsub enc s (s + l)).
Proof. intros. unfold do_extract3. cbn. unfold bextract. destruct (bsub enc s (s + l)); reflexivity. Qed.

Lemma extract_imm_eq : forall enc s l,
    run1 (exec_pure O_extract [AInt s; AInt l] [VB enc]) =
    okv (if l =? 0 then bsub enc s (blen enc) else bsub enc s (s + l)).
Proof.
  intros. cbn. unfold bextract. destruct (l =? 0).
  - destruct (bsub enc s (blen enc)); reflexivity.
  - destruct (bsub enc s (s + l)); reflexivity.
Qed.

Lemma substring_imm_eq : forall enc s e,
    run1 (exec_pure O_substring [AInt s; AInt e] [VB enc]) = okv (bsub enc s e).
Proof. intros. cbn. destruct (bsub enc s e); reflexivity. Qed.

Lemma len_of_eq : forall enc, len_of enc = Some (blen enc).
Proof. reflexivity. Qed.

(* ---- Substring(enc, Int s, Int e) ---- *)
Theorem sel_substring_correct : forall ver s e o enc,
    sel_substring ver s e = SelOk o -> s < U64 -> e < U64 ->
    exec_sel enc o s e true = do_substring3 enc s e.
Proof.
  intros ver s e o enc H Hs He. unfold sel_substring in H.
  destruct (N.ltb_spec e s) as [|Hle]; [discriminate|].
  rewrite do_substring3_eq.
  destruct ((0 <? e - s) && (EXTRACT_MIN_VERSION <=? ver))%bool eqn:E1.
  - apply andb_true_iff in E1 as [Hl _]. apply N.ltb_lt in Hl.
    destruct ((s <? 256) && (e - s <? 256))%bool; injection H as <-.
    + cbn [exec_sel]. rewrite extract_imm_eq.
      assert (E : (e - s =? 0) = false) by (apply N.eqb_neq; lia). rewrite E.
      replace (s + (e - s)) with e by lia. reflexivity.
    + cbn [exec_sel]. rewrite !push_int_ok by lia. cbn [obind]. rewrite do_extract3_eq.
      replace (s + (e - s)) with e by lia. reflexivity.
  - destruct (ver <? SUBSTRING_MIN_VERSION); [discriminate|].
    destruct ((s <? 256) && (e <? 256))%bool; injection H as <-.
    + cbn [exec_sel]. apply substring_imm_eq.
    + cbn [exec_sel]. rewrite !push_int_ok by lia. cbn [obind]. apply do_substring3_eq.
Qed.

Theorem sel_substring_error : forall ver s e,
    sel_substring ver s e = SelError <->
    (e < s \/ (ver < SUBSTRING_MIN_VERSION /\ (e = s \/ ver < EXTRACT_MIN_VERSION))).
Proof.
  intros ver s e. unfold sel_substring.
  destruct (N.ltb_spec e s) as [Hlt|Hle]; [split; auto|].
  destruct (N.ltb_spec 0 (e - s)) as [Hl|Hl]; destruct (N.leb_spec EXTRACT_MIN_VERSION ver) as [Hv|Hv]; cbn [andb].
  - destruct ((s <? 256) && (e - s <? 256))%bool; split; try discriminate.
    all: intros [?|[? [?|?]]]; unfold SUBSTRING_MIN_VERSION, EXTRACT_MIN_VERSION in *; lia.
  - destruct (N.ltb_spec ver SUBSTRING_MIN_VERSION).
    + split; auto.
    + destruct ((s <? 256) && (e <? 256))%bool; split; try discriminate.
      all: intros [?|[? _]]; lia.
  - destruct (N.ltb_spec ver SUBSTRING_MIN_VERSION).
    + split; [intros _|auto]. right. split; [assumption|left; lia].
    + destruct ((s <? 256) && (e <? 256))%bool; split; try discriminate.
      all: intros [?|[? _]]; lia.
  - destruct (N.ltb_spec ver SUBSTRING_MIN_VERSION).
    + split; [intros _|auto]. right. split; [assumption|left; lia].
    + destruct ((s <? 256) && (e <? 256))%bool; split; try discriminate.
      all: intros [?|[? _]]; lia.
Qed.

(* ---- Extract(enc, Int s, Int l) ---- *)
Theorem sel_extract_correct : forall ver s l o enc,
    sel_extract ver s l = SelOk o -> s < U64 -> l < U64 ->
    exec_sel enc o s l false = do_extract3 enc s l.
Proof.
  intros ver s l o enc H Hs Hl. unfold sel_extract in H.
  destruct (ver <? EXTRACT_MIN_VERSION); [discriminate|].
  rewrite do_extract3_eq.
  destruct ((s <? 256) && (0 <? l) && (l <? 256))%bool eqn:E; injection H as <-.
  - apply andb_true_iff in E as [E _]. apply andb_true_iff in E as [_ E]. apply N.ltb_lt in E.
    cbn [exec_sel]. rewrite extract_imm_eq.
    assert (E0 : (l =? 0) = false) by (apply N.eqb_neq; lia). rewrite E0. reflexivity.
  - cbn [exec_sel]. rewrite !push_int_ok by lia. cbn [obind]. apply do_extract3_eq.
Qed.

Theorem sel_extract_error : forall ver s l, sel_extract ver s l = SelError <-> ver < EXTRACT_MIN_VERSION.
Proof.
  intros. unfold sel_extract. destruct (N.ltb_spec ver EXTRACT_MIN_VERSION).
  - split; auto.
  - destruct ((s <? 256) && (0 <? l) && (l <? 256))%bool; split; try discriminate; lia.
Qed.

(* ---- Suffix(enc, Int s) ---- *)
Theorem sel_suffix_correct : forall ver s o enc,
    sel_suffix ver s = SelOk o -> s < U64 ->
    exec_sel enc o s 0 false = do_substring3 enc s (blen enc).
Proof.
  intros ver s o enc H Hs. unfold sel_suffix in H. rewrite do_substring3_eq.
  destruct (s <? 256).
  - destruct (ver <? EXTRACT_MIN_VERSION); [discriminate|]. injection H as <-.
    cbn [exec_sel]. rewrite extract_imm_eq. reflexivity.
  - destruct (ver <? SUBSTRING_MIN_VERSION); [discriminate|]. injection H as <-.
    cbn [exec_sel]. rewrite push_int_ok by lia. cbn [obind]. rewrite len_of_eq. cbn [obind].
    apply do_substring3_eq.
Qed.

Theorem sel_suffix_error : forall ver s,
    sel_suffix ver s = SelError <->
    ((s < 256 /\ ver < EXTRACT_MIN_VERSION) \/ (256 <= s /\ ver < SUBSTRING_MIN_VERSION)).
Proof.
  intros. unfold sel_suffix. destruct (N.ltb_spec s 256).
  - destruct (N.ltb_spec ver EXTRACT_MIN_VERSION); split; try discriminate; auto.
    intros [[_ ?]|[? _]]; lia.
  - destruct (N.ltb_spec ver SUBSTRING_MIN_VERSION); split; try discriminate; auto.
    intros [[? _]|[_ ?]]; lia.
Qed.

(* immediates always fit one byte *)
Theorem sel_imm_range : forall ver a b o,
    (sel_substring ver a b = SelOk o \/ sel_extract ver a b = SelOk o \/ sel_suffix ver a = SelOk o) ->
    match o with
    | SExtractImm s l => s < 256 /\ l < 256
    | SSubstringImm s e => s < 256 /\ e < 256
    | _ => True
    end.
Proof.
  intros ver a b o [H|[H|H]].
  - unfold sel_substring in H. destruct (b <? a); [discriminate|].
    destruct ((0 <? b - a) && (EXTRACT_MIN_VERSION <=? ver))%bool.
    + destruct ((a <? 256) && (b - a <? 256))%bool eqn:E; injection H as <-; [|exact I].
      apply andb_true_iff in E as [E1 E2]. apply N.ltb_lt in E1, E2. auto.
    + destruct (ver <? SUBSTRING_MIN_VERSION); [discriminate|].
      destruct ((a <? 256) && (b <? 256))%bool eqn:E; injection H as <-; [|exact I].
      apply andb_true_iff in E as [E1 E2]. apply N.ltb_lt in E1, E2. auto.
  - unfold sel_extract in H. destruct (ver <? EXTRACT_MIN_VERSION); [discriminate|].
    destruct ((a <? 256) && (0 <? b) && (b <? 256))%bool eqn:E; injection H as <-; [|exact I].
    apply andb_true_iff in E as [E E2]. apply andb_true_iff in E as [E1 _]. apply N.ltb_lt in E1, E2. auto.
  - unfold sel_suffix in H. destruct (N.ltb_spec a 256).
    + destruct (ver <? EXTRACT_MIN_VERSION); [discriminate|]. injection H as <-. split; [assumption|lia].
    + destruct (ver <? SUBSTRING_MIN_VERSION); [discriminate|]. injection H as <-. exact I.
Qed.
