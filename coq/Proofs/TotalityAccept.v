(* Proofs/TotalityAccept.v — property C20, part 3: every straight-line program is ACCEPTED by the
   compile model, whatever its length and nesting depth, at every version, mode and option setting.

   [accepts_straight]: if the main routine is an expression of the fragment of Proofs/TotalityChain.v
   (operator trees, nested sequences, Approve/Reject/Return — every operator available at the target
   version and mode per PyTeal's own tables) and ends in a return, then [compile_model] returns TEAL.
   The proof follows the pipeline stage by stage: __teal__ (lowering to a chain), addIncoming,
   validateTree, NormalizeBlocks (the chain collapses into one block), validateTree, subroutine
   collection, the scratch-slot optimiser (nothing to cancel), slot assignment and validateSlots (no
   slots), sortBlocks, flattenBlocks, recursion spilling, subroutine resolution, the version/mode sweep
   and assembly. *)
From Coq Require Import List Arith NArith Ascii String Bool Lia.
From PV Require Import Base.Bytes Base.Sexp AVM.Syntax Src.Expr Comp.Blocks Comp.Lower Comp.Passes Comp.Assemble
  Comp.Compile Proofs.LowerFrame Proofs.TotalityChain Proofs.TotalityWalk.
Import ListNotations.

(* available at the target version and mode per the tables in [o]/[modes]; not a scratch access *)
Definition okop (o : copts) (modes : opc -> bool * bool) (op : opc) : bool :=
  N.leb (o_minv o op) (o_version o) &&
  (if o_app_mode o then snd (modes op) else fst (modes op)) &&
  negb (opc_eqb op O_store) && negb (opc_eqb op O_load).

Section Accept.
  Variable o : copts.
  Variable modes : opc -> bool * bool.
  Let ok := okop o modes.
  Let gd := good ok.

  Lemma gd_version i : gd i -> N.ltb (o_version o) (o_minv o (i_op i)) = false.
  Proof.
    intros (H & _). unfold ok, okop in H. repeat (apply andb_true_iff in H; destruct H as [H ?]).
    apply N.ltb_ge. apply N.leb_le. exact H.
  Qed.

  Lemma gd_mode i : gd i -> (if o_app_mode o then snd (modes (i_op i)) else fst (modes (i_op i))) = true.
  Proof.
    intros (H & _). unfold ok, okop in H. repeat (apply andb_true_iff in H; destruct H as [H ?]). assumption.
  Qed.

  Lemma gd_not_store i : gd i -> is_op i O_store = false.
  Proof.
    intros (H & _). unfold ok, okop in H. repeat (apply andb_true_iff in H; destruct H as [H ?]).
    unfold is_op. apply negb_true_iff. assumption.
  Qed.

  Lemma gd_not_load i : gd i -> is_op i O_load = false.
  Proof.
    intros (H & _). unfold ok, okop in H. repeat (apply andb_true_iff in H; destruct H as [H ?]).
    unfold is_op. apply negb_true_iff. assumption.
  Qed.

  Lemma gd_plain i : gd i -> forallb plain_arg (i_args i) = true.
  Proof. intros (_ & H). exact H. Qed.

  (* ---- plain immediates carry no slots, no subroutines, and are untouched by the rewriters ---- *)
  Lemma plain_map (f : arg -> arg) l :
    (forall a, plain_arg a = true -> f a = a) -> forallb plain_arg l = true -> map f l = l.
  Proof.
    intros F. induction l as [|a t IH]; cbn [forallb map]; [reflexivity|].
    intros H. apply andb_true_iff in H. destruct H as [H1 H2]. rewrite (F a H1), (IH H2). reflexivity.
  Qed.

  Lemma plain_rewrite (f : arg -> arg) i :
    (forall a, plain_arg a = true -> f a = a) -> forallb plain_arg (i_args i) = true -> rewrite_instr f i = i.
  Proof.
    intros F H. destruct i as [op args]. unfold rewrite_instr. cbn [i_op i_args] in *.
    rewrite (plain_map f args F H). reflexivity.
  Qed.

  Lemma plain_flat {A} (f : arg -> list A) l :
    (forall a, plain_arg a = true -> f a = []) -> forallb plain_arg l = true -> flat_map f l = [].
  Proof.
    intros F. induction l as [|a t IH]; cbn [forallb flat_map]; [reflexivity|].
    intros H. apply andb_true_iff in H. destruct H as [H1 H2]. rewrite (F a H1), (IH H2). reflexivity.
  Qed.

  Lemma gd_no_slots i : gd i -> instr_slots i = [].
  Proof.
    intros G. unfold instr_slots. apply plain_flat; [|exact (gd_plain i G)].
    intros [n|s|s|s|s]; cbn; intros H; (reflexivity || discriminate).
  Qed.

  Lemma gd_no_subs i : gd i -> instr_subs i = [].
  Proof.
    intros G. unfold instr_subs. apply plain_flat; [|exact (gd_plain i G)].
    intros [n|s|s|s|s]; cbn; intros H; (reflexivity || discriminate).
  Qed.

  Lemma flat_map_nil {A B} (f : A -> list B) l : (forall x, In x l -> f x = []) -> flat_map f l = [].
  Proof.
    induction l as [|a t IH]; cbn [flat_map]; intros H; [reflexivity|].
    rewrite (H a (or_introl eq_refl)), IH; [reflexivity|]. intros x Hx. apply H. right. exact Hx.
  Qed.

  Lemma all_no_slots ops : Forall gd ops -> flat_map instr_slots ops = [].
  Proof. intros H. apply flat_map_nil. intros x Hx. apply gd_no_slots. rewrite Forall_forall in H. auto. Qed.

  Lemma all_no_subs ops : Forall gd ops -> flat_map instr_subs ops = [].
  Proof. intros H. apply flat_map_nil. intros x Hx. apply gd_no_subs. rewrite Forall_forall in H. auto. Qed.

  Lemma all_rewrite (f : arg -> arg) ops :
    (forall a, plain_arg a = true -> f a = a) -> Forall gd ops -> map (rewrite_instr f) ops = ops.
  Proof.
    intros F. induction 1 as [|i t Hi Ht IH]; cbn [map]; [reflexivity|].
    rewrite (plain_rewrite f i F (gd_plain i Hi)), IH. reflexivity.
  Qed.

  (* ---- a routine whose graph is one terminal block [0] ---- *)
  Definition one_block (g : graph) (ops : list instr) : Prop :=
    g_blk g 0 = Some (BSimple ops None) /\ Forall gd ops.

  Lemma one_out g ops : one_block g ops -> out_of g 0 = [].
  Proof. intros (B & _). unfold out_of. rewrite B. reflexivity. Qed.

  Lemma one_ops g ops : one_block g ops -> get_ops g 0 = ops.
  Proof. intros (B & _). unfold get_ops. rewrite B. reflexivity. Qed.

  Lemma one_iterate g ops : one_block g ops -> iterate g 0 = [0].
  Proof.
    intros H. unfold iterate. cbn [bfs]. rewrite (one_out g ops H). cbn [fold_left].
    destruct (g_next g); reflexivity.
  Qed.

  (* ---- stage: compileSubroutine on the main routine ---- *)
  Lemma seg_dchain g T : seg ok g 0 (S T) None -> dchain gd g T.
  Proof.
    intros S. split.
    - destruct (S 0) as (ops & B & G); [lia|lia|]. exists ops. split; [exact B|exact G].
    - intros i Hi. destruct (S (Datatypes.S i)) as (ops & B & G); [lia|lia|]. exists ops. split; [|exact G].
      rewrite B. unfold nxt. cbn [Nat.eqb]. replace (Datatypes.S i - 1) with i by lia. reflexivity.
  Qed.

  Theorem compile_one_straight e :
    straight o ok e = true -> has_return e = true ->
    exists g ops, compile_one o None e = COk (mkCR None g 0 0) /\ one_block g ops /\
                  g_next g = blocks e /\ snd (add_incoming (snd (lower o (mkL None None None main_param) e None empty_graph))
                                                           (fst (fst (lower o (mkL None None None main_param) e None empty_graph)))) = blocks e - 1.
  Proof.
    intros ST HR.
    destruct (lower o (mkL None None None main_param) e None empty_graph) as [[start end_] g0] eqn:EL.
    cbn [fst snd].
    destruct (lower_straight o ok e ST (mkL None None None main_param) eq_refl None empty_graph start end_ g0 wf_empty EL)
      as (F0 & I0 & L0 & Ks & Ke & S0 & C0).
    cbn [empty_graph g_next g_inc] in *.
    remember (g_next g0 - 1) as T eqn:ET.
    assert (NT : g_next g0 = S T) by lia.
    rewrite NT in S0.
    pose proof (seg_dchain g0 T S0) as D0.
    destruct (add_incoming_chain gd g0 T D0) as (g1 & EA & B1 & N1 & J1 & J2 & J3).
    { lia. }
    { intros i. rewrite I0. reflexivity. }
    subst start.
    assert (D1 : dchain gd g1 T) by (apply (dchain_blk_eq gd g0 g1 T B1 D0)).
    pose proof (validate_tree_chain gd g1 T D1 J1) as V1.
    assert (W1 : wf g1).
    { intros i Hi. rewrite B1. apply (frame_wf _ _ F0). rewrite <- N1. exact Hi. }
    destruct (normalize_chain gd g1 T W1) as (g3 & EN & (ops & B3 & G3) & N3 & W3).
    { congruence. }
    { exact D1. }
    { exact J1. }
    { exact J2. }
    pose proof (validate_tree_single gd g3 (ex_intro _ ops (conj B3 G3))) as V3.
    exists g3, ops. split; [|split; [split; assumption|split]].
    - unfold compile_one. rewrite HR. cbn [option_map].
      rewrite (straight_check o ok e ST). rewrite (straight_no_continue o ok false e ST).
      rewrite EL. rewrite EA. rewrite V1. cbn [negb]. rewrite EN. rewrite V3. cbn [negb].
      subst end_. reflexivity.
    - lia.
    - rewrite EA. cbn [snd]. lia.
  Qed.

  (* ---- stage: the scratch-slot optimiser has nothing to cancel ---- *)
  Lemma apply_slot_none g ops skip : one_block g ops -> apply_slot_to_stack g 0 0 skip = Some g.
  Proof.
    intros H. unfold apply_slot_to_stack. rewrite (one_ops g ops H).
    rewrite flat_map_nil; [reflexivity|].
    intros i _. destruct (nth_error ops i) as [op|] eqn:E1; [|reflexivity].
    destruct (nth_error ops (S i)) as [nx|]; [|reflexivity].
    assert (G : gd op).
    { destruct H as (_ & G). rewrite Forall_forall in G. apply G. eapply nth_error_In. exact E1. }
    rewrite (gd_not_store op G). reflexivity.
  Qed.

  Lemma opt_block_none g ops skip n : one_block g ops -> opt_block_loop n g 0 0 skip = Some g.
  Proof.
    intros H. induction n as [|n IH]; cbn [opt_block_loop]; [reflexivity|].
    rewrite (apply_slot_none g ops skip H). destruct (instrs_eqb (get_ops g 0) (get_ops g 0)); [reflexivity|exact IH].
  Qed.

  Lemma optimize_none g ops skip : one_block g ops -> optimize_routine g 0 skip = Some g.
  Proof.
    intros H. unfold optimize_routine. rewrite (one_iterate g ops H). cbn [fold_left].
    apply (opt_block_none g ops skip _ H).
  Qed.

  (* ---- stage: slot assignment ---- *)
  Lemma vs_ops_none ops cur err : Forall gd ops -> vs_ops ops cur err = (cur, err).
  Proof.
    induction 1 as [|i t Hi Ht IH]; cbn [vs_ops]; [reflexivity|].
    rewrite (gd_not_store i Hi), (gd_not_load i Hi). exact IH.
  Qed.

  Lemma validate_slots_none g ops globals :
    one_block g ops -> validate_slots_err (mkCR None g 0 0) globals = Some false.
  Proof.
    intros (B & G). unfold validate_slots_err. cbn [cr_graph cr_start].
    assert (E : exists f, N.to_nat 200000 = S (S f)) by (exists (N.to_nat 199998); lia).
    destruct E as (f & ->). cbn [vs_loop]. rewrite B. cbn [b_ops]. rewrite (vs_ops_none ops _ false G).
    assert (T : is_terminal (BSimple ops None) = true).
    { unfold is_terminal. cbn [outgoing]. apply orb_true_r. }
    rewrite T. reflexivity.
  Qed.

  Lemma routine_slots_none g ops : one_block g ops -> routine_slots (mkCR None g 0 0) = [].
  Proof.
    intros H. unfold routine_slots. cbn [cr_graph cr_start]. rewrite (one_iterate g ops H).
    cbn [flat_map]. rewrite (one_ops g ops H). rewrite app_nil_r. rewrite (all_no_slots ops (proj2 H)). reflexivity.
  Qed.

  Lemma assign_slots_none p g ops :
    one_block g ops ->
    exists g2 locals asg, assign_slots p [mkCR None g 0 0] = COk ([mkCR None g2 0 0], locals, asg) /\ one_block g2 ops.
  Proof.
    intros H. unfold assign_slots. cbn [map]. rewrite (routine_slots_none g ops H).
    cbn [List.concat app sort_dedup fold_right filter map List.length Nat.eqb negb Nat.ltb Nat.leb fold_left].
    rewrite (validate_slots_none g ops _ H).
    cbn [fold_right assign_loop combine map cr_key cr_sub option_map filter sort_dedup].
    eexists. eexists. eexists. split; [reflexivity|].
    unfold map_graph_ops. cbn [cr_graph cr_start]. rewrite (one_iterate g ops H). cbn [fold_left].
    destruct H as (B & G). rewrite B. split.
    - unfold set_blk, define. cbn [g_blk]. rewrite upd_same. cbn [set_ops b_ops]. rewrite all_rewrite; [reflexivity| |exact G].
      intros [n|s|s|s|s]; cbn; intros X; (reflexivity || discriminate).
    - exact G.
  Qed.

  (* ---- stage: sortBlocks and flattenBlocks ---- *)
  Lemma sort_one g ops : one_block g ops -> sort_blocks g 0 0 = Some [0].
  Proof.
    intros H. unfold sort_blocks. unfold id.
    assert (E : sort_loop (3 * S (g_next g)) g [0] [] [] = [0]).
    { destruct (3 * S (g_next g)) as [|f] eqn:EF; [lia|]. cbn [sort_loop rev app mem_id].
      rewrite (one_out g ops H). cbn [app]. destruct f; reflexivity. }
    unfold id in *. rewrite E. reflexivity.
  Qed.

  Lemma flatten_one_block g ops : one_block g ops -> flatten_blocks g [0] = Some (map COp ops).
  Proof.
    intros (B & G). unfold flatten_blocks. cbn [flatten_collect]. unfold flatten_one. rewrite B.
    assert (T : is_terminal (BSimple ops None) = true).
    { unfold is_terminal. cbn [outgoing]. apply orb_true_r. }
    rewrite T. cbn [b_ops app flatten_emit mem_nat]. rewrite app_nil_r. reflexivity.
  Qed.

  (* ---- stage: version/mode sweep and assembly ---- *)
  Lemma verify_ok ops : Forall gd ops -> verify_ops o modes (map COp ops) = None.
  Proof.
    intros G. unfold verify_ops.
    assert (E1 : existsb (fun c => match c with COp i => N.ltb (o_version o) (o_minv o (i_op i)) | _ => false end) (map COp ops) = false).
    { induction G as [|i t Hi Ht IH]; cbn [map existsb]; [reflexivity|]. rewrite (gd_version i Hi), IH. reflexivity. }
    assert (E2 : existsb (fun c => match c with
                                   | COp i => negb (if o_app_mode o then snd (modes (i_op i)) else fst (modes (i_op i)))
                                   | _ => false end) (map COp ops) = false).
    { clear E1. induction G as [|i t Hi Ht IH]; cbn [map existsb]; [reflexivity|]. rewrite (gd_mode i Hi), IH. reflexivity. }
    rewrite E1, E2. reflexivity.
  Qed.

  Lemma assemble_args_plain l : forallb plain_arg l = true -> exists r, assemble_args l = Some r.
  Proof.
    induction l as [|a t IH]; cbn [forallb assemble_args]; [exists []; reflexivity|].
    intros H. apply andb_true_iff in H. destruct H as [H1 H2]. destruct (IH H2) as (r & ->).
    destruct a as [n|s|s|s|s]; cbn in H1; try discriminate; cbn [assemble_arg]; eexists; reflexivity.
  Qed.

  Lemma assemble_ok ops : Forall gd ops -> exists lines, assemble_all (map COp ops) = Some lines.
  Proof.
    induction 1 as [|i t Hi Ht IH]; cbn [map assemble_all]; [exists []; reflexivity|].
    destruct IH as (r & ->). unfold assemble_comp, assemble_instr.
    destruct (assemble_args_plain (i_args i) (gd_plain i Hi)) as (parts & ->). eexists. reflexivity.
  Qed.

  Lemma map_COp_id (F : comp -> comp) ops :
    (forall i, gd i -> F (COp i) = COp i) -> Forall gd ops -> map F (map COp ops) = map COp ops.
  Proof.
    intros HF. induction 1 as [|i t Hi Ht IH]; cbn [map]; [reflexivity|]. rewrite (HF i Hi), IH. reflexivity.
  Qed.

  (* ---- the whole pipeline ---- *)
  Theorem accepts_straight p :
    (2 <= o_version o)%N -> (o_version o <= 10)%N ->
    straight o ok (p_main p) = true -> has_return (p_main p) = true ->
    exists lines, compile_model o modes p = COk lines.
  Proof.
    intros V1 V2 ST HR.
    destruct (compile_one_straight (p_main p) ST HR) as (g & ops & E1 & H1 & _ & _).
    unfold compile_model, compile_components.
    assert (EV : negb ((2 <=? o_version o) && (o_version o <=? 10))%N = false).
    { apply negb_false_iff. apply andb_true_iff. split; apply N.leb_le; assumption. }
    rewrite EV.
    (* compileSubroutine: one routine, no callees *)
    assert (ER : compile_rec (S (List.length (p_subs p))) o p None (p_main p) [] = COk [mkCR None g 0 0]).
    { cbn [compile_rec]. rewrite E1. cbn [cr_graph cr_start app].
      unfold graph_subs. rewrite (one_iterate g ops H1). cbn [flat_map]. rewrite (one_ops g ops H1).
      rewrite app_nil_r. rewrite (all_no_subs ops (proj2 H1)). reflexivity. }
    rewrite ER.
    (* optimiser *)
    cbv zeta. cbn [fold_right cr_graph cr_start cr_sub cr_end].
    rewrite (optimize_none g ops _ H1).
    replace (if o_opt_slots o then COk [mkCR None g 0 0] else COk [mkCR None g 0 0])
      with (@COk (list croutine) [mkCR None g 0 0]) by (destruct (o_opt_slots o); reflexivity).
    destruct (assign_slots_none p g ops H1) as (g2 & locals & asg & EA & H2).
    rewrite EA. cbn [fold_right cr_graph cr_start cr_end cr_sub].
    rewrite (sort_one g2 ops H2). rewrite (flatten_one_block g2 ops H2).
    (* spill: only the main routine *)
    unfold spill. cbn [flat_map fr_sub app existsb map orb].
    (* flattenSubroutines *)
    unfold flatten_subroutines. cbn [flat_map fr_sub fr_ops app sort_dedup fold_right].
    rewrite !app_nil_r.
    unfold prefix_labels.
    rewrite (map_COp_id _ ops); [| |exact (proj2 H2)].
    2: { intros i Gi. rewrite plain_rewrite; [reflexivity| |exact (gd_plain i Gi)].
         intros [n|s|s|s|s]; cbn; intros X; (reflexivity || discriminate). }
    rewrite (map_COp_id _ ops); [| |exact (proj2 H2)].
    2: { intros i Gi. rewrite plain_rewrite; [reflexivity| |exact (gd_plain i Gi)].
         intros [n|s|s|s|s]; cbn; intros X; (reflexivity || discriminate). }
    rewrite (verify_ok ops (proj2 H2)).
    destruct (assemble_ok ops (proj2 H2)) as (lines & EL).
    cbn [assemble_all assemble_comp]. rewrite EL. eexists. reflexivity.
  Qed.
End Accept.
