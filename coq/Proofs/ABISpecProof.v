(* Proofs/ABISpecProof.v — sanity lemmas about the ARC-4 spec (ABI/Spec.v):
   only well-typed values encode; byte strings at address / string / byte[n] / byte[] encode to the raw bytes
   (with the uint16 length prefix for the dynamic ones). *)
From Coq Require Import List NArith Ascii String Bool Lia.
From PV Require Import Base.Bytes ABI.Types ABI.Spec.
Import ListNotations.
Local Open Scope N_scope.

Lemma obind_some : forall {A B} (o : option A) (f : A -> option B) b,
    obind o f = Some b -> exists a, o = Some a /\ f a = Some b.
Proof. intros A B [a|] f b H; simpl in H; [exists a; auto | discriminate]. Qed.

Lemma option_map_some : forall {A B} (f : A -> B) o b, option_map f o = Some b -> exists a, o = Some a /\ b = f a.
Proof. intros A B f [a|] b H; simpl in H; [exists a; split; congruence | discriminate]. Qed.

(* ---- encodable implies well-typed ---- *)
Lemma uint_enc_ok : forall bits v bs, uint_enc bits v = Some bs -> uint_ok bits v = true.
Proof.
  intros bits v bs H. destruct v as [b|n|r|vs]; simpl in *; try discriminate.
  destruct (valid_uint_bits bits && (n <? 2 ^ bits))%bool; [reflexivity | discriminate].
Qed.

Lemma enc_elem_ok : forall eb ed (enc : val -> option bytes) (ok : val -> bool) v e,
    (eb = true -> forall b, ok (VBool b) = true) ->
    (forall x bs, enc x = Some bs -> ok x = true) ->
    enc_elem eb ed enc v = Some e -> ok v = true.
Proof.
  intros eb ed enc ok v e Hb Henc H. unfold enc_elem in H. destruct eb.
  - destruct v; try discriminate. apply Hb; reflexivity.
  - apply option_map_some in H as [bs [H _]]. eapply Henc; eauto.
Qed.

Lemma enc_all_ok : forall (f : val -> option eenc) (ok : val -> bool) vs es,
    (forall x e, f x = Some e -> ok x = true) -> enc_all f vs = Some es -> forallb ok vs = true.
Proof.
  intros f ok vs; induction vs as [|v r IH]; intros es Hf H; simpl in *; [reflexivity|].
  apply obind_some in H as [e [He H]]. apply option_map_some in H as [es' [H _]].
  rewrite (Hf _ _ He), (IH _ Hf H). reflexivity.
Qed.

Lemma static_array_enc_ok : forall eb ed enc ok n v bs,
    (eb = true -> forall b, ok (VBool b) = true) ->
    (forall x bs, enc x = Some bs -> ok x = true) ->
    static_array_enc eb ed enc n v = Some bs -> static_array_ok ok n v = true.
Proof.
  intros eb ed enc ok n v bs Hb Henc H. unfold static_array_enc in H. unfold static_array_ok.
  destruct (elems_of v) as [vs|]; simpl in H; [|discriminate].
  destruct (N.of_nat (List.length vs) =? n); [|discriminate]. simpl.
  apply obind_some in H as [es [H _]].
  eapply enc_all_ok; [|exact H]. intros x e Hx. eapply enc_elem_ok; eauto.
Qed.

Lemma u16_some : forall n bs, u16 n = Some bs -> (n <? 65536) = true.
Proof. intros n bs H; unfold u16 in H. destruct (n <? 65536); [reflexivity | discriminate]. Qed.

Lemma dyn_array_enc_ok : forall eb ed enc ok v bs,
    (eb = true -> forall b, ok (VBool b) = true) ->
    (forall x bs, enc x = Some bs -> ok x = true) ->
    dyn_array_enc eb ed enc v = Some bs -> dyn_array_ok ok v = true.
Proof.
  intros eb ed enc ok v bs Hb Henc H. unfold dyn_array_enc in H. unfold dyn_array_ok.
  destruct (elems_of v) as [vs|]; simpl in H; [|discriminate].
  apply obind_some in H as [p [Hp H]]. apply u16_some in Hp. rewrite Hp. simpl.
  apply obind_some in H as [body [H _]]. apply obind_some in H as [es [H _]].
  eapply enc_all_ok; [|exact H]. intros x e Hx. eapply enc_elem_ok; eauto.
Qed.

Lemma is_bool_true : forall t, is_bool t = true -> t = TBool.
Proof. destruct t; simpl; congruence. Qed.

Theorem encode_typed : forall t v bs, arc4_encode t v = Some bs -> val_has_type t v = true.
Proof.
  induction t as [| | n | | | e n IH | e IH | nm ts IH | n | | k | k] using ty_ind'; intros v bs H; simpl in *;
    try discriminate.
  - destruct v; simpl in H; try discriminate; reflexivity.
  - eapply uint_enc_ok; eauto.
  - eapply uint_enc_ok; eauto.
  - eapply static_array_enc_ok; [| |exact H]; [discriminate | apply uint_enc_ok].
  - eapply dyn_array_enc_ok; [| |exact H]; [discriminate | apply uint_enc_ok].
  - eapply static_array_enc_ok; [| |exact H]; [|exact IH].
    intros Hb b. apply is_bool_true in Hb; subst; reflexivity.
  - eapply dyn_array_enc_ok; [| |exact H]; [|exact IH].
    intros Hb b. apply is_bool_true in Hb; subst; reflexivity.
  - unfold tuple_enc in H. destruct v as [b|n|r|vs]; try discriminate. simpl.
    apply obind_some in H as [es [H _]]. clear bs. revert vs es H.
    induction IH as [|t r Ht _ IHr]; intros [|x vr] es H; simpl in *; try discriminate; try reflexivity.
    apply obind_some in H as [e [He H]]. apply option_map_some in H as [es' [H _]].
    rewrite (IHr _ _ H), andb_true_r.
    eapply enc_elem_ok; [| |exact He]; [|exact Ht].
    intros Hb b. apply is_bool_true in Hb; subst; reflexivity.
  - eapply static_array_enc_ok; [| |exact H]; [discriminate | apply uint_enc_ok].
  - eapply dyn_array_enc_ok; [| |exact H]; [discriminate | apply uint_enc_ok].
Qed.

(* ---- byte strings ---- *)
Lemma b2n_lt : forall c, b2n c < 256.
Proof. intro c; unfold b2n. apply N_ascii_bounded. Qed.

Lemma n2b_b2n : forall c, n2b (b2n c) = c.
Proof.
  intro c; unfold n2b, b2n. rewrite N.mod_small by apply N_ascii_bounded. apply ascii_N_embedding.
Qed.

Lemma uint8_enc_byte : forall c, uint_enc 8 (byte_val c) = Some [c].
Proof.
  intro c. unfold byte_val, uint_enc.
  assert (H : (b2n c <? 2 ^ 8) = true) by (apply N.ltb_lt; change (2 ^ 8) with 256; apply b2n_lt).
  rewrite H. change (valid_uint_bits 8) with true. simpl andb. cbv iota.
  change (N.to_nat (8 / 8)) with 1%nat. simpl be_encode. rewrite n2b_b2n. reflexivity.
Qed.

Lemma enc_elem_byte : forall c, enc_elem false false (uint_enc 8) (byte_val c) = Some (ES [c]).
Proof. intro c. unfold enc_elem. rewrite uint8_enc_byte. reflexivity. Qed.

Lemma enc_all_bytes : forall bs,
    enc_all (enc_elem false false (uint_enc 8)) (map byte_val bs) = Some (map (fun c => ES [c]) bs).
Proof.
  induction bs as [|c r IH]; [reflexivity|].
  cbn [map enc_all]. rewrite enc_elem_byte, IH. reflexivity.
Qed.

Lemma head_len_bytes : forall bs, head_len (map (fun c => ES [c]) bs) 0 = blen bs.
Proof.
  induction bs as [|c r IH]; [reflexivity|].
  cbn [map head_len]. rewrite IH. unfold blen, bool_seq_len. cbn [List.length].
  change ((0 + 7) / 8) with 0. rewrite Nat2N.inj_succ. change (N.of_nat 1) with 1. lia.
Qed.

Lemma asm_bytes : forall bs off, asm (map (fun c => ES [c]) bs) [] off = Some (bs, []).
Proof.
  induction bs as [|c r IH]; intro off; simpl; [reflexivity|]. rewrite IH. reflexivity.
Qed.

Lemma assemble_bytes : forall bs, assemble (map (fun c => ES [c]) bs) = Some bs.
Proof. intro bs. unfold assemble. rewrite asm_bytes. simpl. rewrite app_nil_r. reflexivity. Qed.

Theorem encode_static_bytes_raw : forall n bs, blen bs = n ->
    arc4_encode (TStaticBytes n) (VBytes bs) = Some bs.
Proof.
  intros n bs H. simpl. unfold static_array_enc. simpl elems_of. simpl obind.
  rewrite map_length. unfold blen in H. rewrite H, N.eqb_refl.
  rewrite enc_all_bytes. simpl. apply assemble_bytes.
Qed.

Theorem encode_address_raw : forall bs, blen bs = 32 -> arc4_encode TAddress (VBytes bs) = Some bs.
Proof. intros bs H. exact (encode_static_bytes_raw 32 bs H). Qed.

Theorem encode_string_raw : forall bs, blen bs < 65536 ->
    arc4_encode TString (VBytes bs) = Some (be_encode 2 (blen bs) ++ bs).
Proof.
  intros bs H. simpl. unfold dyn_array_enc. simpl elems_of. simpl obind.
  rewrite map_length. fold (blen bs). unfold u16. apply N.ltb_lt in H. rewrite H. simpl obind.
  rewrite enc_all_bytes. simpl obind. rewrite assemble_bytes. reflexivity.
Qed.

Theorem encode_dynbytes_raw : forall bs, blen bs < 65536 ->
    arc4_encode TDynBytes (VBytes bs) = Some (be_encode 2 (blen bs) ++ bs).
Proof. intros bs H. exact (encode_string_raw bs H). Qed.

(* the two spellings of a byte list mean the same wherever a list of elements is expected *)
Lemma elems_of_bytes : forall bs, elems_of (VBytes bs) = elems_of (VList (map byte_val bs)).
Proof. reflexivity. Qed.

(* ---- decoding is sound by construction: an accepted byte string is the encoding of the result ---- *)
Lemma bytes_eqb_eq : forall a b, bytes_eqb a b = true -> a = b.
Proof.
  induction a as [|x r IH]; intros [|y r2] H; simpl in H; try discriminate; [reflexivity|].
  apply andb_true_iff in H as [H1 H2]. apply Ascii.eqb_eq in H1. apply IH in H2. congruence.
Qed.

Theorem decode_sound : forall t bs v, arc4_decode t bs = Some v -> arc4_encode t v = Some bs.
Proof.
  intros t bs v H. unfold arc4_decode in H.
  apply obind_some in H as [v' [_ H]].
  destruct (arc4_encode t v') as [bs'|] eqn:E; [|discriminate H].
  destruct (bytes_eqb bs' bs) eqn:Eb; [|discriminate H].
  injection H as <-. apply bytes_eqb_eq in Eb. congruence.
Qed.

(* hence every decoded value is well-typed *)
Corollary decode_typed : forall t bs v, arc4_decode t bs = Some v -> val_has_type t v = true.
Proof. intros t bs v H. eapply encode_typed. apply decode_sound. exact H. Qed.
