(* Proofs/LatePassTotalAccept.v — acceptance for MAIN-ONLY programs with control flow (C20): when PyTeal's
   own checks pass on the main routine, slot assignment succeeds (at most 256 slots, no load before store,
   no duplicate requested id) and the emitted operations exist at the version / in the mode, the compile
   model returns TEAL lines.  Every stage in between — tree validation, NormalizeBlocks, sortBlocks,
   flattenBlocks, spilling, subroutine flattening, assembly — is proved not to fail. *)
From Coq Require Import List Arith NArith String Bool Lia.
From PV Require Import Base.Bytes AVM.Syntax AVM.Machine Src.Expr Src.Denote
  Comp.Blocks Comp.Lower Comp.Passes Comp.GraphSem Comp.LinearSem Comp.SimCheck Comp.Compile Comp.Assemble
  Proofs.LowerFrame Proofs.LowerShape Proofs.NormalizeLowered Proofs.FlattenCorrect
  Proofs.EndToEndExits Proofs.EndToEndGlue Proofs.EndToEnd
  Proofs.SlotCompose Proofs.SlotComposeAssign Proofs.SlotComposeCover Proofs.SlotComposePipeline
  Proofs.StageECompose Proofs.StageEPipeline
  Proofs.LatePassTotalReach Proofs.LatePassTotalNorm Proofs.LatePassTotal Proofs.LatePassTotalProgram
  Proofs.SortCorrect.
Import ListNotations.

(* ---- assembly is total on placeholder-free components ---- *)
Definition plain_arg (a : arg) : bool := match a with ASlot _ | ASub _ => false | _ => true end.
Definition plain_comp (c : comp) : bool :=
  match c with COp i => forallb plain_arg (i_args i) | _ => true end.

Lemma assemble_args_total l : forallb plain_arg l = true -> exists r, assemble_args l = Some r.
Proof.
  induction l as [|a t IH]; cbn [forallb assemble_args]; intros H; [eauto|].
  apply andb_prop in H. destruct H as [Ha Ht]. destruct (IH Ht) as (r & Er). rewrite Er.
  destruct a; cbn [plain_arg assemble_arg] in *; try discriminate Ha; eauto.
Qed.

Lemma assemble_comp_total c : plain_comp c = true -> exists s, assemble_comp c = Some s.
Proof.
  destruct c as [i|l [cm|]|v]; cbn [plain_comp assemble_comp]; intros H; eauto.
  unfold assemble_instr. destruct (assemble_args_total _ H) as (r & Er). rewrite Er. eauto.
Qed.

Theorem assemble_all_total l : forallb plain_comp l = true -> exists lines, assemble_all l = Some lines.
Proof.
  induction l as [|c t IH]; cbn [forallb assemble_all]; intros H; [eauto|].
  apply andb_prop in H. destruct H as [Hc Ht].
  destruct (assemble_comp_total c Hc) as (s & Es). destruct (IH Ht) as (r & Er). rewrite Es, Er. eauto.
Qed.

Lemma plain_prefix pre c : plain_comp (prefix_labels pre c) = plain_comp c.
Proof.
  destruct c as [i|l cm|v]; try reflexivity. cbn [prefix_labels plain_comp]. unfold rewrite_instr. cbn [i_args].
  induction (i_args i) as [|a t IH]; [reflexivity|]. cbn [map forallb]. rewrite IH. destruct a; reflexivity.
Qed.

(* ---- the operations of flattened code are operations of listed blocks, or jumps to labels ---- *)
Lemma flatten_emit_ops codes refs : forall k i, In (COp i) (flatten_emit codes refs k) ->
  exists cd, In cd codes /\ In i cd.
Proof.
  induction codes as [|cd t IH]; intros k i H; [destruct H|]. cbn [flatten_emit] in H.
  apply in_app_or in H. destruct H as [H|H].
  { destruct (mem_nat k refs); [destruct H as [H|[]]; discriminate H|destruct H]. }
  apply in_app_or in H. destruct H as [H|H].
  - apply in_map_iff in H. destruct H as (x & Ex & Hx). injection Ex as <-. exists cd. split; [left; reflexivity|exact Hx].
  - destruct (IH _ _ H) as (cd' & H1 & H2). exists cd'. split; [right; exact H1|exact H2].
Qed.

Definition is_jump (i : instr) : Prop := exists o l, i = mkI o [ALbl l].

Lemma flatten_one_ops g blocks k b cd r i :
  flatten_one g blocks k b = Some (cd, r) -> In i cd -> In i (get_ops g b) \/ is_jump i.
Proof.
  unfold flatten_one, get_ops. destruct (g_blk g b) as [bb|]; [|discriminate].
  assert (X : forall extra, (forall j, In j extra -> is_jump j) -> In i (b_ops bb ++ extra) -> In i (b_ops bb) \/ is_jump i).
  { intros extra He Hi. apply in_app_or in Hi. destruct Hi as [Hi|Hi]; [left; exact Hi|right; exact (He i Hi)]. }
  assert (J1 : forall o l j, In j [mkI o [ALbl l]] -> is_jump j).
  { intros o l j [<-|[]]. exists o, l. reflexivity. }
  assert (J2 : forall o l o' l' j, In j [mkI o [ALbl l]; mkI o' [ALbl l']] -> is_jump j).
  { intros o l o' l' j [<-|[<-|[]]]; eexists; eexists; reflexivity. }
  destruct (is_terminal bb); [intros E; injection E as <- _; auto|].
  destruct bb as [ops [nx|]|ops [t|] [f|]]; cbn [b_ops] in *; try discriminate.
  - destruct (index_of nx blocks 0) as [ni|]; [|discriminate].
    destruct (Nat.eqb ni (S k)); intros E; injection E as <- _; [auto|]. apply X. apply J1.
  - intros E; injection E as <- _; auto.
  - destruct (index_of t blocks 0) as [ti|]; [|discriminate].
    destruct (index_of f blocks 0) as [fi|]; [|discriminate].
    destruct (Nat.eqb fi (S k)); [|destruct (Nat.eqb ti (S k))]; intros E; injection E as <- _; apply X;
      first [apply J1|apply J2].
Qed.

Theorem flatten_code_ops g order code i :
  flatten_blocks g order = Some code -> In (COp i) code ->
  (exists b, In b order /\ In i (get_ops g b)) \/ is_jump i.
Proof.
  intros HF Hi. unfold flatten_blocks in HF.
  destruct (flatten_collect g order 0 order) as [[codes refs]|] eqn:HC; [|discriminate HF].
  injection HF as <-. destruct (flatten_emit_ops codes refs 0 i Hi) as (cd & Hc & Hcd).
  destruct (collect_spec _ _ _ _ _ _ HC) as [Len Spec].
  destruct (In_nth_error _ _ Hc) as (j & Nj).
  assert (Lj : j < List.length order). { rewrite <- Len. apply nth_error_Some. rewrite Nj. discriminate. }
  destruct (nth_error order j) as [b|] eqn:Nb; [|apply nth_error_None in Nb; lia].
  destruct (Spec j b Nb) as (cd' & r & F1 & F2 & _). rewrite Nj in F2. injection F2 as <-.
  destruct (flatten_one_ops _ _ _ _ _ _ i F1 Hcd) as [K|K]; [left|right; exact K].
  exists b. split; [exact (nth_error_In _ _ Nb)|exact K].
Qed.

(* a routine that references no subroutine: its code, after the slot rewrite, has no placeholder *)
Lemma rw_args_plain look l : (forall s, ~ In (ASub s) l) -> forallb plain_arg (map (rw_arg look) l) = true.
Proof.
  induction l as [|a t IH]; intros H; [reflexivity|]. cbn [map forallb].
  rewrite IH by (intros s Hs; apply (H s); right; exact Hs).
  destruct a as [n|s0|l0|u|sb]; try reflexivity. exfalso. apply (H sb). left. reflexivity.
Qed.

Lemma instr_subs_none i : instr_subs i = [] -> forall s, ~ In (ASub s) (i_args i).
Proof.
  unfold instr_subs. intros H s Hs.
  assert (K : In s (flat_map (fun a => match a with ASub s0 => [s0] | _ => [] end) (i_args i))).
  { apply in_flat_map. exists (ASub s). split; [exact Hs|left; reflexivity]. }
  rewrite H in K. destruct K.
Qed.

Theorem routine_code_plain look c order code :
  (forall b, In b order -> In b (iterate (cr_graph c) (cr_start c))) ->
  flatten_blocks (cr_graph c) order = Some code ->
  graph_subs (cr_graph c) (cr_start c) = [] ->
  forallb plain_comp (rw_code look code) = true.
Proof.
  intros Cov HF HG. apply forallb_forall. intros c' Hc'. unfold rw_code in Hc'. apply in_map_iff in Hc'.
  destruct Hc' as (c0 & <- & Hc0). destruct c0 as [i|l cm|v]; try reflexivity.
  cbn [rw_comp plain_comp]. rewrite rw_instr_args. apply rw_args_plain. apply instr_subs_none.
  destruct (flatten_code_ops _ _ _ i HF Hc0) as [(b & Hb & Hi)|(o & l & ->)]; [|reflexivity].
  destruct (instr_subs i) as [|s t] eqn:Es; [reflexivity|exfalso].
  assert (K : In s (graph_subs (cr_graph c) (cr_start c))).
  { unfold graph_subs. apply in_flat_map. exists b. split; [exact (Cov b Hb)|].
    apply in_flat_map. exists i. split; [exact Hi|rewrite Es; left; reflexivity]. }
  rewrite HG in K. destruct K.
Qed.

(* ---- the pipeline on a main-only program, forwards ---- *)
Lemma compile_rec_main_no_subs o p cr :
  compile_one o None (p_main p) = COk cr ->
  graph_subs (cr_graph cr) (cr_start cr) = [] ->
  forall fuel, compile_rec (S fuel) o p None (p_main p) [] = COk [cr].
Proof. intros E HG fuel. cbn [compile_rec]. rewrite E, HG. reflexivity. Qed.

Theorem main_only_accepts o modes p :
  p_subs p = [] -> o_opt_slots o = false ->
  (2 <=? o_version o)%N && (o_version o <=? 10)%N = true ->
  check_expr o None false (root_ast (p_main p)) = None ->
  has_bad_continue false (root_ast (p_main p)) = false ->
  nec (root_ast (p_main p)) = true ->
  exists cr, compile_one o None (p_main p) = COk cr /\
    (graph_subs (cr_graph cr) (cr_start cr) = [] ->
     forall crs' locals asg, assign_slots p [cr] = COk (crs', locals, asg) ->
     exists order code,
       sort_blocks (cr_graph cr) (cr_start cr) (cr_end cr) = Some order /\
       flatten_blocks (cr_graph cr) order = Some code /\
       (verify_ops o modes (map (prefix_labels "main_") (rw_code (look_of asg) code)) = None ->
        exists lines,
          assemble_all (main_comps (o_version o) (rw_code (look_of asg) code)) = Some lines /\
          compile_model o modes p = COk lines)).
Proof.
  intros Hs Ho Hv Ck Hb Hn.
  destruct (compile_one_tree_checks_pass o None (p_main p) eq_refl Ck Hb) as (cr & E & _).
  exists cr. split; [exact E|]. intros HG crs' locals asg HA.
  destruct (routine_assigned_total (look_of asg) o None (p_main p) cr eq_refl E Hn) as (order & code & HS & HF & HS' & HF').
  exists order, code. split; [exact HS|]. split; [exact HF|]. intros HVo.
  destruct (compiled_late_facts o None (p_main p) cr eq_refl E Hn) as (W & _).
  pose proof (order_covered_plain cr order code W HS HF) as Cov.
  pose proof (routine_code_plain (look_of asg) cr order code Cov HF HG) as Pl.
  assert (PA : forallb plain_comp (main_comps (o_version o) (rw_code (look_of asg) code)) = true).
  { unfold main_comps. cbn [forallb plain_comp andb]. apply forallb_forall. intros x Hx.
    apply in_map_iff in Hx. destruct Hx as (y & <- & Hy). rewrite plain_prefix.
    rewrite forallb_forall in Pl. exact (Pl y Hy). }
  destruct (assemble_all_total _ PA) as (lines & EA). exists lines. split; [exact EA|].
  unfold compile_model, compile_components. rewrite Ho, Hs, Hv. cbn [negb List.length].
  rewrite (compile_rec_main_no_subs o p cr E HG 0), HA.
  pose proof (proj1 (assign_slots_facts p [cr] crs' locals asg HA)) as R. cbn [map] in R. subst crs'.
  cbn [fold_right]. rewrite HS', HF'.
  assert (Sub : cr_sub (rw_routine (look_of asg) cr) = None) by exact (compile_one_main_sub o (p_main p) cr E).
  rewrite Sub. unfold spill. cbn [existsb fr_sub map orb]. cbn iota.
  rewrite flatten_subroutines_main, HVo.
  unfold main_comps in EA. rewrite EA. reflexivity.
Qed.

(* ---- non-vacuity: the routine of Proofs/LatePassTotalExamples.v as a main-only program ---- *)
From PV Require Import Proofs.EndToEndExamples Proofs.LatePassTotalExamples.

Definition late_prog : prog := mkProgram late_ast [] [].
Definition all_modes : opc -> bool * bool := fun _ => (true, true).
Definition late_asg : list croutine * list (option N * list N) * list (N * N) :=
  match assign_slots late_prog [cr_of opts0 late_ast] with COk x => x | CErr _ => ([], [], []) end.

Lemma COk_inj {A} (a b : A) : COk a = COk b -> a = b.
Proof. intros H. injection H as H. exact H. Qed.
Lemma Some_inj {A} (a b : A) : Some a = Some b -> a = b.
Proof. intros H. injection H as H. exact H. Qed.

Example main_only_accepts_example :
  exists lines, compile_model opts0 all_modes late_prog = COk lines /\ List.length lines = 59.
Proof.
  set (cr0 := cr_of opts0 late_ast).
  assert (Ck : check_expr opts0 None false (root_ast (p_main late_prog)) = None) by (vm_compute; reflexivity).
  assert (Hb : has_bad_continue false (root_ast (p_main late_prog)) = false) by (vm_compute; reflexivity).
  assert (Hn : nec (root_ast (p_main late_prog)) = true) by (vm_compute; reflexivity).
  assert (E0 : compile_one opts0 None (p_main late_prog) = COk cr0) by (vm_compute; reflexivity).
  assert (HG : graph_subs (cr_graph cr0) (cr_start cr0) = []) by (vm_compute; reflexivity).
  assert (HA : assign_slots late_prog [cr0] = COk (fst (fst late_asg), snd (fst late_asg), snd late_asg))
    by (vm_compute; reflexivity).
  assert (HS0 : sort_blocks (cr_graph cr0) (cr_start cr0) (cr_end cr0) = Some (order_of cr0)) by (vm_compute; reflexivity).
  assert (HF0 : flatten_blocks (cr_graph cr0) (order_of cr0) = Some (code_of cr0)) by (vm_compute; reflexivity).
  assert (HV : verify_ops opts0 all_modes (map (prefix_labels "main_") (rw_code (look_of (snd late_asg)) (code_of cr0))) = None)
    by (vm_compute; reflexivity).
  assert (A0 : exists l0, assemble_all (main_comps (o_version opts0) (rw_code (look_of (snd late_asg)) (code_of cr0))) = Some l0 /\
                          List.length l0 = 59).
  { vm_compute. eexists. split; reflexivity. }
  clearbody cr0.
  destruct (main_only_accepts opts0 all_modes late_prog eq_refl eq_refl eq_refl Ck Hb Hn) as (cr & E & K).
  rewrite E0 in E. apply COk_inj in E. subst cr.
  destruct (K HG _ _ _ HA) as (order & code & HS & HF & Acc).
  rewrite HS0 in HS. apply Some_inj in HS. subst order.
  rewrite HF0 in HF. apply Some_inj in HF. subst code.
  destruct (Acc HV) as (lines & A & C).
  exists lines. split; [exact C|].
  destruct A0 as (l0 & A1 & A2). rewrite A1 in A. apply Some_inj in A. subst l0. exact A2.
Qed.
