(* Proofs/OptimizeOptions.v — how OptimizeOptions resolves its two tri-state settings against the
   program version (C03, "version-dependent defaults"), on the regenerated constants of Gen/Tables.v. *)
From Coq Require Import List Arith NArith String Bool Lia.
From PV Require Import Base.Bytes Base.Sexp AVM.Syntax Src.Expr Comp.Lower Extract.Wire Extract.WireExpr Gen.Tables.
Import ListNotations.
Local Open Scope string_scope.

(* ================================================================================================ *)
(* 14. OptimizeOptions.optimize_scratch_slots(version) / use_frame_pointers(version)                 *)
(* ================================================================================================ *)
(* the Python methods, with the regenerated constants of pyteal/compiler/compiler.py *)
Definition resolve_opt_slots (scratch_slots : option bool) (version : N) : bool :=
  match scratch_slots with
  | None => N.leb gen_DEFAULT_SCRATCH_SLOT_OPTIMIZE_VERSION version
  | Some b => b
  end.

(* None = TealInputError (verifyProgramVersion) *)
Definition resolve_frame_pointers (frame_pointers : option bool) (version : N) : option bool :=
  match frame_pointers with
  | None => Some (N.leb gen_FRAME_POINTERS_VERSION version)
  | Some true => if N.ltb version gen_FRAME_POINTERS_VERSION then None else Some true
  | Some false => Some false
  end.

(* the option reader of the model resolves the options exactly like that *)
Theorem options_resolved body v m ss fp v' ss' fp' :
  field "version" body = Some [v] -> field "mode" body = Some [Atom m] ->
  field "scratch-slots" body = Some [ss] -> field "frame-pointers" body = Some [fp] ->
  w_N v = Some v' -> w_tri ss = Some ss' -> w_tri fp = Some fp' ->
  match resolve_frame_pointers fp' v' with
  | None => w_opts body = Some (inr ErrInput)
  | Some f =>
      exists o, w_opts body = Some (inl o) /\
                o_version o = v' /\ o_app_mode o = String.eqb m "app" /\
                o_opt_slots o = resolve_opt_slots ss' v' /\ o_use_fp o = f
  end.
Proof.
  intros E1 E2 E3 E4 E5 E6 E7. unfold w_opts. rewrite E1, E2, E3, E4, E5, E6, E7.
  unfold resolve_frame_pointers, resolve_opt_slots.
  destruct fp' as [[|]|].
  - destruct (N.ltb v' gen_FRAME_POINTERS_VERSION); [reflexivity|].
    eexists. split; [reflexivity|]. cbn. repeat split; reflexivity.
  - eexists. split; [reflexivity|]. cbn. repeat split; reflexivity.
  - eexists. split; [reflexivity|]. cbn. repeat split; reflexivity.
Qed.

(* the defaults, made explicit: unset => on exactly from the constant's version upwards; an explicit
   setting is taken as is; frame_pointers=True below the frame-pointer version is an input error *)
Theorem option_defaults :
  (forall v, resolve_opt_slots None v = true <-> (gen_DEFAULT_SCRATCH_SLOT_OPTIMIZE_VERSION <= v)%N) /\
  (forall b v, resolve_opt_slots (Some b) v = b) /\
  (forall v, resolve_frame_pointers None v = Some true <-> (gen_FRAME_POINTERS_VERSION <= v)%N) /\
  (forall v, resolve_frame_pointers None v <> None) /\
  (forall v, resolve_frame_pointers (Some false) v = Some false) /\
  (forall v, resolve_frame_pointers (Some true) v = None <-> (v < gen_FRAME_POINTERS_VERSION)%N) /\
  (forall v, resolve_frame_pointers (Some true) v = Some true <-> (gen_FRAME_POINTERS_VERSION <= v)%N).
Proof.
  repeat split.
  - apply N.leb_le.
  - apply N.leb_le.
  - cbn. intros H. injection H as H. apply N.leb_le, H.
  - cbn. intros H. f_equal. apply N.leb_le, H.
  - discriminate.
  - cbn. destruct (N.ltb_spec v gen_FRAME_POINTERS_VERSION); [tauto|discriminate].
  - cbn. destruct (N.ltb_spec v gen_FRAME_POINTERS_VERSION); [reflexivity|lia].
  - cbn. destruct (N.ltb_spec v gen_FRAME_POINTERS_VERSION); [discriminate|tauto].
  - cbn. destruct (N.ltb_spec v gen_FRAME_POINTERS_VERSION); [lia|reflexivity].
Qed.

(* the values the documentation states (docstring of OptimizeOptions: slot optimisation by default from
   program version 9, frame pointers from version 8), against the regenerated constants *)
Theorem option_defaults_documented :
  gen_DEFAULT_SCRATCH_SLOT_OPTIMIZE_VERSION = 9%N /\ gen_FRAME_POINTERS_VERSION = 8%N /\
  map (resolve_opt_slots None) [2; 3; 4; 5; 6; 7; 8; 9; 10]%N =
    [false; false; false; false; false; false; false; true; true] /\
  map (resolve_frame_pointers None) [2; 3; 4; 5; 6; 7; 8; 9; 10]%N =
    [Some false; Some false; Some false; Some false; Some false; Some false; Some true; Some true; Some true].
Proof. repeat split; reflexivity. Qed.
