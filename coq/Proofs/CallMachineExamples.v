(* Proofs/CallMachineExamples.v — property C02, non-vacuity of Proofs/CallMachineProgram.v:
   the loop + nested-call program of Proofs/CallComposeExamples.v (main: a loop calling f; f: two calls of g, the
   second while the first result is on the stack; g: an If with an early Return) and the recursive factorial
   with a live local (spill code) — through compile_model's TEXT, the assembler, to [Machine.run]. *)
From Coq Require Import List Arith NArith String Bool Lia.
From PV Require Import Base.Bytes Base.Sexp AVM.Syntax AVM.Machine AVM.Parse Src.Expr Src.Denote Src.DenoteCall
  Comp.Blocks Comp.Lower Comp.Passes Comp.GraphSem Comp.LinearSem Comp.LinkedSem Comp.Compile Comp.Assemble
  Proofs.LowerShape Proofs.NormalizeLowered Proofs.SlotComposeAssign Proofs.FlattenCorrect
  Proofs.StageELink Proofs.StageEText Proofs.StageECompose
  Proofs.CallMachineSim Proofs.CallMachineText Proofs.CallMachineFrame Proofs.CallMachineFpSem
  CallX.Denote CallX.EndToEnd
  Proofs.CallComposeLink Proofs.CallComposeMain Proofs.CallComposeLayout
  Proofs.CallComposeSpill Proofs.CallComposeSpillPass Proofs.CallComposeProgram Proofs.CallComposeAcyclic
  Proofs.CallComposeFinal Proofs.CallComposeExamples Proofs.CallMachineProgram.
Import ListNotations.
Local Open Scope string_scope.
Local Open Scope list_scope.

Definition ex_lines : list string :=
  match compile_model ex_opts ex_modes ex_prog with COk l => l | CErr _ => [] end.
Definition ex_rank (f : N) : nat := match f with 1%N => 2 | 2%N => 1 | _ => 0 end.

(* the text is the one shown in CallComposeExamples.ex_text *)
Example ex_lines_text : assemble_all ex_comps = Some ex_lines.
Proof. vm_compute. reflexivity. Qed.

(* every hypothesis of [program_text_calls_nonrecursive] holds for ex_prog; its conclusion, instantiated: the
   program the assembler reads from the printed text approves (24 <> 0) for every sufficient fuel, in the final
   state of the source semantics, with 24 on top of the stack; [run 1000] computes the same verdict *)
Example program_text_calls_example :
  compile_model ex_opts ex_modes ex_prog = COk ex_lines /\
  denote_k ex_opts ex_ctx (look_of ex_asg) [] [ex_f; ex_g] idW 100 None 100 (root_ast ex_main) [] ex_st0
    = DExit (VI 24) ex_final /\
  exists P,
    parse_program [] (program_text ex_lines) = Some P /\ pr_version P = 6%N /\
    (exists k0 m', (forall k, k0 <= k -> run k ex_ctx P (init_mach ex_st0) = (VApprove, m')) /\
                   m_st m' = ex_final /\ hd_error (m_stack m') = Some (VI 24)) /\
    fst (run 1000 ex_ctx P (init_mach ex_st0)) = VApprove.
Proof.
  assert (EM : compile_model ex_opts ex_modes ex_prog = COk ex_lines) by (vm_compute; reflexivity).
  split; [exact EM|].
  assert (ED : denote_k ex_opts ex_ctx (look_of ex_asg) [] [ex_f; ex_g] idW 100 None 100 (root_ast ex_main) [] ex_st0
               = DExit (VI 24) ex_final) by (vm_compute; reflexivity).
  split; [exact ED|].
  destruct (program_text_calls_nonrecursive ex_opts ex_modes ex_prog ex_lines ex_rank [] EM eq_refl eq_refl)
    as (crs & crs' & locals & asg & frs & HR & HA & HF & T).
  { intros r [<-|[<-|[]]]; reflexivity. }
  { intros u i []. }
  vm_compute in HR. injection HR as <-.
  vm_compute in HA. injection HA as <- <- <-.
  vm_compute in HF. injection HF as <-.
  match type of T with acyclic _ ?f -> _ => set (frs0 := f) in T end.
  assert (Ha : acyclic ex_rank frs0).
  { intros fr r Hin Es c Hc. unfold frs0 in Hin.
    destruct Hin as [<-|[<-|[<-|[]]]]; cbn [fr_sub] in Es; try discriminate Es; injection Es as <-;
      vm_compute in Hc; repeat (destruct Hc as [<-|Hc]; [vm_compute; lia|]); destruct Hc. }
  specialize (T Ha). cbv zeta in T. destruct T as (_ & _ & T2).
  match type of T2 with NoDup (labels_of ?l) -> _ => assert (EL : l = ex_L) by (vm_compute; reflexivity) end.
  rewrite EL in T2.
  assert (ND : NoDup (labels_of ex_L)) by (apply nodup_b_sound; vm_compute; reflexivity).
  assert (LK : forallb (fun fr => linkable (fr_ops fr)) frs0 = true) by (vm_compute; reflexivity).
  assert (PR : printable [] (CPragma (o_version ex_opts) :: ex_L) = true) by (vm_compute; reflexivity).
  assert (TG : targets_ok (CPragma (o_version ex_opts) :: ex_L) = true) by (vm_compute; reflexivity).
  destruct (T2 ND LK PR TG) as (P & PP & PL & PV & Run).
  exists P. split; [exact PP|].
  split; [apply PV; vm_compute; reflexivity|].
  specialize (Run ex_ctx 100 100 ex_st0 (LExit (VI 24) ex_final) VApprove).
  change (fs_subs frs0) with [ex_f; ex_g] in Run.
  match type of Run with halt_of (denote_k _ _ ?lk _ _ _ _ _ _ _ _ _) = _ -> _ =>
    change lk with (look_of ex_asg) in Run end.
  change (p_main ex_prog) with ex_main in Run.
  rewrite ED in Run.
  assert (B : pstack_bounded ex_lenv ex_L (PAt [] 0 [] ex_st0)).
  { apply (pbounded_run_sound ex_lenv ex_L 400). vm_compute. reflexivity. }
  destruct (Run eq_refl Logic.I eq_refl B) as (k0 & m' & Hrun & Hst & Htop).
  split; [exists k0, m'; split; [exact Hrun|split; assumption]|].
  assert (EP : parse_program [] (program_text ex_lines) = Some P) by exact PP.
  vm_compute in EP. injection EP as <-. vm_compute. reflexivity.
Qed.

(* ---- recursion: factorial with a live local across the recursive call (the text contains the spill code) ---- *)
Definition rec_lines : list string :=
  match compile_model ex_opts ex_modes rec_prog with COk l => l | CErr _ => [] end.

Example program_text_calls_recursion_example :
  compile_model ex_opts ex_modes rec_prog = COk rec_lines /\
  denote_k ex_opts ex_ctx (look_of rec_asg) [] [ex_fact] rec_W 100 None 100 (root_ast rec_main) [] ex_st0
    = DExit (VI 25) rec_final /\
  exists P,
    parse_program [] (program_text rec_lines) = Some P /\
    (exists k0 m', (forall k, k0 <= k -> run k ex_ctx P (init_mach ex_st0) = (VApprove, m')) /\
                   m_st m' = rec_final /\ hd_error (m_stack m') = Some (VI 25)) /\
    fst (run 1000 ex_ctx P (init_mach ex_st0)) = VApprove.
Proof.
  assert (EM : compile_model ex_opts ex_modes rec_prog = COk rec_lines) by (vm_compute; reflexivity).
  split; [exact EM|].
  assert (ED : denote_k ex_opts ex_ctx (look_of rec_asg) [] [ex_fact] rec_W 100 None 100 (root_ast rec_main) [] ex_st0
               = DExit (VI 25) rec_final) by (vm_compute; reflexivity).
  split; [exact ED|].
  destruct (program_text_calls_recursive ex_opts ex_modes rec_prog rec_lines [] EM eq_refl eq_refl)
    as (crs & crs' & locals & asg & frs & frs2 & HR & HA & HF & HS & T).
  { intros r [<-|[]]; reflexivity. }
  { intros u i []. }
  vm_compute in HR. injection HR as <-.
  vm_compute in HA. injection HA as <- <- <-.
  vm_compute in HF. injection HF as <-.
  vm_compute in HS. injection HS as <-.
  cbv zeta in T. destruct T as (_ & _ & T2).
  match type of T2 with NoDup (labels_of ?l) -> _ => assert (EL : l = rec_L) by (vm_compute; reflexivity) end.
  rewrite EL in T2.
  assert (ND : NoDup (labels_of rec_L)) by (apply nodup_b_sound; vm_compute; reflexivity).
  match type of T2 with _ -> ?A -> _ => assert (LK : A) by (vm_compute; reflexivity) end.
  assert (PR : printable [] (CPragma (o_version ex_opts) :: rec_L) = true) by (vm_compute; reflexivity).
  assert (TG : targets_ok (CPragma (o_version ex_opts) :: rec_L) = true) by (vm_compute; reflexivity).
  destruct (T2 ND LK PR TG) as (P & PP & PL & PV & Run).
  exists P. split; [exact PP|].
  specialize (Run ex_ctx 100 100 ex_st0 (LExit (VI 25) rec_final) VApprove).
  change (fs_subs _) with [ex_fact] in Run.
  change (p_main rec_prog) with rec_main in Run.
  match type of Run with halt_of ?d = _ -> _ =>
    change d with (denote_k ex_opts ex_ctx (look_of rec_asg) [] [ex_fact] rec_W 100 None 100 (root_ast rec_main) [] ex_st0) in Run end.
  rewrite ED in Run.
  assert (B : pstack_bounded rec_lenv rec_L (PAt [] 0 [] ex_st0)).
  { apply (pbounded_run_sound rec_lenv rec_L 600). vm_compute. reflexivity. }
  destruct (Run eq_refl Logic.I eq_refl B) as (k0 & m' & Hrun & Hst & Htop).
  split; [exists k0, m'; split; [exact Hrun|split; assumption]|].
  assert (EP : parse_program [] (program_text rec_lines) = Some P) by exact PP.
  vm_compute in EP. injection EP as <-. vm_compute. reflexivity.
Qed.

(* ---- the frame-pointer convention on the machine: [fp_call_protocol] instantiated ----
   main pushes a cell (7) of its own, then calls add(3, 4); add has two locals above the frame pointer (int 0;
   dupn 1), reads its arguments with frame_dig -2 / -1, writes a local with frame_bury 1, calls inc (a nested
   call with its own proto), buries the result at the frame pointer and returns.  The body's 15 steps run on
   the stripped machine (stack [4; 3], the callee's frame only); the theorem gives the 18 steps of the real
   machine from the callsub to the instruction after it with stack [8; 7]: the caller's cell untouched. *)
Definition fp_lines : list string :=
  ["#pragma version 8"; "int 7"; "int 3"; "int 4"; "callsub add_0"; "+"; "return";
   "add_0:"; "proto 2 1"; "int 0"; "dupn 1"; "frame_dig -2"; "frame_dig -1"; "+"; "frame_bury 1";
   "frame_dig 1"; "int 1"; "callsub inc_1"; "frame_bury 0"; "retsub";
   "inc_1:"; "proto 2 1"; "frame_dig -2"; "frame_dig -1"; "+"; "retsub"].
Definition fp_prog : program :=
  match parse_program [] (program_text fp_lines) with Some P => P | None => mkProg 0%N [] [] end.
(* the machine at the callsub *)
Definition fp_M : mach :=
  match nsteps ex_ctx fp_prog 0 3 (init_mach ex_st0) with Some m => m | None => init_mach ex_st0 end.
Definition fp_args : list value := [VI 3; VI 4].
(* the end of the body on the stripped machine *)
Definition fp_mb : mach :=
  match nsteps ex_ctx fp_prog 1 15 (callee_start fp_M 6 2 1 fp_args) with Some m => m | None => fp_M end.

Example fp_call_protocol_example :
  parse_program [] (program_text fp_lines) = Some fp_prog /\
  m_stack fp_M = rev fp_args ++ [VI 7] /\ m_calls fp_M = [] /\
  msteps ex_ctx fp_prog 1 15 (callee_start fp_M 6 2 1 fp_args) fp_mb /\
  m_stack fp_mb = [VI 7] ++ [VI 8] ++ rev fp_args /\
  msteps ex_ctx fp_prog 0 (2 + 15 + 1) fp_M (mkM 4 [VI 8; VI 7] [] false [] [] ex_st0) /\
  fst (run 100 ex_ctx fp_prog (init_mach ex_st0)) = VApprove.
Proof.
  split; [vm_compute; reflexivity|]. split; [vm_compute; reflexivity|]. split; [vm_compute; reflexivity|].
  assert (B : msteps ex_ctx fp_prog 1 15 (callee_start fp_M 6 2 1 fp_args) fp_mb)
    by (apply nsteps_sound; vm_compute; reflexivity).
  split; [exact B|]. split; [vm_compute; reflexivity|]. split; [|vm_compute; reflexivity].
  assert (T := fp_call_protocol ex_ctx fp_prog fp_M "add_0" 6 2 1 fp_args [VI 7] 15 fp_mb [VI 7] [VI 8] fp_args []).
  assert (E : mkM (S (m_pc fp_M)) ([VI 8] ++ [VI 7]) (m_calls fp_M) false (m_intc fp_mb) (m_bytec fp_mb) (m_st fp_mb)
              = mkM 4 [VI 8; VI 7] [] false [] [] ex_st0) by (vm_compute; reflexivity).
  rewrite E in T. apply T; try (vm_compute; reflexivity).
  - vm_compute. lia.
  - exact B.
  - vm_compute. lia.
Qed.

(* ---- the same loop + nested-call program compiled with FRAME POINTERS (version 8, o_use_fp = true) ----
   compile_model prints  f_0: proto 1 1; frame_dig -1; callsub g_1; frame_dig -1; int 10; +; callsub g_1; +; retsub
   and g_1: proto 1 1; frame_dig -1; ... retsub.  The program the assembler reads from that text is
   [link_fp] of the component list; the extended linked semantics [fstep] runs it to [return] with 24; the
   whole-run bridge [fmachine_bridge_init] gives the verdict of [Machine.run]. *)
Definition fp_opts : copts := mkOpts 8 true false true (fun _ => 0%N) (fun _ _ => 0%N).
Definition fpc_comps : list comp :=
  match compile_components fp_opts ex_modes ex_prog with COk c => c | CErr _ => [] end.
Definition fpc_lines : list string :=
  match compile_model fp_opts ex_modes ex_prog with COk l => l | CErr _ => [] end.
Definition fpc_asg : list (N * N) := match model_assignment fp_opts ex_prog with COk a => a | CErr _ => [] end.
Definition fpc_lenv : Src.Denote.denv := lenv ex_ctx (look_of fpc_asg) [] [ex_f; ex_g].
Definition fpc_P : program :=
  match link_fp [] fpc_comps with Some P => P | None => mkProg 0%N [] [] end.
Definition fpc_final : mstate :=
  match frun 600 fpc_lenv fpc_comps (FAt [] false 0 [] ex_st0) with FExit _ st => st | _ => ex_st0 end.

Example fp_text : assemble_all fpc_comps =
  Some ["#pragma version 8"; "int 0"; "store 0"; "int 0"; "store 1"; "main_l1:"; "load 1"; "int 3"; "<";
        "bz main_l3"; "load 0"; "load 1"; "callsub f_0"; "+"; "store 0"; "load 1"; "int 1"; "+"; "store 1";
        "b main_l1"; "main_l3:"; "load 0"; "return"; "
// f
f_0:"; "proto 1 1"; "frame_dig -1"; "callsub g_1"; "frame_dig -1"; "int 10"; "+"; "callsub g_1"; "+"; "retsub"; "
// g
g_1:"; "proto 1 1"; "frame_dig -1"; "int 5"; ">"; "bz g_1_l2"; "frame_dig -1"; "int 5"; "-"; "retsub"; "g_1_l2:";
        "frame_dig -1"; "int 1"; "+"; "retsub"].
Proof. vm_compute. reflexivity. Qed.

Example fp_linked_program_example :
  compile_model fp_opts ex_modes ex_prog = COk fpc_lines /\
  assemble_all fpc_comps = Some fpc_lines /\
  parse_program [] (program_text fpc_lines) = Some fpc_P /\
  link_fp [] fpc_comps = Some fpc_P /\
  frun 600 fpc_lenv fpc_comps (FAt [] false 0 [] ex_st0) = FExit (VI 24) fpc_final /\
  (exists k0 m', (forall k, k0 <= k -> run k ex_ctx fpc_P (init_mach ex_st0) = (VApprove, m')) /\
                 m_st m' = fpc_final /\ hd_error (m_stack m') = Some (VI 24)) /\
  fst (run 1000 ex_ctx fpc_P (init_mach ex_st0)) = VApprove.
Proof.
  split; [vm_compute; reflexivity|]. split; [vm_compute; reflexivity|]. split; [vm_compute; reflexivity|].
  assert (LK : link_fp [] fpc_comps = Some fpc_P) by (vm_compute; reflexivity).
  split; [exact LK|].
  assert (ER : frun 600 fpc_lenv fpc_comps (FAt [] false 0 [] ex_st0) = FExit (VI 24) fpc_final) by (vm_compute; reflexivity).
  split; [exact ER|]. split; [|vm_compute; reflexivity].
  assert (TG : targets_ok fpc_comps = true) by (vm_compute; reflexivity).
  assert (B : fstack_bounded fpc_lenv fpc_comps (FAt [] false 0 [] ex_st0)).
  { apply (fbounded_run_sound fpc_lenv fpc_comps 600). vm_compute. reflexivity. }
  pose proof (frun_fstar fpc_lenv fpc_comps 600 (FAt [] false 0 [] ex_st0)) as H. rewrite ER in H.
  destruct (fmachine_bridge_init fpc_lenv fpc_comps fpc_P LK TG ex_st0 _ VApprove H eq_refl B)
    as (k0 & m' & Hrun & Hst & Htop).
  exists k0, m'. split; [exact Hrun|]. split; assumption.
Qed.
