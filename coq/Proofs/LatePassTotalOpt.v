(* Proofs/LatePassTotalOpt.v — the scratch-slot optimiser does not disturb the late passes (C20):
     * [optimize_routine] always returns a graph (since the repair f003506 of /repo the current block is
       located by identity, the structural comparison that could diverge is gone: [div := false] in
       Comp/Passes.v), so compile_components never reports CrashRecursion;
     * it only deletes load/store operations of blocks, so the facts sortBlocks / flattenBlocks rely on
       (well-formedness, both branches, single exit, end block reachable, every edge to a defined block)
       survive, as they survive the slot rewrite;
   hence the "never a crash" theorem for the compile model holds with the optimiser ON as well. *)
From Coq Require Import List Arith NArith String Bool Lia.
From PV Require Import Base.Bytes AVM.Syntax AVM.Machine Src.Expr Src.Denote
  Comp.Blocks Comp.Lower Comp.Passes Comp.GraphSem Comp.LinearSem Comp.SimCheck Comp.Compile Comp.Assemble
  Proofs.LowerFrame Proofs.LowerShape Proofs.NormalizeSem Proofs.NormalizeGraph Proofs.NormalizeLowered Proofs.FlattenCorrect
  Proofs.OptimizeSem Proofs.OptimizeCorrect
  Proofs.EndToEndExits Proofs.EndToEndGlue Proofs.EndToEnd Proofs.EndToEndOpt
  Proofs.SlotCompose Proofs.SlotComposeAssign Proofs.SlotComposeCover Proofs.SlotComposePipeline
  Proofs.LatePassTotalReach Proofs.LatePassTotalNorm Proofs.LatePassTotal Proofs.LatePassTotalProgram
  Proofs.SortCorrect.
Import ListNotations.

Local Notation reach := SortCorrect.reach.

(* ---- the optimiser is total ---- *)
Lemma deps_scan_no_crash g cur slot pos : forall blocks, deps_scan g blocks cur false slot pos <> DepCrash.
Proof.
  induction blocks as [|b t IH]; cbn [deps_scan]; [discriminate|].
  destruct (Nat.eqb b cur).
  - destruct (block_has_load g b slot (Some pos)); [discriminate|exact IH].
  - destruct (block_has_load g b slot None); [discriminate|exact IH].
Qed.

Lemma no_crash_in_res g order cur (cands : list (N * nat)) :
  existsb (fun '(_, d) => match d with DepCrash => true | _ => false end)
          (map (fun '(s, pos) => (s, deps_scan g order cur false s pos)) cands) = false.
Proof.
  induction cands as [|[s pos] t IH]; [reflexivity|]. cbn [map existsb]. rewrite IH.
  pose proof (deps_scan_no_crash g cur s pos order) as K.
  destruct (deps_scan g order cur false s pos); try reflexivity. congruence.
Qed.

Lemma apply_slot_to_stack_total g start cur skip : exists g1, apply_slot_to_stack g start cur skip = Some g1.
Proof.
  unfold apply_slot_to_stack. cbv zeta.
  match goal with |- exists g1, match ?c with [] => _ | _ :: _ => _ end = _ => destruct c as [|c0 ct] eqn:Ec end;
    [eauto|].
  rewrite no_crash_in_res. eauto.
Qed.

Lemma opt_block_loop_total start cur skip : forall n g, exists g', opt_block_loop n g start cur skip = Some g'.
Proof.
  induction n as [|k IH]; intros g; cbn [opt_block_loop]; [eauto|].
  destruct (apply_slot_to_stack_total g start cur skip) as (g1 & E). rewrite E.
  destruct (instrs_eqb _ _); [eauto|apply IH].
Qed.

Theorem optimize_routine_total g start skip : exists g', optimize_routine g start skip = Some g'.
Proof.
  unfold optimize_routine. generalize (iterate g start) as blocks. intros blocks. revert g.
  induction blocks as [|b t IH]; intros g; cbn [fold_left]; [eauto|].
  destruct (opt_block_loop_total start b skip (List.length (get_ops g b)) g) as (g1 & E). rewrite E. apply IH.
Qed.

(* ---- the shape the late passes need, and what keeps it ---- *)
Definition late_ok (c : croutine) : Prop :=
  wf (cr_graph c) /\ cond_full (cr_graph c) /\ late_inv (cr_end c) (cr_graph c) (cr_start c).

Lemma same_edges_reach g g' a b : (forall p, out_of g' p = out_of g p) -> reach g a b -> reach g' a b.
Proof.
  intros H R. induction R as [|x y R IH Hy]; [apply reach_refl|].
  eapply reach_step; [exact IH|rewrite H; exact Hy].
Qed.

Lemma rsa_defined g start L i : g_blk g i <> None -> g_blk (remove_slot_access g start L) i <> None.
Proof.
  intros N. rewrite rsa_blk. destruct (mem_id i (iterate g start)); [|exact N].
  destruct (g_blk g i); [discriminate|congruence].
Qed.

Lemma rsa_full g start L : cond_full g -> cond_full (remove_slot_access g start L).
Proof.
  intros F i b E. rewrite rsa_blk in E. destruct (mem_id i (iterate g start)); [|exact (F i b E)].
  destruct (g_blk g i) as [b0|] eqn:E0; [|discriminate E]. cbn [option_map] in E. injection E as <-.
  unfold filter_block. apply full_set_ops. exact (F i b0 E0).
Qed.

Lemma rsteps_late start g g' Ls en :
  rsteps start g g' Ls ->
  wf g -> cond_full g -> late_inv en g start -> wf g' /\ cond_full g' /\ late_inv en g' start.
Proof.
  induction 1 as [g|g g' cur L Ls Hc Hok S IH]; intros W F (X & R & D & Ds); [exact (conj W (conj F (conj X (conj R (conj D Ds)))))|].
  apply IH.
  - intros i Li. rewrite rsa_next in Li. rewrite rsa_blk, (W i Li). destruct (mem_id i (iterate g start)); reflexivity.
  - apply rsa_full. exact F.
  - split; [exact (exits_gpres _ _ _ (rsa_gpres g start L) X)|]. split; [|split].
    + eapply same_edges_reach; [|exact R]. intros p. apply rsa_out_of.
    + intros p x I. rewrite rsa_out_of in I. apply rsa_defined. exact (D p x I).
    + apply rsa_defined. exact Ds.
Qed.

Theorem optimize_keeps_late c skip g' :
  optimize_routine (cr_graph c) (cr_start c) skip = Some g' ->
  late_ok c -> late_ok (mkCR (cr_sub c) g' (cr_start c) (cr_end c)).
Proof.
  intros H (W & F & L). destruct (optimize_routine_steps _ _ _ _ H) as [Ls S].
  exact (rsteps_late _ _ _ _ _ S W F L).
Qed.

Theorem compiled_late_ok o sub ast0 cr :
  (match sub with Some r => r_deferred r | None => None end) = None ->
  compile_one o sub ast0 = COk cr -> nec (root_ast ast0) = true -> late_ok cr.
Proof. exact (compiled_late_facts o sub ast0 cr). Qed.

(* sort + flatten on a routine of that shape, before and after the slot rewrite *)
Theorem late_ok_assigned_total look c :
  late_ok c ->
  let c' := rw_routine look c in
  exists order code,
    sort_blocks (cr_graph c) (cr_start c) (cr_end c) = Some order /\
    flatten_blocks (cr_graph c) order = Some code /\
    sort_blocks (cr_graph c') (cr_start c') (cr_end c') = Some order /\
    flatten_blocks (cr_graph c') order = Some (rw_code look code).
Proof.
  intros (W & F & _ & R & Dc & Ds) c'.
  destruct (sort_flatten_total _ _ _ W F Dc Ds R) as (order & code & HS & HF).
  exists order, code. split; [exact HS|]. split; [exact HF|]. split.
  - unfold c'. cbn [rw_routine map_graph_ops cr_start cr_end]. rewrite <- HS. apply sort_blocks_rw.
  - pose proof (order_covered_plain c order code W HS HF) as Cov.
    unfold c'. rewrite (flatten_blocks_rw look (cr_graph c) _ order); [rewrite HF; reflexivity|].
    intros b Hb. rewrite mgo_blk. rewrite (proj2 (SortCorrect.mem_id_In b _) (Cov b Hb)). reflexivity.
Qed.

(* the optimiser stage of compile_components *)
Definition opt_stage (skip : list N) (crs : list croutine) : cres (list croutine) :=
  fold_right (fun c acc =>
                match acc, optimize_routine (cr_graph c) (cr_start c) skip with
                | COk l, Some g => COk (mkCR (cr_sub c) g (cr_start c) (cr_end c) :: l)
                | COk _, None => CErr CrashRecursion
                | CErr e, _ => CErr e
                end) (COk []) crs.

Lemma opt_stage_total skip crs :
  (forall c, In c crs -> late_ok c) ->
  exists crs1, opt_stage skip crs = COk crs1 /\ forall c, In c crs1 -> late_ok c.
Proof.
  induction crs as [|c t IH]; intros H; [exists []; split; [reflexivity|intros c []]|].
  destruct (IH (fun x Hx => H x (or_intror Hx))) as (l & E & Hl).
  destruct (optimize_routine_total (cr_graph c) (cr_start c) skip) as (g' & Eo).
  exists (mkCR (cr_sub c) g' (cr_start c) (cr_end c) :: l). split.
  - unfold opt_stage in *. cbn [fold_right]. rewrite E, Eo. reflexivity.
  - intros x [<-|Hx]; [exact (optimize_keeps_late c skip g' Eo (H c (or_introl eq_refl)))|exact (Hl x Hx)].
Qed.

Lemma flat_stage_late look crs1 : (forall c, In c crs1 -> late_ok c) ->
  exists frs, flat_stage (map (rw_routine look) crs1) = COk frs.
Proof.
  intros H. apply flat_stage_total. intros c' Hc'. apply in_map_iff in Hc'. destruct Hc' as (c & <- & Hc).
  destruct (late_ok_assigned_total look c (H c Hc)) as (order & code & _ & _ & S2 & F2). eauto.
Qed.

(* ---- the pipeline, optimiser on or off ---- *)
Theorem compile_components_no_crash_opt o modes p e :
  (forall r, In r (p_subs p) -> r_deferred r = None /\ nec (r_body r) = true) ->
  nec (root_ast (p_main p)) = true ->
  compile_components o modes p = CErr e -> is_crash e = false.
Proof.
  intros HS Hm H. unfold compile_components in H.
  destruct (negb _); [injection H as <-; reflexivity|].
  destruct (compile_rec (S (List.length (p_subs p))) o p None (p_main p) []) as [crs|e1] eqn:E1.
  2:{ injection H as <-. exact (compile_rec_no_crash o p (fun r Hr => proj1 (HS r Hr)) _ None _ _ _ eq_refl E1). }
  assert (L0 : forall c, In c crs -> late_ok c).
  { intros c Hc. destruct (compile_rec_origin o p crs E1 c Hc) as [E|(r & Hr & E)].
    - exact (compiled_late_ok o None (p_main p) c eq_refl E Hm).
    - destruct (HS r Hr) as [Dr Nr]. exact (compiled_late_ok o (Some r) (decl_body o r) c Dr E (nec_decl_body o r Nr)). }
  assert (K : exists crs1, (if o_opt_slots o then opt_stage (skip_slots p crs) crs else COk crs) = COk crs1 /\
                           forall c, In c crs1 -> late_ok c).
  { destruct (o_opt_slots o); [apply opt_stage_total; exact L0|exists crs; split; [reflexivity|exact L0]]. }
  destruct K as (crs1 & EO & L1). unfold opt_stage in EO. rewrite EO in H.
  destruct (assign_slots p crs1) as [[[crs2 locals] asg]|e2] eqn:E2;
    [|injection H as <-; exact (assign_slots_no_crash p crs1 e2 E2)].
  rewrite (proj1 (assign_slots_facts p crs1 crs2 locals asg E2)) in H.
  destruct (flat_stage_late (look_of asg) crs1 L1) as (frs & EF).
  unfold flat_stage in EF. rewrite EF in H.
  destruct (spill (o_version o) p frs locals) as [frs2|e3] eqn:E3;
    [|injection H as <-; exact (spill_no_crash _ _ _ _ _ E3)].
  destruct (verify_ops o modes (flatten_subroutines frs2)) as [e4|] eqn:E4;
    [injection H as <-; exact (verify_ops_no_crash _ _ _ _ E4)|discriminate H].
Qed.

Theorem compile_model_no_crash_opt o modes p e :
  (forall r, In r (p_subs p) -> r_deferred r = None /\ nec (r_body r) = true) ->
  nec (root_ast (p_main p)) = true ->
  compile_model o modes p = CErr e -> is_crash e = false.
Proof.
  intros HS Hm H. unfold compile_model in H.
  destruct (compile_components o modes p) as [comps|e1] eqn:C.
  - destruct (assemble_all comps); [discriminate H|injection H as <-; reflexivity].
  - injection H as <-. exact (compile_components_no_crash_opt o modes p e1 HS Hm C).
Qed.
