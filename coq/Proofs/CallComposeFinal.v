(* Proofs/CallComposeFinal.v — property C02: the two program-level statements in their final form
   (requested slot ids bounded by the table; acyclicity by a rank function). *)
From Coq Require Import List Arith NArith String Bool Lia.
From PV Require Import Base.Bytes Base.Sexp AVM.Syntax AVM.Machine Src.Expr Src.Denote Src.DenoteCall
  Comp.Blocks Comp.Lower Comp.Passes Comp.GraphSem Comp.LinearSem Comp.LinkedSem Comp.Compile
  Proofs.LowerShape Proofs.NormalizeLowered Proofs.SlotComposeAssign
  CallX.Denote CallX.EndToEnd
  Proofs.CallComposeLink Proofs.CallComposeMain Proofs.CallComposeLayout
  Proofs.CallComposeSpill Proofs.CallComposeSpillPass Proofs.CallComposeProgram Proofs.CallComposeAcyclic.
Import ListNotations.
Local Open Scope list_scope.

Theorem call_correct_nonrecursive o modes p comps (rank : N -> nat) :
  compile_components o modes p = COk comps -> o_opt_slots o = false ->
  head_loop (root_ast (p_main p)) = false ->
  (forall r, In r (p_subs p) -> r_deferred r = None) ->
  (forall u i, In (u, (i, true)) (p_slots p) -> (i < 256)%N) ->
  exists crs crs' locals asg frs,
    compile_rec (S (List.length (p_subs p))) o p None (p_main p) [] = COk crs /\
    assign_slots p crs = COk (crs', locals, asg) /\
    fold_right flat_step (COk []) crs' = COk frs /\
    (acyclic rank frs ->
     let L := flatten_subroutines frs in
     comps = CPragma (o_version o) :: L /\
     (NoDup (labels_of L) ->
      forallb (fun fr => linkable (fr_ops fr)) frs = true ->
      forall cx msel,
        (forall n, realizes (lenv cx (look_of asg) msel (fs_subs frs)) L (fs_res frs)
                            (call_k o cx (look_of asg) msel (fs_subs frs) idW n)) /\
        (forall n fuel stk st h,
           halt_of (denote_k o cx (look_of asg) msel (fs_subs frs) idW n None fuel (root_ast (p_main p)) stk st) = Some h ->
           claimed h ->
           pstar (lenv cx (look_of asg) msel (fs_subs frs)) L (PAt [] 0 stk st) (emb 0 [] h)))).
Proof.
  intros H Ho HL HD HT.
  destruct (program_linked_correct o modes p comps H Ho HL HD)
    as (crs & crs' & locals & asg & frs & frs2 & HR & HA & HF & HS & HC & T).
  exists crs, crs', locals, asg, frs. repeat (split; [assumption|]).
  intros Ha L.
  pose proof (spill_acyclic_identity rank (o_version o) p frs locals frs2 Ha HS) as E2.
  split; [rewrite HC, E2; reflexivity|].
  intros ND LK cx msel.
  exact (T (requested_valid_of_table p _ HT) E2 ND LK cx msel).
Qed.

Theorem call_correct_recursive o modes p comps :
  compile_components o modes p = COk comps -> o_opt_slots o = false ->
  head_loop (root_ast (p_main p)) = false ->
  (forall r, In r (p_subs p) -> r_deferred r = None) ->
  (forall u i, In (u, (i, true)) (p_slots p) -> (i < 256)%N) ->
  exists crs crs' locals asg frs frs2,
    compile_rec (S (List.length (p_subs p))) o p None (p_main p) [] = COk crs /\
    assign_slots p crs = COk (crs', locals, asg) /\
    fold_right flat_step (COk []) crs' = COk frs /\
    spill (o_version o) p frs locals = COk frs2 /\
    let L := flatten_subroutines frs2 in
    comps = CPragma (o_version o) :: L /\
    (NoDup (labels_of L) ->
     forallb (fun fr => linkable (fr_ops fr)) frs2 = true ->
     forall cx msel,
       let W := W_spill o cx (look_of asg) msel (fs_subs frs2) (o_version o) p frs locals in
       (forall n, realizes (lenv cx (look_of asg) msel (fs_subs frs2)) L (fs_res frs2)
                           (call_k o cx (look_of asg) msel (fs_subs frs2) W n)) /\
       (forall n fuel stk st h,
          halt_of (denote_k o cx (look_of asg) msel (fs_subs frs2) W n None fuel (root_ast (p_main p)) stk st) = Some h ->
          claimed h ->
          pstar (lenv cx (look_of asg) msel (fs_subs frs2)) L (PAt [] 0 stk st) (emb 0 [] h))).
Proof.
  intros H Ho HL HD HT.
  destruct (program_linked_correct_spill o modes p comps H Ho HL HD)
    as (crs & crs' & locals & asg & frs & frs2 & HR & HA & HF & HS & HC & T).
  exists crs, crs', locals, asg, frs, frs2.
  split; [exact HR|]. split; [exact HA|]. split; [exact HF|]. split; [exact HS|].
  intros L. split; [exact HC|].
  intros ND LK cx msel.
  exact (T (requested_valid_of_table p _ HT) ND LK cx msel).
Qed.
