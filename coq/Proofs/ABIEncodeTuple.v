(* Proofs/ABIEncodeTuple.v — _encode_tuple (ABI/Encode.v: plan / run_heads / encode_tuple_run) computes the
   ARC-4 head/tail encoding (ABI/Spec.v: assemble), and is rejected / fails exactly when an offset does not
   fit a uint16. *)
From Coq Require Import List Arith NArith Ascii String Bool Lia.
From PV Require Import Base.Bytes Base.U64 AVM.Ops ABI.Types ABI.Spec ABI.Encode
  Proofs.ABISpecProof Proofs.ABIEncodeOps Proofs.ABIEncodeDescr Proofs.ABIEncodeBool.
Import ListNotations.
Local Open Scope N_scope.

(* ------------------------------------------------------------------------------------------ *)
(* 1. the ignoreNext loop = an element-by-element pass with pending bools                      *)
(* ------------------------------------------------------------------------------------------ *)
Definition flush (pend : list sval) : list head :=
  match pend with [] => [] | _ => [HBools (rev pend)] end.

Definition dyn_or_static (m : member) (r : list member) : head :=
  if mem_is_dyn m then HDyn (snd m) (existsb mem_is_dyn r) else HStatic (fst m) (snd m).

Definition head_size (m : member) : N := if mem_is_dyn m then 2 else bls (fst m).

(* pend: the cells of the bools of the current run, most recent first *)
Fixpoint plan' (vals : list member) (pend : list sval) : list head * N :=
  match vals with
  | [] => (flush pend, bool_sequence_length (N.of_nat (List.length pend)))
  | m :: r =>
      if mem_is_bool m then plan' r (snd m :: pend)
      else let p := plan' r [] in
           (flush pend ++ dyn_or_static m r :: fst p,
            bool_sequence_length (N.of_nat (List.length pend)) + head_size m + snd p)
  end.

Lemma bsl_0 : bool_sequence_length 0 = 0.
Proof. reflexivity. Qed.

Lemma plan_step_nonbool : forall m r, mem_is_bool m = false ->
    plan (m :: r) 0 = (dyn_or_static m r :: fst (plan r 0), head_size m + snd (plan r 0)).
Proof.
  intros m r H. cbn [plan]. rewrite H. unfold dyn_or_static, head_size.
  destruct (mem_is_dyn m); reflexivity.
Qed.

Lemma plan_eq_gen : forall vals,
    plan vals 0 = plan' vals [] /\
    forall p pend,
      let c := consecutive_true (map mem_is_bool vals) in
      (HBools (rev (p :: pend) ++ map snd (firstn c vals)) :: fst (plan vals c),
       bool_sequence_length (N.of_nat (List.length (p :: pend) + c)) + snd (plan vals c))
      = plan' vals (p :: pend).
Proof.
  induction vals as [|m r [IHA IHB]].
  - split; [reflexivity|]. intros p pend c. subst c. cbn [map consecutive_true firstn plan plan' fst snd flush].
    rewrite app_nil_r, Nat.add_0_r, N.add_0_r. reflexivity.
  - destruct (mem_is_bool m) eqn:Hb.
    + (* a bool *)
      split.
      * cbn [plan]. rewrite Hb. cbn [map consecutive_true]. rewrite Hb.
        replace (S (consecutive_true (map mem_is_bool r)) - 1)%nat with (consecutive_true (map mem_is_bool r)) by lia.
        cbn [firstn map plan']. rewrite Hb.
        specialize (IHB (snd m) []). cbn zeta in IHB. rewrite <- IHB.
        cbn [rev app List.length fst snd]. f_equal.
      * intros p pend c. subst c. cbn [map consecutive_true]. rewrite Hb.
        cbn [plan firstn map plan']. rewrite Hb.
        specialize (IHB (snd m) (p :: pend)). cbn zeta in IHB. rewrite <- IHB.
        f_equal.
        -- f_equal. f_equal. cbn [rev]. rewrite <- !app_assoc. reflexivity.
        -- f_equal. f_equal. f_equal. cbn [List.length]. lia.
    + (* not a bool *)
      split.
      * rewrite (plan_step_nonbool m r Hb). cbn [plan']. rewrite Hb, <- IHA.
        reflexivity.
      * intros p pend c. subst c. cbn [map consecutive_true]. rewrite Hb.
        cbn [firstn map]. rewrite app_nil_r, Nat.add_0_r.
        rewrite (plan_step_nonbool m r Hb). cbn [plan']. rewrite Hb, <- IHA.
        cbn [flush app fst snd]. f_equal. lia.
Qed.

Lemma plan_eq : forall vals, plan vals 0 = plan' vals [].
Proof. intro vals. exact (proj1 (plan_eq_gen vals)). Qed.

(* ------------------------------------------------------------------------------------------ *)
(* 2. members vs the spec's element encodings                                                  *)
(* ------------------------------------------------------------------------------------------ *)
Definition sb (b : bool) : sval := SI (b2N b).

(* what the cell of a member holds, given what the ARC-4 spec encodes for it *)
Inductive rep : member -> eenc -> Prop :=
| rep_bool : forall b, rep (TBool, sb b) (EB b)
| rep_static : forall t v bs,
    is_bool t = false -> py_is_dynamic t = false ->
    elem_encode t v = Some bs -> bls t = blen bs -> rep (t, v) (ES bs)
| rep_dyn : forall t bs, py_is_dynamic t = true -> rep (t, SB bs) (ED bs).

Definition is_ED (e : eenc) : bool := match e with ED _ => true | _ => false end.

Lemma dyn_not_bool : forall t, py_is_dynamic t = true -> is_bool t = false.
Proof. destruct t; simpl; congruence. Qed.

Lemma rep_dyn_flags : forall vals es, Forall2 rep vals es -> existsb mem_is_dyn vals = existsb is_ED es.
Proof.
  intros vals es H. induction H as [|m e r er Hm _ IH]; [reflexivity|].
  cbn [existsb]. rewrite IH. f_equal. destruct Hm; unfold mem_is_dyn; cbn [fst is_ED]; try assumption; reflexivity.
Qed.

(* head_length_static = the spec's head length *)
Lemma hlen_spec : forall vals es, Forall2 rep vals es -> forall pendb,
    snd (plan' vals (map sb pendb)) = head_len es (N.of_nat (List.length pendb)).
Proof.
  intros vals es H. induction H as [|m e r er Hm _ IH]; intro pendb.
  - cbn [plan' snd head_len]. rewrite map_length. apply bool_sequence_length_spec.
  - destruct Hm as [b | t v bs Hb Hd He Hl | t bs Hd].
    + cbn [plan']. unfold mem_is_bool. cbn [fst is_bool snd]. change (sb b :: map sb pendb) with (map sb (b :: pendb)).
      rewrite IH. cbn [head_len List.length]. f_equal. lia.
    + cbn [plan']. unfold mem_is_bool. cbn [fst]. rewrite Hb. cbn [snd head_len].
      change (@nil sval) with (map sb []). rewrite IH. rewrite map_length, bool_sequence_length_spec.
      unfold head_size, mem_is_dyn. cbn [fst]. rewrite Hd, Hl. reflexivity.
    + cbn [plan']. unfold mem_is_bool. cbn [fst]. rewrite (dyn_not_bool t Hd). cbn [snd head_len].
      change (@nil sval) with (map sb []). rewrite IH. rewrite map_length, bool_sequence_length_spec.
      unfold head_size, mem_is_dyn. cbn [fst]. rewrite Hd. reflexivity.
Qed.

(* ------------------------------------------------------------------------------------------ *)
(* 3. facts about the spec's asm                                                               *)
(* ------------------------------------------------------------------------------------------ *)
Lemma asm_overflow : forall es pend off, 65536 <= off -> existsb is_ED es = true -> asm es pend off = None.
Proof.
  induction es as [|e r IH]; intros pend off Hoff Hd; [discriminate|].
  destruct e as [b|bs|bs]; cbn [asm existsb is_ED orb] in *.
  - apply IH; assumption.
  - rewrite (IH [] off Hoff Hd). reflexivity.
  - unfold u16. assert (Hf : (off <? 65536) = false) by (apply N.ltb_ge; exact Hoff). rewrite Hf. reflexivity.
Qed.

Lemma asm_no_dyn : forall es pend off h tl, existsb is_ED es = false -> asm es pend off = Some (h, tl) -> tl = [].
Proof.
  induction es as [|e r IH]; intros pend off h tl Hd H.
  - simpl in H. congruence.
  - destruct e as [b|bs|bs]; cbn [asm existsb is_ED orb] in *.
    + eapply IH; eauto.
    + apply obind_some in H as [[h' tl'] [H1 H2]]. injection H2 as _ <-. eapply IH; eauto.
    + discriminate.
Qed.

(* ------------------------------------------------------------------------------------------ *)
(* 4. running the heads                                                                        *)
(* ------------------------------------------------------------------------------------------ *)
Lemma sv_ints_sb : forall l, sv_ints (map sb l) = Some (map b2N l).
Proof. induction l as [|b r IH]; [reflexivity|]. cbn [map sv_ints sb sv_int obind]. rewrite IH. reflexivity. Qed.

Definition flushparts (pendb : list bool) : list bytes :=
  match pendb with [] => [] | _ => [pack_bools (rev' pendb)] end.

Lemma concat_flushparts : forall pendb, List.concat (flushparts pendb) = pack_bools (rev' pendb).
Proof. intros [|b r]; [reflexivity|]. cbn [flushparts List.concat]. apply app_nil_r. Qed.

Lemma rev'_rev : forall {A} (l : list A), rev' l = rev l.
Proof. intros. unfold rev'. symmetry. apply rev_alt. Qed.

Lemma run_flush : forall lim hls pendb hs st,
    run_heads lim hls (flush (map sb pendb) ++ hs) st =
    option_map (fun r => (flushparts pendb ++ fst r, snd r)) (run_heads lim hls hs st).
Proof.
  intros lim hls pendb hs st. destruct pendb as [|b r].
  - cbn [map flush app flushparts]. destruct (run_heads lim hls hs st) as [[ps st']|]; reflexivity.
  - change (flush (map sb (b :: r))) with [HBools (rev (map sb (b :: r)))].
    cbn [app run_heads run_head]. rewrite <- map_rev, sv_ints_sb. cbn [obind].
    rewrite bool_pack_correct. cbn [option_map obind snd fst].
    destruct (run_heads lim hls hs st) as [[ps st']|]; [|reflexivity].
    cbn [obind option_map fst snd flushparts app]. rewrite rev'_rev. reflexivity.
Qed.

Lemma uint_set_expr_16 : forall x, uint_set_expr 16 x = if x <? 65536 then Some x else None.
Proof. reflexivity. Qed.

Lemma run_static_step : forall hls pendb t v r hs st bs,
    py_is_dynamic t = false -> elem_encode t v = Some bs ->
    run_heads None hls (flush (map sb pendb) ++ dyn_or_static (t, v) r :: hs) st =
    option_map (fun x => (flushparts pendb ++ bs :: fst x, snd x)) (run_heads None hls hs st).
Proof.
  intros hls pendb t v r hs st bs Hd He.
  rewrite run_flush. unfold dyn_or_static, mem_is_dyn. cbn [fst snd]. rewrite Hd.
  cbn [run_heads run_head]. rewrite He. cbn [option_map obind fst snd].
  destruct (run_heads None hls hs st) as [[ps st']|]; reflexivity.
Qed.

Lemma run_dyn_step : forall hls pendb t bs r hs st off,
    py_is_dynamic t = true ->
    (ts_first st = true -> ts_holder st = []) ->
    (if ts_first st then hls else ts_acc st) = off -> off < 65536 ->
    run_heads None hls (flush (map sb pendb) ++ dyn_or_static (t, SB bs) r :: hs) st =
    if existsb mem_is_dyn r then
      if off + blen bs <? 65536 then
        option_map (fun x => (flushparts pendb ++ be_encode 2 off :: fst x, snd x))
                   (run_heads None hls hs (mkTS false (ts_holder st ++ bs) (off + blen bs)))
      else None
    else
      option_map (fun x => (flushparts pendb ++ be_encode 2 off :: fst x, snd x))
                 (run_heads None hls hs (mkTS false (ts_holder st ++ bs) (ts_acc st))).
Proof.
  intros hls pendb t bs r hs st off Hd Hh Hoffeq Hofflt.
  rewrite run_flush. unfold dyn_or_static, mem_is_dyn at 1. cbn [fst snd]. rewrite Hd.
  cbn [run_heads run_head sv_bytes obind].
  assert (Hholder : (if ts_first st then Some bs else x_concat None (ts_holder st) bs) = Some (ts_holder st ++ bs)).
  { destruct (ts_first st) eqn:Hf; [rewrite (Hh eq_refl); reflexivity | reflexivity]. }
  rewrite Hholder. cbn [obind]. rewrite Hoffeq, uint_encode_16.
  destruct (existsb mem_is_dyn r).
  - rewrite uint_set_expr_16. destruct (off + blen bs <? 65536); [|reflexivity].
    cbn [obind option_map fst snd].
    destruct (run_heads None hls hs _) as [[ps st']|]; reflexivity.
  - cbn [obind option_map fst snd].
    destruct (run_heads None hls hs _) as [[ps st']|]; reflexivity.
Qed.

Lemma run_heads_correct : forall vals es, Forall2 rep vals es -> forall pendb st off hls,
    (ts_first st = true -> ts_holder st = []) ->
    (existsb mem_is_dyn vals = true -> (if ts_first st then hls else ts_acc st) = off /\ off < 65536) ->
    match asm es pendb off with
    | Some ht =>
        exists parts st',
          run_heads None hls (fst (plan' vals (map sb pendb))) st = Some (parts, st')
          /\ List.concat parts = fst ht
          /\ ts_holder st' = ts_holder st ++ snd ht
          /\ ts_first st' = ts_first st && negb (existsb mem_is_dyn vals)
    | None => run_heads None hls (fst (plan' vals (map sb pendb))) st = None
    end.
Proof.
  intros vals es H. induction H as [|m e r er Hm Hr IH]; intros pendb st off hls Hh Hoff.
  - (* end of the members *)
    cbn [asm plan' fst snd]. exists (flushparts pendb), st.
    rewrite <- (app_nil_r (flush (map sb pendb))), run_flush. cbn [run_heads option_map fst snd].
    rewrite !app_nil_r, concat_flushparts, andb_true_r. repeat split; reflexivity.
  - destruct Hm as [b | t v bs Hb Hd He Hl | t bs Hd].
    + (* bool: joins the pending run *)
      cbn [asm plan']. unfold mem_is_bool. cbn [fst is_bool snd].
      change (sb b :: map sb pendb) with (map sb (b :: pendb)).
      change (existsb mem_is_dyn ((TBool, sb b) :: r)) with (existsb mem_is_dyn r) in *.
      apply IH; assumption.
    + (* static member *)
      assert (Hnd : forall x : member, x = (t, v) -> existsb mem_is_dyn (x :: r) = existsb mem_is_dyn r).
      { intros x ->. cbn [existsb]. unfold mem_is_dyn at 1. cbn [fst]. rewrite Hd. reflexivity. }
      assert (Hoff' : existsb mem_is_dyn r = true -> (if ts_first st then hls else ts_acc st) = off /\ off < 65536).
      { intro Hx. apply Hoff. rewrite (Hnd _ eq_refl). exact Hx. }
      specialize (IH [] st off hls Hh Hoff'). cbn [map] in IH.
      cbn [asm plan']. unfold mem_is_bool. cbn [fst]. rewrite Hb. cbn [fst snd].
      destruct (asm er [] off) as [ht|]; cbn [obind].
      * destruct IH as [parts [st' [Hrun [Hc [Hho Hf]]]]].
        exists (flushparts pendb ++ bs :: parts), st'.
        rewrite (run_static_step hls pendb t v r _ st bs Hd He), Hrun, (Hnd _ eq_refl). cbn [option_map fst snd].
        repeat split; try assumption.
        rewrite concat_app, concat_flushparts. cbn [List.concat]. rewrite Hc. reflexivity.
      * rewrite (run_static_step hls pendb t v r _ st bs Hd He), IH. reflexivity.
    + (* dynamic member *)
      assert (Hnd : forall x : member, x = (t, SB bs) -> existsb mem_is_dyn (x :: r) = true).
      { intros x ->. cbn [existsb]. unfold mem_is_dyn at 1. cbn [fst]. rewrite Hd. reflexivity. }
      destruct (Hoff (Hnd _ eq_refl)) as [Hoffeq Hofflt]. clear Hoff.
      cbn [asm plan']. unfold mem_is_bool. cbn [fst]. rewrite (dyn_not_bool t Hd). cbn [fst snd].
      rewrite (run_dyn_step hls pendb t bs r _ st off Hd Hh Hoffeq Hofflt).
      unfold u16. pose proof Hofflt as Hofflt'. apply N.ltb_lt in Hofflt'. rewrite Hofflt'. cbn [obind].
      rewrite (Hnd _ eq_refl). cbn [negb]. rewrite andb_false_r.
      destruct (existsb mem_is_dyn r) eqn:Hnext.
      * (* another dynamic member follows: the accumulator is range-checked *)
        destruct (N.ltb_spec (off + blen bs) 65536) as [Hlt|Hge].
        -- specialize (IH [] (mkTS false (ts_holder st ++ bs) (off + blen bs)) (off + blen bs) hls).
           cbn [map ts_first ts_holder ts_acc] in IH.
           specialize (IH ltac:(discriminate) ltac:(intros _; split; [reflexivity | exact Hlt])).
           destruct (asm er [] (off + blen bs)) as [ht|]; cbn [obind].
           ++ destruct IH as [parts [st' [Hrun [Hc [Hho Hf]]]]].
              exists (flushparts pendb ++ be_encode 2 off :: parts), st'. rewrite Hrun. cbn [option_map fst snd].
              repeat split.
              ** rewrite concat_app, concat_flushparts. cbn [List.concat]. rewrite Hc. reflexivity.
              ** rewrite Hho, <- app_assoc. reflexivity.
              ** exact Hf.
           ++ rewrite IH. reflexivity.
        -- rewrite (asm_overflow er [] (off + blen bs) Hge) by (rewrite <- (rep_dyn_flags _ _ Hr); exact Hnext).
           reflexivity.
      * (* the last dynamic member: the accumulator is not touched *)
        specialize (IH [] (mkTS false (ts_holder st ++ bs) (ts_acc st)) (off + blen bs) hls).
        cbn [map ts_first ts_holder ts_acc] in IH.
        specialize (IH ltac:(discriminate) ltac:(discriminate)).
        destruct (asm er [] (off + blen bs)) as [ht|]; cbn [obind].
        -- destruct IH as [parts [st' [Hrun [Hc [Hho Hf]]]]].
           exists (flushparts pendb ++ be_encode 2 off :: parts), st'. rewrite Hrun. cbn [option_map fst snd].
           repeat split.
           ++ rewrite concat_app, concat_flushparts. cbn [List.concat]. rewrite Hc. reflexivity.
           ++ rewrite Hho, <- app_assoc. reflexivity.
           ++ exact Hf.
        -- rewrite IH. reflexivity.
Qed.

(* ------------------------------------------------------------------------------------------ *)
(* 5. the theorem                                                                              *)
(* ------------------------------------------------------------------------------------------ *)
Theorem encode_tuple_correct : forall vals es, Forall2 rep vals es ->
    (encode_tuple_ok vals = true -> encode_tuple_run None vals = assemble es) /\
    (encode_tuple_ok vals = false -> assemble es = None).
Proof.
  intros vals es H.
  assert (Hhls : snd (plan vals 0) = head_len es 0).
  { rewrite plan_eq. exact (hlen_spec vals es H []). }
  pose proof (rep_dyn_flags vals es H) as Hflags.
  unfold encode_tuple_ok, encode_tuple_run, assemble. rewrite Hhls. split; intro Hok.
  - rewrite plan_eq.
    pose proof (run_heads_correct vals es H [] (mkTS true [] 0) (head_len es 0) (head_len es 0)) as Hrun.
    cbn [map ts_first ts_holder ts_acc] in Hrun.
    specialize (Hrun ltac:(reflexivity)).
    assert (Hpre : existsb mem_is_dyn vals = true -> head_len es 0 = head_len es 0 /\ head_len es 0 < 65536).
    { intro Hd. rewrite Hd in Hok. apply N.ltb_lt in Hok. split; [reflexivity | exact Hok]. }
    specialize (Hrun Hpre).
    destruct (asm es [] (head_len es 0)) as [[h tl]|] eqn:Hasm.
    + destruct Hrun as [parts [st' [Hr [Hc [Hho Hf]]]]]. cbn [fst snd] in Hc, Hho. rewrite Hr. cbn [obind fst snd].
      rewrite concat_all_none. rewrite Hf. cbn [andb].
      destruct (existsb mem_is_dyn vals) eqn:Hd in |- *; cbn [negb].
      * rewrite concat_app, Hc, Hho. cbn [List.concat app]. rewrite app_nil_r. reflexivity.
      * rewrite Hc. rewrite Hd in Hflags. symmetry in Hflags.
        rewrite (asm_no_dyn es [] _ h tl Hflags Hasm), app_nil_r. reflexivity.
    + rewrite Hrun. reflexivity.
  - destruct (existsb mem_is_dyn vals) eqn:Hd; [|discriminate].
    apply N.ltb_ge in Hok. rewrite asm_overflow; [reflexivity | exact Hok | rewrite <- Hflags; reflexivity].
Qed.
